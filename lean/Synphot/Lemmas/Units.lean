import Mathlib.Tactic.Ring
import Mathlib.Tactic.FieldSimp
import Mathlib.Tactic.Linarith
import Mathlib.Tactic.Positivity
import Synphot.Core.Units

set_option linter.unusedSectionVars false
set_option linter.unusedSimpArgs false
set_option linter.unusedVariables false

namespace Synphot
variable {K : Type} [Field K] [LinearOrder K] [IsStrictOrderedRing K]

structure PhysConst.Pos (P : PhysConst K) : Prop where
  h : 0 < P.h
  c : 0 < P.c
  st : 0 < P.stZero
  ab : 0 < P.abZero
  jy : 0 < P.jyFnu

structure Samp.Pos (s : Samp K) : Prop where
  lam : 0 < s.lam
  cf : ∀ w, s.countFactor = some w → 0 < w
  vega : ∀ v, s.vega = some v → 0 < v

def FluxUnit.Pos : FluxUnit K → Prop
  | .jy k => 0 < k
  | _ => True

theorem toMag_ok {T : Transc K} {x m : K} (h : toMag T x = .ok m) : 0 < x ∧ m = -(5/2) * T.log10 x := by
  unfold toMag at h
  split_ifs at h with hx
  · exact ⟨not_le.mp hx, by injection h with h; exact h.symm⟩

theorem ofMag_pos {T : Transc K} (hT : T.Lawful) (m : K) : 0 < ofMag T m := hT.pow10_pos _

theorem ofMag_toMag {T : Transc K} (hT : T.Lawful) {x m : K} (h : toMag T x = .ok m) : ofMag T m = x := by
  obtain ⟨hx, rfl⟩ := toMag_ok h
  unfold ofMag
  have : -(2/5 : K) * (-(5/2) * T.log10 x) = T.log10 x := by ring
  rw [this, hT.pow10_log10 x hx]

theorem toMag_ofMag {T : Transc K} (hT : T.Lawful) (m : K) : toMag T (ofMag T m) = .ok m := by
  unfold toMag
  rw [if_neg (not_le.mpr (ofMag_pos hT m))]
  unfold ofMag
  rw [hT.log10_pow10]
  congr 1; ring

/-- `toMag` depends only on the value -/
theorem toMag_congr {T : Transc K} {x y : K} (h : x = y) : toMag T x = toMag T y := by rw [h]

section roundtrip
variable {P : PhysConst K} {T : Transc K} {s : Samp K}

/-- PHOTLAM → u → PHOTLAM is the identity whenever the first step succeeds -/
theorem toPhotlam_ofPhotlam (hP : P.Pos) (hT : T.Lawful) (hs : s.Pos) (u : FluxUnit K) (hu : u.Pos)
    {p g : K} (h : ofPhotlam P T s u p = .ok g) : toPhotlam P T s u g = .ok p := by
  have hh := hP.h; have hc := hP.c; have hst := hP.st; have hab := hP.ab; have hjy := hP.jy
  have hl := hs.lam
  have hhne := ne_of_gt hh; have hcne := ne_of_gt hc; have hlne := ne_of_gt hl
  cases u with
  | photlam =>
    simp only [ofPhotlam, toPhotlam] at h ⊢
    injection h with h; subst h; rfl
  | photnu =>
    simp only [ofPhotlam, toPhotlam] at h ⊢
    injection h with h; subst h; congr 1; field_simp
  | flam =>
    simp only [ofPhotlam, toPhotlam] at h ⊢
    injection h with h; subst h; congr 1; field_simp
  | fnu =>
    simp only [ofPhotlam, toPhotlam] at h ⊢
    injection h with h; subst h; congr 1; field_simp
  | jy k =>
    have hk : 0 < k := hu
    have hkne := ne_of_gt hk; have hjne := ne_of_gt hjy
    simp only [ofPhotlam, toPhotlam] at h ⊢
    injection h with h; subst h; congr 1; field_simp
  | stmag =>
    simp only [ofPhotlam, toPhotlam] at h ⊢
    rw [ofMag_toMag hT h]; congr 1
    have := ne_of_gt hst; field_simp
  | abmag =>
    simp only [ofPhotlam, toPhotlam] at h ⊢
    rw [ofMag_toMag hT h]; congr 1
    have := ne_of_gt hab; field_simp
  | count =>
    simp only [ofPhotlam, toPhotlam] at h ⊢
    cases hcf : s.countFactor with
    | none => rw [hcf] at h; cases h
    | some w =>
      rw [hcf] at h; simp only at h ⊢
      have := ne_of_gt (hs.cf w hcf)
      injection h with h; subst h; congr 1; field_simp
  | obmag =>
    simp only [ofPhotlam, toPhotlam] at h ⊢
    cases hcf : s.countFactor with
    | none => rw [hcf] at h; cases h
    | some w =>
      rw [hcf] at h; simp only at h ⊢
      have := ne_of_gt (hs.cf w hcf)
      rw [ofMag_toMag hT h]; congr 1; field_simp
  | vegamag =>
    simp only [ofPhotlam, toPhotlam] at h ⊢
    cases hv : s.vega with
    | none => rw [hv] at h; cases h
    | some v =>
      rw [hv] at h; simp only at h ⊢
      have := ne_of_gt (hs.vega v hv)
      rw [ofMag_toMag hT h]; congr 1; field_simp

/-- u → PHOTLAM → u is the identity whenever the first step succeeds -/
theorem ofPhotlam_toPhotlam (hP : P.Pos) (hT : T.Lawful) (hs : s.Pos) (u : FluxUnit K) (hu : u.Pos)
    {f p : K} (h : toPhotlam P T s u f = .ok p) : ofPhotlam P T s u p = .ok f := by
  have hh := hP.h; have hc := hP.c; have hst := hP.st; have hab := hP.ab; have hjy := hP.jy
  have hl := hs.lam
  have hhne := ne_of_gt hh; have hcne := ne_of_gt hc; have hlne := ne_of_gt hl
  cases u with
  | photlam =>
    simp only [ofPhotlam, toPhotlam] at h ⊢
    injection h with h; subst h; rfl
  | photnu =>
    simp only [ofPhotlam, toPhotlam] at h ⊢
    injection h with h; subst h; congr 1; field_simp
  | flam =>
    simp only [ofPhotlam, toPhotlam] at h ⊢
    injection h with h; subst h; congr 1; field_simp
  | fnu =>
    simp only [ofPhotlam, toPhotlam] at h ⊢
    injection h with h; subst h; congr 1; field_simp
  | jy k =>
    have hk : 0 < k := hu
    have hkne := ne_of_gt hk; have hjne := ne_of_gt hjy
    simp only [ofPhotlam, toPhotlam] at h ⊢
    injection h with h; subst h; congr 1; field_simp
  | stmag =>
    simp only [ofPhotlam, toPhotlam] at h ⊢
    injection h with h; subst h
    have hstne := ne_of_gt hst
    have e : ofMag T f * P.stZero * s.lam / (P.h * P.c) * (P.h * P.c) / s.lam / P.stZero = ofMag T f := by
      field_simp
    rw [toMag_congr e, toMag_ofMag hT]
  | abmag =>
    simp only [ofPhotlam, toPhotlam] at h ⊢
    injection h with h; subst h
    have habne := ne_of_gt hab
    have e : ofMag T f * P.abZero * P.c / s.lam ^ 2 * s.lam / (P.h * P.c) * (P.h * P.c) / s.lam * s.lam ^ 2 / P.c / P.abZero
        = ofMag T f := by field_simp
    rw [toMag_congr e, toMag_ofMag hT]
  | count =>
    simp only [ofPhotlam, toPhotlam] at h ⊢
    cases hcf : s.countFactor with
    | none => rw [hcf] at h; cases h
    | some w =>
      rw [hcf] at h; simp only at h ⊢
      have := ne_of_gt (hs.cf w hcf)
      injection h with h; subst h; congr 1; field_simp
  | obmag =>
    simp only [ofPhotlam, toPhotlam] at h ⊢
    cases hcf : s.countFactor with
    | none => rw [hcf] at h; cases h
    | some w =>
      rw [hcf] at h; simp only at h ⊢
      have := ne_of_gt (hs.cf w hcf)
      injection h with h; subst h
      have e : ofMag T f / w * w = ofMag T f := by field_simp
      rw [toMag_congr e, toMag_ofMag hT]
  | vegamag =>
    simp only [ofPhotlam, toPhotlam] at h ⊢
    cases hv : s.vega with
    | none => rw [hv] at h; cases h
    | some v =>
      rw [hv] at h; simp only at h ⊢
      have := ne_of_gt (hs.vega v hv)
      injection h with h; subst h
      have e : ofMag T f * v / v = ofMag T f := by field_simp
      rw [toMag_congr e, toMag_ofMag hT]

end roundtrip
end Synphot
