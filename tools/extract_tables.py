#!/usr/bin/env python3
"""Regenerate lean/Synphot/Generated/Tables.lean from the literal decision tables of /repo.

    extract_tables.py --repo DIR --out FILE

The source is read with `ast` only (nothing of synphot is imported or executed apart from the
module-level unit definitions of units.py, see `unit_ids`).  The output file is rewritten only when
its content changes (so `lake build` stays a no-op on an unchanged source).

exit 0: table written / already up to date
exit 3: the source no longer has the shape the extractor understands (the caller keeps the committed
        baseline table and validates it against the running code instead; DESIGN.md 3.2)

Sections (add a function `section_xxx(repo) -> str` and list it in SECTIONS):
  * validate_unit  — the if/elif name chain of synphot/units.py:validate_unit
  * specio         — keyword defaults of specio.write_fits_spec / read_fits_spec / read_ascii_spec
  * specio shapes  — how the TUNIT string is formed; where fits.open stands relative to the try/finally
"""
import argparse
import ast
import os
import sys
import tempfile


class Unrecognised(Exception):
    pass


def lean_str(s):
    out = ['"']
    for ch in s:
        if ch == '"':
            out.append('\\"')
        elif ch == '\\':
            out.append('\\\\')
        elif ch == '\n':
            out.append('\\n')
        elif ch == '\t':
            out.append('\\t')
        elif ord(ch) < 32 or ord(ch) > 126:
            out.append('\\u{%x}' % ord(ch))
        else:
            out.append(ch)
    out.append('"')
    return ''.join(out)


def parse_file(path):
    try:
        with open(path) as f:
            return ast.parse(f.read(), filename=path)
    except (OSError, SyntaxError) as e:
        raise Unrecognised('cannot parse %s: %s' % (path, e))


def find_func(tree, name):
    for node in tree.body:
        if isinstance(node, ast.FunctionDef) and node.name == name:
            return node
    raise Unrecognised('function %s not found' % name)


# --------------------------------------------------------------------------- validate_unit
# canonical unit id = astropy's generic string of the unit of the branch ("" = dimensionless).
# Known right-hand sides, used when astropy cannot be imported by the interpreter running this tool.
STATIC_IDS = {
    'u.AA': 'Angstrom', 'u.micron ** (-1)': '1 / micron', 'u.micron ** -1': '1 / micron', 'THROUGHPUT': '', 'u.Jy': 'Jy', 'FLAM': 'FLAM',
    'FNU': 'FNU', 'PHOTLAM': 'PHOTLAM', 'PHOTNU': 'PHOTNU', 'u.dimensionless_unscaled': '', 'u.s': 's',
    'u.STmag': 'mag(ST)', 'u.ABmag': 'mag(AB)', 'OBMAG': 'mag(OB)', 'VEGAMAG': 'mag(VEGA)',
}


def unit_ids(tree, exprs):
    """astropy's generic string of every right-hand side of the chain.  The expressions are evaluated in
    a namespace holding `astropy.units as u`, `astropy.constants as const` and the module-level
    assignments of units.py (PHOTLAM = u.def_unit(...), OBMAG = u.mag(...), THROUGHPUT = ...)."""
    try:
        import warnings
        with warnings.catch_warnings():
            warnings.simplefilter('ignore')
            import astropy.units as u
            from astropy import constants as const
    except Exception:
        out = {}
        for e in exprs:
            if e not in STATIC_IDS:
                raise Unrecognised('unit expression %r is not in the static table and astropy is not importable' % e)
            out[e] = STATIC_IDS[e]
        return out
    ns = {'u': u, 'const': const}
    for node in tree.body:
        if isinstance(node, ast.Assign) and all(isinstance(t, ast.Name) for t in node.targets):
            try:
                exec(compile(ast.Module([node], []), '<units.py>', 'exec'), ns)
            except Exception:
                pass
    out = {}
    for e in exprs:
        try:
            val = eval(e, ns)
            out[e] = val.to_string()
        except Exception as ex:
            if e in STATIC_IDS:
                out[e] = STATIC_IDS[e]
            else:
                raise Unrecognised('cannot evaluate unit expression %r: %s' % (e, ex))
        if not isinstance(out[e], str):
            raise Unrecognised('unit expression %r has no string form' % e)
    return out


def is_name(node, name):
    return isinstance(node, ast.Name) and node.id == name


def section_validate_unit(repo):
    tree = parse_file(os.path.join(repo, 'synphot', 'units.py'))
    fn = find_func(tree, 'validate_unit')
    if not fn.args.args:
        raise Unrecognised('validate_unit has no argument')
    arg = fn.args.args[0].arg
    top = None
    for node in fn.body:
        if (isinstance(node, ast.If) and isinstance(node.test, ast.Call) and is_name(node.test.func, 'isinstance')
                and len(node.test.args) == 2 and is_name(node.test.args[0], arg) and is_name(node.test.args[1], 'str')):
            top = node
            break
    if top is None:
        raise Unrecognised('validate_unit: no `if isinstance(%s, str)` branch' % arg)
    body = list(top.body)
    # the key is the lower-cased input:  <low> = <arg>.lower()
    if not body or not isinstance(body[0], ast.Assign) or len(body[0].targets) != 1 \
            or not isinstance(body[0].targets[0], ast.Name):
        raise Unrecognised('validate_unit: the string branch does not start with the lower-casing assignment')
    low = body[0].targets[0].id
    v = body[0].value
    if not (isinstance(v, ast.Call) and not v.args and not v.keywords and isinstance(v.func, ast.Attribute)
            and v.func.attr == 'lower' and is_name(v.func.value, arg)):
        raise Unrecognised('validate_unit: the comparison key is not `%s.lower()`' % arg)
    if len(body) != 2 or not isinstance(body[1], ast.If):
        raise Unrecognised('validate_unit: expected exactly one if/elif chain after the lower-casing')
    groups = []          # (names, expr source)
    node = body[1]
    outvar = None
    fallback = None
    while True:
        t = node.test
        if not (isinstance(t, ast.Compare) and is_name(t.left, low) and len(t.ops) == 1 and len(t.comparators) == 1):
            raise Unrecognised('validate_unit: unexpected test at line %d' % node.lineno)
        c = t.comparators[0]
        if isinstance(t.ops[0], ast.Eq) and isinstance(c, ast.Constant) and isinstance(c.value, str):
            names = [c.value]
        elif isinstance(t.ops[0], ast.In) and isinstance(c, (ast.Tuple, ast.List)) and c.elts and all(
                isinstance(e, ast.Constant) and isinstance(e.value, str) for e in c.elts):
            names = [e.value for e in c.elts]
        else:
            raise Unrecognised('validate_unit: unexpected comparison at line %d' % node.lineno)
        if len(node.body) != 1 or not isinstance(node.body[0], ast.Assign) or len(node.body[0].targets) != 1 \
                or not isinstance(node.body[0].targets[0], ast.Name):
            raise Unrecognised('validate_unit: branch at line %d is not a single assignment' % node.lineno)
        tv = node.body[0].targets[0].id
        if outvar is None:
            outvar = tv
        elif tv != outvar:
            raise Unrecognised('validate_unit: branch at line %d assigns %s, not %s' % (node.lineno, tv, outvar))
        for n in names:
            if n != n.lower():
                raise Unrecognised('validate_unit: name %r is compared with a lower-cased key but is not lower case' % n)
        groups.append((names, ast.unparse(node.body[0].value)))
        if len(node.orelse) == 1 and isinstance(node.orelse[0], ast.If):
            node = node.orelse[0]
            continue
        # final else: try u.Unit(input) except ValueError: u.Unit(lower)
        fallback = classify_fallback(node.orelse, arg, low, outvar)
        break
    seen = set()
    for names, _ in groups:
        for n in names:
            if n in seen:
                raise Unrecognised('validate_unit: name %r occurs twice in the chain' % n)
            seen.add(n)
    ids = unit_ids(tree, sorted({e for _, e in groups}))
    lines = []
    lines.append('/-- the `if/elif` chain of `units.validate_unit` on strings, in source order: the names the')
    lines.append('lower-cased input is compared with, and the unit the branch returns (astropy\'s generic string')
    lines.append('of the unit; `""` is the dimensionless unit) -/')
    lines.append('def unitNameGroups : List (List String × String) := [')
    lines.append(',\n'.join('  ([%s], %s)' % (', '.join(lean_str(n) for n in names), lean_str(ids[e]))
                            for names, e in groups))
    lines.append(']')
    lines.append('')
    lines.append('/-- the same chain flattened: lower-case name ↦ unit -/')
    lines.append('def unitNameTable : List (String × String) := [')
    lines.append(',\n'.join('  (%s, %s)' % (lean_str(n), lean_str(ids[e])) for names, e in groups for n in names))
    lines.append(']')
    lines.append('')
    lines.append('/-- lower-case name ↦ the right-hand side as written in the source -/')
    lines.append('def unitNameSource : List (String × String) := [')
    lines.append(',\n'.join('  (%s, %s)' % (lean_str(n), lean_str(e)) for names, e in groups for n in names))
    lines.append(']')
    lines.append('')
    lines.append('/-- what the final `else` of the chain does with a name that is not in the table:')
    lines.append('`"exact_then_lower"` = `u.Unit(input)`, on `ValueError` `u.Unit(input.lower())` -/')
    lines.append('def unitNameFallback : String := %s' % lean_str(fallback))
    return '\n'.join(lines)


def classify_fallback(orelse, arg, low, outvar):
    def unit_call(node, name):
        return (isinstance(node, ast.Assign) and len(node.targets) == 1 and is_name(node.targets[0], outvar)
                and isinstance(node.value, ast.Call) and ast.unparse(node.value.func) == 'u.Unit'
                and len(node.value.args) == 1 and is_name(node.value.args[0], name) and not node.value.keywords)
    if len(orelse) == 1 and isinstance(orelse[0], ast.Try):
        tr = orelse[0]
        if (len(tr.body) == 1 and unit_call(tr.body[0], arg) and len(tr.handlers) == 1
                and tr.handlers[0].type is not None and ast.unparse(tr.handlers[0].type) == 'ValueError'
                and len(tr.handlers[0].body) == 1 and unit_call(tr.handlers[0].body[0], low)
                and not tr.orelse and not tr.finalbody):
            return 'exact_then_lower'
    raise Unrecognised('validate_unit: the final else is not `try: u.Unit(%s) except ValueError: u.Unit(%s)`' % (arg, low))


# --------------------------------------------------------------------------- specio defaults
def kw_defaults(fn):
    args = fn.args.args
    defaults = fn.args.defaults
    out = []
    for a, d in zip(args[len(args) - len(defaults):], defaults):
        out.append((a.arg, ast.unparse(d)))
    for a, d in zip(fn.args.kwonlyargs, fn.args.kw_defaults):
        if d is not None:
            out.append((a.arg, ast.unparse(d)))
    return out


def section_specio(repo):
    tree = parse_file(os.path.join(repo, 'synphot', 'specio.py'))
    lines = []
    for fname, lname, need in (('write_fits_spec', 'writeFitsDefaults', ('trim_zero', 'pad_zero_ends', 'precision', 'epsilon')),
                               ('read_fits_spec', 'readFitsDefaults', ('ext', 'wave_col', 'flux_col')),
                               ('read_ascii_spec', 'readAsciiDefaults', ('wave_unit', 'flux_unit'))):
        fn = find_func(tree, fname)
        kws = kw_defaults(fn)
        for n in need:
            if n not in dict(kws):
                raise Unrecognised('%s has no keyword default for %s' % (fname, n))
        lines.append('/-- keyword ↦ default (source text) of `specio.%s` -/' % fname)
        lines.append('def %s : List (String × String) := [' % lname)
        lines.append(',\n'.join('  (%s, %s)' % (lean_str(k), lean_str(v)) for k, v in kws))
        lines.append(']')
        lines.append('')
    return '\n'.join(lines).rstrip('\n')


# --------------------------------------------------------------------------- specio code shapes
def section_specio_shapes(repo):
    """two small decisions of specio.py that theorems depend on, recognised structurally:
    how write_fits_spec turns a unit into the TUNIT string, and whether fits.open sits inside the
    try/finally of read_fits_spec"""
    tree = parse_file(os.path.join(repo, 'synphot', 'specio.py'))
    wfn = find_func(tree, 'write_fits_spec')
    # --- unit emission
    emission = None
    for node in ast.walk(wfn):
        if isinstance(node, ast.Assign) and len(node.targets) == 1 and is_name(node.targets[0], 'wave_unit'):
            src = ast.unparse(node.value)
            if src == 'units.validate_unit(wave_unit).to_string().upper()':
                emission = 'upper_always'
            elif src == 'units.validate_unit(wave_unit).to_string()':
                emission = 'keep_case'
            elif src == '_unit_to_fits_str(units.validate_unit(wave_unit))':
                emission = classify_unit_to_fits_str(tree)
    if emission is None:
        raise Unrecognised('write_fits_spec: the assignment of the TUNIT string of wave_unit was not recognised')
    for node in ast.walk(wfn):
        if isinstance(node, ast.Assign) and len(node.targets) == 1 and is_name(node.targets[0], 'flux_unit') \
                and 'validate_unit' in ast.unparse(node.value):
            if ast.unparse(node.value).replace('flux_unit', 'wave_unit') not in (
                    'units.validate_unit(wave_unit).to_string().upper()', 'units.validate_unit(wave_unit).to_string()',
                    '_unit_to_fits_str(units.validate_unit(wave_unit))'):
                raise Unrecognised('write_fits_spec: the TUNIT string of flux_unit is formed differently')
    # --- position of fits.open relative to the try/finally of read_fits_spec
    rfn = find_func(tree, 'read_fits_spec')
    tries = [n for n in rfn.body if isinstance(n, ast.Try)]
    if len(tries) != 1 or not tries[0].finalbody:
        raise Unrecognised('read_fits_spec: expected exactly one try/finally at function level')

    def opens(stmts):
        return any(isinstance(n, ast.Assign) and ast.unparse(n.value).startswith('fits.open(')
                   for st in stmts for n in ast.walk(st))
    before = opens(rfn.body[:rfn.body.index(tries[0])])
    inside = opens(tries[0].body)
    if before == inside:
        raise Unrecognised('read_fits_spec: position of fits.open relative to the try/finally not recognised')
    closes = 'fs.close()' in ''.join(ast.unparse(n) for n in tries[0].finalbody)
    if not closes:
        raise Unrecognised('read_fits_spec: the finally block does not close the file')
    lines = ['/-- how `write_fits_spec` forms the `TUNITn` string of a validated unit: `"upper_if_same_unit"` =',
             '`_unit_to_fits_str` (upper case only if `validate_unit` maps the upper-cased string back to the same',
             'unit, `ValueError` keeps the case); `"upper_always"` = `.to_string().upper()`; `"keep_case"` -/',
             'def unitEmission : String := %s' % lean_str(emission), '',
             '/-- where `fs = fits.open(filename)` stands in `read_fits_spec`: `"before_try"` or `"inside_try"`',
             '(the `finally` block calls `fs.close()`) -/',
             'def fitsOpenPosition : String := %s' % lean_str('before_try' if before else 'inside_try')]
    return '\n'.join(lines)


def classify_unit_to_fits_str(tree):
    fn = find_func(tree, '_unit_to_fits_str')
    if len(fn.args.args) != 1:
        raise Unrecognised('_unit_to_fits_str: one argument expected')
    arg = fn.args.args[0].arg
    body = [n for n in fn.body if not (isinstance(n, ast.Expr) and isinstance(n.value, ast.Constant))]
    ok = (len(body) == 3 and isinstance(body[0], ast.Assign) and len(body[0].targets) == 1
          and isinstance(body[0].targets[0], ast.Name) and ast.unparse(body[0].value) == '%s.to_string()' % arg
          and isinstance(body[1], ast.Try) and isinstance(body[2], ast.Return))
    if ok:
        var = body[0].targets[0].id
        tr = body[1]
        ok = (len(tr.body) == 1 and isinstance(tr.body[0], ast.If) and not tr.body[0].orelse
              and ast.unparse(tr.body[0].test) == 'units.validate_unit(%s.upper()) == %s' % (var, arg)
              and len(tr.body[0].body) == 1 and ast.unparse(tr.body[0].body[0]) == '%s = %s.upper()' % (var, var)
              and len(tr.handlers) == 1 and tr.handlers[0].type is not None
              and ast.unparse(tr.handlers[0].type) == 'ValueError'
              and len(tr.handlers[0].body) == 1 and isinstance(tr.handlers[0].body[0], ast.Pass)
              and not tr.orelse and not tr.finalbody and is_name(body[2].value, var))
    if not ok:
        raise Unrecognised('_unit_to_fits_str does not have the recognised shape')
    return 'upper_if_same_unit'


SECTIONS = [section_validate_unit, section_specio, section_specio_shapes]

HEADER = '''/-
  GENERATED by tools/extract_tables.py from the working tree of the repository under test
  (synphot/units.py, synphot/specio.py).  Do not edit: the file is rewritten on every `./check`
  when the source tables change; the committed copy is the baseline used when the extractor no
  longer recognises the source.
-/
namespace Synphot.Generated
'''


def generate(repo):
    parts = [HEADER]
    for sec in SECTIONS:
        parts.append(sec(repo))
        parts.append('')
    parts.append('end Synphot.Generated\n')
    return '\n'.join(parts)


def main():
    ap = argparse.ArgumentParser()
    ap.add_argument('--repo', default='/repo')
    ap.add_argument('--out', required=True)
    a = ap.parse_args()
    try:
        text = generate(a.repo)
    except Unrecognised as e:
        print('extract_tables: source pattern not recognised: %s' % e)
        return 3
    old = None
    if os.path.exists(a.out):
        with open(a.out) as f:
            old = f.read()
    if old == text:
        print('extract_tables: up to date')
        return 0
    os.makedirs(os.path.dirname(os.path.abspath(a.out)), exist_ok=True)
    fd, tmp = tempfile.mkstemp(prefix='.Tables.', suffix='.tmp', dir=os.path.dirname(os.path.abspath(a.out)))
    with os.fdopen(fd, 'w') as f:
        f.write(text)
    os.replace(tmp, a.out)
    print('extract_tables: rewritten %s' % a.out)
    return 0


if __name__ == '__main__':
    sys.exit(main())
