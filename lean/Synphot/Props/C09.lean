/-
  C09 — Effective stimulus and effective wavelength follow their defining integrals.

  `effstim` / `effectiveWavelength` (Core/ObsPhot.lean) are transcriptions of the two methods; the
  theorems below are about the sums they form.  `xs` are sampling wavelengths, `P` the bandpass
  samples; a flat source makes the observation's FLAM samples `v·P`, `v·c/λ²·P`, ….
-/
import Synphot.Lemmas.ObsPhot
import Synphot.Lemmas.Trapz
import Synphot.Lemmas.Units
import Synphot.Lemmas.C09x
import Synphot.Lemmas.TranscReal

set_option linter.unusedSectionVars false
set_option linter.unusedVariables false
set_option linter.unusedSimpArgs false

namespace Synphot.C09
open Synphot
variable {K : Type} [Field K] [LinearOrder K] [IsStrictOrderedRing K]

/- `timesLam`, `overLam`, `effstimFlam` (the list forms `(λ, λ·f)`, `(λ, f/λ)` and `|∫λF_λP| / |∫λP|`) and the
other list forms used below (`toFlam`, `efflamOf`, `pivotOf`, `effstimOf`, `scaleY`, `efflamGrid`,
`efflamSamples`) are defined in `Lemmas/C09x.lean`. -/

/-- the effective stimulus in FLAM is exactly that quotient, and an error if either integral is not positive -/
theorem effstim_flam_def (E : Env K) (thr atol rtol : K) (o : Obs K) (bm : Tree K) (xb yb inw inp inf : List K)
    (hbm : o.band.model = .ok bm) (hxb : wavesetOrErr thr bm = .ok xb) (hyb : sampleTree E bm xb = .ok yb)
    (hinw : wavesetOrErr thr o.model = .ok inw) (hinp : sampleTree E o.model inw = .ok inp)
    (hinf : convertFlux E.P E.T inw inp .photlam .flam none none = .ok inf) :
    effstim E thr atol rtol o .flam none none none =
      (let num := |trapzXY inw ((inw.zip inf).map fun (a, b) => a * b)|
       let den := |trapzXY xb ((xb.zip yb).map fun (a, b) => a * b)|
       if num ≤ 0 then .error .synphotError else if den ≤ 0 then .error .synphotError else .ok (num / den)) := by
  simp only [effstim, hbm, wavelengthsOr, hxb, hyb, hinw, hinp, hinf, bind, Except.bind, validateTotalflux,
    pure, Except.pure]
  split_ifs <;> rfl

/-- in every other density unit it is that FLAM value converted at the bandpass pivot wavelength — the pivot
on the same wavelengths the integrals used (the caller's when given: repaired code, /repo 673f123) -/
theorem effstim_converted_at_pivot (E : Env K) (thr atol rtol : K) (o : Obs K) (u : FluxUnit K) (v wp : K)
    (bm : Tree K) (wl : Option (List K)) (hbm : o.band.model = .ok bm)
    (hu : u = .fnu ∨ u = .photlam ∨ u = .photnu ∨ u = .abmag ∨ ∃ k, u = .jy k)
    (hv : effstim E thr atol rtol o .flam wl none none = .ok v) (hp : pivot E thr bm wl = .ok wp) :
    effstim E thr atol rtol o u wl none none = convertOne E.P E.T (plainSamp wp) .flam u v := by
  have hd : IsDensity u := by
    rcases hu with rfl | rfl | rfl | rfl | ⟨s, rfl⟩
    exacts [IsDensity.fnu, IsDensity.photlam, IsDensity.photnu, IsDensity.abmag, IsDensity.jy s]
  have key : effstim E thr atol rtol o u wl none none =
      (effstim E thr atol rtol o .flam wl none none >>= fun val =>
        pivot E thr bm wl >>= fun wp' => convertOne E.P E.T (plainSamp wp') .flam u val) := by
    rw [effstim_pipeline E thr atol rtol o u hd, effstim_pipeline E thr atol rtol o .flam IsDensity.flam, hbm]
    simp only [bind, Except.bind]
    cases wavelengthsOr thr bm wl <;> simp only []
    rename_i xb
    cases sampleTree E bm xb <;> simp only []
    cases wavelengthsOr thr o.model wl <;> simp only []
    rename_i inw
    cases sampleTree E o.model inw <;> simp only []
    rw [effstimOf_pivot_branch E thr bm wl u hu]
    unfold effstimOf
    split_ifs <;> rfl
  rw [key, hv, hp]; rfl

/-! ### flat spectra -/

/-- a spectrum flat at `v > 0` in FLAM has effective stimulus `v` in FLAM through any bandpass
(on a common sampling grid with `∫λP ≠ 0`) -/
theorem effstim_flat_flam (band : List (K × K)) (v : K) (hv : 0 < v) (hden : trapz (timesLam band) ≠ 0) :
    effstimFlam (band.map fun p => (p.1, v * p.2)) band = v := by
  unfold effstimFlam timesLam
  have : (band.map fun p => (p.1, v * p.2)).map (fun p => (p.1, p.1 * p.2)) =
      (band.map fun p => (p.1, p.1 * p.2)).map fun p => (p.1, v * p.2) := by
    simp only [List.map_map]; apply List.map_congr_left; intro p _; simp only [Function.comp]; congr 1; ring
  rw [this, trapz_smul, abs_mul, abs_of_pos hv]
  have : |trapz (band.map fun p => (p.1, p.1 * p.2))| ≠ 0 := abs_ne_zero.mpr hden
  field_simp

/-- a spectrum flat at `v > 0` in FNU: its FLAM samples are `v·c/λ²·P`; converting the FLAM effective
stimulus at the pivot `λ_p² = |∫λP / ∫P/λ|` back to FNU (`F_ν = F_λ λ_p²/c`) gives `v` again -/
theorem effstim_flat_fnu (band : List (K × K)) (v c : K) (hv : 0 < v) (hc : 0 < c)
    (hpos : ∀ p ∈ band, p.1 ≠ 0)
    (hA : trapz (overLam band) ≠ 0) (hB : trapz (timesLam band) ≠ 0) :
    effstimFlam (band.map fun p => (p.1, v * c / p.1 ^ 2 * p.2)) band *
      |trapz (timesLam band) / trapz (overLam band)| / c = v := by
  unfold effstimFlam timesLam overLam
  have h1 : (band.map fun p => (p.1, v * c / p.1 ^ 2 * p.2)).map (fun p => (p.1, p.1 * p.2)) =
      (band.map fun p => (p.1, p.2 / p.1)).map fun p => (p.1, (v * c) * p.2) := by
    simp only [List.map_map]; apply List.map_congr_left; intro p hp; simp only [Function.comp]
    have := hpos p hp
    congr 1; field_simp
  rw [h1, trapz_smul, abs_mul, abs_of_pos (mul_pos hv hc), abs_div]
  have hA' : |trapz (band.map fun p => (p.1, p.2 / p.1))| ≠ 0 := abs_ne_zero.mpr hA
  have hB' : |trapz (band.map fun p => (p.1, p.1 * p.2))| ≠ 0 := abs_ne_zero.mpr hB
  have hcne := ne_of_gt hc
  field_simp

/-! ### scaling and magnitudes -/

/-- multiplying the source by `k > 0` multiplies the linear effective stimulus by `k` -/
theorem effstim_scale (obsFlam band : List (K × K)) (k : K) (hk : 0 < k) :
    effstimFlam (obsFlam.map fun p => (p.1, k * p.2)) band = k * effstimFlam obsFlam band := by
  unfold effstimFlam timesLam
  have : (obsFlam.map fun p => (p.1, k * p.2)).map (fun p => (p.1, p.1 * p.2)) =
      (obsFlam.map fun p => (p.1, p.1 * p.2)).map fun p => (p.1, k * p.2) := by
    simp only [List.map_map]; apply List.map_congr_left; intro p _; simp only [Function.comp]; congr 1; ring
  rw [this, trapz_smul, abs_mul, abs_of_pos hk]; ring

/-- … and shifts magnitudes by `−2.5 log₁₀ k` -/
theorem mag_scale (T : Transc K) (hT : T.Lawful) (x k m : K) (hx : 0 < x) (hk : 0 < k)
    (h : toMag T x = .ok m) : toMag T (k * x) = .ok (m - (5/2) * T.log10 k) := by
  obtain ⟨_, rfl⟩ := toMag_ok h
  unfold toMag
  rw [if_neg (not_le.mpr (mul_pos hk hx)), hT.log10_mul k x hk hx]
  congr 1; ring

/-- a magnitude result is `−2.5 log₁₀` of the linear result minus the zero point
(zero point written as `10^(−0.4·zp)`: 21.10 for STmag, 48.60 for ABmag) -/
theorem mag_is_log_of_linear (T : Transc K) (hT : T.Lawful) (x zp : K) (hx : 0 < x) :
    toMag T (x / T.pow10 (-(2/5) * zp)) = .ok (-(5/2) * T.log10 x - zp) := by
  have hz := hT.pow10_pos (-(2/5) * zp)
  unfold toMag
  rw [if_neg (not_le.mpr (div_pos hx hz))]
  have h1 : T.pow10 (-(2/5) * zp) * T.pow10 ((2/5) * zp) = 1 := by
    rw [← hT.pow10_add]; simp [hT.pow10_zero]
  have : x / T.pow10 (-(2/5) * zp) = x * T.pow10 ((2/5) * zp) := by
    rw [div_eq_iff (ne_of_gt hz), mul_assoc, mul_comm (T.pow10 (2 / 5 * zp)), h1, mul_one]
  rw [this, hT.log10_mul x _ hx (hT.pow10_pos _), hT.log10_pow10]; congr 1; ring

/-! ### effective wavelength -/

/-- `∫F P λ² / ∫F P λ` lies inside the sampled wavelength range for non-negative flux
(triples `(λ, F·P·λ, λ)`: weights `λ` between the first and last wavelength) -/
theorem efflam_in_range (l : List (K × K)) (lo hi : K) (hx : AscX l)
    (hrange : ∀ p ∈ l, lo ≤ p.1 ∧ p.1 ≤ hi) (hlo : 0 ≤ lo) (hy : ∀ p ∈ l, 0 ≤ p.2)
    (hden : 0 < trapz (timesLam l)) :
    lo ≤ trapz (l.map fun p => (p.1, p.2 * p.1 ^ 2)) / trapz (timesLam l) ∧
    trapz (l.map fun p => (p.1, p.2 * p.1 ^ 2)) / trapz (timesLam l) ≤ hi := by
  have hm1 : ((l.map fun p => (p.1, p.1 * p.2, p.1)).map fun p => (p.1, p.2.1)) = timesLam l := by
    simp only [timesLam, List.map_map]; apply List.map_congr_left; intro p _; rfl
  have hm2 : ((l.map fun p => (p.1, p.1 * p.2, p.1)).map fun p => (p.1, p.2.2 * p.2.1)) =
      l.map fun p => (p.1, p.2 * p.1 ^ 2) := by
    simp only [List.map_map]; apply List.map_congr_left; intro p _
    simp only [Function.comp]; congr 1; ring
  have hasc : AscX (timesLam l) := by
    clear hden hrange hy hm1 hm2
    unfold timesLam
    induction l with
    | nil => trivial
    | cons a l ih =>
      cases l with
      | nil => trivial
      | cons b l => exact ⟨hx.1, ih hx.2⟩
  have hb := trapz_weighted_bounds lo hi (l.map fun p => (p.1, p.1 * p.2, p.1))
    (by rw [hm1]; exact hasc)
    (by
      intro p hp
      simp only [List.mem_map] at hp
      obtain ⟨p', hp', rfl⟩ := hp
      exact mul_nonneg (le_trans hlo (hrange p' hp').1) (hy p' hp'))
    (by
      intro p hp
      simp only [List.mem_map] at hp
      obtain ⟨p', hp', rfl⟩ := hp
      exact hrange p' hp')
  rw [hm1, hm2] at hb
  constructor
  · rw [le_div_iff₀ hden]; exact hb.1
  · rw [div_le_iff₀ hden]; exact hb.2

/-! ## second round: every unit, the model end to end -/

section round2

/-! ### the defining computation in every density unit -/

/-- [definition, every density unit, any `wavelengths`] `effstim` samples the bandpass and the observation
(`xb, yb`, `inw, inp`) and returns `effstimOf` of them: errors if `|∫λF_λ|` or `|∫λP|` is not positive, else
the FLAM quotient itself (FLAM), its magnitude over the ST zero point (STmag), or its conversion at the
pivot wavelength taken on the same `wavelengths` (every other density unit).  Every failing stage fails the call with that stage's error. -/
theorem effstim_density_def (E : Env K) (thr atol rtol : K) (o : Obs K) (u : FluxUnit K) (hu : IsDensity u)
    (wl : Option (List K)) (area : Option K) (vega : Option (Tree K)) :
    effstim E thr atol rtol o u wl area vega =
      (o.band.model >>= fun bm => wavelengthsOr thr bm wl >>= fun xb => sampleTree E bm xb >>= fun yb =>
        wavelengthsOr thr o.model wl >>= fun inw => sampleTree E o.model inw >>= fun inp =>
          effstimOf E thr bm wl u (inw.zip inp) (xb.zip yb)) :=
  effstim_pipeline E thr atol rtol o u hu wl area vega

example : IsDensity (FluxUnit.jy (1 / 1000 : ℚ)) := IsDensity.jy _

/-- the pivot wavelength on the bandpass's sampling set (or on the caller's wavelengths):
`sqrt |∫Pλ / ∫P/λ|` (0 when `∫P/λ = 0`) -/
theorem pivot_def (E : Env K) (thr : K) (bm : Tree K) (wl : Option (List K)) (xb yb : List K)
    (hxb : wavelengthsOr thr bm wl = .ok xb) (hyb : sampleTree E bm xb = .ok yb) :
    pivot E thr bm wl = .ok (if trapz (overLam (xb.zip yb)) = 0 then 0
      else E.T.sqrt |trapz (timesLam (xb.zip yb)) / trapz (overLam (xb.zip yb))|) :=
  pivot_eq E thr bm wl xb yb hxb hyb

example (E : Env K) (thr : K) :
    pivot E thr Witness.band none = .ok (E.T.sqrt |(6 : K) / (3 / 4)|) := by
  rw [pivot_def E thr _ none _ _ (Witness.band_grid thr) (Witness.band_samples E), Witness.band_A, Witness.band_B,
    if_neg (by norm_num)]

example (E : Env K) (thr : K) :
    pivot E thr Witness.band (some [4, 2]) = .ok (E.T.sqrt |(-6 : K) / (-(3 / 4))|) := by
  rw [pivot_def E thr _ _ _ _ (Witness.band_grid_desc thr) (Witness.band_samples_desc E), Witness.band_A_desc,
    Witness.band_B_desc, if_neg (by norm_num)]

/-- a successful FLAM effective stimulus is positive -/
theorem effstim_flam_pos (E : Env K) (thr atol rtol : K) (o : Obs K) (wl : Option (List K)) (v : K)
    (hv : effstim E thr atol rtol o .flam wl none none = .ok v) : 0 < v := by
  rw [effstim_pipeline E thr atol rtol o .flam IsDensity.flam] at hv
  simp only [bind, Except.bind] at hv
  cases h1 : o.band.model with
  | error e => rw [h1] at hv; cases hv
  | ok bm =>
    rw [h1] at hv; simp only [] at hv
    cases h2 : wavelengthsOr thr bm wl with
    | error e => rw [h2] at hv; cases hv
    | ok xb =>
      rw [h2] at hv; simp only [] at hv
      cases h3 : sampleTree E bm xb with
      | error e => rw [h3] at hv; cases hv
      | ok yb =>
        rw [h3] at hv; simp only [] at hv
        cases h4 : wavelengthsOr thr o.model wl with
        | error e => rw [h4] at hv; cases hv
        | ok inw =>
          rw [h4] at hv; simp only [] at hv
          cases h5 : sampleTree E o.model inw with
          | error e => rw [h5] at hv; cases hv
          | ok inp =>
            rw [h5] at hv; simp only [effstimOf] at hv
            split_ifs at hv with ha hb
            injection hv with hv
            rw [← hv]
            exact div_pos (not_le.mp ha) (not_le.mp hb)

/-- STmag: the magnitude of the FLAM value over the ST zero-point flux (no wavelength enters) -/
theorem effstim_stmag_def (E : Env K) (thr atol rtol : K) (o : Obs K) (wl : Option (List K)) :
    effstim E thr atol rtol o .stmag wl none none =
      (effstim E thr atol rtol o .flam wl none none >>= fun val => toMag E.T (val / E.P.stZero)) := by
  rw [effstim_pipeline E thr atol rtol o .stmag IsDensity.stmag,
    effstim_pipeline E thr atol rtol o .flam IsDensity.flam]
  simp only [bind, Except.bind]
  cases o.band.model <;> simp only []
  rename_i bm
  cases wavelengthsOr thr bm wl <;> simp only []
  rename_i xb
  cases sampleTree E bm xb <;> simp only []
  cases wavelengthsOr thr o.model wl <;> simp only []
  rename_i inw
  cases sampleTree E o.model inw <;> simp only []
  unfold effstimOf
  split_ifs <;> rfl

/-- … which is also the FLAM value converted to STmag at any non-zero wavelength, in particular at the
bandpass pivot: with `effstim_converted_at_pivot` every density unit is "FLAM converted at the pivot" -/
theorem effstim_stmag_converted_at_pivot (E : Env K) (hP : E.P.Pos) (thr atol rtol : K) (o : Obs K) (wl : Option (List K)) (v wp : K)
    (hv : effstim E thr atol rtol o .flam wl none none = .ok v) (hwp : wp ≠ 0) :
    effstim E thr atol rtol o .stmag wl none none = convertOne E.P E.T (plainSamp wp) .flam .stmag v := by
  rw [effstim_stmag_def, hv, convert_flam_stmag hP wp v hwp]; rfl

/-! ### the value in each unit (`v` the FLAM value, `wp` the pivot wavelength) -/

/-- PHOTLAM: `v·λ_p/(hc)` -/
theorem effstim_photlam_value (E : Env K) (thr atol rtol : K) (o : Obs K) (v wp : K) (bm : Tree K) (wl : Option (List K))
    (hbm : o.band.model = .ok bm) (hv : effstim E thr atol rtol o .flam wl none none = .ok v)
    (hp : pivot E thr bm wl = .ok wp) :
    effstim E thr atol rtol o .photlam wl none none = .ok (v * wp / (E.P.h * E.P.c)) := by
  rw [effstim_converted_at_pivot E thr atol rtol o .photlam v wp bm wl hbm (by simp) hv hp, convert_flam_photlam]

/-- PHOTNU: `v·λ_p/(hc)·λ_p²/c` -/
theorem effstim_photnu_value (E : Env K) (thr atol rtol : K) (o : Obs K) (v wp : K) (bm : Tree K) (wl : Option (List K))
    (hbm : o.band.model = .ok bm) (hv : effstim E thr atol rtol o .flam wl none none = .ok v)
    (hp : pivot E thr bm wl = .ok wp) :
    effstim E thr atol rtol o .photnu wl none none = .ok (v * wp / (E.P.h * E.P.c) * wp ^ 2 / E.P.c) := by
  rw [effstim_converted_at_pivot E thr atol rtol o .photnu v wp bm wl hbm (by simp) hv hp, convert_flam_photnu]

/-- FNU: `v·λ_p²/c` -/
theorem effstim_fnu_value (E : Env K) (hP : E.P.Pos) (thr atol rtol : K) (o : Obs K) (v wp : K) (bm : Tree K) (wl : Option (List K))
    (hbm : o.band.model = .ok bm) (hv : effstim E thr atol rtol o .flam wl none none = .ok v)
    (hp : pivot E thr bm wl = .ok wp) (hwp : wp ≠ 0) :
    effstim E thr atol rtol o .fnu wl none none = .ok (v * wp ^ 2 / E.P.c) := by
  rw [effstim_converted_at_pivot E thr atol rtol o .fnu v wp bm wl hbm (by simp) hv hp, convert_flam_fnu hP wp v hwp]

/-- Jy with prefix scale `s`: `v·λ_p²/c / (s·1e-23)` -/
theorem effstim_jy_value (E : Env K) (hP : E.P.Pos) (thr atol rtol : K) (o : Obs K) (v wp s : K) (bm : Tree K) (wl : Option (List K))
    (hbm : o.band.model = .ok bm) (hv : effstim E thr atol rtol o .flam wl none none = .ok v)
    (hp : pivot E thr bm wl = .ok wp) (hwp : wp ≠ 0) :
    effstim E thr atol rtol o (.jy s) wl none none = .ok (v * wp ^ 2 / E.P.c / (s * E.P.jyFnu)) := by
  rw [effstim_converted_at_pivot E thr atol rtol o (.jy s) v wp bm wl hbm
    (Or.inr (Or.inr (Or.inr (Or.inr ⟨s, rfl⟩)))) hv hp, convert_flam_jy hP wp v s hwp]

/-- ABmag: the magnitude of the FNU value over the AB zero-point flux -/
theorem effstim_abmag_value (E : Env K) (hP : E.P.Pos) (thr atol rtol : K) (o : Obs K) (v wp : K) (bm : Tree K) (wl : Option (List K))
    (hbm : o.band.model = .ok bm) (hv : effstim E thr atol rtol o .flam wl none none = .ok v)
    (hp : pivot E thr bm wl = .ok wp) (hwp : wp ≠ 0) :
    effstim E thr atol rtol o .abmag wl none none = toMag E.T (v * wp ^ 2 / E.P.c / E.P.abZero) := by
  rw [effstim_converted_at_pivot E thr atol rtol o .abmag v wp bm wl hbm (by simp) hv hp,
    convert_flam_abmag hP wp v hwp]

/-- STmag is `−2.5 log₁₀` of the FLAM result minus the zero point `zp` (`stZero = 10^(−0.4·zp)`, zp = 21.10) -/
theorem effstim_stmag_of_flam (E : Env K) (hT : E.T.Lawful) (thr atol rtol : K) (o : Obs K) (wl : Option (List K)) (v zp : K)
    (hz : E.P.stZero = E.T.pow10 (-(2/5) * zp))
    (hv : effstim E thr atol rtol o .flam wl none none = .ok v) :
    effstim E thr atol rtol o .stmag wl none none = .ok (-(5/2) * E.T.log10 v - zp) := by
  have hpos := effstim_flam_pos E thr atol rtol o wl v hv
  rw [effstim_stmag_def, hv, hz]
  exact mag_is_log_of_linear E.T hT v zp hpos

/-- ABmag is `−2.5 log₁₀` of the FNU result minus the zero point `zp` (`abZero = 10^(−0.4·zp)`, zp = 48.60) -/
theorem effstim_abmag_of_fnu (E : Env K) (hP : E.P.Pos) (hT : E.T.Lawful) (thr atol rtol : K) (o : Obs K)
    (v wp f zp : K) (bm : Tree K) (wl : Option (List K)) (hz : E.P.abZero = E.T.pow10 (-(2/5) * zp))
    (hbm : o.band.model = .ok bm) (hv : effstim E thr atol rtol o .flam wl none none = .ok v)
    (hp : pivot E thr bm wl = .ok wp) (hwp : wp ≠ 0)
    (hf : effstim E thr atol rtol o .fnu wl none none = .ok f) :
    effstim E thr atol rtol o .abmag wl none none = .ok (-(5/2) * E.T.log10 f - zp) := by
  have hpos := effstim_flam_pos E thr atol rtol o wl v hv
  rw [effstim_fnu_value E hP thr atol rtol o v wp bm wl hbm hv hp hwp] at hf
  injection hf with hf
  have hfpos : 0 < f := by
    rw [← hf]; exact div_pos (mul_pos hpos (by positivity)) hP.c
  rw [effstim_abmag_value E hP thr atol rtol o v wp bm wl hbm hv hp hwp, hf, hz]
  exact mag_is_log_of_linear E.T hT f zp hfpos

/-! ### flat spectra, end to end

`o.model = ConstFlux1D(v, u) × bandpass`: the observation of a source whose flux is the constant `v` in
unit `u`, sampled on the bandpass's own sampling set (`wl = none`) or on any wavelengths the caller gives
(`wl = some w`, ascending or descending; on the repaired code the pivot is taken on the same wavelengths,
so the frequency-density units hold there too).  The hypotheses are what the computation needs: the wavelengths
`xb` used are valid (hence positive) with bandpass samples `yb`, `∫λP ≠ 0`, and — for the frequency-density units, whose
result goes through the pivot wavelength — `∫P/λ ≠ 0`. -/

section flat
variable (E : Env K) (thr atol rtol : K) (o : Obs K) (v : K) (bm : Tree K) (xb yb : List K)
  (wl : Option (List K))

/-- a spectrum flat at `v > 0` in FLAM has effective stimulus `v` FLAM -/
theorem effstim_flat_flam_model (hP : E.P.Pos)
    (hmodel : o.model = .bin .mul (.leaf (.constFlux v .flam)) bm) (hbm : o.band.model = .ok bm)
    (hxb : wavelengthsOr thr bm wl = .ok xb) (hyb : sampleTree E bm xb = .ok yb)
    (hv : 0 < v) (hB : trapz (timesLam (xb.zip yb)) ≠ 0) :
    effstim E thr atol rtol o .flam wl none none = .ok v := by
  have hpos : ∀ p ∈ xb.zip yb, p.1 ≠ 0 := fun p hp => ne_of_gt (wavelengthsOr_pos hxb p.1 (List.of_mem_zip hp).1)
  rw [effstim_flat_reduce E thr atol rtol o .flam IsDensity.flam wl v bm xb yb (fun x => v * x / (E.P.h * E.P.c))
    hmodel hbm hxb hyb (fun x _ => rfl)]
  obtain ⟨h1, h2⟩ := effstimFlam_flamlike E.P hP v hv (xb.zip yb) hpos hB
  have hB' : 0 < |trapz (timesLam (xb.zip yb))| := abs_pos.mpr hB
  unfold effstimOf
  rw [if_neg (by rw [h1]; exact not_le.mpr (mul_pos hv hB')), if_neg (not_le.mpr hB')]
  simp only [h2]

/-- a spectrum flat at `m` STmag (any `m`) has effective stimulus `m` STmag -/
theorem effstim_flat_stmag_model (hP : E.P.Pos) (hT : E.T.Lawful)
    (hmodel : o.model = .bin .mul (.leaf (.constFlux v .stmag)) bm) (hbm : o.band.model = .ok bm)
    (hxb : wavelengthsOr thr bm wl = .ok xb) (hyb : sampleTree E bm xb = .ok yb)
    (hB : trapz (timesLam (xb.zip yb)) ≠ 0) :
    effstim E thr atol rtol o .stmag wl none none = .ok v := by
  have hpos : ∀ p ∈ xb.zip yb, p.1 ≠ 0 := fun p hp => ne_of_gt (wavelengthsOr_pos hxb p.1 (List.of_mem_zip hp).1)
  have ha : 0 < ofMag E.T v * E.P.stZero := mul_pos (ofMag_pos hT v) hP.st
  rw [effstim_flat_reduce E thr atol rtol o .stmag IsDensity.stmag wl v bm xb yb
    (fun x => ofMag E.T v * E.P.stZero * x / (E.P.h * E.P.c)) hmodel hbm hxb hyb (fun x _ => rfl)]
  obtain ⟨h1, h2⟩ := effstimFlam_flamlike E.P hP _ ha (xb.zip yb) hpos hB
  have hB' : 0 < |trapz (timesLam (xb.zip yb))| := abs_pos.mpr hB
  unfold effstimOf
  rw [if_neg (by rw [h1]; exact not_le.mpr (mul_pos ha hB')), if_neg (not_le.mpr hB')]
  simp only [h2]
  have hz := ne_of_gt hP.st
  rw [toMag_congr (show ofMag E.T v * E.P.stZero / E.P.stZero = ofMag E.T v by field_simp), toMag_ofMag hT]

/-- a spectrum flat at `v > 0` in FNU has effective stimulus `v` FNU -/
theorem effstim_flat_fnu_model (hP : E.P.Pos) (hT : E.T.Lawful)
    (hmodel : o.model = .bin .mul (.leaf (.constFlux v .fnu)) bm) (hbm : o.band.model = .ok bm)
    (hxb : wavelengthsOr thr bm wl = .ok xb) (hyb : sampleTree E bm xb = .ok yb)
    (hv : 0 < v) (hA : trapz (overLam (xb.zip yb)) ≠ 0) (hB : trapz (timesLam (xb.zip yb)) ≠ 0) :
    effstim E thr atol rtol o .fnu wl none none = .ok v := by
  have hpos : ∀ p ∈ xb.zip yb, p.1 ≠ 0 := fun p hp => ne_of_gt (wavelengthsOr_pos hxb p.1 (List.of_mem_zip hp).1)
  rw [effstim_flat_reduce E thr atol rtol o .fnu IsDensity.fnu wl v bm xb yb
    (fun x => v * E.P.c / x ^ 2 * x / (E.P.h * E.P.c)) hmodel hbm hxb hyb (fun x _ => rfl)]
  obtain ⟨h1, hne, h3⟩ := effstimFlam_fnulike E.P hP E.T hT v hv (xb.zip yb) hpos hA hB
  have hA' : 0 < |trapz (overLam (xb.zip yb))| := abs_pos.mpr hA
  have hB' : 0 < |trapz (timesLam (xb.zip yb))| := abs_pos.mpr hB
  rw [effstimOf_pivot_branch E thr bm wl .fnu (Or.inl rfl),
    if_neg (by rw [h1]; exact not_le.mpr (mul_pos (mul_pos hv hP.c) hA')), if_neg (not_le.mpr hB'),
    pivot_eq E thr bm wl xb yb hxb hyb]
  simp only [bind, Except.bind]
  rw [convert_flam_fnu hP _ _ hne, h3]

/-- a spectrum flat at `v > 0` in Jy (or a prefixed Jansky worth `s > 0` Jy) has effective stimulus `v` in that unit -/
theorem effstim_flat_jy_model (hP : E.P.Pos) (hT : E.T.Lawful) (s : K) (hs : 0 < s)
    (hmodel : o.model = .bin .mul (.leaf (.constFlux v (.jy s))) bm) (hbm : o.band.model = .ok bm)
    (hxb : wavelengthsOr thr bm wl = .ok xb) (hyb : sampleTree E bm xb = .ok yb)
    (hv : 0 < v) (hA : trapz (overLam (xb.zip yb)) ≠ 0) (hB : trapz (timesLam (xb.zip yb)) ≠ 0) :
    effstim E thr atol rtol o (.jy s) wl none none = .ok v := by
  have hpos : ∀ p ∈ xb.zip yb, p.1 ≠ 0 := fun p hp => ne_of_gt (wavelengthsOr_pos hxb p.1 (List.of_mem_zip hp).1)
  have hb : 0 < v * s * E.P.jyFnu := mul_pos (mul_pos hv hs) hP.jy
  rw [effstim_flat_reduce E thr atol rtol o (.jy s) (IsDensity.jy s) wl v bm xb yb
    (fun x => v * s * E.P.jyFnu * E.P.c / x ^ 2 * x / (E.P.h * E.P.c)) hmodel hbm hxb hyb (fun x _ => rfl)]
  obtain ⟨h1, hne, h3⟩ := effstimFlam_fnulike E.P hP E.T hT _ hb (xb.zip yb) hpos hA hB
  have hA' : 0 < |trapz (overLam (xb.zip yb))| := abs_pos.mpr hA
  have hB' : 0 < |trapz (timesLam (xb.zip yb))| := abs_pos.mpr hB
  rw [effstimOf_pivot_branch E thr bm wl (.jy s) (Or.inr (Or.inr (Or.inr (Or.inr ⟨s, rfl⟩)))),
    if_neg (by rw [h1]; exact not_le.mpr (mul_pos (mul_pos hb hP.c) hA')), if_neg (not_le.mpr hB'),
    pivot_eq E thr bm wl xb yb hxb hyb]
  simp only [bind, Except.bind]
  rw [convert_flam_jy hP _ _ s hne, h3]
  have h1 := ne_of_gt hs; have h2 := ne_of_gt hP.jy
  congr 1; field_simp

/-- a spectrum flat at `m` ABmag (any `m`) has effective stimulus `m` ABmag -/
theorem effstim_flat_abmag_model (hP : E.P.Pos) (hT : E.T.Lawful)
    (hmodel : o.model = .bin .mul (.leaf (.constFlux v .abmag)) bm) (hbm : o.band.model = .ok bm)
    (hxb : wavelengthsOr thr bm wl = .ok xb) (hyb : sampleTree E bm xb = .ok yb)
    (hA : trapz (overLam (xb.zip yb)) ≠ 0) (hB : trapz (timesLam (xb.zip yb)) ≠ 0) :
    effstim E thr atol rtol o .abmag wl none none = .ok v := by
  have hpos : ∀ p ∈ xb.zip yb, p.1 ≠ 0 := fun p hp => ne_of_gt (wavelengthsOr_pos hxb p.1 (List.of_mem_zip hp).1)
  have hb : 0 < ofMag E.T v * E.P.abZero := mul_pos (ofMag_pos hT v) hP.ab
  rw [effstim_flat_reduce E thr atol rtol o .abmag IsDensity.abmag wl v bm xb yb
    (fun x => ofMag E.T v * E.P.abZero * E.P.c / x ^ 2 * x / (E.P.h * E.P.c)) hmodel hbm hxb hyb (fun x _ => rfl)]
  obtain ⟨h1, hne, h3⟩ := effstimFlam_fnulike E.P hP E.T hT _ hb (xb.zip yb) hpos hA hB
  have hA' : 0 < |trapz (overLam (xb.zip yb))| := abs_pos.mpr hA
  have hB' : 0 < |trapz (timesLam (xb.zip yb))| := abs_pos.mpr hB
  rw [effstimOf_pivot_branch E thr bm wl .abmag (Or.inr (Or.inr (Or.inr (Or.inl rfl)))),
    if_neg (by rw [h1]; exact not_le.mpr (mul_pos (mul_pos hb hP.c) hA')), if_neg (not_le.mpr hB'),
    pivot_eq E thr bm wl xb yb hxb hyb]
  simp only [bind, Except.bind]
  rw [convert_flam_abmag hP _ _ hne, h3]
  have hz := ne_of_gt hP.ab
  rw [toMag_congr (show ofMag E.T v * E.P.abZero / E.P.abZero = ofMag E.T v by field_simp), toMag_ofMag hT]

end flat

/-! non-vacuity: the box bandpass `Witness.band` (height 1 on [1, 5], sampled at 2 and 4: `∫λP = 6`,
`∫P/λ = 3/4`), constants all 1, real transcendental functions -/

section witness
open Witness

/-- the environment of the examples that need lawful transcendental functions -/
noncomputable def wE : Env ℝ := ⟨Witness.phys, Transc.real⟩

example (E : Env K) (hP : E.P.Pos) (thr atol rtol : K) :
    effstim E thr atol rtol (obs (.leaf (.constFlux 3 .flam))) .flam none none none = .ok 3 :=
  effstim_flat_flam_model E thr atol rtol _ 3 band [2, 4] [1, 1] none hP rfl rfl (band_grid thr) (band_samples E)
    (by norm_num) (by rw [band_B]; norm_num)

example (thr atol rtol m : ℝ) :
    effstim wE thr atol rtol (obs (.leaf (.constFlux m .stmag))) .stmag none none none = .ok m :=
  effstim_flat_stmag_model wE thr atol rtol _ m band [2, 4] [1, 1] none phys_pos Transc.real_lawful rfl rfl
    (band_grid thr) (band_samples wE) (by rw [band_B]; norm_num)

example (thr atol rtol : ℝ) :
    effstim wE thr atol rtol (obs (.leaf (.constFlux 3 .fnu))) .fnu none none none = .ok 3 :=
  effstim_flat_fnu_model wE thr atol rtol _ 3 band [2, 4] [1, 1] none phys_pos Transc.real_lawful rfl rfl
    (band_grid thr) (band_samples wE) (by norm_num) (by rw [band_A]; norm_num) (by rw [band_B]; norm_num)

example (thr atol rtol : ℝ) :
    effstim wE thr atol rtol (obs (.leaf (.constFlux 3 (.jy (1 / 1000))))) (.jy (1 / 1000)) none none none = .ok 3 :=
  effstim_flat_jy_model wE thr atol rtol _ 3 band [2, 4] [1, 1] none phys_pos Transc.real_lawful (1 / 1000) (by norm_num)
    rfl rfl (band_grid thr) (band_samples wE) (by norm_num) (by rw [band_A]; norm_num) (by rw [band_B]; norm_num)

example (thr atol rtol m : ℝ) :
    effstim wE thr atol rtol (obs (.leaf (.constFlux m .abmag))) .abmag none none none = .ok m :=
  effstim_flat_abmag_model wE thr atol rtol _ m band [2, 4] [1, 1] none phys_pos Transc.real_lawful rfl rfl
    (band_grid thr) (band_samples wE) (by rw [band_A]; norm_num) (by rw [band_B]; norm_num)

/-- the flat-FLAM observation of the examples below: FLAM effective stimulus 3, pivot `sqrt 8 ≠ 0` -/
theorem wFlat_flam (thr atol rtol : ℝ) :
    effstim wE thr atol rtol (obs (.leaf (.constFlux 3 .flam))) .flam none none none = .ok 3 :=
  effstim_flat_flam_model wE thr atol rtol _ 3 band [2, 4] [1, 1] none phys_pos rfl rfl (band_grid thr)
    (band_samples wE) (by norm_num) (by rw [band_B]; norm_num)

theorem wPivot (thr : ℝ) : pivot wE thr band none = .ok (Real.sqrt 8) := by
  rw [pivot_def wE thr _ none _ _ (band_grid thr) (band_samples wE), band_A, band_B, if_neg (by norm_num)]
  norm_num [wE]

theorem wPivot_ne : Real.sqrt 8 ≠ 0 := by
  rw [Ne, Real.sqrt_eq_zero (by norm_num)]; norm_num

example (thr atol rtol : ℝ) : (0 : ℝ) < 3 := effstim_flam_pos wE thr atol rtol _ none 3 (wFlat_flam thr atol rtol)

example (thr atol rtol : ℝ) :
    effstim wE thr atol rtol (obs (.leaf (.constFlux 3 .flam))) .stmag none none none =
      convertOne wE.P wE.T (plainSamp (Real.sqrt 8)) .flam .stmag 3 :=
  effstim_stmag_converted_at_pivot wE phys_pos thr atol rtol _ none 3 _ (wFlat_flam thr atol rtol) wPivot_ne

example (thr atol rtol : ℝ) :
    effstim wE thr atol rtol (obs (.leaf (.constFlux 3 .flam))) .stmag none none none =
      toMag wE.T (3 / wE.P.stZero) := by
  rw [effstim_stmag_def, wFlat_flam]; rfl

example (thr atol rtol : ℝ) :
    effstim wE thr atol rtol (obs (.leaf (.constFlux 3 .flam))) .photlam none none none =
      .ok (3 * Real.sqrt 8 / (wE.P.h * wE.P.c)) :=
  effstim_photlam_value wE thr atol rtol _ 3 _ band none rfl (wFlat_flam thr atol rtol) (wPivot thr)

example (thr atol rtol : ℝ) :
    effstim wE thr atol rtol (obs (.leaf (.constFlux 3 .flam))) .photnu none none none =
      .ok (3 * Real.sqrt 8 / (wE.P.h * wE.P.c) * Real.sqrt 8 ^ 2 / wE.P.c) :=
  effstim_photnu_value wE thr atol rtol _ 3 _ band none rfl (wFlat_flam thr atol rtol) (wPivot thr)

example (thr atol rtol : ℝ) :
    effstim wE thr atol rtol (obs (.leaf (.constFlux 3 .flam))) .fnu none none none =
      .ok (3 * Real.sqrt 8 ^ 2 / wE.P.c) :=
  effstim_fnu_value wE phys_pos thr atol rtol _ 3 _ band none rfl (wFlat_flam thr atol rtol) (wPivot thr) wPivot_ne

example (thr atol rtol : ℝ) :
    effstim wE thr atol rtol (obs (.leaf (.constFlux 3 .flam))) (.jy 1) none none none =
      .ok (3 * Real.sqrt 8 ^ 2 / wE.P.c / (1 * wE.P.jyFnu)) :=
  effstim_jy_value wE phys_pos thr atol rtol _ 3 _ 1 band none rfl (wFlat_flam thr atol rtol) (wPivot thr) wPivot_ne

example (thr atol rtol : ℝ) :
    effstim wE thr atol rtol (obs (.leaf (.constFlux 3 .flam))) .abmag none none none =
      toMag wE.T (3 * Real.sqrt 8 ^ 2 / wE.P.c / wE.P.abZero) :=
  effstim_abmag_value wE phys_pos thr atol rtol _ 3 _ band none rfl (wFlat_flam thr atol rtol) (wPivot thr) wPivot_ne

/-- with all constants 1 the zero points are `10^0`, i.e. `zp = 0` -/
example (thr atol rtol : ℝ) :
    effstim wE thr atol rtol (obs (.leaf (.constFlux 3 .flam))) .stmag none none none =
      .ok (-(5/2) * wE.T.log10 3 - 0) :=
  effstim_stmag_of_flam wE Transc.real_lawful thr atol rtol _ none 3 0 (by simp [wE, Witness.phys]) (wFlat_flam thr atol rtol)

example (thr atol rtol : ℝ) :
    effstim wE thr atol rtol (obs (.leaf (.constFlux 3 .flam))) .abmag none none none =
      .ok (-(5/2) * wE.T.log10 (3 * Real.sqrt 8 ^ 2 / wE.P.c) - 0) :=
  effstim_abmag_of_fnu wE phys_pos Transc.real_lawful thr atol rtol _ 3 (Real.sqrt 8) _ 0 band none
    (by simp [wE, Witness.phys]) rfl (wFlat_flam thr atol rtol) (wPivot thr) wPivot_ne
    (effstim_fnu_value wE phys_pos thr atol rtol _ 3 _ band none rfl (wFlat_flam thr atol rtol) (wPivot thr) wPivot_ne)

/-- explicit wavelengths, given in descending order (`∫λP = −6`, `∫P/λ = −3/4` there): the flat-spectrum results
hold on the caller's grid too — FNU, Jy and ABmag because the pivot is taken on the same wavelengths -/
example (thr atol rtol : ℝ) :
    effstim wE thr atol rtol (obs (.leaf (.constFlux 3 .fnu))) .fnu (some [4, 2]) none none = .ok 3 :=
  effstim_flat_fnu_model wE thr atol rtol _ 3 band [4, 2] [1, 1] (some [4, 2]) phys_pos Transc.real_lawful rfl rfl
    (band_grid_desc thr) (band_samples_desc wE) (by norm_num) (by rw [band_A_desc]; norm_num)
    (by rw [band_B_desc]; norm_num)

example (thr atol rtol m : ℝ) :
    effstim wE thr atol rtol (obs (.leaf (.constFlux m .abmag))) .abmag (some [4, 2]) none none = .ok m :=
  effstim_flat_abmag_model wE thr atol rtol _ m band [4, 2] [1, 1] (some [4, 2]) phys_pos Transc.real_lawful rfl rfl
    (band_grid_desc thr) (band_samples_desc wE) (by rw [band_A_desc]; norm_num) (by rw [band_B_desc]; norm_num)

example (thr atol rtol : ℝ) :
    effstim wE thr atol rtol (obs (.leaf (.constFlux 3 (.jy 1)))) (.jy 1) (some [4, 2]) none none = .ok 3 :=
  effstim_flat_jy_model wE thr atol rtol _ 3 band [4, 2] [1, 1] (some [4, 2]) phys_pos Transc.real_lawful 1 (by norm_num)
    rfl rfl (band_grid_desc thr) (band_samples_desc wE) (by norm_num) (by rw [band_A_desc]; norm_num)
    (by rw [band_B_desc]; norm_num)

end witness

/-! ### flat spectra on a common grid, the remaining units (list forms, companions of `effstim_flat_flam/fnu`) -/

/-- flat at `v > 0` in Jy (`j` = 1 Jy in FNU, `s` the prefix scale): FLAM samples `v·s·j·c/λ²·P`; the FLAM
effective stimulus converted to that unit at the pivot is `v` -/
theorem effstim_flat_jy (band : List (K × K)) (v c s j : K) (hv : 0 < v) (hc : 0 < c) (hs : 0 < s) (hj : 0 < j)
    (hpos : ∀ p ∈ band, p.1 ≠ 0) (hA : trapz (overLam band) ≠ 0) (hB : trapz (timesLam band) ≠ 0) :
    effstimFlam (band.map fun p => (p.1, v * s * j * c / p.1 ^ 2 * p.2)) band *
      |trapz (timesLam band) / trapz (overLam band)| / c / (s * j) = v := by
  rw [effstim_flat_fnu band (v * s * j) c (mul_pos (mul_pos hv hs) hj) hc hpos hA hB]
  have := ne_of_gt hs; have := ne_of_gt hj
  field_simp

/-- flat at `m` STmag (`z` = flux of STmag 0 in FLAM): FLAM samples `10^(−0.4m)·z·P`; the magnitude of the FLAM
effective stimulus over `z` is `m` -/
theorem effstim_flat_stmag (T : Transc K) (hT : T.Lawful) (band : List (K × K)) (m z : K) (hz : 0 < z)
    (hB : trapz (timesLam band) ≠ 0) :
    toMag T (effstimFlam (band.map fun p => (p.1, ofMag T m * z * p.2)) band / z) = .ok m := by
  rw [effstim_flat_flam band (ofMag T m * z) (mul_pos (ofMag_pos hT m) hz) hB]
  have := ne_of_gt hz
  rw [toMag_congr (show ofMag T m * z / z = ofMag T m by field_simp), toMag_ofMag hT]

/-- flat at `m` ABmag (`z` = flux of ABmag 0 in FNU): FLAM samples `10^(−0.4m)·z·c/λ²·P`; the magnitude of the
FLAM effective stimulus converted to FNU at the pivot, over `z`, is `m` -/
theorem effstim_flat_abmag (T : Transc K) (hT : T.Lawful) (band : List (K × K)) (m z c : K) (hz : 0 < z) (hc : 0 < c)
    (hpos : ∀ p ∈ band, p.1 ≠ 0) (hA : trapz (overLam band) ≠ 0) (hB : trapz (timesLam band) ≠ 0) :
    toMag T (effstimFlam (band.map fun p => (p.1, ofMag T m * z * c / p.1 ^ 2 * p.2)) band *
      |trapz (timesLam band) / trapz (overLam band)| / c / z) = .ok m := by
  rw [effstim_flat_fnu band (ofMag T m * z) c (mul_pos (ofMag_pos hT m) hz) hc hpos hA hB]
  have := ne_of_gt hz
  rw [toMag_congr (show ofMag T m * z / z = ofMag T m by field_simp), toMag_ofMag hT]

section witness2
private theorem wl_pos : ∀ p ∈ ([(2, 1), (4, 1)] : List (ℝ × ℝ)), p.1 ≠ 0 := by
  intro p hp; simp only [List.mem_cons, List.not_mem_nil, or_false] at hp
  rcases hp with rfl | rfl <;> norm_num
private theorem wl_A : trapz (overLam ([(2, 1), (4, 1)] : List (ℝ × ℝ))) ≠ 0 := by
  have := Witness.band_A (K := ℝ); simp only [List.zip_cons_cons, List.zip_nil_right] at this; rw [this]; norm_num
private theorem wl_B : trapz (timesLam ([(2, 1), (4, 1)] : List (ℝ × ℝ))) ≠ 0 := by
  have := Witness.band_B (K := ℝ); simp only [List.zip_cons_cons, List.zip_nil_right] at this; rw [this]; norm_num

example : effstimFlam (([(2, 1), (4, 1)] : List (ℝ × ℝ)).map fun p => (p.1, 3 * (1/1000) * 7 * 5 / p.1 ^ 2 * p.2))
      [(2, 1), (4, 1)] * |trapz (timesLam ([(2, 1), (4, 1)] : List (ℝ × ℝ))) / trapz (overLam [(2, 1), (4, 1)])| / 5 /
      ((1/1000) * 7) = 3 :=
  effstim_flat_jy _ 3 5 (1/1000) 7 (by norm_num) (by norm_num) (by norm_num) (by norm_num) wl_pos wl_A wl_B
example (m : ℝ) : toMag Transc.real
    (effstimFlam (([(2, 1), (4, 1)] : List (ℝ × ℝ)).map fun p => (p.1, ofMag Transc.real m * 7 * p.2)) [(2, 1), (4, 1)] / 7)
      = .ok m :=
  effstim_flat_stmag Transc.real Transc.real_lawful _ m 7 (by norm_num) wl_B
example (m : ℝ) : toMag Transc.real
    (effstimFlam (([(2, 1), (4, 1)] : List (ℝ × ℝ)).map fun p => (p.1, ofMag Transc.real m * 7 * 5 / p.1 ^ 2 * p.2))
      [(2, 1), (4, 1)] * |trapz (timesLam ([(2, 1), (4, 1)] : List (ℝ × ℝ))) / trapz (overLam [(2, 1), (4, 1)])| / 5 / 7)
      = .ok m :=
  effstim_flat_abmag Transc.real Transc.real_lawful _ m 7 5 (by norm_num) (by norm_num) wl_pos wl_A wl_B
end witness2

/-! ### scale laws, end to end

`o'` observes, through the same bandpass, a source whose model samples are `k` times those of `o`'s
(errors included) on the same sampling set. -/

section scale
variable (E : Env K) (thr atol rtol : K) (o o' : Obs K) (k : K) (wl : Option (List K))

/-- every linear density unit (FLAM, FNU, PHOTLAM, PHOTNU, Jy with any prefix): the result is multiplied by
`k > 0`; a failing call fails in the same way -/
theorem effstim_scale_linear_model (u : FluxUnit K)
    (hu : u = .flam ∨ u = .fnu ∨ u = .photlam ∨ u = .photnu ∨ ∃ s, u = .jy s) (hk : 0 < k)
    (hband : o'.band.model = o.band.model) (hw : wavesetOrErr thr o'.model = wavesetOrErr thr o.model)
    (hs : ∀ x, sampleTree E o'.model x = (sampleTree E o.model x).map (List.map (k * ·))) :
    effstim E thr atol rtol o' u wl none none = (effstim E thr atol rtol o u wl none none).map (k * ·) := by
  have hd : IsDensity u := by
    rcases hu with rfl | rfl | rfl | rfl | ⟨s, rfl⟩
    exacts [IsDensity.flam, IsDensity.fnu, IsDensity.photlam, IsDensity.photnu, IsDensity.jy s]
  have hwl : wavelengthsOr thr o'.model wl = wavelengthsOr thr o.model wl := by
    cases wl with
    | none => exact hw
    | some w => rfl
  rw [effstim_pipeline E thr atol rtol o' u hd, effstim_pipeline E thr atol rtol o u hd, hband, hwl]
  simp only [bind, Except.bind]
  cases o.band.model <;> simp only [Except.map]
  rename_i bm
  cases wavelengthsOr thr bm wl <;> simp only []
  rename_i xb
  cases sampleTree E bm xb <;> simp only []
  rename_i yb
  cases wavelengthsOr thr o.model wl <;> simp only []
  rename_i inw
  rw [hs inw]
  cases sampleTree E o.model inw <;> simp only [Except.map]
  rename_i inp
  rw [zip_scale]
  exact effstimOf_scale_linear E thr bm wl u hu _ _ k hk

/-- STmag and ABmag: the result is shifted by `−2.5 log₁₀ k`; a failing call fails in the same way -/
theorem effstim_scale_mag_model (hT : E.T.Lawful) (u : FluxUnit K) (hu : u = .stmag ∨ u = .abmag) (hk : 0 < k)
    (hband : o'.band.model = o.band.model) (hw : wavesetOrErr thr o'.model = wavesetOrErr thr o.model)
    (hs : ∀ x, sampleTree E o'.model x = (sampleTree E o.model x).map (List.map (k * ·))) :
    effstim E thr atol rtol o' u wl none none =
      (effstim E thr atol rtol o u wl none none).map (· - (5/2) * E.T.log10 k) := by
  have hd : IsDensity u := by
    rcases hu with rfl | rfl
    exacts [IsDensity.stmag, IsDensity.abmag]
  have hwl : wavelengthsOr thr o'.model wl = wavelengthsOr thr o.model wl := by
    cases wl with
    | none => exact hw
    | some w => rfl
  rw [effstim_pipeline E thr atol rtol o' u hd, effstim_pipeline E thr atol rtol o u hd, hband, hwl]
  simp only [bind, Except.bind]
  cases o.band.model <;> simp only [Except.map]
  rename_i bm
  cases wavelengthsOr thr bm wl <;> simp only []
  rename_i xb
  cases sampleTree E bm xb <;> simp only []
  rename_i yb
  cases wavelengthsOr thr o.model wl <;> simp only []
  rename_i inw
  rw [hs inw]
  cases sampleTree E o.model inw <;> simp only [Except.map]
  rename_i inp
  rw [zip_scale]
  exact effstimOf_scale_mag E hT thr bm wl u hu _ _ k hk

/-- the hypotheses hold for `source * k` (`sm | Scale(k)`) observed through the same bandpass -/
theorem scaled_source_samples (sm bm : Tree K)
    (hm : o.model = .bin .mul sm bm) (hm' : o'.model = .bin .mul (.scale sm k) bm) :
    wavesetOrErr thr o'.model = wavesetOrErr thr o.model ∧
    ∀ x, sampleTree E o'.model x = (sampleTree E o.model x).map (List.map (k * ·)) := by
  rw [hm, hm']
  exact ⟨wavesetOrErr_congr (sampleset_scaled_source thr k sm bm), sampleTree_scaled_source E sm bm k⟩

end scale

/-- non-vacuity: FLAM 3 becomes 2·3, STmag `m` becomes `m − 2.5 log₁₀ 2` -/
example (thr atol rtol : ℝ) :
    effstim wE thr atol rtol (Witness.obs (.scale (.leaf (.constFlux 3 .flam)) 2)) .flam none none none = .ok (2 * 3) := by
  obtain ⟨hw, hs⟩ := scaled_source_samples wE thr (Witness.obs (.leaf (.constFlux 3 .flam)))
    (Witness.obs (.scale (.leaf (.constFlux 3 .flam)) 2)) 2 _ Witness.band rfl rfl
  rw [effstim_scale_linear_model wE thr atol rtol (Witness.obs (.leaf (.constFlux 3 .flam)))
    (Witness.obs (.scale (.leaf (.constFlux 3 .flam)) 2)) 2 none .flam (Or.inl rfl) (by norm_num) rfl hw hs, wFlat_flam]
  rfl

example (thr atol rtol : ℝ) :
    effstim wE thr atol rtol (Witness.obs (.scale (.leaf (.constFlux 3 .flam)) 2)) .stmag none none none =
      .ok (-(5/2) * wE.T.log10 3 - 0 - (5/2) * wE.T.log10 2) := by
  obtain ⟨hw, hs⟩ := scaled_source_samples wE thr (Witness.obs (.leaf (.constFlux 3 .flam)))
    (Witness.obs (.scale (.leaf (.constFlux 3 .flam)) 2)) 2 _ Witness.band rfl rfl
  rw [effstim_scale_mag_model wE thr atol rtol (Witness.obs (.leaf (.constFlux 3 .flam)))
    (Witness.obs (.scale (.leaf (.constFlux 3 .flam)) 2)) 2 none Transc.real_lawful .stmag (Or.inl rfl) (by norm_num) rfl hw hs,
    effstim_stmag_of_flam wE Transc.real_lawful thr atol rtol _ none 3 0 (by simp [wE, Witness.phys]) (wFlat_flam thr atol rtol)]
  rfl

/-! ### effective wavelength -/

section efflam
variable (E : Env K) (thr atol rtol : K) (o o' : Obs K) (binned : Bool) (wl : Option (List K)) (erg : Bool)

/-- [definition, every stage] `effective_wavelength(binned, wavelengths, mode)`: the grid (`efflamGrid`: the
caller's validated wavelengths, else `binset` / the native sampling set), the PHOTLAM samples there
(`efflamSamples`: `sample_binned` / the model), FLAM for 'efflerg', then `efflamOf`; a failing stage fails the call -/
theorem efflam_def :
    effectiveWavelength E thr atol rtol o binned wl erg =
      (efflamGrid thr o binned wl >>= fun x => efflamSamples E atol rtol o binned x >>= fun yp =>
        .ok (efflamOf (if erg then toFlam E.P (x.zip yp) else x.zip yp))) :=
  efflam_pipeline E thr atol rtol o binned wl erg

/-- [the defining formula] with grid `x` and samples `yp`, `F` the samples in the requested flux convention
(FLAM for 'efflerg', PHOTLAM for 'efflphot'): the result is `|trapz(F·λ²) / trapz(F·λ)|`, and 0 when the
denominator vanishes -/
theorem efflam_value (x yp : List K) (hx : efflamGrid thr o binned wl = .ok x)
    (hyp : efflamSamples E atol rtol o binned x = .ok yp) :
    effectiveWavelength E thr atol rtol o binned wl erg =
      .ok (if trapz (timesLam (if erg then toFlam E.P (x.zip yp) else x.zip yp)) = 0 then 0
        else |trapz (timesLamSq (if erg then toFlam E.P (x.zip yp) else x.zip yp)) /
              trapz (timesLam (if erg then toFlam E.P (x.zip yp) else x.zip yp))|) := by
  rw [efflam_def, hx]; simp only [bind, Except.bind, hyp]; rfl

/-- multiplying the source by `k ≠ 0` (same grid, samples `k` times as large, errors included) leaves the
effective wavelength unchanged — binned or not, either convention -/
theorem efflam_scale_invariant (k : K) (hk : k ≠ 0)
    (hg : efflamGrid thr o' binned wl = efflamGrid thr o binned wl)
    (hs : ∀ x, efflamSamples E atol rtol o' binned x = (efflamSamples E atol rtol o binned x).map (List.map (k * ·))) :
    effectiveWavelength E thr atol rtol o' binned wl erg = effectiveWavelength E thr atol rtol o binned wl erg := by
  rw [efflam_def, efflam_def, hg]
  simp only [bind, Except.bind]
  cases efflamGrid thr o binned wl <;> simp only []
  rename_i x
  rw [hs x]
  cases efflamSamples E atol rtol o binned x <;> simp only [Except.map]
  rename_i yp
  rw [zip_scale]
  cases erg
  · simp only [Bool.false_eq_true, if_false, efflamOf_scaleY k hk]
  · simp only [if_true, toFlam_scaleY, efflamOf_scaleY k hk]

/-- in particular for `source * k` observed unbinned through the same bandpass -/
theorem efflam_scaled_source (k : K) (hk : k ≠ 0) (sm bm : Tree K)
    (hm : o.model = .bin .mul sm bm) (hm' : o'.model = .bin .mul (.scale sm k) bm) :
    effectiveWavelength E thr atol rtol o' false wl erg = effectiveWavelength E thr atol rtol o false wl erg := by
  obtain ⟨hw, hs⟩ := scaled_source_samples E thr o o' k sm bm hm hm'
  apply efflam_scale_invariant E thr atol rtol o o' false wl erg k hk
  · cases wl with
    | none => exact hw
    | some w => rfl
  · exact hs

/-- sampling at the same wavelengths in the opposite order gives the same effective wavelength
(`validate_wavelengths` accepts descending arrays; both integrals change sign) -/
theorem efflam_reverse_invariant (w yp : List K) (hyp : sampleTree E o.model w = .ok yp) :
    effectiveWavelength E thr atol rtol o false (some w.reverse) erg =
      effectiveWavelength E thr atol rtol o false (some w) erg := by
  have hlen := (sampleTree_length E o.model w yp hyp).symm
  rw [efflam_def, efflam_def]
  simp only [efflamGrid, efflamSamples, wavelengthsOr, Bool.false_eq_true, if_false, bind, Except.bind, pure,
    Except.pure, validate_reverse]
  cases validateWavelengths w <;> simp only []
  rw [sampleTree_reverse E o.model w yp hyp, hyp]
  simp only [zip_reverse_eq w yp hlen]
  cases erg
  · simp only [Bool.false_eq_true, if_false, efflamOf_reverse]
  · simp only [if_true, toFlam_reverse, efflamOf_reverse]

/-- for non-negative samples on an ascending grid of positive wavelengths the effective wavelength lies
between any bounds `lo ≤ hi` of the sampled wavelengths (in particular the first and the last) -/
theorem efflam_in_range_model (hP : E.P.Pos) (x yp : List K) (lo hi r : K)
    (hx : efflamGrid thr o binned wl = .ok x) (hyp : efflamSamples E atol rtol o binned x = .ok yp)
    (hasc : AscX (x.zip yp)) (hrange : ∀ p ∈ x.zip yp, lo ≤ p.1 ∧ p.1 ≤ hi) (hlo : 0 < lo)
    (hy : ∀ p ∈ x.zip yp, 0 ≤ p.2)
    (hden : trapz (timesLam (if erg then toFlam E.P (x.zip yp) else x.zip yp)) ≠ 0)
    (hr : effectiveWavelength E thr atol rtol o binned wl erg = .ok r) : lo ≤ r ∧ r ≤ hi := by
  rw [efflam_def, hx] at hr
  simp only [bind, Except.bind, hyp] at hr
  injection hr with hr
  rw [← hr]
  cases erg
  · simp only [Bool.false_eq_true, if_false] at hden ⊢
    exact efflamOf_in_range _ lo hi hasc hrange (le_of_lt hlo) hy hden
  · simp only [if_true] at hden ⊢
    apply efflamOf_in_range _ lo hi (ascX_map _ _ hasc) _ (le_of_lt hlo) _ hden
    · intro p hp
      simp only [toFlam, List.mem_map] at hp
      obtain ⟨p', hp', rfl⟩ := hp
      exact hrange p' hp'
    · intro p hp
      simp only [toFlam, List.mem_map] at hp
      obtain ⟨p', hp', rfl⟩ := hp
      exact div_nonneg (mul_nonneg (hy p' hp') (le_of_lt (mul_pos hP.h hP.c)))
        (le_of_lt (lt_of_lt_of_le hlo (hrange p' hp').1))

end efflam

/-! non-vacuity: the observation of a flat-FLAM source through `Witness.band`, unbinned: grid `[2, 4]`,
PHOTLAM samples `[3·2/(1·1)·1, 3·4/(1·1)·1]` -/
section witness3
open Witness

theorem wGrid (thr : ℝ) : efflamGrid thr (obs (.leaf (.constFlux 3 .flam))) false none = .ok [2, 4] := by
  simp only [efflamGrid, wavelengthsOr, Bool.false_eq_true, if_false]
  exact (wavesetOrErr_congr (sampleset_constFlux_mul thr 3 .flam band)).trans (band_waveset thr)

theorem wSamples (atol rtol : ℝ) :
    efflamSamples wE atol rtol (obs (.leaf (.constFlux 3 .flam))) false [2, 4] =
      .ok (([2, 4] : List ℝ).zip [1, 1] |>.map fun p => 3 * p.1 / (wE.P.h * wE.P.c) * p.2) := by
  simp only [efflamSamples, Bool.false_eq_true, if_false]
  exact sampleTree_constFlux_mul wE 3 .flam band (fun x => 3 * x / (wE.P.h * wE.P.c)) [2, 4] [1, 1] (fun x _ => rfl)
    (band_samples wE)

/-- the effective wavelength of that observation is 10/3 (FLAM samples 3, 3 at 2 and 4: `∫Fλ² = 60`, `∫Fλ = 18`) -/
theorem wEfflam (thr atol rtol : ℝ) :
    effectiveWavelength wE thr atol rtol (obs (.leaf (.constFlux 3 .flam))) false none true = .ok (10 / 3) := by
  rw [efflam_value wE thr atol rtol _ false none true _ _ (wGrid thr) (wSamples atol rtol)]
  norm_num [wE, phys, toFlam, timesLam, timesLamSq, trapz]

example (thr atol rtol : ℝ) :
    effectiveWavelength wE thr atol rtol (obs (.leaf (.constFlux 3 .flam))) false none true =
      (efflamGrid thr (obs (.leaf (.constFlux 3 .flam))) false none >>= fun x =>
        efflamSamples wE atol rtol (obs (.leaf (.constFlux 3 .flam))) false x >>= fun yp =>
          .ok (efflamOf (if true then toFlam wE.P (x.zip yp) else x.zip yp))) :=
  efflam_def wE thr atol rtol _ false none true

example (thr atol rtol : ℝ) :
    effectiveWavelength wE thr atol rtol (obs (.scale (.leaf (.constFlux 3 .flam)) (-7))) false none true =
      effectiveWavelength wE thr atol rtol (obs (.leaf (.constFlux 3 .flam))) false none true :=
  efflam_scaled_source wE thr atol rtol (obs (.leaf (.constFlux 3 .flam))) (obs (.scale (.leaf (.constFlux 3 .flam)) (-7)))
    none true (-7) (by norm_num) _ band rfl rfl

example (thr atol rtol : ℝ) :
    effectiveWavelength wE thr atol rtol (obs (.leaf (.constFlux 3 .flam))) false (some ([2, 4] : List ℝ).reverse) true =
      effectiveWavelength wE thr atol rtol (obs (.leaf (.constFlux 3 .flam))) false (some [2, 4]) true :=
  efflam_reverse_invariant wE thr atol rtol _ true [2, 4] _ (by have := wSamples atol rtol; simpa [efflamSamples] using this)

example (thr atol rtol : ℝ) : (2 : ℝ) ≤ 10 / 3 ∧ (10 / 3 : ℝ) ≤ 4 := by
  refine efflam_in_range_model wE thr atol rtol (obs (.leaf (.constFlux 3 .flam))) false none true phys_pos [2, 4] _ 2 4
    (10 / 3) (wGrid thr) (wSamples atol rtol) ?_ ?_ (by norm_num) ?_ ?_ (wEfflam thr atol rtol)
  · simp only [List.zip_cons_cons, List.zip_nil_right, List.map_cons, List.map_nil, AscX]; norm_num
  · intro p hp
    simp only [List.zip_cons_cons, List.zip_nil_right, List.map_cons, List.map_nil, List.mem_cons,
      List.not_mem_nil, or_false] at hp
    rcases hp with rfl | rfl <;> norm_num
  · intro p hp
    simp only [List.zip_cons_cons, List.zip_nil_right, List.map_cons, List.map_nil, List.mem_cons,
      List.not_mem_nil, or_false] at hp
    rcases hp with rfl | rfl <;> norm_num [wE, phys]
  · norm_num [wE, phys, toFlam, timesLam, trapz]

end witness3

/-! ### VEGAMAG (repaired code: both integrals on the caller's wavelengths when given) -/

/-- `effstim('vegamag', wavelengths, vegaspec)`: 2.5 log₁₀ of the unsigned trapezoid integral of Vega × bandpass over
that of the observation, both on `wavelengths` when given and on each product's own sampling set otherwise -/
theorem effstim_vegamag_def (E : Env K) (thr atol rtol : K) (o : Obs K) (wl : Option (List K)) (area : Option K)
    (vm bm : Tree K) (x xv : List K) (num den : K) (hbm : o.band.model = .ok bm)
    (hx : wavelengthsOr thr o.model wl = .ok x) (hnum : integrateTrapz E o.model x = .ok num)
    (hxv : wavelengthsOr thr (.bin .mul vm bm) wl = .ok xv) (hden : integrateTrapz E (.bin .mul vm bm) xv = .ok den)
    (hn : 0 < num) (hd : 0 < den) :
    effstim E thr atol rtol o .vegamag wl area (some vm) = .ok ((5/2) * (E.T.log10 den - E.T.log10 num)) := by
  simp only [effstim, hbm, hx, hnum, hxv, hden, validateTotalflux, if_neg (not_le.mpr hn), if_neg (not_le.mpr hd),
    bind, Except.bind, pure, Except.pure]

/-- Vega itself observed through the bandpass has VEGAMAG 0, on its own sampling set and on any wavelengths given -/
theorem effstim_vegamag_of_vega (E : Env K) (thr atol rtol : K) (o : Obs K) (wl : Option (List K)) (area : Option K)
    (vm bm : Tree K) (x : List K) (num : K) (hmodel : o.model = .bin .mul vm bm) (hbm : o.band.model = .ok bm)
    (hx : wavelengthsOr thr o.model wl = .ok x) (hnum : integrateTrapz E o.model x = .ok num) (hn : 0 < num) :
    effstim E thr atol rtol o .vegamag wl area (some vm) = .ok 0 := by
  rw [effstim_vegamag_def E thr atol rtol o wl area vm bm x x num num hbm hx hnum (hmodel ▸ hx) (hmodel ▸ hnum) hn hn]
  congr 1; ring

section witness4
open Witness

theorem wIntegral (thr : ℝ) :
    integrateTrapz wE (obs (.leaf (.constFlux 3 .flam))).model [4, 2] = .ok 18 := by
  have hs : sampleTree wE (obs (.leaf (.constFlux 3 .flam))).model [4, 2] =
      .ok (([4, 2] : List ℝ).zip [1, 1] |>.map fun p => 3 * p.1 / (wE.P.h * wE.P.c) * p.2) :=
    sampleTree_constFlux_mul wE 3 .flam band (fun x => 3 * x / (wE.P.h * wE.P.c)) [4, 2] [1, 1] (fun x _ => rfl)
      (band_samples_desc wE)
  have hv : validateWavelengths ([4, 2] : List ℝ) = .ok () := by
    have := band_grid_desc (K := ℝ) thr
    simp only [wavelengthsOr, bind, Except.bind, pure, Except.pure] at this
    cases h : validateWavelengths ([4, 2] : List ℝ) with
    | error e => rw [h] at this; cases this
    | ok u => cases u; rfl
  simp only [integrateTrapz, hv, hs, bind, Except.bind, pure, Except.pure]
  norm_num [wE, phys, trapzXY, trapz]

example (thr atol rtol : ℝ) :
    effstim wE thr atol rtol (obs (.leaf (.constFlux 3 .flam))) .vegamag (some [4, 2]) none
      (some (.leaf (.constFlux 3 .flam))) = .ok 0 :=
  effstim_vegamag_of_vega wE thr atol rtol _ (some [4, 2]) none _ band [4, 2] 18 rfl rfl
    (by rw [show (obs (.leaf (.constFlux 3 .flam)) : Obs ℝ).model = .bin .mul (.leaf (.constFlux 3 .flam)) band from rfl]
        exact (wavelengthsOr_congr _ (sampleset_constFlux_mul thr 3 .flam band)).trans (band_grid_desc thr))
    (wIntegral thr) (by norm_num)

example (thr atol rtol : ℝ) :
    effstim wE thr atol rtol (obs (.leaf (.constFlux 3 .flam))) .vegamag (some [4, 2]) none
      (some (.leaf (.constFlux 3 .flam))) = .ok ((5/2) * (wE.T.log10 18 - wE.T.log10 18)) :=
  effstim_vegamag_def wE thr atol rtol _ (some [4, 2]) none _ band [4, 2] [4, 2] 18 18 rfl
    (by rw [show (obs (.leaf (.constFlux 3 .flam)) : Obs ℝ).model = .bin .mul (.leaf (.constFlux 3 .flam)) band from rfl]
        exact (wavelengthsOr_congr _ (sampleset_constFlux_mul thr 3 .flam band)).trans (band_grid_desc thr))
    (wIntegral thr)
    ((wavelengthsOr_congr _ (sampleset_constFlux_mul thr 3 .flam band)).trans (band_grid_desc thr))
    (wIntegral thr) (by norm_num) (by norm_num)

end witness4

end round2

end Synphot.C09
