import Synphot.Driver.Json
import Synphot.Core.FFT
import Synphot.Driver.FloatTransc

open Lean Synphot Synphot.FFT

namespace Synphot.Driver

/-- the bandpass of a case: an `Empirical1D` table (built with the constructor's defaults) -/
def c20Bandpass (j : Json) : M (Rat → Rat) := do
  let pts ← fRats j "pts"
  let vals ← fRats j "vals"
  pure (mkTable pts vals false).1.eval

def c20Pairs (j : Json) : M (List (Rat × Rat)) := do
  let re ← fRats j "re"
  let im ← fRats j "im"
  if re.length ≠ im.length then .error "re/im lengths differ" else pure (re.zip im)

def c20ParamsJson (r : Params Rat) : Json :=
  Json.mkObj [("n", Json.num (r.n : Int)), ("lam0", jRat r.lam0), ("delta", jRat r.delta),
              ("tr_max", jRat r.trMax), ("re", jRats (r.fft.map (·.1))), ("im", jRats (r.fft.map (·.2)))]

def dispatchC20M (op : String) (j : Json) : M Json := do
  match op with
  | "fft_to" => do
      let bp ← c20Bandpass j
      let wl ← fRats j "wl"
      let N ← fNat j "N"
      let nTerms ← fNat j "n_terms"
      pure (outcome c20ParamsJson (filterToFft transcQ bp wl N nTerms))
  | "fft_from" => do
      let N ← fNat j "N"
      let lam0 ← fRat j "lam0"
      let delta ← fRat j "delta"
      let trMax ← fRat j "tr_max"
      let params ← c20Pairs j
      let tab := filterFromFft transcQ N lam0 delta trMax params
      let xs := simplifiedWavelength N lam0 delta
      let ana := analyticEval transcQ N lam0 delta trMax params xs
      pure (Json.mkObj [
        ("from", outcome (fun (t : List Rat × List Rat) =>
            Json.mkObj [("pts", jRats t.1), ("vals", jRats t.2)]) tab),
        ("analytic", outcome jRats ana)])
  | "fft_table" => do
      let fs ← fArr j "filters"
      let nTerms ← fNat j "n_terms"
      let ins ← fs.mapM fun f => do
        let bp ← c20Bandpass f
        pure ({ name := ← fStr f "name", bp := bp, wl := ← fRats f "wl", N := ← fNat f "N" } : FilterIn Rat)
      pure (outcome (fun (rows : List (String × Params Rat)) =>
        Json.arr (rows.map fun r => Json.mkObj [("name", Json.str r.1), ("row", c20ParamsJson r.2)]).toArray)
        (filtersToFftTable transcQ ins nTerms))
  | _ => .error s!"unknown op {op}"

/-- ops of C20 -/
def dispatchC20 (op : String) (j : Json) : Option (M Json) :=
  if op ∈ ["fft_to", "fft_from", "fft_table"] then some (dispatchC20M op j) else none

end Synphot.Driver
