import Mathlib.Tactic.Linarith
import Mathlib.Data.List.Chain
import Mathlib.Data.Finset.Sort
import Synphot.Lemmas.Wave

set_option linter.unusedSectionVars false
set_option linter.unusedSimpArgs false

namespace Synphot
variable {K : Type} [Field K] [LinearOrder K] [IsStrictOrderedRing K]

theorem union1d_comm (a b : List K) : union1d a b = union1d b a := by
  unfold union1d; rw [Finset.union_comm]

theorem mem_union1d (a b : List K) (x : K) : x ∈ union1d a b ↔ x ∈ a ∨ x ∈ b := by
  unfold union1d; simp [Finset.mem_sort]

theorem union1d_strictAsc (a b : List K) : StrictAsc (union1d a b) := by
  rw [strictAsc_iff_chain, ← List.sortedLT_iff_isChain]
  exact Finset.sortedLT_sort _

/-- a strictly ascending list is its own sorted set -/
theorem union1d_self (m : List K) (h : StrictAsc m) : union1d m m = m := by
  unfold union1d
  rw [Finset.union_self]
  have hp : m.Pairwise (· < ·) := by
    rw [← List.sortedLT_iff_pairwise, List.sortedLT_iff_isChain, ← strictAsc_iff_chain]; exact h
  have hnd : m.Nodup := hp.imp (fun hab => ne_of_lt hab)
  exact (List.toFinset_sort (r := (· ≤ ·)) hnd).mpr (hp.imp le_of_lt)

/-- all neighbours farther apart than the threshold -/
def Gaps (thr : K) : List K → Prop
  | a :: b :: t => thr < b - a ∧ Gaps thr (b :: t)
  | _ => True

theorem filterClose_cons_cons (thr a b : K) (t : List K) :
    filterClose thr (a :: b :: t) =
      if b - a > thr then a :: filterClose thr (b :: t) else filterClose thr (b :: t) := rfl

/-- the filter never empties a non-empty list and keeps its last element -/
theorem filterClose_ne_nil (thr : K) (l : List K) (h : l ≠ []) : filterClose thr l ≠ [] := by
  induction l with
  | nil => exact absurd rfl h
  | cons a l ih =>
    cases l with
    | nil => simp [filterClose]
    | cons b l =>
      rw [filterClose_cons_cons]
      split_ifs
      · simp
      · exact ih (by simp)

theorem filterClose_getLast (thr : K) (l : List K) (h : l ≠ []) :
    (filterClose thr l).getLast (filterClose_ne_nil thr l h) = l.getLast h := by
  induction l with
  | nil => exact absurd rfl h
  | cons a l ih =>
    cases l with
    | nil => simp [filterClose]
    | cons b l =>
      have hb : (b :: l) ≠ [] := by simp
      have e1 : (a :: b :: l).getLast h = (b :: l).getLast hb := by simp [List.getLast_cons]
      rw [e1, ← ih hb]
      by_cases hc : b - a > thr
      · have e : filterClose thr (a :: b :: l) = a :: filterClose thr (b :: l) := by
          rw [filterClose_cons_cons, if_pos hc]
        simp only [e]
        rw [List.getLast_cons (filterClose_ne_nil thr (b :: l) hb)]
      · have e : filterClose thr (a :: b :: l) = filterClose thr (b :: l) := by
          rw [filterClose_cons_cons, if_neg hc]
        simp only [e]

theorem filterClose_sublist (thr : K) (l : List K) : (filterClose thr l).Sublist l := by
  induction l with
  | nil => simp [filterClose]
  | cons a l ih =>
    cases l with
    | nil => simp [filterClose]
    | cons b l =>
      rw [filterClose_cons_cons]
      split_ifs
      · exact ih.cons_cons a
      · exact ih.cons a

/-- head of the filtered list is at least the head of the input (ascending input) -/
theorem filterClose_head_ge (thr : K) (a : K) (l : List K) (hs : StrictAsc (a :: l)) :
    ∀ x ∈ filterClose thr (a :: l), a ≤ x := by
  intro x hx
  have hm := (filterClose_sublist thr (a :: l)).subset hx
  have hp : (a :: l).Pairwise (· < ·) := by
    rw [← List.sortedLT_iff_pairwise, List.sortedLT_iff_isChain, ← strictAsc_iff_chain]; exact hs
  rcases List.mem_cons.mp hm with rfl | hm
  · exact le_refl _
  · exact le_of_lt (List.rel_of_pairwise_cons hp hm)

/-- after the filter every pair of neighbours is farther apart than the threshold -/
theorem filterClose_gaps (thr : K) (l : List K) (hs : StrictAsc l) : Gaps thr (filterClose thr l) := by
  induction l with
  | nil => simp [filterClose, Gaps]
  | cons a l ih =>
    cases l with
    | nil => simp [filterClose, Gaps]
    | cons b l =>
      obtain ⟨hab, hs'⟩ := hs
      have ih' := ih hs'
      rw [filterClose_cons_cons]
      split_ifs with hc
      · -- a kept; the next kept element is ≥ b
        have hne := filterClose_ne_nil thr (b :: l) (by simp)
        obtain ⟨y, ys, hy⟩ := List.exists_cons_of_ne_nil hne
        rw [hy] at ih' ⊢
        refine ⟨?_, ih'⟩
        have : b ≤ y := filterClose_head_ge thr b l hs' y (by rw [hy]; simp)
        have hc' : thr < b - a := hc
        linarith
      · exact ih'

theorem filterClose_strictAsc (thr : K) (l : List K) (hs : StrictAsc l) :
    StrictAsc (filterClose thr l) := by
  rw [strictAsc_iff_chain] at hs ⊢
  have hp : l.Pairwise (· < ·) := by
    rw [← List.sortedLT_iff_pairwise, List.sortedLT_iff_isChain]; exact hs
  have := hp.sublist (filterClose_sublist thr l)
  rw [← List.sortedLT_iff_isChain, List.sortedLT_iff_pairwise]; exact this

/-- a point is dropped only if a larger input point lies within the threshold -/
theorem filterClose_dropped (thr : K) (l : List K) (hs : StrictAsc l) (x : K) (hx : x ∈ l)
    (hnx : x ∉ filterClose thr l) : ∃ y ∈ l, x < y ∧ y - x ≤ thr := by
  induction l with
  | nil => simp at hx
  | cons a l ih =>
    cases l with
    | nil => simp [filterClose] at hx hnx; exact absurd hx hnx
    | cons b l =>
      obtain ⟨hab, hs'⟩ := hs
      rw [filterClose_cons_cons] at hnx
      by_cases hc : b - a > thr
      · rw [if_pos hc] at hnx
        rcases List.mem_cons.mp hx with rfl | hx'
        · exact absurd (List.mem_cons_self) hnx
        · obtain ⟨y, hy, h1, h2⟩ := ih hs' hx' (fun h => hnx (List.mem_cons_of_mem _ h))
          exact ⟨y, List.mem_cons_of_mem _ hy, h1, h2⟩
      · rw [if_neg hc] at hnx
        rcases List.mem_cons.mp hx with rfl | hx'
        · exact ⟨b, by simp, hab, not_lt.mp hc⟩
        · obtain ⟨y, hy, h1, h2⟩ := ih hs' hx' hnx
          exact ⟨y, List.mem_cons_of_mem _ hy, h1, h2⟩

/-- a list that already has all gaps above the threshold passes the filter unchanged -/
theorem filterClose_of_gaps (thr : K) (l : List K) (hg : Gaps thr l) : filterClose thr l = l := by
  induction l with
  | nil => rfl
  | cons a l ih =>
    cases l with
    | nil => rfl
    | cons b l =>
      obtain ⟨hab, hg'⟩ := hg
      rw [filterClose_cons_cons, if_pos hab, ih hg']

end Synphot
