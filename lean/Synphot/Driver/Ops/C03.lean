import Synphot.Driver.Json
import Synphot.Core.Interp

open Lean Synphot

namespace Synphot.Driver

/-- build the table of a case: `pts`, `vals`, `keep_neg`, optional `force_extrap` -/
def parseTable (j : Json) : M (Table Rat × Bool) := do
  let pts ← fRats j "pts"
  let vals ← fRats j "vals"
  let keep ← fBool j "keep_neg"
  let (t, warn) := mkTable pts vals keep
  let force := match fOpt j "force_extrap" with
    | some (.bool true) => true
    | _ => false
  pure (if force then t.forceExtrap else t, warn)

def dispatchC03M (op : String) (j : Json) : M Json := do
  match op with
  | "table_eval" => do
      let (t, warn) ← parseTable j
      let xs ← fRats j "xs"
      pure (Json.mkObj [("ok", Json.mkObj [
        ("vals", jRats (xs.map t.eval)), ("warn", Json.bool warn),
        ("tapered", Json.bool t.isTapered)])])
  | "table_taper" => do
      -- taper() of a spectrum whose model is this table; `wl`: caller's wavelengths or null (= the points)
      let (t, _) ← parseTable j
      let xs ← fRats j "xs"
      let grid ← match fOpt j "wl" with
        | some w => do
            let g ← asRats w
            pure (if isDesc g then g.reverse else g)      -- cfa13db: ascending order whatever the caller's
        | none => pure t.pts
      -- `scale` k: the spectrum is the composite table x k (not itself a table): its end values are sampled at
      -- the would-be new end points, and the tapered table keeps what the composite samples (06626d1)
      let scale ← match fOpt j "scale" with
        | some kj => do pure (some (← asRat kj))
        | none => pure none
      let f : Rat → Rat := match scale with
        | some k => fun x => t.eval x * k
        | none => t.eval
      let (first, last) := match scale, grid with
        | some _, x0 :: x1 :: _ =>
            let xl := grid.getLastD x0
            let xl2 := (grid.dropLast).getLastD x0
            (f (x0 ^ 2 / x1), f (xl ^ 2 / xl2))
        | _, _ => (t.vals.headD 0, t.vals.getLastD 0)
      match taperPts grid first last f with
      | none => pure (Json.mkObj [("ok", Json.mkObj [("same", Json.bool true),
                                   ("vals", jRats (xs.map f))])])
      | some (px, py) =>
          let keep := match scale, fOpt j "taper_keeps_flag" with
            | some _, _ => true
            | none, some (.bool true) => t.keepNeg
            | _, _ => false
          let (t2, _) := mkTable px py keep
          pure (Json.mkObj [("ok", Json.mkObj [("same", Json.bool false), ("pts", jRats t2.pts),
                  ("tvals", jRats t2.vals), ("vals", jRats (xs.map t2.eval)),
                  ("tapered", Json.bool t2.isTapered)])])
  | _ => .error s!"unknown op {op}"

def dispatchC03 (op : String) (j : Json) : Option (M Json) :=
  if op ∈ ["table_eval", "table_taper"] then some (dispatchC03M op j) else none

end Synphot.Driver
