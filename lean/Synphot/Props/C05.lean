/-
  C05 — Redshift maps wavelength (and optionally flux) exactly, in any setter order.

  `ZState` is what the two setters of `SourceSpectrum` store, `ZState.model` the `model` property.
-/
import Synphot.Lemmas.Spectrum
import Synphot.Lemmas.Trapz
import Synphot.Lemmas.C05x
import Synphot.Lemmas.C13x

set_option linter.unusedSectionVars false
set_option linter.unusedVariables false

namespace Synphot.C05
open Synphot
variable {K : Type} [Field K] [LinearOrder K] [IsStrictOrderedRing K]

/-- sampling through the `model` property -/
def sampleAt (E : Env K) (s : ZState K) (m : Tree K) (x : K) : Except Err K := do
  let t ← s.model m
  t.eval E x

/-- wavelength-only redshift: the spectrum sampled at `L` is the rest-frame spectrum at `L/(1+z)` -/
theorem sample_wavelength_only (E : Env K) (z : K) (m : Tree K) (x : K) :
    sampleAt E (ZState.init z .wavelengthOnly) m x = m.eval E (x / (1 + z)) := by
  unfold sampleAt ZState.model ZState.init
  by_cases hz : z = 0
  · subst hz; simp [bind, Except.bind]
  · simp [hz, bind, Except.bind, Tree.eval]

/-- flux-conserving redshift: additionally divided by `1+z` -/
theorem sample_conserve_flux (E : Env K) (z : K) (m : Tree K) (x v : K)
    (h : m.eval E (x / (1 + z)) = .ok v) :
    sampleAt E (ZState.init z .conserveFlux) m x = .ok (v / (1 + z)) := by
  unfold sampleAt ZState.model ZState.init
  by_cases hz : z = 0
  · subst hz
    have h' : m.eval E x = .ok v := by simpa using h
    simp only [if_true, bind, Except.bind, h']
    simp
  · simp only [hz, if_false, bind, Except.bind, Tree.eval, h, pure, Except.pure]
    congr 1; ring

/-- the optimal sampling set is the rest-frame set multiplied by `1+z` (either type) -/
theorem sampleset_redshift (thr z : K) (t : ZType) (m mt : Tree K) (hz : z ≠ 0)
    (h : (ZState.init z t).model m = .ok mt) :
    mt.sampleset thr = (m.sampleset thr).map (fun w => w.map (· * (1 + z))) := by
  cases t <;> simp [ZState.init, ZState.model, hz] at h <;> subst h <;> simp [Tree.sampleset]

/-- with flux conservation the trapezoid integral over the redshifted sampling set equals the
rest-frame one (wavelengths × (1+z), fluxes / (1+z)) -/
theorem integral_conserved (z : K) (hz : 1 + z ≠ 0) (samples : List (K × K)) :
    trapz (samples.map fun p => ((1 + z) * p.1, (1 / (1 + z)) * p.2)) = trapz samples := by
  rw [trapz_scale_xy]; field_simp

/-! ### histories of assignments -/

inductive ZOp (K : Type)
  | setZ (z : K)          -- a real scalar
  | setZBad               -- complex, str, None, array, Quantity: rejected
  | setZType (t : ZType)
  | setZTypeBad           -- unknown redshift type: rejected

/-- a rejected assignment raises `SynphotError` and leaves the object as it was -/
def applyOp (s : ZState K) : ZOp K → ZState K
  | .setZ z => s.setZ z
  | .setZBad => s
  | .setZType t => s.setZType t
  | .setZTypeBad => s

def lastZ (z0 : K) : List (ZOp K) → K
  | [] => z0
  | .setZ z :: t => lastZ z t
  | _ :: t => lastZ z0 t

def lastType (t0 : ZType) : List (ZOp K) → ZType
  | [] => t0
  | .setZType t :: r => lastType t r
  | _ :: r => lastType t0 r

theorem setZ_init (z0 z : K) (t : ZType) : (ZState.init z0 t).setZ z = ZState.init z t := by
  cases t <;> rfl

theorem setZType_init (z : K) (t0 t : ZType) : (ZState.init z t0).setZType t = ZState.init z t := by
  cases t0 <;> cases t <;> rfl

/-- the object reached by any sequence of assignments to `z` and `z_type` (rejected ones included)
is the freshly constructed object with the final values -/
theorem history_independent (z0 : K) (t0 : ZType) (ops : List (ZOp K)) :
    ops.foldl applyOp (ZState.init z0 t0) = ZState.init (lastZ z0 ops) (lastType t0 ops) := by
  induction ops generalizing z0 t0 with
  | nil => rfl
  | cons op ops ih =>
    cases op with
    | setZ z => simp only [List.foldl_cons, applyOp, setZ_init, lastZ, lastType]; exact ih z t0
    | setZBad => simp only [List.foldl_cons, applyOp, lastZ, lastType]; exact ih z0 t0
    | setZType t => simp only [List.foldl_cons, applyOp, setZType_init, lastZ, lastType]; exact ih z0 t
    | setZTypeBad => simp only [List.foldl_cons, applyOp, lastZ, lastType]; exact ih z0 t0

/-- consequently no history reaches a state whose `model` raises -/
theorem model_never_typeError (z0 : K) (t0 : ZType) (ops : List (ZOp K)) (m : Tree K) :
    ∃ t, (ops.foldl applyOp (ZState.init z0 t0)).model m = .ok t := by
  rw [history_independent]
  generalize lastZ z0 ops = z
  cases lastType t0 ops <;> simp only [ZState.init, ZState.model] <;>
    by_cases hz : z = 0 <;> simp [hz]

/-- setting `z` back to 0 restores the rest-frame spectrum -/
theorem setZ_zero_restores (s : ZState K) (m : Tree K) : (s.setZ 0).model m = .ok m := by
  simp [ZState.setZ, ZState.model]

/-- non-vacuity of `history_independent`: a history on which the unrepaired code failed -/
example : ([ZOp.setZ (1 : ℚ), .setZType .conserveFlux].foldl applyOp (ZState.init 0 .wavelengthOnly)).fluxScale
    = some (1 / 2) := by
  simp [applyOp, ZState.setZ, ZState.setZType, ZState.init]; norm_num

/-! ## second round: composites, already-redshifted operands, integrals on any grid, histories with
queries, the inverse redshift, positivity -/
open Synphot.C05x Synphot.C13x

/-- **the sampling law in one statement**, both redshift types, every model tree (leaf, composite,
already redshifted), errors of the rest-frame evaluation included: the spectrum sampled at `L` is the
rest-frame spectrum at `L/(1+z)` times the flux factor of the type (`1`, or `1/(1+z)`) -/
theorem sample_law (E : Env K) (z : K) (t : ZType) (m : Tree K) (x : K) :
    sampleAt E (ZState.init z t) m x = (m.eval E (x / (1 + z))).map (· * fluxFactor t z) := by
  unfold sampleAt
  rw [model_init]
  exact eval_modelTree E z t m x

/-- **already-redshifted operand**: a source built from another source's redshifted model, with a
further redshift on top, samples the innermost model at `L/((1+z₁)(1+z₂))` — redshifts compose by the
product of their factors — with the product of the two flux factors; all four type combinations -/
theorem redshift_compose (E : Env K) (z1 z2 : K) (t1 t2 : ZType) (m m1 : Tree K) (x : K)
    (h : (ZState.init z1 t1).model m = .ok m1) :
    sampleAt E (ZState.init z2 t2) m1 x =
      (m.eval E (x / ((1 + z1) * (1 + z2)))).map (· * (fluxFactor t1 z1 * fluxFactor t2 z2)) := by
  rw [model_init] at h; cases h
  rw [sample_law, eval_modelTree, map_map_mul, div_div, mul_comm (1 + z2) (1 + z1)]

/-- the same at the level of spectrum objects: `SourceSpectrum(sp.model, z=z₂, z_type=t₂)` for a source
`sp` that carries `(z₁, t₁)` -/
theorem wrap_redshifted_source (E : Env K) (s r : Spec K) (z1 z2 : K) (t1 t2 : ZType) (x : K)
    (hk : s.kind = .source) (hs : s.zs = ZState.init z1 t1) (h : wrapZ s z2 t2 = .ok r) :
    r.evalAt E x =
      (s.tree.eval E (x / ((1 + z1) * (1 + z2)))).map (· * (fluxFactor t1 z1 * fluxFactor t2 z2)) := by
  unfold wrapZ at h
  obtain ⟨m1, hm1, h⟩ := bind_ok h
  cases h
  have hm : (ZState.init z1 t1).model s.tree = .ok m1 := by
    simpa [Spec.model, hk, hs] using hm1
  have := redshift_compose E z1 z2 t1 t2 s.tree m1 x hm
  simpa [Spec.evalAt, Spec.model, sampleAt] using this

/-- **composite operand**: the redshift attributes assigned on the result of any admitted operator
(`sp.z_type = t; sp.z = z` on `a <op> b`, whose parts may carry redshifts of their own): the composite
sampled at `L` is the operator applied to the operands' values at `L/(1+z)`, times the flux factor -/
theorem redshift_of_composite (E : Env K) (op : BinOp) (self : Spec K) (o : Operand K) (r : Spec K)
    (z : K) (t : ZType) (x va vb v : K)
    (h : specOp op self o = .ok r) (hk : r.kind = .source)
    (ha : self.evalAt E (x / (1 + z)) = .ok va) (hb : o.valueAt E (x / (1 + z)) = .ok vb)
    (hv : op.apply va vb = .ok v) :
    (assignZ r z t).evalAt E x = .ok (v * fluxFactor t z) := by
  have hr := specOp_valueAt E op self o r _ va vb v h ha hb hv
  obtain ⟨k, tr, _, _, rfl⟩ := specOp_ok h
  rw [ofTree_evalAt] at hr
  have hk' : k = .source := hk
  subst hk'
  have : (assignZ (Spec.ofTree .source tr) z t).evalAt E x = sampleAt E (ZState.init z t) tr x := by
    simp [assignZ, Spec.evalAt, Spec.model, Spec.ofTree, sampleAt, setZType_setZ]
  rw [this, sample_law, hr]
  rfl

/-- the optimal sampling set is the rest-frame set multiplied by `1+z` for **every** `z` (at `z = 0`
the factor is 1) and every model tree — composites and already-redshifted models included -/
theorem sampleset_redshift_any_z (thr z : K) (t : ZType) (m mt : Tree K)
    (h : (ZState.init z t).model m = .ok mt) :
    mt.sampleset thr = (m.sampleset thr).map (fun w => w.map (· * (1 + z))) := by
  rw [model_init] at h; cases h
  exact sampleset_modelTree thr z t m

/-- the sampling set of a redshifted **composite** is the merged set of the components times `1+z` -/
theorem sampleset_redshift_composite (thr z : K) (t : ZType) (op : BinOp) (l r mt : Tree K)
    (h : (ZState.init z t).model (.bin op l r) = .ok mt) :
    mt.sampleset thr =
      (mergeWavelengths thr (l.sampleset thr) (r.sampleset thr)).map (fun w => w.map (· * (1 + z))) :=
  sampleset_redshift_any_z thr z t _ mt h

/-- the sampling set of an **already-redshifted** source redshifted again is the rest-frame set times
`(1+z₁)(1+z₂)` -/
theorem sampleset_redshift_compose (thr z1 z2 : K) (t1 t2 : ZType) (m m1 m2 : Tree K)
    (h1 : (ZState.init z1 t1).model m = .ok m1) (h2 : (ZState.init z2 t2).model m1 = .ok m2) :
    m2.sampleset thr = (m.sampleset thr).map (fun w => w.map (· * ((1 + z1) * (1 + z2)))) := by
  rw [sampleset_redshift_any_z thr z2 t2 m1 m2 h2, sampleset_redshift_any_z thr z1 t1 m m1 h1]
  cases m.sampleset thr with
  | none => rfl
  | some w => simp [List.map_map]

/-- for `1+z > 0` the redshifted sampling set stays positive and strictly increasing -/
theorem sampleset_redshift_valid (z : K) (hz : 0 < 1 + z) (w : List K) (hp : ∀ x ∈ w, 0 < x)
    (hs : StrictAsc w) :
    (∀ x ∈ w.map (· * (1 + z)), 0 < x) ∧ StrictAsc (w.map (· * (1 + z))) :=
  ⟨pos_map_mul (1 + z) hz w hp, strictAsc_map_mul (1 + z) hz w hs⟩

/-- hence `waveset` of the redshifted spectrum — refusals included — is the rest-frame `waveset` times
`1+z`: a redshift (or blueshift, `z > −1`) never turns a valid set into a refused one or back -/
theorem waveset_redshift (thr z : K) (hz : 0 < 1 + z) (t : ZType) (m mt : Tree K)
    (h : (ZState.init z t).model m = .ok mt) :
    mt.waveset thr = (m.waveset thr).map (fun o => o.map (fun w => w.map (· * (1 + z)))) := by
  unfold Tree.waveset
  rw [sampleset_redshift_any_z thr z t m mt h]
  cases hs : m.sampleset thr with
  | none => rfl
  | some w =>
    simp only [Option.map_some, validate_map_mul (1 + z) hz w]
    cases validateWavelengths w <;> rfl

/-- the wavelength map itself: `L ↦ L/(1+z)` keeps wavelengths positive and in order -/
theorem rest_wavelength_pos_mono (z : K) (hz : 0 < 1 + z) (x y : K) :
    (0 < x → 0 < x / (1 + z)) ∧ (x < y → x / (1 + z) < y / (1 + z)) :=
  ⟨fun h => div_pos h hz, fun h => div_lt_div_of_pos_right h hz⟩

/-- **flux conservation on any sampling grid**: whatever grid `w` the rest-frame model is sampled on
(values `ys`), the `conserve_flux` spectrum sampled on the grid `w·(1+z)` has the values `ys/(1+z)`
and the same trapezoid integral -/
theorem integral_conserved_any_grid (E : Env K) (z : K) (hz : 1 + z ≠ 0) (m mt : Tree K)
    (w ys : List K) (hm : (ZState.init z .conserveFlux).model m = .ok mt)
    (hy : w.mapM (m.eval E) = .ok ys) :
    (w.map (· * (1 + z))).mapM (mt.eval E) = .ok (ys.map (· * (1 / (1 + z)))) ∧
    trapzXY (w.map (· * (1 + z))) (ys.map (· * (1 / (1 + z)))) = trapzXY w ys := by
  rw [model_init] at hm; cases hm
  constructor
  · refine mapM_transport (· * (1 + z)) (1 / (1 + z)) ?_ hy
    intro x
    rw [eval_modelTree, mul_div_assoc, div_self hz, mul_one]
    rfl
  · rw [trapzXY_scale]; field_simp

/-- `wavelength_only` does not conserve: on the same pair of grids the values are unchanged and the
trapezoid integral is multiplied by `1+z` -/
theorem integral_wavelength_only_scales (E : Env K) (z : K) (hz : 1 + z ≠ 0) (m mt : Tree K)
    (w ys : List K) (hm : (ZState.init z .wavelengthOnly).model m = .ok mt)
    (hy : w.mapM (m.eval E) = .ok ys) :
    (w.map (· * (1 + z))).mapM (mt.eval E) = .ok ys ∧
    trapzXY (w.map (· * (1 + z))) ys = (1 + z) * trapzXY w ys := by
  rw [model_init] at hm; cases hm
  have h1 : (w.map (· * (1 + z))).mapM ((modelTree z .wavelengthOnly m).eval E) =
      .ok (ys.map (· * (1 : K))) := by
    refine mapM_transport (· * (1 + z)) 1 ?_ hy
    intro x
    rw [eval_modelTree, mul_div_assoc, div_self hz, mul_one]
    rfl
  have h2 : ys.map (· * (1 : K)) = ys := by simp
  rw [h2] at h1
  refine ⟨h1, ?_⟩
  have := trapzXY_scale (1 + z) 1 w ys
  rw [h2] at this
  rw [this]; ring

/-! ### the inverse redshift and `z = 0` -/

/-- `z = 0` is the identity on samples, for both types -/
theorem sample_z_zero (E : Env K) (t : ZType) (m : Tree K) (x : K) :
    sampleAt E (ZState.init 0 t) m x = m.eval E x := by
  rw [sample_law, fluxFactor_zero, map_mul_one, add_zero, div_one]

/-- redshifting by `z` and then, with the same type, by `−z/(1+z)` restores the rest frame on samples -/
theorem redshift_inverse_sample (E : Env K) (z : K) (hz : 1 + z ≠ 0) (t : ZType) (m m1 : Tree K)
    (x : K) (h : (ZState.init z t).model m = .ok m1) :
    sampleAt E (ZState.init (-z / (1 + z)) t) m1 x = m.eval E x := by
  have h1 : (1 + z) * (1 + -z / (1 + z)) = 1 := by field_simp; ring
  have h2 : fluxFactor t z * fluxFactor t (-z / (1 + z)) = 1 := by
    cases t
    · simp [fluxFactor]
    · simp only [fluxFactor]
      rw [one_div_mul_one_div, h1, one_div_one]
  rw [redshift_compose E z _ t t m m1 x h, h1, h2, div_one, map_mul_one]

/-- … and on the sampling set -/
theorem redshift_inverse_sampleset (thr z : K) (hz : 1 + z ≠ 0) (t : ZType) (m m1 m2 : Tree K)
    (h1 : (ZState.init z t).model m = .ok m1)
    (h2 : (ZState.init (-z / (1 + z)) t).model m1 = .ok m2) :
    m2.sampleset thr = m.sampleset thr := by
  have h : (1 + z) * (1 + -z / (1 + z)) = 1 := by field_simp; ring
  rw [sampleset_redshift_compose thr z _ t t m m1 m2 h1 h2, h]
  cases m.sampleset thr <;> simp

/-! ### histories that also contain read-only queries -/

/-- the attribute reads and derived queries a program may interleave with the assignments -/
inductive ZQuery (K : Type)
  | sample (x : K)          -- `sp(x)`
  | sampleset (thr : K)     -- `sp.waveset` (before validation)
  | getZ                    -- `sp.z`
  | getZType                -- `sp.z_type`

inductive ZAnswer (K : Type)
  | value (r : Except Err K)
  | set (r : Except Err (Option (List K)))
  | z (v : K)
  | ztype (t : ZType)

inductive ZStep (K : Type)
  | assign (op : ZOp K)
  | query (q : ZQuery K)

/-- what a query returns in a given state -/
def answer (E : Env K) (m : Tree K) (s : ZState K) : ZQuery K → ZAnswer K
  | .sample x => .value (sampleAt E s m x)
  | .sampleset thr => .set ((s.model m).map fun t => t.sampleset thr)
  | .getZ => .z s.z
  | .getZType => .ztype s.zType

/-- run a history: the final state and the answers of its queries, in order -/
def runSteps (E : Env K) (m : Tree K) : ZState K → List (ZStep K) → ZState K × List (ZAnswer K)
  | s, [] => (s, [])
  | s, .assign op :: rest => runSteps E m (applyOp s op) rest
  | s, .query q :: rest => ((runSteps E m s rest).1, answer E m s q :: (runSteps E m s rest).2)

/-- the assignments of a history, queries removed -/
def assignments : List (ZStep K) → List (ZOp K)
  | [] => []
  | .assign op :: rest => op :: assignments rest
  | .query _ :: rest => assignments rest

theorem runSteps_state (E : Env K) (m : Tree K) (s : ZState K) (steps : List (ZStep K)) :
    (runSteps E m s steps).1 = (assignments steps).foldl applyOp s := by
  induction steps generalizing s with
  | nil => rfl
  | cons st rest ih =>
    cases st with
    | assign op => simp only [runSteps, assignments, List.foldl_cons]; exact ih _
    | query q => simp only [runSteps, assignments]; exact ih _

/-- **queries leave no trace**: the object reached by a history of assignments *and* queries is the
freshly constructed object with the last valid values — the queries in between do not matter -/
theorem history_with_queries_state (E : Env K) (m : Tree K) (z0 : K) (t0 : ZType)
    (steps : List (ZStep K)) :
    (runSteps E m (ZState.init z0 t0) steps).1 =
      ZState.init (lastZ z0 (assignments steps)) (lastType t0 (assignments steps)) := by
  rw [runSteps_state, history_independent]

theorem runSteps_append (E : Env K) (m : Tree K) (s : ZState K) (pre post : List (ZStep K)) :
    runSteps E m s (pre ++ post) =
      ((runSteps E m (runSteps E m s pre).1 post).1,
       (runSteps E m s pre).2 ++ (runSteps E m (runSteps E m s pre).1 post).2) := by
  induction pre generalizing s with
  | nil => simp [runSteps]
  | cons st rest ih =>
    cases st with
    | assign op => simp only [List.cons_append, runSteps]; exact ih _
    | query q => simp only [List.cons_append, runSteps, ih, List.cons_append]

/-- **every answer is memo-free**: a query anywhere in a history is answered exactly as a freshly
constructed object with the values assigned before it would answer, whatever was assigned or queried
earlier, and the rest of the history proceeds from that fresh object -/
theorem history_with_queries_answers (E : Env K) (m : Tree K) (z0 : K) (t0 : ZType)
    (pre post : List (ZStep K)) (q : ZQuery K) :
    (runSteps E m (ZState.init z0 t0) (pre ++ .query q :: post)).2 =
      (runSteps E m (ZState.init z0 t0) pre).2 ++
        answer E m (ZState.init (lastZ z0 (assignments pre)) (lastType t0 (assignments pre))) q ::
        (runSteps E m (ZState.init (lastZ z0 (assignments pre)) (lastType t0 (assignments pre))) post).2 := by
  rw [runSteps_append, history_with_queries_state]
  rfl

/-- in particular the sample returned at the end of any history is the rest-frame model at
`L/(1+z)` times the flux factor, for the last assigned `z` and type -/
theorem history_with_queries_sample (E : Env K) (m : Tree K) (z0 : K) (t0 : ZType)
    (steps : List (ZStep K)) (x : K) :
    sampleAt E (runSteps E m (ZState.init z0 t0) steps).1 m x =
      (m.eval E (x / (1 + lastZ z0 (assignments steps)))).map
        (· * fluxFactor (lastType t0 (assignments steps)) (lastZ z0 (assignments steps))) := by
  rw [history_with_queries_state, sample_law]

/-- assigning both attributes, in either order, from *any* state (not only a freshly constructed one)
gives the freshly constructed state -/
theorem assign_both_any_state (s : ZState K) (z : K) (t : ZType) :
    (s.setZType t).setZ z = ZState.init z t ∧ (s.setZ z).setZType t = ZState.init z t :=
  ⟨setZType_setZ s z t, setZ_setZType s z t⟩

/-! ### non-vacuity of the second round (concrete rational data; a box of height 3 on [4, 6]) -/

private def exM : Tree ℚ := .leaf (.box 3 5 2 (some [4, 5, 6]))

private theorem exM_eval (E : Env ℚ) (x : ℚ) (h : 4 ≤ x ∧ x ≤ 6) : exM.eval E x = .ok 3 := by
  simp only [exM, Tree.eval, Leaf.eval]
  rw [if_pos (by constructor <;> linarith [h.1, h.2])]

example (E : Env ℚ) : sampleAt E (ZState.init 1 .conserveFlux) exM 10 = .ok (3 / 2) := by
  rw [sample_law, exM_eval E _ (by norm_num)]
  simp [Except.map, fluxFactor]; norm_num

example (E : Env ℚ) : sampleAt E (ZState.init 1 .wavelengthOnly) (modelTree 1 .conserveFlux exM) 20 = .ok (3 / 2) := by
  rw [redshift_compose E 1 1 .conserveFlux .wavelengthOnly exM _ 20 (model_init _ _ _),
    exM_eval E _ (by norm_num)]
  simp [Except.map, fluxFactor]; norm_num

example (E : Env ℚ) : ∃ r, wrapZ ({ kind := .source, tree := exM, zs := ZState.init 1 .conserveFlux } : Spec ℚ) 1
    .wavelengthOnly = .ok r ∧ r.evalAt E 20 = .ok (3 / 2) := by
  refine ⟨{ kind := .source, tree := modelTree 1 .conserveFlux exM, zs := ZState.init 1 .wavelengthOnly }, ?_, ?_⟩
  · simp [wrapZ, Spec.model, model_init, bind, Except.bind, pure, Except.pure]
  · rw [wrap_redshifted_source E { kind := .source, tree := exM, zs := ZState.init 1 .conserveFlux } _ 1 1
      .conserveFlux .wavelengthOnly 20 rfl rfl
      (by simp [wrapZ, Spec.model, model_init, bind, Except.bind, pure, Except.pure])]
    simp only []
    rw [exM_eval E _ (by norm_num)]
    simp [Except.map, fluxFactor]; norm_num

/-- `(sp * 2)` with `z_type = conserve_flux; z = 1` assigned on the product, sampled at 10 -/
example (E : Env ℚ) : (assignZ (Spec.ofTree .source (.scale exM 2)) 1 .conserveFlux).evalAt E 10 = .ok (6 * (1 / (1 + 1))) :=
  redshift_of_composite E .mul (Spec.ofTree .source exM) (.real 2) _ 1 .conserveFlux 10 3 2 6
    (by simp [specOp, typing, resultTree, Spec.ofTree, Spec.model, ZState.model, ZState.init, Operand.tag,
          exM, bind, Except.bind, pure, Except.pure])
    rfl
    (by rw [ofTree_evalAt]; exact exM_eval E _ (by norm_num))
    rfl (by simp [BinOp.apply]; norm_num)

example : (modelTree 0 .conserveFlux exM).sampleset (1 / 10) = (exM.sampleset (1 / 10)).map (fun w => w.map (· * (1 + 0))) :=
  sampleset_redshift_any_z _ 0 .conserveFlux exM _ (model_init _ _ _)

example : (modelTree 1 .conserveFlux exM).sampleset (1 / 10) = some [8, 10, 12] := by
  rw [sampleset_redshift_any_z _ 1 .conserveFlux exM _ (model_init _ _ _)]
  simp [exM, Tree.sampleset, Leaf.sampleset]; norm_num

example : (modelTree 1 .wavelengthOnly (.bin .add exM (.leaf (.const1 2)))).sampleset (1 / 10) = some [8, 10, 12] := by
  rw [sampleset_redshift_composite _ 1 .wavelengthOnly .add exM _ _ (model_init _ _ _)]
  simp [exM, Tree.sampleset, Leaf.sampleset, mergeWavelengths]; norm_num

example : (modelTree 1 .wavelengthOnly (modelTree 1 .conserveFlux exM)).sampleset (1 / 10) = some [16, 20, 24] := by
  rw [sampleset_redshift_compose _ 1 1 .conserveFlux .wavelengthOnly exM _ _ (model_init _ _ _) (model_init _ _ _)]
  simp [exM, Tree.sampleset, Leaf.sampleset]; norm_num

/-- a blueshift `z = −1/2` -/
example : (∀ x ∈ ([4, 5, 6] : List ℚ).map (· * (1 + -1 / 2)), 0 < x) ∧ StrictAsc (([4, 5, 6] : List ℚ).map (· * (1 + -1 / 2))) :=
  sampleset_redshift_valid (-1 / 2) (by norm_num) _
    (by intro x hx; simp at hx; rcases hx with rfl | rfl | rfl <;> norm_num)
    (by simp only [StrictAsc]; norm_num)

example : (modelTree (-1 / 2) .conserveFlux exM).waveset (1 / 10) =
    (exM.waveset (1 / 10)).map (fun o => o.map (fun w => w.map (· * (1 + -1 / 2)))) :=
  waveset_redshift _ _ (by norm_num) .conserveFlux exM _ (model_init _ _ _)

example : ((0 : ℚ) < 10 → (0 : ℚ) < 10 / (1 + 1)) ∧ ((10 : ℚ) < 12 → (10 : ℚ) / (1 + 1) < 12 / (1 + 1)) :=
  rest_wavelength_pos_mono (1 : ℚ) (by norm_num) 10 12

private theorem exM_grid (E : Env ℚ) : ([4, 5, 6] : List ℚ).mapM (exM.eval E) = .ok [3, 3, 3] := by
  rw [mapM_cons', mapM_cons', mapM_cons', mapM_nil', exM_eval E 4 (by norm_num), exM_eval E 5 (by norm_num),
    exM_eval E 6 (by norm_num)]
  rfl

/-- rest-frame integral `trapz([3,3,3], [4,5,6]) = 6`; the `conserve_flux` spectrum at `z = 1` has the
values `3/2` on `[8, 10, 12]` and the same integral -/
example (E : Env ℚ) :
    ([4, 5, 6].map (· * (1 + 1))).mapM ((modelTree 1 .conserveFlux exM).eval E) = .ok ([3, 3, 3].map (· * (1 / (1 + 1)))) ∧
    trapzXY (([4, 5, 6] : List ℚ).map (· * (1 + 1))) ([3, 3, 3].map (· * (1 / (1 + 1)))) = trapzXY [4, 5, 6] [3, 3, 3] :=
  integral_conserved_any_grid E 1 (by norm_num) exM _ _ _ (model_init _ _ _) (exM_grid E)

example : trapzXY ([4, 5, 6] : List ℚ) [3, 3, 3] = 6 := by
  simp [trapzXY, trapz]; norm_num

example (E : Env ℚ) :
    ([4, 5, 6].map (· * (1 + 1))).mapM ((modelTree 1 .wavelengthOnly exM).eval E) = .ok [3, 3, 3] ∧
    trapzXY (([4, 5, 6] : List ℚ).map (· * (1 + 1))) [3, 3, 3] = (1 + 1) * trapzXY [4, 5, 6] [3, 3, 3] :=
  integral_wavelength_only_scales E 1 (by norm_num) exM _ _ _ (model_init _ _ _) (exM_grid E)

example (E : Env ℚ) : sampleAt E (ZState.init 0 .conserveFlux) exM 5 = .ok 3 := by
  rw [sample_z_zero]; exact exM_eval E 5 (by norm_num)

/-- `z = 1` then `z = −1/2` (both `conserve_flux`): back to the rest frame -/
example (E : Env ℚ) : sampleAt E (ZState.init (-1 / (1 + 1)) .conserveFlux) (modelTree 1 .conserveFlux exM) 5 = .ok 3 := by
  rw [redshift_inverse_sample E 1 (by norm_num) .conserveFlux exM _ 5 (model_init _ _ _)]
  exact exM_eval E 5 (by norm_num)

example : (modelTree (-1 / (1 + 1)) .conserveFlux (modelTree 1 .conserveFlux exM)).sampleset (1 / 10) = some [4, 5, 6] := by
  rw [redshift_inverse_sampleset _ 1 (by norm_num) .conserveFlux exM _ _ (model_init _ _ _) (model_init _ _ _)]
  rfl

private def exHist : List (ZStep ℚ) :=
  [.assign (.setZ 1), .query (.sample 10), .assign (.setZType .conserveFlux), .query .getZ, .assign .setZBad,
   .query (.sampleset (1 / 10))]

example (E : Env ℚ) : (runSteps E exM (ZState.init 0 .wavelengthOnly) exHist).1 = ZState.init 1 .conserveFlux :=
  history_with_queries_state E exM 0 .wavelengthOnly exHist

/-- the last query of `exHist` is answered as the fresh object `(z = 1, conserve_flux)` answers it -/
example (E : Env ℚ) :
    (runSteps E exM (ZState.init 0 .wavelengthOnly) exHist).2 =
      (runSteps E exM (ZState.init 0 .wavelengthOnly) (exHist.take 5)).2 ++
        [answer E exM (ZState.init 1 .conserveFlux) (.sampleset (1 / 10))] :=
  history_with_queries_answers E exM 0 .wavelengthOnly (exHist.take 5) [] (.sampleset (1 / 10))

example (E : Env ℚ) : sampleAt E (runSteps E exM (ZState.init 0 .wavelengthOnly) exHist).1 exM 10 = .ok (3 / 2) := by
  rw [history_with_queries_sample]
  simp only [exHist, assignments, lastZ, lastType]
  rw [exM_eval E _ (by norm_num)]
  simp [Except.map, fluxFactor]; norm_num

/-- from an inconsistent state (flux model left over from another type) both orders repair it -/
example : (({ z := 5, zType := .wavelengthOnly, fluxScale := some 7 } : ZState ℚ).setZType .conserveFlux).setZ 1
    = ZState.init 1 .conserveFlux :=
  (assign_both_any_state _ 1 .conserveFlux).1

/-- the same over the optimal sampling sets, the way `integrate()` samples: the redshifted spectrum's
own sampling set is the rest-frame set times `1+z`, and the trapezoid integral over it is the rest-frame
integral over the rest-frame set -/
theorem integral_conserved_on_waveset (E : Env K) (thr z : K) (hz : 1 + z ≠ 0) (m mt : Tree K)
    (w ys : List K) (hm : (ZState.init z .conserveFlux).model m = .ok mt)
    (hw : m.sampleset thr = some w) (hy : w.mapM (m.eval E) = .ok ys) :
    ∃ w' ys', mt.sampleset thr = some w' ∧ w'.mapM (mt.eval E) = .ok ys' ∧
      trapzXY w' ys' = trapzXY w ys := by
  obtain ⟨h1, h2⟩ := integral_conserved_any_grid E z hz m mt w ys hm hy
  refine ⟨w.map (· * (1 + z)), ys.map (· * (1 / (1 + z))), ?_, h1, h2⟩
  rw [sampleset_redshift_any_z thr z .conserveFlux m mt hm, hw]
  rfl

example (E : Env ℚ) : ∃ w' ys', (modelTree 1 .conserveFlux exM).sampleset (1 / 10) = some w' ∧
    w'.mapM ((modelTree 1 .conserveFlux exM).eval E) = .ok ys' ∧ trapzXY w' ys' = trapzXY [4, 5, 6] [3, 3, 3] :=
  integral_conserved_on_waveset E (1 / 10) 1 (by norm_num) exM _ _ _ (model_init _ _ _) rfl (exM_grid E)

end Synphot.C05
