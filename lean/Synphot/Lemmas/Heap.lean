/-
  Lemmas about the store model (`Core/Heap.lean`): list updates, dictionaries, the frame property of
  primitive effects and of effect lists, congruence of sampling.
-/
import Synphot.Core.Heap
import Mathlib.Tactic.Ring
import Mathlib.Tactic.NormNum

set_option linter.unusedSectionVars false
set_option linter.unusedVariables false

namespace Synphot.HeapModel
open Synphot
variable {K : Type} [Field K] [LinearOrder K] [IsStrictOrderedRing K]

/-! ### `upd` -/

theorem getElem?_upd {α : Type} (l : List α) (i j : Nat) (f : α → α) :
    (upd l i f)[j]? = if i = j then (l[j]?).map f else l[j]? := by
  induction l generalizing i j with
  | nil => simp [upd]
  | cons a t ih =>
    cases i with
    | zero =>
      cases j with
      | zero => simp [upd]
      | succ j => simp [upd]
    | succ i =>
      cases j with
      | zero => simp [upd]
      | succ j => simp [upd, ih]

theorem getElem?_upd_ne {α : Type} (l : List α) {i j : Nat} (f : α → α) (h : i ≠ j) :
    (upd l i f)[j]? = l[j]? := by
  rw [getElem?_upd, if_neg h]

theorem length_upd {α : Type} (l : List α) (i : Nat) (f : α → α) : (upd l i f).length = l.length := by
  induction l generalizing i with
  | nil => rfl
  | cons a t ih => cases i <;> simp [upd, ih]

/-- a projection the update does not touch -/
theorem map_getElem?_upd {α β : Type} (l : List α) (i j : Nat) (f : α → α) (g : α → β)
    (hg : ∀ a, g (f a) = g a) : ((upd l i f)[j]?).map g = (l[j]?).map g := by
  rw [getElem?_upd]
  split
  · cases l[j]? <;> simp [hg]
  · rfl

theorem getElem?_append_of_some {α : Type} (l r : List α) (i : Nat) (a : α) (h : l[i]? = some a) :
    (l ++ r)[i]? = some a := by
  have hi : i < l.length := by
    by_contra hc
    rw [List.getElem?_eq_none (Nat.le_of_not_lt hc)] at h
    cases h
  rw [List.getElem?_append_left hi]; exact h

/-! ### dictionaries -/

theorem lookup_cons' (k a b : String) (t : Dict) :
    List.lookup k ((a, b) :: t) = if k = a then some b else List.lookup k t := by
  by_cases h : k = a
  · subst h; simp [List.lookup]
  · have : (k == a) = false := by simpa using h
    simp [List.lookup, this, h]

theorem Dict.lookup_set (d : Dict) (k v k' : String) :
    (Dict.set d k v).lookup k' = if k' = k then some v else d.lookup k' := by
  induction d with
  | nil =>
    simp only [Dict.set, lookup_cons']
  | cons kv t ih =>
    obtain ⟨a, b⟩ := kv
    by_cases ha : a = k
    · subst ha
      simp only [Dict.set, if_true, lookup_cons']
      by_cases h : k' = a <;> simp [h]
    · simp only [Dict.set, if_neg ha, lookup_cons', ih]
      by_cases h2 : k' = a
      · subst h2
        have : ¬ k' = k := ha
        simp [this]
      · simp [h2]

/-- looking a key up in `d.update u`: the **last** binding of the key in `u`, else what `d` had -/
theorem Dict.lookup_update (d u : Dict) (k : String) :
    (Dict.update d u).lookup k = (u.reverse.lookup k).or (d.lookup k) := by
  induction u generalizing d with
  | nil => rfl
  | cons kv t ih =>
    have : Dict.update d (kv :: t) = Dict.update (Dict.set d kv.1 kv.2) t := rfl
    rw [this, ih, Dict.lookup_set, List.reverse_cons, List.lookup_append]
    obtain ⟨a, b⟩ := kv
    cases ht : List.lookup k t.reverse with
    | some v => rfl
    | none =>
      rw [lookup_cons']
      by_cases hk : k = a
      · simp only [hk, if_true]; rfl
      · simp only [hk, if_false]; rfl

theorem Dict.lookup_update_of_not_mem (d u : Dict) (k : String) (h : ∀ kv ∈ u, kv.1 ≠ k) :
    (Dict.update d u).lookup k = d.lookup k := by
  rw [Dict.lookup_update]
  have : u.reverse.lookup k = none := by
    rw [List.lookup_eq_none_iff]
    intro kv hkv
    have := h kv (List.mem_reverse.mp hkv)
    exact bne_iff_ne.mpr (fun e => this e.symm)
  rw [this]; rfl

theorem Dict.lookup_del_self (d : Dict) (k : String) : (Dict.del d k).lookup k = none := by
  rw [List.lookup_eq_none_iff]
  intro kv hkv
  have := (List.mem_filter.mp hkv).2
  have hne : kv.1 ≠ k := by simpa using this
  exact bne_iff_ne.mpr (fun e => hne e.symm)

theorem Dict.lookup_del_ne (d : Dict) (k k' : String) (h : k' ≠ k) :
    (Dict.del d k).lookup k' = d.lookup k' := by
  induction d with
  | nil => rfl
  | cons kv t ih =>
    obtain ⟨a, b⟩ := kv
    by_cases ha : a = k
    · subst ha
      have : (k' == a) = false := by simpa using h
      simp [Dict.del, List.lookup, this] at ih ⊢
      exact ih
    · by_cases h2 : k' = a
      · subst h2
        simp [Dict.del, List.lookup, ha]
      · have : (k' == a) = false := by simpa using h2
        simp [Dict.del, List.lookup, ha, this] at ih ⊢
        exact ih

/-! ### frames -/

/-- every location outside `W` that held a value still holds it -/
def Frame (W : List Loc) (h h' : Heap K) : Prop :=
  ∀ l c, l ∉ W → h.get l = some c → h'.get l = some c

theorem Frame.refl (W : List Loc) (h : Heap K) : Frame W h h := fun _ _ _ hc => hc

theorem Frame.mono {W W' : List Loc} {h h' : Heap K} (hf : Frame W h h') (hs : ∀ l ∈ W, l ∈ W') :
    Frame W' h h' := fun l c hl hc => hf l c (fun hm => hl (hs l hm)) hc

theorem Frame.trans {W₁ W₂ : List Loc} {h₁ h₂ h₃ : Heap K} (a : Frame W₁ h₁ h₂) (b : Frame W₂ h₂ h₃) :
    Frame (W₁ ++ W₂) h₁ h₃ := fun l c hl hc =>
  b l c (fun hm => hl (List.mem_append_right _ hm))
    (a l c (fun hm => hl (List.mem_append_left _ hm)) hc)

/-- a primitive effect leaves every other allocated location as it was -/
theorem apply_frame (h : Heap K) (e : Effect K) (l : Loc) (c : Cell K)
    (hl : e.loc ≠ some l) (hc : h.get l = some c) : (h.apply e).get l = some c := by
  cases e with
  | allocArr a =>
    cases l <;> simp only [Heap.get, Heap.apply] at hc ⊢ <;> try exact hc
    rename_i i
    cases hi : h.arrays[i]? with
    | none => simp [hi] at hc
    | some v => rw [getElem?_append_of_some _ _ _ _ hi]; simpa [hi] using hc
  | allocTable a =>
    cases l <;> simp only [Heap.get, Heap.apply] at hc ⊢ <;> try exact hc
    rename_i i
    cases hi : h.tables[i]? with
    | none => simp [hi] at hc
    | some v => rw [getElem?_append_of_some _ _ _ _ hi]; simpa [hi] using hc
  | allocObj a =>
    cases l <;> simp only [Heap.get, Heap.apply] at hc ⊢ <;> try exact hc
    all_goals
      rename_i i
      cases hi : h.objs[i]? with
      | none => simp [hi] at hc
      | some v => rw [getElem?_append_of_some _ _ _ _ hi]; simpa [hi] using hc
  | writeArr i d =>
    cases l <;> simp only [Heap.get, Heap.apply] at hc ⊢ <;> try exact hc
    rename_i j
    have hij : i ≠ j := by
      intro e; apply hl; simp [Effect.loc, e]
    rw [getElem?_upd_ne _ _ hij]; exact hc
  | writeDict i d =>
    cases l <;> simp only [Heap.get, Heap.apply] at hc ⊢ <;> try exact hc
    rename_i j
    have hij : i ≠ j := by
      intro e; apply hl; simp [Effect.loc, e]
    rw [getElem?_upd_ne _ _ hij]; exact hc
  | setFill i =>
    cases l <;> simp only [Heap.get, Heap.apply] at hc ⊢ <;> try exact hc
    rename_i j
    have hij : i ≠ j := by
      intro e; apply hl; simp [Effect.loc, e]
    rw [getElem?_upd_ne _ _ hij]; exact hc
  | setZ i zs =>
    cases l <;> simp only [Heap.get, Heap.apply] at hc ⊢ <;> try exact hc
    · exact (map_getElem?_upd h.objs i _ (fun ob => { ob with zs := zs }) _ (fun a => rfl)).trans hc
    · rename_i j
      have hij : i ≠ j := by
        intro e; apply hl; simp [Effect.loc, e]
      rw [getElem?_upd_ne _ _ hij]; exact hc
    · exact (map_getElem?_upd h.objs i _ (fun ob => { ob with zs := zs }) _ (fun a => rfl)).trans hc
  | setMeta i m =>
    cases l <;> simp only [Heap.get, Heap.apply] at hc ⊢ <;> try exact hc
    · exact (map_getElem?_upd h.objs i _ (fun ob => { ob with md := m }) _ (fun a => rfl)).trans hc
    · exact (map_getElem?_upd h.objs i _ (fun ob => { ob with md := m }) _ (fun a => rfl)).trans hc
    · rename_i j
      have hij : i ≠ j := by
        intro e; apply hl; simp [Effect.loc, e]
      rw [getElem?_upd_ne _ _ hij]; exact hc
  | setNpErr g =>
    cases l <;> simp only [Heap.get, Heap.apply] at hc ⊢ <;> try exact hc
    exact absurd rfl hl

/-- **frame property of effect lists**: applying effects changes no allocated location outside
their write-set -/
theorem applyAll_frame (h : Heap K) (es : List (Effect K)) : Frame (writeSet es) h (h.applyAll es) := by
  induction es generalizing h with
  | nil => exact Frame.refl _ _
  | cons e t ih =>
    intro l c hl hc
    have h1 : e.loc ≠ some l := by
      intro he; apply hl; simp [writeSet, he]
    have h2 : l ∉ writeSet t := by
      intro hm; apply hl
      simp only [writeSet, List.filterMap_cons] at hm ⊢
      cases he : e.loc <;> simp [hm]
    exact ih (h.apply e) l c h2 (apply_frame h e l c h1 hc)

theorem writeSet_append (a b : List (Effect K)) : writeSet (a ++ b) = writeSet a ++ writeSet b := by
  simp [writeSet, List.filterMap_append]

theorem writeSet_nil : writeSet ([] : List (Effect K)) = [] := rfl

theorem writeSet_filter_sub (es : List (Effect K)) (p : Effect K → Bool) :
    ∀ l ∈ writeSet (es.filter p), l ∈ writeSet es := by
  intro l hl
  simp only [writeSet, List.mem_filterMap] at hl ⊢
  obtain ⟨e, he, hle⟩ := hl
  exact ⟨e, (List.mem_filter.mp he).1, hle⟩

/-! ### sampling reads only what `reads` lists -/

theorem table_congr (h h' : Heap K) (m : Nat)
    (ht : h'.tables[m]? = h.tables[m]?)
    (ha : ∀ c, h.tables[m]? = some c → h'.arrays[c.pts]? = h.arrays[c.pts]? ∧ h'.arrays[c.vals]? = h.arrays[c.vals]?) :
    h'.table m = h.table m := by
  unfold Heap.table
  rw [ht]
  cases hc : h.tables[m]? with
  | none => rfl
  | some c =>
    obtain ⟨h1, h2⟩ := ha c hc
    simp only [Option.bind_eq_bind, Option.bind_some, h1, h2]

theorem eval_congr (env : HEnv K) (h h' : Heap K) (t : HTree K)
    (ht : ∀ m ∈ t.tables, h'.table m = h.table m) (x : K) : t.eval env h' x = t.eval env h x := by
  induction t generalizing x with
  | tab m => simp [HTree.eval, ht m (by simp [HTree.tables])]
  | ana l => rfl
  | bb temp => rfl
  | bin op l r ihl ihr =>
    have hl := ihl (fun m hm => ht m (by simp [HTree.tables, hm]))
    have hr := ihr (fun m hm => ht m (by simp [HTree.tables, hm]))
    simp [HTree.eval, hl, hr]
  | scale m k ih =>
    have := ih (fun m' hm => ht m' (by simpa [HTree.tables] using hm))
    simp [HTree.eval, this]
  | redshift z m ih =>
    have := ih (fun m' hm => ht m' (by simpa [HTree.tables] using hm))
    simp [HTree.eval, this]

theorem sampleTree_congr (env : HEnv K) (h h' : Heap K) (t : HTree K)
    (ht : ∀ m ∈ t.tables, h'.table m = h.table m) (xs : List K) :
    sampleTree env h' t xs = sampleTree env h t xs := by
  unfold sampleTree
  have : t.eval env h' = t.eval env h := funext (eval_congr env h h' t ht)
  rw [this]

theorem sampleset_congr (thr : K) (bbss : K → Option (List K)) (h h' : Heap K) (t : HTree K)
    (ht : ∀ m ∈ t.tables, h'.table m = h.table m) : t.sampleset thr bbss h' = t.sampleset thr bbss h := by
  induction t with
  | tab m => simp [HTree.sampleset, ht m (by simp [HTree.tables])]
  | ana l => rfl
  | bb temp => rfl
  | bin op l r ihl ihr =>
    have hl := ihl (fun m hm => ht m (by simp [HTree.tables, hm]))
    have hr := ihr (fun m hm => ht m (by simp [HTree.tables, hm]))
    simp [HTree.sampleset, hl, hr]
  | scale m k ih =>
    have := ih (fun m' hm => ht m' (by simpa [HTree.tables] using hm))
    simp [HTree.sampleset, this]
  | redshift z m ih =>
    have := ih (fun m' hm => ht m' (by simpa [HTree.tables] using hm))
    simp [HTree.sampleset, this]

/-- the tables of the `model` property are those of `_model` -/
theorem model_tables (o : Obj K) (t : HTree K) (h : o.model = .ok t) : t.tables = o.tree.tables := by
  unfold Obj.model at h
  split at h
  · split at h
    · cases h; rfl
    · split at h
      · cases h; rfl
      · split at h
        · cases h; rfl
        · cases h
  · cases h; rfl

end Synphot.HeapModel
