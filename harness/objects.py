"""Descriptions of spectrum objects <-> real synphot objects, and generators for them.

A *leaf* describes one astropy/synphot model with its parameters (exact rationals);
a *prim* is one leaf behind one public constructor (SourceSpectrum, SpectralElement, ...);
an *expr* is a prim, a scalar operand, or {"op": add|sub|mul|div, "l": expr, "r": expr}.
Both sides build their own object from the description: the harness through the public
constructors of /repo's synphot, the Lean driver through Synphot.Driver.Objects.
"""
import math
from fractions import Fraction as F

from .core import NP as np

from .core import q, qs, unq

H = F(662607015, 10 ** 35)
C = F(299792458) * 10 ** 10
JY = F(1, 10 ** 23)
JY_SCALE = {'jy': F(1), 'mjy': F(1, 1000), 'ujy': F(1, 10 ** 6)}
THR = F(1, 10 ** 12)      # merge threshold


def consts():
    import astropy.units as u
    st = (1 * u.ST).to(u.erg / u.cm ** 2 / u.s / u.AA).value
    ab = (1 * u.AB).to(u.erg / u.cm ** 2 / u.s / u.Hz).value
    return {'h': q(H), 'c': q(C), 'st': q(st), 'ab': q(ab), 'jy': q(JY)}


def fl(x):
    return float(unq(x))


def astropy_flux_unit(name):
    import astropy.units as u
    from synphot import units
    return {'photlam': units.PHOTLAM, 'photnu': units.PHOTNU, 'flam': units.FLAM, 'fnu': units.FNU,
            'jy': u.Jy, 'mjy': u.mJy, 'ujy': u.uJy, 'stmag': u.STmag, 'abmag': u.ABmag,
            'count': u.count, 'obmag': units.OBMAG, 'vegamag': units.VEGAMAG}[name]


def model_flux_unit(name):
    return {'jy': q(JY_SCALE[name])} if name in JY_SCALE else name


# ------------------------------------------------------------------ leaves
def leaf_model(leaf):
    """(modelclass, kwargs) for the public constructors"""
    from synphot import models as M
    from astropy.modeling import models as AM
    k = leaf['leaf']
    if k in ('empirical', 'extinction'):
        kw = dict(points=np.array([fl(x) for x in leaf['pts']]),
                  lookup_table=np.array([fl(x) for x in leaf['vals']]), keep_neg=leaf['keep_neg'])
        if k == 'extinction':
            from synphot.reddening import ExtinctionModel1D
            return ExtinctionModel1D, kw
        return M.Empirical1D, kw
    if k == 'box':
        kw = dict(amplitude=fl(leaf['amp']), x_0=fl(leaf['x0']), width=fl(leaf['width']))
        if 'step' in leaf:
            kw['step'] = fl(leaf['step'])
        return M.Box1D, kw
    if k == 'trapezoid':
        return M.Trapezoid1D, dict(amplitude=fl(leaf['amp']), x_0=fl(leaf['x0']), width=fl(leaf['width']),
                                   slope=fl(leaf['slope']))
    if k == 'const1':
        return AM.Const1D, dict(amplitude=fl(leaf['amp']))
    if k == 'constflux':
        return M.ConstFlux1D, dict(amplitude=fl(leaf['amp']) * astropy_flux_unit(leaf['unit_name']))
    if k == 'powerlaw':
        return M.PowerLawFlux1D, dict(amplitude=fl(leaf['amp']) * astropy_flux_unit(leaf['unit_name']),
                                      x_0=fl(leaf['x0']), alpha=fl(leaf['alpha']))
    if k == 'gaussian':
        return M.Gaussian1D, dict(amplitude=fl(leaf['amp']), mean=fl(leaf['mean']), stddev=fl(leaf['sd']))
    if k == 'lorentz':
        return M.Lorentz1D, dict(amplitude=fl(leaf['amp']), x_0=fl(leaf['x0']), fwhm=fl(leaf['fwhm']))
    if k == 'ricker':
        return M.RickerWavelet1D, dict(amplitude=fl(leaf['amp']), x_0=fl(leaf['x0']), sigma=fl(leaf['sigma']))
    raise KeyError(k)


def build_prim(d):
    from synphot import SourceSpectrum, SpectralElement
    from synphot.reddening import ReddeningLaw, ExtinctionCurve
    from synphot.thermal import ThermalSpectralElement
    from synphot.spectrum import BaseUnitlessSpectrum
    cls, kw = leaf_model(d['leaf'])
    kind = d['prim']
    if kind == 'source':
        extra = {}
        if 'z' in d:
            extra['z'] = fl(d['z'])
        if 'ztype' in d:
            extra['z_type'] = d['ztype']
        sp = SourceSpectrum(cls, **extra, **kw)
    elif kind == 'bandpass':
        sp = SpectralElement(cls, **kw)
    elif kind == 'reddening':
        sp = ReddeningLaw(cls, **kw)
    elif kind == 'extcurve':
        sp = ExtinctionCurve(cls, **kw)
    elif kind == 'thermal':
        sp = ThermalSpectralElement(cls, temperature=fl(d.get('temperature', '300')), **kw)
    elif kind == 'unitless':
        sp = BaseUnitlessSpectrum(cls, **kw)
    else:
        raise KeyError(kind)
    if d['leaf'].get('force_extrap'):
        sp.force_extrapolation()
    return sp


def build_scalar(d):
    import astropy.units as u
    c = d['scalar']
    v = fl(d['v']) if 'v' in d else None
    if c == 'int':
        return int(v)
    if c == 'float':
        return float(v)
    if c == 'npfloat':
        return np.float64(v)
    if c == 'npint':
        return np.int64(int(v))
    if c == 'bool':
        return bool(v)
    if c == 'quantity':
        return v * u.dimensionless_unscaled
    if c == 'dimq':
        return 2.0 * u.AA
    if c == 'percentq':
        return 50 * u.percent
    if c == 'arrayq':
        return np.array([1.0, 2.0]) * u.dimensionless_unscaled
    if c == 'complexq':
        return (1 + 2j) * u.dimensionless_unscaled
    if c == 'complex':
        return 1 + 2j
    if c == 'array':
        return np.array([1.0, 2.0])
    if c == 'list':
        return [1.0, 2.0]
    if c == 'str':
        return '2'
    if c == 'none':
        return None
    raise KeyError(c)


def eval_expr(d):
    """build the real objects and apply the real operators"""
    if 'wrapz' in d:
        from synphot import SourceSpectrum
        kw = {'z': fl(d['wrapz']['z'])}
        if d['wrapz'].get('ztype'):
            kw['z_type'] = d['wrapz']['ztype']
        return SourceSpectrum(eval_expr(d['e']), **kw)
    if 'setz' in d:
        obj = eval_expr(d['e'])
        if d['setz'].get('pre_waveset'):
            try:            # the sampling set was already asked for before the assignment
                obj.waveset
                obj.waverange
            except Exception:   # noqa
                pass
        if d['setz'].get('ztype'):
            obj.z_type = d['setz']['ztype']
        obj.z = fl(d['setz']['z'])
        return obj
    if 'prim' in d:
        return build_prim(d)
    if 'scalar' in d:
        return build_scalar(d)
    left = eval_expr(d['l'])
    right = eval_expr(d['r'])
    op = d['op']
    if op == 'add':
        return left + right
    if op == 'sub':
        return left - right
    if op == 'mul':
        return left * right
    if op == 'div':
        return left / right
    raise KeyError(op)


def kind_of(obj):
    from synphot import SourceSpectrum, SpectralElement, Observation
    from synphot.reddening import ReddeningLaw, ExtinctionCurve
    from synphot.thermal import ThermalSpectralElement
    from synphot.spectrum import BaseUnitlessSpectrum
    t = type(obj)
    for cls, name in ((Observation, 'observation'), (SourceSpectrum, 'source'), (SpectralElement, 'bandpass'),
                      (ReddeningLaw, 'reddening'), (ExtinctionCurve, 'extcurve'),
                      (ThermalSpectralElement, 'thermal'), (BaseUnitlessSpectrum, 'unitless')):
        if t is cls:
            return name
    return 'scalar' if not hasattr(obj, 'model') else t.__name__


def fill_ss(d, with_ss=True):
    """attach to every analytic leaf the sampling set the implementation's model produces (data for the model)"""
    if 'leaf' in d and isinstance(d['leaf'], dict):
        leaf = d['leaf']
        if with_ss and leaf['leaf'] in ('box', 'trapezoid', 'gaussian', 'lorentz', 'ricker') and 'ss' not in leaf:
            cls, kw = leaf_model(leaf)
            m = cls(**kw)
            leaf['ss'] = qs(np.asarray(m.sampleset(), dtype=float).tolist())
        if 'unit_name' in leaf:
            leaf['unit'] = model_flux_unit(leaf['unit_name'])
    for k in ('l', 'r', 'src', 'band', 'e'):
        if k in d and isinstance(d[k], dict):
            fill_ss(d[k], with_ss)
    return d


def walk_prims(d):
    if 'prim' in d:
        yield d
    for k in ('l', 'r', 'src', 'band', 'e'):
        if k in d and isinstance(d[k], dict):
            yield from walk_prims(d[k])


# ------------------------------------------------------------------ generators
def dy(rng, lo, hi, bits=6):
    """a dyadic rational in [lo, hi] with `bits` fractional bits"""
    n = rng.randint(int(lo * 2 ** bits), int(hi * 2 ** bits))
    return F(n, 2 ** bits)


def gen_table_leaf(rng, lo=1000, hi=9000, nmax=8, nonneg=False, zero_ends=None, kind='empirical', keep_neg=None):
    n = rng.randint(2, nmax)
    xs = sorted({dy(rng, lo, hi, 3) for _ in range(n)})
    while len(xs) < 2:
        xs = sorted(set(xs) | {dy(rng, lo, hi, 3)})
    vals = []
    for _ in xs:
        r = rng.random()
        if r < 0.1:
            vals.append(F(0))
        elif r < 0.25 and not nonneg:
            vals.append(-dy(rng, 0, 8, 4))
        else:
            vals.append(dy(rng, 0, 8, 4) + F(1, 16))
    ze = zero_ends if zero_ends is not None else rng.random() < 0.25
    if ze:
        vals[0] = vals[-1] = F(0)
    if keep_neg is None:
        keep_neg = rng.random() < 0.3
    if rng.random() < 0.15:
        xs, vals = xs[::-1], vals[::-1]
    return {'leaf': kind, 'pts': qs(xs), 'vals': qs(vals), 'keep_neg': keep_neg}


def gen_source_leaf(rng, analytic_ok=True, transcendental=False):
    r = rng.random()
    if r < 0.45 or not analytic_ok:
        return gen_table_leaf(rng)
    if r < 0.6:
        return {'leaf': 'constflux', 'amp': q(dy(rng, 0.0625, 8, 4)), 'unit_name': rng.choice(['photlam', 'flam', 'fnu', 'photnu', 'jy'])}
    if r < 0.7:
        return {'leaf': 'powerlaw', 'amp': q(dy(rng, 0.0625, 8, 4)), 'x0': q(dy(rng, 2000, 8000, 0)),
                'alpha': q(F(rng.choice([-2, -1, 0, 1, 2, 3]))), 'unit_name': rng.choice(['photlam', 'flam', 'fnu'])}
    if r < 0.8:
        w = dy(rng, 10, 2000, 2)
        return {'leaf': 'box', 'amp': q(dy(rng, 0.0625, 8, 4)), 'x0': q(dy(rng, 3000, 7000, 2)), 'width': q(w),
                'step': q(w / rng.choice([4, 8, 16, 32]))}
    if r < 0.9 or not transcendental:
        return {'leaf': 'trapezoid', 'amp': q(dy(rng, 0.5, 8, 3)), 'x0': q(dy(rng, 3000, 7000, 2)),
                'width': q(dy(rng, 100, 1500, 1)), 'slope': q(F(1, rng.choice([16, 64, 128])))}
    k = rng.choice(['gaussian', 'lorentz', 'ricker'])
    if k == 'gaussian':
        return {'leaf': 'gaussian', 'amp': q(dy(rng, 0.0625, 8, 4)), 'mean': q(dy(rng, 3000, 7000, 2)), 'sd': q(dy(rng, 5, 300, 2))}
    if k == 'lorentz':
        return {'leaf': 'lorentz', 'amp': q(dy(rng, 0.0625, 8, 4)), 'x0': q(dy(rng, 3000, 7000, 2)), 'fwhm': q(dy(rng, 5, 300, 2))}
    return {'leaf': 'ricker', 'amp': q(dy(rng, 0.0625, 8, 4)), 'x0': q(dy(rng, 3000, 7000, 2)), 'sigma': q(dy(rng, 5, 300, 2))}


def gen_band_leaf(rng, transcendental=False):
    r = rng.random()
    if r < 0.5:
        return gen_table_leaf(rng, nonneg=True, keep_neg=True)
    if r < 0.75:
        w = dy(rng, 10, 2000, 2)
        return {'leaf': 'box', 'amp': q(dy(rng, 0.0625, 1, 4)), 'x0': q(dy(rng, 3000, 7000, 2)), 'width': q(w),
                'step': q(w / rng.choice([4, 8, 16, 32]))}
    if r < 0.85:
        return {'leaf': 'const1', 'amp': q(dy(rng, 0.0625, 2, 4))}
    if r < 0.95 or not transcendental:
        return {'leaf': 'trapezoid', 'amp': q(dy(rng, 0.25, 1, 3)), 'x0': q(dy(rng, 3000, 7000, 2)),
                'width': q(dy(rng, 100, 1500, 1)), 'slope': q(F(1, rng.choice([64, 128, 256])))}
    return {'leaf': 'gaussian', 'amp': q(dy(rng, 0.0625, 1, 4)), 'mean': q(dy(rng, 3000, 7000, 2)), 'sd': q(dy(rng, 5, 300, 2))}


def gen_prim(rng, kind=None, transcendental=False, redshift=True):
    kind = kind or rng.choice(['source', 'source', 'source', 'bandpass', 'bandpass', 'reddening', 'extcurve', 'thermal'])
    if kind == 'source':
        d = {'prim': 'source', 'leaf': gen_source_leaf(rng, transcendental=transcendental)}
        if redshift and rng.random() < 0.35:
            d['z'] = q(rng.choice([F(1, 2), F(1), F(3), F(-1, 4), F(1, 8)]))
            if rng.random() < 0.4:
                d['ztype'] = 'conserve_flux'
        return d
    if kind == 'bandpass':
        return {'prim': 'bandpass', 'leaf': gen_band_leaf(rng, transcendental)}
    if kind == 'reddening':
        return {'prim': 'reddening', 'leaf': gen_table_leaf(rng, nonneg=True, keep_neg=True)}
    if kind == 'extcurve':
        return {'prim': 'extcurve', 'leaf': gen_table_leaf(rng, nonneg=True, keep_neg=True, kind='extinction', zero_ends=False)}
    if kind == 'thermal':
        return {'prim': 'thermal', 'leaf': gen_table_leaf(rng, nonneg=True, keep_neg=True), 'temperature': '300'}
    raise KeyError(kind)


VALID_SCALARS = ['int', 'float', 'npfloat', 'npint', 'bool', 'quantity']
INVALID_SCALARS = ['dimq', 'percentq', 'arrayq', 'complexq', 'complex', 'array', 'list', 'str', 'none']


def gen_scalar(rng, valid=True):
    if valid:
        c = rng.choice(VALID_SCALARS)
        v = F(rng.choice([2, 3, 4, 1])) if c in ('int', 'npint') else F(1) if c == 'bool' else rng.choice(
            [F(1, 2), F(3, 2), F(2), F(-1), F(5, 4), F(2) ** -30, F(2) ** -60, F(3) * F(2) ** -100, F(2) ** 40, -F(2) ** -45])
        return {'scalar': c, 'v': q(v)}
    return {'scalar': rng.choice(INVALID_SCALARS)}


def sample_grid(rng, n=8, lo=500, hi=12000):
    return sorted({dy(rng, lo, hi, 4) for _ in range(n)})
