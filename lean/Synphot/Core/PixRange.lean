/-
  Synphot.Core.PixRange — faithful transcription of `binning.wave_range` and
  `binning.pixel_range` (synphot/binning.py:169-486), including Python's negative
  index wrap-around, slice clipping, `np.modf`/`int()` and the mean of an empty slice.
-/
import Mathlib.Algebra.Order.Floor.Ring
import Synphot.Core.Basic

namespace Synphot
variable {K : Type} [Field K] [LinearOrder K] [IsStrictOrderedRing K]

inductive Mode | round | min | max | none
  deriving DecidableEq, Repr

/-- `mode.lower()` membership test of the code -/
def Mode.ofString? (s : String) : Option Mode :=
  match s.toLower with
  | "round" => some .round | "min" => some .min | "max" => some .max | "none" => some .none
  | _ => Option.none

/-- index of the first minimum of `|·|` (`np.argmin(np.abs(diff))`) -/
def argminAbsAux : List K → Nat → Nat → K → Nat
  | [], _, best, _ => best
  | x :: t, i, best, bv => if |x| < bv then argminAbsAux t (i+1) i |x| else argminAbsAux t (i+1) best bv

def argminAbs : List K → Nat
  | [] => 0
  | x :: t => argminAbsAux t 1 0 |x|

/-- `int(np.modf(x)[1])`: truncation toward zero -/
def truncZ [FloorRing K] (x : K) : Int := if 0 ≤ x then ⌊x⌋ else ⌈x⌉

/-- `np.modf(x)[0]`: fractional part carrying the sign of `x` -/
def fracZ [FloorRing K] (x : K) : K := x - (truncZ x : K)

/-- `a / b` of two NumPy scalars; a zero denominator is an `inf`/`nan` event -/
def divE (a b : K) : Except Err K := if b = 0 then .error .zeroDivision else .ok (a / b)

/-- `bins[a:b].mean()` -/
def sliceMean (bins : List K) (a b : Int) : Except Err K := meanOf (pySlice bins a b)

/-- `np.searchsorted(a, v, side='left')` on a sorted list: first `i` with `v ≤ a[i]` -/
def searchLeft (l : List K) (v : K) : Nat := (l.takeWhile (· < v)).length
/-- `side='right'`: first `i` with `v < a[i]` -/
def searchRight (l : List K) (v : K) : Nat := (l.takeWhile (· ≤ v)).length

/-- the ascending copy the code works on (`if bins[0] > bins[-1]: bins = bins[::-1]`) -/
def ascBins (bins : List K) : Except Err (List K) := do
  let b0 ← pyIndex bins 0
  let bl ← pyIndex bins (-1)
  pure (if b0 > bl then bins.reverse else bins)

/-- one virtual centre beyond each end, mirroring the outermost spacing
(`np.concatenate(([2 b[0] - b[1]], b, [2 b[-1] - b[-2]]))`) -/
def padBins (bins : List K) : Except Err (List K) := do
  let b0 ← pyIndex bins 0
  let b1 ← pyIndex bins 1
  let bl ← pyIndex bins (-1)
  let bl2 ← pyIndex bins (-2)
  pure ((2 * b0 - b1) :: bins ++ [2 * bl - bl2])

/-- fractional index of `cen` among ascending `bins` (binning.py:242-251) -/
def fracIndex (bins : List K) (cen : K) : Except Err K := do
  let diff := bins.map (cen - ·)
  let ind : Int := argminAbs diff
  let d ← pyIndex diff ind
  if d < 0 then do
    let bi ← pyIndex bins ind
    let bim ← pyIndex bins (ind - 1)
    let qv ← divE d (bi - bim)
    pure ((ind : K) + qv)
  else if d > 0 then do
    let bip ← pyIndex bins (ind + 1)
    let bi ← pyIndex bins ind
    let qv ← divE d (bip - bi)
    pure ((ind : K) + qv)
  else pure (ind : K)

/-- `wave_range` after argument validation -/
def waveRange [FloorRing K] (bins0 : List K) (cen : K) (npix : Int) (mode : Mode) :
    Except Err (K × K) := do
  let bins ← ascBins bins0
  let n : Int := bins.length
  let b0 ← pyIndex bins 0
  let bl ← pyIndex bins (-1)
  if cen < b0 ∨ cen > bl then throw .overlapError
  let fi ← fracIndex bins cen
  let half : K := (npix : K) / 2
  let fi1 := fi - half
  let fi2 := fi + half
  if fi1 < -(1/2) then throw .overlapError
  if fi2 > (n : K) - 1/2 then throw .overlapError
  let frac1 := fracZ fi1
  let int1 := truncZ fi1
  let frac2 := fracZ fi2
  let int2 := truncZ fi2
  let lowEdge : Except Err K := do pure (b0 - ((← sliceMean bins 0 2) - b0))
  let highEdge : Except Err K := do pure (bl + (bl - (← sliceMean bins (-2) n)))
  match mode with
  | .round => do
      let w1 ← if frac1 ≥ 0 then sliceMean bins int1 (int1 + 2) else lowEdge
      let w2 ← if int2 < n - 1 then sliceMean bins int2 (int2 + 2) else highEdge
      pure (w1, w2)
  | m => do
      -- min / max / none work on the padded bins, indices shifted by one
      let pb ← padBins bins
      let frac1 := fracZ (fi1 + 1)
      let int1 := truncZ (fi1 + 1)
      let frac2 := fracZ (fi2 + 1)
      let int2 := truncZ (fi2 + 1)
      match m with
      | .min => do
          let w1 ← if frac1 ≤ 1/2 then sliceMean pb int1 (int1 + 2)
                   else sliceMean pb (int1 + 1) (int1 + 3)
          let w2 ← if frac2 ≥ 1/2 then sliceMean pb int2 (int2 + 2)
                   else sliceMean pb (int2 - 1) (int2 + 1)
          pure (w1, w2)
      | .max => do
          let w1 ← if frac1 < 1/2 then sliceMean pb (int1 - 1) (int1 + 1)
                   else sliceMean pb int1 (int1 + 2)
          let w2 ← if frac2 > 1/2 then sliceMean pb (int2 + 1) (int2 + 3)
                   else sliceMean pb int2 (int2 + 2)
          pure (w1, w2)
      | _ => do
          let a ← pyIndex pb int1
          let a' ← pyIndex pb (int1 + 1)
          let b ← pyIndex pb int2
          let b' ← pyIndex pb (int2 + 1)
          pure (a + frac1 * (a' - a), b + frac2 * (b' - b))

/-- the argument checks in front of `wave_range` -/
def waveRangeTop [FloorRing K] (bins : List K) (cen : K) (npixIsInt : Bool) (npix : Int)
    (mode : String) : Except Err (K × K) :=
  match Mode.ofString? mode with
  | Option.none => .error .synphotError
  | some m => if !npixIsInt ∨ npix < 0 then .error .synphotError else waveRange bins cen npix m

/-- `pixel_range` after mode validation; `wr0`, `wrl` are `waverange[0]`, `waverange[-1]` -/
def pixelRange (bins0 : List K) (wr0 wrl : K) (mode : Mode) : Except Err K := do
  let (wave1, wave2) := if wr0 < wrl then (wr0, wrl) else (wrl, wr0)
  let bins ← ascBins bins0
  let n : Int := bins.length
  let b0 ← pyIndex bins 0
  let bl ← pyIndex bins (-1)
  let minwave := b0 - ((← sliceMean bins 0 2) - b0)
  let maxwave := bl + (bl - (← sliceMean bins (-2) n))
  if wave1 < minwave ∨ wave2 > maxwave then throw .overlapError
  if wave1 = wave2 then return 0
  let bins ← padBins bins
  let ind1 : Int := if mode = .round then searchRight bins wave1 else searchLeft bins wave1
  let ind2 : Int := if mode = .round then searchRight bins wave2 else searchLeft bins wave2
  match mode with
  | .round => pure ((ind2 - ind1 : Int) : K)
  | .min => do
      let bi1 ← pyIndex bins ind1
      let bi1m ← pyIndex bins (ind1 - 1)
      let f1 ← divE (bi1 - wave1) (bi1 - bi1m)
      let ind1' := if f1 < 1/2 then ind1 + 1 else ind1
      let bi2m ← pyIndex bins (ind2 - 1)
      let bi2 ← pyIndex bins ind2
      let f2 ← divE (wave2 - bi2m) (bi2 - bi2m)
      let ind2' := if f2 < 1/2 then ind2 - 1 else ind2
      pure ((max (ind2' - ind1') 0 : Int) : K)
  | .max => do
      let bi1m ← pyIndex bins (ind1 - 1)
      let bi1 ← pyIndex bins ind1
      let f1 ← divE (wave1 - bi1m) (bi1 - bi1m)
      let ind1' := if f1 < 1/2 then ind1 - 1 else ind1
      let bi2 ← pyIndex bins ind2
      let bi2m ← pyIndex bins (ind2 - 1)
      let f2 ← divE (bi2 - wave2) (bi2 - bi2m)
      let ind2' := if f2 < 1/2 then ind2 + 1 else ind2
      pure ((ind2' - ind1' : Int) : K)
  | .none => do
      let bi1 ← pyIndex bins ind1
      let bi1m ← pyIndex bins (ind1 - 1)
      let q1 ← divE (bi1 - wave1) (bi1 - bi1m)
      let bi2 ← pyIndex bins ind2
      let bi2m ← pyIndex bins (ind2 - 1)
      let q2 ← divE (bi2 - wave2) (bi2 - bi2m)
      pure (((ind2 : K) - q2) - ((ind1 : K) - q1))

def pixelRangeTop (bins : List K) (wr0 wrl : K) (mode : String) : Except Err K :=
  match Mode.ofString? mode with
  | Option.none => .error .synphotError
  | some m => pixelRange bins wr0 wrl m

end Synphot
