import Synphot.Driver.Ops.Base
-- one import + one line in `dispatchers` per ops module
open Lean Synphot

namespace Synphot.Driver

def dispatchers : List (String → Json → Option (M Json)) := [
  dispatchBase
]

def dispatch (op : String) (j : Json) : M Json :=
  match dispatchers.findSome? (fun d => d op j) with
  | some r => r
  | none => .error s!"unknown op {op}"

def handleLine (line : String) : String :=
  match Json.parse line with
  | .error e => (Json.mkObj [("proto_error", Json.str e)]).compress
  | .ok j =>
    match (fStr j "op" >>= fun op => dispatch op j) with
    | .ok r => r.compress
    | .error e => (Json.mkObj [("proto_error", Json.str e)]).compress

partial def loop (hin hout : IO.FS.Stream) : IO Unit := do
  let line ← hin.getLine
  if line.isEmpty then return ()
  let t := line.trimAscii.toString
  if t.isEmpty then loop hin hout else
  hout.putStrLn (handleLine t)
  loop hin hout

def main : IO Unit := do
  let hin ← IO.getStdin
  let hout ← IO.getStdout
  loop hin hout
  hout.flush

end Synphot.Driver
