import Synphot.Driver.Ops.Base
import Synphot.Driver.Ops.C03
import Synphot.Driver.Ops.C02
import Synphot.Driver.Ops.C05
import Synphot.Driver.Ops.C13
import Synphot.Driver.Ops.Obs
import Synphot.Driver.Ops.C20
import Synphot.Driver.Ops.C12
import Synphot.Driver.Ops.C17
import Synphot.Driver.Ops.C16
import Synphot.Driver.Ops.C14
import Synphot.Driver.Ops.C15
import Synphot.Driver.Ops.C11
import Synphot.Driver.Ops.C19
-- one import + one line in `dispatchers` per ops module
open Lean Synphot

namespace Synphot.Driver

def dispatchers : List (String → Json → Option (M Json)) := [
  dispatchBase,
  dispatchC03,
  dispatchC02,
  dispatchC05,
  dispatchC13,
  dispatchObs,
  dispatchC20,
  dispatchC12,
  dispatchC17,
  dispatchC16,
  dispatchC14,
  dispatchC15,
  dispatchC11,
  dispatchC19
]

def dispatch (op : String) (j : Json) : M Json :=
  match dispatchers.findSome? (fun d => d op j) with
  | some r => r
  | none => .error s!"unknown op {op}"

def handleLine (line : String) : String :=
  match Json.parse line with
  | .error e => (Json.mkObj [("proto_error", Json.str e)]).compress
  | .ok j =>
    match (fStr j "op" >>= fun op => dispatch op j) with
    | .ok r => r.compress
    | .error e => (Json.mkObj [("proto_error", Json.str e)]).compress

partial def loop (hin hout : IO.FS.Stream) : IO Unit := do
  let line ← hin.getLine
  if line.isEmpty then return ()
  let t := line.trimAscii.toString
  if t.isEmpty then loop hin hout else
  hout.putStrLn (handleLine t)
  loop hin hout

def main : IO Unit := do
  let hin ← IO.getStdin
  let hout ← IO.getStdout
  loop hin hout
  hout.flush

end Synphot.Driver
