"""C09  Effective stimulus and effective wavelength follow their defining integrals."""
import math
from fractions import Fraction as F

from ..core import NP as np

from .. import core, objects as O
from ..core import q, qs, guarded, same, unq
from . import c07, c08

PAR = c08.PAR
UNITS = ['flam', 'fnu', 'jy', 'mjy', 'photlam', 'photnu', 'stmag', 'abmag']
MAGS = {'stmag', 'abmag', 'obmag', 'vegamag'}
H, C = float(O.H), float(O.C)


def unit_obj(name):
    return O.astropy_flux_unit(name)


def wl_arg(qu):
    """the `wavelengths` argument of a query: None, Angstrom numbers, or a nanometre Quantity"""
    if qu.get('wl') is None:
        return None
    import astropy.units as u
    w = np.array([O.fl(v) for v in qu['wl']])
    unit = {'nm': u.nm, 'micron': u.micron, 'AA': u.AA, 'THz': u.THz, 'inv_micron': 1 / u.micron}.get(qu.get('wl_unit'))
    return w if unit is None else w * unit


def wl_angstrom(qu):
    """the Angstrom values the implementation integrates on (exact floats)"""
    if qu.get('wl') is None:
        return None
    import astropy.units as u
    from synphot import units
    return units.validate_quantity(wl_arg(qu), u.AA, equivalencies=u.spectral()).value


def run_query(obs, qu, vega=None):
    if qu['q'] == 'effstim':
        kw = {}
        if qu.get('area') is not None:
            kw['area'] = O.fl(qu['area'])
        if qu.get('wl') is not None:
            kw['wavelengths'] = wl_arg(qu)
        if qu.get('vega') is not None:
            kw['vegaspec'] = vega if vega is not None else O.build_prim(qu['vega'])
        return guarded(lambda: obs.effstim(unit_obj(qu['unit_name']), **kw).value)
    kw = {}
    if qu.get('wl') is not None:
        kw['wavelengths'] = wl_arg(qu)
    return guarded(lambda: obs.effective_wavelength(binned=qu['binned'],
                                                    mode='efflerg' if qu['erg'] else 'efflphot', **kw).value)


def efflam_parts(obs, qu):
    """numerator / denominator of the defining quotient, formed independently on the implementation's samples"""
    from scipy.integrate import trapezoid
    fu = 'flam' if qu['erg'] else 'photlam'
    if qu['binned']:
        x = obs.binset.value
        y = obs.sample_binned(flux_unit=fu).value
    elif qu.get('wl') is not None:
        x = wl_angstrom(qu)
        y = obs(x, flux_unit=fu).value
    else:
        x = obs.waveset.value
        y = obs(x, flux_unit=fu).value
    return float(trapezoid(y * x ** 2, x=x)), float(trapezoid(y * x, x=x))


def build_objects(case, scale=None):
    """(source, bandpass, observation): the observation is built on exactly these two objects"""
    from synphot import Observation
    src = O.build_prim(case['src'])
    if scale is not None:
        src = src * scale
    band = O.build_prim(case['band'])
    kw = {'force': case.get('force') or 'none'}
    if case.get('binset') is not None:
        kw['binset'] = np.array([O.fl(x) for x in case['binset']])
    return src, band, Observation(src, band, **kw)


def run_history(case, src, band, obs):
    """earlier calls on the SAME objects; their results are not part of the outcome (a correct implementation's
    answer to the measured request does not depend on them)"""
    from synphot import Observation
    for h in case.get('history') or []:
        k = h['h']
        if k == 'effstim':
            guarded(lambda: obs.effstim(unit_obj(h['unit_name']), wavelengths=wl_arg(h)))
        elif k == 'efflam':
            guarded(lambda: obs.effective_wavelength(binned=False, wavelengths=wl_arg(h), mode='efflerg' if h.get('erg', True) else 'efflphot'))
        elif k == 'sample_src':
            guarded(lambda: src(wl_arg(h)))
        elif k == 'sample_obs':
            guarded(lambda: obs(wl_arg(h), flux_unit=h.get('unit_name', 'flam')))
        elif k == 'countrate':
            guarded(lambda: obs.countrate(1.0, binned=False, wavelengths=wl_arg(h)))
        elif k == 'obs2':
            def g():
                o2 = Observation(src, O.build_prim(h['band2']), force='extrap')
                if h.get('what') == 'efflam':
                    return o2.effective_wavelength(binned=False)
                return o2.effstim(unit_obj(h['unit_name']))
            guarded(g)


def impl_call(case):
    from synphot.config import conf
    from scipy.integrate import trapezoid

    def f():
        extra = {}
        with conf.set_temp('default_integrator', case.get('integrator', 'trapezoid')):
            src, band, obs = build_objects(case)
            run_history(case, src, band, obs)
            outs = [run_query(obs, qu) for qu in case['queries']]
            # the measured calls once more, on the same objects: must be bit-identical
            extra['repeat'] = [run_query(obs, qu) for qu in case['queries']]
            warned = 'PartialOverlap' in obs.warnings
            # oracle data (implementation alone), on a fresh observation of the same description
            obs = build_objects(case)[2]
            w = obs.waveset.value
            flam = obs(w, flux_unit='flam').value
            bw = obs.bandpass.waveset
            xb = w if bw is None else bw.value
            yb = obs.bandpass(xb).value
            extra['flam_def'] = abs(trapezoid(w * flam, x=w)) / abs(trapezoid(xb * yb, x=xb))
            extra['pivot'] = float(obs.bandpass.pivot().value)
            extra['wrange'] = [float(w.min()), float(w.max())]
            extra['brange'] = [float(obs.binset.value.min()), float(obs.binset.value.max())]
            extra['nonneg'] = bool(np.all(flam >= 0)) and bool(np.all(obs.binflux.value >= 0))
            extra['efflam_parts'] = [guarded(lambda: efflam_parts(obs, qu)) if qu['q'] == 'efflam' else None
                                     for qu in case['queries']]
            extra['efflam_nonneg'] = [guarded(lambda: bool(np.all(obs(wl_angstrom(qu)).value >= 0)))
                                      if qu['q'] == 'efflam' and qu.get('wl') is not None else None for qu in case['queries']]
            # explicit sampling wavelengths: the defining integrals and the pivot on those wavelengths
            xw = []
            for qu in case['queries']:
                if qu['q'] != 'effstim' or (qu.get('wl') is None and qu.get('vega') is None):
                    xw.append(None)
                    continue

                def on_grid():
                    W = wl_angstrom(qu) if qu.get('wl') is not None else w
                    fl_ = obs(W, flux_unit='flam').value
                    P = obs.bandpass(W).value
                    d = {'flam_def': float(abs(trapezoid(W * fl_, x=W)) / abs(trapezoid(W * P, x=W))),
                         'pivot': float(np.sqrt(abs(trapezoid(P * W, x=W) / trapezoid(P / W, x=W)))),
                         'obs_int': float(abs(trapezoid(np.abs(obs(W).value), x=W)))}
                    if qu.get('vega') is not None:
                        vb = O.build_prim(qu['vega']) * obs.bandpass
                        Wv = W if qu.get('wl') is not None else vb.waveset.value
                        d['vega_int'] = float(abs(trapezoid(np.abs(vb(Wv).value), x=Wv)))
                    return d
                xw.append(guarded(on_grid))
            extra['on_grid'] = xw
        other = 'analytical' if case.get('integrator', 'trapezoid') == 'trapezoid' else 'trapezoid'
        with conf.set_temp('default_integrator', other):
            obs2 = build_objects(case)[2]
            extra['other_integrator'] = [run_query(obs2, qu) if qu.get('area') is None else None for qu in case['queries']]
            extra['other_pivot'] = guarded(lambda: float(obs2.bandpass.pivot().value))
        if case.get('k') is not None:
            k = O.fl(case['k'])
            obs3 = build_objects(case, scale=k)[2]
            extra['scaled'] = [run_query(obs3, qu) if qu.get('area') is None and qu.get('vega') is None else None
                               for qu in case['queries']]
        return {'warned': warned, 'queries': outs, '_x': extra}
    return guarded(f)


def model_case(case):
    c = {'op': 'obs', 'const': case['const'], 'src': case['src'], 'band': case['band'], 'binset': case.get('binset'),
         'force': case.get('force') or 'none'}
    c.update(PAR)
    qs_ = []
    for qu in case['queries']:
        if qu['q'] == 'effstim':
            wl = None if qu.get('wl') is None else qs(wl_angstrom(qu))
            qs_.append({'q': 'effstim', 'unit': O.model_flux_unit(qu['unit_name']), 'wl': wl, 'area': qu.get('area'),
                        'vega': qu.get('vega')})
        else:
            qs_.append({'q': 'efflam', 'binned': qu['binned'], 'wl': None if qu.get('wl') is None else qs(wl_angstrom(qu)),
                        'erg': qu['erg']})
    c['queries'] = qs_
    return c


def compare(case, o, m):
    o2 = {k: v for k, v in o.items() if not k.startswith('_')}
    if 'ok' in o2:
        o2 = {'ok': {k: v for k, v in o2['ok'].items() if not k.startswith('_')}}
    return same(o2, m, rtol=1e-9, atol=1e-9 if any(qu.get('unit_name') in MAGS for qu in case['queries']) else 0.0)


def flat_expect(case):
    """a source flat at value v in unit U observed through any bandpass has effstim v in U"""
    lf = case['src']['leaf']
    if lf['leaf'] == 'constflux' and 'z' not in case['src'] and lf['unit_name'] in ('flam', 'fnu', 'jy', 'mjy', 'stmag', 'abmag'):
        return lf['unit_name'], O.fl(lf['amp'])
    return None


def from_flam(val, unit, pivot):
    if unit == 'flam':
        return val
    fnu = val * pivot ** 2 / C
    if unit == 'fnu':
        return fnu
    if unit in ('jy', 'mjy'):
        return fnu / 1e-23 / float(O.JY_SCALE[unit])
    if unit == 'photlam':
        return val * pivot / (H * C)
    if unit == 'photnu':
        return val * pivot / (H * C) * pivot ** 2 / C
    import astropy.units as u
    if unit == 'stmag':
        return -2.5 * math.log10(val / (1 * u.ST).to(u.erg / u.cm ** 2 / u.s / u.AA).value)
    if unit == 'abmag':
        return -2.5 * math.log10(fnu / (1 * u.AB).to(u.erg / u.cm ** 2 / u.s / u.Hz).value)


def oracle(rep, case, out):
    if 'err' in out:
        if out['err'] not in ('PartialOverlap', 'DisjointError', 'UndefinedBinset', 'ZeroWavelength', 'SynphotError') and not (
                out['err'] == 'ValueError' and c07.c07_zero_band(case)):
            rep.oracle_fail('obs:%s' % out['err'], 'observation construction raised %s' % out['err'], case, out)
        return
    o = out['ok']
    x = o['_x']
    flat = flat_expect(case)
    kk = O.fl(case['k']) if case.get('k') is not None else None
    for i, (qu, r) in enumerate(zip(case['queries'], o['queries'])):
        rp = x['repeat'][i]
        if ('err' in r) != ('err' in rp) or r.get('err') != rp.get('err') or r.get('ok') != rp.get('ok'):
            rep.oracle_fail('%s:repeat_differs' % ('effstim:' + qu['unit_name'] if qu['q'] == 'effstim' else 'efflam'),
                            'the same call on the same observation, asked again after the other calls, gives %s instead of %s' % (
                                core._short(rp) if hasattr(core, '_short') else rp, core._short(r) if hasattr(core, '_short') else r), case, rp)
        if qu['q'] == 'effstim':
            u = qu['unit_name']
            how = 'explicit' if qu.get('wl') is not None else 'native'
            g = {'flam_def': x['flam_def'], 'pivot': x['pivot']}
            if x['on_grid'][i] is not None:
                if 'err' in x['on_grid'][i]:
                    continue        # the samples themselves could not be formed: model comparison only
                g = x['on_grid'][i]['ok']
            if u == 'vegamag':
                if 'err' in r:
                    if r['err'] in ('SynphotError', 'NaN') and not (g.get('obs_int', 0) > 0 and g.get('vega_int', 0) > 0):
                        continue
                    rep.oracle_fail('effstim:vegamag:%s:%s' % (how, r['err']), 'effstim raised %s' % r['err'], case, r)
                    continue
                if g.get('obs_int', 0) > 0 and g.get('vega_int', 0) > 0:
                    want = 2.5 * (math.log10(g['vega_int']) - math.log10(g['obs_int']))
                    if abs(r['ok'] - want) > 1e-9 * max(1.0, abs(want)):
                        rep.oracle_fail('effstim:vegamag:%s:definition' % how,
                                        'VEGAMAG=%r, 2.5 log10 of the two integrals on the sampling wavelengths gives %r' % (r['ok'], want), case, r)
                if qu.get('vega_is_src') and not o['warned'] and abs(r['ok']) > 1e-9:
                    rep.oracle_fail('effstim:vegamag:%s:vega_itself_not_zero' % how,
                                    'the Vega spectrum observed through the band has VEGAMAG %r' % r['ok'], case, r)
                oi = x['other_integrator'][i]
                if oi is not None and ('err' in oi or oi['ok'] != r['ok']):
                    rep.oracle_fail('effstim:vegamag:integrator_dependent', 'default_integrator changes the result: %s vs %r' % (oi, r['ok']), case, r)
                continue
            if 'err' in r:
                if r['err'] in ('SynphotError', 'NaN') and not (g['flam_def'] > 0):
                    continue
                rep.oracle_fail('effstim:%s:%s' % (u, r['err']), 'effstim raised %s' % r['err'], case, r)
                continue
            want = from_flam(g['flam_def'], u, g['pivot']) if g['flam_def'] > 0 and g['pivot'] > 0 else None
            if want is not None and math.isfinite(want):
                tol = 1e-9 * abs(want) + (1e-9 if u in MAGS else 0)
                if abs(r['ok'] - want) > tol:
                    rep.oracle_fail('effstim:%s:definition%s' % (u, '' if how == 'native' else ':explicit_wavelengths'),
                                    'effstim=%r, defining integrals converted at the pivot (on the same wavelengths) give %r' % (r['ok'], want), case, r)
            if flat and flat[0] == u:
                tolf = 1e-9 * abs(flat[1]) + (1e-9 if u in MAGS else 0)
                if abs(r['ok'] - flat[1]) > tolf:
                    rep.oracle_fail('effstim:%s:flat_spectrum%s' % (u, '' if how == 'native' else ':explicit_wavelengths'),
                                    'flat spectrum at %r has effstim %r' % (flat[1], r['ok']), case, r)
            oi = x['other_integrator'][i]
            if oi is not None and ('err' in oi or oi['ok'] != r['ok']):
                rep.oracle_fail('effstim:%s:integrator_dependent' % u, 'default_integrator changes the result: %s vs %r' % (oi, r['ok']), case, r)
            if kk is not None and x.get('scaled') and x['scaled'][i] is not None:
                s = x['scaled'][i]
                if 'err' in s:
                    rep.oracle_fail('effstim:%s:scaled:%s' % (u, s['err']), 'scaled source failed', case, s)
                elif u in MAGS:
                    if abs(s['ok'] - (r['ok'] - 2.5 * math.log10(kk))) > 1e-9 * max(1.0, abs(r['ok'])):
                        rep.oracle_fail('effstim:%s:scale_law' % u, 'x%r shifts the magnitude by %r' % (kk, s['ok'] - r['ok']), case, s)
                elif abs(s['ok'] - kk * r['ok']) > 1e-9 * abs(kk * r['ok']):
                    rep.oracle_fail('effstim:%s:scale_law' % u, 'x%r gives %r, expected %r' % (kk, s['ok'], kk * r['ok']), case, s)
        else:
            if 'err' in r:
                if r['err'] in ('InterpolationNotAllowed',):
                    continue
                rep.oracle_fail('efflam:%s' % r['err'], 'effective_wavelength raised %s' % r['err'], case, r)
                continue
            oi = x['other_integrator'][i]
            if oi is not None and ('err' in oi or oi['ok'] != r['ok']):
                rep.oracle_fail('efflam:integrator_dependent', 'default_integrator changes the effective wavelength: %s vs %r' % (oi, r['ok']), case, r)
            parts = x['efflam_parts'][i]
            den = None
            if parts is not None and 'ok' in parts:
                num, den = parts['ok']
                if den == 0:
                    if r['ok'] != 0:
                        rep.oracle_fail('efflam:definition', 'zero denominator but effective wavelength %r' % r['ok'], case, r)
                else:
                    want = abs(num / den)
                    if abs(r['ok'] - want) > 1e-9 * want:
                        rep.oracle_fail('efflam:definition', 'effective wavelength %r, defining integrals give %r' % (r['ok'], want), case, r)
            lo, hi = x['brange'] if qu['binned'] else x['wrange']
            nonneg = x['nonneg']
            if qu.get('wl') is not None:
                W = wl_angstrom(qu)
                lo, hi = float(W.min()), float(W.max())
                nonneg = x['efflam_nonneg'][i].get('ok') is True
            live = (den != 0) if den is not None else (r['ok'] != 0)
            if nonneg and live and not (lo * (1 - 1e-9) <= r['ok'] <= hi * (1 + 1e-9)):
                rep.oracle_fail('efflam:outside_range', 'effective wavelength %r outside [%r, %r]' % (r['ok'], lo, hi), case, r)
            if kk is not None and x.get('scaled') and x['scaled'][i] is not None:
                s = x['scaled'][i]
                if 'err' in s:
                    rep.oracle_fail('efflam:scaled:%s' % s['err'], 'scaled source failed', case, s)
                elif abs(s['ok'] - r['ok']) > 1e-9 * abs(r['ok']):
                    rep.oracle_fail('efflam:scale_dependent', 'source x%r changes the effective wavelength from %r to %r' % (kk, r['ok'], s['ok']), case, s)
    op = x.get('other_pivot')
    if op is not None and not (x['pivot'] != x['pivot'] and op.get('err') == 'NaN') and ('err' in op or op['ok'] != x['pivot']):
        rep.oracle_fail('pivot:integrator_dependent', 'default_integrator changes the bandpass pivot: %s vs %r' % (op, x['pivot']), case, op)
    # magnitude = -2.5 log10(linear) - zero point (same sampling wavelengths)
    res = {}
    for qu, r in zip(case['queries'], o['queries']):
        if qu['q'] == 'effstim' and 'ok' in r:
            res.setdefault((qu['unit_name'], None if qu.get('wl') is None else (tuple(qu['wl']), qu.get('wl_unit'))), r['ok'])
    for (un, key), val in list(res.items()):
        if un == 'stmag' and ('flam', key) in res and res[('flam', key)] > 0:
            ref = -2.5 * math.log10(res[('flam', key)]) - 21.10
            if abs(val - ref) > 1e-9 * max(1.0, abs(ref)):
                rep.oracle_fail('effstim:stmag_vs_flam', 'STmag %r vs -2.5 log10(FLAM) - 21.10 = %r' % (val, ref), case, res[('flam', key)])
        if un == 'abmag' and ('fnu', key) in res and res[('fnu', key)] > 0:
            ref = -2.5 * math.log10(res[('fnu', key)]) - 48.60
            if abs(val - ref) > 1e-9 * max(1.0, abs(ref)):
                rep.oracle_fail('effstim:abmag_vs_fnu', 'ABmag %r vs -2.5 log10(FNU) - 48.60 = %r' % (val, ref), case, res[('fnu', key)])


PIVOT_UNITS = ['fnu', 'jy', 'mjy', 'photlam', 'photnu', 'abmag']


def scale_leaf(leaf, k):
    """the same source, `k` (a power of two: exact in binary64 and in the model) times as bright"""
    lf = dict(leaf)
    if lf['leaf'] == 'empirical':
        lf['vals'] = qs([unq(v) * k for v in lf['vals']])
    elif lf['leaf'] == 'trapezoid':
        lf['amp'] = q(unq(lf['amp']) * k)
        lf['slope'] = q(unq(lf['slope']) * k)
    elif lf['leaf'] == 'constflux' and lf['unit_name'] in ('stmag', 'abmag'):
        return lf
    else:
        lf['amp'] = q(unq(lf['amp']) * k)
    return lf


def band_range(band):
    lf = band['leaf']
    if lf['leaf'] == 'empirical':
        p = [unq(v) for v in lf['pts']]
        return min(p), max(p)
    return unq(lf['x0']) - unq(lf['width']) / 2, unq(lf['x0']) + unq(lf['width']) / 2


def gen_grid(rng, band):
    """explicit sampling wavelengths around the bandpass: coarse, ascending / descending, Angstrom numbers or nm"""
    lo, hi = band_range(band)
    span = hi - lo
    lo2, hi2 = max(F(50), lo - span / 8), hi + span / 8
    nm = rng.random() < 0.25
    n = rng.randint(2, 9)
    if nm:
        g = sorted({O.dy(rng, float(lo2) / 10, float(hi2) / 10 + 1, 3) for _ in range(n)})
    else:
        g = sorted({O.dy(rng, float(lo2), float(hi2) + 1, 3) for _ in range(n)})
    if rng.random() < 0.3:
        g = g[::-1]
    if not nm and rng.random() < 0.3:
        # the same set spelled as a Quantity in Angstrom, micron, frequency or wavenumber (the integrals are taken in
        # Angstrom whatever the spelling; the model gets the Angstrom values the conversion yields)
        wu = rng.choice(['AA', 'micron', 'THz', 'inv_micron'])
        conv = {'AA': lambda x: x, 'micron': lambda x: F(float(x / 10000)), 'THz': lambda x: F(float(F(299792458, 100) / x)),
                'inv_micron': lambda x: F(float(10000 / x))}[wu]
        g2 = [conv(x) for x in g]
        if len(set(g2)) == len(g2):
            return qs(g2), wu
    return qs(g), ('nm' if nm else 'AA_number')


def related_grid(rng, vals, kind):
    """a grid with the same length and the same first / last value as `vals` (Fractions) but other interior points:
    linear, logarithmic or quadratic spacing, on the dyadic lattice; None if that is not possible"""
    n = len(vals)
    if n < 3:
        return None
    desc = vals[0] > vals[-1]
    lo, hi = (vals[-1], vals[0]) if desc else (vals[0], vals[-1])
    out = [lo]
    for i in range(1, n - 1):
        t = i / (n - 1)
        if kind == 'lin':
            v = float(lo) + float(hi - lo) * t
        elif kind == 'log':
            v = float(lo) * (float(hi) / float(lo)) ** t
        else:
            v = float(lo) + float(hi - lo) * t * t
        out.append(F(round(v * 8), 8))
    out.append(hi)
    if any(b <= a for a, b in zip(out, out[1:])):
        return None
    if desc:
        out = out[::-1]
    return None if out == list(vals) else out


def gen_history(rng, c):
    """1-2 earlier calls on grids related to the ones the measured calls use"""
    bases = []          # (values, unit)
    for qu in c['queries']:
        if qu.get('wl') is not None and (qu.get('wl_unit') or 'AA_number') in ('nm', 'AA_number') and \
                (qu['wl'], qu.get('wl_unit')) not in [(qs(b[0]), b[1]) for b in bases]:
            bases.append(([unq(v) for v in qu['wl']], qu.get('wl_unit') or 'AA_number'))
    lf = c['band']['leaf']
    if lf['leaf'] == 'empirical':
        bases.append((sorted(unq(v) for v in lf['pts']), 'AA_number'))     # the native set of a flat source x this band
    if not bases:
        return []
    hist = []
    for _ in range(rng.randint(1, 2)):
        vals, unit = rng.choice(bases)
        r = rng.random()
        if r < 0.7:
            g = None
            for kind in rng.sample(['lin', 'log', 'quad'], 3):
                g = related_grid(rng, vals, kind)
                if g is not None:
                    break
            if g is None:
                g = vals[::-1]
            gu = unit
        elif r < 0.85:
            g, gu = vals[::-1], unit
        else:
            g, gu = vals, ('AA_number' if unit == 'nm' else 'nm')       # the same numbers in the other unit
        wl = qs(g)
        t = rng.random()
        if t < 0.3:
            hist.append({'h': 'effstim', 'unit_name': rng.choice(UNITS), 'wl': wl, 'wl_unit': gu})
        elif t < 0.45:
            hist.append({'h': 'efflam', 'erg': rng.random() < 0.7, 'wl': wl, 'wl_unit': gu})
        elif t < 0.55:
            hist.append({'h': 'sample_src', 'wl': wl, 'wl_unit': gu})
        elif t < 0.65:
            hist.append({'h': 'sample_obs', 'unit_name': rng.choice(['flam', 'fnu', 'photlam']), 'wl': wl, 'wl_unit': gu})
        elif t < 0.75:
            hist.append({'h': 'countrate', 'wl': wl, 'wl_unit': gu})
        else:
            pts = sorted(v * 10 if gu == 'nm' else v for v in g)
            vals2 = [O.dy(rng, 0, 1, 4) + F(1, 16) for _ in pts]
            if rng.random() < 0.5:
                vals2[0] = vals2[-1] = F(0)
            band2 = O.fill_ss({'prim': 'bandpass', 'leaf': {'leaf': 'empirical', 'pts': qs(pts), 'vals': qs(vals2), 'keep_neg': True}})
            hist.append({'h': 'obs2', 'band2': band2, 'what': 'efflam' if rng.random() < 0.3 else 'effstim',
                         'unit_name': rng.choice(UNITS)})
    return hist


def gen_case(rng, K, nmax):
    src, band = c07.gen_pair(rng)
    if rng.random() < 0.35:
        src = O.fill_ss({'prim': 'source', 'leaf': {'leaf': 'constflux', 'amp': q(O.dy(rng, 0.25, 30, 3) if rng.random() < 0.6 else F(rng.randint(-20, 25))),
                                                   'unit_name': rng.choice(['flam', 'fnu', 'jy', 'stmag', 'abmag', 'photlam'])}})
        if src['leaf']['unit_name'] in ('stmag', 'abmag'):
            pass
        elif unq(src['leaf']['amp']) <= 0:
            src['leaf']['amp'] = '3/2'
    if band['leaf']['leaf'] == 'empirical' and all(unq(v) == 0 for v in band['leaf']['vals']):
        band['leaf']['vals'][0] = '1/2'
    if rng.random() < 0.25 and src['leaf']['leaf'] != 'constflux':
        # a redshifted source, in either redshift convention (the scaling law must hold for it as for any other)
        src = dict(src, z=q(rng.choice([F(1, 2), F(1), F(1, 4), F(-1, 4), F(3)])))
        if rng.random() < 0.65:
            src['ztype'] = 'conserve_flux'
    # brightness over many decades: the source itself 2^-120 .. 2^60 times as bright (seen by the model too) ...
    e1 = rng.randint(-120, 60) if rng.random() < 0.5 else 0
    if e1:
        src = dict(src, leaf=scale_leaf(src['leaf'], F(2) ** e1))
    binset, unit, kind = c07.gen_binset(rng, nmax)
    if unit != 'AA_number' or kind == 'outside':
        binset = None
    c = {'op': 'obs', 'const': K, 'src': src, 'band': band, 'force': 'extrap',
         'binset': None if binset is None else qs(sorted(binset)), '_kind': kind, '_e1': e1,
         'integrator': rng.choice(['trapezoid', 'analytical']), 'queries': []}
    for u in rng.sample(UNITS, rng.randint(3, 6)):
        c['queries'].append({'q': 'effstim', 'unit_name': u})
    for u in ('flam', 'stmag', 'fnu', 'abmag'):
        if rng.random() < 0.5 and not any(qq.get('unit_name') == u for qq in c['queries']):
            c['queries'].append({'q': 'effstim', 'unit_name': u})
    # explicit sampling wavelengths (different from the native sets), mostly in the units converted at the pivot
    if rng.random() < 0.6:
        wl, wu = gen_grid(rng, band)
        units_ = rng.sample(PIVOT_UNITS, rng.randint(1, 3))
        if flat_expect(c) and flat_expect(c)[0] not in units_:
            units_.append(flat_expect(c)[0])
        if rng.random() < 0.4:
            units_ += rng.sample(['flam', 'stmag', 'fnu', 'abmag'], 2)
        for u in dict.fromkeys(units_):
            c['queries'].append({'q': 'effstim', 'unit_name': u, 'wl': wl, 'wl_unit': wu})
    if rng.random() < 0.35:
        own = rng.random() < 0.4
        if own:
            vega = {k: v for k, v in src.items()}
        elif rng.random() < 0.6:
            vega = O.fill_ss({'prim': 'source', 'leaf': O.gen_table_leaf(rng, lo=800, hi=9500, nmax=10, nonneg=True, keep_neg=False)})
        else:
            vega = O.fill_ss({'prim': 'source', 'leaf': {'leaf': 'constflux', 'amp': q(O.dy(rng, 0.25, 8, 3)),
                                                        'unit_name': rng.choice(['photlam', 'flam', 'fnu'])}})
        qv = {'q': 'effstim', 'unit_name': 'vegamag', 'vega': vega, 'vega_is_src': own}
        if rng.random() < 0.7:
            qv['wl'], qv['wl_unit'] = gen_grid(rng, band)
        c['queries'].append(qv)
    for binned in (False, True):
        ergs = [True, False] if rng.random() < 0.5 else [rng.random() < 0.7]
        for erg in ergs:
            c['queries'].append({'q': 'efflam', 'binned': binned, 'erg': erg})
    if rng.random() < 0.4:
        explicit = [qq for qq in c['queries'] if qq.get('wl') is not None]
        wl, wu = (explicit[0]['wl'], explicit[0]['wl_unit']) if explicit and rng.random() < 0.7 else gen_grid(rng, band)
        c['queries'].append({'q': 'efflam', 'binned': False, 'erg': rng.random() < 0.7, 'wl': wl, 'wl_unit': wu})
    # ... and the relation with `source * k`, k = 2^e2, total brightness still within 2^-120 .. 2^60
    if rng.random() < 0.6:
        c['k'] = q(F(2) ** rng.randint(max(-60, -120 - e1), min(60, 60 - e1)))
    # a short history of earlier calls on the same source / bandpass / observation objects
    if rng.random() < 0.7:
        c['history'] = gen_history(rng, c)
    rng.shuffle(c['queries'])
    return c


def mk_constflux_stmag(case):
    return case


def run(rep):
    from . import c16
    c16.fast_unit_errors()
    thorough = rep.tier == 'thorough'
    rng = rep.rng('c09')
    K = O.consts()
    cases = core.load_corpus('C09')
    for c in cases:
        c['const'] = K
    cases += [gen_case(rng, K, 100 if thorough else 16) for _ in range(15000 if thorough else 750)]
    rep.rule = ('observations (table / constant-in-every-unit / box / trapezoid sources x table / box bandpasses, several binsets) '
                'x effstim in FLAM, FNU, Jy, mJy, PHOTLAM, PHOTNU, STmag, ABmag on the native sets and on explicit coarse wavelength '
                'grids (ascending / descending, Angstrom / nm), VEGAMAG with a Vega spectrum (native / explicit wavelengths) x source '
                'brightness 2^-120..2^60 (in the source itself, seen by the model, and as source*k) x both default_integrator '
                'settings; effective wavelength binned/unbinned (native and explicit wavelengths), efflerg/efflphot at every brightness; '
                'each case is a history on the same source / bandpass / observation objects: 1-2 earlier calls (effstim, effective '
                'wavelength, sampling, count rate, an observation through a second bandpass) on grids with the same length and end '
                'points but other spacing, reversed, or the same numbers in nm, then the measured calls in random order, then the '
                'measured calls again (bit-identical). Non-trivial: an observation was constructed and at least one effective '
                'stimulus returned.')

    def tags(c, o):
        t = ['outcome:' + (o.get('err') or 'ok'), 'integrator:' + c.get('integrator', 'trapezoid'),
             'brightness:' + ('faint' if c.get('_e1', 0) < -40 else 'bright' if c.get('_e1', 0) > 20 else 'mid'),
             'history:' + ('+'.join(sorted({h['h'] for h in c.get('history') or []})) or 'none')]
        if 'ok' in o:
            for qu, r in zip(c['queries'], o['ok']['queries']):
                if qu['q'] == 'effstim':
                    t.append('unit:%s:%s:%s' % (qu['unit_name'], 'explicit' if qu.get('wl') is not None else 'native', r.get('err') or 'ok'))
                elif qu.get('wl') is not None:
                    t.append('efflam:explicit:%s' % (r.get('err') or 'ok'))
        return t

    def nontrivial(c, o):
        return 'ok' in o and any('ok' in r for r in o['ok']['queries'])
    core.run_cases(rep, cases, impl_call, model_case, oracle, tags_fn=tags, nontrivial_fn=nontrivial, compare_fn=compare)
    rep.samples = [s if not isinstance(s, dict) else {k: v for k, v in s.items() if k != 'const'} for s in rep.samples]


def search(rep, mismatches):
    sub = core.Report(rep.pid, 'thorough', rep.seed + 1)
    rng = sub.rng('c09-search')
    K = O.consts()
    cases = [gen_case(rng, K, 16) for _ in range(2500)]
    impl = core.pmap(impl_call, cases)
    for c, o in zip(cases, impl):
        oracle(sub, c, o)
    rep.notes.append('directed search after mismatch: %d cases, %d oracle failures' % (len(cases), len(sub.oracle_failures)))
    return sub.oracle_failures


def replay(rep, payload):
    c = payload['case']
    c['const'] = O.consts()
    core.run_cases(rep, [c], impl_call, model_case, oracle, compare_fn=compare)
