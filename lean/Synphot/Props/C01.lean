/-
  C01 — Flux-unit conversion is physically exact, invertible and path-independent.

  Statements are about `convertOne` (one sample of `units.convert_flux`) and `convertFlux`
  (arrays), for every ordered field `K` (hence ℝ), every lawful family of transcendental
  functions (`Lemmas/TranscReal.lean` shows the real ones are lawful), all positive
  constants, wavelengths, areas × widths and Vega fluxes.  The second half ("deepening") adds
  the closed forms as conversions, linearity / monotonicity, the error classes, the count
  factors (positivity, reversal), the array form of the round trip / path independence /
  reversal, and the unit-name table; helper lemmas are in `Lemmas/C01x.lean`.
-/
import Synphot.Lemmas.Units
import Synphot.Lemmas.Binning
import Synphot.Lemmas.C01x

set_option linter.unusedSectionVars false
set_option linter.unusedVariables false

namespace Synphot.C01
open Synphot Synphot.C01x
variable {K : Type} [Field K] [LinearOrder K] [IsStrictOrderedRing K]
variable {P : PhysConst K} {T : Transc K} {s : Samp K}

/-- A→B→A is the identity: whenever the conversion A→B returns a value, converting that value
back returns the original (all 10×10 unit pairs, prefixed Jansky included). -/
theorem convert_roundtrip (hP : P.Pos) (hT : T.Lawful) (hs : s.Pos) (a b : FluxUnit K)
    (ha : a.Pos) (hb : b.Pos) {f g : K} (h : convertOne P T s a b f = .ok g) :
    convertOne P T s b a g = .ok f := by
  unfold convertOne at h ⊢
  by_cases hab : a = b
  · subst hab; simp only [if_true] at h ⊢; injection h with h; subst h; rfl
  · have hba : ¬ b = a := fun e => hab e.symm
    rw [if_neg hab] at h; rw [if_neg hba]
    cases hp : toPhotlam P T s a f with
    | error e => rw [hp] at h; cases h
    | ok p =>
      rw [hp] at h
      have h' : ofPhotlam P T s b p = .ok g := h
      have h1 := toPhotlam_ofPhotlam hP hT hs b hb h'
      have h2 := ofPhotlam_toPhotlam hP hT hs a ha hp
      rw [h1]; exact h2

/-- A→B equals A→C→B for every intermediate unit C for which both hops return a value. -/
theorem convert_path_indep (hP : P.Pos) (hT : T.Lawful) (hs : s.Pos) (a b c : FluxUnit K)
    (ha : a.Pos) (hb : b.Pos) (hc : c.Pos) {f y z : K}
    (h1 : convertOne P T s a c f = .ok y) (h2 : convertOne P T s c b y = .ok z) :
    convertOne P T s a b f = .ok z := by
  by_cases hac : a = c
  · subst hac
    have : y = f := by
      unfold convertOne at h1; simp only [if_true] at h1; injection h1 with h1; exact h1.symm
    subst this; exact h2
  by_cases hcb : c = b
  · subst hcb
    have : z = y := by
      unfold convertOne at h2; simp only [if_true] at h2; injection h2 with h2; exact h2.symm
    subst this; exact h1
  by_cases hab : a = b
  · subst hab
    have := convert_roundtrip hP hT hs a c ha hc h1
    rw [this] at h2; injection h2 with h2; subst h2
    unfold convertOne; simp
  · unfold convertOne at h1 h2 ⊢
    rw [if_neg hac] at h1; rw [if_neg hcb] at h2; rw [if_neg hab]
    cases hp : toPhotlam P T s a f with
    | error e => rw [hp] at h1; cases h1
    | ok p =>
      rw [hp] at h1
      have h1' : ofPhotlam P T s c p = .ok y := h1
      have hq := toPhotlam_ofPhotlam hP hT hs c hc h1'
      rw [hq] at h2
      exact h2

/-! ### the physical definitions -/

/-- photon energy `hc/λ`: FLAM = PHOTLAM · hc/λ -/
theorem flam_def (p : K) : ofPhotlam P T s .flam p = .ok (p * (P.h * P.c) / s.lam) := rfl

/-- `F_ν = F_λ λ²/c` -/
theorem fnu_def (p : K) :
    ofPhotlam P T s .fnu p = .ok ((p * (P.h * P.c) / s.lam) * s.lam ^ 2 / P.c) := rfl

theorem photnu_def (p : K) : ofPhotlam P T s .photnu p = .ok (p * s.lam ^ 2 / P.c) := rfl

/-- STmag = −2.5 log₁₀(F_λ / zero point) -/
theorem stmag_def (p : K) (hp : 0 < p * (P.h * P.c) / s.lam / P.stZero) :
    ofPhotlam P T s .stmag p = .ok (-(5/2) * T.log10 (p * (P.h * P.c) / s.lam / P.stZero)) := by
  simp [ofPhotlam, toMag, not_le.mpr hp]

/-- ABmag = −2.5 log₁₀(F_ν / zero point) -/
theorem abmag_def (p : K) (hp : 0 < p * (P.h * P.c) / s.lam * s.lam ^ 2 / P.c / P.abZero) :
    ofPhotlam P T s .abmag p =
      .ok (-(5/2) * T.log10 (p * (P.h * P.c) / s.lam * s.lam ^ 2 / P.c / P.abZero)) := by
  simp [ofPhotlam, toMag, not_le.mpr hp]

/-- with the zero point written as `10^(−0.4·zp)`, the magnitude is `−2.5 log₁₀ F − zp`
(zp = 21.10 for STmag, 48.60 for ABmag) -/
theorem mag_zero_point (hT : T.Lawful) (x zp : K) (hx : 0 < x) :
    -(5/2) * T.log10 (x / T.pow10 (-(2/5) * zp)) = -(5/2) * T.log10 x - zp := by
  have hz := hT.pow10_pos (-(2/5) * zp)
  have : x / T.pow10 (-(2/5) * zp) = x * T.pow10 ((2/5) * zp) := by
    have h1 : T.pow10 (-(2/5) * zp) * T.pow10 ((2/5) * zp) = 1 := by
      rw [← hT.pow10_add]; simp [hT.pow10_zero]
    rw [div_eq_iff (ne_of_gt hz), mul_assoc, mul_comm (T.pow10 (2 / 5 * zp)), h1, mul_one]
  rw [this, hT.log10_mul x _ hx (hT.pow10_pos _), hT.log10_pow10]; ring

/-- count = PHOTLAM × area × wavelength-bin width -/
theorem count_def (p w : K) (hw : s.countFactor = some w) :
    ofPhotlam P T s .count p = .ok (p * w) := by simp [ofPhotlam, hw]

/-- OBMAG = −2.5 log₁₀(count) -/
theorem obmag_def (p w : K) (hw : s.countFactor = some w) (hp : 0 < p * w) :
    ofPhotlam P T s .obmag p = .ok (-(5/2) * T.log10 (p * w)) := by
  simp [ofPhotlam, hw, toMag, not_le.mpr hp]

/-- VEGAMAG = −2.5 log₁₀(F / F_Vega) -/
theorem vegamag_def (p v : K) (hv : s.vega = some v) (hp : 0 < p / v) :
    ofPhotlam P T s .vegamag p = .ok (-(5/2) * T.log10 (p / v)) := by
  simp [ofPhotlam, hv, toMag, not_le.mpr hp]

/-- the count factor of `convert_flux` is bin width × area, with the widths of
`calculate_bin_widths(calculate_bin_edges(wavelengths))` -/
theorem countFactors_def (w e bw : List K) (area : K) (hv : validateWavelengths w = .ok ())
    (he : binEdges w = .ok e) (hw : binWidths e = .ok bw) :
    countFactors w area = .ok (bw.map (· * area)) := by
  simp [countFactors, calcBinEdges_eq w e hv he, hw, bind, Except.bind, pure, Except.pure]

/-! ### missing inputs raise instead of returning a number -/

theorem needs_area (a b : FluxUnit K) (hab : a ≠ b) (hs : s.countFactor = none)
    (hn : a.needsArea = true ∨ b.needsArea = true) (f : K) :
    (∃ e, convertOne P T s a b f = .error e) := by
  unfold convertOne
  rw [if_neg hab]
  rcases hn with hn | hn
  · cases a <;> simp [FluxUnit.needsArea] at hn <;>
      exact ⟨.synphotError, by simp [toPhotlam, hs, bind, Except.bind]⟩
  · cases hp : toPhotlam P T s a f with
    | error e => exact ⟨e, by simp [hp, bind, Except.bind]⟩
    | ok p =>
      cases b <;> simp [FluxUnit.needsArea] at hn <;>
        exact ⟨.synphotError, by simp [hp, ofPhotlam, hs, bind, Except.bind]⟩

theorem needs_vega (a b : FluxUnit K) (hab : a ≠ b) (hs : s.vega = none)
    (hn : a.needsVega = true ∨ b.needsVega = true) (f : K) :
    (∃ e, convertOne P T s a b f = .error e) := by
  unfold convertOne
  rw [if_neg hab]
  rcases hn with hn | hn
  · cases a <;> simp [FluxUnit.needsVega] at hn
    exact ⟨.synphotError, by simp [toPhotlam, hs, bind, Except.bind]⟩
  · cases hp : toPhotlam P T s a f with
    | error e => exact ⟨e, by simp [hp, bind, Except.bind]⟩
    | ok p =>
      cases b <;> simp [FluxUnit.needsVega] at hn
      exact ⟨.synphotError, by simp [hp, ofPhotlam, hs, bind, Except.bind]⟩

/-- the array form never supplies a count factor when no area was given: the first element of a
non-empty request fails, so the whole call fails -/
theorem convertFlux_no_area (a b : FluxUnit K) (hab : a ≠ b) (vega : Option (List K))
    (hn : a.needsArea = true ∨ b.needsArea = true) (w0 f0 : K) (wt ft : List K) :
    ∃ e, convertFlux P T (w0 :: wt) (f0 :: ft) a b none vega = .error e := by
  unfold convertFlux
  rw [if_neg hab]
  have hcf : countFactorsFor (w0 :: wt) a b (none : Option K) = .ok none := by
    unfold countFactorsFor; split_ifs <;> rfl
  rw [hcf]
  obtain ⟨e, he⟩ := needs_area (P := P) (T := T)
    (s := { lam := w0, countFactor := none, vega := vega.bind List.head? }) a b hab rfl hn f0
  refine ⟨e, ?_⟩
  show (do let cf ← (Except.ok none : Except Err (Option (List K))); convertAll P T a b (mkSamples (w0 :: wt) cf vega) (f0 :: ft)) = _
  simp only [bind, Except.bind, mkSamples, convertAll, Option.bind_none] at he ⊢
  rw [he]

/-- the same for a missing Vega spectrum -/
theorem convertFlux_no_vega (a b : FluxUnit K) (hab : a ≠ b) (area : Option K)
    (hn : a.needsVega = true ∨ b.needsVega = true) (w0 f0 : K) (wt ft : List K) :
    (∃ e, convertFlux P T (w0 :: wt) (f0 :: ft) a b area none = .error e) := by
  unfold convertFlux
  rw [if_neg hab]
  cases hcf : countFactorsFor (w0 :: wt) a b area with
  | error e => exact ⟨e, by simp [bind, Except.bind]⟩
  | ok cf =>
    obtain ⟨e, he⟩ := needs_vega (P := P) (T := T)
      (s := { lam := w0, countFactor := cf.bind List.head?, vega := none }) a b hab rfl hn f0
    refine ⟨e, ?_⟩
    simp only [bind, Except.bind, mkSamples, convertAll, Option.bind_none] at he ⊢
    rw [he]

/-! ## deepening: the PHOTLAM hub, more closed forms -/

/-- converting from PHOTLAM is the "PHOTLAM → unit" leg, converting to PHOTLAM the "unit → PHOTLAM"
leg: the `_def` theorems above are statements about `convert_flux` itself -/
theorem photlam_hub (u : FluxUnit K) (hu : u ≠ .photlam) (x : K) :
    convertOne P T s .photlam u x = ofPhotlam P T s u x ∧
    convertOne P T s u .photlam x = toPhotlam P T s u x := by
  constructor
  · unfold convertOne; rw [if_neg (Ne.symm hu)]; rfl
  · unfold convertOne; rw [if_neg hu]
    cases toPhotlam P T s u x <;> rfl

/-- FNU = PHOTLAM · hλ (the photon energy `hc/λ` times `λ²/c`) -/
theorem fnu_closed (hP : P.Pos) (hs : s.Pos) (p : K) :
    ofPhotlam P T s .fnu p = .ok (p * P.h * s.lam) := by
  have hc := ne_of_gt hP.c; have hl := ne_of_gt hs.lam
  simp only [ofPhotlam]; congr 1; field_simp

/-- `F_ν = F_λ λ²/c` as a conversion: FLAM → FNU -/
theorem flam_to_fnu (hP : P.Pos) (hs : s.Pos) (f : K) :
    convertOne P T s .flam .fnu f = .ok (f * s.lam ^ 2 / P.c) := by
  have hh := ne_of_gt hP.h; have hc := ne_of_gt hP.c; have hl := ne_of_gt hs.lam
  simp only [convertOne, toPhotlam, ofPhotlam, reduceCtorEq, if_false, bind, Except.bind]
  congr 1; field_simp

/-- the photon energy as a conversion: PHOTNU → FNU multiplies by `hc/λ`, like PHOTLAM → FLAM -/
theorem photnu_to_fnu (hP : P.Pos) (hs : s.Pos) (f : K) :
    convertOne P T s .photnu .fnu f = .ok (f * (P.h * P.c) / s.lam) := by
  have hh := ne_of_gt hP.h; have hc := ne_of_gt hP.c; have hl := ne_of_gt hs.lam
  simp only [convertOne, toPhotlam, ofPhotlam, reduceCtorEq, if_false, bind, Except.bind]
  congr 1; field_simp

/-- Jansky: PHOTLAM → (prefixed) Jy is the FNU value divided by the scale of the unit in FNU -/
theorem jy_def (k p : K) :
    ofPhotlam P T s (.jy k) p = .ok (p * (P.h * P.c) / s.lam * s.lam ^ 2 / P.c / (k * P.jyFnu)) := rfl

/-- the Jansky scale as a conversion: FNU → k·Jy divides by `k · 1e-23`, and back multiplies -/
theorem fnu_jy_scale (hP : P.Pos) (hs : s.Pos) (k : K) (hk : 0 < k) (f : K) :
    convertOne P T s .fnu (.jy k) f = .ok (f / (k * P.jyFnu)) ∧
    convertOne P T s (.jy k) .fnu f = .ok (f * (k * P.jyFnu)) := by
  have hh := ne_of_gt hP.h; have hc := ne_of_gt hP.c; have hl := ne_of_gt hs.lam
  have hj := ne_of_gt hP.jy; have hk' := ne_of_gt hk
  constructor
  · simp only [convertOne, toPhotlam, ofPhotlam, reduceCtorEq, if_false, bind, Except.bind]
    congr 1; field_simp
  · simp only [convertOne, toPhotlam, ofPhotlam, reduceCtorEq, if_false, bind, Except.bind]
    congr 1; field_simp

/-- STmag = −2.5 log₁₀ F_λ − zp as a conversion from FLAM, for the zero point `10^(−0.4·zp)`
(zp = 21.10) -/
theorem flam_to_stmag (hP : P.Pos) (hT : T.Lawful) (hs : s.Pos) (zp : K)
    (hzp : P.stZero = T.pow10 (-(2/5) * zp)) (f : K) (hf : 0 < f) :
    convertOne P T s .flam .stmag f = .ok (-(5/2) * T.log10 f - zp) := by
  have hh := ne_of_gt hP.h; have hc := ne_of_gt hP.c; have hl := ne_of_gt hs.lam
  have hz := hP.st
  simp only [convertOne, toPhotlam, ofPhotlam, reduceCtorEq, if_false, bind, Except.bind]
  have e : f * s.lam / (P.h * P.c) * (P.h * P.c) / s.lam / P.stZero = f / P.stZero := by field_simp
  rw [toMag_congr e, toMag_pos (div_pos hf hz), hzp, mag_zero_point hT f zp hf]

/-- ABmag = −2.5 log₁₀ F_ν − zp as a conversion from FNU (zp = 48.60) -/
theorem fnu_to_abmag (hP : P.Pos) (hT : T.Lawful) (hs : s.Pos) (zp : K)
    (hzp : P.abZero = T.pow10 (-(2/5) * zp)) (f : K) (hf : 0 < f) :
    convertOne P T s .fnu .abmag f = .ok (-(5/2) * T.log10 f - zp) := by
  have hh := ne_of_gt hP.h; have hc := ne_of_gt hP.c; have hl := ne_of_gt hs.lam
  have hz := hP.ab
  simp only [convertOne, toPhotlam, ofPhotlam, reduceCtorEq, if_false, bind, Except.bind]
  have e : f * P.c / s.lam ^ 2 * s.lam / (P.h * P.c) * (P.h * P.c) / s.lam * s.lam ^ 2 / P.c / P.abZero
      = f / P.abZero := by field_simp
  rw [toMag_congr e, toMag_pos (div_pos hf hz), hzp, mag_zero_point hT f zp hf]

/-- OBMAG = −2.5 log₁₀(count) as a conversion from count -/
theorem count_to_obmag (hs : s.Pos) (w : K) (hw : s.countFactor = some w) (n : K) (hn : 0 < n) :
    convertOne P T s .count .obmag n = .ok (-(5/2) * T.log10 n) := by
  have hw0 := ne_of_gt (hs.cf w hw)
  simp only [convertOne, toPhotlam, ofPhotlam, hw, reduceCtorEq, if_false, bind, Except.bind]
  have e : n / w * w = n := by field_simp
  rw [toMag_congr e, toMag_pos hn]

/-- Vega itself has VEGAMAG 0 at every wavelength -/
theorem vega_has_vegamag_zero (hT : T.Lawful) (hs : s.Pos) (v : K) (hv : s.vega = some v) :
    convertOne P T s .photlam .vegamag v = .ok 0 := by
  have hv0 := hs.vega v hv
  simp only [convertOne, toPhotlam, ofPhotlam, hv, reduceCtorEq, if_false, bind, Except.bind]
  rw [toMag_congr (div_self (ne_of_gt hv0)), toMag_pos one_pos, hT.log10_one, mul_zero]

/-! ## deepening: linearity and monotonicity -/

/-- between two linear (non-magnitude) units the conversion is multiplication by one positive
factor (which depends on the wavelength, the constants and — for count — the bin width × area) -/
theorem linear_units_scale (hP : P.Pos) (hT : T.Lawful) (hs : s.Pos) (a b : FluxUnit K)
    (ha : a.Pos) (hb : b.Pos) (ham : a.isMag = false) (hbm : b.isMag = false) {f0 y0 : K}
    (h0 : convertOne P T s a b f0 = .ok y0) :
    ∃ k, 0 < k ∧ ∀ f, convertOne P T s a b f = .ok (k * f) := by
  by_cases hab : a = b
  · subst hab
    exact ⟨1, one_pos, fun f => by unfold convertOne; rw [if_pos rfl, one_mul]⟩
  · obtain ⟨ka, kb, hka, hkb⟩ := convertOne_ok_factors hab h0
    refine ⟨ka / kb, div_pos (unitFactor_pos hP hs a ha hka) (unitFactor_pos hP hs b hb hkb), fun f => ?_⟩
    rw [convertOne_factor hP hT hs a b ha hb hka hkb f]
    simp only [hbm, Bool.false_eq_true, if_false, linVal, ham, mul_comm]

/-- linearity in the flux: a linear combination converts to the same linear combination -/
theorem convert_linear (hP : P.Pos) (hT : T.Lawful) (hs : s.Pos) (a b : FluxUnit K)
    (ha : a.Pos) (hb : b.Pos) (ham : a.isMag = false) (hbm : b.isMag = false) {f g y z : K} (α β : K)
    (h1 : convertOne P T s a b f = .ok y) (h2 : convertOne P T s a b g = .ok z) :
    convertOne P T s a b (α * f + β * g) = .ok (α * y + β * z) := by
  obtain ⟨k, _, hk⟩ := linear_units_scale hP hT hs a b ha hb ham hbm h1
  rw [hk] at h1 h2; injection h1 with h1; injection h2 with h2
  rw [hk, ← h1, ← h2]; congr 1; ring

/-- and it is strictly increasing: more flux in one linear unit is more flux in every linear unit -/
theorem convert_linear_strictMono (hP : P.Pos) (hT : T.Lawful) (hs : s.Pos) (a b : FluxUnit K)
    (ha : a.Pos) (hb : b.Pos) (ham : a.isMag = false) (hbm : b.isMag = false) {f g y z : K}
    (hfg : f < g) (h1 : convertOne P T s a b f = .ok y) (h2 : convertOne P T s a b g = .ok z) :
    y < z := by
  obtain ⟨k, hk0, hk⟩ := linear_units_scale hP hT hs a b ha hb ham hbm h1
  rw [hk] at h1 h2; injection h1 with h1; injection h2 with h2
  rw [← h1, ← h2]; exact mul_lt_mul_of_pos_left hfg hk0

/-- brighter ⇒ smaller magnitude: from a linear unit to a magnitude unit the conversion is strictly
decreasing (log₁₀ is strictly increasing on the positive numbers by the law `pow10_strictMono`). -/
theorem brighter_smaller_mag (hP : P.Pos) (hT : T.Lawful) (hs : s.Pos)
    (a b : FluxUnit K) (ha : a.Pos) (hb : b.Pos) (ham : a.isMag = false) (hbm : b.isMag = true)
    {f g m1 m2 : K} (hfg : f < g) (h1 : convertOne P T s a b f = .ok m1)
    (h2 : convertOne P T s a b g = .ok m2) : m2 < m1 := by
  have hab : a ≠ b := by rintro rfl; rw [ham] at hbm; cases hbm
  obtain ⟨ka, kb, hka, hkb⟩ := convertOne_ok_factors hab h1
  have hr : 0 < ka / kb := div_pos (unitFactor_pos hP hs a ha hka) (unitFactor_pos hP hs b hb hkb)
  rw [convertOne_factor hP hT hs a b ha hb hka hkb] at h1 h2
  simp only [hbm, if_true, linVal, ham, Bool.false_eq_true, if_false] at h1 h2
  exact toMag_strictAnti (logMono_of_lawful hT) (mul_lt_mul_of_pos_right hfg hr) h1 h2

/-- the other direction: a larger magnitude is a smaller flux in every linear unit -/
theorem larger_mag_fainter (hP : P.Pos) (hT : T.Lawful) (hs : s.Pos)
    (a b : FluxUnit K) (ha : a.Pos) (hb : b.Pos) (ham : a.isMag = true) (hbm : b.isMag = false)
    {m1 m2 y1 y2 : K} (hmm : m1 < m2) (h1 : convertOne P T s a b m1 = .ok y1)
    (h2 : convertOne P T s a b m2 = .ok y2) : y2 < y1 := by
  have hab : a ≠ b := by rintro rfl; rw [ham] at hbm; cases hbm
  obtain ⟨ka, kb, hka, hkb⟩ := convertOne_ok_factors hab h1
  have hr : 0 < ka / kb := div_pos (unitFactor_pos hP hs a ha hka) (unitFactor_pos hP hs b hb hkb)
  rw [convertOne_factor hP hT hs a b ha hb hka hkb] at h1 h2
  simp only [hbm, Bool.false_eq_true, if_false, linVal, ham, if_true] at h1 h2
  injection h1 with h1; injection h2 with h2
  rw [← h1, ← h2]; exact mul_lt_mul_of_pos_right (ofMag_strictAnti hT (logMono_of_lawful hT) hmm) hr

/-- at ℝ with the real functions no extra hypothesis is left: brighter ⇒ smaller magnitude -/
theorem brighter_smaller_mag_real {P : PhysConst ℝ} {s : Samp ℝ} (hP : P.Pos) (hs : s.Pos)
    (a b : FluxUnit ℝ) (ha : a.Pos) (hb : b.Pos) (ham : a.isMag = false) (hbm : b.isMag = true)
    {f g m1 m2 : ℝ} (hfg : f < g) (h1 : convertOne P Transc.real s a b f = .ok m1)
    (h2 : convertOne P Transc.real s a b g = .ok m2) : m2 < m1 :=
  brighter_smaller_mag hP Transc.real_lawful hs a b ha hb ham hbm hfg h1 h2

/-- and a larger magnitude is a smaller flux -/
theorem larger_mag_fainter_real {P : PhysConst ℝ} {s : Samp ℝ} (hP : P.Pos) (hs : s.Pos)
    (a b : FluxUnit ℝ) (ha : a.Pos) (hb : b.Pos) (ham : a.isMag = true) (hbm : b.isMag = false)
    {m1 m2 y1 y2 : ℝ} (hmm : m1 < m2) (h1 : convertOne P Transc.real s a b m1 = .ok y1)
    (h2 : convertOne P Transc.real s a b m2 = .ok y2) : y2 < y1 :=
  larger_mag_fainter hP Transc.real_lawful hs a b ha hb ham hbm hmm h1 h2

/-- between two magnitude systems the conversion adds a constant (at a given wavelength): in
particular it is strictly increasing and differences of magnitudes are the same in every system -/
theorem mag_to_mag_offset (hP : P.Pos) (hT : T.Lawful) (hs : s.Pos) (a b : FluxUnit K)
    (ha : a.Pos) (hb : b.Pos) (ham : a.isMag = true) (hbm : b.isMag = true) {m0 y0 : K}
    (h0 : convertOne P T s a b m0 = .ok y0) :
    ∃ d, ∀ m, convertOne P T s a b m = .ok (m + d) := by
  by_cases hab : a = b
  · subst hab
    exact ⟨0, fun m => by unfold convertOne; rw [if_pos rfl, add_zero]⟩
  · obtain ⟨ka, kb, hka, hkb⟩ := convertOne_ok_factors hab h0
    have hr : 0 < ka / kb := div_pos (unitFactor_pos hP hs a ha hka) (unitFactor_pos hP hs b hb hkb)
    refine ⟨-(5/2) * T.log10 (ka / kb), fun m => ?_⟩
    rw [convertOne_factor hP hT hs a b ha hb hka hkb m]
    simp only [hbm, if_true, linVal, ham]
    exact toMag_ofMag_mul hT m _ hr

/-- scaling a flux by `k > 0` shifts every magnitude of it by `−2.5 log₁₀ k` -/
theorem flux_scale_shifts_mag (hP : P.Pos) (hT : T.Lawful) (hs : s.Pos) (a b : FluxUnit K)
    (ha : a.Pos) (hb : b.Pos) (ham : a.isMag = false) (hbm : b.isMag = true) {f m k : K} (hk : 0 < k)
    (h : convertOne P T s a b f = .ok m) :
    convertOne P T s a b (k * f) = .ok (m + -(5/2) * T.log10 k) := by
  have hab : a ≠ b := by rintro rfl; rw [ham] at hbm; cases hbm
  obtain ⟨ka, kb, hka, hkb⟩ := convertOne_ok_factors hab h
  rw [convertOne_factor hP hT hs a b ha hb hka hkb] at h ⊢
  simp only [hbm, if_true, linVal, ham, Bool.false_eq_true, if_false] at h ⊢
  rw [mul_assoc]; exact toMag_mul hT hk h

/-! ## deepening: the same-unit shortcut and the error class of missing inputs -/

/-- identical units: the input is returned untouched, whatever else is (not) supplied -/
theorem same_unit_identity (a : FluxUnit K) (f : K) : convertOne P T s a a f = .ok f := by
  unfold convertOne; rw [if_pos rfl]

/-- array form: no wavelength validation, no area, no Vega spectrum is looked at -/
theorem convertFlux_same_unit (a : FluxUnit K) (w f : List K) (area : Option K) (vega : Option (List K)) :
    convertFlux P T w f a a area vega = .ok f := by
  unfold convertFlux; rw [if_pos rfl]

/-- the missing area is reported as `SynphotError` — by no other exception and never as a number -/
theorem needs_area_synphotError (a b : FluxUnit K) (hab : a ≠ b) (hs : s.countFactor = none)
    (hn : a.needsArea = true ∨ b.needsArea = true) (f : K) :
    convertOne P T s a b f = .error .synphotError := by
  unfold convertOne; rw [if_neg hab]
  cases hka : unitFactor P s a with
  | none => rw [(unitFactor_none (T := T) a hka f).1]; rfl
  | some ka =>
    rw [toPhotlam_factor a hka f]
    have hkb : unitFactor P s b = none := by
      rcases hn with hn | hn
      · have : unitFactor P s a = none := (unitFactor_none_iff a).mpr (Or.inl ⟨hn, hs⟩)
        rw [this] at hka; cases hka
      · exact (unitFactor_none_iff b).mpr (Or.inl ⟨hn, hs⟩)
    exact (unitFactor_none (T := T) b hkb _).2

/-- the missing Vega spectrum likewise -/
theorem needs_vega_synphotError (a b : FluxUnit K) (hab : a ≠ b) (hs : s.vega = none)
    (hn : a.needsVega = true ∨ b.needsVega = true) (f : K) :
    convertOne P T s a b f = .error .synphotError := by
  unfold convertOne; rw [if_neg hab]
  cases hka : unitFactor P s a with
  | none => rw [(unitFactor_none (T := T) a hka f).1]; rfl
  | some ka =>
    rw [toPhotlam_factor a hka f]
    have hkb : unitFactor P s b = none := by
      rcases hn with hn | hn
      · have : unitFactor P s a = none := (unitFactor_none_iff a).mpr (Or.inr ⟨hn, hs⟩)
        rw [this] at hka; cases hka
      · exact (unitFactor_none_iff b).mpr (Or.inr ⟨hn, hs⟩)
    exact (unitFactor_none (T := T) b hkb _).2

set_option linter.unnecessarySeqFocus false in
/-- conversely the only exceptions one sample can raise are `SynphotError` (missing input) and the
NaN of a magnitude of a non-positive flux -/
theorem convertOne_errors (a b : FluxUnit K) (f : K) (e : Err)
    (h : convertOne P T s a b f = .error e) : e = .synphotError ∨ (e = .nan ∧ b.isMag = true) := by
  unfold convertOne at h
  split_ifs at h with hab
  cases hp : toPhotlam P T s a f with
  | error e' =>
    rw [hp] at h; injection h with h; subst h
    left
    cases a <;> simp only [toPhotlam] at hp <;> first
      | (cases hp)
      | (cases hc : s.countFactor <;> rw [hc] at hp <;> cases hp <;> rfl)
      | (cases hc : s.vega <;> rw [hc] at hp <;> cases hp <;> rfl)
  | ok p =>
    rw [hp] at h
    replace h : ofPhotlam P T s b p = .error e := h
    have htm : ∀ x, toMag T x = .error e → e = .nan := by
      intro x hx; unfold toMag at hx; split_ifs at hx; injection hx with hx; exact hx.symm
    cases b <;> simp only [ofPhotlam] at h <;> first
      | (cases h)
      | (exact Or.inr ⟨htm _ h, rfl⟩)
      | (cases hc : s.countFactor <;> rw [hc] at h <;> first
          | (injection h with h; exact Or.inl h.symm) | (cases h) | (exact Or.inr ⟨htm _ h, rfl⟩))
      | (cases hc : s.vega <;> rw [hc] at h <;> first
          | (injection h with h; exact Or.inl h.symm) | (exact Or.inr ⟨htm _ h, rfl⟩))

/-! ## deepening: count factors -/

/-- `spectral_density_count` returns factors exactly for at least two valid wavelengths
(positive, strictly monotone in either direction) -/
theorem countFactors_ok_iff (w : List K) (area : K) :
    (∃ cf, countFactors w area = .ok cf) ↔ (2 ≤ w.length ∧ validateWavelengths w = .ok ()) := by
  constructor
  · rintro ⟨cf, h⟩
    obtain ⟨h2, hv, _⟩ := countFactors_ok h
    exact ⟨h2, hv⟩
  · rintro ⟨h2, hv⟩
    obtain ⟨e, he⟩ := (binEdges_ok_iff w).mpr h2
    have hl := C01x.binEdges_length w e he
    have hbw : binWidths e = .ok (absDiffs e) := by unfold binWidths; rw [if_neg (by omega)]
    exact ⟨_, countFactors_def w e _ area hv he hbw⟩

/-- one factor per wavelength -/
theorem countFactors_length (w cf : List K) (area : K) (h : countFactors w area = .ok cf) :
    cf.length = w.length := by
  obtain ⟨h2, _, e, he, rfl⟩ := countFactors_ok h
  rw [List.length_map, absDiffs_length, C01x.binEdges_length w e he]; omega

/-- the factors (bin width × area) are positive for every validated wavelength array, ascending
or descending, and every positive area -/
theorem countFactors_pos (w cf : List K) (area : K) (harea : 0 < area)
    (h : countFactors w area = .ok cf) : ∀ x ∈ cf, 0 < x := by
  obtain ⟨h2, hv, e, he, rfl⟩ := countFactors_ok h
  have hmono := ((validate_ok_iff w).mp hv).2
  intro x hx
  rw [List.mem_map] at hx
  obtain ⟨d, hd, rfl⟩ := hx
  have hdpos : 0 < d := by
    rcases hmono with hc | hc
    · exact absDiffs_pos_of_strictAsc e (binEdges_strictAsc w e hc he) d hd
    · exact absDiffs_pos_of_strictDesc e (binEdges_strictDesc w e hc he) d hd
  exact mul_pos hdpos harea

/-- order-equivariance: the reversed wavelengths get the reversed factors (same bins), and fail
exactly when the original fails, with the same exception -/
theorem countFactors_reverse (w : List K) (area : K) :
    countFactors w.reverse area = (countFactors w area).map List.reverse :=
  countFactors_rev w area

/-- the factors scale with the area -/
theorem countFactors_area (w cf : List K) (area k : K) (h : countFactors w area = .ok cf) :
    countFactors w (k * area) = .ok (cf.map (k * ·)) := by
  obtain ⟨h2, hv, e, he, rfl⟩ := countFactors_ok h
  have hl := C01x.binEdges_length w e he
  have hbw : binWidths e = .ok (absDiffs e) := by unfold binWidths; rw [if_neg (by omega)]
  rw [countFactors_def w e _ (k * area) hv he hbw, List.map_map]
  congr 1
  apply List.map_congr_left
  intro d _; simp only [Function.comp]; ring

/-! ## deepening: the array form -/

/-- the positivity the array theorems assume of the inputs: positive wavelengths, area and Vega fluxes -/
structure InputsPos (w : List K) (area : Option K) (vega : Option (List K)) : Prop where
  wave : ∀ x ∈ w, 0 < x
  area : ∀ A, area = some A → 0 < A
  vega : ∀ l, vega = some l → ∀ x ∈ l, 0 < x

theorem samples_pos {w : List K} {area : Option K} {vega : Option (List K)} (hi : InputsPos w area vega)
    {a b : FluxUnit K} {cf : Option (List K)} (hcf : countFactorsFor w a b area = .ok cf) :
    ∀ s ∈ mkSamples w cf vega, s.Pos := by
  apply mkSamples_pos w cf vega hi.wave _ hi.vega
  intro l hl
  rcases countFactorsFor_ok hcf with ⟨h, _⟩ | ⟨A, l', hA, _, hc, h⟩
  · rw [h] at hl; cases hl
  · rw [h] at hl; injection hl with hl; subst hl
    exact countFactors_pos w l' A (hi.area A hA) hc

/-- A→B→A is the identity for arrays: `convert_flux(w, convert_flux(w, f, B), A) = f`, with the
same area and Vega spectrum, whenever the first call returns (all unit pairs; ascending or descending
wavelengths) -/
theorem convertFlux_roundtrip (hP : P.Pos) (hT : T.Lawful) (a b : FluxUnit K) (ha : a.Pos) (hb : b.Pos)
    (w f g : List K) (area : Option K) (vega : Option (List K)) (hi : InputsPos w area vega)
    (hl : f.length ≤ w.length) (h : convertFlux P T w f a b area vega = .ok g) :
    convertFlux P T w g b a area vega = .ok f := by
  unfold convertFlux at h ⊢
  by_cases hab : a = b
  · subst hab; rw [if_pos rfl] at h ⊢; injection h with h; subst h; rfl
  · have hba : ¬ b = a := fun e => hab e.symm
    rw [if_neg hab] at h; rw [if_neg hba]
    rw [countFactorsFor_comm w b a]
    cases hcf : countFactorsFor w a b area with
    | error e => rw [hcf] at h; cases h
    | ok cf =>
      rw [hcf] at h
      replace h : convertAll P T a b (mkSamples w cf vega) f = .ok g := h
      show convertAll P T b a (mkSamples w cf vega) g = .ok f
      have hpos := samples_pos hi hcf
      have hz := convertAll_chain (P := P) (T := T) (a := a) (b := b) (c := b) (d := a) (e := a) (f' := a)
        Samp.Pos (fun s x y z hs h1 h2 => by
          have := convert_roundtrip hP hT hs a b ha hb h1
          rw [this] at h2; injection h2 with h2; subst h2
          exact same_unit_identity a x) (mkSamples w cf vega) f g
      cases hg : convertAll P T b a (mkSamples w cf vega) g with
      | error e =>
        -- element by element the way back succeeds
        exfalso
        have hlen : g.length = f.length :=
          convertAll_length _ f g (by rw [mkSamples_length]; exact hl) h
        have : ∀ (ss : List (Samp K)) (f g : List K), (∀ s ∈ ss, s.Pos) →
            convertAll P T a b ss f = .ok g → ∃ f', convertAll P T b a ss g = .ok f' := by
          intro ss
          induction ss with
          | nil => intro f g _ _; exact ⟨[], convertAll_nil_left _ _ _⟩
          | cons s ss ih =>
            intro f g hp h
            cases f with
            | nil =>
              rw [convertAll_nil_right] at h; injection h with h; subst h
              exact ⟨[], convertAll_nil_right _ _ _⟩
            | cons x xs =>
              obtain ⟨y, ys, h1, h2, rfl⟩ := convertAll_cons_ok h
              obtain ⟨f', hf'⟩ := ih xs ys (fun s' hs' => hp s' (by simp [hs'])) h2
              exact ⟨x :: f', convertAll_cons_of
                (convert_roundtrip hP hT (hp s (by simp)) a b ha hb h1) hf'⟩
        obtain ⟨f', hf'⟩ := this _ f g hpos h
        rw [hf'] at hg; cases hg
      | ok f' =>
        have h3 := hz f' hpos h hg
        rw [convertAll_same a _ f (by rw [mkSamples_length]; exact hl)] at h3
        injection h3 with h3; rw [h3]

/-- A→C→B = A→B for arrays, for every intermediate unit C for which both hops return -/
theorem convertFlux_path_indep (hP : P.Pos) (hT : T.Lawful) (a b c : FluxUnit K)
    (ha : a.Pos) (hb : b.Pos) (hc : c.Pos) (w f y z : List K) (area : Option K)
    (vega : Option (List K)) (hi : InputsPos w area vega) (hl : f.length ≤ w.length)
    (h1 : convertFlux P T w f a c area vega = .ok y) (h2 : convertFlux P T w y c b area vega = .ok z) :
    convertFlux P T w f a b area vega = .ok z := by
  by_cases hac : a = c
  · subst hac
    rw [convertFlux_same_unit] at h1; injection h1 with h1; subst h1; exact h2
  by_cases hcb : c = b
  · subst hcb
    rw [convertFlux_same_unit] at h2; injection h2 with h2; subst h2; exact h1
  by_cases hab : a = b
  · subst hab
    rw [convertFlux_roundtrip hP hT a c ha hc w f y area vega hi hl h1] at h2
    injection h2 with h2; subst h2; exact convertFlux_same_unit a w f area vega
  unfold convertFlux at h1 h2 ⊢
  rw [if_neg hac] at h1; rw [if_neg hcb] at h2; rw [if_neg hab]
  cases hcf1 : countFactorsFor w a c area with
  | error e => rw [hcf1] at h1; cases h1
  | ok cf1 =>
  cases hcf2 : countFactorsFor w c b area with
  | error e => rw [hcf2] at h2; cases h2
  | ok cf2 =>
  rw [hcf1] at h1; rw [hcf2] at h2
  replace h1 : convertAll P T a c (mkSamples w cf1 vega) f = .ok y := h1
  replace h2 : convertAll P T c b (mkSamples w cf2 vega) y = .ok z := h2
  -- the fullest count factors any of the three calls has at hand
  have key : ∀ cf : Option (List K), (∀ s ∈ mkSamples w cf vega, s.Pos) →
      convertAll P T a c (mkSamples w cf vega) f = .ok y →
      convertAll P T c b (mkSamples w cf vega) y = .ok z →
      convertAll P T a b (mkSamples w cf vega) f = .ok z := fun cf hpos h1 h2 =>
    convertAll_chain (P := P) (T := T) Samp.Pos
      (fun s x y z hs h1 h2 => convert_path_indep hP hT hs a b c ha hb hc h1 h2) _ f y z hpos h1 h2
  have nb : ∀ u : FluxUnit K, u.needsArea = false ∨ u.needsArea = true := fun u => by
    cases u.needsArea <;> simp
  -- without an area no call has count factors
  cases harea : area with
  | none =>
    subst harea
    have e1 : cf1 = none := by
      rcases countFactorsFor_ok hcf1 with ⟨h, _⟩ | ⟨A, _, hA, _⟩
      · exact h
      · cases hA
    have e2 : cf2 = none := by
      rcases countFactorsFor_ok hcf2 with ⟨h, _⟩ | ⟨A, _, hA, _⟩
      · exact h
      · cases hA
    have e3 : countFactorsFor w a b (none : Option K) = .ok none := by
      unfold countFactorsFor; split_ifs <;> rfl
    subst e1; subst e2
    rw [e3]
    exact key none (samples_pos hi hcf1) h1 h2
  | some A =>
    subst harea
    by_cases hany : a.needsArea = true ∨ b.needsArea = true ∨ c.needsArea = true
    · -- some call computed the factors `l`
      have hl' : ∃ l, countFactors w A = .ok l := by
        rcases hany with h | h | h
        · rcases countFactorsFor_ok hcf1 with ⟨_, h' | h'⟩ | ⟨A', l, hA, _, hc', _⟩
          · rw [h] at h'; cases h'.1
          · cases h'
          · injection hA with hA; subst hA; exact ⟨l, hc'⟩
        · rcases countFactorsFor_ok hcf2 with ⟨_, h' | h'⟩ | ⟨A', l, hA, _, hc', _⟩
          · rw [h] at h'; cases h'.2
          · cases h'
          · injection hA with hA; subst hA; exact ⟨l, hc'⟩
        · rcases countFactorsFor_ok hcf1 with ⟨_, h' | h'⟩ | ⟨A', l, hA, _, hc', _⟩
          · rw [h] at h'; cases h'.2
          · cases h'
          · injection hA with hA; subst hA; exact ⟨l, hc'⟩
      obtain ⟨l, hcl⟩ := hl'
      have hposl : ∀ s ∈ mkSamples w (some l) vega, s.Pos :=
        mkSamples_pos w (some l) vega hi.wave
          (fun l' hl' => by injection hl' with hl'; subst hl'; exact countFactors_pos w l A (hi.area A rfl) hcl)
          hi.vega
      -- every call's samples may be replaced by the full ones
      have full : ∀ (u v : FluxUnit K) (cf : Option (List K)) (x : List K),
          countFactorsFor w u v (some A) = .ok cf →
          convertAll P T u v (mkSamples w cf vega) x = convertAll P T u v (mkSamples w (some l) vega) x := by
        intro u v cf x hcf
        rcases countFactorsFor_ok hcf with ⟨h, h' | h'⟩ | ⟨A', l', hA, _, hc', h⟩
        · subst h; exact convertAll_cf_irrel u v h'.1 h'.2 w none (some l) vega x
        · cases h'
        · injection hA with hA; subst hA
          rw [hcl] at hc'; injection hc' with hc'; subst hc'; rw [h]
      cases hcf3 : countFactorsFor w a b (some A) with
      | error e =>
        exfalso
        unfold countFactorsFor at hcf3
        split_ifs at hcf3
        · replace hcf3 : Except.map some (countFactors w A) = .error e := hcf3
          rw [hcl] at hcf3; cases hcf3
        · cases hcf3
      | ok cf3 =>
        show convertAll P T a b (mkSamples w cf3 vega) f = .ok z
        rw [full a b cf3 f hcf3]
        rw [full a c cf1 f hcf1] at h1
        rw [full c b cf2 y hcf2] at h2
        exact key (some l) hposl h1 h2
    · -- no unit needs the area
      simp only [not_or, Bool.not_eq_true] at hany
      have e : ∀ u v : FluxUnit K, u.needsArea = false → v.needsArea = false →
          countFactorsFor w u v (some A) = .ok none := by
        intro u v hu hv; unfold countFactorsFor; rw [hu, hv]; rfl
      rw [e a c hany.1 hany.2.2] at hcf1; rw [e c b hany.2.2 hany.2.1] at hcf2
      injection hcf1 with hcf1; injection hcf2 with hcf2; subst hcf1; subst hcf2
      rw [e a b hany.1 hany.2.1]
      exact key none (mkSamples_pos w none vega hi.wave (fun l hl => by cases hl) hi.vega) h1 h2

/-- order-equivariance of the whole conversion: descending wavelengths (with the fluxes and the Vega
fluxes in the same, reversed order) give the reversed result of the ascending call — count factors,
Vega ratios and all -/
theorem convertFlux_reverse (a b : FluxUnit K) (w f g : List K) (area : Option K) (vega : Option (List K))
    (hl : f.length = w.length) (hvl : ∀ l, vega = some l → l.length = w.length)
    (h : convertFlux P T w f a b area vega = .ok g) :
    convertFlux P T w.reverse f.reverse a b area (vega.map List.reverse) = .ok g.reverse := by
  unfold convertFlux at h ⊢
  by_cases hab : a = b
  · rw [if_pos hab] at h ⊢; injection h with h; rw [h]
  · rw [if_neg hab] at h ⊢
    rw [countFactorsFor_reverse]
    cases hcf : countFactorsFor w a b area with
    | error e => rw [hcf] at h; cases h
    | ok cf =>
      rw [hcf] at h
      replace h : convertAll P T a b (mkSamples w cf vega) f = .ok g := h
      show convertAll P T a b (mkSamples w.reverse (cf.map List.reverse) (vega.map List.reverse)) f.reverse
        = .ok g.reverse
      have hcl : ∀ l, cf = some l → l.length = w.length := by
        intro l hl'
        rcases countFactorsFor_ok hcf with ⟨h0, _⟩ | ⟨A, l', _, _, hc, h0⟩
        · rw [h0] at hl'; cases hl'
        · rw [h0] at hl'; injection hl' with hl'; subst hl'
          exact countFactors_length w l' A hc
      rw [mkSamples_reverse w cf vega hcl hvl]
      have hlen : f.length = (mkSamples w cf vega).length := by rw [mkSamples_length]; exact hl
      rw [convertAll_iff_forall₂ a b _ _ _ (by simpa using hlen)]
      rw [convertAll_iff_forall₂ a b _ _ _ hlen] at h
      rw [List.zip_eq_zipWith, ← List.reverse_zipWith hlen.symm, ← List.zip_eq_zipWith]
      exact List.rel_reverse h


/-- every element of the result is the one-sample conversion at its own wavelength: any
element-wise law of `convertOne` (closed forms, linearity, monotonicity) holds along the arrays -/
theorem convertFlux_elementwise (a b : FluxUnit K) (hab : a ≠ b) (w f g : List K) (area : Option K)
    (vega : Option (List K)) (hl : f.length ≤ w.length) (R : Samp K → K → K → Prop)
    (hR : ∀ s x y, convertOne P T s a b x = .ok y → R s x y)
    (h : convertFlux P T w f a b area vega = .ok g) :
    g.length = f.length ∧
    ∃ cf, countFactorsFor w a b area = .ok cf ∧
      List.Forall₂ (fun x y => ∃ s ∈ mkSamples w cf vega, R s x y) f g := by
  unfold convertFlux at h
  rw [if_neg hab] at h
  cases hcf : countFactorsFor w a b area with
  | error e => rw [hcf] at h; cases h
  | ok cf =>
    rw [hcf] at h
    replace h : convertAll P T a b (mkSamples w cf vega) f = .ok g := h
    have hl' : f.length ≤ (mkSamples w cf vega).length := by rw [mkSamples_length]; exact hl
    exact ⟨convertAll_length _ f g hl' h, cf, rfl, convertAll_forall₂ R hR _ f g hl' h⟩

/-! ## deepening: unit names -/

/-- every name of the table regenerated from `validate_unit` is accepted in any letter case and
resolves to the unit of its own entry, whatever astropy makes of the string -/
theorem unit_table_any_case (astro : Astro) :
    ∀ p ∈ Generated.unitNameTable, ∀ s : String, s.toLower = p.1 →
      validateUnit astro (.str s) = .ok p.2 :=
  fun p hp s hs => validateUnit_of_table astro s p.1 p.2 hs (unitNameTable_lookup_self p hp)

/-- the flux-unit names of the property (and the `mag(..)` spellings) denote, in any letter case,
the flux unit of that name -/
theorem flux_unit_names (astro : Astro) :
    ∀ p ∈ (fluxNameTable : List (String × FluxUnit K)), ∀ s : String, s.toLower = p.1 →
      ∃ id, validateUnit astro (.str s) = .ok id ∧ fluxUnitOfId id = some p.2 := by
  intro p hp s hs
  have key : ∀ (n id : String) (u : FluxUnit K), Generated.unitNameTable.lookup n = some id →
      fluxUnitOfId id = some u → s.toLower = n →
      ∃ id, validateUnit astro (.str s) = .ok id ∧ fluxUnitOfId id = some u :=
    fun n id u h1 h2 hs => ⟨id, validateUnit_of_table astro s n id hs h1, h2⟩
  simp only [fluxNameTable, List.mem_cons, List.not_mem_nil, or_false] at hp
  rcases hp with rfl | rfl | rfl | rfl | rfl | rfl | rfl | rfl | rfl | rfl | rfl | rfl | rfl
  · exact key "photlam" "PHOTLAM" _ (by decide) rfl hs
  · exact key "photnu" "PHOTNU" _ (by decide) rfl hs
  · exact key "flam" "FLAM" _ (by decide) rfl hs
  · exact key "fnu" "FNU" _ (by decide) rfl hs
  · exact key "jy" "Jy" _ (by decide) rfl hs
  · exact key "stmag" "mag(ST)" _ (by decide) rfl hs
  · exact key "abmag" "mag(AB)" _ (by decide) rfl hs
  · exact key "obmag" "mag(OB)" _ (by decide) rfl hs
  · exact key "vegamag" "mag(VEGA)" _ (by decide) rfl hs
  · exact key "mag(st)" "mag(ST)" _ (by decide) rfl hs
  · exact key "mag(ab)" "mag(AB)" _ (by decide) rfl hs
  · exact key "mag(ob)" "mag(OB)" _ (by decide) rfl hs
  · exact key "mag(vega)" "mag(VEGA)" _ (by decide) rfl hs

/-! ## non-vacuity of the deepened theorems (ℝ with the real functions; `exP`: h = 1, c = 2, zero
points 1, 1 Jy = 1/10 FNU; `exS`: λ = 2, count factor 3, Vega flux 5) -/
section examples
open Transc

example : convertOne exP real exS .photlam .flam 4 = ofPhotlam exP real exS .flam 4 :=
  (photlam_hub .flam (by simp) 4).1
example : ofPhotlam exP real exS .fnu 4 = .ok (4 * 1 * 2) := fnu_closed exP_pos exS_pos 4
example : convertOne exP real exS .flam .fnu 3 = .ok (3 * 2 ^ 2 / 2) := flam_to_fnu exP_pos exS_pos 3
example : convertOne exP real exS .photnu .fnu 3 = .ok (3 * (1 * 2) / 2) := photnu_to_fnu exP_pos exS_pos 3
example : ofPhotlam exP real exS (.jy 2) 3 = .ok (3 * (1 * 2) / 2 * 2 ^ 2 / 2 / (2 * (1/10))) := jy_def 2 3
example : convertOne exP real exS .fnu (.jy 2) 3 = .ok (3 / (2 * (1/10))) :=
  (fnu_jy_scale exP_pos exS_pos 2 (by norm_num) 3).1
example : convertOne exP real exS .flam .stmag 10 = .ok (-(5/2) * real.log10 10 - 0) :=
  flam_to_stmag exP_pos real_lawful exS_pos 0 exP_stZero 10 (by norm_num)
example : convertOne exP real exS .fnu .abmag 10 = .ok (-(5/2) * real.log10 10 - 0) :=
  fnu_to_abmag exP_pos real_lawful exS_pos 0 exP_abZero 10 (by norm_num)
example : convertOne exP real exS .count .obmag 7 = .ok (-(5/2) * real.log10 7) :=
  count_to_obmag exS_pos 3 rfl 7 (by norm_num)
example : convertOne exP real exS .photlam .vegamag 5 = .ok 0 :=
  vega_has_vegamag_zero real_lawful exS_pos 5 rfl

/-- linear units: FLAM → FNU at λ = 2, c = 2 doubles the value -/
example : ∃ k : ℝ, 0 < k ∧ ∀ f, convertOne exP real exS .flam .fnu f = .ok (k * f) :=
  linear_units_scale exP_pos real_lawful exS_pos .flam .fnu trivial trivial rfl rfl
    (flam_to_fnu exP_pos exS_pos 3)
example : convertOne exP real exS .flam .fnu (2 * 3 + 7 * 5) = .ok (2 * (3 * 2 ^ 2 / 2) + 7 * (5 * 2 ^ 2 / 2)) :=
  convert_linear exP_pos real_lawful exS_pos .flam .fnu trivial trivial rfl rfl 2 7
    (flam_to_fnu exP_pos exS_pos 3) (flam_to_fnu exP_pos exS_pos 5)
example : (3 : ℝ) * 2 ^ 2 / 2 < 5 * 2 ^ 2 / 2 :=
  convert_linear_strictMono exP_pos real_lawful exS_pos .flam .fnu trivial trivial rfl rfl
    (by norm_num : (3 : ℝ) < 5) (flam_to_fnu exP_pos exS_pos 3) (flam_to_fnu exP_pos exS_pos 5)

/-- ten times the flux: a smaller STmag -/
example : -(5/2) * real.log10 10 - 0 < -(5/2) * real.log10 1 - 0 :=
  brighter_smaller_mag exP_pos real_lawful exS_pos .flam .stmag trivial trivial rfl rfl
    (by norm_num : (1 : ℝ) < 10)
    (flam_to_stmag exP_pos real_lawful exS_pos 0 exP_stZero 1 (by norm_num))
    (flam_to_stmag exP_pos real_lawful exS_pos 0 exP_stZero 10 (by norm_num))

/-- and back: the larger of these two magnitudes is the smaller flux -/
example : (1 : ℝ) < 10 := by
  have h1 := flam_to_stmag exP_pos real_lawful exS_pos 0 exP_stZero 1 (by norm_num)
  have h10 := flam_to_stmag exP_pos real_lawful exS_pos 0 exP_stZero 10 (by norm_num)
  have hlt := brighter_smaller_mag exP_pos real_lawful exS_pos .flam .stmag trivial trivial
    rfl rfl (by norm_num : (1 : ℝ) < 10) h1 h10
  exact larger_mag_fainter exP_pos real_lawful exS_pos .stmag .flam trivial trivial rfl rfl hlt
    (convert_roundtrip exP_pos real_lawful exS_pos .flam .stmag trivial trivial h10)
    (convert_roundtrip exP_pos real_lawful exS_pos .flam .stmag trivial trivial h1)

example : -(5/2) * real.log10 10 - 0 < -(5/2) * real.log10 1 - 0 :=
  brighter_smaller_mag_real exP_pos exS_pos .flam .stmag trivial trivial rfl rfl (by norm_num : (1 : ℝ) < 10)
    (flam_to_stmag exP_pos real_lawful exS_pos 0 exP_stZero 1 (by norm_num))
    (flam_to_stmag exP_pos real_lawful exS_pos 0 exP_stZero 10 (by norm_num))
example : (1 : ℝ) < 10 := by
  have h1 := flam_to_stmag exP_pos real_lawful exS_pos 0 exP_stZero 1 (by norm_num)
  have h10 := flam_to_stmag exP_pos real_lawful exS_pos 0 exP_stZero 10 (by norm_num)
  exact larger_mag_fainter_real exP_pos exS_pos .stmag .flam trivial trivial rfl rfl
    (brighter_smaller_mag_real exP_pos exS_pos .flam .stmag trivial trivial rfl rfl (by norm_num : (1 : ℝ) < 10) h1 h10)
    (convert_roundtrip exP_pos real_lawful exS_pos .flam .stmag trivial trivial h10)
    (convert_roundtrip exP_pos real_lawful exS_pos .flam .stmag trivial trivial h1)

example : ∃ d : ℝ, ∀ m, convertOne exP real exS .stmag .abmag m = .ok (m + d) := by
  obtain ⟨y, hy⟩ := mag_to_mag_defined exP_pos real_lawful exS_pos .stmag .abmag trivial trivial rfl rfl
    rfl rfl 0
  exact mag_to_mag_offset exP_pos real_lawful exS_pos .stmag .abmag trivial trivial rfl rfl hy

example : convertOne exP real exS .flam .stmag (100 * 10) =
    .ok (-(5/2) * real.log10 10 - 0 + -(5/2) * real.log10 100) :=
  flux_scale_shifts_mag exP_pos real_lawful exS_pos .flam .stmag trivial trivial rfl rfl (by norm_num)
    (flam_to_stmag exP_pos real_lawful exS_pos 0 exP_stZero 10 (by norm_num))

/-- same unit: count → count without an area, on a sample that has none -/
example : convertOne exP real exS0 .count .count 7 = .ok 7 := same_unit_identity .count 7
example : convertFlux exP real [3, 1, 2] [7, 8, 9] .obmag .obmag none none = .ok [7, 8, 9] :=
  convertFlux_same_unit .obmag _ _ none none
example : convertOne exP real exS0 .photlam .count 7 = .error .synphotError :=
  needs_area_synphotError .photlam .count (by simp) rfl (Or.inr rfl) 7
example : convertOne exP real exS0 .vegamag .flam 7 = .error .synphotError :=
  needs_vega_synphotError .vegamag .flam (by simp) rfl (Or.inl rfl) 7
example : Err.synphotError = .synphotError ∨ (Err.synphotError = .nan ∧ (FluxUnit.count : FluxUnit ℝ).isMag = true) :=
  convertOne_errors .photlam .count 7 _
    (needs_area_synphotError (P := exP) (T := real) (s := exS0) .photlam .count (by simp) rfl (Or.inr rfl) 7)

/-- count factors of the wavelengths 1, 2, 4 with area 2 (`exCF`) -/
example : (∃ cf, countFactors ([1, 2, 4] : List ℚ) 2 = .ok cf) ↔
    (2 ≤ ([1, 2, 4] : List ℚ).length ∧ validateWavelengths ([1, 2, 4] : List ℚ) = .ok ()) :=
  countFactors_ok_iff _ 2
example : ([2, 3, 4] : List ℚ).length = ([1, 2, 4] : List ℚ).length :=
  countFactors_length _ _ 2 exCF
example : ∀ x ∈ ([2, 3, 4] : List ℚ), 0 < x := countFactors_pos [1, 2, 4] _ 2 (by norm_num) exCF
example : countFactors ([4, 2, 1] : List ℚ) 2 = .ok [4, 3, 2] := by
  have h := countFactors_reverse ([1, 2, 4] : List ℚ) 2
  rw [exCF] at h; exact h
example : countFactors ([1, 2, 4] : List ℚ) (5 * 2) = .ok [5 * 2, 5 * 3, 5 * 4] :=
  countFactors_area _ _ 2 5 exCF

/-- arrays: PHOTLAM → count → PHOTLAM on the wavelengths 1, 2, 4 with area 2 -/
theorem exInputs : InputsPos ([1, 2, 4] : List ℝ) (some 2) none :=
  ⟨by intro x hx; simp at hx; rcases hx with rfl | rfl | rfl <;> norm_num,
   by intro A hA; injection hA with hA; subst hA; norm_num, by intro l hl; cases hl⟩

theorem exCounts : convertFlux exP real [1, 2, 4] [1, 1, 1] .photlam .count (some 2) none = .ok [1 * 2, 1 * 3, 1 * 4] := by
  have : countFactorsFor ([1, 2, 4] : List ℝ) .photlam .count (some 2) = .ok (some [2, 3, 4]) := by
    simp [countFactorsFor, FluxUnit.needsArea, exCF, Except.map]
  simp [convertFlux, this, bind, Except.bind, mkSamples, convertAll, convertOne, toPhotlam, ofPhotlam,
    pure, Except.pure]

example : convertFlux exP real [1, 2, 4] [1 * 2, 1 * 3, 1 * 4] .count .photlam (some 2) none = .ok [1, 1, 1] :=
  convertFlux_roundtrip exP_pos real_lawful .photlam .count trivial trivial _ _ _ _ _ exInputs (by simp) exCounts

/-- PHOTLAM → count → FLAM = PHOTLAM → FLAM (the direct call computes no count factors at all) -/
example (y : List ℝ)
    (h2 : convertFlux exP real [1, 2, 4] [1 * 2, 1 * 3, 1 * 4] .count .flam (some 2) none = .ok y) :
    convertFlux exP real [1, 2, 4] [1, 1, 1] .photlam .flam (some 2) none = .ok y :=
  convertFlux_path_indep exP_pos real_lawful .photlam .flam .count trivial trivial trivial _ _ _ _ _ _
    exInputs (by simp) exCounts h2
example : convertFlux exP real [1, 2, 4] [1 * 2, 1 * 3, 1 * 4] .count .flam (some 2) none =
    .ok [1 * 2 / 2 * (1 * 2) / 1, 1 * 3 / 3 * (1 * 2) / 2, 1 * 4 / 4 * (1 * 2) / 4] := by
  have : countFactorsFor ([1, 2, 4] : List ℝ) .count .flam (some 2) = .ok (some [2, 3, 4]) := by
    simp [countFactorsFor, FluxUnit.needsArea, exCF, Except.map]
  simp [convertFlux, this, bind, Except.bind, mkSamples, convertAll, convertOne, toPhotlam, ofPhotlam,
    pure, Except.pure, exP]

/-- descending wavelengths: the reversed counts -/
example : convertFlux exP real [4, 2, 1] [1, 1, 1] .photlam .count (some 2) none = .ok [1 * 4, 1 * 3, 1 * 2] :=
  convertFlux_reverse .photlam .count [1, 2, 4] [1, 1, 1] _ (some 2) none rfl (by intro l hl; cases hl) exCounts

/-- every count is positive where the flux is (an element-wise law along the arrays) -/
example : ([1 * 2, 1 * 3, 1 * 4] : List ℝ).length = ([1, 1, 1] : List ℝ).length :=
  (convertFlux_elementwise (P := exP) (T := real) .photlam .count (by simp) [1, 2, 4] [1, 1, 1] _ (some 2) none
    (by simp) (fun _ _ _ => True) (fun _ _ _ _ => trivial) exCounts).1

/-- names: any letter case -/
example (astro : Astro) : validateUnit astro (.str "InverseMicrons") = .ok "1 / micron" :=
  unit_table_any_case astro ("inversemicrons", "1 / micron") (by decide) "InverseMicrons" (by decide +kernel)
example (astro : Astro) : ∃ id, validateUnit astro (.str "VegaMag") = .ok id ∧
    fluxUnitOfId (K := ℚ) id = some .vegamag :=
  flux_unit_names astro ("vegamag", .vegamag) (by simp [fluxNameTable]) "VegaMag" (by decide +kernel)

end examples

end Synphot.C01
