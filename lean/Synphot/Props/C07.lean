/-
  C07 — Binning conserves flux; compiled and pure-Python bin integrators agree.

  `calcbinfluxC` is the C loop of src/synphot_utils.c, `calcbinfluxPy` the NumPy fallback,
  `initBins` is `Observation._init_bins`, `sampleBinned` is `sample_binned`.  Bin-edge geometry
  (midpoints, symmetric outer bins) is `Synphot.C18.edges_spec`.
-/
import Synphot.Lemmas.BinFlux
import Synphot.Lemmas.C07x
import Synphot.Props.C18

set_option linter.unusedSectionVars false
set_option linter.unusedVariables false
set_option linter.unusedSimpArgs false

namespace Synphot.C07
open Synphot
variable {K : Type} [Field K] [LinearOrder K] [IsStrictOrderedRing K]

/-! ### the two integrators -/

/-- whenever the compiled loop returns arrays, the Python fallback returns the same arrays -/
theorem c_ok_then_py_same (ibeg iend : List Nat) (avflux deltaw : List K) (r : List K × List K)
    (h : calcbinfluxC ibeg iend avflux deltaw = .ok r) :
    calcbinfluxPy ibeg iend avflux deltaw = .ok r := by
  rw [calcbinfluxC_eq] at h
  rw [calcbinfluxPy_eq]
  cases hm : (ibeg.zip iend).mapM (binOne .zeroDivision avflux deltaw) with
  | error e => rw [hm] at h; cases h
  | ok rs =>
    rw [hm] at h
    rw [mapM_ok_congr _ _ _ rs (fun a b => binOne_ok_indep .zeroDivision .nan avflux deltaw a b) hm]
    exact h

/-- … and conversely: on every consistent index set over non-zero-width segments the two
implementations return identical arrays (they differ only in how they fail on a zero-width bin:
`ZeroDivisionError` vs NaN) -/
theorem py_ok_then_c_same (ibeg iend : List Nat) (avflux deltaw : List K) (r : List K × List K)
    (h : calcbinfluxPy ibeg iend avflux deltaw = .ok r) :
    calcbinfluxC ibeg iend avflux deltaw = .ok r := by
  rw [calcbinfluxPy_eq] at h
  rw [calcbinfluxC_eq]
  cases hm : (ibeg.zip iend).mapM (binOne .nan avflux deltaw) with
  | error e => rw [hm] at h; cases h
  | ok rs =>
    rw [hm] at h
    rw [mapM_ok_congr _ _ _ rs (fun a b => binOne_ok_indep .nan .zeroDivision avflux deltaw a b) hm]
    exact h

theorem impls_agree (ibeg iend : List Nat) (avflux deltaw : List K) (r : List K × List K) :
    calcbinfluxC ibeg iend avflux deltaw = .ok r ↔ calcbinfluxPy ibeg iend avflux deltaw = .ok r :=
  ⟨c_ok_then_py_same _ _ _ _ r, py_ok_then_c_same _ _ _ _ r⟩

/-! ### one bin -/

/-- binned flux × integrated width of a bin is the bin's `Σ avflux·Δλ` (flux conservation, per bin) -/
theorem bin_flux_times_width (e : Err) (avflux deltaw : List K) (p : Nat × Nat) (b w : K)
    (h : binOne e avflux deltaw p = .ok (b, w)) :
    b * w = segFlux avflux deltaw p.1 p.2 ∧ w = segWidth deltaw p.1 p.2 := by
  unfold binOne at h
  split_ifs at h with hz
  injection h with h
  injection h with h1 h2
  subst h1; subst h2
  exact ⟨div_mul_cancel₀ _ hz, rfl⟩

/-- the averaged flux of a grid segment lies between its two end values -/
theorem avflux_between (a b : K) : min a b ≤ (b + a) * (1 / 2) ∧ (b + a) * (1 / 2) ≤ max a b := by
  constructor
  · have := min_le_left a b; have := min_le_right a b; linarith
  · have := le_max_left a b; have := le_max_right a b; linarith

/-- each binned flux is the width-weighted mean of the unbinned flux over its bin, hence lies
between the smallest and largest unbinned value there -/
theorem binflux_between_min_max (e : Err) (avflux deltaw : List K) (p : Nat × Nat) (b w m M : K)
    (h : binOne e avflux deltaw p = .ok (b, w)) (hlen : avflux.length = deltaw.length)
    (hd : ∀ d ∈ (deltaw.drop p.1).take (p.2 - p.1), 0 ≤ d)
    (ha : ∀ a ∈ (avflux.drop p.1).take (p.2 - p.1), m ≤ a ∧ a ≤ M) : m ≤ b ∧ b ≤ M := by
  have hb := bin_flux_times_width e avflux deltaw p b w h
  unfold binOne at h
  split_ifs at h with hz
  have hw0 : 0 ≤ segWidth deltaw p.1 p.2 := List.sum_nonneg hd
  have hwpos : 0 < segWidth deltaw p.1 p.2 := lt_of_le_of_ne hw0 (Ne.symm hz)
  have hl : ((avflux.drop p.1).take (p.2 - p.1)).length = ((deltaw.drop p.1).take (p.2 - p.1)).length := by
    simp [List.length_take, List.length_drop, hlen]
  have hwm := weighted_mean_bounds m M _ _ ha hd
  rw [hl, List.take_length] at hwm
  have hbw : b * segWidth deltaw p.1 p.2 = segFlux avflux deltaw p.1 p.2 := by rw [← hb.2]; exact hb.1
  constructor
  · have : m * segWidth deltaw p.1 p.2 ≤ b * segWidth deltaw p.1 p.2 := by rw [hbw]; exact hwm.1
    exact le_of_mul_le_mul_right this hwpos
  · have : b * segWidth deltaw p.1 p.2 ≤ M * segWidth deltaw p.1 p.2 := by rw [hbw]; exact hwm.2
    exact le_of_mul_le_mul_right this hwpos

/-! ### all bins: conservation -/

/-- `Σ_i binflux_i · width_i = Σ_i Σ_{j ∈ bin i} avflux_j Δλ_j` for whatever the integrator returns -/
theorem binned_sum (e : Err) (avflux deltaw : List K) :
    ∀ (ps : List (Nat × Nat)) (rs : List (K × K)), ps.mapM (binOne e avflux deltaw) = .ok rs →
      (rs.map fun r => r.1 * r.2).sum = (ps.map fun p => segFlux avflux deltaw p.1 p.2).sum := by
  intro ps
  induction ps with
  | nil =>
    intro rs h
    simp only [List.mapM_nil, pure, Except.pure] at h
    injection h with h; subst h; simp
  | cons p ps ih =>
    intro rs h
    simp only [List.mapM_cons, bind, Except.bind] at h
    cases hp : binOne e avflux deltaw p with
    | error e' => rw [hp] at h; cases h
    | ok r =>
      rw [hp] at h
      cases hps : ps.mapM (binOne e avflux deltaw) with
      | error e' => rw [hps] at h; cases h
      | ok rs' =>
        rw [hps] at h
        simp only [pure, Except.pure] at h
        injection h with h; subst h
        obtain ⟨b, w⟩ := r
        have := (bin_flux_times_width e avflux deltaw p b w hp).1
        simp only [List.map_cons, List.sum_cons, ih rs' hps, this]

/-- the sum over a grid of `avflux·Δλ` is the trapezoid integral of the unbinned samples on that grid:
with `binned_sum` and contiguous bins this is "Σ binflux × width = ∫ observation on the merged grid" -/
theorem total_is_trapz (x y : List K) (h : x.length = y.length) :
    segFlux (pairSums y) (pairDiffs x) 0 (pairDiffs x).length = trapzXY x y := by
  rw [trapz_eq_sum_av_dw x y h]
  unfold segFlux
  simp only [List.drop_zero, Nat.sub_zero, List.take_length]
  congr 1
  have hl : (pairSums y).length = (pairDiffs x).length := by
    have : ∀ (x y : List K), x.length = y.length → (pairSums y).length = (pairDiffs x).length := by
      intro x
      induction x with
      | nil => intro y hy; cases y <;> simp_all [pairSums, pairDiffs]
      | cons a x ih =>
        intro y hy
        cases y with
        | nil => simp at hy
        | cons b y =>
          cases x with
          | nil => cases y <;> simp_all [pairSums, pairDiffs]
          | cons a' x =>
            cases y with
            | nil => simp at hy
            | cons b' y =>
              simp only [pairSums, pairDiffs, List.length_cons]
              have := ih (b' :: y) (by simpa using hy)
              omega
    exact this x y h
  rw [← hl, List.take_length]

/-- adjacent index ranges add up: contiguous bins tile the range from the first to the last edge -/
theorem segFlux_additive (av dw : List K) (hlen : av.length = dw.length) (f m l : Nat) (hfm : f ≤ m)
    (hml : m ≤ l) : segFlux av dw f m + segFlux av dw m l = segFlux av dw f l := by
  unfold segFlux
  have h1 : ∀ (s : List K), (s.drop f).take (l - f) = (s.drop f).take (m - f) ++ (s.drop m).take (l - m) := by
    intro s
    have : l - f = (m - f) + (l - m) := by omega
    rw [this, List.take_add]
    congr 1
    rw [List.drop_drop]
    congr 2; omega
  rw [h1 av, h1 dw]
  have hl : ((av.drop f).take (m - f)).length = ((dw.drop f).take (m - f)).length := by
    simp [List.length_take, List.length_drop, hlen]
  rw [List.zip_append hl, List.map_append, List.sum_append]

/-- hence for contiguous bins `[i₀,i₁), [i₁,i₂), …` the binned sum is the sum over `[i₀, iₙ)` -/
theorem contiguous_bins_tile (av dw : List K) (hlen : av.length = dw.length) :
    ∀ (idx : List Nat) (i0 : Nat), List.IsChain (· ≤ ·) (i0 :: idx) →
      (((i0 :: idx).zip idx).map fun p => segFlux av dw p.1 p.2).sum =
        segFlux av dw i0 ((i0 :: idx).getLast (List.cons_ne_nil _ _)) := by
  intro idx
  induction idx with
  | nil => intro i0 _; simp [segFlux]
  | cons i1 idx ih =>
    intro i0 hc
    rw [List.isChain_cons_cons] at hc
    have := ih i1 hc.2
    simp only [List.zip_cons_cons, List.map_cons, List.sum_cons]
    rw [this]
    have hlast : (i0 :: i1 :: idx).getLast (List.cons_ne_nil _ _) = (i1 :: idx).getLast (List.cons_ne_nil _ _) := by
      simp [List.getLast_cons]
    rw [hlast]
    have hle : i1 ≤ (i1 :: idx).getLast (List.cons_ne_nil _ _) := by
      have hp : (i1 :: idx).Pairwise (· ≤ ·) := by
        rw [← List.isChain_iff_pairwise]; exact hc.2
      rcases List.mem_cons.mp (List.getLast_mem (List.cons_ne_nil i1 idx)) with h | h
      · rw [h]
      · exact List.rel_of_pairwise_cons hp h
    exact segFlux_additive av dw hlen i0 i1 _ hc.1 hle

/-! ### binned sampling -/

theorem pyIndex_nat_ok {α : Type} (l : List α) (i : Nat) (h : i < l.length) :
    pyIndex l (i : Int) = .ok (l[i]'h) := by
  unfold pyIndex
  have h1 : ¬ ((i : Int) < 0) := by omega
  have h3 : ¬ ((l.length : Int) ≤ (i : Int)) := by omega
  simp only [h1, if_false, Int.toNat_natCast, false_or, h3]
  rw [List.getElem?_eq_getElem h]

/-- the index `sample_binned` looks at is always a valid bin index -/
theorem clipped_index_valid (binset : List K) (hne : binset ≠ []) (v : K) :
    min (searchLeft binset v) (binset.length - 1) < binset.length := by
  have : 0 < binset.length := List.length_pos_iff.mpr hne
  omega

/-- binned sampling never fails with an index error: any wavelength — below, between or above the
bin centres — is either matched to a bin or refused -/
theorem sample_binned_no_index_error (atol rtol : K) (b : Bins K) (hne : b.binset ≠ [])
    (hlen : b.binflux.length = b.binset.length) (x : List K) :
    sampleBinned atol rtol b x ≠ .error .indexError := by
  unfold sampleBinned
  cases hv : validateWavelengths x with
  | error e =>
    simp only [bind, Except.bind]
    intro h; injection h with h; subst h
    unfold validateWavelengths at hv
    split_ifs at hv <;> cases hv
  | ok u =>
    simp only [bind, Except.bind]
    have hidx : ∀ (l : List K) (hl : l.length = b.binset.length) (vs : List K),
        ∃ r, (vs.map (binIndex b.binset)).mapM (pyIndex l) = .ok r := by
      intro l hl vs
      induction vs with
      | nil => exact ⟨[], rfl⟩
      | cons v vs ih =>
        obtain ⟨r, hr⟩ := ih
        have hi := clipped_index_valid b.binset hne v
        refine ⟨l[min (searchLeft b.binset v) (b.binset.length - 1)]'(by rw [hl]; exact hi) :: r, ?_⟩
        simp only [List.map_cons, List.mapM_cons, bind, Except.bind, binIndex]
        rw [pyIndex_nat_ok l _ (by rw [hl]; exact hi)]
        rw [hr]; rfl
    obtain ⟨r1, hr1⟩ := hidx b.binset rfl x
    obtain ⟨r2, hr2⟩ := hidx b.binflux hlen x
    rw [hr1]
    show (if (!(r1.zip x).all fun x => allcloseOne atol rtol x.1 x.2) = true then _ else _) ≠ _
    split_ifs
    · intro h; cases h
    · rw [hr2]; intro h; cases h

/-- a wavelength farther from the bin centre it is compared with than the `allclose` tolerance is
refused with `InterpolationNotAllowed` -/
theorem sample_binned_refuses (atol rtol : K) (b : Bins K) (v : K) (hv : 0 < v)
    (c : K) (hc : pyIndex b.binset (binIndex b.binset v) = .ok c)
    (hfar : ¬ |c - v| ≤ atol + rtol * |v|) :
    sampleBinned atol rtol b [v] = .error .interpolationNotAllowed := by
  unfold sampleBinned
  have hval : validateWavelengths [v] = .ok () := by
    rw [validate_ok_iff]; exact ⟨by simpa using hv, Or.inl trivial⟩
  simp only [hval, bind, Except.bind, List.map_cons, List.map_nil, List.mapM_cons, List.mapM_nil, hc,
    pure, Except.pure, List.zip_cons_cons, List.zip_nil_right, List.all_cons, List.all_nil, Bool.and_true,
    allcloseOne]
  simp [hfar]

/-- a wavelength within the tolerance of its bin centre returns that bin's flux -/
theorem sample_binned_centre (atol rtol : K) (b : Bins K) (v : K) (hv : 0 < v)
    (c f : K) (hc : pyIndex b.binset (binIndex b.binset v) = .ok c)
    (hf : pyIndex b.binflux (binIndex b.binset v) = .ok f)
    (hnear : |c - v| ≤ atol + rtol * |v|) :
    sampleBinned atol rtol b [v] = .ok [f] := by
  unfold sampleBinned
  have hval : validateWavelengths [v] = .ok () := by
    rw [validate_ok_iff]; exact ⟨by simpa using hv, Or.inl trivial⟩
  simp only [hval, bind, Except.bind, List.map_cons, List.map_nil, List.mapM_cons, List.mapM_nil, hc, hf,
    pure, Except.pure, List.zip_cons_cons, List.zip_nil_right, List.all_cons, List.all_nil, Bool.and_true,
    allcloseOne]
  simp [hnear]

/-! ## deepened statements (helpers in `Lemmas/C07x.lean`) -/

/-! ### (a) bin-edge geometry, any spacing -/

/-- every centre lies strictly inside its bin (ascending centres) -/
theorem centre_inside_bin (c e : List K) (hc : StrictAsc c) (he : binEdges c = .ok e) (i : Nat)
    (hi : i < c.length) : e.getD i 0 < c.getD i 0 ∧ c.getD i 0 < e.getD (i + 1) 0 := by
  obtain ⟨h2, hl, hmid, hfirst, hlast⟩ := edges_getD c e he
  have hlt := strictAsc_getD_succ c hc
  constructor
  · rcases Nat.eq_zero_or_pos i with h0 | h0
    · subst h0
      have := hmid 0 (by omega); have := hlt 0 (by omega)
      simp only [Nat.zero_add] at *
      linarith
    · obtain ⟨k, rfl⟩ : ∃ k, i = k + 1 := ⟨i - 1, by omega⟩
      rw [hmid k hi]; have := hlt k hi; linarith
  · by_cases h1 : i + 1 < c.length
    · rw [hmid i h1]; have := hlt i h1; linarith
    · have hi' : i + 1 = c.length := by omega
      have hi'' : i = c.length - 1 := by omega
      have hm := hmid (c.length - 2) (by omega)
      have e1 : c.length - 2 + 1 = c.length - 1 := by omega
      rw [e1] at hm
      have := hlt (c.length - 2) (by omega)
      rw [e1] at this
      rw [hi', hi'']
      linarith

/-- … and for descending centres, between the (descending) edges -/
theorem centre_inside_bin_desc (c e : List K) (hc : StrictDesc c) (he : binEdges c = .ok e) (i : Nat)
    (hi : i < c.length) : e.getD (i + 1) 0 < c.getD i 0 ∧ c.getD i 0 < e.getD i 0 := by
  obtain ⟨h2, hl, hmid, hfirst, hlast⟩ := edges_getD c e he
  have hlt := strictDesc_getD_succ c hc
  constructor
  · by_cases h1 : i + 1 < c.length
    · rw [hmid i h1]; have := hlt i h1; linarith
    · have hi' : i + 1 = c.length := by omega
      have hi'' : i = c.length - 1 := by omega
      have hm := hmid (c.length - 2) (by omega)
      have e1 : c.length - 2 + 1 = c.length - 1 := by omega
      rw [e1] at hm
      have := hlt (c.length - 2) (by omega)
      rw [e1] at this
      rw [hi', hi'']
      linarith
  · rcases Nat.eq_zero_or_pos i with h0 | h0
    · subst h0
      have := hmid 0 (by omega); have := hlt 0 (by omega)
      simp only [Nat.zero_add] at *
      linarith
    · obtain ⟨k, rfl⟩ : ∃ k, i = k + 1 := ⟨i - 1, by omega⟩
      rw [hmid k hi]; have := hlt k hi; linarith

/-- **the bins of `calculate_bin_edges`, in one statement** (any spacing, either order): `n ≥ 2` valid
centres give `n + 1` edges and `n` widths; every interior edge is the midpoint of its two neighbouring
centres; the first and the last bin are symmetric about their centres; the edges are strictly monotone in
the order of the centres; every width is positive and is the distance of the bin's two edges; the widths sum
to the distance from the first to the last edge; every centre lies strictly inside its bin -/
theorem bin_geometry (c e : List K) (h : calcBinEdges c = .ok e) :
    ∃ w, binWidths e = .ok w ∧ 2 ≤ c.length ∧ e.length = c.length + 1 ∧ w.length = c.length ∧
      (∀ i, i + 1 < c.length → e.getD (i + 1) 0 = (c.getD i 0 + c.getD (i + 1) 0) / 2) ∧
      c.getD 0 0 - e.getD 0 0 = e.getD 1 0 - c.getD 0 0 ∧
      e.getD c.length 0 - c.getD (c.length - 1) 0 = c.getD (c.length - 1) 0 - e.getD (c.length - 1) 0 ∧
      ((StrictAsc c ∧ StrictAsc e) ∨ (StrictDesc c ∧ StrictDesc e)) ∧
      (∀ x ∈ w, 0 < x) ∧ w.sum = |e.getLastD 0 - e.headD 0| ∧
      ∀ i, i < c.length →
        w.getD i 0 = |e.getD (i + 1) 0 - e.getD i 0| ∧
        min (e.getD i 0) (e.getD (i + 1) 0) < c.getD i 0 ∧ c.getD i 0 < max (e.getD i 0) (e.getD (i + 1) 0) := by
  obtain ⟨h2, hv, he⟩ := calcBinEdges_inv c e h
  obtain ⟨_, hl, hmid, hfirst, hlast⟩ := edges_getD c e he
  obtain ⟨w, hw, hwl⟩ := C18.widths_of_edges_ok c e he
  obtain ⟨_, hmon⟩ := (validate_ok_iff c).mp hv
  have hw' : w = absDiffs e := by
    unfold binWidths at hw; split_ifs at hw; injection hw with hw; exact hw.symm
  refine ⟨w, hw, h2, hl, hwl, hmid, hfirst, hlast, ?_, C18.widths_pos c e w hmon he hw,
    C18.widths_sum c e w hmon he hw, ?_⟩
  · rcases hmon with hA | hD
    · exact Or.inl ⟨hA, binEdges_strictAsc c e hA he⟩
    · exact Or.inr ⟨hD, binEdges_strictDesc c e hD he⟩
  · intro i hi
    refine ⟨by rw [hw', absDiffs_eq_adjMap, adjMap_getD _ e i (by omega)], ?_⟩
    rcases hmon with hA | hD
    · obtain ⟨h1, h2'⟩ := centre_inside_bin c e hA he i hi
      exact ⟨lt_of_le_of_lt (min_le_left _ _) h1, lt_of_lt_of_le h2' (le_max_right _ _)⟩
    · obtain ⟨h1, h2'⟩ := centre_inside_bin_desc c e hD he i hi
      exact ⟨lt_of_le_of_lt (min_le_right _ _) h1, lt_of_lt_of_le h2' (le_max_left _ _)⟩

/-! ### (b) the order of the centres -/

/-- the edges of the reversed centres are the reversed edges: descending centres describe the same bins as
the ascending ones -/
theorem edges_of_reversed_centres (c : List K) :
    calcBinEdges c.reverse = (calcBinEdges c).map List.reverse := by
  unfold calcBinEdges
  rw [List.length_reverse, validate_reverse, binEdges_reverse]
  split_ifs
  · rfl
  · cases validateWavelengths c <;> rfl

/-- whatever order the (valid) bin centres are given in, the constructor works on the strictly ascending
arrangement: `binset` is the input or its reversal, is strictly ascending, and `bin_edges` are its
(strictly ascending) midpoint edges -/
theorem constructor_orders_centres (E : Env K) (thr : K) (m : Tree K) (bs : List K) (useC : Bool) (b : Bins K)
    (hv : validateWavelengths bs = .ok ()) (h : initBins E thr m bs useC = .ok b) :
    (b.binset = bs ∨ b.binset = bs.reverse) ∧ StrictAsc b.binset ∧ binEdges b.binset = .ok b.edges ∧
      StrictAsc b.edges ∧ b.binflux.length = b.binset.length := by
  rw [initBins_eq] at h
  obtain ⟨edges, w, flux, r, he, hw, hf, hcall, rfl⟩ := initBinsFrom_inv E thr m _ useC b h
  obtain ⟨hA, hor, _, _⟩ := ascCentres_valid bs hv
  obtain ⟨e, rs, hrs, rfl⟩ := callBin_ok _ _ _ _ _ _ hcall
  refine ⟨hor, hA, he, binEdges_strictAsc _ _ hA he, ?_⟩
  have := mapM_ok_length _ _ _ hrs
  have hl := C18.edges_length _ _ he
  simp only [List.length_map, this, List.length_zip, List.length_dropLast, List.length_drop, hl]
  omega

/-- descending centres give exactly the bins of the reversed (ascending) ones -/
theorem constructor_order_irrelevant (E : Env K) (thr : K) (m : Tree K) (bs : List K) (useC : Bool)
    (hv : validateWavelengths bs = .ok ()) :
    initBins E thr m bs.reverse useC = initBins E thr m bs useC := by
  rw [initBins_eq, initBins_eq, (ascCentres_valid bs hv).2.2.2]

/-- … for the whole observation -/
theorem observation_order_irrelevant (E : Env K) (P : OverlapPar K) (src band : Spec K) (bs : List K)
    (force : Force) (useC : Bool) :
    mkObs E P src band (some bs.reverse) force useC = mkObs E P src band (some bs) force useC := by
  unfold mkObs
  simp only [validate_reverse]
  cases hv : validateWavelengths bs with
  | error e => simp only [bind, Except.bind]
  | ok u => simp only [bind, Except.bind, pure, Except.pure, constructor_order_irrelevant _ _ _ bs _ hv]

/-- every observation the constructor returns carries the bins `_init_bins` computed from a valid
set of centres (the caller's, or the default binset) -/
theorem observation_bins (E : Env K) (P : OverlapPar K) (src band : Spec K) (binset : Option (List K))
    (force : Force) (useC : Bool) (o : Obs K) (h : mkObs E P src band binset force useC = .ok o) :
    ∃ bs, validateWavelengths bs = .ok () ∧ (binset = some bs ∨ binset = none) ∧
      initBins E P.mergeThr o.model bs useC = .ok o.bins :=
  mkObs_inv E P src band binset force useC o h


/-! ### (c) conservation for the bins the constructor builds -/

/-- **flux conservation, as one statement**: for the bins `_init_bins` builds from any valid centres,
`Σ binflux_i × (integrated width of bin i)` is the trapezoid integral of the unbinned samples over the points
of the merged grid from the grid index of the first edge to that of the last edge.  (The integrated width
is what the integrator returns as `intwave`; it is the bin width whenever the edges are grid points —
`conservation_between_edges`.) -/
theorem conservation_constructed (E : Env K) (thr : K) (m : Tree K) (bs : List K) (useC : Bool) (b : Bins K)
    (hv : validateWavelengths bs = .ok ()) (h : initBins E thr m bs useC = .ok b) :
    (mulFactors b.binflux ((b.ibeg.zip b.iend).map fun p => segWidth (pairDiffs b.spwave) p.1 p.2)).sum =
      trapzXY
        (gridSlice b.spwave (searchLeft b.spwave (b.edges.headD 0)) (searchLeft b.spwave (b.edges.getLastD 0)))
        (gridSlice b.flux (searchLeft b.spwave (b.edges.headD 0)) (searchLeft b.spwave (b.edges.getLastD 0))) := by
  rw [initBins_eq] at h
  obtain ⟨edges, w, flux, r, he, hw, hf, hcall, rfl⟩ := initBinsFrom_inv E thr m _ useC b h
  obtain ⟨hA, _, _, _⟩ := ascCentres_valid bs hv
  obtain ⟨e, rs, hrs, rfl⟩ := callBin_ok _ _ _ _ _ _ hcall
  simp only
  have hfl : flux.length = (mergedGrid thr edges (ascCentres bs) w).length := mapM_ok_length _ _ _ hf
  have hes := binEdges_strictAsc _ _ hA he
  have hlen : (pairSums flux).length = (pairDiffs (mergedGrid thr edges (ascCentres bs) w)).length := by
    rw [pairSums_eq_adjMap, pairDiffs_eq_adjMap, adjMap_length, adjMap_length, hfl]
  rw [zip_dropLast_tail] at hrs ⊢
  rw [← mapM_binOne_snd _ _ _ _ _ hrs, mulFactors_map_fst_snd, binned_sum _ _ _ _ _ hrs]
  have hel := C18.edges_length _ _ he
  have h2 := (C18.edges_ok_iff _).mp ⟨edges, he⟩
  rcases edges with _ | ⟨e0, et⟩
  · simp at hel
  · have hchain := map_searchLeft_chain (mergedGrid thr (e0 :: et) (ascCentres bs) w) (e0 :: et) hes
    simp only [List.map_cons, List.drop_succ_cons, List.drop_zero] at hchain ⊢
    rw [contiguous_bins_tile _ _ hlen _ _ hchain, segFlux_eq_trapz _ _ hfl.symm]
    have hlast := getLast_cons_map (searchLeft (mergedGrid thr (e0 :: et) (ascCentres bs) w)) et e0
    rw [hlast]
    rfl

/-- when every bin edge is a point of the merged grid (it is positive and survives the 1e-12
de-duplication) the integrated widths are the bin widths, and the integral runs over the grid points from
the first edge to the last edge: **Σ binflux × bin width = ∫ observation between the outer edges** -/
theorem conservation_between_edges (E : Env K) (thr : K) (m : Tree K) (bs : List K) (useC : Bool) (b : Bins K)
    (hv : validateWavelengths bs = .ok ()) (h : initBins E thr m bs useC = .ok b)
    (hedge : ∀ e ∈ b.edges, e ∈ b.spwave) (bw : List K) (hbw : binWidths b.edges = .ok bw) :
    ∃ xs ys, xs = gridSlice b.spwave (searchLeft b.spwave (b.edges.headD 0)) (searchLeft b.spwave (b.edges.getLastD 0)) ∧
      ys = gridSlice b.flux (searchLeft b.spwave (b.edges.headD 0)) (searchLeft b.spwave (b.edges.getLastD 0)) ∧
      (mulFactors b.binflux bw).sum = trapzXY xs ys ∧
      xs.length = ys.length ∧ xs.head? = b.edges.head? ∧ xs.getLast? = b.edges.getLast? := by
  have hcons := conservation_constructed E thr m bs useC b hv h
  refine ⟨_, _, rfl, rfl, ?_, ?_, ?_, ?_⟩
  · rw [← hcons]
    rw [initBins_eq] at h
    obtain ⟨edges, w, flux, r, he, hw, hf, hcall, rfl⟩ := initBinsFrom_inv E thr m _ useC b h
    obtain ⟨hA, _, _, _⟩ := ascCentres_valid bs hv
    simp only at hedge hbw ⊢
    have hes := binEdges_strictAsc _ _ hA he
    rw [zip_dropLast_tail, widths_eq_absDiffs _ (mergedGrid_strictAsc _ _ _ _) edges hes hedge]
    unfold binWidths at hbw
    split_ifs at hbw
    injection hbw with hbw
    rw [hbw]
  · rw [initBins_eq] at h
    obtain ⟨edges, w, flux, r, he, hw, hf, hcall, rfl⟩ := initBinsFrom_inv E thr m _ useC b h
    exact gridSlice_length_eq _ _ (mapM_ok_length _ _ _ hf).symm _ _
  · rw [initBins_eq] at h
    obtain ⟨edges, w, flux, r, he, hw, hf, hcall, rfl⟩ := initBinsFrom_inv E thr m _ useC b h
    simp only at hedge ⊢
    have hel := C18.edges_length _ _ he
    rcases edges with _ | ⟨e0, et⟩
    · simp at hel
    · obtain ⟨h1, h2⟩ := searchLeft_mem _ (mergedGrid_strictAsc thr (e0 :: et) (ascCentres bs) w) e0
        (hedge e0 (by simp))
      rw [List.headD_cons, gridSlice_head? _ _ _ h1, h2]; rfl
  · rw [initBins_eq] at h
    obtain ⟨edges, w, flux, r, he, hw, hf, hcall, rfl⟩ := initBinsFrom_inv E thr m _ useC b h
    obtain ⟨hA, _, _, _⟩ := ascCentres_valid bs hv
    simp only at hedge ⊢
    have hes := binEdges_strictAsc _ _ hA he
    have hel := C18.edges_length _ _ he
    rcases edges with _ | ⟨e0, et⟩
    · simp at hel
    · have hsp := mergedGrid_strictAsc thr (e0 :: et) (ascCentres bs) w
      have hlm : (e0 :: et).getLastD 0 ∈ (e0 :: et) := by
        rw [List.getLastD_eq_getLast?, List.getLast?_eq_some_getLast (List.cons_ne_nil e0 et)]
        exact List.getLast_mem _
      obtain ⟨h1, h2⟩ := searchLeft_mem _ hsp _ (hedge _ hlm)
      have hle : searchLeft (mergedGrid thr (e0 :: et) (ascCentres bs) w) ((e0 :: et).headD 0) ≤
          searchLeft (mergedGrid thr (e0 :: et) (ascCentres bs) w) ((e0 :: et).getLastD 0) := by
        apply searchLeft_mono
        rw [List.headD_cons, List.getLastD_cons]
        exact strictAsc_head_le_last et e0 hes
      rw [gridSlice_getLast? _ _ _ hle h1, h2, List.getLastD_eq_getLast?,
        List.getLast?_eq_some_getLast (List.cons_ne_nil e0 et)]
      rfl

/-- the same for an observation as the constructor returns it -/
theorem observation_conserves_flux (E : Env K) (P : OverlapPar K) (src band : Spec K)
    (binset : Option (List K)) (force : Force) (useC : Bool) (o : Obs K)
    (h : mkObs E P src band binset force useC = .ok o)
    (hedge : ∀ e ∈ o.bins.edges, e ∈ o.bins.spwave) (bw : List K) (hbw : binWidths o.bins.edges = .ok bw) :
    ∃ xs ys, xs = gridSlice o.bins.spwave (searchLeft o.bins.spwave (o.bins.edges.headD 0))
          (searchLeft o.bins.spwave (o.bins.edges.getLastD 0)) ∧
      ys = gridSlice o.bins.flux (searchLeft o.bins.spwave (o.bins.edges.headD 0))
          (searchLeft o.bins.spwave (o.bins.edges.getLastD 0)) ∧
      (mulFactors o.bins.binflux bw).sum = trapzXY xs ys ∧
      xs.length = ys.length ∧ xs.head? = o.bins.edges.head? ∧ xs.getLast? = o.bins.edges.getLast? ∧
      sampleTree E o.model o.bins.spwave = .ok o.bins.flux := by
  obtain ⟨bs, hv, _, hi⟩ := mkObs_inv E P src band binset force useC o h
  obtain ⟨xs, ys, hx, hy, h1, h2, h3, h4⟩ := conservation_between_edges E P.mergeThr o.model bs useC o.bins hv hi hedge bw hbw
  refine ⟨xs, ys, hx, hy, h1, h2, h3, h4, ?_⟩
  rw [initBins_eq] at hi
  obtain ⟨edges, w, flux, r, he, hw, hf, hcall, hb⟩ := initBinsFrom_inv E P.mergeThr o.model _ useC o.bins hi
  rw [hb]; exact hf

/-- each binned flux of a constructed observation is the width-weighted mean of the unbinned samples on the
grid points of its bin, hence lies between the smallest and the largest of them -/
theorem binflux_between_constructed (E : Env K) (thr : K) (m : Tree K) (bs : List K) (useC : Bool) (b : Bins K)
    (hv : validateWavelengths bs = .ok ()) (h : initBins E thr m bs useC = .ok b) (k : Nat)
    (hk : k < b.binflux.length) (mn mx : K)
    (hb : ∀ v ∈ gridSlice b.flux (b.ibeg.getD k 0) (b.iend.getD k 0), mn ≤ v ∧ v ≤ mx) :
    mn ≤ b.binflux.getD k 0 ∧ b.binflux.getD k 0 ≤ mx ∧
      b.binflux.getD k 0 * segWidth (pairDiffs b.spwave) (b.ibeg.getD k 0) (b.iend.getD k 0) =
        trapzXY (gridSlice b.spwave (b.ibeg.getD k 0) (b.iend.getD k 0))
          (gridSlice b.flux (b.ibeg.getD k 0) (b.iend.getD k 0)) := by
  rw [initBins_eq] at h
  obtain ⟨edges, w, flux, r, he, hw, hf, hcall, rfl⟩ := initBinsFrom_inv E thr m _ useC b h
  obtain ⟨e, rs, hrs, rfl⟩ := callBin_ok _ _ _ _ _ _ hcall
  simp only at hk hb ⊢
  have hfl : flux.length = (mergedGrid thr edges (ascCentres bs) w).length := mapM_ok_length _ _ _ hf
  have hlen : (pairSums flux).length = (pairDiffs (mergedGrid thr edges (ascCentres bs) w)).length := by
    rw [pairSums_eq_adjMap, pairDiffs_eq_adjMap, adjMap_length, adjMap_length, hfl]
  have hrl := mapM_ok_length _ _ _ hrs
  have hk' : k < rs.length := by simpa using hk
  have hkz : k < ((edges.map (searchLeft (mergedGrid thr edges (ascCentres bs) w))).dropLast.zip
      ((edges.map (searchLeft (mergedGrid thr edges (ascCentres bs) w))).drop 1)).length := by omega
  have hone := mapM_ok_getD _ _ _ hrs k hkz (0, 0) (0, 0)
  rw [List.length_zip] at hkz
  rw [zip_getD _ _ k (by omega) (by omega)] at hone
  have hbf : (rs.map Prod.fst).getD k 0 = (rs.getD k (0, 0)).1 := by
    rw [List.getD_eq_getElem?_getD, List.getD_eq_getElem?_getD, List.getElem?_map,
      List.getElem?_eq_getElem hk']
    rfl
  rw [hbf]
  set p : Nat × Nat := ((edges.map (searchLeft (mergedGrid thr edges (ascCentres bs) w))).dropLast.getD k 0,
    ((edges.map (searchLeft (mergedGrid thr edges (ascCentres bs) w))).drop 1).getD k 0) with hp
  rcases hr : rs.getD k (0, 0) with ⟨bk, wk⟩
  rw [hr] at hone
  have hbounds := binflux_between_min_max e _ _ p bk wk mn mx hone hlen
    (fun d hd => le_of_lt (pairDiffs_pos _ (mergedGrid_strictAsc _ _ _ _) d
      (List.mem_of_mem_drop (List.mem_of_mem_take hd))))
    (fun a ha => by
      have : (List.take (p.2 - p.1) (List.drop p.1 (pairSums flux))) = pairSums (gridSlice flux p.1 p.2) := by
        rw [pairSums_eq_adjMap, pairSums_eq_adjMap, adjMap_gridSlice]
      rw [this] at ha
      exact pairSums_between mn mx _ hb a ha)
  obtain ⟨h1, h2⟩ := bin_flux_times_width e _ _ p bk wk hone
  refine ⟨hbounds.1, hbounds.2, ?_⟩
  show bk * _ = _
  rw [← h2, h1, segFlux_eq_trapz _ _ hfl.symm]


/-! ### (d) the two integrators on the calls the constructor makes -/

/-- **identical arrays on every consistent set of bin indices over positive-width segments**: both
implementations return, return the same pair of arrays, one entry per bin (`impls_agree` says they agree
whenever either returns; this says that on a consistent call both do) -/
theorem consistent_call_identical (ibeg iend : List Nat) (avflux deltaw : List K)
    (hc : ConsistentCall ibeg iend avflux deltaw) :
    ∃ r, calcbinfluxC ibeg iend avflux deltaw = .ok r ∧ calcbinfluxPy ibeg iend avflux deltaw = .ok r ∧
      r.1.length = ibeg.length ∧ r.2.length = ibeg.length :=
  consistent_both_ok ibeg iend avflux deltaw hc

/-- the call the constructor makes is such a consistent call whenever the bin edges are points of the
merged grid: index lists of equal length, `ibeg[i] < iend[i] ≤ len(deltaw)`, one averaged flux per
segment, all segments of positive width -/
theorem constructor_call_consistent (E : Env K) (thr : K) (m : Tree K) (bs : List K) (useC : Bool) (b : Bins K)
    (hv : validateWavelengths bs = .ok ()) (h : initBins E thr m bs useC = .ok b)
    (hedge : ∀ e ∈ b.edges, e ∈ b.spwave) :
    ConsistentCall b.ibeg b.iend (pairSums b.flux) (pairDiffs b.spwave) := by
  rw [initBins_eq] at h
  obtain ⟨edges, w, flux, r, he, hw, hf, hcall, rfl⟩ := initBinsFrom_inv E thr m _ useC b h
  obtain ⟨hA, _, _, _⟩ := ascCentres_valid bs hv
  exact constructed_call_consistent _ flux edges (mergedGrid_strictAsc _ _ _ _)
    (binEdges_strictAsc _ _ hA he) hedge (mapM_ok_length _ _ _ hf)

/-- without any hypothesis on the grid: the constructor's index lists are contiguous and ordered
(`iend[i] = ibeg[i+1]`, `ibeg[i] ≤ iend[i]`), there is one averaged flux per segment and every segment has
positive width -/
theorem constructor_indices (E : Env K) (thr : K) (m : Tree K) (bs : List K) (useC : Bool) (b : Bins K)
    (hv : validateWavelengths bs = .ok ()) (h : initBins E thr m bs useC = .ok b) :
    ∃ idx : List Nat, idx = b.edges.map (searchLeft b.spwave) ∧ b.ibeg = idx.dropLast ∧ b.iend = idx.drop 1 ∧
      idx.IsChain (· ≤ ·) ∧ (pairSums b.flux).length = (pairDiffs b.spwave).length ∧
      (∀ d ∈ pairDiffs b.spwave, 0 < d) ∧ StrictAsc b.spwave ∧ (∀ x ∈ b.spwave, 0 < x) ∧
      b.flux.length = b.spwave.length := by
  rw [initBins_eq] at h
  obtain ⟨edges, w, flux, r, he, hw, hf, hcall, rfl⟩ := initBinsFrom_inv E thr m _ useC b h
  obtain ⟨hA, _, _, _⟩ := ascCentres_valid bs hv
  have hfl : flux.length = (mergedGrid thr edges (ascCentres bs) w).length := mapM_ok_length _ _ _ hf
  refine ⟨_, rfl, rfl, rfl, map_searchLeft_chain _ _ (binEdges_strictAsc _ _ hA he), ?_,
    pairDiffs_pos _ (mergedGrid_strictAsc _ _ _ _), mergedGrid_strictAsc _ _ _ _, mergedGrid_pos _ _ _ _, hfl⟩
  simp only
  rw [pairSums_eq_adjMap, pairDiffs_eq_adjMap, adjMap_length, adjMap_length, hfl]

/-- **agreement holds unconditionally for constructed observations**: `_init_bins` returns bins with the
compiled integrator exactly when it does with the Python fallback, and then the same bins -/
theorem constructor_impls_agree (E : Env K) (thr : K) (m : Tree K) (bs : List K) (b : Bins K) :
    initBins E thr m bs true = .ok b ↔ initBins E thr m bs false = .ok b := by
  have key : ∀ u1 u2 : Bool, initBins E thr m bs u1 = .ok b → initBins E thr m bs u2 = .ok b := by
    intro u1 u2 h
    rw [initBins_eq] at h ⊢
    obtain ⟨edges, w, flux, r, he, hw, hf, hcall, rfl⟩ := initBinsFrom_inv E thr m _ u1 b h
    refine initBinsFrom_of_pieces E thr m _ u2 edges w flux r he hw hf ?_
    unfold callBin at hcall ⊢
    cases u1 <;> cases u2 <;> simp only [if_true, if_false, Bool.false_eq_true] at hcall ⊢
    · exact hcall
    · exact (impls_agree _ _ _ _ r).mpr hcall
    · exact (impls_agree _ _ _ _ r).mp hcall
    · exact hcall
  exact ⟨key true false, key false true⟩

/-- … for the whole observation -/
theorem observation_impls_agree (E : Env K) (P : OverlapPar K) (src band : Spec K)
    (binset : Option (List K)) (force : Force) (o : Obs K) :
    mkObs E P src band binset force true = .ok o ↔ mkObs E P src band binset force false = .ok o :=
  ⟨mkObs_congr_initBins E P src band binset force true false
      (fun model bs b => (constructor_impls_agree E P.mergeThr model bs b).mp) o,
    mkObs_congr_initBins E P src band binset force false true
      (fun model bs b => (constructor_impls_agree E P.mergeThr model bs b).mpr) o⟩

/-- and when the edges are points of the merged grid the constructor does return, with either integrator,
the same bins (neither a `ZeroDivisionError` nor a NaN) -/
theorem constructor_returns (E : Env K) (thr : K) (m : Tree K) (bs : List K)
    (hv : validateWavelengths bs = .ok ()) (w : Option (List K)) (hw : m.waveset thr = .ok w)
    (heval : ∀ x, 0 < x → ∃ y, m.eval E x = .ok y) (edges : List K) (he : binEdges (ascCentres bs) = .ok edges)
    (hedge : ∀ e ∈ edges, e ∈ mergedGrid thr edges (ascCentres bs) w) :
    ∃ b, initBins E thr m bs true = .ok b ∧ initBins E thr m bs false = .ok b ∧ b.binset = ascCentres bs ∧
      b.edges = edges ∧ b.spwave = mergedGrid thr edges (ascCentres bs) w ∧
      sampleTree E m b.spwave = .ok b.flux :=
  initBins_succeeds E thr m bs hv w hw heval edges he hedge

/-- the grid the constructor integrates on: strictly ascending positive wavelengths, each of them a bin edge,
a bin centre or a native sampling point of the observation (the merge of the three arrays; with a
non-positive de-duplication threshold every positive edge is on it), and `flux` is the observation sampled
there -/
theorem constructor_grid (E : Env K) (thr : K) (m : Tree K) (bs : List K) (useC : Bool) (b : Bins K)
    (h : initBins E thr m bs useC = .ok b) :
    StrictAsc b.spwave ∧ sampleTree E m b.spwave = .ok b.flux ∧
      (∀ x ∈ b.spwave, 0 < x ∧ (x ∈ b.edges ∨ x ∈ b.binset ∨ ∃ w, m.waveset thr = .ok (some w) ∧ x ∈ w)) ∧
      (thr ≤ 0 → ∀ e ∈ b.edges, 0 < e → e ∈ b.spwave) := by
  rw [initBins_eq] at h
  obtain ⟨edges, w, flux, r, he, hw, hf, hcall, rfl⟩ := initBinsFrom_inv E thr m _ useC b h
  refine ⟨mergedGrid_strictAsc _ _ _ _, hf, ?_, ?_⟩
  · intro x hx
    refine ⟨mergedGrid_pos _ _ _ _ x hx, ?_⟩
    rcases mergedGrid_mem thr edges _ w x hx with h1 | h1 | ⟨w', rfl, h1⟩
    · exact Or.inl h1
    · exact Or.inr (Or.inl h1)
    · exact Or.inr (Or.inr ⟨w', hw, h1⟩)
  · intro hthr e he' hpos
    exact mergedGrid_mem_of_thr thr hthr edges _ w e he' hpos

/-! ### (e) binned sampling -/

/-- **`sample_binned` in one statement**: on valid wavelengths it returns the binned flux of the compared bin
for every wavelength exactly when each of them is within the `allclose` tolerance of the bin centre it is
compared with (`binset[min(searchsorted(binset, v), n − 1)]`), and raises `InterpolationNotAllowed`
otherwise — nothing else can happen -/
theorem sample_binned_spec (atol rtol : K) (b : Bins K) (hne : b.binset ≠ [])
    (hlen : b.binflux.length = b.binset.length) (x : List K) (hv : validateWavelengths x = .ok ()) :
    sampleBinned atol rtol b x =
      if ∀ v ∈ x, |b.binset.getD (clipIdx b.binset v) 0 - v| ≤ atol + rtol * |v|
      then .ok (x.map fun v => b.binflux.getD (clipIdx b.binset v) 0)
      else .error .interpolationNotAllowed :=
  sampleBinned_spec atol rtol b hne hlen x hv

/-- one wavelength: the bin's flux is returned **iff** the wavelength is within tolerance of the compared
centre … -/
theorem sample_binned_one_iff (atol rtol : K) (b : Bins K) (hne : b.binset ≠ [])
    (hlen : b.binflux.length = b.binset.length) (v : K) (hv : 0 < v) (f : K) :
    sampleBinned atol rtol b [v] = .ok [f] ↔
      (|b.binset.getD (clipIdx b.binset v) 0 - v| ≤ atol + rtol * |v| ∧
        f = b.binflux.getD (clipIdx b.binset v) 0) := by
  have hval : validateWavelengths [v] = .ok () := by
    rw [validate_ok_iff]; exact ⟨by simpa using hv, Or.inl trivial⟩
  rw [sampleBinned_spec atol rtol b hne hlen [v] hval]
  by_cases hc : |b.binset.getD (clipIdx b.binset v) 0 - v| ≤ atol + rtol * |v|
  · rw [if_pos (by simpa using hc)]
    constructor
    · intro h; injection h with h; simp only [List.map_cons, List.map_nil, List.cons.injEq, and_true] at h
      exact ⟨hc, h.symm⟩
    · rintro ⟨_, rfl⟩; rfl
  · rw [if_neg (by simpa using hc)]
    constructor
    · intro h; cases h
    · rintro ⟨h, _⟩; exact absurd h hc

/-- … and it is refused, with `InterpolationNotAllowed`, **iff** it is not -/
theorem sample_binned_refused_iff (atol rtol : K) (b : Bins K) (hne : b.binset ≠ [])
    (hlen : b.binflux.length = b.binset.length) (v : K) (hv : 0 < v) :
    sampleBinned atol rtol b [v] = .error .interpolationNotAllowed ↔
      ¬ |b.binset.getD (clipIdx b.binset v) 0 - v| ≤ atol + rtol * |v| := by
  have hval : validateWavelengths [v] = .ok () := by
    rw [validate_ok_iff]; exact ⟨by simpa using hv, Or.inl trivial⟩
  rw [sampleBinned_spec atol rtol b hne hlen [v] hval]
  by_cases hc : |b.binset.getD (clipIdx b.binset v) 0 - v| ≤ atol + rtol * |v|
  · rw [if_pos (by simpa using hc)]
    constructor
    · intro h; cases h
    · intro h; exact absurd hc h
  · rw [if_neg (by simpa using hc)]
    exact ⟨fun _ => hc, fun _ => rfl⟩

/-- at the bin centres themselves binned sampling returns exactly `binflux` -/
theorem sample_binned_at_centres (atol rtol : K) (hat : 0 ≤ atol) (hrt : 0 ≤ rtol) (b : Bins K)
    (hne : b.binset ≠ []) (hlen : b.binflux.length = b.binset.length) (hs : StrictAsc b.binset)
    (hpos : ∀ x ∈ b.binset, 0 < x) :
    sampleBinned atol rtol b b.binset = .ok b.binflux := by
  have hval : validateWavelengths b.binset = .ok () := by
    rw [validate_ok_iff]; exact ⟨hpos, Or.inl hs⟩
  rw [sampleBinned_spec atol rtol b hne hlen _ hval, if_pos, map_lookup_self _ hs _ hlen]
  intro v hv
  obtain ⟨i, hi, rfl⟩ := List.getElem_of_mem hv
  rw [← getD_eq_getElem _ i hi, clipIdx_getD_self _ hs i hi, sub_self, abs_zero]
  exact add_nonneg hat (mul_nonneg hrt (abs_nonneg _))

/-- a set of wavelengths containing one that is not within tolerance of **any** bin centre — below the first
centre, between two centres, or above the last one — is refused with `InterpolationNotAllowed` -/
theorem sample_binned_refuses_noncentre (atol rtol : K) (b : Bins K) (hne : b.binset ≠ [])
    (hlen : b.binflux.length = b.binset.length) (x : List K) (hv : validateWavelengths x = .ok ())
    (v : K) (hvx : v ∈ x) (hfar : ∀ c ∈ b.binset, ¬ |c - v| ≤ atol + rtol * |v|) :
    sampleBinned atol rtol b x = .error .interpolationNotAllowed := by
  rw [sampleBinned_spec atol rtol b hne hlen x hv, if_neg]
  intro h
  exact hfar _ (getD_mem _ _ (clipIdx_lt _ hne v) 0) (h v hvx)

/-- binned sampling of a constructed observation: the binned fluxes at the bin centres, and only there -/
theorem constructed_sampling (E : Env K) (thr : K) (m : Tree K) (bs : List K) (useC : Bool) (b : Bins K)
    (hv : validateWavelengths bs = .ok ()) (h : initBins E thr m bs useC = .ok b)
    (atol rtol : K) (hat : 0 ≤ atol) (hrt : 0 ≤ rtol) :
    sampleBinned atol rtol b b.binset = .ok b.binflux ∧
      ∀ x, validateWavelengths x = .ok () →
        (∃ v ∈ x, ∀ c ∈ b.binset, ¬ |c - v| ≤ atol + rtol * |v|) →
        sampleBinned atol rtol b x = .error .interpolationNotAllowed := by
  obtain ⟨hor, hA, he, hes, hl⟩ := constructor_orders_centres E thr m bs useC b hv h
  have h2 := (C18.edges_ok_iff _).mp ⟨_, he⟩
  have hne : b.binset ≠ [] := by intro h0; rw [h0] at h2; simp at h2
  have hpos : ∀ x ∈ b.binset, 0 < x := by
    obtain ⟨hp, _⟩ := (validate_ok_iff bs).mp hv
    rcases hor with h1 | h1 <;> rw [h1]
    · exact hp
    · intro x hx; exact hp x (List.mem_reverse.mp hx)
  refine ⟨sample_binned_at_centres atol rtol hat hrt b hne hl hA hpos, ?_⟩
  rintro x hx ⟨v, hvx, hfar⟩
  exact sample_binned_refuses_noncentre atol rtol b hne hl x hx v hvx hfar


/-! ### non-vacuity of the theorems above

irregular centres 1, 2, 4 (edges 1/2, 3/2, 3, 5) and their reversal; the witness observation of
`Synphot.C07w` (flat source 2 × box on [1, 5], centres 2, 4, 8, edges 1, 3, 6, 10); fixed bins with
fluxes 5, 6, 7 for binned sampling with NumPy's `allclose` tolerances -/

section examples
open Synphot.C07w Synphot.C10x.Witness

private theorem ex_edges : binEdges ([1, 2, 4] : List ℚ) = .ok [1/2, 3/2, 3, 5] := by
  simp [binEdges, mids]; norm_num
private theorem ex_edges_desc : binEdges ([4, 2, 1] : List ℚ) = .ok [5, 3, 3/2, 1/2] := by
  simp [binEdges, mids]; norm_num
private theorem ex_valid : validateWavelengths ([1, 2, 4] : List ℚ) = .ok () := by
  rw [validate_ok_iff]
  refine ⟨?_, Or.inl (by norm_num [StrictAsc])⟩
  intro x hx; simp only [List.mem_cons, List.not_mem_nil, or_false] at hx
  rcases hx with rfl | rfl | rfl <;> norm_num
private theorem ex_calc : calcBinEdges ([1, 2, 4] : List ℚ) = .ok [1/2, 3/2, 3, 5] :=
  calcBinEdges_eq _ _ ex_valid ex_edges

example : (3/2 : ℚ) < 2 ∧ (2 : ℚ) < 3 := by
  simpa using centre_inside_bin ([1, 2, 4] : List ℚ) _ (by norm_num [StrictAsc]) ex_edges 1 (by simp)
example : (3/2 : ℚ) < 2 ∧ (2 : ℚ) < 3 := by
  simpa using centre_inside_bin_desc ([4, 2, 1] : List ℚ) _ (by norm_num [StrictDesc]) ex_edges_desc 1 (by simp)
example := bin_geometry ([1, 2, 4] : List ℚ) _ ex_calc
example : calcBinEdges ([4, 2, 1] : List ℚ) = .ok [5, 3, 3/2, 1/2] := by
  have := edges_of_reversed_centres ([1, 2, 4] : List ℚ)
  rw [ex_calc] at this
  exact this

variable (T : Transc ℚ)

example : ∃ b, initBins (env T) 0 wModel ([8, 4, 2] : List ℚ) true = .ok b ∧ b.binset = [2, 4, 8] ∧
    StrictAsc b.binset ∧ binEdges b.binset = .ok b.edges ∧ StrictAsc b.edges ∧ b.binflux.length = 3 := by
  obtain ⟨b, h1, _, hb, _⟩ := wBins (env T)
  have hv : validateWavelengths ([8, 4, 2] : List ℚ) = .ok () := by
    have := validate_reverse (wBs : List ℚ); rw [wValid] at this; exact this
  have hr := constructor_order_irrelevant (env T) 0 wModel (wBs : List ℚ) true wValid
  have h8 : initBins (env T) 0 wModel ([8, 4, 2] : List ℚ) true = .ok b := by
    have e : (wBs : List ℚ).reverse = [8, 4, 2] := rfl
    rw [← e, hr, h1]
  obtain ⟨_, hA, he, hes, hl⟩ := constructor_orders_centres (env T) 0 wModel _ true b hv h8
  exact ⟨b, h8, hb, hA, he, hes, by rw [hl, hb]; rfl⟩

example (useC : Bool) : initBins (env T) 0 wModel ([8, 4, 2] : List ℚ) useC = initBins (env T) 0 wModel [2, 4, 8] useC :=
  constructor_order_irrelevant (env T) 0 wModel (wBs : List ℚ) useC wValid

example (useC : Bool) : mkObs (env T) par (src 2) band (some ([8, 4, 2] : List ℚ)) .none useC =
    mkObs (env T) par (src 2) band (some [2, 4, 8]) .none useC :=
  observation_order_irrelevant (env T) par (src 2) band (wBs : List ℚ) .none useC

example (useC : Bool) : ∃ o bs, mkObs (env T) par (src (2 : ℚ)) band (some wBs) .none useC = .ok o ∧
    validateWavelengths bs = .ok () ∧ initBins (env T) par.mergeThr o.model bs useC = .ok o.bins := by
  obtain ⟨o, ho, _⟩ := wMkObs (env T) useC
  obtain ⟨bs, h1, _, h3⟩ := observation_bins _ _ _ _ _ _ _ o ho
  exact ⟨o, bs, ho, h1, h3⟩

/-- conservation on the witness: `Σ binflux × integrated width = ∫` on the merged grid -/
example : ∃ b : Bins ℚ, initBins (env T) 0 wModel wBs true = .ok b ∧
    (mulFactors b.binflux ((b.ibeg.zip b.iend).map fun p => segWidth (pairDiffs b.spwave) p.1 p.2)).sum =
      trapzXY
        (gridSlice b.spwave (searchLeft b.spwave (b.edges.headD 0)) (searchLeft b.spwave (b.edges.getLastD 0)))
        (gridSlice b.flux (searchLeft b.spwave (b.edges.headD 0)) (searchLeft b.spwave (b.edges.getLastD 0))) := by
  obtain ⟨b, h1, _⟩ := wBins (env T)
  exact ⟨b, h1, conservation_constructed (env T) 0 wModel wBs true b wValid h1⟩

/-- … with the bin widths 2, 3, 4 of the edges 1, 3, 6, 10, the integral running from edge 1 to edge 10 -/
example : ∃ (b : Bins ℚ) (xs ys : List ℚ), initBins (env T) 0 wModel wBs true = .ok b ∧
    (mulFactors b.binflux [2, 3, 4]).sum = trapzXY xs ys ∧ xs.head? = some 1 ∧ xs.getLast? = some 10 := by
  obtain ⟨b, h1, _⟩ := wBins (env T)
  obtain ⟨_, he, hg, _⟩ := wBins_edges_on_grid (env T) true b h1
  have hbw : binWidths b.edges = .ok ([2, 3, 4] : List ℚ) := by
    rw [he]; simp only [wEdges, binWidths, absDiffs]; norm_num
  obtain ⟨xs, ys, _, _, h3, _, h5, h6⟩ :=
    conservation_between_edges (env T) 0 wModel wBs true b wValid h1 hg _ hbw
  refine ⟨b, xs, ys, h1, h3, ?_, ?_⟩
  · rw [h5, he]; rfl
  · rw [h6, he]; rfl

example (useC : Bool) : ∃ (o : Obs ℚ) (xs ys : List ℚ),
    mkObs (env T) par (src 2) band (some wBs) .none useC = .ok o ∧
    (mulFactors o.bins.binflux [2, 3, 4]).sum = trapzXY xs ys ∧ xs.head? = some 1 ∧ xs.getLast? = some 10 := by
  obtain ⟨o, ho, _, he, hg⟩ := wMkObs (env T) useC
  have hbw : binWidths o.bins.edges = .ok ([2, 3, 4] : List ℚ) := by
    rw [he]; simp only [wEdges, binWidths, absDiffs]; norm_num
  obtain ⟨xs, ys, _, _, h3, _, h5, h6, _⟩ :=
    observation_conserves_flux (env T) par (src 2) band _ .none useC o ho hg _ hbw
  refine ⟨o, xs, ys, ho, h3, ?_, ?_⟩
  · rw [h5, he]; rfl
  · rw [h6, he]; rfl

/-- the first binned flux of the witness lies between the smallest (0) and largest (2) unbinned value -/
example : ∃ b : Bins ℚ, initBins (env T) 0 wModel wBs true = .ok b ∧
    0 ≤ b.binflux.getD 0 0 ∧ b.binflux.getD 0 0 ≤ 2 := by
  obtain ⟨b, h1, _⟩ := wBins (env T)
  obtain ⟨hb, _, _, hf⟩ := wBins_edges_on_grid (env T) true b h1
  obtain ⟨_, _, _, _, hl⟩ := constructor_orders_centres (env T) 0 wModel wBs true b wValid h1
  have := binflux_between_constructed (env T) 0 wModel wBs true b wValid h1 0 (by rw [hl, hb]; simp [wBs]) 0 2
    (fun v hv => wFluxBounds (env T) _ _ hf v (List.mem_of_mem_drop (List.mem_of_mem_take hv)))
  exact ⟨b, h1, this.1, this.2.1⟩

/-- the four-bin call of `TestCalcbinflux`-like shape: two bins of two unit segments each -/
example : ∃ r, calcbinfluxC [0, 2] [2, 4] ([1, 2, 3, 4] : List ℚ) [1, 1, 1, 1] = .ok r ∧
    calcbinfluxPy [0, 2] [2, 4] ([1, 2, 3, 4] : List ℚ) [1, 1, 1, 1] = .ok r ∧ r.1.length = 2 := by
  obtain ⟨r, h1, h2, h3, _⟩ := consistent_call_identical [0, 2] [2, 4] ([1, 2, 3, 4] : List ℚ) [1, 1, 1, 1]
    ⟨rfl, rfl, by intro d hd; simp at hd; rw [hd]; norm_num, by
      intro p hp
      simp only [List.zip_cons_cons, List.zip_nil_right, List.mem_cons, List.not_mem_nil, or_false] at hp
      rcases hp with rfl | rfl <;> simp⟩
  exact ⟨r, h1, h2, h3⟩

example : ∃ b : Bins ℚ, initBins (env T) 0 wModel wBs true = .ok b ∧
    ConsistentCall b.ibeg b.iend (pairSums b.flux) (pairDiffs b.spwave) := by
  obtain ⟨b, h1, _⟩ := wBins (env T)
  exact ⟨b, h1, constructor_call_consistent (env T) 0 wModel wBs true b wValid h1
    (wBins_edges_on_grid (env T) true b h1).2.2.1⟩

example : ∃ b : Bins ℚ, initBins (env T) 0 wModel wBs false = .ok b ∧ StrictAsc b.spwave ∧
    b.flux.length = b.spwave.length := by
  obtain ⟨b, _, h2, _⟩ := wBins (env T)
  obtain ⟨_, _, _, _, _, _, _, h7, _, h9⟩ := constructor_indices (env T) 0 wModel wBs false b wValid h2
  exact ⟨b, h2, h7, h9⟩

example : ∃ b : Bins ℚ, initBins (env T) 0 wModel wBs false = .ok b := by
  obtain ⟨b, h1, _⟩ := wBins (env T)
  exact ⟨b, (constructor_impls_agree (env T) 0 wModel wBs b).mp h1⟩

example : ∃ o : Obs ℚ, mkObs (env T) par (src 2) band (some wBs) .none false = .ok o := by
  obtain ⟨o, ho, _⟩ := wMkObs (env T) true
  exact ⟨o, (observation_impls_agree (env T) par (src 2) band _ .none o).mp ho⟩

example := constructor_returns (env T) 0 wModel (wBs : List ℚ) wValid _ wWaveset (fun x _ => ⟨_, wEval (env T) x⟩) wEdges
    (by rw [wAsc]; exact wBinEdges) (by rw [wAsc]; exact wHedge)

example : ∃ b : Bins ℚ, initBins (env T) 0 wModel wBs true = .ok b ∧ StrictAsc b.spwave ∧
    ∀ e ∈ b.edges, 0 < e → e ∈ b.spwave := by
  obtain ⟨b, h1, _⟩ := wBins (env T)
  obtain ⟨h2, _, _, h4⟩ := constructor_grid (env T) 0 wModel wBs true b h1
  exact ⟨b, h1, h2, h4 (le_refl _)⟩
/-! binned sampling: centres 2, 4, 8 with fluxes 5, 6, 7; `atol = 1e-8`, `rtol = 1e-5` -/

private theorem s_ne : (sBins : Bins ℚ).binset ≠ [] := by simp [sBins]

/-- at the centre 4 the flux 6 is returned -/
example : sampleBinned (1/10^8) (1/10^5) (sBins : Bins ℚ) [4] = .ok [6] := by
  rw [sample_binned_one_iff _ _ _ s_ne rfl 4 (by norm_num)]
  simp only [sBins, sIdx_centre]
  norm_num

/-- between the centres 2 and 4 the wavelength 3 is refused -/
example : sampleBinned (1/10^8) (1/10^5) (sBins : Bins ℚ) [3] = .error .interpolationNotAllowed := by
  rw [sample_binned_refused_iff _ _ _ s_ne rfl 3 (by norm_num)]
  simp only [sBins, sIdx_between]
  norm_num [abs_of_pos]

example : sampleBinned (1/10^8) (1/10^5) (sBins : Bins ℚ) [3] =
    if ∀ v ∈ ([3] : List ℚ), |(sBins : Bins ℚ).binset.getD (clipIdx (sBins : Bins ℚ).binset v) 0 - v| ≤ 1/10^8 + 1/10^5 * |v|
    then .ok (([3] : List ℚ).map fun v => (sBins : Bins ℚ).binflux.getD (clipIdx (sBins : Bins ℚ).binset v) 0)
    else .error .interpolationNotAllowed :=
  sample_binned_spec _ _ _ s_ne rfl [3] (by
    rw [validate_ok_iff]; exact ⟨by intro x hx; simp at hx; rw [hx]; norm_num, Or.inl trivial⟩)

example : sampleBinned (1/10^8) (1/10^5) (sBins : Bins ℚ) [2, 4, 8] = .ok [5, 6, 7] :=
  sample_binned_at_centres _ _ (by norm_num) (by norm_num) (sBins : Bins ℚ) s_ne rfl wStrictAsc
    ((validate_ok_iff _).mp wValid).1

/-- below the first centre (1), between two centres (3), above the last one (9): all refused -/
private theorem s_far (v : ℚ) (hv : v = 1 ∨ v = 3 ∨ v = 9) :
    ∀ c ∈ (sBins : Bins ℚ).binset, ¬ |c - v| ≤ 1/10^8 + 1/10^5 * |v| := by
  intro c hc
  simp only [sBins, List.mem_cons, List.not_mem_nil, or_false] at hc
  rcases hv with rfl | rfl | rfl <;> rcases hc with rfl | rfl | rfl <;> norm_num [abs_of_pos, abs_of_neg]

private theorem s_valid1 (v : ℚ) (hv : 0 < v) : validateWavelengths [v] = .ok () := by
  rw [validate_ok_iff]; exact ⟨by simpa using hv, Or.inl trivial⟩

example : sampleBinned (1/10^8) (1/10^5) (sBins : Bins ℚ) [1] = .error .interpolationNotAllowed :=
  sample_binned_refuses_noncentre _ _ _ s_ne rfl [1] (s_valid1 1 (by norm_num)) 1 (by simp) (s_far 1 (by simp))
example : sampleBinned (1/10^8) (1/10^5) (sBins : Bins ℚ) [3] = .error .interpolationNotAllowed :=
  sample_binned_refuses_noncentre _ _ _ s_ne rfl [3] (s_valid1 3 (by norm_num)) 3 (by simp) (s_far 3 (by simp))
example : sampleBinned (1/10^8) (1/10^5) (sBins : Bins ℚ) [9] = .error .interpolationNotAllowed :=
  sample_binned_refuses_noncentre _ _ _ s_ne rfl [9] (s_valid1 9 (by norm_num)) 9 (by simp) (s_far 9 (by simp))

example : ∃ b : Bins ℚ, initBins (env T) 0 wModel wBs true = .ok b ∧
    sampleBinned (1/10^8) (1/10^5) b b.binset = .ok b.binflux := by
  obtain ⟨b, h1, _⟩ := wBins (env T)
  exact ⟨b, h1, (constructed_sampling (env T) 0 wModel wBs true b wValid h1 _ _ (by norm_num) (by norm_num)).1⟩

end examples

end Synphot.C07
