/-
  C08 — Count rate equals area × sum of binned photons and behaves linearly.
-/
import Synphot.Lemmas.ObsPhot
import Synphot.Lemmas.C08x
import Synphot.Props.C07
import Synphot.Props.C01
import Synphot.Props.C06

set_option linter.unusedSectionVars false
set_option linter.unusedVariables false
set_option linter.unusedSimpArgs false

namespace Synphot.C08
open Synphot
variable {K : Type} [Field K] [LinearOrder K] [IsStrictOrderedRing K]

/-- the count rate over the full range, from the PHOTLAM samples `yp` at wavelengths `x` -/
def fullCount (E : Env K) (x yp : List K) (area : Option K) : Except Err K := do
  let y ← convertFlux E.P E.T x yp .photlam .count area none
  let val := y.sum
  validateTotalflux val
  pure val

/-- binned, no sub-range, default wavelengths: `countrate` is `fullCount` of the binned fluxes at the
bin centres -/
theorem countrate_binned_full (E : Env K) (thr atol rtol : K) (o : Obs K) (area : Option K) (bf : List K)
    (hs : sampleBinned atol rtol o.bins o.bins.binset = .ok bf) :
    countrate E thr atol rtol o area true none none false = fullCount E o.bins.binset bf area := by
  unfold countrate fullCount
  simp only [if_true, hs, bind, Except.bind, pure, Except.pure]

/-- **closed form**: the binned count rate is `area × Σ binflux_i × width_i` (a positive total is
returned, a non-positive one is an error) -/
theorem fullCount_closed_form (E : Env K) (x yp e bw : List K) (a : K)
    (hv : validateWavelengths x = .ok ()) (he : binEdges x = .ok e) (hw : binWidths e = .ok bw) (hbw : bw.length = x.length)
    (hlen : x.length = yp.length) :
    fullCount E x yp (some a) =
      if a * (mulFactors yp bw).sum ≤ 0 then .error .synphotError else .ok (a * (mulFactors yp bw).sum) := by
  unfold fullCount
  rw [convertFlux_count E.P E.T x yp e bw a hv he hw hbw hlen]
  simp only [bind, Except.bind, mulFactors_sum_scale, validateTotalflux]
  split_ifs <;> rfl

/-- without an area a count rate is refused -/
theorem fullCount_needs_area (E : Env K) (x0 y0 : K) (xs ys : List K) :
    ∃ err, fullCount E (x0 :: xs) (y0 :: ys) none = .error err := by
  obtain ⟨err, he⟩ := C01.convertFlux_no_area (P := E.P) (T := E.T) (.photlam : FluxUnit K) .count
    (by intro h; cases h) none (Or.inr rfl) x0 y0 xs ys
  exact ⟨err, by simp [fullCount, he, bind, Except.bind]⟩

/-- proportional to the collecting area -/
theorem count_area_linear (E : Env K) (x yp e bw : List K) (a k : K) (hk : 0 < k)
    (hv : validateWavelengths x = .ok ()) (he : binEdges x = .ok e) (hw : binWidths e = .ok bw) (hbw : bw.length = x.length)
    (hlen : x.length = yp.length) (v : K) (h : fullCount E x yp (some a) = .ok v) :
    fullCount E x yp (some (k * a)) = .ok (k * v) := by
  rw [fullCount_closed_form E x yp e bw a hv he hw hbw hlen] at h
  rw [fullCount_closed_form E x yp e bw (k * a) hv he hw hbw hlen]
  split_ifs at h with h0
  injection h with h; subst h
  have hpos : 0 < a * (mulFactors yp bw).sum := not_le.mp h0
  have : ¬ (k * a * (mulFactors yp bw).sum ≤ 0) := by
    rw [mul_assoc]; exact not_le.mpr (mul_pos hk hpos)
  rw [if_neg this]; congr 1; ring

/-- proportional to a scalar multiplying the flux -/
theorem count_flux_linear (E : Env K) (x yp e bw : List K) (a k : K) (hk : 0 < k)
    (hv : validateWavelengths x = .ok ()) (he : binEdges x = .ok e) (hw : binWidths e = .ok bw) (hbw : bw.length = x.length)
    (hlen : x.length = yp.length) (v : K) (h : fullCount E x yp (some a) = .ok v) :
    fullCount E x (yp.map (k * ·)) (some a) = .ok (k * v) := by
  rw [fullCount_closed_form E x yp e bw a hv he hw hbw hlen] at h
  rw [fullCount_closed_form E x (yp.map (k * ·)) e bw a hv he hw hbw (by simpa using hlen)]
  split_ifs at h with h0
  injection h with h; subst h
  have hpos : 0 < a * (mulFactors yp bw).sum := not_le.mp h0
  rw [mulFactors_smul, sum_map_mul_left]
  have e1 : a * (k * (mulFactors yp bw).sum) = k * (a * (mulFactors yp bw).sum) := by ring
  rw [e1, if_neg (not_le.mpr (mul_pos hk hpos))]

/-- the effective stimulus in counts is the unbinned count rate; in OBMAG it is −2.5 log₁₀ of it -/
theorem effstim_count_is_countrate (E : Env K) (thr atol rtol : K) (o : Obs K) (wl : Option (List K))
    (area : Option K) (vega : Option (Tree K)) :
    effstim E thr atol rtol o .count wl area vega = countrate E thr atol rtol o area false wl none false := rfl

theorem effstim_obmag_is_mag_of_countrate (E : Env K) (thr atol rtol : K) (o : Obs K)
    (wl : Option (List K)) (area : Option K) (vega : Option (Tree K)) (v : K)
    (h : countrate E thr atol rtol o area false wl none false = .ok v) :
    effstim E thr atol rtol o .obmag wl area vega = toMag E.T v := by
  simp [effstim, h, bind, Except.bind]

/-! ### restriction to a wavelength range -/

/-- the bins selected for a range `[w1, w2]` form the contiguous index run `[i1, i2)` with
`i1 = searchsorted(edges, w1) − 1`, `i2 = searchsorted(edges, w2)`: it contains every bin whose
interior meets the range and no bin at positive distance from it -/
theorem range_slice_spec (edges : List K) (hs : StrictAsc edges) (w1 w2 d : K) (j : Nat)
    (hj : j + 1 < edges.length) :
    (edges.getD j d < w2 ∧ w1 < edges.getD (j + 1) d →
        (searchLeft edges w1 : Int) - 1 ≤ j ∧ j < searchLeft edges w2) ∧
    ((searchLeft edges w1 : Int) - 1 ≤ j ∧ j < searchLeft edges w2 → 1 ≤ searchLeft edges w1 →
        w1 ≤ edges.getD (j + 1) d ∧ edges.getD j d < w2) := by
  have hp : edges.Pairwise (· < ·) := by
    rw [← List.sortedLT_iff_pairwise, List.sortedLT_iff_isChain, ← strictAsc_iff_chain]; exact hs
  have mono : ∀ a b, a < b → b < edges.length → edges.getD a d < edges.getD b d := by
    intro a b hab hb
    have ha : a < edges.length := lt_trans hab hb
    simp only [List.getD_eq_getElem?_getD, List.getElem?_eq_getElem ha, List.getElem?_eq_getElem hb,
      Option.getD_some]
    exact List.pairwise_iff_getElem.mp hp a b ha hb hab
  constructor
  · rintro ⟨h1, h2⟩
    constructor
    · -- edges[j+1] > w1 ⇒ j+1 ≥ searchLeft w1
      by_contra hc
      have hc' : j + 1 < searchLeft edges w1 := by omega
      have := searchLeft_lt edges w1 d (j + 1) hc'
      exact absurd h2 (not_lt.mpr (le_of_lt this))
    · -- edges[j] < w2 ⇒ j < searchLeft w2
      by_contra hc
      have hc' : searchLeft edges w2 ≤ j := by omega
      have hlt : searchLeft edges w2 < edges.length := by omega
      have hge := searchLeft_ge edges w2 d hlt
      rcases Nat.lt_or_ge (searchLeft edges w2) j with hlt' | hge'
      · have := mono _ _ hlt' (by omega)
        exact absurd h1 (not_lt.mpr (le_trans hge (le_of_lt this)))
      · have : searchLeft edges w2 = j := by omega
        rw [this] at hge
        exact absurd h1 (not_lt.mpr hge)
  · rintro ⟨h1, h2⟩ hpos
    constructor
    · -- j+1 ≥ searchLeft w1 ⇒ edges[j+1] ≥ w1
      have hle : searchLeft edges w1 ≤ j + 1 := by omega
      have hlt : searchLeft edges w1 < edges.length := by omega
      have hge := searchLeft_ge edges w1 d hlt
      rcases Nat.lt_or_ge (searchLeft edges w1) (j + 1) with hlt' | hge'
      · exact le_trans hge (le_of_lt (mono _ _ hlt' hj))
      · have : searchLeft edges w1 = j + 1 := by omega
        rw [this] at hge; exact hge
    · exact searchLeft_lt edges w2 d j h2

/-- for non-negative counts a sum over part of the bins never exceeds the total -/
theorem slice_le_total (y : List K) (hy : ∀ v ∈ y, 0 ≤ v) (a b : Int) : (pySlice y a b).sum ≤ y.sum := by
  unfold pySlice
  have h1 : ∀ (l : List K) (n : Nat), (∀ v ∈ l, 0 ≤ v) → (l.take n).sum ≤ l.sum := by
    intro l n hl
    have := List.sum_take_add_sum_drop l n
    have h0 : 0 ≤ (l.drop n).sum := List.sum_nonneg (fun v hv => hl v (List.mem_of_mem_drop hv))
    linarith
  have h2 : ∀ (l : List K) (n : Nat), (∀ v ∈ l, 0 ≤ v) → (l.drop n).sum ≤ l.sum := by
    intro l n hl
    have := List.sum_take_add_sum_drop l n
    have h0 : 0 ≤ (l.take n).sum := List.sum_nonneg (fun v hv => hl v (List.mem_of_mem_take hv))
    linarith
  exact le_trans (h1 _ _ (fun v hv => hy v (List.mem_of_mem_drop hv))) (h2 _ _ hy)

/-- what a range outside / sticking out of the observation does -/
theorem range_errors (a1 a2 b1 b2 : K) :
    (overlapStatus a1 a2 b1 b2 = .none → (a1 ≤ a2 → b1 ≤ b2 → (a2 < b1 ∨ b2 < a1))) := by
  intro h ha hb
  exact (C06.status_none_iff a1 a2 b1 b2 ha hb).mp h

/-- a non-positive total is reported as an error, not returned -/
theorem nonpositive_total_is_error (v : K) (h : v ≤ 0) : validateTotalflux v = .error .synphotError := by
  simp [validateTotalflux, h]

/-! ## deepened statements (helpers in `Lemmas/C08x.lean`) -/

/-! ### (a) closed forms, binned and unbinned -/

/-- unbinned, no sub-range: `countrate` is `fullCount` of the native samples at the native wavelengths
(the observation's waveset, or the caller's) -/
theorem countrate_unbinned_full (E : Env K) (thr atol rtol : K) (o : Obs K) (area : Option K)
    (wl : Option (List K)) (x yp : List K) (hx : wavelengthsOr thr o.model wl = .ok x)
    (hyp : sampleTree E o.model x = .ok yp) :
    countrate E thr atol rtol o area false wl none false = fullCount E x yp area := by
  unfold countrate fullCount
  simp only [Bool.false_eq_true, if_false, hx, hyp, bind, Except.bind, pure, Except.pure]

/-- **closed form, unbinned**: area × Σ native sample × width of its own bin (the native wavelengths taken as
bin centres) -/
theorem countrate_unbinned_closed_form (E : Env K) (thr atol rtol : K) (o : Obs K) (a : K)
    (wl : Option (List K)) (x yp e bw : List K) (hx : wavelengthsOr thr o.model wl = .ok x)
    (hyp : sampleTree E o.model x = .ok yp) (he : binEdges x = .ok e) (hw : binWidths e = .ok bw) :
    countrate E thr atol rtol o (some a) false wl none false =
      if a * (mulFactors yp bw).sum ≤ 0 then .error .synphotError else .ok (a * (mulFactors yp bw).sum) := by
  rw [countrate_unbinned_full E thr atol rtol o (some a) wl x yp hx hyp]
  exact fullCount_closed_form E x yp e bw a (wavelengthsOr_valid thr o.model wl x hx) he hw
    (binWidths_length_of_edges x e bw he hw) (C09.sampleTree_length E o.model x yp hyp).symm

/-- **closed form, binned**: on bins as the constructor builds them the count rate is
area × Σ binflux × bin width, with the observation's own `binflux` and `bin_edges` -/
theorem countrate_binned_closed_form (E : Env K) (thr atol rtol : K) (hat : 0 ≤ atol) (hrt : 0 ≤ rtol)
    (o : Obs K) (hg : GoodBins o.bins) (a : K) :
    countrate E thr atol rtol o (some a) true none none false =
      if a * (mulFactors o.bins.binflux (absDiffs o.bins.edges)).sum ≤ 0 then .error .synphotError
      else .ok (a * (mulFactors o.bins.binflux (absDiffs o.bins.edges)).sum) := by
  obtain ⟨_, h2, _⟩ := binned_stages E thr atol rtol hat hrt o hg a
  simp only [crSamples, if_true] at h2
  rw [countrate_binned_full E thr atol rtol o (some a) o.bins.binflux h2]
  exact fullCount_closed_form E _ _ _ _ a hg.valid hg.2.2.1 hg.widths
    (binWidths_length_of_edges _ _ _ hg.2.2.1 hg.widths) hg.2.2.2.symm

/-- … for every observation the constructor returns -/
theorem observation_countrate_closed_form (E : Env K) (P : OverlapPar K) (src band : Spec K)
    (binset : Option (List K)) (force : Force) (useC : Bool) (o : Obs K)
    (h : mkObs E P src band binset force useC = .ok o) (thr atol rtol : K) (hat : 0 ≤ atol) (hrt : 0 ≤ rtol)
    (a : K) :
    binWidths o.bins.edges = .ok (absDiffs o.bins.edges) ∧
    countrate E thr atol rtol o (some a) true none none false =
      if a * (mulFactors o.bins.binflux (absDiffs o.bins.edges)).sum ≤ 0 then .error .synphotError
      else .ok (a * (mulFactors o.bins.binflux (absDiffs o.bins.edges)).sum) := by
  have hg := mkObs_goodBins E P src band binset force useC o h
  exact ⟨hg.widths, countrate_binned_closed_form E thr atol rtol hat hrt o hg a⟩

/-- with C07's conservation: when the edges are points of the merged grid, the binned count rate of a
constructed observation is **area × the trapezoid integral of the unbinned observation between the outer
bin edges** on the merged grid -/
theorem observation_countrate_is_area_times_integral (E : Env K) (P : OverlapPar K) (src band : Spec K)
    (binset : Option (List K)) (force : Force) (useC : Bool) (o : Obs K)
    (h : mkObs E P src band binset force useC = .ok o) (hedge : ∀ e ∈ o.bins.edges, e ∈ o.bins.spwave)
    (thr atol rtol : K) (hat : 0 ≤ atol) (hrt : 0 ≤ rtol) (a : K) :
    ∃ xs ys, xs.head? = o.bins.edges.head? ∧ xs.getLast? = o.bins.edges.getLast? ∧
      sampleTree E o.model o.bins.spwave = .ok o.bins.flux ∧
      xs = gridSlice o.bins.spwave (searchLeft o.bins.spwave (o.bins.edges.headD 0))
          (searchLeft o.bins.spwave (o.bins.edges.getLastD 0)) ∧
      ys = gridSlice o.bins.flux (searchLeft o.bins.spwave (o.bins.edges.headD 0))
          (searchLeft o.bins.spwave (o.bins.edges.getLastD 0)) ∧
      countrate E thr atol rtol o (some a) true none none false =
        if a * trapzXY xs ys ≤ 0 then .error .synphotError else .ok (a * trapzXY xs ys) := by
  obtain ⟨hw, hc⟩ := observation_countrate_closed_form E P src band binset force useC o h thr atol rtol hat hrt a
  obtain ⟨xs, ys, hx, hy, h1, _, h3, h4, h5⟩ :=
    C07.observation_conserves_flux E P src band binset force useC o h hedge _ hw
  exact ⟨xs, ys, h3, h4, h5, hx, hy, by rw [hc, h1]⟩

/-! ### (b) proportional to the area, in either area unit -/

/-- **every** count-rate call (binned or not, any wavelengths, any range, forced or not) is proportional to
the collecting area -/
theorem countrate_area_linear (E : Env K) (thr atol rtol : K) (o : Obs K) (binned : Bool)
    (wl : Option (List K)) (waverange : Option (K × K)) (force : Bool) (a k : K) (hk : 0 < k) (v : K)
    (h : countrate E thr atol rtol o (some a) binned wl waverange force = .ok v) :
    countrate E thr atol rtol o (some (k * a)) binned wl waverange force = .ok (k * v) := by
  obtain ⟨x, yp, y, influx, hx, hyp, hy, hs, hv, hpos⟩ := countrate_ok_inv E thr atol rtol o _ binned wl waverange force v h
  have hlen := crSamples_length E atol rtol o binned x yp hyp
  obtain ⟨e, bw, he, hw, _, rfl⟩ := convertFlux_count_inv E.P E.T x yp y a hlen hy
  have hy' := convertFlux_count_of E.P E.T x yp e bw (k * a) hlen he hw
  rw [countrate_of_stages E thr atol rtol o _ binned wl waverange force x yp _ hx hyp hy',
    mulFactors_scale_area, rangeSel_map, hs]
  simp only [Except.map, rateOf, sum_map_mul_left]
  rw [← hv, if_neg (not_le.mpr (mul_pos hk hpos))]

/-- the area given as a Quantity in m² is converted to cm² (× 10⁴): the same area in either unit gives the
same rate, i.e. the m² number counts 10⁴ times the cm² number -/
theorem countrate_area_units (E : Env K) (thr atol rtol : K) (o : Obs K) (binned : Bool)
    (wl : Option (List K)) (waverange : Option (K × K)) (force : Bool) (a v : K)
    (h : countrate E thr atol rtol o (some (Bandpar.AreaUnit.toCm2 .cm2 a)) binned wl waverange force = .ok v) :
    countrate E thr atol rtol o (some (Bandpar.AreaUnit.toCm2 .m2 a)) binned wl waverange force = .ok (10000 * v) := by
  have := countrate_area_linear E thr atol rtol o binned wl waverange force a 10000 (by norm_num) v h
  simpa [Bandpar.AreaUnit.toCm2, mul_comm] using this

/-- proportional to the area in whatever unit it is given -/
theorem countrate_area_linear_any_unit (E : Env K) (thr atol rtol : K) (o : Obs K) (binned : Bool)
    (wl : Option (List K)) (waverange : Option (K × K)) (force : Bool) (u : Bandpar.AreaUnit) (a k : K) (hk : 0 < k)
    (v : K) (h : countrate E thr atol rtol o (some (u.toCm2 a)) binned wl waverange force = .ok v) :
    countrate E thr atol rtol o (some (u.toCm2 (k * a))) binned wl waverange force = .ok (k * v) := by
  have e : u.toCm2 (k * a) = k * u.toCm2 a := by cases u <;> simp [Bandpar.AreaUnit.toCm2, mul_assoc]
  rw [e]
  exact countrate_area_linear E thr atol rtol o binned wl waverange force _ k hk v h

/-! ### (c) effective stimulus in counts and OBMAG -/

/-- a returned count rate is positive -/
theorem countrate_ok_pos (E : Env K) (thr atol rtol : K) (o : Obs K) (area : Option K) (binned : Bool)
    (wl : Option (List K)) (waverange : Option (K × K)) (force : Bool) (v : K)
    (h : countrate E thr atol rtol o area binned wl waverange force = .ok v) : 0 < v := by
  obtain ⟨_, _, _, _, _, _, _, _, _, hpos⟩ := countrate_ok_inv E thr atol rtol o area binned wl waverange force v h
  exact hpos

/-- OBMAG is −2.5 log₁₀ of the unbinned count rate, on the observation's own waveset (`wl = none`) as well as
on the caller's wavelengths (`wl = some w`): a value, never an error, whenever the count rate is returned -/
theorem effstim_obmag_value (E : Env K) (thr atol rtol : K) (o : Obs K) (wl : Option (List K))
    (area : Option K) (vega : Option (Tree K)) (v : K)
    (h : countrate E thr atol rtol o area false wl none false = .ok v) :
    effstim E thr atol rtol o .count wl area vega = .ok v ∧
      effstim E thr atol rtol o .obmag wl area vega = .ok (-(5/2) * E.T.log10 v) := by
  refine ⟨h, ?_⟩
  rw [effstim_obmag_is_mag_of_countrate E thr atol rtol o wl area vega v h]
  unfold toMag
  rw [if_neg (not_le.mpr (countrate_ok_pos E thr atol rtol o area false wl none false v h))]

/-- and whatever the count rate raises, both forms of the effective stimulus raise -/
theorem effstim_count_errors (E : Env K) (thr atol rtol : K) (o : Obs K) (wl : Option (List K))
    (area : Option K) (vega : Option (Tree K)) (e : Err)
    (h : countrate E thr atol rtol o area false wl none false = .error e) :
    effstim E thr atol rtol o .count wl area vega = .error e ∧
      effstim E thr atol rtol o .obmag wl area vega = .error e := by
  refine ⟨h, ?_⟩
  simp [effstim, h, bind, Except.bind]


/-! ### (d) restriction to a wavelength range -/

/-- **the bins a range selects**: with the lower limit above the first edge, the selected counts are ONE
contiguous run `y[lo:hi]` of whole bins, and bin `j` belongs to it **iff** it reaches the range —
`edges[j] < w2` and `w1 ≤ edges[j+1]`.  So every bin overlapping `[w1, w2]` is in (also one that only
touches `w1` with its upper edge), and no bin detached from the range is -/
theorem range_selects_contiguous_run (edges y : List K) (hs : StrictAsc edges) (hy : y.length + 1 = edges.length)
    (w1 w2 : K) (h1 : edges.getD 0 0 < w1) :
    ∃ lo hi, binnedRange edges y w1 w2 = (y.drop lo).take (hi - lo) ∧
      ∀ j, j < y.length → ((lo ≤ j ∧ j < hi) ↔ (edges.getD j 0 < w2 ∧ w1 ≤ edges.getD (j + 1) 0)) := by
  have hpos : 1 ≤ searchLeft edges w1 := searchLeft_pos edges w1 0 (by omega) h1
  refine ⟨searchLeft edges w1 - 1, searchLeft edges w2, binnedRange_eq edges y w1 w2 hpos, ?_⟩
  intro j hj
  exact selected_iff edges hs w1 w2 j (by omega) hpos

/-- the full range — from the first to the last bin centre, the widest one `overlap_status` calls 'full' —
selects every bin -/
theorem full_range_selects_all (c e y : List K) (hc : StrictAsc c) (he : binEdges c = .ok e)
    (hy : y.length = c.length) : binnedRange e y (c.getD 0 0) (c.getD (c.length - 1) 0) = y :=
  binnedRange_full c e y hc he hy

/-- monotone in the range: for non-negative counts a larger range never gives less -/
theorem range_sum_monotone (edges y : List K) (hy : ∀ v ∈ y, 0 ≤ v) (w1 w2 w1' w2' : K)
    (h1 : edges.getD 0 0 < w1') (hne : edges ≠ []) (hw1 : w1' ≤ w1) (hw2 : w2 ≤ w2') :
    (binnedRange edges y w1 w2).sum ≤ (binnedRange edges y w1' w2').sum :=
  binnedRange_mono edges y hy w1 w2 w1' w2'
    (searchLeft_pos edges w1' 0 (List.length_pos_iff.mpr hne) h1) hw1 hw2

/-- the binned count rate over a range inside the observation (`overlap_status` 'full'), on bins as the
constructor builds them: the sum of the selected run of per-bin counts, validated -/
theorem countrate_binned_range (E : Env K) (thr atol rtol : K) (hat : 0 ≤ atol) (hrt : 0 ≤ rtol) (o : Obs K)
    (hg : GoodBins o.bins) (a wa wb : K) (force : Bool)
    (h1 : o.bins.binset.getD 0 0 ≤ min wa wb) (h2 : max wa wb ≤ o.bins.binset.getD (o.bins.binset.length - 1) 0) :
    countrate E thr atol rtol o (some a) true none (some (wa, wb)) force =
      rateOf (.ok (binnedRange o.bins.edges (binCounts o.bins a) (min wa wb) (max wa wb))) := by
  obtain ⟨s1, s2, s3⟩ := binned_stages E thr atol rtol hat hrt o hg a
  rw [countrate_of_stages E thr atol rtol o _ true none _ force _ _ _ s1 s2 s3]
  have hne := hg.ne
  rcases hb : o.bins.binset with _ | ⟨c0, ct⟩
  · exact absurd hb hne
  · have hs : StrictAsc (c0 :: ct) := by rw [← hb]; exact hg.1
    have hl : (c0 :: ct).getD ((c0 :: ct).length - 1) 0 = ct.getLastD c0 := by
      rw [List.getLastD_eq_getLast?, List.getD_eq_getElem?_getD]
      cases ct with
      | nil => rfl
      | cons c1 ct =>
        rw [List.getLast?_eq_getElem?]
        simp
    rw [hb] at h1 h2
    rw [hl] at h2
    simp only [List.getD_cons_zero] at h1
    rw [rangeSel_cases o _ _ true none wa wb force c0 (ct.getLastD c0) (listMin_strictAsc c0 ct hs)
      (listMax_strictAsc c0 ct hs), if_pos ⟨h1, h2⟩]
    simp only [cutRange, crEdgesY, if_true, pure, Except.pure, binnedRange]

/-- **the full range reproduces the unrestricted value** (given in either order, forced or not) -/
theorem countrate_full_range (E : Env K) (thr atol rtol : K) (hat : 0 ≤ atol) (hrt : 0 ≤ rtol) (o : Obs K)
    (hg : GoodBins o.bins) (a wa wb : K) (force : Bool)
    (h1 : min wa wb = o.bins.binset.getD 0 0) (h2 : max wa wb = o.bins.binset.getD (o.bins.binset.length - 1) 0) :
    countrate E thr atol rtol o (some a) true none (some (wa, wb)) force =
      countrate E thr atol rtol o (some a) true none none false := by
  rw [countrate_binned_range E thr atol rtol hat hrt o hg a wa wb force (le_of_eq h1.symm) (le_of_eq h2), h1, h2,
    binnedRange_full _ _ _ hg.1 hg.2.2.1 (binCounts_length o.bins hg a)]
  obtain ⟨s1, s2, s3⟩ := binned_stages E thr atol rtol hat hrt o hg a
  rw [countrate_of_stages E thr atol rtol o _ true none none false _ _ _ s1 s2 s3]
  rfl

/-- **monotone in the range**, at the level of the call: for non-negative binned flux and area, if the count
rate over a range inside the observation is returned, the count rate over any larger such range is returned
too and is at least as large -/
theorem countrate_range_monotone (E : Env K) (thr atol rtol : K) (hat : 0 ≤ atol) (hrt : 0 ≤ rtol) (o : Obs K)
    (hg : GoodBins o.bins) (a : K) (ha : 0 ≤ a) (hf : ∀ v ∈ o.bins.binflux, 0 ≤ v)
    (wa wb wa' wb' : K) (force force' : Bool)
    (h1 : o.bins.binset.getD 0 0 ≤ min wa' wb') (h2 : max wa' wb' ≤ o.bins.binset.getD (o.bins.binset.length - 1) 0)
    (hlo : min wa' wb' ≤ min wa wb) (hhi : max wa wb ≤ max wa' wb') (v : K)
    (h : countrate E thr atol rtol o (some a) true none (some (wa, wb)) force = .ok v) :
    ∃ v', countrate E thr atol rtol o (some a) true none (some (wa', wb')) force' = .ok v' ∧ v ≤ v' := by
  rw [countrate_binned_range E thr atol rtol hat hrt o hg a wa wb force (le_trans h1 hlo) (le_trans hhi h2)] at h
  rw [countrate_binned_range E thr atol rtol hat hrt o hg a wa' wb' force' h1 h2]
  simp only [rateOf] at h ⊢
  split_ifs at h with h0
  injection h with h
  have hc0 : o.bins.edges.getD 0 0 < min wa' wb' := by
    have h2' := (C18.edges_ok_iff _).mp ⟨_, hg.2.2.1⟩
    exact lt_of_lt_of_le (C07.centre_inside_bin _ _ hg.1 hg.2.2.1 0 (by omega)).1 h1
  have hne : o.bins.edges ≠ [] := by
    have := C18.edges_length _ _ hg.2.2.1
    intro h0; rw [h0] at this; simp at this
  have hmono := range_sum_monotone o.bins.edges (binCounts o.bins a) (binCounts_nonneg o.bins a ha hf)
    (min wa wb) (max wa wb) (min wa' wb') (max wa' wb') hc0 hne hlo hhi
  refine ⟨_, if_neg (not_le.mpr (lt_of_lt_of_le (not_le.mp h0) hmono)), ?_⟩
  rw [← h]; exact hmono

/-- **never more than the unrestricted value**: for non-negative samples and area, any returned count rate
over a range (binned or unbinned, any wavelengths, forced or not) is at most the count rate of the same call
without the range, which is returned as well -/
theorem countrate_range_le_total (E : Env K) (thr atol rtol : K) (o : Obs K) (binned : Bool)
    (wl : Option (List K)) (r : K × K) (force : Bool) (a : K) (ha : 0 ≤ a)
    (hnn : ∀ x yp, crWaves thr o binned wl = .ok x → crSamples E atol rtol o binned x = .ok yp → ∀ p ∈ yp, 0 ≤ p)
    (v : K) (h : countrate E thr atol rtol o (some a) binned wl (some r) force = .ok v) :
    ∃ t, countrate E thr atol rtol o (some a) binned wl none false = .ok t ∧ v ≤ t := by
  obtain ⟨x, yp, y, influx, hx, hyp, hy, hs, hv, hpos⟩ := countrate_ok_inv E thr atol rtol o _ binned wl _ force v h
  have hlen := crSamples_length E atol rtol o binned x yp hyp
  obtain ⟨e, bw, he, hw, _, rfl⟩ := convertFlux_count_inv E.P E.T x yp y a hlen hy
  have hbw : bw = absDiffs e := by
    unfold binWidths at hw; split_ifs at hw; injection hw with hw; exact hw.symm
  have hynn : ∀ t ∈ mulFactors yp (bw.map (· * a)), 0 ≤ t := by
    have := binCounts_nonneg ⟨[], e, yp, [], [], [], []⟩ a ha (hnn x yp hx hyp)
    simpa [binCounts, hbw] using this
  have hle : influx.sum ≤ (mulFactors yp (bw.map (· * a))).sum := by
    obtain ⟨wa, wb⟩ := r
    obtain ⟨xm, xM, hmin, hmax⟩ := rangeSel_ok_minmax o x _ binned wl wa wb force influx hs
    rw [rangeSel_cases o x _ binned wl wa wb force xm xM hmin hmax] at hs
    split_ifs at hs
    · exact cutRange_le_total o x _ hynn binned wl _ _ influx hs
    · exact cutRange_le_total o x _ hynn binned wl _ _ influx hs
  rw [countrate_of_stages E thr atol rtol o _ binned wl none false x yp _ hx hyp hy]
  refine ⟨(mulFactors yp (bw.map (· * a))).sum, ?_, by rw [hv]; exact hle⟩
  simp only [rangeSel, pure, Except.pure, rateOf]
  rw [if_neg (not_le.mpr (lt_of_lt_of_le (by rw [← hv]; exact hpos) hle))]

/-- a range given as `(hi, lo)` behaves like `(lo, hi)`, in every call -/
theorem countrate_range_swap (E : Env K) (thr atol rtol : K) (o : Obs K) (area : Option K) (binned : Bool)
    (wl : Option (List K)) (wa wb : K) (force : Bool) :
    countrate E thr atol rtol o area binned wl (some (wb, wa)) force =
      countrate E thr atol rtol o area binned wl (some (wa, wb)) force := by
  unfold countrate
  simp only [overlapArrays_swap wa wb, min_comm wb wa, max_comm wb wa]

/-! ### (e) the outcomes of a call with a range, as one case analysis -/

/-- once the samples are converted to counts (`y`), a call with a range `(wa, wb)` has exactly these
outcomes, decided by where `[min, max]` of the range lies with respect to the smallest and largest sampled
wavelength `xm`, `xM`:
* inside (`xm ≤ w1`, `w2 ≤ xM`): the counts between the limits (`cutRange`), summed and validated;
* disjoint (`w2 < xm` or `xM < w1`): `DisjointError`, forced or not;
* sticking out: `PartialOverlap` — unless `force`, then the counts between the limits clipped to `[xm, xM]`;
and wherever a sum is formed (`rateOf`), a non-positive total is a `SynphotError`, never a returned number -/
theorem countrate_range_outcomes (E : Env K) (thr atol rtol : K) (o : Obs K) (area : Option K) (binned : Bool)
    (wl : Option (List K)) (wa wb : K) (force : Bool) (x yp y : List K) (xm xM : K)
    (hx : crWaves thr o binned wl = .ok x) (hyp : crSamples E atol rtol o binned x = .ok yp)
    (hy : convertFlux E.P E.T x yp .photlam .count area none = .ok y)
    (hmin : listMin x = some xm) (hmax : listMax x = some xM) :
    countrate E thr atol rtol o area binned wl (some (wa, wb)) force =
      if xm ≤ min wa wb ∧ max wa wb ≤ xM then rateOf (cutRange o x y binned wl (min wa wb) (max wa wb))
      else if max wa wb < xm ∨ xM < min wa wb then .error .disjointError
      else if force then rateOf (cutRange o x y binned wl (max (min wa wb) xm) (min (max wa wb) xM))
      else .error .partialOverlap := by
  rw [countrate_of_stages E thr atol rtol o area binned wl _ force x yp y hx hyp hy,
    rangeSel_cases o x y binned wl wa wb force xm xM hmin hmax]
  split_ifs <;> rfl

/-- what `rateOf` does with the selected counts: an error of the selection is passed on, a non-positive total
is a `SynphotError`, a positive total is returned -/
theorem total_validation (sel : Except Err (List K)) :
    (∀ e, sel = .error e → rateOf sel = .error e) ∧
    (∀ l, sel = .ok l → l.sum ≤ 0 → rateOf sel = .error .synphotError) ∧
    (∀ l, sel = .ok l → 0 < l.sum → rateOf sel = .ok l.sum) := by
  refine ⟨?_, ?_, ?_⟩
  · rintro e rfl; rfl
  · rintro l rfl h; simp [rateOf, h]
  · rintro l rfl h; simp [rateOf, not_le.mpr h]

/-- in particular, on bins as the constructor builds them: a disjoint range raises `DisjointError`, a range
sticking out raises `PartialOverlap` unless forced -/
theorem countrate_binned_range_errors (E : Env K) (thr atol rtol : K) (hat : 0 ≤ atol) (hrt : 0 ≤ rtol) (o : Obs K)
    (hg : GoodBins o.bins) (a wa wb : K) (force : Bool) (c0 cl : K) (hc0 : c0 = o.bins.binset.getD 0 0)
    (hcl : cl = o.bins.binset.getD (o.bins.binset.length - 1) 0) :
    (max wa wb < c0 ∨ cl < min wa wb →
      countrate E thr atol rtol o (some a) true none (some (wa, wb)) force = .error .disjointError) ∧
    (¬ (c0 ≤ min wa wb ∧ max wa wb ≤ cl) → ¬ (max wa wb < c0 ∨ cl < min wa wb) → force = false →
      countrate E thr atol rtol o (some a) true none (some (wa, wb)) force = .error .partialOverlap) ∧
    (¬ (c0 ≤ min wa wb ∧ max wa wb ≤ cl) → ¬ (max wa wb < c0 ∨ cl < min wa wb) → force = true →
      countrate E thr atol rtol o (some a) true none (some (wa, wb)) force =
        rateOf (.ok (binnedRange o.bins.edges (binCounts o.bins a) (max (min wa wb) c0) (min (max wa wb) cl)))) := by
  subst hc0 hcl
  obtain ⟨s1, s2, s3⟩ := binned_stages E thr atol rtol hat hrt o hg a
  have hne := hg.ne
  have hs := hg.1
  have hmm : ∃ b0 bt, o.bins.binset = b0 :: bt := by
    rcases hb : o.bins.binset with _ | ⟨b0, bt⟩
    · exact absurd hb hne
    · exact ⟨b0, bt, rfl⟩
  obtain ⟨b0, bt, hb⟩ := hmm
  rw [hb] at hs
  have hl : (b0 :: bt).getD ((b0 :: bt).length - 1) 0 = bt.getLastD b0 := by
    rw [List.getLastD_eq_getLast?, List.getD_eq_getElem?_getD]
    cases bt with
    | nil => rfl
    | cons c1 ct =>
      rw [List.getLast?_eq_getElem?]
      simp
  have hcases := countrate_range_outcomes E thr atol rtol o (some a) true none wa wb force _ _ _ b0 (bt.getLastD b0)
    s1 s2 s3 (by rw [hb]; exact listMin_strictAsc b0 bt hs) (by rw [hb]; exact listMax_strictAsc b0 bt hs)
  have e0 : o.bins.binset.getD 0 0 = b0 := by rw [hb]; rfl
  have e1 : o.bins.binset.getD (o.bins.binset.length - 1) 0 = bt.getLastD b0 := by rw [hb]; exact hl
  rw [e0, e1]
  have hle : b0 ≤ bt.getLastD b0 := strictAsc_head_le_last bt b0 hs
  refine ⟨?_, ?_, ?_⟩
  · intro hd
    have hnf : ¬ (b0 ≤ min wa wb ∧ max wa wb ≤ bt.getLastD b0) := by
      rintro ⟨h1, h2⟩
      have := min_le_max (a := wa) (b := wb)
      rcases hd with hd | hd <;> linarith
    rw [hcases, if_neg hnf, if_pos hd]
  · intro hnf hnd hfo
    rw [hcases, if_neg hnf, if_neg hnd, hfo]; rfl
  · intro hnf hnd hfo
    rw [hcases, if_neg hnf, if_neg hnd, hfo, if_pos rfl]
    simp only [cutRange, crEdgesY, if_true, pure, Except.pure, binnedRange]


/-! ### (f) the order of explicit sampling wavelengths (fix 052fdd8 in /repo) -/

/-- **binned sampling wavelengths may be given in either order**, with or without a wavelength range, forced
or not: `countrate(area, wavelengths=w[::-1], waverange=…)` is `countrate(area, wavelengths=w, waverange=…)`
— the same value or the same exception.  (Before 052fdd8 the bin edges of descending wavelengths were
searched as they were, descending, and a range selected the wrong bins.) -/
theorem countrate_explicit_order_irrelevant (E : Env K) (thr atol rtol : K) (o : Obs K)
    (hne : o.bins.binset ≠ []) (hlen : o.bins.binflux.length = o.bins.binset.length) (a : K) (w : List K)
    (hv : validateWavelengths w = .ok ()) (waverange : Option (K × K)) (force : Bool) :
    countrate E thr atol rtol o (some a) true (some w.reverse) waverange force =
      countrate E thr atol rtol o (some a) true (some w) waverange force := by
  have hvr : validateWavelengths w.reverse = .ok () := by rw [validate_reverse]; exact hv
  have hx : crWaves thr o true (some w) = .ok w := by
    simp only [crWaves, if_true, hv, bind, Except.bind, pure, Except.pure]
  have hxr : crWaves thr o true (some w.reverse) = .ok w.reverse := by
    simp only [crWaves, if_true, hvr, bind, Except.bind, pure, Except.pure]
  have hs := sampleBinned_spec atol rtol o.bins hne hlen w hv
  have hsr := sampleBinned_spec atol rtol o.bins hne hlen w.reverse hvr
  by_cases hc : ∀ v ∈ w, |o.bins.binset.getD (clipIdx o.bins.binset v) 0 - v| ≤ atol + rtol * |v|
  · have hcr : ∀ v ∈ w.reverse, |o.bins.binset.getD (clipIdx o.bins.binset v) 0 - v| ≤ atol + rtol * |v| :=
      fun v hv' => hc v (List.mem_reverse.mp hv')
    rw [if_pos hc] at hs
    rw [if_pos hcr, List.map_reverse] at hsr
    have hyp : crSamples E atol rtol o true w = .ok (w.map fun v => o.bins.binflux.getD (clipIdx o.bins.binset v) 0) := by
      simp only [crSamples, if_true]; exact hs
    have hypr : crSamples E atol rtol o true w.reverse =
        .ok (w.map fun v => o.bins.binflux.getD (clipIdx o.bins.binset v) 0).reverse := by
      simp only [crSamples, if_true]; exact hsr
    have hcf := convertFlux_count_reverse E.P E.T w (w.map fun v => o.bins.binflux.getD (clipIdx o.bins.binset v) 0) a
      (by simp)
    cases hy : convertFlux E.P E.T w (w.map fun v => o.bins.binflux.getD (clipIdx o.bins.binset v) 0)
        .photlam .count (some a) none with
    | error e =>
      rw [hy] at hcf
      rw [countrate_err_convert E thr atol rtol o _ true _ waverange force _ _ e hx hyp hy,
        countrate_err_convert E thr atol rtol o _ true _ waverange force _ _ e hxr hypr hcf]
    | ok y =>
      rw [hy] at hcf
      rw [countrate_of_stages E thr atol rtol o _ true _ waverange force _ _ y hx hyp hy,
        countrate_of_stages E thr atol rtol o _ true _ waverange force _ _ y.reverse hxr hypr hcf]
      exact rateOf_rangeSel_reverse o _ _ w y hv waverange force
  · have hcr : ¬ ∀ v ∈ w.reverse, |o.bins.binset.getD (clipIdx o.bins.binset v) 0 - v| ≤ atol + rtol * |v| :=
      fun h => hc (fun v hv' => h v (List.mem_reverse.mpr hv'))
    rw [if_neg hc] at hs
    rw [if_neg hcr] at hsr
    rw [countrate_err_samples E thr atol rtol o _ true _ waverange force w _ hx (by simp only [crSamples, if_true]; exact hs),
      countrate_err_samples E thr atol rtol o _ true _ waverange force w.reverse _ hxr
        (by simp only [crSamples, if_true]; exact hsr)]

/-- … in particular on every observation the constructor returns -/
theorem observation_countrate_order_irrelevant (E : Env K) (P : OverlapPar K) (src band : Spec K)
    (binset : Option (List K)) (frc : Force) (useC : Bool) (o : Obs K)
    (h : mkObs E P src band binset frc useC = .ok o) (thr atol rtol a : K) (w : List K)
    (hv : validateWavelengths w = .ok ()) (waverange : Option (K × K)) (force : Bool) :
    countrate E thr atol rtol o (some a) true (some w.reverse) waverange force =
      countrate E thr atol rtol o (some a) true (some w) waverange force := by
  have hg := mkObs_goodBins E P src band binset frc useC o h
  exact countrate_explicit_order_irrelevant E thr atol rtol o hg.ne hg.2.2.2 a w hv waverange force

/-! ### non-vacuity: the witness observation `Synphot.C08w.wObs` over ℚ (tolerances `1e-8`, `1e-5`) -/

section examples
open Synphot.C07w Synphot.C08w Synphot.C10x.Witness
variable (T : Transc ℚ)

private theorem tolA : (0 : ℚ) ≤ 1/10^8 := by norm_num
private theorem tolR : (0 : ℚ) ≤ 1/10^5 := by norm_num

/-- unbinned on the observation's own waveset: area 3 × (2·2 + 2·2) = 24 -/
private theorem ex_unbinned : countrate (env T) 0 (1/10^8) (1/10^5) wObs (some 3) false none none false = .ok 24 := by
  rw [countrate_unbinned_closed_form (env T) 0 _ _ wObs 3 none _ _ _ _ (wWaves 0) (wSamples _) wEdges24 wWidths24]
  norm_num [mulFactors]

/-- unbinned on the caller's wavelengths 2, 3, 4: area 3 × (2 + 2 + 2) = 18 -/
private theorem ex_unbinned_explicit :
    countrate (env T) 0 (1/10^8) (1/10^5) wObs (some 3) false (some [2, 3, 4]) none false = .ok 18 := by
  rw [countrate_unbinned_closed_form (env T) 0 _ _ wObs 3 _ _ _ _ _ (wWaves234 0) (wSamples234 _) wEdges234 wWidths234]
  norm_num [mulFactors]

example : countrate (env T) 0 (1/10^8) (1/10^5) wObs (some 3) false none none false =
    fullCount (env T) [2, 4] [2, 2] (some 3) :=
  countrate_unbinned_full (env T) 0 _ _ wObs (some 3) none _ _ (wWaves 0) (wSamples _)
example : countrate (env T) 0 (1/10^8) (1/10^5) wObs (some 3) false none none false = .ok 24 := ex_unbinned T
example : countrate (env T) 0 (1/10^8) (1/10^5) wObs (some 3) false (some [2, 3, 4]) none false = .ok 18 :=
  ex_unbinned_explicit T

/-- binned: area 3 × (5·2 + 6·3 + 7·4) = 168 -/
private theorem ex_binned : countrate (env T) 0 (1/10^8) (1/10^5) wObs (some 3) true none none false = .ok 168 := by
  rw [countrate_binned_closed_form (env T) 0 _ _ tolA tolR wObs wGood 3, wSum]
  norm_num
example : countrate (env T) 0 (1/10^8) (1/10^5) wObs (some 3) true none none false = .ok 168 := ex_binned T

example (useC : Bool) : ∃ o : Obs ℚ, mkObs (env T) par (src 2) band (some wBs) .none useC = .ok o ∧
    countrate (env T) 0 (1/10^8) (1/10^5) o (some 3) true none none false =
      if 3 * (mulFactors o.bins.binflux (absDiffs o.bins.edges)).sum ≤ 0 then .error .synphotError
      else .ok (3 * (mulFactors o.bins.binflux (absDiffs o.bins.edges)).sum) := by
  obtain ⟨o, ho, _⟩ := wMkObs (env T) useC
  exact ⟨o, ho, (observation_countrate_closed_form _ _ _ _ _ _ _ o ho 0 _ _ tolA tolR 3).2⟩

example (useC : Bool) : ∃ (o : Obs ℚ) (xs ys : List ℚ), mkObs (env T) par (src 2) band (some wBs) .none useC = .ok o ∧
    xs.head? = some 1 ∧ xs.getLast? = some 10 ∧
    countrate (env T) 0 (1/10^8) (1/10^5) o (some 3) true none none false =
      if 3 * trapzXY xs ys ≤ 0 then .error .synphotError else .ok (3 * trapzXY xs ys) := by
  obtain ⟨o, ho, _, he, hg⟩ := wMkObs (env T) useC
  obtain ⟨xs, ys, h1, h2, _, _, _, h6⟩ :=
    observation_countrate_is_area_times_integral _ _ _ _ _ _ _ o ho hg 0 _ _ tolA tolR 3
  refine ⟨o, xs, ys, ho, ?_, ?_, h6⟩
  · rw [h1, he]; rfl
  · rw [h2, he]; rfl

/-- twice the area, twice the rate; the same area as 3 m² instead of 3 cm²: 10⁴ times the rate -/
example : countrate (env T) 0 (1/10^8) (1/10^5) wObs (some (2 * 3)) true none none false = .ok (2 * 168) :=
  countrate_area_linear (env T) 0 _ _ wObs true none none false 3 2 (by norm_num) 168 (ex_binned T)
example : countrate (env T) 0 (1/10^8) (1/10^5) wObs (some (Bandpar.AreaUnit.toCm2 .m2 3)) true none none false =
    .ok (10000 * 168) :=
  countrate_area_units (env T) 0 _ _ wObs true none none false 3 168 (ex_binned T)
example : countrate (env T) 0 (1/10^8) (1/10^5) wObs (some (Bandpar.AreaUnit.toCm2 .m2 (2 * 3))) true none none false =
    .ok (2 * (10000 * 168)) :=
  countrate_area_linear_any_unit (env T) 0 _ _ wObs true none none false .m2 3 2 (by norm_num) _
    (countrate_area_units (env T) 0 _ _ wObs true none none false 3 168 (ex_binned T))
example : (0 : ℚ) < 168 := countrate_ok_pos (env T) 0 _ _ wObs _ true none none false 168 (ex_binned T)

/-- OBMAG on the observation's own waveset and on explicit wavelengths -/
example : effstim (env T) 0 (1/10^8) (1/10^5) wObs .obmag none (some 3) none = .ok (-(5/2) * T.log10 24) :=
  (effstim_obmag_value (env T) 0 _ _ wObs none (some 3) none 24 (ex_unbinned T)).2
example : effstim (env T) 0 (1/10^8) (1/10^5) wObs .obmag (some [2, 3, 4]) (some 3) none = .ok (-(5/2) * T.log10 18) :=
  (effstim_obmag_value (env T) 0 _ _ wObs (some [2, 3, 4]) (some 3) none 18 (ex_unbinned_explicit T)).2
example : effstim (env T) 0 (1/10^8) (1/10^5) wObs .count (some [2, 3, 4]) (some 3) none = .ok 18 :=
  (effstim_obmag_value (env T) 0 _ _ wObs (some [2, 3, 4]) (some 3) none 18 (ex_unbinned_explicit T)).1

/-- without an area the count rate is refused, and so are both forms of the effective stimulus -/
example : ∃ e, effstim (env T) 0 (1/10^8) (1/10^5) wObs .obmag none none none = .error e := by
  obtain ⟨e, he⟩ := fullCount_needs_area (env T) (2 : ℚ) 2 [4] [2]
  have hc : countrate (env T) 0 (1/10^8) (1/10^5) wObs none false none none false = .error e := by
    rw [countrate_unbinned_full (env T) 0 _ _ wObs none none _ _ (wWaves 0) (wSamples _)]; exact he
  exact ⟨e, (effstim_count_errors (env T) 0 _ _ wObs none none none e hc).2⟩

/-! ranges on the edges 1, 3, 6, 10 with per-bin counts 10, 18, 28 -/

private theorem sAsc : StrictAsc ([1, 3, 6, 10] : List ℚ) := by norm_num [StrictAsc]

example := range_selects_contiguous_run ([1, 3, 6, 10] : List ℚ) [10, 18, 28] sAsc rfl 2 4 (by norm_num)
example : binnedRange ([1, 3, 6, 10] : List ℚ) [10, 18, 28] 2 4 = [10, 18] := by rw [wRange24]; rfl
example : binnedRange ([1, 3, 6, 10] : List ℚ) [10, 18, 28] 2 8 = [10, 18, 28] :=
  full_range_selects_all ([2, 4, 8] : List ℚ) _ _ wStrictAsc wBinEdges rfl
example : (binnedRange ([1, 3, 6, 10] : List ℚ) [10, 18, 28] 2 4).sum ≤
    (binnedRange ([1, 3, 6, 10] : List ℚ) [10, 18, 28] 2 8).sum :=
  range_sum_monotone _ _ (by intro v hv; simp at hv; rcases hv with rfl | rfl | rfl <;> norm_num) 2 4 2 8
    (by norm_num) (by simp) (le_refl _) (by norm_num)

/-- the range (2, 4): bins 0 and 1, 3 × (10 + 18) = 84 -/
private theorem ex_range24 (force : Bool) :
    countrate (env T) 0 (1/10^8) (1/10^5) wObs (some 3) true none (some (2, 4)) force = .ok 84 := by
  rw [countrate_binned_range (env T) 0 _ _ tolA tolR wObs wGood 3 2 4 force (by norm_num [wObs, sBins])
    (by norm_num [wObs, sBins])]
  have h1 : min (2 : ℚ) 4 = 2 := by norm_num
  have h2 : max (2 : ℚ) 4 = 4 := by norm_num
  rw [h1, h2]
  have : (wObs).bins.edges = [1, 3, 6, 10] := rfl
  rw [this, wRange24, wCounts]
  norm_num [rateOf]
example (force : Bool) :
    countrate (env T) 0 (1/10^8) (1/10^5) wObs (some 3) true none (some (2, 4)) force = .ok 84 := ex_range24 T force

/-- the full range (2, 8), in either order, forced or not, reproduces 168 -/
example (force : Bool) : countrate (env T) 0 (1/10^8) (1/10^5) wObs (some 3) true none (some (8, 2)) force = .ok 168 := by
  rw [countrate_full_range (env T) 0 _ _ tolA tolR wObs wGood 3 8 2 force (by norm_num [wObs, sBins])
    (by norm_num [wObs, sBins])]
  exact ex_binned T

example : ∃ v', countrate (env T) 0 (1/10^8) (1/10^5) wObs (some 3) true none (some (2, 8)) false = .ok v' ∧ (84 : ℚ) ≤ v' :=
  countrate_range_monotone (env T) 0 _ _ tolA tolR wObs wGood 3 (by norm_num)
    (by intro v hv; simp [wObs, sBins] at hv; rcases hv with rfl | rfl | rfl <;> norm_num)
    2 4 2 8 false false (by norm_num [wObs, sBins]) (by norm_num [wObs, sBins]) (by norm_num) (by norm_num) 84
    (ex_range24 T false)

example : ∃ t, countrate (env T) 0 (1/10^8) (1/10^5) wObs (some 3) true none none false = .ok t ∧ (84 : ℚ) ≤ t :=
  countrate_range_le_total (env T) 0 _ _ wObs true none (2, 4) false 3 (by norm_num)
    (by
      intro x yp hx hyp p hp
      have hx' := crWaves_binned_none 0 wObs x hx
      subst hx'
      have := (binned_stages (env T) 0 _ _ tolA tolR wObs wGood 3).2.1
      rw [this] at hyp; injection hyp with hyp; subst hyp
      simp [wObs, sBins] at hp; rcases hp with rfl | rfl | rfl <;> norm_num)
    84 (ex_range24 T false)

example (force : Bool) : countrate (env T) 0 (1/10^8) (1/10^5) wObs (some 3) true none (some (4, 2)) force = .ok 84 := by
  rw [countrate_range_swap]; exact ex_range24 T force

example (wa wb : ℚ) (force : Bool) := countrate_range_outcomes (env T) 0 (1/10^8) (1/10^5) wObs (some 3) true none wa wb
  force _ _ _ 2 8 (binned_stages (env T) 0 _ _ tolA tolR wObs wGood 3).1
  (binned_stages (env T) 0 _ _ tolA tolR wObs wGood 3).2.1 (binned_stages (env T) 0 _ _ tolA tolR wObs wGood 3).2.2
  (listMin_strictAsc 2 [4, 8] wStrictAsc) (listMax_strictAsc 2 [4, 8] wStrictAsc)

example : rateOf (.ok ([0, 0] : List ℚ)) = .error .synphotError :=
  (total_validation (.ok ([0, 0] : List ℚ))).2.1 _ rfl (by norm_num)
example : rateOf (.ok ([10, 18] : List ℚ)) = .ok 28 := by
  have := (total_validation (.ok ([10, 18] : List ℚ))).2.2 _ rfl (by norm_num)
  rw [this]; norm_num

/-- (9, 12) is disjoint from the centres 2 … 8; (1, 4) sticks out below -/
example (force : Bool) :
    countrate (env T) 0 (1/10^8) (1/10^5) wObs (some 3) true none (some (9, 12)) force = .error .disjointError :=
  (countrate_binned_range_errors (env T) 0 _ _ tolA tolR wObs wGood 3 9 12 force 2 8 rfl rfl).1
    (Or.inr (by norm_num))
example : countrate (env T) 0 (1/10^8) (1/10^5) wObs (some 3) true none (some (1, 4)) false = .error .partialOverlap :=
  (countrate_binned_range_errors (env T) 0 _ _ tolA tolR wObs wGood 3 1 4 false 2 8 rfl rfl).2.1
    (by norm_num) (by norm_num) rfl
/-- forced: the range is clipped to [2, 4] — again 84 -/
example : countrate (env T) 0 (1/10^8) (1/10^5) wObs (some 3) true none (some (1, 4)) true = .ok 84 := by
  rw [(countrate_binned_range_errors (env T) 0 _ _ tolA tolR wObs wGood 3 1 4 true 2 8 rfl rfl).2.2
    (by norm_num) (by norm_num) rfl]
  have h1 : max (min (1 : ℚ) 4) 2 = 2 := by norm_num
  have h2 : min (max (1 : ℚ) 4) 8 = 4 := by norm_num
  rw [h1, h2]
  have : (wObs).bins.edges = [1, 3, 6, 10] := rfl
  rw [this, wRange24, wCounts]
  norm_num [rateOf]

/-! explicit sampling wavelengths 2, 4 (bin edges 1, 3, 5; counts 3·5·2 = 30 and 3·6·2 = 36) with the range
(2, 2), which selects the first bin only — and the same wavelengths given as 4, 2 -/

private theorem ex_explicit_range :
    countrate (env T) 0 (1/10^8) (1/10^5) wObs (some 3) true (some [2, 4]) (some (2, 2)) false = .ok 30 := by
  have hx : crWaves (0 : ℚ) wObs true (some [2, 4]) = .ok [2, 4] := by
    simp only [crWaves, if_true, valid24, bind, Except.bind, pure, Except.pure]
  have hyp : crSamples (env T) (1/10^8) (1/10^5) wObs true [2, 4] = .ok [5, 6] := by
    simp only [crSamples, if_true]
    rw [sampleBinned_spec _ _ _ wGood.ne rfl [2, 4] valid24]
    have i0 : clipIdx ([2, 4, 8] : List ℚ) 2 = 0 := by norm_num [clipIdx, searchLeft, List.takeWhile]
    have i1 : clipIdx ([2, 4, 8] : List ℚ) 4 = 1 := by norm_num [clipIdx, searchLeft, List.takeWhile]
    simp only [wObs, sBins, List.map_cons, List.map_nil, i0, i1, List.mem_cons, List.not_mem_nil, or_false,
      forall_eq_or_imp, forall_eq]
    norm_num
  have hy : convertFlux (env T).P (env T).T [2, 4] [5, 6] .photlam .count (some 3) none = .ok [30, 36] := by
    rw [convertFlux_count_of _ _ [2, 4] [5, 6] [1, 3, 5] [2, 2] 3 rfl (calcBinEdges_eq _ _ valid24 wEdges24) wWidths24]
    norm_num [mulFactors]
  rw [countrate_of_stages (env T) 0 _ _ wObs _ true _ _ false _ _ _ hx hyp hy,
    rangeSel_cases wObs _ _ true _ 2 2 false 2 4 (listMin_strictAsc 2 [4] (by norm_num [StrictAsc]))
      (listMax_strictAsc 2 [4] (by norm_num [StrictAsc])), if_pos (by norm_num)]
  have hd : isDesc ([1, 3, 5] : List ℚ) = false := isDesc_false_of_asc _ (by norm_num [StrictAsc])
  have s2 : searchLeft ([1, 3, 5] : List ℚ) 2 = 1 := by norm_num [searchLeft, List.takeWhile]
  simp only [cutRange, crEdgesY, if_true, wEdges24, bind, Except.bind, pure, Except.pure, hd, Bool.false_eq_true,
    if_false, min_self, max_self, s2]
  rw [pySlice_pred _ 1 1 (le_refl _)]
  norm_num [rateOf]

example : countrate (env T) 0 (1/10^8) (1/10^5) wObs (some 3) true (some [4, 2]) (some (2, 2)) false = .ok 30 := by
  have := countrate_explicit_order_irrelevant (env T) 0 (1/10^8) (1/10^5) wObs wGood.ne rfl 3 [2, 4] valid24
    (some (2, 2)) false
  rw [ex_explicit_range T] at this
  exact this

example (useC : Bool) : ∃ o : Obs ℚ, mkObs (env T) par (src 2) band (some wBs) .none useC = .ok o ∧
    countrate (env T) 0 (1/10^8) (1/10^5) o (some 3) true (some [4, 2]) (some (2, 4)) true =
      countrate (env T) 0 (1/10^8) (1/10^5) o (some 3) true (some [2, 4]) (some (2, 4)) true := by
  obtain ⟨o, ho, _⟩ := wMkObs (env T) useC
  exact ⟨o, ho, observation_countrate_order_irrelevant _ _ _ _ _ _ _ o ho 0 _ _ 3 [2, 4] valid24 _ true⟩

end examples

end Synphot.C08
