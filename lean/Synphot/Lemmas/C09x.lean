/-
  Synphot.Lemmas.C09x — helper lemmas for the deepened C09 theorems: list forms of the sums
  `effstim` / `effective_wavelength` / `pivot` build, sampling of products and scaled sources,
  PHOTLAM → FLAM on arrays, reversal of a sampling grid.
-/
import Synphot.Lemmas.ObsPhot
import Synphot.Lemmas.Trapz
import Synphot.Lemmas.Units
import Synphot.Lemmas.Wave

set_option linter.unusedSectionVars false
set_option linter.unusedVariables false
set_option linter.unusedSimpArgs false

namespace Synphot.C09
open Synphot
variable {K : Type} [Field K] [LinearOrder K] [IsStrictOrderedRing K]

/-! ### zips -/

/-- zipping a grid with a map over its own zip -/
theorem zip_map_zip (xs ys : List K) (f : K × K → K) :
    xs.zip ((xs.zip ys).map f) = (xs.zip ys).map fun p => (p.1, f p) := by
  induction xs generalizing ys with
  | nil => simp
  | cons x xs ih =>
    cases ys with
    | nil => simp
    | cons y ys => simp [ih]

/-- `trapezoid(f(x, y), x=x)` as a trapezoid sum over the list of pairs -/
theorem trapzXY_zip (xs ys : List K) (f : K × K → K) :
    trapzXY xs ((xs.zip ys).map f) = trapz ((xs.zip ys).map fun p => (p.1, f p)) := by
  unfold trapzXY; rw [zip_map_zip]

theorem zip_map_right (xs ys : List K) (g : K → K) :
    xs.zip (ys.map g) = (xs.zip ys).map fun p => (p.1, g p.2) := by
  induction xs generalizing ys with
  | nil => simp
  | cons x xs ih =>
    cases ys with
    | nil => simp
    | cons y ys => simp [ih]

theorem zip_reverse_eq (xs ys : List K) (h : xs.length = ys.length) :
    xs.reverse.zip ys.reverse = (xs.zip ys).reverse := by
  rw [List.zip_eq_zipWith, List.zip_eq_zipWith, List.reverse_zipWith h]

/-! ### sampling a tree -/

theorem sampleTree_nil (E : Env K) (m : Tree K) : sampleTree E m [] = .ok [] := rfl

theorem sampleTree_cons (E : Env K) (m : Tree K) (x : K) (xs : List K) :
    sampleTree E m (x :: xs) =
      (m.eval E x >>= fun a => sampleTree E m xs >>= fun as => pure (a :: as)) := by
  unfold sampleTree; rw [List.mapM_cons]

theorem sampleTree_length (E : Env K) (m : Tree K) :
    ∀ (xs ys : List K), sampleTree E m xs = .ok ys → ys.length = xs.length := by
  intro xs
  induction xs with
  | nil => intro ys h; rw [sampleTree_nil] at h; injection h with h; subst h; rfl
  | cons x xs ih =>
    intro ys h
    rw [sampleTree_cons] at h
    cases ha : m.eval E x with
    | error e => rw [ha] at h; cases h
    | ok a =>
      cases hs : sampleTree E m xs with
      | error e => rw [ha, hs] at h; cases h
      | ok as =>
        rw [ha, hs] at h
        injection h with h; subst h
        simp [ih as hs]

/-- appending one wavelength at the end of a successfully sampled grid -/
theorem sampleTree_append_single (E : Env K) (m : Tree K) (x y : K) (hy : m.eval E x = .ok y) :
    ∀ (xs ys : List K), sampleTree E m xs = .ok ys → sampleTree E m (xs ++ [x]) = .ok (ys ++ [y]) := by
  intro xs
  induction xs with
  | nil =>
    intro ys h; rw [sampleTree_nil] at h; injection h with h; subst h
    simp [sampleTree_cons, sampleTree_nil, hy, bind, Except.bind, pure, Except.pure]
  | cons a xs ih =>
    intro ys h
    rw [sampleTree_cons] at h
    cases ha : m.eval E a with
    | error e => rw [ha] at h; cases h
    | ok b =>
      cases hs : sampleTree E m xs with
      | error e => rw [ha, hs] at h; cases h
      | ok bs =>
        rw [ha, hs] at h
        injection h with h; subst h
        rw [List.cons_append, sampleTree_cons, ha, ih bs hs]; rfl

/-- a successfully sampled grid can be sampled in the opposite order, with the opposite result -/
theorem sampleTree_reverse (E : Env K) (m : Tree K) :
    ∀ (xs ys : List K), sampleTree E m xs = .ok ys → sampleTree E m xs.reverse = .ok ys.reverse := by
  intro xs
  induction xs with
  | nil => intro ys h; rw [sampleTree_nil] at h; injection h with h; subst h; rfl
  | cons a xs ih =>
    intro ys h
    rw [sampleTree_cons] at h
    cases ha : m.eval E a with
    | error e => rw [ha] at h; cases h
    | ok b =>
      cases hs : sampleTree E m xs with
      | error e => rw [ha, hs] at h; cases h
      | ok bs =>
        rw [ha, hs] at h
        injection h with h; subst h
        rw [List.reverse_cons, List.reverse_cons]
        exact sampleTree_append_single E m a b ha _ _ (ih bs hs)

/-- sampling `(m | Scale(k)) * b` gives `k` times the samples of `m * b`, errors included -/
theorem sampleTree_scaled_source (E : Env K) (sm bm : Tree K) (k : K) (xs : List K) :
    sampleTree E (.bin .mul (.scale sm k) bm) xs =
      (sampleTree E (.bin .mul sm bm) xs).map (List.map (k * ·)) := by
  induction xs with
  | nil => rfl
  | cons x xs ih =>
    rw [sampleTree_cons, sampleTree_cons, ih]
    simp only [Tree.eval, BinOp.apply, bind, Except.bind, pure, Except.pure]
    cases sm.eval E x with
    | error e => rfl
    | ok a =>
      simp only []
      cases bm.eval E x with
      | error e => rfl
      | ok b =>
        simp only []
        cases sampleTree E (.bin .mul sm bm) xs with
        | error e => rfl
        | ok as =>
          simp only [Except.map, List.map_cons]
          congr 2; ring

/-- sampling `ConstFlux1D(v, u) * b` where the constant evaluates to `g x` PHOTLAM -/
theorem sampleTree_constFlux_mul (E : Env K) (v : K) (u : FluxUnit K) (bm : Tree K) (g : K → K) :
    ∀ (xs ys : List K), (∀ x ∈ xs, toPhotlam E.P E.T (plainSamp x) u v = .ok (g x)) →
      sampleTree E bm xs = .ok ys →
      sampleTree E (.bin .mul (.leaf (.constFlux v u)) bm) xs = .ok ((xs.zip ys).map fun p => g p.1 * p.2) := by
  intro xs
  induction xs with
  | nil => intro ys _ h; rfl
  | cons x xs ih =>
    intro ys hg h
    rw [sampleTree_cons] at h
    cases ha : bm.eval E x with
    | error e => rw [ha] at h; cases h
    | ok b =>
      cases hs : sampleTree E bm xs with
      | error e => rw [ha, hs] at h; cases h
      | ok bs =>
        rw [ha, hs] at h
        injection h with h; subst h
        rw [sampleTree_cons, ih bs (fun x hx => hg x (List.mem_cons_of_mem _ hx)) hs]
        simp only [Tree.eval, Leaf.eval, hg x (by simp), ha, BinOp.apply, bind, Except.bind, pure, Except.pure,
          List.zip_cons_cons, List.map_cons]

/-! ### PHOTLAM → FLAM on arrays -/

theorem convertAll_photlam_flam (P : PhysConst K) (T : Transc K) :
    ∀ (w f : List K), convertAll P T .photlam .flam (mkSamples w none none) f =
      .ok ((w.zip f).map fun p => p.2 * (P.h * P.c) / p.1) := by
  intro w
  induction w with
  | nil => intro f; cases f <;> rfl
  | cons l ws ih =>
    intro f
    cases f with
    | nil => rfl
    | cons x xs =>
      have hne : (FluxUnit.photlam : FluxUnit K) ≠ .flam := by intro h; cases h
      simp only [mkSamples, convertAll, Option.map_none, Option.bind_none, convertOne, if_neg hne, toPhotlam,
        ofPhotlam, bind, Except.bind, ih xs, pure, Except.pure, List.zip_cons_cons, List.map_cons]

/-- `convert_flux(w, f, FLAM)` of PHOTLAM samples: `f·hc/λ` element by element, never an error -/
theorem convertFlux_photlam_flam (P : PhysConst K) (T : Transc K) (w f : List K) :
    convertFlux P T w f .photlam .flam none none = .ok ((w.zip f).map fun p => p.2 * (P.h * P.c) / p.1) := by
  have hne : (FluxUnit.photlam : FluxUnit K) ≠ .flam := by intro h; cases h
  unfold convertFlux
  rw [if_neg hne]
  simp only [countFactorsFor, FluxUnit.needsArea, Bool.or_self, Bool.false_eq_true, if_false, bind, Except.bind,
    pure, Except.pure]
  exact convertAll_photlam_flam P T w f

theorem convertFlux_photlam_photlam (P : PhysConst K) (T : Transc K) (w f : List K) :
    convertFlux P T w f .photlam .photlam none none = .ok f := by
  unfold convertFlux; rw [if_pos rfl]

/-! ### list forms of the sums -/

/-- samples `(λ, λ·f(λ))` of a list of `(λ, f)` pairs -/
def timesLam (l : List (K × K)) : List (K × K) := l.map fun p => (p.1, p.1 * p.2)
/-- samples `(λ, f(λ)/λ)` -/
def overLam (l : List (K × K)) : List (K × K) := l.map fun p => (p.1, p.2 / p.1)

/-- the FLAM effective stimulus: `|∫ λ F_λ P| / |∫ λ P|` on the sampling grid (what the code forms) -/
def effstimFlam (obsFlam band : List (K × K)) : K := |trapz (timesLam obsFlam)| / |trapz (timesLam band)|

/-- PHOTLAM samples → FLAM samples (`F_λ = N_λ·hc/λ`) -/
def toFlam (P : PhysConst K) (l : List (K × K)) : List (K × K) := l.map fun p => (p.1, p.2 * (P.h * P.c) / p.1)

/-- samples `(λ, f(λ)·λ²)` -/
def timesLamSq (l : List (K × K)) : List (K × K) := l.map fun p => (p.1, p.2 * p.1 ^ 2)

/-- the effective wavelength of samples `(λ, F)`: `|∫Fλ² / ∫Fλ|`, 0 when the denominator vanishes -/
def efflamOf (l : List (K × K)) : K :=
  if trapz (timesLam l) = 0 then 0 else |trapz (timesLamSq l) / trapz (timesLam l)|

/-- the pivot wavelength of bandpass samples `(λ, P)`: `sqrt |∫Pλ / ∫P/λ|`, 0 when the denominator vanishes -/
def pivotOf (T : Transc K) (band : List (K × K)) : K :=
  if trapz (overLam band) = 0 then 0 else T.sqrt |trapz (timesLam band) / trapz (overLam band)|

/-- the density units: everything `effstim` integrates in FLAM -/
def IsDensity (u : FluxUnit K) : Prop := u ≠ .count ∧ u ≠ .obmag ∧ u ≠ .vegamag

theorem IsDensity.flam : IsDensity (.flam : FluxUnit K) := ⟨nofun, nofun, nofun⟩
theorem IsDensity.stmag : IsDensity (.stmag : FluxUnit K) := ⟨nofun, nofun, nofun⟩
theorem IsDensity.fnu : IsDensity (.fnu : FluxUnit K) := ⟨nofun, nofun, nofun⟩
theorem IsDensity.abmag : IsDensity (.abmag : FluxUnit K) := ⟨nofun, nofun, nofun⟩
theorem IsDensity.photlam : IsDensity (.photlam : FluxUnit K) := ⟨nofun, nofun, nofun⟩
theorem IsDensity.photnu : IsDensity (.photnu : FluxUnit K) := ⟨nofun, nofun, nofun⟩
theorem IsDensity.jy (s : K) : IsDensity (.jy s : FluxUnit K) := ⟨nofun, nofun, nofun⟩

/-- what `effstim` does with the PHOTLAM samples `obs` of the observation and the samples `band` of the
bandpass, for a density unit (`wl`: the caller's wavelengths, on which the pivot is taken too) -/
def effstimOf (E : Env K) (thr : K) (bm : Tree K) (wl : Option (List K)) (u : FluxUnit K)
    (obs band : List (K × K)) : Except Err K :=
  if |trapz (timesLam (toFlam E.P obs))| ≤ 0 then .error .synphotError
  else if |trapz (timesLam band)| ≤ 0 then .error .synphotError
  else match u with
    | .flam => .ok (effstimFlam (toFlam E.P obs) band)
    | .stmag => toMag E.T (effstimFlam (toFlam E.P obs) band / E.P.stZero)
    | u' => pivot E thr bm wl >>= fun wp =>
        convertOne E.P E.T (plainSamp wp) .flam u' (effstimFlam (toFlam E.P obs) band)

theorem num_eq (P : PhysConst K) (inw inp : List K) :
    trapzXY inw ((inw.zip ((inw.zip inp).map fun p => p.2 * (P.h * P.c) / p.1)).map fun x => x.1 * x.2) =
      trapz (timesLam (toFlam P (inw.zip inp))) := by
  rw [zip_map_zip, List.map_map]
  rw [trapzXY_zip]
  simp only [timesLam, toFlam, List.map_map]
  rfl

theorem den_eq (xb yb : List K) :
    trapzXY xb ((xb.zip yb).map fun x => x.1 * x.2) = trapz (timesLam (xb.zip yb)) := by
  rw [trapzXY_zip]; rfl

/-- `effstim` in a density unit: sample the bandpass and the observation, then `effstimOf` -/
theorem effstim_pipeline (E : Env K) (thr atol rtol : K) (o : Obs K) (u : FluxUnit K) (hu : IsDensity u)
    (wl : Option (List K)) (area : Option K) (vega : Option (Tree K)) :
    effstim E thr atol rtol o u wl area vega =
      (o.band.model >>= fun bm => wavelengthsOr thr bm wl >>= fun xb => sampleTree E bm xb >>= fun yb =>
        wavelengthsOr thr o.model wl >>= fun inw => sampleTree E o.model inw >>= fun inp =>
          effstimOf E thr bm wl u (inw.zip inp) (xb.zip yb)) := by
  obtain ⟨h1, h2, h3⟩ := hu
  cases u <;> first | exact absurd rfl h1 | exact absurd rfl h2 | exact absurd rfl h3 | skip
  all_goals
    simp only [effstim, bind, Except.bind, pure, Except.pure]
    cases o.band.model <;> simp only []
    rename_i bm
    cases wavelengthsOr thr bm wl <;> simp only []
    rename_i xb
    cases sampleTree E bm xb <;> simp only []
    rename_i yb
    cases wavelengthsOr thr o.model wl <;> simp only []
    rename_i inw
    cases sampleTree E o.model inw <;> simp only []
    rename_i inp
    rw [convertFlux_photlam_flam]
    simp only []
    rw [num_eq, den_eq]
    simp only [validateTotalflux, effstimOf, effstimFlam]
    split_ifs <;> rfl

/-- `pivot(wavelengths)` is `pivotOf` of the bandpass samples on the wavelengths used -/
theorem pivot_eq (E : Env K) (thr : K) (bm : Tree K) (wl : Option (List K)) (xb yb : List K)
    (hxb : wavelengthsOr thr bm wl = .ok xb) (hyb : sampleTree E bm xb = .ok yb) :
    pivot E thr bm wl = .ok (pivotOf E.T (xb.zip yb)) := by
  have h1 : trapzXY xb ((xb.zip yb).map fun x => x.2 * x.1) = trapz (timesLam (xb.zip yb)) := by
    rw [trapzXY_zip]; unfold timesLam; congr 1
    apply List.map_congr_left; intro p _; rw [mul_comm]
  have h2 : trapzXY xb ((xb.zip yb).map fun x => x.2 / x.1) = trapz (overLam (xb.zip yb)) := by
    rw [trapzXY_zip]; rfl
  simp only [pivot, hxb, hyb, bind, Except.bind, pure, Except.pure]
  rw [h1, h2]
  unfold pivotOf
  split_ifs <;> rfl

/-! ### conversion of a FLAM value at one wavelength -/

section convert
variable {P : PhysConst K} {T : Transc K}

theorem convert_flam_photlam (w val : K) :
    convertOne P T (plainSamp w) .flam .photlam val = .ok (val * w / (P.h * P.c)) := by
  have hne : (FluxUnit.flam : FluxUnit K) ≠ .photlam := by intro h; cases h
  simp only [convertOne, if_neg hne, toPhotlam, ofPhotlam, plainSamp, bind, Except.bind]

theorem convert_flam_photnu (w val : K) :
    convertOne P T (plainSamp w) .flam .photnu val = .ok (val * w / (P.h * P.c) * w ^ 2 / P.c) := by
  have hne : (FluxUnit.flam : FluxUnit K) ≠ .photnu := by intro h; cases h
  simp only [convertOne, if_neg hne, toPhotlam, ofPhotlam, plainSamp, bind, Except.bind]

theorem convert_flam_fnu (hP : P.Pos) (w val : K) (hw : w ≠ 0) :
    convertOne P T (plainSamp w) .flam .fnu val = .ok (val * w ^ 2 / P.c) := by
  have hne : (FluxUnit.flam : FluxUnit K) ≠ .fnu := by intro h; cases h
  have hh := ne_of_gt hP.h; have hc := ne_of_gt hP.c
  simp only [convertOne, if_neg hne, toPhotlam, ofPhotlam, plainSamp, bind, Except.bind]
  congr 1; field_simp

theorem convert_flam_jy (hP : P.Pos) (w val k : K) (hw : w ≠ 0) :
    convertOne P T (plainSamp w) .flam (.jy k) val = .ok (val * w ^ 2 / P.c / (k * P.jyFnu)) := by
  have hne : (FluxUnit.flam : FluxUnit K) ≠ .jy k := by intro h; cases h
  have hh := ne_of_gt hP.h; have hc := ne_of_gt hP.c
  simp only [convertOne, if_neg hne, toPhotlam, ofPhotlam, plainSamp, bind, Except.bind]
  congr 2; field_simp

theorem convert_flam_abmag (hP : P.Pos) (w val : K) (hw : w ≠ 0) :
    convertOne P T (plainSamp w) .flam .abmag val = toMag T (val * w ^ 2 / P.c / P.abZero) := by
  have hne : (FluxUnit.flam : FluxUnit K) ≠ .abmag := by intro h; cases h
  have hh := ne_of_gt hP.h; have hc := ne_of_gt hP.c
  simp only [convertOne, if_neg hne, toPhotlam, ofPhotlam, plainSamp, bind, Except.bind]
  apply toMag_congr; congr 1; field_simp

theorem convert_flam_stmag (hP : P.Pos) (w val : K) (hw : w ≠ 0) :
    convertOne P T (plainSamp w) .flam .stmag val = toMag T (val / P.stZero) := by
  have hne : (FluxUnit.flam : FluxUnit K) ≠ .stmag := by intro h; cases h
  have hh := ne_of_gt hP.h; have hc := ne_of_gt hP.c
  simp only [convertOne, if_neg hne, toPhotlam, ofPhotlam, plainSamp, bind, Except.bind]
  apply toMag_congr; congr 1; field_simp

/-- multiplying a linear value by `k > 0` shifts its magnitude by `−2.5 log₁₀ k`; a non-positive value has
no magnitude either way -/
theorem toMag_scale (hT : T.Lawful) (k x : K) (hk : 0 < k) :
    toMag T (k * x) = (toMag T x).map (· - (5/2) * T.log10 k) := by
  unfold toMag
  by_cases hx : x ≤ 0
  · have : k * x ≤ 0 := mul_nonpos_of_nonneg_of_nonpos (le_of_lt hk) hx
    rw [if_pos hx, if_pos this]; rfl
  · have hx' : 0 < x := not_le.mp hx
    rw [if_neg hx, if_neg (not_le.mpr (mul_pos hk hx')), hT.log10_mul k x hk hx']
    simp only [Except.map]; congr 1; ring

end convert

/-! ### scaling the observation's samples -/

/-- samples with every ordinate multiplied by `k` -/
def scaleY (k : K) (l : List (K × K)) : List (K × K) := l.map fun p => (p.1, k * p.2)

theorem zip_scale (k : K) (xs ys : List K) : xs.zip (ys.map (k * ·)) = scaleY k (xs.zip ys) :=
  zip_map_right xs ys (k * ·)

theorem toFlam_scaleY (P : PhysConst K) (k : K) (l : List (K × K)) :
    toFlam P (scaleY k l) = scaleY k (toFlam P l) := by
  simp only [toFlam, scaleY, List.map_map]; apply List.map_congr_left; intro p _
  simp only [Function.comp]; congr 1; ring

theorem timesLam_scaleY (k : K) (l : List (K × K)) : timesLam (scaleY k l) = scaleY k (timesLam l) := by
  simp only [timesLam, scaleY, List.map_map]; apply List.map_congr_left; intro p _
  simp only [Function.comp]; congr 1; ring

theorem timesLamSq_scaleY (k : K) (l : List (K × K)) : timesLamSq (scaleY k l) = scaleY k (timesLamSq l) := by
  simp only [timesLamSq, scaleY, List.map_map]; apply List.map_congr_left; intro p _
  simp only [Function.comp]; congr 1; ring

theorem trapz_scaleY (k : K) (l : List (K × K)) : trapz (scaleY k l) = k * trapz l := trapz_smul k l

theorem effstimFlam_scaleY (obs band : List (K × K)) (k : K) (hk : 0 < k) :
    effstimFlam (scaleY k obs) band = k * effstimFlam obs band := by
  unfold effstimFlam
  rw [timesLam_scaleY, trapz_scaleY, abs_mul, abs_of_pos hk]; ring

/-- conversion of a FLAM value to a linear density unit at a fixed wavelength is homogeneous -/
theorem convertOne_flam_linear (P : PhysConst K) (T : Transc K) (u : FluxUnit K)
    (hu : u = .fnu ∨ u = .photlam ∨ u = .photnu ∨ ∃ s, u = .jy s) (w val k : K) :
    convertOne P T (plainSamp w) .flam u (k * val) = (convertOne P T (plainSamp w) .flam u val).map (k * ·) := by
  rcases hu with rfl | rfl | rfl | ⟨s, rfl⟩
  · have hne : (FluxUnit.flam : FluxUnit K) ≠ .fnu := by intro h; cases h
    simp only [convertOne, if_neg hne, toPhotlam, ofPhotlam, plainSamp, bind, Except.bind, Except.map]
    congr 1; ring
  · have hne : (FluxUnit.flam : FluxUnit K) ≠ .photlam := by intro h; cases h
    simp only [convertOne, if_neg hne, toPhotlam, ofPhotlam, plainSamp, bind, Except.bind, Except.map]
    congr 1; ring
  · have hne : (FluxUnit.flam : FluxUnit K) ≠ .photnu := by intro h; cases h
    simp only [convertOne, if_neg hne, toPhotlam, ofPhotlam, plainSamp, bind, Except.bind, Except.map]
    congr 1; ring
  · have hne : (FluxUnit.flam : FluxUnit K) ≠ .jy s := by intro h; cases h
    simp only [convertOne, if_neg hne, toPhotlam, ofPhotlam, plainSamp, bind, Except.bind, Except.map]
    congr 1; ring

/-- the branch of `effstimOf` that converts at the pivot wavelength -/
theorem effstimOf_pivot_branch (E : Env K) (thr : K) (bm : Tree K) (wl : Option (List K)) (u : FluxUnit K)
    (hu : u = .fnu ∨ u = .photlam ∨ u = .photnu ∨ u = .abmag ∨ ∃ s, u = .jy s) (obs band : List (K × K)) :
    effstimOf E thr bm wl u obs band =
      if |trapz (timesLam (toFlam E.P obs))| ≤ 0 then .error .synphotError
      else if |trapz (timesLam band)| ≤ 0 then .error .synphotError
      else pivot E thr bm wl >>= fun wp =>
        convertOne E.P E.T (plainSamp wp) .flam u (effstimFlam (toFlam E.P obs) band) := by
  rcases hu with rfl | rfl | rfl | rfl | ⟨s, rfl⟩ <;> rfl

/-- `effstimOf` in a linear density unit is homogeneous in the observation's samples, errors included -/
theorem effstimOf_scale_linear (E : Env K) (thr : K) (bm : Tree K) (wl : Option (List K)) (u : FluxUnit K)
    (hu : u = .flam ∨ u = .fnu ∨ u = .photlam ∨ u = .photnu ∨ ∃ s, u = .jy s)
    (obs band : List (K × K)) (k : K) (hk : 0 < k) :
    effstimOf E thr bm wl u (scaleY k obs) band = (effstimOf E thr bm wl u obs band).map (k * ·) := by
  have hnum : |trapz (timesLam (toFlam E.P (scaleY k obs)))| = k * |trapz (timesLam (toFlam E.P obs))| := by
    rw [toFlam_scaleY, timesLam_scaleY, trapz_scaleY, abs_mul, abs_of_pos hk]
  have hiff : (|trapz (timesLam (toFlam E.P (scaleY k obs)))| ≤ 0) ↔ (|trapz (timesLam (toFlam E.P obs))| ≤ 0) := by
    rw [hnum]
    constructor
    · intro h; by_contra h'; exact absurd (mul_pos hk (not_le.mp h')) (not_lt.mpr h)
    · intro h; exact mul_nonpos_of_nonneg_of_nonpos (le_of_lt hk) h
  rcases hu with rfl | hu
  · unfold effstimOf
    by_cases h1 : |trapz (timesLam (toFlam E.P obs))| ≤ 0
    · rw [if_pos h1, if_pos (hiff.mpr h1)]; rfl
    · rw [if_neg h1, if_neg (fun h => h1 (hiff.mp h))]
      by_cases h2 : |trapz (timesLam band)| ≤ 0
      · rw [if_pos h2, if_pos h2]; rfl
      · rw [if_neg h2, if_neg h2, toFlam_scaleY, effstimFlam_scaleY _ _ _ hk]; rfl
  · have hu' : u = .fnu ∨ u = .photlam ∨ u = .photnu ∨ u = .abmag ∨ ∃ s, u = .jy s := by
      rcases hu with h | h | h | h
      · exact Or.inl h
      · exact Or.inr (Or.inl h)
      · exact Or.inr (Or.inr (Or.inl h))
      · exact Or.inr (Or.inr (Or.inr (Or.inr h)))
    rw [effstimOf_pivot_branch E thr bm wl u hu', effstimOf_pivot_branch E thr bm wl u hu']
    by_cases h1 : |trapz (timesLam (toFlam E.P obs))| ≤ 0
    · rw [if_pos h1, if_pos (hiff.mpr h1)]; rfl
    · rw [if_neg h1, if_neg (fun h => h1 (hiff.mp h))]
      by_cases h2 : |trapz (timesLam band)| ≤ 0
      · rw [if_pos h2, if_pos h2]; rfl
      · rw [if_neg h2, if_neg h2, toFlam_scaleY, effstimFlam_scaleY _ _ _ hk]
        simp only [bind, Except.bind]
        cases pivot E thr bm wl with
        | error e => rfl
        | ok wp => exact convertOne_flam_linear E.P E.T u hu wp _ k

/-- … and in STmag / ABmag it is shifted by `−2.5 log₁₀ k`, errors included -/
theorem effstimOf_scale_mag (E : Env K) (hT : E.T.Lawful) (thr : K) (bm : Tree K) (wl : Option (List K))
    (u : FluxUnit K)
    (hu : u = .stmag ∨ u = .abmag) (obs band : List (K × K)) (k : K) (hk : 0 < k) :
    effstimOf E thr bm wl u (scaleY k obs) band =
      (effstimOf E thr bm wl u obs band).map (· - (5/2) * E.T.log10 k) := by
  have hnum : |trapz (timesLam (toFlam E.P (scaleY k obs)))| = k * |trapz (timesLam (toFlam E.P obs))| := by
    rw [toFlam_scaleY, timesLam_scaleY, trapz_scaleY, abs_mul, abs_of_pos hk]
  have hiff : (|trapz (timesLam (toFlam E.P (scaleY k obs)))| ≤ 0) ↔ (|trapz (timesLam (toFlam E.P obs))| ≤ 0) := by
    rw [hnum]
    constructor
    · intro h; by_contra h'; exact absurd (mul_pos hk (not_le.mp h')) (not_lt.mpr h)
    · intro h; exact mul_nonpos_of_nonneg_of_nonpos (le_of_lt hk) h
  unfold effstimOf
  by_cases h1 : |trapz (timesLam (toFlam E.P obs))| ≤ 0
  · rw [if_pos h1, if_pos (hiff.mpr h1)]; rfl
  · rw [if_neg h1, if_neg (fun h => h1 (hiff.mp h))]
    by_cases h2 : |trapz (timesLam band)| ≤ 0
    · rw [if_pos h2, if_pos h2]; rfl
    · rw [if_neg h2, if_neg h2, toFlam_scaleY, effstimFlam_scaleY _ _ _ hk]
      rcases hu with rfl | rfl
      · simp only []
        rw [mul_div_assoc, toMag_scale hT _ _ hk]
      · simp only [bind, Except.bind]
        cases pivot E thr bm wl with
        | error e => rfl
        | ok wp =>
          have hne : (FluxUnit.flam : FluxUnit K) ≠ .abmag := by intro h; cases h
          simp only [convertOne, if_neg hne, toPhotlam, ofPhotlam, plainSamp, bind, Except.bind]
          rw [← toMag_scale hT _ _ hk]
          apply toMag_congr; ring

/-! ### effective wavelength -/

/-- the wavelengths `effective_wavelength(binned, wavelengths)` samples at -/
def efflamGrid (thr : K) (o : Obs K) (binned : Bool) (wl : Option (List K)) : Except Err (List K) :=
  if binned then (match wl with
      | some w => do validateWavelengths w; pure w
      | none => pure o.bins.binset)
    else wavelengthsOr thr o.model wl

/-- the PHOTLAM samples it takes there -/
def efflamSamples (E : Env K) (atol rtol : K) (o : Obs K) (binned : Bool) (x : List K) : Except Err (List K) :=
  if binned then sampleBinned atol rtol o.bins x else sampleTree E o.model x

theorem efflam_num_eq (x y : List K) :
    trapzXY x ((x.zip y).map fun p => p.2 * p.1 ^ 2) = trapz (timesLamSq (x.zip y)) := by
  rw [trapzXY_zip]; rfl

theorem efflam_den_eq (x y : List K) :
    trapzXY x ((x.zip y).map fun p => p.2 * p.1) = trapz (timesLam (x.zip y)) := by
  rw [trapzXY_zip]; unfold timesLam; congr 1
  apply List.map_congr_left; intro p _; rw [mul_comm]

theorem zip_toFlam (P : PhysConst K) (x yp : List K) :
    x.zip ((x.zip yp).map fun p => p.2 * (P.h * P.c) / p.1) = toFlam P (x.zip yp) := zip_map_zip x yp _

theorem efflam_tail (E : Env K) (x yp : List K) (erg : Bool) :
    (convertFlux E.P E.T x yp .photlam (if erg then .flam else .photlam) none none >>= fun y =>
      if trapzXY x ((x.zip y).map fun (a, b) => b * a) = 0 then (pure 0 : Except Err K)
      else pure |trapzXY x ((x.zip y).map fun (a, b) => b * a ^ 2) / trapzXY x ((x.zip y).map fun (a, b) => b * a)|) =
      .ok (efflamOf (if erg then toFlam E.P (x.zip yp) else x.zip yp)) := by
  cases erg
  · simp only [Bool.false_eq_true, if_false, convertFlux_photlam_photlam, bind, Except.bind, pure, Except.pure]
    rw [efflam_num_eq, efflam_den_eq]; unfold efflamOf
    split_ifs <;> rfl
  · simp only [if_true, convertFlux_photlam_flam, bind, Except.bind, pure, Except.pure]
    rw [efflam_num_eq, efflam_den_eq, zip_toFlam]; unfold efflamOf
    split_ifs <;> rfl

/-- `effective_wavelength`: grid, samples, conversion to the requested convention, then `efflamOf` -/
theorem efflam_pipeline (E : Env K) (thr atol rtol : K) (o : Obs K) (binned : Bool) (wl : Option (List K))
    (erg : Bool) :
    effectiveWavelength E thr atol rtol o binned wl erg =
      (efflamGrid thr o binned wl >>= fun x => efflamSamples E atol rtol o binned x >>= fun yp =>
        .ok (efflamOf (if erg then toFlam E.P (x.zip yp) else x.zip yp))) := by
  unfold effectiveWavelength efflamGrid efflamSamples
  cases binned
  · simp only [Bool.false_eq_true, if_false, bind, Except.bind]
    cases wavelengthsOr thr o.model wl <;> simp only []
    rename_i x
    cases sampleTree E o.model x <;> simp only []
    rename_i yp
    exact efflam_tail E x yp erg
  · cases wl with
    | none =>
      simp only [if_true, bind, Except.bind, pure, Except.pure]
      cases sampleBinned atol rtol o.bins o.bins.binset <;> simp only []
      rename_i yp
      exact efflam_tail E _ yp erg
    | some w =>
      simp only [if_true, bind, Except.bind, pure, Except.pure]
      cases validateWavelengths w <;> simp only []
      cases sampleBinned atol rtol o.bins w <;> simp only []
      rename_i yp
      exact efflam_tail E _ yp erg

/-- the effective wavelength does not change when the flux is multiplied by `k ≠ 0` -/
theorem efflamOf_scaleY (k : K) (hk : k ≠ 0) (l : List (K × K)) : efflamOf (scaleY k l) = efflamOf l := by
  unfold efflamOf
  rw [timesLam_scaleY, timesLamSq_scaleY, trapz_scaleY, trapz_scaleY]
  by_cases h : trapz (timesLam l) = 0
  · rw [if_pos h, if_pos (by rw [h, mul_zero])]
  · rw [if_neg h, if_neg (mul_ne_zero hk h), mul_div_mul_left _ _ hk]

theorem timesLam_reverse (l : List (K × K)) : timesLam l.reverse = (timesLam l).reverse := by
  unfold timesLam; rw [List.map_reverse]
theorem timesLamSq_reverse (l : List (K × K)) : timesLamSq l.reverse = (timesLamSq l).reverse := by
  unfold timesLamSq; rw [List.map_reverse]
theorem toFlam_reverse (P : PhysConst K) (l : List (K × K)) : toFlam P l.reverse = (toFlam P l).reverse := by
  unfold toFlam; rw [List.map_reverse]

/-- … nor when the samples are taken in the opposite order -/
theorem efflamOf_reverse (l : List (K × K)) : efflamOf l.reverse = efflamOf l := by
  unfold efflamOf
  rw [timesLam_reverse, timesLamSq_reverse, trapz_reverse, trapz_reverse, neg_div_neg_eq]
  by_cases h : trapz (timesLam l) = 0
  · rw [if_pos h, if_pos (by rw [h, neg_zero])]
  · rw [if_neg h, if_neg (neg_ne_zero.mpr h)]

theorem ascX_map (f : K × K → K) (l : List (K × K)) (hx : AscX l) : AscX (l.map fun p => (p.1, f p)) := by
  induction l with
  | nil => trivial
  | cons a l ih =>
    cases l with
    | nil => trivial
    | cons b l => exact ⟨hx.1, ih hx.2⟩

theorem ascX_timesLam (l : List (K × K)) (hx : AscX l) : AscX (timesLam l) := by
  unfold timesLam
  induction l with
  | nil => trivial
  | cons a l ih =>
    cases l with
    | nil => trivial
    | cons b l => exact ⟨hx.1, ih hx.2⟩

/-- for non-negative flux on an ascending grid of non-negative wavelengths the effective wavelength lies
between the bounds of the sampled wavelengths (when the denominator does not vanish) -/
theorem efflamOf_in_range (l : List (K × K)) (lo hi : K) (hx : AscX l)
    (hrange : ∀ p ∈ l, lo ≤ p.1 ∧ p.1 ≤ hi) (hlo : 0 ≤ lo) (hy : ∀ p ∈ l, 0 ≤ p.2)
    (hden : trapz (timesLam l) ≠ 0) : lo ≤ efflamOf l ∧ efflamOf l ≤ hi := by
  have hm1 : ((l.map fun p => (p.1, p.1 * p.2, p.1)).map fun p => (p.1, p.2.1)) = timesLam l := by
    simp only [timesLam, List.map_map]; apply List.map_congr_left; intro p _; rfl
  have hm2 : ((l.map fun p => (p.1, p.1 * p.2, p.1)).map fun p => (p.1, p.2.2 * p.2.1)) = timesLamSq l := by
    simp only [timesLamSq, List.map_map]; apply List.map_congr_left; intro p _
    simp only [Function.comp]; congr 1; ring
  have hasc := ascX_timesLam l hx
  have hnn : 0 ≤ trapz (timesLam l) := by
    apply trapz_nonneg _ hasc
    intro p hp
    simp only [timesLam, List.mem_map] at hp
    obtain ⟨p', hp', rfl⟩ := hp
    exact mul_nonneg (le_trans hlo (hrange p' hp').1) (hy p' hp')
  have hpos : 0 < trapz (timesLam l) := lt_of_le_of_ne hnn (Ne.symm hden)
  have hb := trapz_weighted_bounds lo hi (l.map fun p => (p.1, p.1 * p.2, p.1))
    (by rw [hm1]; exact hasc)
    (by
      intro p hp
      simp only [List.mem_map] at hp
      obtain ⟨p', hp', rfl⟩ := hp
      exact mul_nonneg (le_trans hlo (hrange p' hp').1) (hy p' hp'))
    (by
      intro p hp
      simp only [List.mem_map] at hp
      obtain ⟨p', hp', rfl⟩ := hp
      exact hrange p' hp')
  rw [hm1, hm2] at hb
  have h1 : lo ≤ trapz (timesLamSq l) / trapz (timesLam l) := by rw [le_div_iff₀ hpos]; exact hb.1
  have h2 : trapz (timesLamSq l) / trapz (timesLam l) ≤ hi := by rw [div_le_iff₀ hpos]; exact hb.2
  unfold efflamOf
  rw [if_neg hden, abs_of_nonneg (le_trans hlo h1)]
  exact ⟨h1, h2⟩

/-! ### flat spectra -/

theorem timesLam_toFlam_flamlike (P : PhysConst K) (hP : P.Pos) (a : K) (band : List (K × K))
    (hpos : ∀ p ∈ band, p.1 ≠ 0) :
    timesLam (toFlam P (band.map fun p => (p.1, a * p.1 / (P.h * P.c) * p.2))) = scaleY a (timesLam band) := by
  have hh := ne_of_gt hP.h; have hc := ne_of_gt hP.c
  simp only [timesLam, toFlam, scaleY, List.map_map]; apply List.map_congr_left; intro p hp
  have := hpos p hp
  simp only [Function.comp]; congr 1; field_simp

theorem timesLam_toFlam_fnulike (P : PhysConst K) (hP : P.Pos) (b : K) (band : List (K × K))
    (hpos : ∀ p ∈ band, p.1 ≠ 0) :
    timesLam (toFlam P (band.map fun p => (p.1, b * P.c / p.1 ^ 2 * p.1 / (P.h * P.c) * p.2))) =
      scaleY (b * P.c) (overLam band) := by
  have hh := ne_of_gt hP.h; have hc := ne_of_gt hP.c
  simp only [timesLam, toFlam, overLam, scaleY, List.map_map]; apply List.map_congr_left; intro p hp
  have := hpos p hp
  simp only [Function.comp]; congr 1; field_simp

/-- the FLAM effective stimulus of a source flat at `a > 0` in FLAM -/
theorem effstimFlam_flamlike (P : PhysConst K) (hP : P.Pos) (a : K) (ha : 0 < a) (band : List (K × K))
    (hpos : ∀ p ∈ band, p.1 ≠ 0) (hB : trapz (timesLam band) ≠ 0) :
    |trapz (timesLam (toFlam P (band.map fun p => (p.1, a * p.1 / (P.h * P.c) * p.2))))| =
        a * |trapz (timesLam band)| ∧
    effstimFlam (toFlam P (band.map fun p => (p.1, a * p.1 / (P.h * P.c) * p.2))) band = a := by
  have hB' : |trapz (timesLam band)| ≠ 0 := abs_ne_zero.mpr hB
  unfold effstimFlam
  rw [timesLam_toFlam_flamlike P hP a band hpos, trapz_scaleY, abs_mul, abs_of_pos ha]
  exact ⟨rfl, by field_simp⟩

/-- the FLAM effective stimulus of a source flat at `b > 0` in FNU, and its value converted to FNU at the pivot -/
theorem effstimFlam_fnulike (P : PhysConst K) (hP : P.Pos) (T : Transc K) (hT : T.Lawful) (b : K) (hb : 0 < b)
    (band : List (K × K)) (hpos : ∀ p ∈ band, p.1 ≠ 0)
    (hA : trapz (overLam band) ≠ 0) (hB : trapz (timesLam band) ≠ 0) :
    |trapz (timesLam (toFlam P (band.map fun p => (p.1, b * P.c / p.1 ^ 2 * p.1 / (P.h * P.c) * p.2))))| =
        b * P.c * |trapz (overLam band)| ∧
    pivotOf T band ≠ 0 ∧
    effstimFlam (toFlam P (band.map fun p => (p.1, b * P.c / p.1 ^ 2 * p.1 / (P.h * P.c) * p.2))) band *
      pivotOf T band ^ 2 / P.c = b := by
  have hc := hP.c
  have hA' : |trapz (overLam band)| ≠ 0 := abs_ne_zero.mpr hA
  have hB' : |trapz (timesLam band)| ≠ 0 := abs_ne_zero.mpr hB
  have hsq : pivotOf T band ^ 2 = |trapz (timesLam band)| / |trapz (overLam band)| := by
    unfold pivotOf
    rw [if_neg hA, pow_two, hT.sqrt_mul_self _ (abs_nonneg _), abs_div]
  have hne : pivotOf T band ≠ 0 := by
    intro h
    rw [h] at hsq
    have : |trapz (timesLam band)| / |trapz (overLam band)| ≠ 0 := div_ne_zero hB' hA'
    exact this (by rw [← hsq]; ring)
  refine ⟨?_, hne, ?_⟩
  · rw [timesLam_toFlam_fnulike P hP b band hpos, trapz_scaleY, abs_mul, abs_of_pos (mul_pos hb hc)]
  · unfold effstimFlam
    rw [timesLam_toFlam_fnulike P hP b band hpos, trapz_scaleY, abs_mul, abs_of_pos (mul_pos hb hc), hsq]
    have hcne := ne_of_gt hc
    field_simp

/-! ### sampling sets of the observation's model -/

theorem wavesetOrErr_pos {thr : K} {m : Tree K} {w : List K} (h : wavesetOrErr thr m = .ok w) :
    ∀ x ∈ w, 0 < x := by
  unfold wavesetOrErr Tree.waveset at h
  cases hs : m.sampleset thr with
  | none => rw [hs] at h; cases h
  | some w' =>
    rw [hs] at h
    simp only [bind, Except.bind, pure, Except.pure] at h
    cases hv : validateWavelengths w' with
    | error e => rw [hv] at h; cases h
    | ok u =>
      rw [hv] at h
      injection h with h; subst h
      cases u
      exact ((validate_ok_iff w').mp hv).1

theorem wavesetOrErr_congr {thr : K} {m m' : Tree K} (h : m'.sampleset thr = m.sampleset thr) :
    wavesetOrErr thr m' = wavesetOrErr thr m := by
  unfold wavesetOrErr Tree.waveset; rw [h]

theorem sampleset_constFlux_mul (thr v : K) (u : FluxUnit K) (bm : Tree K) :
    (Tree.bin .mul (.leaf (.constFlux v u)) bm).sampleset thr = bm.sampleset thr := by
  simp only [Tree.sampleset, Leaf.sampleset]
  cases bm.sampleset thr <;> rfl

theorem sampleset_scaled_source (thr k : K) (sm bm : Tree K) :
    (Tree.bin .mul (.scale sm k) bm).sampleset thr = (Tree.bin .mul sm bm).sampleset thr := rfl

theorem wavelengthsOr_pos {thr : K} {m : Tree K} {wl : Option (List K)} {w : List K}
    (h : wavelengthsOr thr m wl = .ok w) : ∀ x ∈ w, 0 < x := by
  cases wl with
  | none => exact wavesetOrErr_pos h
  | some w' =>
    simp only [wavelengthsOr, bind, Except.bind, pure, Except.pure] at h
    cases hv : validateWavelengths w' with
    | error e => rw [hv] at h; cases h
    | ok u =>
      rw [hv] at h
      injection h with h; subst h
      cases u
      exact ((validate_ok_iff w').mp hv).1

theorem wavelengthsOr_congr {thr : K} {m m' : Tree K} (wl : Option (List K))
    (h : m'.sampleset thr = m.sampleset thr) : wavelengthsOr thr m' wl = wavelengthsOr thr m wl := by
  cases wl with
  | none => exact wavesetOrErr_congr h
  | some w => rfl

/-- the effective stimulus of `ConstFlux1D(v, u) × bandpass`, reduced to `effstimOf` on the bandpass samples
(on the bandpass's own sampling set, or on the caller's wavelengths) -/
theorem effstim_flat_reduce (E : Env K) (thr atol rtol : K) (o : Obs K) (u : FluxUnit K) (hu : IsDensity u)
    (wl : Option (List K)) (v : K) (bm : Tree K) (xb yb : List K) (g : K → K)
    (hmodel : o.model = .bin .mul (.leaf (.constFlux v u)) bm) (hbm : o.band.model = .ok bm)
    (hxb : wavelengthsOr thr bm wl = .ok xb) (hyb : sampleTree E bm xb = .ok yb)
    (hg : ∀ x ∈ xb, toPhotlam E.P E.T (plainSamp x) u v = .ok (g x)) :
    effstim E thr atol rtol o u wl none none =
      effstimOf E thr bm wl u ((xb.zip yb).map fun p => (p.1, g p.1 * p.2)) (xb.zip yb) := by
  have hw : wavelengthsOr thr o.model wl = .ok xb := by
    rw [hmodel, wavelengthsOr_congr wl (sampleset_constFlux_mul thr v u bm), hxb]
  have hs : sampleTree E o.model xb = .ok ((xb.zip yb).map fun p => g p.1 * p.2) := by
    rw [hmodel]; exact sampleTree_constFlux_mul E v u bm g xb yb hg hyb
  rw [effstim_pipeline E thr atol rtol o u hu]
  simp only [hbm, hxb, hyb, hw, hs, bind, Except.bind]
  rw [zip_map_zip]

/-! ### a concrete observation for the non-vacuity examples -/

namespace Witness

/-- a box bandpass of height 1 on `[1, 5]`, sampled at 2 and 4 -/
def band : Tree K := .leaf (.box 1 3 4 (some [2, 4]))

/-- constants all equal to 1 -/
def phys : PhysConst K := ⟨1, 1, 1, 1, 1⟩

theorem phys_pos : (phys : PhysConst K).Pos := ⟨one_pos, one_pos, one_pos, one_pos, one_pos⟩

/-- the observation of the source model `sm` through `band` (no binning information) -/
def obs (sm : Tree K) : Obs K :=
  { src := Spec.ofTree .source sm, band := Spec.ofTree .bandpass band, model := .bin .mul sm band,
    warned := false, bins := ⟨[], [], [], [], [], [], []⟩ }

theorem band_model (sm : Tree K) : (obs sm).band.model = .ok band := rfl

theorem band_waveset (thr : K) : wavesetOrErr thr (band : Tree K) = .ok [2, 4] := by
  have hv : validateWavelengths ([2, 4] : List K) = .ok () := by
    rw [validate_ok_iff]
    refine ⟨?_, Or.inl ?_⟩
    · intro x hx; simp only [List.mem_cons, List.not_mem_nil, or_false] at hx
      rcases hx with rfl | rfl <;> norm_num
    · exact ⟨by norm_num, trivial⟩
  simp only [wavesetOrErr, Tree.waveset, Tree.sampleset, band, Leaf.sampleset, hv, bind, Except.bind, pure,
    Except.pure]

theorem band_grid (thr : K) : wavelengthsOr thr (band : Tree K) none = .ok [2, 4] := band_waveset thr

/-- an explicit, descending sampling of the same bandpass -/
theorem band_grid_desc (thr : K) : wavelengthsOr thr (band : Tree K) (some [4, 2]) = .ok [4, 2] := by
  have hv : validateWavelengths ([4, 2] : List K) = .ok () := by
    rw [validate_ok_iff]
    refine ⟨?_, Or.inr ?_⟩
    · intro x hx; simp only [List.mem_cons, List.not_mem_nil, or_false] at hx
      rcases hx with rfl | rfl <;> norm_num
    · exact ⟨by norm_num, trivial⟩
  simp only [wavelengthsOr, hv, bind, Except.bind, pure, Except.pure]

theorem band_samples_desc (E : Env K) : sampleTree E band [4, 2] = .ok [1, 1] := by
  have h2 : (3 : K) - 4 / 2 ≤ 2 ∧ (2 : K) ≤ 3 + 4 / 2 := by constructor <;> norm_num
  have h4 : (3 : K) - 4 / 2 ≤ 4 ∧ (4 : K) ≤ 3 + 4 / 2 := by constructor <;> norm_num
  simp only [sampleTree_cons, sampleTree_nil, band, Tree.eval, Leaf.eval, if_pos h2, if_pos h4, bind, Except.bind,
    pure, Except.pure]

theorem band_B_desc : trapz (timesLam (([4, 2] : List K).zip [1, 1])) = -6 := by
  simp only [List.zip_cons_cons, List.zip_nil_right, timesLam, List.map_cons, List.map_nil, trapz]; norm_num

theorem band_A_desc : trapz (overLam (([4, 2] : List K).zip [1, 1])) = -(3 / 4) := by
  simp only [List.zip_cons_cons, List.zip_nil_right, overLam, List.map_cons, List.map_nil, trapz]; norm_num

theorem band_samples (E : Env K) : sampleTree E band [2, 4] = .ok [1, 1] := by
  have h2 : (3 : K) - 4 / 2 ≤ 2 ∧ (2 : K) ≤ 3 + 4 / 2 := by constructor <;> norm_num
  have h4 : (3 : K) - 4 / 2 ≤ 4 ∧ (4 : K) ≤ 3 + 4 / 2 := by constructor <;> norm_num
  simp only [sampleTree_cons, sampleTree_nil, band, Tree.eval, Leaf.eval, if_pos h2, if_pos h4, bind, Except.bind,
    pure, Except.pure]

theorem band_B : trapz (timesLam (([2, 4] : List K).zip [1, 1])) = 6 := by
  simp only [List.zip_cons_cons, List.zip_nil_right, timesLam, List.map_cons, List.map_nil, trapz]; norm_num

theorem band_A : trapz (overLam (([2, 4] : List K).zip [1, 1])) = 3 / 4 := by
  simp only [List.zip_cons_cons, List.zip_nil_right, overLam, List.map_cons, List.map_nil, trapz]; norm_num

end Witness

end Synphot.C09
