/-
  C18 — Bin geometry helpers are mutually inverse and fail only with OverlapError.
  Property theorems only; helper lemmas live in `Synphot/Lemmas/Binning.lean` and `Synphot/Lemmas/PixRange.lean`.
  Everything is stated for every ordered field `K` (plus `[FloorRing K]` where `np.modf` is used), about the
  branch-for-branch model `Core/Binning.lean`, `Core/PixRange.lean` that the correspondence check ties to
  `synphot/binning.py`.
-/
import Synphot.Lemmas.Binning
import Synphot.Lemmas.PixRange
import Mathlib.Tactic.NormNum
import Mathlib.Algebra.Order.Field.Rat
import Mathlib.Algebra.Order.Floor.Ring
import Mathlib.Data.Rat.Floor

set_option linter.unusedSectionVars false
set_option linter.unusedSimpArgs false

namespace Synphot.C18
open Synphot
variable {K : Type} [Field K] [LinearOrder K] [IsStrictOrderedRing K]

/-! ## calculate_bin_edges / calculate_bin_widths / calculate_bin_centers -/

/-- centres recomputed from the edges reproduce the input (every length ≥ 2, any order, any values) -/
theorem centers_edges_inverse (c e : List K) (h : binEdges c = .ok e) : binCenters e = .ok c :=
  binCenters_binEdges c e h

/-- `calculate_bin_edges` succeeds exactly on arrays of at least two centres … -/
theorem edges_ok_iff (c : List K) : (∃ e, binEdges c = .ok e) ↔ 2 ≤ c.length := binEdges_ok_iff c

/-- … and raises SynphotError (nothing else) on shorter ones -/
theorem edges_short (c : List K) (h : c.length < 2) : binEdges c = .error .synphotError :=
  binEdges_short c h

/-- n centres give n+1 edges -/
theorem edges_length (c e : List K) (h : binEdges c = .ok e) : e.length = c.length + 1 := by
  rcases c with _ | ⟨a, _ | ⟨b, t⟩⟩
  · simp [binEdges, mids] at h
  · simp [binEdges, mids] at h
  · rw [binEdges_cons_cons] at h
    injection h with h
    subst h
    simp [edgesAux_length]

/-- interior edges are the midpoints of neighbouring centres; the first and the last edge make the first and
the last bin symmetric about its centre -/
theorem edges_spec (c e : List K) (h : binEdges c = .ok e) :
    ∃ (h2 : 2 ≤ c.length) (hl : e.length = c.length + 1),
      (∀ i (hi : i + 1 < c.length), e[i + 1] = (c[i] + c[i + 1]) / 2) ∧
      c[0] - e[0] = e[1] - c[0] ∧
      e[c.length] - c[c.length - 1] = c[c.length - 1] - e[c.length - 1] := by
  have hl := edges_length c e h
  rcases c with _ | ⟨a, _ | ⟨b, t⟩⟩
  · simp [binEdges, mids] at h
  · simp [binEdges, mids] at h
  · refine ⟨by simp, hl, ?_⟩
    rw [binEdges_cons_cons] at h
    injection h with h
    subst h
    have hmid : ∀ i (hi : i + 1 < (a :: b :: t).length),
        (edgesAux a (b :: t))[i]? = some (((a :: b :: t)[i] + (a :: b :: t)[i + 1]) / 2) := by
      intro i hi
      have := edgesAux_getElem? (b :: t) a i ((a :: b :: t)[i + 1]) ((a :: b :: t)[i])
        (by simp) (by simp)
      rw [this]; congr 1; ring
    refine ⟨?_, ?_, ?_⟩
    · intro i hi
      have := hmid i hi
      rw [List.getElem_cons_succ]
      exact (List.getElem_eq_iff _).mpr this
    · have := hmid 0 (by simp)
      have h1 : (edgesAux a (b :: t))[0]'(by simp [edgesAux_length]) = (a + b) / 2 := by
        exact (List.getElem_eq_iff _).mpr (by simpa using this)
      simp only [List.getElem_cons_zero, List.getElem_cons_succ, h1]
      ring
    · have hlen : (edgesAux a (b :: t)).length = t.length + 2 := edgesAux_length a b t
      have hm : (edgesAux a (b :: t))[(b :: t).length - 1]? =
          some ((edgesAux a (b :: t))[t.length]'(by omega)) := by
        simp only [List.length_cons, Nat.add_sub_cancel]
        exact List.getElem?_eq_getElem _
      have hx : (b :: t).getLast? = some ((b :: t)[t.length]'(by simp)) := by
        rw [List.getLast?_eq_getElem?]
        simp only [List.length_cons, Nat.add_sub_cancel]
        exact List.getElem?_eq_getElem _
      have hlast := edgesAux_last (b :: t) a _ _ hx hm
      have h1 : (edgesAux a (b :: t))[t.length + 1]'(by omega) =
          2 * (b :: t)[t.length]'(by simp) - (edgesAux a (b :: t))[t.length]'(by omega) :=
        (List.getElem_eq_iff _).mpr (by simpa using hlast)
      simp only [List.length_cons, Nat.add_sub_cancel, List.getElem_cons_succ, h1]
      ring


/-- edges of strictly increasing centres are strictly increasing -/
theorem edges_strictAsc (c e : List K) (hc : StrictAsc c) (h : binEdges c = .ok e) : StrictAsc e :=
  binEdges_strictAsc c e hc h

/-- edges of strictly decreasing centres are strictly decreasing -/
theorem edges_strictDesc (c e : List K) (hc : StrictDesc c) (h : binEdges c = .ok e) : StrictDesc e :=
  binEdges_strictDesc c e hc h

/-- `calculate_bin_widths`: n+1 edges give n widths; fewer than two edges is a SynphotError -/
theorem widths_length (e w : List K) (h : binWidths e = .ok w) : w.length = e.length - 1 := by
  unfold binWidths at h
  split_ifs at h
  injection h with h
  subst h
  exact absDiffs_length e

theorem widths_short (e : List K) (h : e.length < 2) : binWidths e = .error .synphotError := by
  simp [binWidths, h]

/-- `calculate_bin_centers`: n+1 edges give n centres; fewer than two edges is a SynphotError -/
theorem centers_length (e c : List K) (h : binCenters e = .ok c) : c.length = e.length - 1 := by
  rcases e with _ | ⟨a, _ | ⟨b, t⟩⟩
  · simp [binCenters] at h
  · simp [binCenters] at h
  · simp only [binCenters] at h
    injection h with h
    subst h
    simp [centersLoop_length]

theorem centers_short (e : List K) (h : e.length < 2) : binCenters e = .error .synphotError := by
  rcases e with _ | ⟨a, _ | ⟨b, t⟩⟩
  · simp [binCenters]
  · simp [binCenters]
  · simp only [List.length_cons] at h; omega

/-- the widths of the bins of n ≥ 2 centres exist and there are n of them -/
theorem widths_of_edges_ok (c e : List K) (h : binEdges c = .ok e) :
    ∃ w, binWidths e = .ok w ∧ w.length = c.length := by
  have hl := edges_length c e h
  have h2 := (edges_ok_iff c).mp ⟨e, h⟩
  refine ⟨absDiffs e, ?_, ?_⟩
  · simp only [binWidths]
    rw [if_neg (by omega)]
  · rw [absDiffs_length, hl]; simp

/-- all widths are positive for strictly monotone centres, either order -/
theorem widths_pos (c e w : List K) (hc : StrictAsc c ∨ StrictDesc c) (he : binEdges c = .ok e)
    (hw : binWidths e = .ok w) : ∀ x ∈ w, 0 < x := by
  unfold binWidths at hw
  split_ifs at hw
  injection hw with hw
  subst hw
  rcases hc with hc | hc
  · exact absDiffs_pos_of_strictAsc e (binEdges_strictAsc c e hc he)
  · exact absDiffs_pos_of_strictDesc e (binEdges_strictDesc c e hc he)

/-- the widths sum to the covered span |last edge − first edge| (strictly monotone centres, either order) -/
theorem widths_sum (c e w : List K) (hc : StrictAsc c ∨ StrictDesc c) (he : binEdges c = .ok e)
    (hw : binWidths e = .ok w) : w.sum = |e.getLastD 0 - e.headD 0| := by
  unfold binWidths at hw
  split_ifs at hw
  injection hw with hw
  subst hw
  rcases e with _ | ⟨a, t⟩
  · simp [absDiffs]
  · simp only [List.getLastD_cons, List.headD_cons]
    rcases hc with hc | hc
    · have hs := binEdges_strictAsc c _ hc he
      rw [absDiffs_sum_of_strictAsc t a hs, abs_of_nonneg]
      have := strictAsc_head_le_last t a hs
      linarith
    · have hs := binEdges_strictDesc c _ hc he
      rw [absDiffs_sum_of_strictDesc t a hs, abs_of_nonpos]
      · ring
      · have := strictDesc_last_le_head t a hs
        linarith

/-! non-vacuity: a concrete irregular array, both orders -/
example : binEdges ([1, 2, 4] : List ℚ) = .ok [1/2, 3/2, 3, 5] := by
  simp [binEdges, mids]; norm_num
example : StrictAsc ([1, 2, 4] : List ℚ) := by norm_num [StrictAsc]
example : binWidths ([1/2, 3/2, 3, 5] : List ℚ) = .ok [1, 3/2, 2] := by
  simp [binWidths, absDiffs]; norm_num [abs_of_pos]
example : binEdges ([4, 2, 1] : List ℚ) = .ok [5, 3, 3/2, 1/2] := by
  simp [binEdges, mids]; norm_num
example : StrictDesc ([4, 2, 1] : List ℚ) := by norm_num [StrictDesc]


/-! ## pixel_range -/

/-- the limits `minwave`, `maxwave` that `pixel_range` checks against are the first and the last edge
returned by `calculate_bin_edges` -/
theorem outer_edges_are_bin_edges (bins e : List K) (h : binEdges bins = .ok e) :
    e.headD 0 = minWave bins ∧ e.getLastD 0 = maxWave bins := by
  obtain ⟨h2, hl, hmid, hfirst, hlast⟩ := edges_spec bins e h
  have key : ∀ (l : List K) i (hi : i < l.length), l.getD i 0 = l[i] := by
    intro l i hi
    rw [List.getD_eq_getElem?_getD, List.getElem?_eq_getElem hi]; rfl
  constructor
  · have e0 : e.headD 0 = e[0] := by
      rw [← key e 0 (by omega)]
      cases e with
      | nil => simp at hl
      | cons x t => simp
    have := hmid 0 (by omega)
    simp only [Nat.zero_add] at this
    rw [e0]
    unfold minWave
    rw [key bins 0 (by omega), key bins 1 (by omega)]
    rw [this] at hfirst
    linarith
  · have e0 : e.getLastD 0 = e[bins.length] := by
      rw [← key e bins.length (by omega), List.getLastD_eq_getLast?, List.getLast?_eq_getElem?, hl,
        List.getD_eq_getElem?_getD]
      simp
    have := hmid (bins.length - 2) (by omega)
    have e1 : bins.length - 2 + 1 = bins.length - 1 := by omega
    simp only [e1] at this
    rw [e0]
    unfold maxWave
    rw [key bins (bins.length - 1) (by omega), key bins (bins.length - 2) (by omega)]
    rw [this] at hlast
    linarith

/-- (a)+(c) a range inside `[minwave, maxwave]` is counted, in every mode, and the count is ≥ 0: every
`searchsorted` index on the padded bins satisfies `1 ≤ ind ≤ n+1`, so `bins[ind]`, `bins[ind-1]` exist without
wrap-around and differ -/
theorem pixel_range_ok (bins : List K) (hasc : StrictAsc bins) (h2 : 2 ≤ bins.length) (a b : K) (mode : Mode)
    (hlo : minWave bins ≤ min a b) (hhi : max a b ≤ maxWave bins) :
    ∃ v, pixelRange bins a b mode = .ok v ∧ 0 ≤ v := by
  rw [pixelRange_asc bins hasc h2, if_neg (by rw [not_or, not_lt, not_lt]; exact ⟨hlo, hhi⟩)]
  by_cases hab : a = b
  · rw [if_pos hab]; exact ⟨0, rfl, le_refl _⟩
  · rw [if_neg hab]
    refine ⟨_, rfl, pixCount_nonneg _ _ _ (min_le_max) ?_ ?_ mode⟩
    · exact br_padded bins hasc h2 _ hlo (le_trans min_le_max hhi)
    · exact br_padded bins hasc h2 _ (le_trans hlo min_le_max) hhi

/-- (b) a range exceeding the outer edges is an OverlapError -/
theorem pixel_range_out_of_bounds (bins : List K) (hasc : StrictAsc bins) (h2 : 2 ≤ bins.length) (a b : K)
    (mode : Mode) (h : min a b < minWave bins ∨ maxWave bins < max a b) :
    pixelRange bins a b mode = .error .overlapError := by
  rw [pixelRange_asc bins hasc h2, if_pos h]

/-- after mode validation `pixel_range` raises nothing but OverlapError (no IndexError, ZeroDivisionError, NaN) -/
theorem pixel_range_only_overlapError (bins : List K) (hasc : StrictAsc bins) (h2 : 2 ≤ bins.length) (a b : K)
    (mode : Mode) (e : Err) (he : pixelRange bins a b mode = .error e) : e = .overlapError := by
  rw [pixelRange_asc bins hasc h2] at he
  split_ifs at he
  · injection he with he; exact he.symm

/-- (c) pixel counts are never negative -/
theorem pixel_range_nonneg (bins : List K) (hasc : StrictAsc bins) (h2 : 2 ≤ bins.length) (a b v : K)
    (mode : Mode) (hv : pixelRange bins a b mode = .ok v) : 0 ≤ v := by
  by_cases hout : min a b < minWave bins ∨ maxWave bins < max a b
  · rw [pixel_range_out_of_bounds bins hasc h2 a b mode hout] at hv; cases hv
  · rw [not_or, not_lt, not_lt] at hout
    obtain ⟨v', hv', h0⟩ := pixel_range_ok bins hasc h2 a b mode hout.1 hout.2
    rw [hv] at hv'; injection hv' with hv'; rw [hv']; exact h0

/-- (d) equal limits give 0 -/
theorem pixel_range_equal_limits (bins : List K) (hasc : StrictAsc bins) (h2 : 2 ≤ bins.length) (a : K)
    (mode : Mode) (hlo : minWave bins ≤ a) (hhi : a ≤ maxWave bins) : pixelRange bins a a mode = .ok 0 := by
  rw [pixelRange_asc_eq bins hasc h2, if_neg (by rw [not_or, not_lt, not_lt]; exact ⟨hlo, hhi⟩)]

/-- (e) reversing the two limits gives the same result (no hypothesis on the bins) -/
theorem pixel_range_swap (bins : List K) (a b : K) (mode : Mode) :
    pixelRange bins a b mode = pixelRange bins b a mode := pixelRange_swap bins a b mode

/-- (f) 'min' never counts more and 'max' never fewer pixels than the exact mode -/
theorem pixel_range_min_le_none_le_max (bins : List K) (hasc : StrictAsc bins) (h2 : 2 ≤ bins.length) (a b : K)
    (vmin vnone vmax : K) (h1 : pixelRange bins a b .min = .ok vmin) (h3 : pixelRange bins a b .none = .ok vnone)
    (h4 : pixelRange bins a b .max = .ok vmax) : vmin ≤ vnone ∧ vnone ≤ vmax := by
  rw [pixelRange_asc bins hasc h2] at h1 h3 h4
  by_cases hout : min a b < minWave bins ∨ max a b > maxWave bins
  · rw [if_pos hout] at h1; cases h1
  · rw [if_neg hout] at h1 h3 h4
    by_cases hab : a = b
    · rw [if_pos hab] at h1 h3 h4
      injection h1 with h1; injection h3 with h3; injection h4 with h4
      subst h1; subst h3; subst h4; exact ⟨le_refl _, le_refl _⟩
    · rw [if_neg hab] at h1 h3 h4
      injection h1 with h1; injection h3 with h3; injection h4 with h4
      subst h1; subst h3; subst h4
      rw [not_or, not_lt, not_lt] at hout
      have hb1 := br_padded bins hasc h2 _ hout.1 (le_trans min_le_max hout.2)
      have hb2 := br_padded bins hasc h2 _ (le_trans hout.1 min_le_max) hout.2
      exact ⟨pixCount_min_le_none _ _ _ min_le_max hb1 hb2, pixCount_none_le_max _ _ _ hb1 hb2⟩


/-! ## either order of the bins -/

/-- both functions reverse descending bins first: on strictly decreasing input they behave exactly as on
the reversed (strictly increasing) array, so every theorem below about ascending bins applies -/
theorem descending_bins_as_reversed (bins : List K) (hd : StrictDesc bins) (h2 : 2 ≤ bins.length) :
    StrictAsc bins.reverse ∧ 2 ≤ bins.reverse.length ∧
    (∀ a b mode, pixelRange bins a b mode = pixelRange bins.reverse a b mode) ∧
    (∀ [FloorRing K] cen npix mode, waveRange bins cen npix mode = waveRange bins.reverse cen npix mode) :=
  ⟨(strictAsc_reverse bins).mpr hd, by simpa using h2, fun a b mode => pixelRange_desc bins hd h2 a b mode,
    fun cen npix mode => waveRange_desc bins hd h2 cen npix mode⟩

/-! ## wave_range -/
section
variable [FloorRing K]

/-- a centre inside `[bins[0], bins[-1]]` always has a fractional index (no IndexError, no 0/0) -/
theorem frac_index_ok (bins : List K) (hasc : StrictAsc bins) (h2 : 2 ≤ bins.length) (cen : K)
    (hc1 : bins.getD 0 0 ≤ cen) (hc2 : cen ≤ bins.getD (bins.length - 1) 0) :
    ∃ fi, fracIndex bins cen = .ok fi := fracIndex_ok bins hasc (by omega) cen hc1 hc2


/-- the fractional index is the geometric pixel coordinate of the centre: `i + (cen - b[i]) / (b[i+1] - b[i])`
for neighbouring centres `b[i] ≤ cen ≤ b[i+1]` (`np.argmin(np.abs(·))` is a minimiser) -/
theorem frac_index_spec (bins : List K) (hasc : StrictAsc bins) (h2 : 2 ≤ bins.length) (cen : K)
    (hc1 : bins.getD 0 0 ≤ cen) (hc2 : cen ≤ bins.getD (bins.length - 1) 0) :
    ∃ i : Nat, i + 1 < bins.length ∧ bins.getD i 0 ≤ cen ∧ cen ≤ bins.getD (i + 1) 0 ∧
      fracIndex bins cen = .ok ((i : K) + (cen - bins.getD i 0) / (bins.getD (i + 1) 0 - bins.getD i 0)) :=
  fracIndex_spec bins hasc h2 cen hc1 hc2

/-- hence `0 ≤ frac_ind ≤ n - 1` -/
theorem frac_index_bounds (bins : List K) (hasc : StrictAsc bins) (h2 : 2 ≤ bins.length) (cen fi : K)
    (hc1 : bins.getD 0 0 ≤ cen) (hc2 : cen ≤ bins.getD (bins.length - 1) 0)
    (hfi : fracIndex bins cen = .ok fi) : 0 ≤ fi ∧ fi ≤ (bins.length : K) - 1 := by
  obtain ⟨i, hi, a, b, e⟩ := fracIndex_spec bins hasc h2 cen hc1 hc2
  rw [hfi] at e
  injection e with e
  subst e
  have d := strictAsc_getD_lt bins hasc i (i + 1) (by omega) hi 0
  have q0 : 0 ≤ (cen - bins.getD i 0) / (bins.getD (i + 1) 0 - bins.getD i 0) :=
    div_nonneg (by linarith) (by linarith)
  have q1 : (cen - bins.getD i 0) / (bins.getD (i + 1) 0 - bins.getD i 0) ≤ 1 := by
    rw [div_le_one (by linarith)]; linarith
  have hi' : ((i + 1 + 1 : Nat) : K) ≤ (bins.length : K) := Nat.cast_le.mpr (by omega)
  push_cast at hi'
  have : (0 : K) ≤ (i : K) := Nat.cast_nonneg i
  constructor <;> linarith

/-- requests that fit (`npix ≥ 0`, centre inside the bins, both fractional limits inside `[-1/2, n-1/2]`): in all
four modes the result is a pair (no IndexError / NaN / SynphotError), both limits lie inside the outer bin edges,
and the pair is ordered — in mode 'min' provided at least one pixel is requested (see
`wave_range_min_npix0_unordered` for why that proviso is needed) -/
theorem wave_range_fits (bins : List K) (hasc : StrictAsc bins) (h2 : 2 ≤ bins.length) (cen fi : K) (npix : Int)
    (mode : Mode) (hnp : 0 ≤ npix)
    (hc1 : bins.getD 0 0 ≤ cen) (hc2 : cen ≤ bins.getD (bins.length - 1) 0)
    (hfi : fracIndex bins cen = .ok fi)
    (hx1 : -(1/2) ≤ fi - (npix : K) / 2) (hx2 : fi + (npix : K) / 2 ≤ (bins.length : K) - 1/2) :
    ∃ w1 w2, waveRange bins cen npix mode = .ok (w1, w2) ∧
      (mode ≠ .min ∨ 1 ≤ npix → w1 ≤ w2) ∧
      minWave bins ≤ w1 ∧ w1 ≤ maxWave bins ∧ minWave bins ≤ w2 ∧ w2 ≤ maxWave bins := by
  rw [waveRange_eq_tail bins hasc h2 cen fi npix hc1 hc2 hfi hx1 hx2 mode]
  have hnpK : (0 : K) ≤ (npix : K) := by exact_mod_cast hnp
  have h12 : fi - (npix : K) / 2 ≤ fi + (npix : K) / 2 := by linarith
  cases mode with
  | round =>
    obtain ⟨w1, w2, e, a, b, c⟩ := waveTail_round_ok bins hasc h2 _ _ hx1 h12 hx2
    exact ⟨w1, w2, e, fun _ => a, b, by linarith, by linarith, c⟩
  | max =>
    obtain ⟨w1, w2, e, a, b, c⟩ := waveTail_max_ok bins hasc h2 _ _ hx1 h12 hx2
    exact ⟨w1, w2, e, fun _ => a, b, by linarith, by linarith, c⟩
  | none =>
    obtain ⟨w1, w2, e, a, b, c⟩ := waveTail_none_ok bins hasc h2 _ _ hx1 h12 hx2
    exact ⟨w1, w2, e, fun _ => a, b, by linarith, by linarith, c⟩
  | min =>
    obtain ⟨w1, w2, e, a, b, c, d, f⟩ := waveTail_min_ok bins hasc h2 _ _ hx1 h12 hx2
    refine ⟨w1, w2, e, ?_, b, c, d, f⟩
    intro hm
    rcases hm with hm | hm
    · exact absurd rfl hm
    · apply a
      have : (1 : K) ≤ (npix : K) := by exact_mod_cast hm
      linarith

/-- requests that do not fit raise OverlapError -/
theorem wave_range_nofit (bins : List K) (hasc : StrictAsc bins) (h2 : 2 ≤ bins.length) (cen : K) (npix : Int)
    (mode : Mode) :
    (cen < bins.getD 0 0 ∨ cen > bins.getD (bins.length - 1) 0 →
      waveRange bins cen npix mode = .error .overlapError) ∧
    (∀ fi, bins.getD 0 0 ≤ cen → cen ≤ bins.getD (bins.length - 1) 0 → fracIndex bins cen = .ok fi →
      (fi - (npix : K) / 2 < -(1/2) ∨ fi + (npix : K) / 2 > (bins.length : K) - 1/2) →
      waveRange bins cen npix mode = .error .overlapError) := by
  refine ⟨waveRange_cen_outside bins hasc (by omega) cen npix mode, ?_⟩
  intro fi hc1 hc2 hfi hx
  by_cases hlow : fi - (npix : K) / 2 < -(1/2)
  · exact waveRange_low_outside bins hasc (by omega) cen fi npix mode hc1 hc2 hfi hlow
  · rcases hx with hx | hx
    · exact absurd hx hlow
    · exact waveRange_high_outside bins hasc (by omega) cen fi npix mode hc1 hc2 hfi (not_lt.mp hlow) hx

/-- on valid bins `wave_range` (after argument validation, `npix ≥ 0`) either returns a pair or raises
OverlapError — never IndexError, NaN, ZeroDivisionError or SynphotError -/
theorem wave_range_only_overlapError (bins : List K) (hasc : StrictAsc bins) (h2 : 2 ≤ bins.length) (cen : K)
    (npix : Int) (mode : Mode) (hnp : 0 ≤ npix) (e : Err) (he : waveRange bins cen npix mode = .error e) :
    e = .overlapError := by
  by_cases hc : cen < bins.getD 0 0 ∨ cen > bins.getD (bins.length - 1) 0
  · rw [(wave_range_nofit bins hasc h2 cen npix mode).1 hc] at he
    injection he with he; exact he.symm
  · rw [not_or, not_lt, not_lt] at hc
    obtain ⟨fi, hfi⟩ := frac_index_ok bins hasc h2 cen hc.1 hc.2
    by_cases hx : fi - (npix : K) / 2 < -(1/2) ∨ fi + (npix : K) / 2 > (bins.length : K) - 1/2
    · rw [(wave_range_nofit bins hasc h2 cen npix mode).2 fi hc.1 hc.2 hfi hx] at he
      injection he with he; exact he.symm
    · rw [not_or, not_lt, not_lt] at hx
      obtain ⟨w1, w2, hw, _⟩ := wave_range_fits bins hasc h2 cen fi npix mode hnp hc.1 hc.2 hfi hx.1 hx.2
      rw [hw] at he; cases he

/-- argument validation: an unknown mode string is a SynphotError … -/
theorem wave_range_invalid_mode (bins : List K) (cen : K) (isInt : Bool) (npix : Int) (s : String)
    (h : Mode.ofString? s = Option.none) : waveRangeTop bins cen isInt npix s = .error .synphotError := by
  simp [waveRangeTop, h]

/-- … and so is a non-integer or negative pixel count, whatever the mode string -/
theorem wave_range_invalid_npix (bins : List K) (cen : K) (isInt : Bool) (npix : Int) (s : String)
    (h : isInt = false ∨ npix < 0) : waveRangeTop bins cen isInt npix s = .error .synphotError := by
  unfold waveRangeTop
  cases Mode.ofString? s with
  | none => rfl
  | some m =>
    have : (!isInt) = true ∨ npix < 0 := by
      rcases h with h | h
      · left; simp [h]
      · right; exact h
    simp only [this, if_true]

/-- valid arguments reach the computation proper -/
theorem wave_range_valid_args (bins : List K) (cen : K) (npix : Int) (s : String) (m : Mode)
    (h : Mode.ofString? s = some m) (hnp : 0 ≤ npix) :
    waveRangeTop bins cen true npix s = waveRange bins cen npix m := by
  have : ¬ ((!true) = true ∨ npix < 0) := by simp; exact hnp
  simp only [waveRangeTop, h, this, if_false]

end

theorem pixel_range_invalid_mode (bins : List K) (a b : K) (s : String)
    (h : Mode.ofString? s = Option.none) : pixelRangeTop bins a b s = .error .synphotError := by
  simp [pixelRangeTop, h]

theorem pixel_range_valid_mode (bins : List K) (a b : K) (s : String) (m : Mode)
    (h : Mode.ofString? s = some m) : pixelRangeTop bins a b s = pixelRange bins a b m := by
  simp [pixelRangeTop, h]


/-! ## the returned limits are bin edges; round trip through pixel_range -/

/-- the bin edges of `calculate_bin_edges` are exactly the midpoints of neighbouring padded centres -/
theorem padded_midpoints_are_edges (bins e : List K) (h : binEdges bins = .ok e) (j : Nat)
    (hj : j ≤ bins.length) : e.getD j 0 = midP (padded bins) j := by
  obtain ⟨h2, hl, hmid, hfirst, hlast⟩ := edges_spec bins e h
  obtain ⟨o1, o2⟩ := outer_edges_are_bin_edges bins e h
  have key : ∀ (l : List K) i (hi : i < l.length), l.getD i 0 = l[i] := by
    intro l i hi
    rw [List.getD_eq_getElem?_getD, List.getElem?_eq_getElem hi]; rfl
  rcases Nat.eq_zero_or_pos j with h0 | h0
  · subst h0
    rw [midP_padded_zero bins h2, ← o1]
    cases e with
    | nil => simp at hl
    | cons x t => simp
  · rcases Nat.lt_or_eq_of_le hj with hlt | heq
    · obtain ⟨k, rfl⟩ : ∃ k, j = k + 1 := ⟨j - 1, by omega⟩
      rw [midP_padded_succ bins k (by omega), key e (k + 1) (by omega), hmid k (by omega)]
      unfold midP
      rw [key bins k (by omega), key bins (k + 1) (by omega)]
    · subst heq
      rw [midP_padded_last bins h2, ← o2, List.getLastD_eq_getLast?, List.getLast?_eq_getElem?, hl,
        List.getD_eq_getElem?_getD]
      simp

section
variable [FloorRing K]

/-- modes 'min' and 'max' (any `npix ≥ 0`) and mode 'round' (`npix ≥ 1`): the two returned limits are
bin edges as computed by `calculate_bin_edges` -/
theorem wave_range_limits_are_edges (bins e : List K) (hasc : StrictAsc bins) (h2 : 2 ≤ bins.length)
    (he : binEdges bins = .ok e) (cen fi : K) (npix : Int) (mode : Mode)
    (hm : (mode = .round ∧ 1 ≤ npix) ∨ ((mode = .min ∨ mode = .max) ∧ 0 ≤ npix))
    (hc1 : bins.getD 0 0 ≤ cen) (hc2 : cen ≤ bins.getD (bins.length - 1) 0)
    (hfi : fracIndex bins cen = .ok fi)
    (hx1 : -(1/2) ≤ fi - (npix : K) / 2) (hx2 : fi + (npix : K) / 2 ≤ (bins.length : K) - 1/2) :
    ∃ w1 w2, waveRange bins cen npix mode = .ok (w1, w2) ∧ w1 ∈ e ∧ w2 ∈ e := by
  have hl := edges_length bins e he
  have hmem : ∀ j, j ≤ bins.length → midP (padded bins) j ∈ e := by
    intro j hj
    rw [← padded_midpoints_are_edges bins e he j hj, List.getD_eq_getElem?_getD,
      List.getElem?_eq_getElem (by omega : j < e.length)]
    exact List.getElem_mem _
  rw [waveRange_eq_tail bins hasc h2 cen fi npix hc1 hc2 hfi hx1 hx2 mode]
  rcases hm with ⟨rfl, hnp⟩ | ⟨hm, hnp⟩
  · have e2 : fi + (npix : K) / 2 = fi - (npix : K) / 2 + (npix : K) := by ring
    rw [e2] at hx2 ⊢
    obtain ⟨j1, j2, a2, hrel, hw⟩ := waveTail_round_edges bins h2 _ npix hnp hx1 hx2
    exact ⟨_, _, hw, hmem j1 (by omega), hmem j2 a2⟩
  · have hnpK : (0 : K) ≤ (npix : K) := by exact_mod_cast hnp
    obtain ⟨j1, j2, a1, a2, hw⟩ := waveTail_minmax_edges bins _ _ hx1 (by linarith) hx2 mode hm
    exact ⟨_, _, hw, hmem j1 a1, hmem j2 a2⟩

/-- mode 'round', `npix ≥ 1`: the range returned by `wave_range` covers exactly `npix` pixels
according to `pixel_range(..., 'round')` -/
theorem round_trip_round (bins : List K) (hasc : StrictAsc bins) (h2 : 2 ≤ bins.length) (cen fi : K) (npix : Int)
    (hnp : 1 ≤ npix) (hc1 : bins.getD 0 0 ≤ cen) (hc2 : cen ≤ bins.getD (bins.length - 1) 0)
    (hfi : fracIndex bins cen = .ok fi)
    (hx1 : -(1/2) ≤ fi - (npix : K) / 2) (hx2 : fi + (npix : K) / 2 ≤ (bins.length : K) - 1/2) :
    ∃ w1 w2, waveRange bins cen npix .round = .ok (w1, w2) ∧
      pixelRange bins w1 w2 .round = .ok (npix : K) := by
  rw [waveRange_eq_tail bins hasc h2 cen fi npix hc1 hc2 hfi hx1 hx2 .round]
  have e2 : fi + (npix : K) / 2 = fi - (npix : K) / 2 + (npix : K) := by ring
  rw [e2] at hx2 ⊢
  obtain ⟨j1, j2, a2, hrel, hw⟩ := waveTail_round_edges bins h2 _ npix hnp hx1 hx2
  refine ⟨_, _, hw, ?_⟩
  rw [pixelRange_round_edges bins hasc h2 j1 j2 (by omega) a2]
  have : (j2 : Int) - (j1 : Int) = npix := by omega
  rw [this]

/-- mode 'none', `npix ≥ 0`: the range returned by `wave_range` covers exactly `npix` pixels according
to `pixel_range(..., 'none')` -/
theorem round_trip_none (bins : List K) (hasc : StrictAsc bins) (h2 : 2 ≤ bins.length) (cen fi : K) (npix : Int)
    (hnp : 0 ≤ npix) (hc1 : bins.getD 0 0 ≤ cen) (hc2 : cen ≤ bins.getD (bins.length - 1) 0)
    (hfi : fracIndex bins cen = .ok fi)
    (hx1 : -(1/2) ≤ fi - (npix : K) / 2) (hx2 : fi + (npix : K) / 2 ≤ (bins.length : K) - 1/2) :
    ∃ w1 w2, waveRange bins cen npix .none = .ok (w1, w2) ∧
      pixelRange bins w1 w2 .none = .ok (npix : K) := by
  rw [waveRange_eq_tail bins hasc h2 cen fi npix hc1 hc2 hfi hx1 hx2 .none]
  have hnpK : (0 : K) ≤ (npix : K) := by exact_mod_cast hnp
  obtain ⟨w1, w2, hw, hp⟩ := none_round_trip bins hasc h2 _ _ hx1 (by linarith) hx2
  refine ⟨w1, w2, hw, ?_⟩
  rw [hp]; congr 1; ring

end


/-! ## the order-independent claims, stated for either order of the bins -/

theorem pixel_range_only_overlapError_either_order (bins : List K) (hv : StrictAsc bins ∨ StrictDesc bins)
    (h2 : 2 ≤ bins.length) (a b : K) (mode : Mode) (e : Err) (he : pixelRange bins a b mode = .error e) :
    e = .overlapError := by
  rcases hv with hv | hv
  · exact pixel_range_only_overlapError bins hv h2 a b mode e he
  · rw [pixelRange_desc bins hv h2] at he
    exact pixel_range_only_overlapError _ ((strictAsc_reverse bins).mpr hv) (by simpa using h2) a b mode e he

theorem pixel_range_nonneg_either_order (bins : List K) (hv : StrictAsc bins ∨ StrictDesc bins)
    (h2 : 2 ≤ bins.length) (a b v : K) (mode : Mode) (h : pixelRange bins a b mode = .ok v) : 0 ≤ v := by
  rcases hv with hv | hv
  · exact pixel_range_nonneg bins hv h2 a b v mode h
  · rw [pixelRange_desc bins hv h2] at h
    exact pixel_range_nonneg _ ((strictAsc_reverse bins).mpr hv) (by simpa using h2) a b v mode h

theorem pixel_range_min_le_none_le_max_either_order (bins : List K) (hv : StrictAsc bins ∨ StrictDesc bins)
    (h2 : 2 ≤ bins.length) (a b : K) (vmin vnone vmax : K) (h1 : pixelRange bins a b .min = .ok vmin)
    (h3 : pixelRange bins a b .none = .ok vnone) (h4 : pixelRange bins a b .max = .ok vmax) :
    vmin ≤ vnone ∧ vnone ≤ vmax := by
  rcases hv with hv | hv
  · exact pixel_range_min_le_none_le_max bins hv h2 a b vmin vnone vmax h1 h3 h4
  · rw [pixelRange_desc bins hv h2] at h1 h3 h4
    exact pixel_range_min_le_none_le_max _ ((strictAsc_reverse bins).mpr hv) (by simpa using h2) a b
      vmin vnone vmax h1 h3 h4

theorem wave_range_only_overlapError_either_order [FloorRing K] (bins : List K)
    (hv : StrictAsc bins ∨ StrictDesc bins) (h2 : 2 ≤ bins.length) (cen : K) (npix : Int) (mode : Mode)
    (hnp : 0 ≤ npix) (e : Err) (he : waveRange bins cen npix mode = .error e) : e = .overlapError := by
  rcases hv with hv | hv
  · exact wave_range_only_overlapError bins hv h2 cen npix mode hnp e he
  · rw [waveRange_desc bins hv h2] at he
    exact wave_range_only_overlapError _ ((strictAsc_reverse bins).mpr hv) (by simpa using h2) cen npix mode
      hnp e he

/-- descending example: same answer as on the reversed array -/
example : ∃ v, pixelRange ([4, 2, 1] : List ℚ) (3/2) 3 .none = .ok v ∧ 0 ≤ v := by
  rw [pixelRange_desc _ (by norm_num [StrictDesc]) (by simp)]
  exact pixel_range_ok _ (by norm_num [StrictAsc]) (by simp) _ _ _ (by norm_num [minWave]) (by norm_num [maxWave])

/-! ## non-vacuity: the hypotheses are satisfiable (irregular three-point array over ℚ), and the one
case the ordering claim excludes really occurs -/

example : minWave ([1, 2, 4] : List ℚ) = 1/2 ∧ maxWave ([1, 2, 4] : List ℚ) = 5 := by
  norm_num [minWave, maxWave]

example : ∃ v, pixelRange ([1, 2, 4] : List ℚ) (3/2) 3 .none = .ok v ∧ 0 ≤ v :=
  pixel_range_ok _ (by norm_num [StrictAsc]) (by simp) _ _ _ (by norm_num [minWave]) (by norm_num [maxWave])

example : pixelRange ([1, 2, 4] : List ℚ) (1/4) 3 .max = .error .overlapError :=
  pixel_range_out_of_bounds _ (by norm_num [StrictAsc]) (by simp) _ _ _ (by left; norm_num [minWave])

theorem fracIndex_example : fracIndex ([1, 2, 4] : List ℚ) 2 = .ok 1 := by
  norm_num [fracIndex, argminAbs, argminAbsAux, pyIndex]

example : ∃ w1 w2, waveRange ([1, 2, 4] : List ℚ) 2 1 .round = .ok (w1, w2) ∧
    pixelRange ([1, 2, 4] : List ℚ) w1 w2 .round = .ok ((1 : Int) : ℚ) :=
  round_trip_round _ (by norm_num [StrictAsc]) (by simp) 2 1 1 (le_refl _) (by norm_num) (by norm_num)
    fracIndex_example (by norm_num) (by norm_num)

example : ∃ w1 w2, waveRange ([1, 2, 4] : List ℚ) 2 3 .none = .ok (w1, w2) ∧
    pixelRange ([1, 2, 4] : List ℚ) w1 w2 .none = .ok ((3 : Int) : ℚ) :=
  round_trip_none _ (by norm_num [StrictAsc]) (by simp) 2 1 3 (by norm_num) (by norm_num) (by norm_num)
    fracIndex_example (by norm_num) (by norm_num)

theorem fracIndex_example2 : fracIndex ([1, 2, 3, 4] : List ℚ) (11/5) = .ok (6/5) := by
  norm_num [fracIndex, argminAbs, argminAbsAux, pyIndex, divE, abs_lt, abs_of_pos, abs_of_neg, Int.toNat]

theorem truncZ_example : truncZ (11/5 : ℚ) = 2 := by
  have : ⌊(11/5 : ℚ)⌋ = 2 := by rw [Int.floor_eq_iff]; norm_num
  simp [truncZ, this]; norm_num

/-- the ordering claim of `wave_range_fits` cannot be extended to mode 'min' with `npix = 0` (which the
argument validation accepts): the model — and `synphot.binning.wave_range(np.array([1.,2,3,4]), 2.2, 0,
'min')` itself — returns the unordered pair (2.5, 1.5) -/
theorem wave_range_min_npix0_unordered :
    waveRange ([1, 2, 3, 4] : List ℚ) (11/5) 0 .min = .ok (5/2, 3/2) := by
  rw [waveRange_eq_tail _ (by norm_num [StrictAsc]) (by simp) _ (6/5) 0 (by norm_num) (by norm_num)
    fracIndex_example2 (by norm_num) (by norm_num)]
  have e : ((6/5 : ℚ) - ((0 : Int) : ℚ) / 2 + 1) = 11/5 := by norm_num
  have e' : ((6/5 : ℚ) + ((0 : Int) : ℚ) / 2 + 1) = 11/5 := by norm_num
  simp only [waveTail, e, e', lowMin, highMin, fracZ, truncZ_example]
  have h1 : ((11/5 : ℚ) - ((2 : Int) : ℚ) ≤ 1/2) := by norm_num
  have h2 : ¬ ((11/5 : ℚ) - ((2 : Int) : ℚ) ≥ 1/2) := by norm_num
  rw [if_pos h1, if_neg h2]
  rw [sliceMean_two_int _ (2 : Int) (2 + 2) 2 rfl rfl (by simp [padded]),
    sliceMean_two_int _ ((2 : Int) - 1) (2 + 1) 1 rfl rfl (by simp [padded])]
  norm_num [midP, padded]


/-! ## what is not proved

-- NOT PROVED (closed instances of the string-level validation): `Mode.ofString?` lower-cases with
--   `String.toLower`, which the kernel cannot evaluate, so `wave_range_invalid_mode`, `pixel_range_invalid_mode`,
--   `wave_range_valid_args`, `pixel_range_valid_mode` carry the outcome of `Mode.ofString? s` as a hypothesis;
--   which strings are accepted is exercised by the correspondence check only.
-- NOT PROVED: `round_trip_round` for `npix = 0` (the statement
--   `∃ w1 w2, waveRange bins cen 0 .round = .ok (w1, w2) ∧ pixelRange bins w1 w2 .round = .ok 0` holds in the
--   model — the two limits coincide or are (last centre, last edge) — but needs a separate case analysis;
--   `wave_range_fits` covers its finiteness/ordering/bounds part).
-- NOT PROVABLE ON CURRENT CODE: `w1 ≤ w2` in mode 'min' with `npix = 0` — see `wave_range_min_npix0_unordered`.
-- Outside the model: the unit wrappers `Observation.binned_waverange / binned_pixelrange` and binary64 rounding
--   (checked by the harness only).
-/

end Synphot.C18
