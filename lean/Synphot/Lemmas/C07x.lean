/-
  Synphot.Lemmas.C07x — helper lemmas for the deepened C07 theorems: neighbour maps (`pairSums`,
  `pairDiffs`, `mids`, `absDiffs` as one shape), slices of the merged grid, `_init_bins` as a pipeline of its
  stages and its inversion, the ordering step, `searchsorted` on grid points, consistent integrator calls,
  reversed centres, the closed form of `sample_binned`, and a concrete observation for the examples.
-/
import Synphot.Lemmas.BinFlux
import Synphot.Lemmas.Binning
import Synphot.Lemmas.PixRange
import Synphot.Lemmas.Merge
import Synphot.Lemmas.ObsPhot
import Synphot.Lemmas.C09x
import Synphot.Lemmas.C10x
import Synphot.Props.C18
import Mathlib.Tactic.NormNum
import Mathlib.Algebra.Order.Field.Rat

set_option linter.unusedSectionVars false
set_option linter.unusedVariables false
set_option linter.unusedSimpArgs false

namespace Synphot
variable {K : Type} [Field K] [LinearOrder K] [IsStrictOrderedRing K]

/-! ### neighbour maps (`pairSums`, `pairDiffs`, `mids` are all of this shape) -/

/-- `f l[i] l[i+1]` over the neighbouring pairs of a list -/
def adjMap (f : K → K → K) : List K → List K
  | a :: b :: t => f a b :: adjMap f (b :: t)
  | _ => []

theorem pairSums_eq_adjMap (l : List K) : pairSums l = adjMap (fun a b => (b + a) * (1/2)) l := by
  induction l with
  | nil => rfl
  | cons a t ih =>
    cases t with
    | nil => rfl
    | cons b t => simp only [pairSums, adjMap, ih]

theorem pairDiffs_eq_adjMap (l : List K) : pairDiffs l = adjMap (fun a b => b - a) l := by
  induction l with
  | nil => rfl
  | cons a t ih =>
    cases t with
    | nil => rfl
    | cons b t => simp only [pairDiffs, adjMap, ih]

theorem mids_eq_adjMap (l : List K) : mids l = adjMap (fun a b => (b + a) * (1/2)) l := by
  induction l with
  | nil => rfl
  | cons a t ih =>
    cases t with
    | nil => rfl
    | cons b t => simp only [mids, adjMap, ih]

theorem absDiffs_eq_adjMap (l : List K) : absDiffs l = adjMap (fun a b => |b - a|) l := by
  induction l with
  | nil => rfl
  | cons a t ih =>
    cases t with
    | nil => rfl
    | cons b t => simp only [absDiffs, adjMap, ih]

theorem adjMap_length (f : K → K → K) (l : List K) : (adjMap f l).length = l.length - 1 := by
  induction l with
  | nil => rfl
  | cons a t ih =>
    cases t with
    | nil => rfl
    | cons b t => simp only [adjMap, List.length_cons, ih]; omega

theorem adjMap_drop (f : K → K → K) (l : List K) (k : Nat) : adjMap f (l.drop k) = (adjMap f l).drop k := by
  induction k generalizing l with
  | zero => simp
  | succ k ih =>
    cases l with
    | nil => simp [adjMap]
    | cons a t =>
      cases t with
      | nil => simp [adjMap]
      | cons b t =>
        simp only [List.drop_succ_cons, adjMap]
        exact ih (b :: t)

theorem adjMap_take (f : K → K → K) (l : List K) (n : Nat) :
    adjMap f (l.take (n + 1)) = (adjMap f l).take n := by
  induction n generalizing l with
  | zero =>
    cases l with
    | nil => simp [adjMap]
    | cons a t => simp [adjMap]
  | succ n ih =>
    cases l with
    | nil => simp [adjMap]
    | cons a t =>
      cases t with
      | nil => simp [adjMap]
      | cons b t =>
        have := ih (b :: t)
        simp only [List.take_succ_cons, adjMap] at this ⊢
        rw [this]

/-- the grid points with indices `i … j` (inclusive) -/
def gridSlice (l : List K) (i j : Nat) : List K := (l.drop i).take (j - i + 1)

theorem adjMap_gridSlice (f : K → K → K) (l : List K) (i j : Nat) :
    adjMap f (gridSlice l i j) = ((adjMap f l).drop i).take (j - i) := by
  unfold gridSlice
  rw [adjMap_take, adjMap_drop]

theorem gridSlice_length (l : List K) (i j : Nat) (hij : i ≤ j) (hj : j < l.length) :
    (gridSlice l i j).length = j - i + 1 := by
  unfold gridSlice
  rw [List.length_take, List.length_drop]; omega

theorem gridSlice_length_eq (x y : List K) (h : x.length = y.length) (i j : Nat) :
    (gridSlice x i j).length = (gridSlice y i j).length := by
  unfold gridSlice
  simp [List.length_take, List.length_drop, h]

theorem gridSlice_getD (l : List K) (i j k : Nat) (hk : k ≤ j - i) (d : K) :
    (gridSlice l i j).getD k d = l.getD (i + k) d := by
  unfold gridSlice
  simp only [List.getD_eq_getElem?_getD]
  rw [List.getElem?_take_of_lt (by omega), List.getElem?_drop]

theorem gridSlice_head? (l : List K) (i j : Nat) (hi : i < l.length) :
    (gridSlice l i j).head? = some (l.getD i 0) := by
  unfold gridSlice
  rw [List.head?_take, if_neg (by omega), List.head?_drop, List.getD_eq_getElem?_getD,
    List.getElem?_eq_getElem hi]
  rfl

theorem gridSlice_getLast? (l : List K) (i j : Nat) (hij : i ≤ j) (hj : j < l.length) :
    (gridSlice l i j).getLast? = some (l.getD j 0) := by
  have hl := gridSlice_length l i j hij hj
  rw [List.getLast?_eq_getElem?, hl]
  have := gridSlice_getD l i j (j - i) (le_refl _) 0
  rw [List.getD_eq_getElem?_getD] at this
  have h2 : j - i + 1 - 1 = j - i := by omega
  rw [h2]
  have hlt : j - i < (gridSlice l i j).length := by omega
  rw [List.getElem?_eq_getElem hlt] at this ⊢
  simp only [Option.getD_some] at this
  rw [this]; congr 2; omega

/-- telescoping: the differences of a list sum to `last − first` -/
theorem pairDiffs_sum (t : List K) : ∀ a : K, (pairDiffs (a :: t)).sum = t.getLastD a - a := by
  induction t with
  | nil => intro a; simp [pairDiffs]
  | cons b t ih =>
    intro a
    simp only [pairDiffs, List.sum_cons, List.getLastD_cons, ih b]
    ring

theorem pairDiffs_pos (l : List K) (h : StrictAsc l) : ∀ d ∈ pairDiffs l, 0 < d := by
  induction l with
  | nil => simp [pairDiffs]
  | cons a t ih =>
    cases t with
    | nil => simp [pairDiffs]
    | cons b t =>
      intro d hd
      simp only [pairDiffs, List.mem_cons] at hd
      rcases hd with rfl | hd
      · have := h.1; linarith
      · exact ih h.2 d hd

/-- every neighbour average lies between bounds on the samples -/
theorem pairSums_between (m M : K) (l : List K) (h : ∀ v ∈ l, m ≤ v ∧ v ≤ M) :
    ∀ a ∈ pairSums l, m ≤ a ∧ a ≤ M := by
  induction l with
  | nil => simp [pairSums]
  | cons a t ih =>
    cases t with
    | nil => simp [pairSums]
    | cons b t =>
      intro x hx
      simp only [pairSums, List.mem_cons] at hx
      rcases hx with rfl | hx
      · have ha := h a (by simp); have hb := h b (by simp)
        constructor <;> linarith [ha.1, ha.2, hb.1, hb.2]
      · exact ih (fun v hv => h v (List.mem_cons_of_mem _ hv)) x hx

/-- the integrated width of an index range of the grid is the distance of its end points -/
theorem segWidth_pairDiffs (x : List K) (i j : Nat) (hij : i ≤ j) (hj : j < x.length) :
    segWidth (pairDiffs x) i j = x.getD j 0 - x.getD i 0 := by
  unfold segWidth
  rw [pairDiffs_eq_adjMap, ← adjMap_gridSlice, ← pairDiffs_eq_adjMap]
  have hl := gridSlice_length x i j hij hj
  cases hg : gridSlice x i j with
  | nil => rw [hg] at hl; simp at hl
  | cons a t =>
    rw [pairDiffs_sum]
    have h0 := gridSlice_head? x i j (by omega)
    have h1 := gridSlice_getLast? x i j hij hj
    rw [hg] at h0 h1
    simp only [List.head?_cons, Option.some.injEq] at h0
    rw [← h0]
    have : t.getLastD a = x.getD j 0 := by
      rw [List.getLast?_eq_getLast_of_ne_nil (by simp)] at h1
      simp only [Option.some.injEq] at h1
      rw [← h1]
      cases t with
      | nil => simp
      | cons b t =>
        rw [List.getLast_cons (by simp), List.getLastD_eq_getLast?, List.getLast?_eq_some_getLast (by simp)]
        rfl
    rw [this]

/-- `Σ avflux·Δλ` over an index range is the trapezoid integral over the grid points of that range -/
theorem segFlux_eq_trapz (x y : List K) (h : x.length = y.length) (i j : Nat) :
    segFlux (pairSums y) (pairDiffs x) i j = trapzXY (gridSlice x i j) (gridSlice y i j) := by
  rw [trapz_eq_sum_av_dw _ _ (gridSlice_length_eq x y h i j)]
  unfold segFlux
  rw [pairSums_eq_adjMap, pairDiffs_eq_adjMap, pairSums_eq_adjMap, pairDiffs_eq_adjMap, adjMap_gridSlice,
    adjMap_gridSlice]

/-! ### `_init_bins` as a pipeline -/

def ascCentres (bs : List K) : List K :=
  match bs.head?, bs.getLast? with
  | some f, some l => if f > l then bs.reverse else bs
  | _, _ => bs

def mergedGrid (thr : K) (edges binset : List K) (w : Option (List K)) : List K :=
  (match w with
    | some w => filterClose thr (union1d (filterClose thr (union1d edges binset)) w)
    | none => filterClose thr (union1d edges binset)).filter fun w => decide (w > 0)

/-- whichever integrator the import selected -/
def callBin (useC : Bool) (ibeg iend : List Nat) (av dw : List K) : Except Err (List K × List K) :=
  if useC then calcbinfluxC ibeg iend av dw else calcbinfluxPy ibeg iend av dw

/-- `_init_bins` as a pipeline of its stages -/
def initBinsSpec (E : Env K) (thr : K) (m : Tree K) (bs : List K) (useC : Bool) : Except Err (Bins K) :=
  match binEdges (ascCentres bs) with
  | .error e => .error e
  | .ok edges =>
    match m.waveset thr with
    | .error e => .error e
    | .ok w =>
      let sp := mergedGrid thr edges (ascCentres bs) w
      let idx := edges.map (searchLeft sp)
      match sampleTree E m sp with
      | .error e => .error e
      | .ok flux =>
        match callBin useC idx.dropLast (idx.drop 1) (pairSums flux) (pairDiffs sp) with
        | .error e => .error e
        | .ok r => .ok { binset := ascCentres bs, edges := edges, binflux := r.1, spwave := sp, flux := flux,
                         ibeg := idx.dropLast, iend := idx.drop 1 }

/-- the pipeline with the (already ordered) binset as a parameter -/
def initBinsFrom (E : Env K) (thr : K) (m : Tree K) (A : List K) (useC : Bool) : Except Err (Bins K) :=
  match binEdges A with
  | .error e => .error e
  | .ok edges =>
    match m.waveset thr with
    | .error e => .error e
    | .ok w =>
      let sp := mergedGrid thr edges A w
      let idx := edges.map (searchLeft sp)
      match sampleTree E m sp with
      | .error e => .error e
      | .ok flux =>
        match callBin useC idx.dropLast (idx.drop 1) (pairSums flux) (pairDiffs sp) with
        | .error e => .error e
        | .ok r => .ok { binset := A, edges := edges, binflux := r.1, spwave := sp, flux := flux,
                         ibeg := idx.dropLast, iend := idx.drop 1 }

theorem initBins_eq (E : Env K) (thr : K) (m : Tree K) (bs : List K) (useC : Bool) :
    initBins E thr m bs useC = initBinsFrom E thr m (ascCentres bs) useC := by
  have key : ∀ A : List K,
      (do
        let edges ← binEdges A
        let sp1 := filterClose thr (union1d edges A)
        let sp2 ← match ← m.waveset thr with
          | some w => pure (filterClose thr (union1d sp1 w))
          | Option.none => pure sp1
        let sp := sp2.filter fun w => decide (w > 0)
        let idx := edges.map (searchLeft sp)
        let ibeg := idx.dropLast
        let iend := idx.drop 1
        let flux ← sampleTree E m sp
        let avflux := pairSums flux
        let deltaw := pairDiffs sp
        let (bf, _) ← if useC then calcbinfluxC ibeg iend avflux deltaw else calcbinfluxPy ibeg iend avflux deltaw
        pure ({ binset := A, edges := edges, binflux := bf, spwave := sp, flux := flux, ibeg := ibeg, iend := iend } : Bins K))
        = initBinsFrom E thr m A useC := by
    intro A
    unfold initBinsFrom
    simp only [bind, Except.bind, pure, Except.pure]
    cases h1 : binEdges A with
    | error e => rfl
    | ok edges =>
      cases h2 : m.waveset thr with
      | error e => rfl
      | ok w =>
        cases w with
        | none =>
          simp only [mergedGrid, callBin]
          cases sampleTree E m _ with
          | error e => rfl
          | ok flux =>
            cases useC
            · simp only [Bool.false_eq_true, if_false]
              cases calcbinfluxPy (K := K) _ _ _ _ <;> rfl
            · simp only [if_true]
              cases calcbinfluxC (K := K) _ _ _ _ <;> rfl
        | some w =>
          simp only [mergedGrid, callBin]
          cases sampleTree E m _ with
          | error e => rfl
          | ok flux =>
            cases useC
            · simp only [Bool.false_eq_true, if_false]
              cases calcbinfluxPy (K := K) _ _ _ _ <;> rfl
            · simp only [if_true]
              cases calcbinfluxC (K := K) _ _ _ _ <;> rfl
  rw [← key]
  rfl

theorem initBinsFrom_inv (E : Env K) (thr : K) (m : Tree K) (A : List K) (useC : Bool) (b : Bins K)
    (h : initBinsFrom E thr m A useC = .ok b) :
    ∃ edges w flux r,
      binEdges A = .ok edges ∧ m.waveset thr = .ok w ∧
      sampleTree E m (mergedGrid thr edges A w) = .ok flux ∧
      callBin useC ((edges.map (searchLeft (mergedGrid thr edges A w))).dropLast)
          ((edges.map (searchLeft (mergedGrid thr edges A w))).drop 1) (pairSums flux)
          (pairDiffs (mergedGrid thr edges A w)) = .ok r ∧
      b = { binset := A, edges := edges, binflux := r.1,
            spwave := mergedGrid thr edges A w, flux := flux,
            ibeg := (edges.map (searchLeft (mergedGrid thr edges A w))).dropLast,
            iend := (edges.map (searchLeft (mergedGrid thr edges A w))).drop 1 } := by
  unfold initBinsFrom at h
  cases h1 : binEdges A with
  | error e => rw [h1] at h; cases h
  | ok edges =>
    rw [h1] at h
    cases h2 : m.waveset thr with
    | error e => rw [h2] at h; cases h
    | ok w =>
      rw [h2] at h
      simp only at h
      cases h3 : sampleTree E m (mergedGrid thr edges A w) with
      | error e => rw [h3] at h; cases h
      | ok flux =>
        rw [h3] at h
        simp only at h
        cases h4 : callBin useC ((edges.map (searchLeft (mergedGrid thr edges A w))).dropLast)
          ((edges.map (searchLeft (mergedGrid thr edges A w))).drop 1) (pairSums flux)
          (pairDiffs (mergedGrid thr edges A w)) with
        | error e => rw [h4] at h; cases h
        | ok r =>
          rw [h4] at h
          simp only at h
          injection h with h
          exact ⟨edges, w, flux, r, rfl, rfl, h3, h4, h.symm⟩


/-! ### the order of the bin centres -/

theorem strictAsc_pairwise (l : List K) : StrictAsc l ↔ l.Pairwise (· < ·) := by
  rw [strictAsc_iff_chain, List.isChain_iff_pairwise]

theorem strictAsc_filter (p : K → Bool) (l : List K) (h : StrictAsc l) : StrictAsc (l.filter p) := by
  rw [strictAsc_pairwise] at h ⊢
  exact h.filter p

theorem strictAsc_head_lt_last (a b : K) (t : List K) (h : StrictAsc (a :: b :: t)) :
    a < (a :: b :: t).getLastD a := by
  rw [List.getLastD_cons, List.getLastD_cons]
  exact lt_of_lt_of_le h.1 (strictAsc_head_le_last t b h.2)

theorem ascCentres_cons_cons (a b : K) (t : List K) :
    ascCentres (a :: b :: t) = if a > (a :: b :: t).getLastD a then (a :: b :: t).reverse else a :: b :: t := by
  unfold ascCentres
  have : (a :: b :: t).getLast? = some ((a :: b :: t).getLastD a) := by
    rw [List.getLastD_eq_getLast?, List.getLast?_eq_some_getLast (by simp)]; rfl
  rw [this]; rfl

theorem ascCentres_of_asc (bs : List K) (h : StrictAsc bs) : ascCentres bs = bs := by
  rcases bs with _ | ⟨a, _ | ⟨b, t⟩⟩
  · rfl
  · simp [ascCentres]
  · rw [ascCentres_cons_cons, if_neg (not_lt.mpr (le_of_lt (strictAsc_head_lt_last a b t h)))]

theorem ascCentres_of_desc (bs : List K) (h : StrictDesc bs) : ascCentres bs = bs.reverse := by
  rcases bs with _ | ⟨a, _ | ⟨b, t⟩⟩
  · rfl
  · simp [ascCentres]
  · rw [ascCentres_cons_cons, if_pos (strictDesc_last_lt_head a b t h)]

/-- for valid wavelengths the constructor's ordering step yields the strictly ascending arrangement -/
theorem ascCentres_valid (bs : List K) (hv : validateWavelengths bs = .ok ()) :
    StrictAsc (ascCentres bs) ∧ (ascCentres bs = bs ∨ ascCentres bs = bs.reverse) ∧
      (∀ x ∈ ascCentres bs, 0 < x) ∧ ascCentres bs.reverse = ascCentres bs := by
  obtain ⟨hpos, hmon⟩ := (validate_ok_iff bs).mp hv
  rcases hmon with hA | hD
  · have h1 := ascCentres_of_asc bs hA
    have h2 := ascCentres_of_desc bs.reverse ((strictDesc_reverse bs).mpr hA)
    rw [List.reverse_reverse] at h2
    exact ⟨by rw [h1]; exact hA, Or.inl h1, by rw [h1]; exact hpos, by rw [h1, h2]⟩
  · have h1 := ascCentres_of_desc bs hD
    have h2 := ascCentres_of_asc bs.reverse ((strictAsc_reverse bs).mpr hD)
    exact ⟨by rw [h1]; exact (strictAsc_reverse bs).mpr hD, Or.inr h1,
      by rw [h1]; intro x hx; exact hpos x (List.mem_reverse.mp hx), by rw [h1, h2]⟩

/-! ### the merged grid -/

theorem mergedGrid_strictAsc (thr : K) (edges A : List K) (w : Option (List K)) :
    StrictAsc (mergedGrid thr edges A w) := by
  unfold mergedGrid
  apply strictAsc_filter
  cases w with
  | none => exact filterClose_strictAsc thr _ (union1d_strictAsc _ _)
  | some w => exact filterClose_strictAsc thr _ (union1d_strictAsc _ _)

theorem mergedGrid_pos (thr : K) (edges A : List K) (w : Option (List K)) :
    ∀ x ∈ mergedGrid thr edges A w, 0 < x := by
  intro x hx
  unfold mergedGrid at hx
  have := (List.mem_filter.mp hx).2
  simpa using this

/-- every point of the merged grid is a bin edge, a bin centre or a native sampling point -/
theorem mergedGrid_mem (thr : K) (edges A : List K) (w : Option (List K)) (x : K)
    (hx : x ∈ mergedGrid thr edges A w) : x ∈ edges ∨ x ∈ A ∨ ∃ w', w = some w' ∧ x ∈ w' := by
  unfold mergedGrid at hx
  have hx' := (List.mem_filter.mp hx).1
  cases w with
  | none =>
    have := (filterClose_sublist thr _).subset hx'
    rcases (mem_union1d _ _ _).mp this with h | h
    · exact Or.inl h
    · exact Or.inr (Or.inl h)
  | some w =>
    have := (filterClose_sublist thr _).subset hx'
    rcases (mem_union1d _ _ _).mp this with h | h
    · have := (filterClose_sublist thr _).subset h
      rcases (mem_union1d _ _ _).mp this with h | h
      · exact Or.inl h
      · exact Or.inr (Or.inl h)
    · exact Or.inr (Or.inr ⟨w, rfl, h⟩)
/-- with a non-positive merge threshold nothing is dropped from a strictly ascending array -/
theorem filterClose_id (thr : K) (hthr : thr ≤ 0) (l : List K) (hs : StrictAsc l) : filterClose thr l = l := by
  apply filterClose_of_gaps
  induction l with
  | nil => trivial
  | cons a t ih =>
    cases t with
    | nil => trivial
    | cons b t => exact ⟨by have := hs.1; linarith, ih hs.2⟩

/-- every positive bin edge is a point of the merged grid when the merge threshold drops nothing -/
theorem mergedGrid_mem_of_thr (thr : K) (hthr : thr ≤ 0) (edges A : List K) (w : Option (List K))
    (x : K) (hx : x ∈ edges) (hpos : 0 < x) : x ∈ mergedGrid thr edges A w := by
  unfold mergedGrid
  apply List.mem_filter.mpr
  refine ⟨?_, by simpa using hpos⟩
  have h1 : x ∈ filterClose thr (union1d edges A) := by
    rw [filterClose_id thr hthr _ (union1d_strictAsc _ _)]
    exact (mem_union1d _ _ _).mpr (Or.inl hx)
  cases w with
  | none => exact h1
  | some w =>
    show x ∈ filterClose thr (union1d _ w)
    rw [filterClose_id thr hthr _ (union1d_strictAsc _ _)]
    exact (mem_union1d _ _ _).mpr (Or.inl h1)

/-! ### `searchsorted` on a strictly ascending grid -/

/-- a grid point is found at its own index -/
theorem searchLeft_mem (sp : List K) (hs : StrictAsc sp) (e : K) (he : e ∈ sp) :
    searchLeft sp e < sp.length ∧ sp.getD (searchLeft sp e) 0 = e := by
  obtain ⟨j, hj, hje⟩ := List.getElem_of_mem he
  have hjd : sp.getD j 0 = e := by
    rw [List.getD_eq_getElem?_getD, List.getElem?_eq_getElem hj]; exact hje
  have hle : searchLeft sp e ≤ j := searchLeft_le_of sp e 0 j (by rw [hjd])
  have hlt : searchLeft sp e < sp.length := by omega
  refine ⟨hlt, ?_⟩
  have hge := searchLeft_ge sp e 0 hlt
  rcases Nat.lt_or_ge (searchLeft sp e) j with h | h
  · have := strictAsc_getD_lt sp hs _ j h hj 0
    rw [hjd] at this
    exact absurd hge (not_le.mpr this)
  · have : searchLeft sp e = j := by omega
    rw [this, hjd]

/-- distinct grid points are found in their order -/
theorem searchLeft_strictMono_mem (sp : List K) (hs : StrictAsc sp) (a b : K) (ha : a ∈ sp) (hb : b ∈ sp)
    (hab : a < b) : searchLeft sp a < searchLeft sp b := by
  obtain ⟨ha1, ha2⟩ := searchLeft_mem sp hs a ha
  obtain ⟨hb1, hb2⟩ := searchLeft_mem sp hs b hb
  by_contra hc
  have hle : searchLeft sp b ≤ searchLeft sp a := by omega
  have := strictAsc_getD_le sp hs _ _ hle ha1 0
  rw [ha2, hb2] at this
  exact absurd hab (not_lt.mpr this)

theorem map_searchLeft_chain (sp : List K) : ∀ (edges : List K), StrictAsc edges →
    (edges.map (searchLeft sp)).IsChain (· ≤ ·) := by
  intro edges
  induction edges with
  | nil => intro _; simp
  | cons a t ih =>
    intro h
    cases t with
    | nil => simp
    | cons b t =>
      simp only [List.map_cons, List.isChain_cons_cons]
      exact ⟨searchLeft_mono sp a b (le_of_lt h.1), by simpa using ih h.2⟩

theorem zip_dropLast_tail {α : Type} : ∀ (l : List α), l.dropLast.zip (l.drop 1) = l.zip (l.drop 1) := by
  intro l
  induction l with
  | nil => rfl
  | cons a t ih =>
    cases t with
    | nil => rfl
    | cons b t =>
      simp only [List.dropLast_cons_cons, List.drop_succ_cons, List.drop_zero, List.zip_cons_cons]
      have := ih
      simp only [List.drop_succ_cons, List.drop_zero] at this
      rw [this]


/-! ### what either integrator returns -/

theorem callBin_ok (useC : Bool) (ibeg iend : List Nat) (av dw : List K) (r : List K × List K)
    (h : callBin useC ibeg iend av dw = .ok r) :
    ∃ e rs, (ibeg.zip iend).mapM (binOne e av dw) = .ok rs ∧ r = (rs.map Prod.fst, rs.map Prod.snd) := by
  unfold callBin at h
  cases useC with
  | true =>
    rw [if_pos rfl, calcbinfluxC_eq] at h
    cases hm : (ibeg.zip iend).mapM (binOne .zeroDivision av dw) with
    | error e => rw [hm] at h; cases h
    | ok rs =>
      rw [hm] at h
      simp only [Except.map] at h
      injection h with h
      exact ⟨_, rs, hm, h.symm⟩
  | false =>
    rw [if_neg (by simp), calcbinfluxPy_eq] at h
    cases hm : (ibeg.zip iend).mapM (binOne .nan av dw) with
    | error e => rw [hm] at h; cases h
    | ok rs =>
      rw [hm] at h
      simp only [Except.map] at h
      injection h with h
      exact ⟨_, rs, hm, h.symm⟩

theorem binOne_snd (e : Err) (av dw : List K) (p : Nat × Nat) (r : K × K)
    (h : binOne e av dw p = .ok r) : r.2 = segWidth dw p.1 p.2 := by
  unfold binOne at h
  split_ifs at h
  injection h with h
  rw [← h]

theorem mapM_binOne_snd (e : Err) (av dw : List K) : ∀ (ps : List (Nat × Nat)) (rs : List (K × K)),
    ps.mapM (binOne e av dw) = .ok rs → rs.map Prod.snd = ps.map fun p => segWidth dw p.1 p.2 := by
  intro ps rs h
  have := mapM_ok_mem _ ps rs h
  clear h
  induction this with
  | nil => rfl
  | cons hab _ ih => simp only [List.map_cons, ih, binOne_snd e av dw _ _ hab]

theorem mapM_ok_length {α β : Type} (f : α → Except Err β) (l : List α) (r : List β)
    (h : l.mapM f = .ok r) : r.length = l.length := (mapM_ok_mem f l r h).length_eq.symm

theorem mapM_ok_getD {α β : Type} (f : α → Except Err β) : ∀ (l : List α) (r : List β),
    l.mapM f = .ok r → ∀ k, k < l.length → ∀ (da : α) (db : β), f (l.getD k da) = .ok (r.getD k db) := by
  intro l r h
  have := mapM_ok_mem f l r h
  clear h
  induction this with
  | nil => intro k hk; simp at hk
  | cons hab _ ih =>
    intro k hk da db
    cases k with
    | zero => simpa using hab
    | succ k =>
      simp only [List.getD_cons_succ]
      exact ih k (by simpa using hk) da db

theorem mapM_ok_of_forall {α β : Type} (f : α → Except Err β) : ∀ (l : List α),
    (∀ a ∈ l, ∃ b, f a = .ok b) → ∃ r, l.mapM f = .ok r := by
  intro l
  induction l with
  | nil => intro _; exact ⟨[], rfl⟩
  | cons a t ih =>
    intro h
    obtain ⟨b, hb⟩ := h a (by simp)
    obtain ⟨r, hr⟩ := ih (fun x hx => h x (List.mem_cons_of_mem _ hx))
    exact ⟨b :: r, by simp only [List.mapM_cons, hb, hr, bind, Except.bind, pure, Except.pure]⟩

theorem mulFactors_map_fst_snd (rs : List (K × K)) :
    mulFactors (rs.map Prod.fst) (rs.map Prod.snd) = rs.map fun r => r.1 * r.2 := by
  induction rs with
  | nil => rfl
  | cons r rs ih => simp only [List.map_cons, mulFactors, ih]

theorem sum_pos_of_pos : ∀ (l : List K), l ≠ [] → (∀ x ∈ l, 0 < x) → 0 < l.sum := by
  intro l
  induction l with
  | nil => intro h; exact absurd rfl h
  | cons a t ih =>
    intro _ h
    rw [List.sum_cons]
    have ha := h a (by simp)
    cases t with
    | nil => simpa using ha
    | cons b t =>
      have := ih (by simp) (fun x hx => h x (List.mem_cons_of_mem _ hx))
      linarith

/-! ### consistent calls of the bin integrator -/

/-- a consistent set of bin indices over positive-width segments: as many start as end indices, one
averaged flux per segment, every segment of positive width, every bin a non-empty index range inside
the segment array -/
def ConsistentCall (ibeg iend : List Nat) (av dw : List K) : Prop :=
  ibeg.length = iend.length ∧ av.length = dw.length ∧ (∀ d ∈ dw, 0 < d) ∧
    ∀ p ∈ ibeg.zip iend, p.1 < p.2 ∧ p.2 ≤ dw.length

theorem binOne_ok_of_consistent (e : Err) (av dw : List K) (hd : ∀ d ∈ dw, 0 < d) (p : Nat × Nat)
    (hp : p.1 < p.2 ∧ p.2 ≤ dw.length) : ∃ r, binOne e av dw p = .ok r := by
  unfold binOne
  have hne : (dw.drop p.1).take (p.2 - p.1) ≠ [] := by
    intro h0
    have := congrArg List.length h0
    simp only [List.length_take, List.length_drop, List.length_nil] at this
    omega
  have hpos : 0 < segWidth dw p.1 p.2 :=
    sum_pos_of_pos _ hne (fun x hx => hd x (List.mem_of_mem_drop (List.mem_of_mem_take hx)))
  rw [if_neg (ne_of_gt hpos)]
  exact ⟨_, rfl⟩

/-- on a consistent call both implementations return, and return the same arrays, one entry per bin -/
theorem consistent_both_ok (ibeg iend : List Nat) (av dw : List K) (hc : ConsistentCall ibeg iend av dw) :
    ∃ r, calcbinfluxC ibeg iend av dw = .ok r ∧ calcbinfluxPy ibeg iend av dw = .ok r ∧
      r.1.length = ibeg.length ∧ r.2.length = ibeg.length := by
  obtain ⟨hl, _, hd, hp⟩ := hc
  obtain ⟨rs, hrs⟩ := mapM_ok_of_forall (binOne .zeroDivision av dw) (ibeg.zip iend)
    (fun p hp' => binOne_ok_of_consistent _ av dw hd p (hp p hp'))
  have hrs' := mapM_ok_congr _ _ _ rs (fun a b => binOne_ok_indep .zeroDivision .nan av dw a b) hrs
  have hlen := mapM_ok_length _ _ _ hrs
  refine ⟨(rs.map Prod.fst, rs.map Prod.snd), ?_, ?_, ?_, ?_⟩
  · rw [calcbinfluxC_eq, hrs]; rfl
  · rw [calcbinfluxPy_eq, hrs']; rfl
  · simp [hlen, List.length_zip, hl]
  · simp [hlen, List.length_zip, hl]

/-- the call the constructor makes: edges that are points of the strictly ascending merged grid -/
theorem idx_pairs_consistent (sp : List K) (hs : StrictAsc sp) : ∀ (edges : List K), StrictAsc edges →
    (∀ e ∈ edges, e ∈ sp) → ∀ p ∈ (edges.map (searchLeft sp)).zip ((edges.map (searchLeft sp)).drop 1),
      p.1 < p.2 ∧ p.2 ≤ (pairDiffs sp).length := by
  intro edges
  induction edges with
  | nil => intro _ _ p hp; simp at hp
  | cons a t ih =>
    intro h hm p hp
    cases t with
    | nil => simp at hp
    | cons b t =>
      simp only [List.map_cons, List.drop_succ_cons, List.drop_zero, List.zip_cons_cons, List.mem_cons] at hp
      rcases hp with rfl | hp
      · refine ⟨searchLeft_strictMono_mem sp hs a b (hm a (by simp)) (hm b (by simp)) h.1, ?_⟩
        have := (searchLeft_mem sp hs b (hm b (by simp))).1
        rw [pairDiffs_eq_adjMap, adjMap_length]
        show searchLeft sp b ≤ sp.length - 1
        omega
      · exact ih h.2 (fun e he => hm e (List.mem_cons_of_mem _ he)) p (by simpa using hp)

theorem constructed_call_consistent (sp flux edges : List K) (hs : StrictAsc sp) (he : StrictAsc edges)
    (hm : ∀ e ∈ edges, e ∈ sp) (hl : flux.length = sp.length) :
    ConsistentCall ((edges.map (searchLeft sp)).dropLast) ((edges.map (searchLeft sp)).drop 1)
      (pairSums flux) (pairDiffs sp) := by
  refine ⟨by simp [List.length_dropLast, List.length_drop], ?_, pairDiffs_pos sp hs, ?_⟩
  · rw [pairSums_eq_adjMap, pairDiffs_eq_adjMap, adjMap_length, adjMap_length, hl]
  · rw [zip_dropLast_tail]
    exact idx_pairs_consistent sp hs edges he hm

/-- the widths the integrator sums are the bin widths when the edges are grid points -/
theorem widths_eq_absDiffs (sp : List K) (hs : StrictAsc sp) : ∀ (edges : List K), StrictAsc edges →
    (∀ e ∈ edges, e ∈ sp) →
    ((edges.map (searchLeft sp)).zip ((edges.map (searchLeft sp)).drop 1)).map
        (fun p => segWidth (pairDiffs sp) p.1 p.2) = absDiffs edges := by
  intro edges
  induction edges with
  | nil => intro _ _; rfl
  | cons a t ih =>
    intro h hm
    cases t with
    | nil => rfl
    | cons b t =>
      have iht := ih h.2 (fun e he => hm e (List.mem_cons_of_mem _ he))
      simp only [List.map_cons, List.drop_succ_cons, List.drop_zero, List.zip_cons_cons, absDiffs] at iht ⊢
      rw [iht]
      congr 1
      obtain ⟨ha1, ha2⟩ := searchLeft_mem sp hs a (hm a (by simp))
      obtain ⟨hb1, hb2⟩ := searchLeft_mem sp hs b (hm b (by simp))
      have hlt := searchLeft_strictMono_mem sp hs a b (hm a (by simp)) (hm b (by simp)) h.1
      rw [segWidth_pairDiffs sp _ _ (le_of_lt hlt) hb1, ha2, hb2, abs_of_pos (by have := h.1; linarith)]


/-! ### reversed centres -/

theorem adjMap_append_two (f : K → K → K) (a b : K) : ∀ (l : List K),
    adjMap f (l ++ [a, b]) = adjMap f (l ++ [a]) ++ [f a b] := by
  intro l
  induction l with
  | nil => simp [adjMap]
  | cons x l ih =>
    cases l with
    | nil => simp [adjMap]
    | cons y l =>
      simp only [List.cons_append, adjMap] at ih ⊢
      rw [ih]

theorem adjMap_reverse (f : K → K → K) (hf : ∀ a b, f a b = f b a) : ∀ (l : List K),
    adjMap f l.reverse = (adjMap f l).reverse := by
  intro l
  induction l with
  | nil => rfl
  | cons a t ih =>
    cases t with
    | nil => rfl
    | cons b t =>
      simp only [List.reverse_cons, List.append_assoc, List.cons_append, List.nil_append, adjMap] at ih ⊢
      rw [adjMap_append_two, ih, hf b a]

theorem mids_reverse (l : List K) : mids l.reverse = (mids l).reverse := by
  rw [mids_eq_adjMap, mids_eq_adjMap]
  exact adjMap_reverse _ (fun a b => by ring) l

theorem binEdges_eq (c : List K) (h : 2 ≤ c.length) :
    binEdges c = .ok ((2 * c.headD 0 - (mids c).headD 0) :: mids c ++
      [2 * c.getLastD 0 - (mids c).getLastD 0]) := by
  rcases c with _ | ⟨a, _ | ⟨b, t⟩⟩
  · simp at h
  · simp at h
  · simp only [binEdges, mids, List.headD_cons, List.getLastD_cons]

/-- the edges of the reversed centres are the reversed edges: the same bins -/
theorem binEdges_reverse (c : List K) : binEdges c.reverse = (binEdges c).map List.reverse := by
  by_cases h : 2 ≤ c.length
  · rw [binEdges_eq c h, binEdges_eq c.reverse (by simpa using h), mids_reverse]
    simp only [Except.map, List.reverse_cons, List.reverse_append, List.reverse_nil, List.nil_append,
      List.cons_append, List.append_assoc]
    have hm : 1 ≤ (mids c).length := by rw [mids_eq_adjMap, adjMap_length]; omega
    have e1 : c.reverse.headD 0 = c.getLastD 0 := by
      rw [List.headD_eq_head?_getD, List.head?_reverse, List.getLastD_eq_getLast?]
    have e2 : c.reverse.getLastD 0 = c.headD 0 := by
      rw [List.headD_eq_head?_getD, List.getLastD_eq_getLast?, List.getLast?_reverse]
    have e3 : (mids c).reverse.headD 0 = (mids c).getLastD 0 := by
      rw [List.headD_eq_head?_getD, List.head?_reverse, List.getLastD_eq_getLast?]
    have e4 : (mids c).reverse.getLastD 0 = (mids c).headD 0 := by
      rw [List.headD_eq_head?_getD, List.getLastD_eq_getLast?, List.getLast?_reverse]
    rw [e1, e2, e3, e4]
  · rw [binEdges_short c (by omega), binEdges_short c.reverse (by simp; omega)]
    rfl

/-! ### binned sampling -/

/-- the bin index `sample_binned` compares a wavelength with (as a natural number) -/
def clipIdx (binset : List K) (v : K) : Nat := min (searchLeft binset v) (binset.length - 1)

theorem clipIdx_lt (binset : List K) (hne : binset ≠ []) (v : K) : clipIdx binset v < binset.length := by
  have : 0 < binset.length := List.length_pos_iff.mpr hne
  unfold clipIdx; omega

theorem mapM_pyIndex_binIndex {β : Type} (binset : List K) (hne : binset ≠ []) (l : List β)
    (hl : l.length = binset.length) (d : β) : ∀ (x : List K),
    (x.map (binIndex binset)).mapM (pyIndex l) = .ok (x.map fun v => l.getD (clipIdx binset v) d) := by
  intro x
  induction x with
  | nil => rfl
  | cons v x ih =>
    simp only [List.map_cons, List.mapM_cons, bind, Except.bind, ih, pure, Except.pure]
    have : pyIndex l (binIndex binset v) = .ok (l.getD (clipIdx binset v) d) :=
      pyIndex_nat l (clipIdx binset v) (by rw [hl]; exact clipIdx_lt binset hne v) d
    rw [this]

theorem all_zip_map (g : K → K) (P : K → K → Bool) : ∀ (x : List K),
    ((x.map g).zip x).all (fun p => P p.1 p.2) = x.all fun v => P (g v) v := by
  intro x
  induction x with
  | nil => rfl
  | cons v x ih => simp only [List.map_cons, List.zip_cons_cons, List.all_cons, ih]

/-- `sample_binned` on valid wavelengths: the binned fluxes of the compared bins when every wavelength is
within the `allclose` tolerance of the centre it is compared with, `InterpolationNotAllowed` otherwise -/
theorem sampleBinned_spec (atol rtol : K) (b : Bins K) (hne : b.binset ≠ [])
    (hlen : b.binflux.length = b.binset.length) (x : List K) (hv : validateWavelengths x = .ok ()) :
    sampleBinned atol rtol b x =
      if ∀ v ∈ x, |b.binset.getD (clipIdx b.binset v) 0 - v| ≤ atol + rtol * |v|
      then .ok (x.map fun v => b.binflux.getD (clipIdx b.binset v) 0)
      else .error .interpolationNotAllowed := by
  unfold sampleBinned
  simp only [hv, bind, Except.bind, mapM_pyIndex_binIndex b.binset hne b.binset rfl 0 x,
    mapM_pyIndex_binIndex b.binset hne b.binflux hlen 0 x]
  have hall := all_zip_map (fun v => b.binset.getD (clipIdx b.binset v) 0) (allcloseOne atol rtol) x
  have hall' : ((x.map fun v => b.binset.getD (clipIdx b.binset v) 0).zip x).all
      (fun x => match x with | (a, v) => allcloseOne atol rtol a v) =
      x.all fun v => allcloseOne atol rtol (b.binset.getD (clipIdx b.binset v) 0) v := hall
  rw [hall']
  by_cases hc : ∀ v ∈ x, |b.binset.getD (clipIdx b.binset v) 0 - v| ≤ atol + rtol * |v|
  · have : (x.all fun v => allcloseOne atol rtol (b.binset.getD (clipIdx b.binset v) 0) v) = true := by
      rw [List.all_eq_true]; intro v hv'; simpa [allcloseOne] using hc v hv'
    rw [if_pos hc, this]; rfl
  · have : (x.all fun v => allcloseOne atol rtol (b.binset.getD (clipIdx b.binset v) 0) v) = false := by
      rw [Bool.eq_false_iff]; intro h
      rw [List.all_eq_true] at h
      exact hc (fun v hv' => by simpa [allcloseOne] using h v hv')
    rw [if_neg hc, this]; rfl

theorem searchLeft_getD_self (sp : List K) (hs : StrictAsc sp) (i : Nat) (hi : i < sp.length) :
    searchLeft sp (sp.getD i 0) = i := by
  have hm : sp.getD i 0 ∈ sp := by
    rw [List.getD_eq_getElem?_getD, List.getElem?_eq_getElem hi]; exact List.getElem_mem _
  obtain ⟨h1, h2⟩ := searchLeft_mem sp hs _ hm
  rcases Nat.lt_trichotomy (searchLeft sp (sp.getD i 0)) i with h | h | h
  · have := strictAsc_getD_lt sp hs _ _ h hi 0
    rw [h2] at this; exact absurd this (lt_irrefl _)
  · exact h
  · have := strictAsc_getD_lt sp hs _ _ h h1 0
    rw [h2] at this; exact absurd this (lt_irrefl _)

theorem clipIdx_getD_self (sp : List K) (hs : StrictAsc sp) (i : Nat) (hi : i < sp.length) :
    clipIdx sp (sp.getD i 0) = i := by
  unfold clipIdx
  rw [searchLeft_getD_self sp hs i hi]; omega

theorem getD_mem {α : Type} (l : List α) (i : Nat) (hi : i < l.length) (d : α) : l.getD i d ∈ l := by
  rw [List.getD_eq_getElem?_getD, List.getElem?_eq_getElem hi]; exact List.getElem_mem _

/-- looking every bin centre up at its own index reproduces the array -/
theorem map_lookup_self (sp : List K) (hs : StrictAsc sp) (l : List K) (hl : l.length = sp.length) :
    (sp.map fun v => l.getD (clipIdx sp v) 0) = l := by
  apply List.ext_getElem
  · simp [hl]
  · intro i h1 h2
    rw [List.getElem_map]
    have hi : i < sp.length := by simpa using h1
    have : sp[i] = sp.getD i 0 := by
      rw [List.getD_eq_getElem?_getD, List.getElem?_eq_getElem hi]; rfl
    rw [this, clipIdx_getD_self sp hs i hi, List.getD_eq_getElem?_getD, List.getElem?_eq_getElem h2]
    rfl


theorem getLast_cons_map {β : Type} (f : K → β) : ∀ (t : List K) (a : K),
    (f a :: t.map f).getLast (List.cons_ne_nil _ _) = f ((a :: t).getLastD 0) := by
  intro t
  induction t with
  | nil => intro a; rfl
  | cons b t ih =>
    intro a
    rw [List.map_cons, List.getLast_cons_cons, ih b, List.getLastD_cons, List.getLastD_cons, List.getLastD_cons]

/-! ### the observation constructor -/

theorem waveset_valid (thr : K) (m : Tree K) (w : List K) (h : m.waveset thr = .ok (some w)) :
    validateWavelengths w = .ok () := by
  unfold Tree.waveset at h
  cases hs : m.sampleset thr with
  | none => rw [hs] at h; cases h
  | some w' =>
    rw [hs] at h
    simp only [bind, Except.bind] at h
    cases hv : validateWavelengths w' with
    | error e => rw [hv] at h; cases h
    | ok u =>
      rw [hv] at h
      simp only [pure, Except.pure] at h
      injection h with h; injection h with h; subst h; exact hv

theorem mkObs_inv (E : Env K) (P : OverlapPar K) (src band : Spec K) (binset : Option (List K)) (force : Force)
    (useC : Bool) (o : Obs K) (h : mkObs E P src band binset force useC = .ok o) :
    ∃ bs, validateWavelengths bs = .ok () ∧ (binset = some bs ∨ binset = none) ∧
      initBins E P.mergeThr o.model bs useC = .ok o.bins := by
  unfold mkObs at h
  simp only [bind, Except.bind, pure, Except.pure, throw, throwThe, MonadExceptOf.throw] at h
  split_ifs at h with hk1 hk2
  cases ha : obsAdmit E P src band force with
  | error e => rw [ha] at h; cases h
  | ok v =>
    rw [ha] at h
    simp only at h
    cases hsm : v.1.model with
    | error e => rw [hsm] at h; cases h
    | ok sm =>
      rw [hsm] at h
      simp only at h
      cases hbm : band.model with
      | error e => rw [hbm] at h; cases h
      | ok bm =>
        rw [hbm] at h
        simp only at h
        cases binset with
        | some bs =>
          simp only at h
          cases hv : validateWavelengths bs with
          | error e => rw [hv] at h; cases h
          | ok u =>
            rw [hv] at h
            simp only at h
            cases hi : initBins E P.mergeThr (Tree.bin BinOp.mul sm bm) bs useC with
            | error e => rw [hi] at h; cases h
            | ok bins =>
              rw [hi] at h
              injection h with h; subst h
              exact ⟨bs, hv, Or.inl rfl, hi⟩
        | none =>
          simp only at h
          cases hd : defaultBinset P.mergeThr sm bm with
          | error e => rw [hd] at h; cases h
          | ok bs =>
            rw [hd] at h
            simp only at h
            cases hi : initBins E P.mergeThr (Tree.bin BinOp.mul sm bm) bs useC with
            | error e => rw [hi] at h; cases h
            | ok bins =>
              rw [hi] at h
              injection h with h; subst h
              refine ⟨bs, ?_, Or.inr rfl, hi⟩
              unfold defaultBinset at hd
              simp only [bind, Except.bind, pure, Except.pure] at hd
              cases hb : bm.waveset P.mergeThr with
              | error e => rw [hb] at hd; cases hd
              | ok wb =>
                rw [hb] at hd
                cases wb with
                | some w =>
                  simp only at hd; injection hd with hd; subst hd
                  exact waveset_valid _ _ _ hb
                | none =>
                  simp only at hd
                  cases hs : sm.waveset P.mergeThr with
                  | error e => rw [hs] at hd; cases hd
                  | ok ws =>
                    rw [hs] at hd
                    cases ws with
                    | some w =>
                      simp only at hd; injection hd with hd; subst hd
                      exact waveset_valid _ _ _ hs
                    | none => simp only at hd; cases hd

theorem initBinsFrom_of_pieces (E : Env K) (thr : K) (m : Tree K) (A : List K) (useC : Bool)
    (edges : List K) (w : Option (List K)) (flux : List K) (r : List K × List K)
    (he : binEdges A = .ok edges) (hw : m.waveset thr = .ok w)
    (hf : sampleTree E m (mergedGrid thr edges A w) = .ok flux)
    (hc : callBin useC ((edges.map (searchLeft (mergedGrid thr edges A w))).dropLast)
          ((edges.map (searchLeft (mergedGrid thr edges A w))).drop 1) (pairSums flux)
          (pairDiffs (mergedGrid thr edges A w)) = .ok r) :
    initBinsFrom E thr m A useC = .ok (Bins.mk A edges r.1 (mergedGrid thr edges A w) flux
            ((edges.map (searchLeft (mergedGrid thr edges A w))).dropLast)
            ((edges.map (searchLeft (mergedGrid thr edges A w))).drop 1)) := by
  unfold initBinsFrom
  rw [he]; simp only; rw [hw]; simp only; rw [hf]; simp only; rw [hc]

/-- a constructor call whose bin edges are points of the merged grid returns, with either integrator, the
same bins -/
theorem initBins_succeeds (E : Env K) (thr : K) (m : Tree K) (bs : List K)
    (hv : validateWavelengths bs = .ok ()) (w : Option (List K)) (hw : m.waveset thr = .ok w)
    (heval : ∀ x, 0 < x → ∃ y, m.eval E x = .ok y) (edges : List K) (he : binEdges (ascCentres bs) = .ok edges)
    (hedge : ∀ e ∈ edges, e ∈ mergedGrid thr edges (ascCentres bs) w) :
    ∃ b, initBins E thr m bs true = .ok b ∧ initBins E thr m bs false = .ok b ∧ b.binset = ascCentres bs ∧
      b.edges = edges ∧ b.spwave = mergedGrid thr edges (ascCentres bs) w ∧
      sampleTree E m b.spwave = .ok b.flux := by
  obtain ⟨flux, hf⟩ := mapM_ok_of_forall (m.eval E) (mergedGrid thr edges (ascCentres bs) w)
    (fun x hx => heval x (mergedGrid_pos thr edges _ w x hx))
  have hfl : flux.length = (mergedGrid thr edges (ascCentres bs) w).length := mapM_ok_length _ _ _ hf
  have hcc := constructed_call_consistent _ flux edges (mergedGrid_strictAsc thr edges _ w)
    (binEdges_strictAsc _ _ (ascCentres_valid bs hv).1 he) hedge hfl
  obtain ⟨r, h1, h2, _, _⟩ := consistent_both_ok _ _ _ _ hcc
  refine ⟨Bins.mk (ascCentres bs) edges r.1 (mergedGrid thr edges (ascCentres bs) w) flux
            ((edges.map (searchLeft (mergedGrid thr edges (ascCentres bs) w))).dropLast)
            ((edges.map (searchLeft (mergedGrid thr edges (ascCentres bs) w))).drop 1), ?_, ?_, rfl, rfl, rfl, hf⟩
  · rw [initBins_eq]
    exact initBinsFrom_of_pieces E thr m _ true edges w flux r he hw hf (by unfold callBin; rw [if_pos rfl]; exact h1)
  · rw [initBins_eq]
    exact initBinsFrom_of_pieces E thr m _ false edges w flux r he hw hf
      (by unfold callBin; rw [if_neg (by simp)]; exact h2)

/-- an observation built with one integrator is built identically with another one that returns the same
bins -/
theorem mkObs_congr_initBins (E : Env K) (P : OverlapPar K) (src band : Spec K) (binset : Option (List K))
    (force : Force) (u1 u2 : Bool)
    (hiff : ∀ model bs b, initBins E P.mergeThr model bs u1 = .ok b → initBins E P.mergeThr model bs u2 = .ok b)
    (o : Obs K) (h : mkObs E P src band binset force u1 = .ok o) :
    mkObs E P src band binset force u2 = .ok o := by
  unfold mkObs at h ⊢
  simp only [bind, Except.bind, pure, Except.pure, throw, throwThe, MonadExceptOf.throw] at h ⊢
  split_ifs at h ⊢ with hk1 hk2
  cases ha : obsAdmit E P src band force with
  | error e => rw [ha] at h; cases h
  | ok v =>
    rw [ha] at h
    simp only at h ⊢
    cases hsm : v.1.model with
    | error e => rw [hsm] at h; cases h
    | ok sm =>
      rw [hsm] at h
      simp only at h ⊢
      cases hbm : band.model with
      | error e => rw [hbm] at h; cases h
      | ok bm =>
        rw [hbm] at h
        simp only at h ⊢
        cases binset with
        | some bs =>
          simp only at h ⊢
          cases hv : validateWavelengths bs with
          | error e => rw [hv] at h; cases h
          | ok u =>
            rw [hv] at h
            simp only at h ⊢
            cases hi : initBins E P.mergeThr (Tree.bin BinOp.mul sm bm) bs u1 with
            | error e => rw [hi] at h; cases h
            | ok bins => rw [hi] at h; rw [hiff _ _ _ hi]; exact h
        | none =>
          simp only at h ⊢
          cases hd : defaultBinset P.mergeThr sm bm with
          | error e => rw [hd] at h; cases h
          | ok bs =>
            rw [hd] at h
            simp only at h ⊢
            cases hi : initBins E P.mergeThr (Tree.bin BinOp.mul sm bm) bs u1 with
            | error e => rw [hi] at h; cases h
            | ok bins => rw [hi] at h; rw [hiff _ _ _ hi]; exact h

/-! ### index forms of the edge geometry -/

theorem getD_eq_getElem (l : List K) (i : Nat) (hi : i < l.length) : l.getD i 0 = l[i] := by
  rw [List.getD_eq_getElem?_getD, List.getElem?_eq_getElem hi]; rfl

theorem edges_getD (c e : List K) (h : binEdges c = .ok e) :
    2 ≤ c.length ∧ e.length = c.length + 1 ∧
      (∀ i, i + 1 < c.length → e.getD (i + 1) 0 = (c.getD i 0 + c.getD (i + 1) 0) / 2) ∧
      c.getD 0 0 - e.getD 0 0 = e.getD 1 0 - c.getD 0 0 ∧
      e.getD c.length 0 - c.getD (c.length - 1) 0 = c.getD (c.length - 1) 0 - e.getD (c.length - 1) 0 := by
  obtain ⟨h2, hl, hmid, hfirst, hlast⟩ := C18.edges_spec c e h
  refine ⟨h2, hl, ?_, ?_, ?_⟩
  · intro i hi
    rw [getD_eq_getElem e (i + 1) (by omega), getD_eq_getElem c i (by omega), getD_eq_getElem c (i + 1) hi]
    exact hmid i hi
  · rw [getD_eq_getElem e 0 (by omega), getD_eq_getElem c 0 (by omega), getD_eq_getElem e 1 (by omega)]
    exact hfirst
  · rw [getD_eq_getElem e c.length (by omega), getD_eq_getElem c (c.length - 1) (by omega),
      getD_eq_getElem e (c.length - 1) (by omega)]
    exact hlast

theorem strictAsc_getD_succ (l : List K) (h : StrictAsc l) (k : Nat) (hk : k + 1 < l.length) :
    l.getD k 0 < l.getD (k + 1) 0 := strictAsc_getD_lt l h k (k + 1) (by omega) hk 0

theorem strictDesc_getD_succ (l : List K) (h : StrictDesc l) (k : Nat) (hk : k + 1 < l.length) :
    l.getD (k + 1) 0 < l.getD k 0 := by
  rw [strictDesc_iff_chain, List.isChain_iff_getElem] at h
  rw [getD_eq_getElem l k (by omega), getD_eq_getElem l (k + 1) hk]
  exact h k hk

theorem adjMap_getD (f : K → K → K) : ∀ (l : List K) (i : Nat), i + 1 < l.length →
    (adjMap f l).getD i 0 = f (l.getD i 0) (l.getD (i + 1) 0) := by
  intro l
  induction l with
  | nil => intro i hi; simp at hi
  | cons a t ih =>
    intro i hi
    cases t with
    | nil => simp at hi
    | cons b t =>
      cases i with
      | zero => simp [adjMap]
      | succ i =>
        simp only [adjMap, List.getD_cons_succ]
        exact ih i (by simpa using hi)

theorem zip_getD {α β : Type} : ∀ (l1 : List α) (l2 : List β) (k : Nat), k < l1.length → k < l2.length →
    ∀ (d1 : α) (d2 : β), (l1.zip l2).getD k (d1, d2) = (l1.getD k d1, l2.getD k d2) := by
  intro l1
  induction l1 with
  | nil => intro l2 k h; simp at h
  | cons a t ih =>
    intro l2 k h1 h2 d1 d2
    cases l2 with
    | nil => simp at h2
    | cons b t2 =>
      cases k with
      | zero => simp
      | succ k =>
        simp only [List.zip_cons_cons, List.getD_cons_succ]
        exact ih t2 k (by simpa using h1) (by simpa using h2) d1 d2

theorem calcBinEdges_inv (c e : List K) (h : calcBinEdges c = .ok e) :
    2 ≤ c.length ∧ validateWavelengths c = .ok () ∧ binEdges c = .ok e := by
  unfold calcBinEdges at h
  split_ifs at h with h2
  simp only [bind, Except.bind] at h
  cases hv : validateWavelengths c with
  | error err => rw [hv] at h; cases h
  | ok u => rw [hv] at h; exact ⟨by omega, rfl, h⟩

end Synphot

/-! ### a concrete observation for the non-vacuity examples

the source flat at 2 PHOTLAM through the box bandpass of height 1 on `[1, 5]` sampled at 2 and 4
(`C10x.Witness`), binned on the irregular centres 2, 4, 8 (edges 1, 3, 6, 10), merge threshold 0:
merged grid 1, 2, 3, 4, 6, 8, 10; unbinned flux 2 inside the band, 0 outside -/

namespace Synphot.C07w
open Synphot Synphot.C10x.Witness
variable {K : Type} [Field K] [LinearOrder K] [IsStrictOrderedRing K]

def wModel : Synphot.Tree K := .bin .mul (flatTree 2) bandTree
def wBs : List K := [2, 4, 8]
def wEdges : List K := [1, 3, 6, 10]

theorem wValid : validateWavelengths (wBs : List K) = .ok () := by
  rw [validate_ok_iff]
  refine ⟨?_, Or.inl ?_⟩
  · intro x hx; simp only [wBs, List.mem_cons, List.not_mem_nil, or_false] at hx
    rcases hx with rfl | rfl | rfl <;> norm_num
  · exact ⟨by norm_num, by norm_num, trivial⟩

theorem wStrictAsc : StrictAsc (wBs : List K) := ⟨by norm_num, by norm_num, trivial⟩

theorem wAsc : ascCentres (wBs : List K) = wBs := ascCentres_of_asc _ wStrictAsc

theorem wDesc : ascCentres ([8, 4, 2] : List K) = wBs :=
  ascCentres_of_desc _ ⟨by norm_num, by norm_num, trivial⟩

theorem wBinEdges : binEdges (wBs : List K) = .ok wEdges := by
  simp only [binEdges, wBs, wEdges, mids, List.getLastD, List.getLast?, List.cons_append, List.nil_append]
  norm_num

theorem wWaveset : (wModel : Synphot.Tree K).waveset 0 = .ok (some [2, 4]) := by
  simp only [wModel, Synphot.Tree.waveset, Synphot.Tree.sampleset, flatTree, bandTree, Leaf.sampleset,
    mergeWavelengths, valid24, bind, Except.bind, pure, Except.pure]

theorem wEval (E : Env K) (x : K) : (wModel : Synphot.Tree K).eval E x = .ok (2 * if 1 ≤ x ∧ x ≤ 5 then 1 else 0) := by
  have h1 : (3 : K) - 4 / 2 = 1 := by norm_num
  have h2 : (3 : K) + 4 / 2 = 5 := by norm_num
  simp only [wModel, Synphot.Tree.eval, flatTree, bandTree, Leaf.eval, BinOp.apply, bind, Except.bind, h1, h2]

theorem wHedge : ∀ e ∈ (wEdges : List K), e ∈ mergedGrid 0 wEdges wBs (some [2, 4]) := by
  intro e he
  apply mergedGrid_mem_of_thr 0 (le_refl _) _ _ _ e he
  simp only [wEdges, List.mem_cons, List.not_mem_nil, or_false] at he
  rcases he with rfl | rfl | rfl | rfl <;> norm_num

/-- the bins of the witness observation, with either integrator -/
theorem wBins (E : Env K) : ∃ b, initBins E 0 wModel wBs true = .ok b ∧ initBins E 0 wModel wBs false = .ok b ∧
    b.binset = wBs ∧ b.edges = wEdges ∧ b.spwave = mergedGrid 0 wEdges wBs (some [2, 4]) ∧
    sampleTree E wModel b.spwave = .ok b.flux := by
  have := initBins_succeeds E 0 wModel wBs wValid _ wWaveset (fun x _ => ⟨_, wEval E x⟩) wEdges
    (by rw [wAsc]; exact wBinEdges) (by rw [wAsc]; exact wHedge)
  rw [wAsc] at this
  exact this

theorem wBins_edges_on_grid (E : Env K) (useC : Bool) (b : Bins K) (h : initBins E 0 wModel wBs useC = .ok b) :
    b.binset = wBs ∧ b.edges = wEdges ∧ (∀ e ∈ b.edges, e ∈ b.spwave) ∧ sampleTree E wModel b.spwave = .ok b.flux := by
  obtain ⟨b', h1, h2, h3, h4, h5, h6⟩ := wBins E
  have : b = b' := by
    cases useC
    · rw [h2] at h; injection h with h; exact h.symm
    · rw [h1] at h; injection h with h; exact h.symm
  subst this
  refine ⟨h3, h4, ?_, h6⟩
  rw [h4, h5]; exact wHedge

/-- every unbinned sample of the witness lies between 0 and 2 -/
theorem wFluxBounds (E : Env K) (xs ys : List K) (h : sampleTree E wModel xs = .ok ys) :
    ∀ v ∈ ys, 0 ≤ v ∧ v ≤ 2 := by
  have := mapM_ok_mem _ xs ys h
  clear h
  induction this with
  | nil => intro v hv; simp at hv
  | cons hab _ ih =>
    intro v hv
    rcases List.mem_cons.mp hv with rfl | hv
    · rw [wEval] at hab; injection hab with hab; subst hab
      split_ifs <;> constructor <;> norm_num
    · exact ih v hv

theorem wAdmit (E : Env K) : obsAdmit E par (src 2) band .none = .ok (src 2, false) := by
  simp [obsAdmit, overlap_full, bind, Except.bind, pure, Except.pure]

/-- the witness observation itself -/
theorem wMkObs (E : Env K) (useC : Bool) : ∃ o, mkObs E par (src 2) band (some wBs) .none useC = .ok o ∧
    o.model = wModel ∧ o.bins.edges = wEdges ∧ (∀ e ∈ o.bins.edges, e ∈ o.bins.spwave) := by
  obtain ⟨b, h1, h2, _⟩ := wBins E
  have hb : initBins E (par : OverlapPar K).mergeThr wModel wBs useC = .ok b := by
    cases useC
    · exact h2
    · exact h1
  have hk1 : (src (2 : K)).kind = .source := rfl
  have hk2 : (band : Spec K).kind = .bandpass := rfl
  refine ⟨{ src := src 2, band := band, model := wModel, warned := false, bins := b }, ?_, rfl, ?_, ?_⟩
  · unfold mkObs
    simp only [hk1, hk2, wAdmit, src_model, band_model, wValid, bind, Except.bind, pure, Except.pure, ne_eq,
      not_true_eq_false, if_false]
    have : (Synphot.Tree.bin .mul (flatTree (2 : K)) bandTree) = wModel := rfl
    rw [this, hb]
  · exact (wBins_edges_on_grid E useC b hb).2.1
  · exact (wBins_edges_on_grid E useC b hb).2.2.1

/-- fixed bins for the sampling examples: centres 2, 4, 8 with binned fluxes 5, 6, 7 -/
def sBins : Bins K := ⟨[2, 4, 8], [1, 3, 6, 10], [5, 6, 7], [], [], [], []⟩

theorem sIdx_centre : clipIdx ([2, 4, 8] : List K) 4 = 1 := by
  have h1 : (2 : K) < 4 := by norm_num
  have h2 : ¬ ((4 : K) < 4) := lt_irrefl _
  simp [clipIdx, searchLeft, List.takeWhile, h1, h2]

theorem sIdx_between : clipIdx ([2, 4, 8] : List K) 3 = 1 := by
  have h1 : (2 : K) < 3 := by norm_num
  have h2 : ¬ ((4 : K) < 3) := by norm_num
  simp [clipIdx, searchLeft, List.takeWhile, h1, h2]

end Synphot.C07w
