"""C12  Analytic integration returns the true integral of the model.

The model classes are discovered at run time (synphot.models.__all__ and BaseSpectrum._model_param_dict);
which of them have an analytic form is the Lean model's own table (driver op c12_table).

Per case: one spectrum (model class x parameters x source/bandpass x native flux unit), one call of
``<spectrum>.integrate(wavelengths=x, integration_type=t, **keywords)`` under
``conf.default_integrator = c`` (set with ``conf.set_temp`` and checked to be restored); the keywords
are drawn from everything the method accepts (``flux_unit`` absent / None / PHOTLAM / FLAM by name or
unit / units it must refuse, plus keywords it forwards to ``__call__``), for models with and without
an analytic form.

* correspondence: value, unit class and integrator actually used vs the Lean model
  (``specIntegrate`` at K = Q); ``sp(x)`` vs the model's closed form of ``evaluate`` (``c12_eval``).
* oracle on the implementation alone: analytic value vs the closed form of the true integral
  (stable formulas, independent of the coded ones) in the documented unit; analytic vs trapezoid under
  three successive four-fold refinements (3126 .. 200001 points; error must fall, final relative error < 1e-6;
  box: at most step/width); NotImplementedError for Ricker partial ranges; fallback for models
  without ``integrate`` gives exactly (value, unit, exception class) what an explicit trapezoid request with
  the SAME keywords gives and never calls an ``integrate`` method; flux_unit refusals; unknown integration type rejected; configuration restored.
"""
import math
import warnings
from fractions import Fraction as F

from ..core import NP as np

from .. import core
from ..core import q, qs, guarded, same, unq

# physical constants as astropy (CODATA 2018) defines them, exact
H = F(662607015, 10 ** 35)                 # erg s
C = F(299792458) * 10 ** 10                # Angstrom / s
KB = F(1380649, 10 ** 22)                  # erg / K
JY = F(1, 10 ** 23)

# kinds of the Lean model (`AModel`); which of them have an analytic form is the MODEL's table
# (`AModel.hasIntegrate`, read through the driver op c12_table at the start of every run)
KINDS = ['box', 'const', 'gauss', 'gaussflux', 'lorentz', 'ricker', 'powerlaw', 'trapezoid', 'blackbody', 'blackbodynorm',
         'empirical', 'const1d', 'gaussabs', 'opaque', 'sum', 'redshift', 'scaled']
ANALYTIC = ['box', 'const', 'gauss', 'gaussflux', 'lorentz', 'ricker', 'powerlaw', 'trapezoid',
            'blackbody', 'blackbodynorm']
FALLBACK = ['empirical', 'const1d', 'gaussabs', 'opaque', 'sum', 'redshift', 'scaled']
STRUCTURAL = ['sum', 'redshift', 'scaled']          # built from spectra, not from a model class
# model class -> kind of the Lean model; a class that is not listed is the generic kind 'opaque'
# ("no analytic form expected unless listed": its samples are data, its integration must be trapezoid)
CLASS_KIND = {'BlackBody1D': 'blackbody', 'BlackBodyNorm1D': 'blackbodynorm', 'Box1D': 'box', 'ConstFlux1D': 'const',
              'Empirical1D': 'empirical', 'ExtinctionModel1D': 'empirical', 'Gaussian1D': 'gauss',
              'GaussianAbsorption1D': 'gaussabs', 'GaussianFlux1D': 'gaussflux', 'Lorentz1D': 'lorentz',
              'MexicanHat1D': 'ricker', 'RickerWavelet1D': 'ricker', 'PowerLawFlux1D': 'powerlaw',
              'Trapezoid1D': 'trapezoid', 'Const1D': 'const1d'}
SOURCE_ONLY = {'const', 'gaussflux', 'powerlaw', 'blackbody', 'blackbodynorm', 'sum', 'redshift'}
BANDPASS_ONLY = {'const1d'}
BANDPASS_ONLY_CLASSES = {'ExtinctionModel1D', 'Const1D'}
AMP_UNITS = ['photlam', 'flam', 'photnu', 'fnu', 'jy', 'mjy']
JY_SCALE = {'jy': F(1), 'mjy': F(1, 1000)}
LEVELS = [3126, 12501, 50001, 200001]      # three successive four-fold refinements (nested grids)
EPS = 2.0 ** -52
FCONV = {'box': 'x0', 'gauss': 'mean', 'gaussflux': 'mean', 'lorentz': 'x0', 'ricker': 'x0', 'trapezoid': 'x0'}
# the flux_unit keyword of the primary call: how it is passed -> class seen by the model
FU_CLASS = {'absent': 'absent', 'none_explicit': 'absent', 'photlam': 'photlam', 'PHOTLAM': 'photlam',
            'photlam_unit': 'photlam', 'flam': 'flam', 'FLAM': 'flam', 'flam_unit': 'flam', 'fnu': 'notwav',
            'jy_unit': 'notwav', 'count': 'notwav', 'angstrom_unit': 'notwav', 'foo': 'unparsable'}


def load_table():
    """the model's own table of analytic forms -> ANALYTIC / FALLBACK (in place)"""
    t = core.run_model([{'op': 'c12_table'}])[0]['ok']
    missing = [k for k in KINDS if k not in t]
    if missing:
        raise RuntimeError('Lean model has no kind(s) %s' % missing)
    ANALYTIC[:] = [k for k in KINDS if t[k]]
    FALLBACK[:] = [k for k in KINDS if not t[k]]
    return t


def resolve_class(name):
    import synphot.models as sm
    import synphot.reddening as sr
    from astropy.modeling import models as am
    for mod in (sm, sr, am):
        o = getattr(mod, name, None)
        if o is not None:
            return o
    return None


def discover_classes():
    """every model class a spectrum can be built on, read from the running package: the Model subclasses
    exported by synphot.models.__all__ and the keys of BaseSpectrum._model_param_dict"""
    import inspect
    import synphot.models as sm
    from astropy.modeling import Model
    from synphot.spectrum import BaseSpectrum
    names, unresolved = [], []
    for n in list(sm.__all__) + list(BaseSpectrum._model_param_dict):
        o = resolve_class(n)
        if o is None:
            unresolved.append(n)
        elif inspect.isclass(o) and issubclass(o, Model) and n not in names:
            names.append(n)
    return sorted(names), unresolved


def lat(rng, lo, hi, bits=4):
    """a value of the dyadic lattice 2^-bits in [lo, hi]"""
    s = 1 << bits
    return rng.randint(int(math.ceil(lo * s)), int(math.floor(hi * s))) / s


def consts():
    import astropy.units as u
    from astropy import constants as const
    st = (1 * u.ST).to(u.erg / u.cm ** 2 / u.s / u.AA).value
    ab = (1 * u.AB).to(u.erg / u.cm ** 2 / u.s / u.Hz).value
    omega = np.pi * (const.R_sun / const.kpc).value ** 2
    return {'h': q(H), 'c': q(C), 'st': q(st), 'ab': q(ab), 'jy': q(JY), 'kB': q(KB),
            'sigma': q(const.sigma_sb.value), 'omega': q(float(omega))}


def fl(x):
    return float(unq(x))


# ------------------------------------------------------------------ building the real object
def amp_quantity(a, unit):
    import astropy.units as u
    from synphot import units
    return a * {'photlam': units.PHOTLAM, 'flam': units.FLAM, 'photnu': units.PHOTNU, 'fnu': units.FNU,
                'jy': u.Jy, 'mjy': u.mJy, 'stmag': u.STmag, 'abmag': u.ABmag}[unit]


def call_kwargs(case):
    """the keyword options of the primary integrate call (and, identically, of its explicit-trapezoid twin)"""
    import astropy.units as u
    from synphot import units
    kw = {}
    fu = case.get('fu', 'absent')
    if fu != 'absent':
        kw['flux_unit'] = {'none_explicit': None, 'photlam': 'photlam', 'PHOTLAM': 'PHOTLAM', 'photlam_unit': units.PHOTLAM,
                           'flam': 'flam', 'FLAM': 'FLAM', 'flam_unit': units.FLAM, 'fnu': 'fnu', 'jy_unit': u.Jy,
                           'count': 'count', 'angstrom_unit': u.AA, 'foo': 'foo'}[fu]
    xk = case.get('xkw')
    if xk == 'area':
        kw['area'] = 5.0 * u.cm ** 2
    elif xk == 'bogus':
        kw['bogus'] = 5
    return kw


def fu_class(case):
    return FU_CLASS[case.get('fu', 'absent')]


def has_kw(case):
    return case.get('fu', 'absent') == 'none_explicit' or case.get('xkw') is not None


def build(desc, cls, z=None):
    from synphot import SourceSpectrum, SpectralElement, models, units
    from astropy.modeling.models import Const1D
    S = SourceSpectrum if cls == 'source' else SpectralElement
    if z is not None:
        def S(modelclass, **kw):
            return SourceSpectrum(modelclass, z=z, **kw)
    k = desc['kind']
    p = {n: fl(v) for n, v in desc.items() if n not in ('kind', 'unit', 'pts', 'vals', 'a', 'b', 'm', 'form', 'given', 'klass', 'params', 'xs', 'ys')
         and v is not None}
    if k == 'box':
        return S(models.Box1D, amplitude=p['amp'], x_0=p['x0'], width=p['width'])
    if k == 'gauss':
        return S(models.Gaussian1D, amplitude=p['amp'], mean=p['mean'], stddev=p['stddev'])
    if k == 'gaussflux':
        g = desc.get('given')
        if g:       # the documented (mean, fwhm, total_flux) form; amplitude / stddev are derived
            return S(models.GaussianFlux1D, mean=fl(g['mean']), fwhm=fl(g['fwhm']), total_flux=fl(g['total_flux']))
        amp = p['amp'] * units.PHOTLAM if desc.get('form') == 'quantity' else p['amp']
        return S(models.GaussianFlux1D, amplitude=amp, mean=p['mean'], stddev=p['stddev'])
    if k == 'lorentz':
        return S(models.Lorentz1D, amplitude=p['amp'], x_0=p['x0'], fwhm=p['fwhm'])
    if k == 'ricker':
        return S(resolve_class(desc.get('klass', 'RickerWavelet1D')), amplitude=p['amp'], x_0=p['x0'], sigma=p['sigma'])
    if k == 'gaussabs':
        return S(models.GaussianAbsorption1D, amplitude=p['amp'], mean=p['mean'], stddev=p['stddev'])
    if k == 'scaled':
        return build(desc['m'], cls) * p['k']
    if k == 'opaque':
        return S(resolve_class(desc['klass']), **{n: fl(v) for n, v in desc['params'].items()})
    if k == 'trapezoid':
        return S(models.Trapezoid1D, amplitude=p['amp'], x_0=p['x0'], width=p['width'], slope=p['slope'])
    if k == 'const':
        g = desc.get('given')
        if g:       # magnitude amplitude: converted to FLAM / FNU by the constructor
            return S(models.ConstFlux1D, amplitude=amp_quantity(fl(g['mag']), g['unit']))
        return S(models.ConstFlux1D, amplitude=amp_quantity(p['amp'], desc['unit']))
    if k == 'powerlaw':
        return S(models.PowerLawFlux1D, amplitude=amp_quantity(p['amp'], desc['unit']), x_0=p['x0'], alpha=p['alpha'])
    if k == 'blackbody':
        return S(models.BlackBody1D, temperature=p['temp'])
    if k == 'blackbodynorm':
        return S(models.BlackBodyNorm1D, temperature=p['temp'])
    if k == 'empirical':
        return S(resolve_class(desc.get('klass', 'Empirical1D')), points=[fl(v) for v in desc['pts']],
                 lookup_table=[fl(v) for v in desc['vals']])
    if k == 'const1d':
        return S(Const1D, amplitude=p['amp'])
    if k == 'sum':
        return build(desc['a'], cls) + build(desc['b'], cls)
    if k == 'redshift':
        return build(desc['m'], 'source', z=p['zp1'] - 1)
    raise KeyError(k)


# parameters that can be re-assigned on a live model: description key -> model attribute
ASSIGNABLE = {'box': {'amp': 'amplitude', 'x0': 'x_0', 'width': 'width'},
              'gauss': {'amp': 'amplitude', 'mean': 'mean', 'stddev': 'stddev'},
              'gaussflux': {'amp': 'amplitude', 'mean': 'mean', 'stddev': 'stddev'},
              'gaussabs': {'amp': 'amplitude', 'mean': 'mean', 'stddev': 'stddev'},
              'lorentz': {'amp': 'amplitude', 'x0': 'x_0', 'fwhm': 'fwhm'},
              'ricker': {'amp': 'amplitude', 'x0': 'x_0', 'sigma': 'sigma'},
              'trapezoid': {'amp': 'amplitude', 'x0': 'x_0', 'width': 'width', 'slope': 'slope'},
              'const': {'amp': 'amplitude'}, 'const1d': {'amp': 'amplitude'},
              'powerlaw': {'amp': 'amplitude', 'x0': 'x_0', 'alpha': 'alpha'},
              'blackbody': {'temp': 'temperature'}, 'blackbodynorm': {'temp': 'temperature'}}


def build_case(case):
    """the real object as it is when asked: built from the initial parameters of the case's history (if any),
    optionally integrated once, then re-assigned parameter by parameter (sp.model.<p> = v, sp.model.<p>.value = v,
    sp.z = z) to the FINAL values, which are the ones the model receives"""
    h = case.get('hist')
    if not h:
        return build(case['model'], case['cls'])
    d = case['model']
    sp = build(h['init'], case['cls'])
    if h.get('pre_call'):
        try:
            with warnings.catch_warnings():
                warnings.simplefilter('ignore')
                sp.integrate(wavelengths=np.array([fl(v) for v in case['x']]), integration_type=h['pre_call'])
        except Exception:  # noqa
            pass
    for key, mode in h['assign']:
        if key == 'zp1':
            sp.z = fl(d['zp1']) - 1
            continue
        attr = ASSIGNABLE[d['kind']][key]
        if mode == 'value':
            getattr(sp.model, attr).value = fl(d[key])
        else:
            setattr(sp.model, attr, fl(d[key]))
    return sp


def add_history(rng, case, lattice):
    """turn a case into a history: the final description stays, the initial one differs in the assigned parameters"""
    d = case['model']
    k = d['kind']
    if d.get('given') is not None:
        return
    if k == 'redshift':
        init = dict(d)
        init['zp1'] = q(rng.choice([z for z in (2.0, 4.0, 0.5, 0.25, 1.0) if z != fl(d['zp1'])]))
        case['hist'] = {'init': init, 'assign': [['zp1', 'attr']], 'pre_call': rng.choice([None, 'trapezoid', 'analytical'])}
        return
    if k not in ASSIGNABLE:
        return
    other = gen_model(rng, k, case['cls'], lattice)
    keys = [x for x in ASSIGNABLE[k] if x in d and other.get(x) is not None]
    if not keys:
        return
    rng.shuffle(keys)
    chosen = keys[:rng.randint(1, len(keys))]
    init = dict(d)
    for x in chosen:
        init[x] = other[x]
    init.pop('form', None)
    case['hist'] = {'init': init, 'assign': [[x, rng.choice(['attr', 'value'])] for x in chosen],
                    'pre_call': rng.choice([None, None, 'trapezoid', 'analytical'])}


def unit_class(r):
    import astropy.units as u
    if not isinstance(r, u.Quantity):
        return 'raw:' + type(r).__name__
    if r.unit == u.AA:
        return 'length'
    if r.unit == u.photon / (u.cm ** 2 * u.s):
        return 'photon'
    if r.unit == u.erg / (u.cm ** 2 * u.s):
        return 'energy'
    return 'raw'


def integrate_call(sp, x, itype, conf_value, extra_kw=None):
    """sp.integrate under conf.default_integrator = conf_value; observes which integrator ran"""
    from synphot import conf
    calls = []
    m = sp.model
    if hasattr(m, 'integrate'):
        orig = m.integrate

        def wrapped(*a, **k):
            calls.append(1)
            return orig(*a, **k)
        m.integrate = wrapped
    kw = dict(extra_kw or {})
    if itype is not None:
        kw['integration_type'] = itype
    before = conf.default_integrator
    try:
        with conf.set_temp('default_integrator', conf_value):
            r = sp.integrate(wavelengths=np.array(x, dtype=float), **kw)
    finally:
        after = conf.default_integrator
        if hasattr(m, 'integrate'):
            try:
                del m.integrate
            except AttributeError:
                pass
    return r, ('analytical' if calls else 'trapezoid'), before == after


def refine_grids(case):
    g = case['grid']
    lo, hi = fl(g['lo']), fl(g['hi'])
    for n in LEVELS:
        yield n, (np.geomspace(lo, hi, n) if g['geom'] else np.linspace(lo, hi, n))


def impl_call(case):
    op = case['op']
    if op == 'eval':
        def f():
            sp = build_case(case)
            return sp(np.array([fl(v) for v in case['x']])).value
        return guarded(f)
    x = [fl(v) for v in case['x']]
    box = {}

    def f():
        sp = build_case(case)
        box['sp'] = sp
        r, path, restored = integrate_call(sp, x, case['itype'], case['conf'], call_kwargs(case))
        box['restored'] = restored
        return {'value': float(r.value), 'unit': unit_class(r), 'path': path}
    out = guarded(f)
    extra = {'restored': box.get('restored', True)}
    sp = box.get('sp')
    if sp is not None and case.get('twin'):
        # the same request as an explicit trapezoid call (fallback must be this very computation)
        def twin():
            r = integrate_call(sp, x, 'trapezoid', case['conf'], call_kwargs(case))[0]
            return {'value': float(r.value), 'unit': unit_class(r)}
        extra['twin'] = guarded(twin)
    if sp is not None and case.get('grid') and 'ok' in out:
        kw = {'flux_unit': 'flam'} if out['ok']['unit'] == 'energy' else {}

        def trap():
            return [float(integrate_call(sp, g, 'trapezoid', 'trapezoid', kw)[0].value)
                    for _, g in refine_grids(case)]
        extra['trap'] = guarded(trap)
    out['extra'] = extra
    return out


# ------------------------------------------------------------------ model lines
def model_desc(desc):
    d = {k: v for k, v in desc.items() if k not in ('form', 'given', 'klass', 'params')}
    if 'unit' in d:
        d['unit'] = {'jy': q(JY_SCALE[d['unit']])} if d['unit'] in JY_SCALE else d['unit']
    if d['kind'] == 'sum':
        d['a'], d['b'] = model_desc(d['a']), model_desc(d['b'])
    if d['kind'] in ('redshift', 'scaled'):
        d['m'] = model_desc(d['m'])
    return d


def model_case(case):
    if case['op'] == 'eval':
        return {'op': 'c12_eval', 'const': case['_const'], 'model': model_desc(case['model']), 'x': case['x']}
    return {'op': 'c12_integrate', 'const': case['_const'], 'unitless': case['cls'] == 'bandpass',
            'model': model_desc(case['model']), 'x': case['x'], 'itype': case['itype'], 'conf': case['conf'],
            'fu': fu_class(case), 'kw': has_kw(case)}


# ------------------------------------------------------------------ closed forms of the true integrals (oracle)
def limits(case):
    x = [fl(v) for v in case['x']]
    return min(x), max(x)


def ricker_F(t, x0, s):
    d = t - x0
    return d * math.exp(-d * d / (2 * s * s))


def true_integral(case):
    """(value, unit class, absolute rounding allowance) of the integral the statement promises"""
    d = case['model']
    k = d['kind']
    src = case['cls'] == 'source'
    lenu = 'photon' if src else 'length'
    a, b = limits(case)
    if k == 'box':
        return fl(d['amp']) * fl(d['width']), lenu, 0.0
    if k in ('gauss', 'gaussflux'):
        return fl(d['amp']) * fl(d['stddev']) * math.sqrt(2 * math.pi), lenu, 0.0
    if k == 'trapezoid':
        amp = fl(d['amp'])
        return amp * (fl(d['width']) + amp / fl(d['slope'])), lenu, 0.0
    if k == 'lorentz':
        amp, x0, g = fl(d['amp']), fl(d['x0']), fl(d['fwhm']) / 2
        ua, ub = (a - x0) / g, (b - x0) / g
        return amp * g * math.atan2(ub - ua, 1 + ua * ub), lenu, 8 * EPS * math.pi * amp * g
    if k == 'ricker':
        amp, x0, s = fl(d['amp']), fl(d['x0']), fl(d['sigma'])
        rl, rr = x0 - s, x0 + s
        v = (abs(ricker_F(rl, x0, s) - ricker_F(a, x0, s)) + abs(ricker_F(rr, x0, s) - ricker_F(rl, x0, s))
             + abs(ricker_F(b, x0, s) - ricker_F(rr, x0, s)))
        return amp * v, lenu, 16 * EPS * amp * s
    if k == 'const':
        amp, un = fl(d['amp']), d['unit']
        if un in ('photlam', 'flam'):
            return amp * (b - a), 'photon' if un == 'photlam' else 'energy', 0.0
        c = float(C)
        dnu = c * (b - a) / (a * b)                         # c/a - c/b without cancellation
        scale = float(JY_SCALE[un] * JY) if un in JY_SCALE else 1.0
        return amp * dnu * scale, 'photon' if un == 'photnu' else 'energy', 8 * EPS * amp * scale * c / a
    if k == 'powerlaw':
        amp, x0, al, un = fl(d['amp']), fl(d['x0']), fl(d['alpha']), d['unit']
        if un in ('photlam', 'flam'):
            # a x0^alpha int t^-alpha dt = a x0 (a/x0)^f expm1(f ln(b/a)) / f, f = 1 - alpha
            f = 1 - al
            L = math.log(b / a)
            core_ = L if f == 0 else math.expm1(f * L) / f
            v = amp * x0 * (a / x0) ** f * core_
            cond = (abs((b / x0) ** f) + abs((a / x0) ** f)) * amp * x0 / max(abs(f), 1e-300)
            return v, 'photon' if un == 'photlam' else 'energy', 8 * EPS * cond
        # per-frequency amplitude: int F_nu dnu over the frequencies of the limits
        c = float(C)
        f = -al - 1
        L = math.log(b / a)
        core_ = L if f == 0 else math.expm1(f * L) / f
        scale = float(JY_SCALE[un] * JY) if un in JY_SCALE else 1.0
        v = amp * scale * c / x0 * (a / x0) ** f * core_
        cond = (abs((b / x0) ** f) + abs((a / x0) ** f)) * amp * scale * c / x0 / max(abs(f), 1e-300)
        return v, 'photon' if un == 'photnu' else 'energy', 1e-12 * abs(v) + (8 * EPS * cond if f != 0 else 0.0)
    if k in ('blackbody', 'blackbodynorm'):
        h, c_cm, kb = float(H), float(C) * 1e-8, float(KB)
        sigma = 2 * math.pi ** 5 * kb ** 4 / (15 * h ** 3 * c_cm ** 2)      # erg s-1 cm-2 K-4
        v = sigma * fl(d['temp']) ** 4 / math.pi
        if k == 'blackbodynorm':
            v *= fl(case['_const']['omega'])
        return v, 'energy', 0.0
    raise KeyError(k)


def expected_path(case):
    """the statement's rule: (path, error)"""
    t = case['itype'] if case['itype'] is not None else case['conf']
    if t == 'analytical' and case['model']['kind'] in FALLBACK:
        t = 'trapezoid'
    if t in ('trapezoid', 'analytical'):
        return t, None
    return None, 'NotImplementedError'


def ricker_partial(case):
    d = case['model']
    a, b = limits(case)
    x0, s = fl(d['x0']), fl(d['sigma'])
    return a >= x0 - s or b <= x0 + s


def finding_class(case):
    """condition class of the three F3 defects repaired by 8100520 / 483eba1 (computed from the case, never from
    the outcome); kept so that a regression reproduces the recorded signatures"""
    d = case['model']
    if d['kind'] == 'powerlaw' and d['unit'] not in ('photlam', 'flam'):
        return 'powerlaw:per-Hz amplitude'
    if d['kind'] == 'powerlaw' and fl(d['alpha']) == 1.0:
        return 'powerlaw:alpha=1'
    if d['kind'] == 'const' and d['unit'] == 'photnu':
        return 'const:per-Hz photon amplitude (PHOTNU)'
    return None


def oracle(rep, case, out):
    if case['op'] != 'integrate' or case.get('bad_wave'):
        return
    kind = case['model']['kind']
    extra = out.get('extra', {})
    if not extra.get('restored', True):
        rep.oracle_fail('integrate:conf:not restored', 'conf.default_integrator differs after the call', case, out)
    fuc, ul, kwp = fu_class(case), case['cls'] == 'bandpass', has_kw(case)
    # --- the flux_unit keyword is checked before anything else
    if fuc != 'absent' and (ul or fuc in ('notwav', 'unparsable')):
        want = 'SynphotError' if (ul or fuc == 'notwav') else None          # unparsable: any exception
        if 'err' not in out or (want and out['err'] != want):
            rep.oracle_fail('integrate:flux_unit:%s:%s' % ('unitless' if ul else fuc, out.get('err', 'returned')),
                            'flux_unit=%r on a %s was not refused%s' % (case.get('fu'), case['cls'],
                                                                       ' with SynphotError' if want else ''), case, out)
        return
    path, err = expected_path(case)
    if err:
        if out.get('err') != err:
            rep.oracle_fail('integrate:unknown type:%s' % out.get('err', 'returned'),
                            'integration_type=%r was not rejected with NotImplementedError' % case['itype'], case, out)
        return
    if path == 'trapezoid':
        # the fallback is the very computation of an explicit trapezoid request with the same keywords:
        # same exception class, or bit-identical value in the same unit
        if case.get('twin'):
            tw = extra.get('twin', {})
            same_out = (tw.get('err') == out['err']) if 'err' in out else \
                ('ok' in tw and tw['ok']['value'] == out['ok']['value'] and tw['ok']['unit'] == out['ok']['unit'])
            if not same_out:
                rep.oracle_fail('integrate:%s:fallback:differs from trapezoid' % kind,
                                'fallback gave %s, the explicit trapezoid request with the same keywords %r gives %s' % (
                                    {k: v for k, v in out.items() if k in ('ok', 'err')}, sorted(call_kwargs(case)), tw),
                                case, out)
                return
        if ul and kwp:
            return          # a unitless spectrum cannot be sampled with keywords (TypeError); covered by the model
        if 'err' in out:
            rep.oracle_fail('integrate:%s:trapezoid:%s' % (kind, out['err']), 'trapezoid integration failed: %s' % out, case, out)
            return
        if out['ok']['path'] != 'trapezoid':
            rep.oracle_fail('integrate:%s:dispatch:analytical ran' % kind,
                            'the analytic integrator ran although trapezoid was selected', case, out)
        want_unit = 'length' if ul else 'energy' if fuc == 'flam' else 'photon'
        if out['ok']['unit'] != want_unit:
            rep.oracle_fail('integrate:%s:trapezoid:unit:%s' % (kind, out['ok']['unit']),
                            'trapezoid result in unit class %s, documented %s for flux_unit=%r' % (
                                out['ok']['unit'], want_unit, case.get('fu', 'absent')), case, out)
        return
    # analytical
    if kind == 'ricker' and ricker_partial(case):
        if out.get('err') != 'NotImplementedError':
            rep.oracle_fail('integrate:ricker:partial range:%s' % out.get('err', 'returned'),
                            'a range that does not contain both roots was not refused', case, out)
        return
    fc = finding_class(case)
    if 'err' in out:
        rep.oracle_fail('integrate:%s:%s' % (fc or kind + ':valid input', out['err']),
                        'analytic integration of a valid model raised / produced %s: %s' % (out['err'], out.get('msg', '')),
                        case, out)
        return
    o = out['ok']
    if o['path'] != 'analytical':
        rep.oracle_fail('integrate:%s:dispatch:trapezoid ran' % kind,
                        'the model has integrate() and analytical was selected but it was not called', case, out)
        return
    v, unit, atol = true_integral(case)
    if fuc != 'absent':
        # an explicit flux_unit: the code converts the analytic result only for the model classes that have a
        # reference wavelength (x hc/lambda_ref for FLAM); for the others it is documented as not convertible
        if kind not in FCONV or case['cls'] != 'source':
            return
        if fuc == 'flam':
            fac = float(H * C) / fl(case['model'][FCONV[kind]])
            v, unit, atol = v * fac, 'energy', atol * fac
    if o['unit'] != unit:
        rep.oracle_fail('integrate:%s:unit:%s' % (fc or kind, o['unit']),
                        'result unit class %s, documented %s' % (o['unit'], unit), case, out)
        return
    if not abs(o['value'] - v) <= 1e-9 * abs(v) + atol:
        rep.oracle_fail('integrate:%s:value' % (fc or kind),
                        'analytic result %r, true integral %r' % (o['value'], v), case, out)
        return
    if case.get('grid') and fuc == 'absent':
        tr = extra.get('trap', {})
        if 'err' in tr:
            rep.oracle_fail('integrate:%s:refinement:%s' % (kind, tr['err']), 'trapezoid on the refinement grids failed: %s' % tr,
                            case, out)
            return
        an = o['value']
        if an == 0:
            return
        errs = [abs(t - an) / abs(an) for t in tr['ok']]
        g = case['grid']
        if kind == 'box':
            # discontinuous profile: each edge costs at most half a step
            bounds = [(fl(g['hi']) - fl(g['lo'])) / (n - 1) / fl(case['model']['width']) for n in LEVELS]
            if any(e > bd * (1 + 1e-9) + 1e-12 for e, bd in zip(errs, bounds)):
                rep.oracle_fail('integrate:box:refinement:beyond step/width',
                                'trapezoid errors %r exceed step/width %r' % (errs, bounds), case, out)
            return
        # below 1e-8 (two decades under the acceptance threshold) differences are dominated by what does not
        # depend on the step: rounding of the analytic formula and of the sum, the truncated Planck tails
        floor = 1e-8 + atol / abs(v)
        hs = [(fl(g['hi']) - fl(g['lo'])) / (n - 1) for n in LEVELS]
        if errs[-1] >= 1e-6:
            rep.oracle_fail('integrate:%s:refinement:not converged' % kind,
                            'relative difference analytic vs trapezoid on %d points is %r (levels: %r)' % (LEVELS[-1], errs[-1], errs),
                            case, out)
        elif kind in ('trapezoid', 'ricker'):
            # kinked integrand (knots of the trapezoid; |y| at the Ricker roots): the error is a signed sum of
            # O(h^2) kink terms that may cancel by accident on one grid, so each level is checked against the
            # a-priori envelope C h^2 (which falls 16-fold per refinement) instead of against the previous level
            d = case['model']
            if kind == 'trapezoid':
                r = fl(d['amp']) / fl(d['slope'])
                env = [h * h / (2 * r * (fl(d['width']) + r)) for h in hs]      # 4 kinks, slope jump s, <= s h^2/8 each
            else:
                env = [1.5 * (h / fl(d['sigma'])) ** 2 for h in hs]
            if any(e > bd + floor for e, bd in zip(errs, env)):
                rep.oracle_fail('integrate:%s:refinement:error does not fall' % kind,
                                'relative errors %r exceed the O(h^2) envelope %r' % (errs, env), case, out)
        elif any(e1 > max(e0, floor) for e0, e1 in zip(errs, errs[1:])):
            rep.oracle_fail('integrate:%s:refinement:error does not fall' % kind,
                            'relative errors %r under successive four-fold refinement' % errs, case, out)


# ------------------------------------------------------------------ generators
def gen_amp(rng, source):
    r = rng.random()
    if r < 0.04:
        return 0.0
    if source:
        return 10 ** rng.uniform(-22, 6)
    return 10 ** rng.uniform(-6, 1) if r < 0.8 else rng.uniform(0, 1)


def pow2_amp(rng, source):
    return 2.0 ** rng.randint(-70, 20) if source else 2.0 ** rng.randint(-20, 3)


def gen_model(rng, kind, cls, lattice):
    """(description, info) — lattice: every parameter that feeds a comparison is dyadic"""
    src = cls == 'source'
    if kind == 'box':
        if lattice:
            w = lat(rng, 1, 400)
            x0 = lat(rng, w / 2 + 50, 60000, 3)
            amp = lat(rng, 0, 4) * pow2_amp(rng, src)
        else:
            x0 = 10 ** rng.uniform(2.3, 5)
            w = x0 * 10 ** rng.uniform(-4, -0.4)
            amp = gen_amp(rng, src)
        return {'kind': 'box', 'amp': q(amp), 'x0': q(x0), 'width': q(w)}
    if kind == 'trapezoid':
        if lattice:
            w = lat(rng, 0, 300)
            d = lat(rng, 0.0625, 200)              # ramp length amp/slope
            slope = 2.0 ** rng.randint(-60, 10) if src else 2.0 ** rng.randint(-12, 0)
            amp = d * slope
            x0 = lat(rng, w / 2 + d + 50, 60000, 3)
        else:
            x0 = 10 ** rng.uniform(2.3, 5)
            w = x0 * 10 ** rng.uniform(-4, -0.7)
            amp = gen_amp(rng, src)
            ramp = x0 * 10 ** rng.uniform(-4, -0.7)
            slope = (amp if amp > 0 else 1.0) / ramp
        return {'kind': 'trapezoid', 'amp': q(amp), 'x0': q(x0), 'width': q(w), 'slope': q(slope)}
    if kind in ('gauss', 'gaussflux'):
        mean = 10 ** rng.uniform(2.3, 5)
        sd = mean * 10 ** rng.uniform(-4.5, -1.4)
        d = {'kind': kind, 'amp': q(gen_amp(rng, src)), 'mean': q(mean), 'stddev': q(sd)}
        if kind == 'gaussflux':
            r = rng.random()
            if r < 0.3:
                d['form'] = 'quantity'
            elif r < 0.5:
                d['given'] = {'mean': q(mean), 'fwhm': q(sd * 2.3548), 'total_flux': q(10 ** rng.uniform(-18, -8))}
        return d
    if kind == 'lorentz':
        x0 = 10 ** rng.uniform(2.3, 5)
        return {'kind': 'lorentz', 'amp': q(gen_amp(rng, src)), 'x0': q(x0), 'fwhm': q(x0 * 10 ** rng.uniform(-4.5, -1))}
    if kind == 'ricker':
        s = lat(rng, 0.25, 300)
        x0 = lat(rng, 45 * s + 10, 45 * s + 60000, 3)
        return {'kind': 'ricker', 'amp': q(gen_amp(rng, src)), 'x0': q(x0), 'sigma': q(s)}
    if kind == 'const':
        unit = rng.choice(AMP_UNITS + ['stmag', 'abmag'])
        if unit in ('stmag', 'abmag'):
            return {'kind': 'const', 'amp': None, 'unit': 'flam' if unit == 'stmag' else 'fnu',
                    'given': {'mag': q(rng.uniform(-5, 30)), 'unit': unit}}
        return {'kind': 'const', 'amp': q(gen_amp(rng, True)), 'unit': unit}
    if kind == 'powerlaw':
        unit = rng.choice(AMP_UNITS if rng.random() < 0.45 else ['photlam', 'flam'])
        sing = 1.0 if unit in ('photlam', 'flam') else -1.0      # where the closed form is a logarithm
        r = rng.random()
        if r < 0.2:
            al = sing
        elif r < 0.4:                                   # the neighbourhood of the singular index
            al = sing + rng.choice([-1, 1]) * 2.0 ** -rng.randint(2, 20)
        elif r < 0.5:
            al = float(rng.randint(-4, 6))
        else:
            al = rng.uniform(-4, 6)
        return {'kind': 'powerlaw', 'amp': q(gen_amp(rng, True)), 'x0': q(10 ** rng.uniform(2, 5)), 'alpha': q(al),
                'unit': unit}
    if kind in ('blackbody', 'blackbodynorm'):
        return {'kind': kind, 'temp': q(10 ** rng.uniform(1.5, 5.5))}
    if kind == 'empirical':
        n = rng.randint(2, 7)
        pts = sorted({lat(rng, 500, 20000, 2) for _ in range(n + 2)})[:n]
        if len(pts) < 2:
            pts = [1000.0, 2000.0]
        vals = [lat(rng, 0, 8) * (pow2_amp(rng, src)) for _ in pts]
        return {'kind': 'empirical', 'pts': qs(pts), 'vals': qs(vals)}
    if kind == 'const1d':
        return {'kind': 'const1d', 'amp': q(lat(rng, 0, 2, 6))}
    if kind == 'gaussabs':
        mean = 10 ** rng.uniform(2.3, 5)
        return {'kind': 'gaussabs', 'amp': q(rng.uniform(0, 1) if rng.random() < 0.8 else gen_amp(rng, src)), 'mean': q(mean),
                'stddev': q(mean * 10 ** rng.uniform(-4.5, -1.4))}
    if kind == 'scaled':
        return {'kind': 'scaled', 'k': q(2.0 ** rng.randint(-6, 6) * rng.choice([1, 3, 5])),
                'm': gen_model(rng, rng.choice(['box', 'gauss', 'lorentz', 'trapezoid']), cls, True)}
    if kind == 'redshift':
        # 1 + z a power of two: the rest-frame wavelength x/(1+z) is exact
        return {'kind': 'redshift', 'zp1': q(rng.choice([2.0, 4.0, 0.5, 0.25])),
                'm': gen_model(rng, rng.choice(['box', 'gauss', 'lorentz', 'trapezoid']), 'source', True)}
    if kind == 'sum':
        return {'kind': 'sum', 'a': gen_model(rng, 'box', cls, True), 'b': gen_model(rng, rng.choice(['gauss', 'lorentz', 'box']), cls, True)}
    raise KeyError(kind)


def profile_range(rng, d):
    """limits that contain the whole profile (margin included), and whether a geometric grid is used"""
    k = d['kind']
    if k == 'box':
        x0, w = fl(d['x0']), fl(d['width'])
        m = w * rng.uniform(0.05, 1.0)
        return max(x0 - w / 2 - m, x0 * 1e-3), x0 + w / 2 + m, False
    if k == 'trapezoid':
        x0, w = fl(d['x0']), fl(d['width'])
        r = fl(d['amp']) / fl(d['slope'])
        m = (w + 2 * r) * rng.uniform(0.05, 0.5)
        return max(x0 - w / 2 - r - m, x0 * 1e-3), x0 + w / 2 + r + m, False
    if k in ('gauss', 'gaussflux'):
        n = rng.uniform(9, 14)
        return fl(d['mean']) - n * fl(d['stddev']), fl(d['mean']) + n * fl(d['stddev']), False
    if k in ('blackbody', 'blackbodynorm'):
        lam_t = float(H * C / KB) / fl(d['temp'])          # hc/kT in Angstrom
        return lam_t / rng.uniform(55, 80), lam_t / rng.uniform(0.002, 0.004), True
    raise KeyError(k)


FAMILIES = ['left_wing', 'right_wing', 'close_sym', 'close_sym', 'close_asym', 'close_asym', 'wide', 'on_centre', 'on_edge',
            'far_out']


def placed_limits(rng, c, w, edge, family, snap=None):
    """integration limits placed deliberately relative to a feature with centre c, width scale w and an
    edge / root / half-width at c +- edge.  snap: optional function putting a free position on a dyadic lattice
    (positions that are exact by construction - centre, edge, c +- w/2^k - are never snapped)"""
    sn = snap or (lambda t: t)
    if family == 'left_wing':
        b = sn(c - edge - w * 10 ** rng.uniform(-1.5, 1.3))
        a = sn(b - w * 10 ** rng.uniform(-1, 2))
    elif family == 'right_wing':
        a = sn(c + edge + w * 10 ** rng.uniform(-1.5, 1.3))
        b = sn(a + w * 10 ** rng.uniform(-1, 2))
    elif family == 'close_sym':
        f = 2.0 ** -rng.randint(1, 6)
        a, b = c - f * w, c + f * w
    elif family == 'close_asym':
        k1 = rng.randint(1, 6)
        k2 = rng.choice([k for k in range(1, 7) if k != k1])
        a, b = c - 2.0 ** -k1 * w, c + 2.0 ** -k2 * w
    elif family == 'wide':
        a, b = sn(c - w * 10 ** rng.uniform(0.5, 2)), sn(c + w * 10 ** rng.uniform(0.5, 2))
    elif family == 'on_centre':
        d = w * 10 ** rng.uniform(-1.5, 2)
        a, b = (c, sn(c + d)) if rng.random() < 0.5 else (sn(c - d), c)
    elif family == 'on_edge':
        d = w * 10 ** rng.uniform(-1.5, 2)
        side = rng.choice([-1, 1])
        e = c + side * edge
        other = sn(e + rng.choice([-1, 1]) * d)
        a, b = min(e, other), max(e, other)
    else:                                               # far_out: a thousand widths
        a, b = sn(c - 1e3 * w * rng.uniform(0.5, 1)), sn(c + 1e3 * w * rng.uniform(0.5, 1))
    lo = c * 2.0 ** -10                                 # wavelengths stay positive
    b = max(b, 2 * lo)
    a = max(a, lo)
    if b <= a:
        b = a * (1 + 2.0 ** -20)
    return a, b


def gen_limits(rng, d, want_partial=False, family=None):
    """requested limits, one of FAMILIES placed relative to the feature; (a, b, geometric grid?)"""
    k = d['kind']
    family = family or rng.choice(FAMILIES)
    if k == 'lorentz':
        x0, f = fl(d['x0']), fl(d['fwhm'])
        a, b = placed_limits(rng, x0, f, f / 2, family)
        return a, b, False
    if k == 'ricker':
        # parameters and limits on a dyadic lattice: the refusal guard compares them exactly
        x0, s = fl(d['x0']), fl(d['sigma'])
        a, b = placed_limits(rng, x0, s, s, family, snap=lambda t: math.floor(t * 16) / 16)
        return a, b, False
    if k in ('const', 'powerlaw'):
        x0 = fl(d['x0']) if k == 'powerlaw' else 10 ** rng.uniform(2, 5)
        a, b = placed_limits(rng, x0, x0 / 8, x0 / 16, family)
        if b / a > 1e4:
            a = b / 1e4
        return a, b, True
    if k in ('gauss', 'gaussflux'):
        a, b = placed_limits(rng, fl(d['mean']), fl(d['stddev']), fl(d['stddev']), family)
        return a, b, False
    if k == 'box':
        a, b = placed_limits(rng, fl(d['x0']), max(fl(d['width']), 2.0 ** -4), fl(d['width']) / 2, family)
        return a, b, False
    if k == 'trapezoid':
        w = fl(d['width']) + 2 * fl(d['amp']) / fl(d['slope'])
        a, b = placed_limits(rng, fl(d['x0']), max(w, 2.0 ** -4), fl(d['width']) / 2, family)
        return a, b, False
    raise KeyError(k)


def x_array(rng, a, b, n_extra=None):
    """a wavelength array whose extremes are a and b (ascending or descending, extra interior points)"""
    n = rng.choice([0, 0, 1, 3]) if n_extra is None else n_extra
    inner = sorted({a + (b - a) * rng.uniform(0.01, 0.99) for _ in range(n)})
    inner = [t for t in inner if a < t < b]
    x = [a] + inner + [b]
    if rng.random() < 0.25:
        x = x[::-1]
    return x


def lattice_grid(rng, lo, hi, n):
    pts = sorted({lat(rng, lo, hi, 4) for _ in range(n)})
    return pts if len(pts) >= 2 else [lo, hi]


def small_grid(rng, d):
    """a coarse grid for the trapezoid path / evaluate correspondence (decision-free: lattice points for
    the piecewise models, arbitrary points for the smooth ones)"""
    k = d['kind']
    n = rng.randint(2, 14)
    if k == 'box':
        x0, w = fl(d['x0']), fl(d['width'])
        pts = set(lattice_grid(rng, max(x0 - w, 1), x0 + w, n)) | ({x0 - w / 2, x0 + w / 2} if rng.random() < 0.5 else set())
        return sorted(pts)
    if k == 'trapezoid':
        x0, w, r = fl(d['x0']), fl(d['width']), fl(d['amp']) / fl(d['slope'])
        knots = {x0 - w / 2 - r, x0 - w / 2, x0 + w / 2, x0 + w / 2 + r}
        pts = set(lattice_grid(rng, max(x0 - w - 2 * r, 1), x0 + w + 2 * r, n)) | (knots if rng.random() < 0.5 else set())
        return sorted(pts)
    if k == 'empirical':
        p = [fl(v) for v in d['pts']]
        pts = set(lattice_grid(rng, max(p[0] - 200, 1), p[-1] + 200, n)) | (set(p) if rng.random() < 0.5 else set())
        return sorted(pts)
    if k == 'redshift':
        return sorted({t * fl(d['zp1']) for t in small_grid(rng, d['m'])})
    if k == 'scaled':
        return small_grid(rng, d['m'])
    if k == 'opaque':
        return sorted({10 ** rng.uniform(2.5, 4.5) for _ in range(n)} | {1000.0, 9000.0})
    if k == 'sum':
        return sorted(set(small_grid(rng, d['a'])) | set(small_grid(rng, d['b'])))
    if k == 'const1d':
        return lattice_grid(rng, 100, 50000, n)
    if k in ('gauss', 'gaussflux', 'gaussabs'):
        c, s = fl(d['mean']), fl(d['stddev'])
    elif k == 'lorentz':
        c, s = fl(d['x0']), fl(d['fwhm'])
    elif k == 'ricker':
        c, s = fl(d['x0']), fl(d['sigma'])
    elif k in ('blackbody', 'blackbodynorm'):
        lam_t = float(H * C / KB) / fl(d['temp'])
        return sorted({lam_t * 10 ** rng.uniform(-1.6, 2) for _ in range(n)})
    else:
        a = 10 ** rng.uniform(1.5, 6)
        return sorted({a * (1 + 10 ** rng.uniform(-3, 1.5)) for _ in range(n)} | {a})
    return sorted({c + s * rng.uniform(-8, 8) for _ in range(n)})


def finish_desc(case):
    """parameters the constructor derives (magnitude amplitude, total_flux form) are read back from the
    real object: their derivation is C01's / C15's subject, the model receives them as data"""
    d = case['model']
    if d.get('given') is not None and (d.get('amp') is None or d['kind'] == 'gaussflux'):
        sp = build(d, case['cls'])
        d['amp'] = q(float(sp.model.amplitude.value))
        if d['kind'] == 'gaussflux':
            d['stddev'] = q(float(sp.model.stddev.value))
            d['mean'] = q(float(sp.model.mean.value))
    if d['kind'] == 'sum':
        pass


def gen_opaque(rng, klass):
    """a model class the Lean model has no closed form for: built from its own parameter defaults"""
    c = resolve_class(klass)
    params = {}
    for pn in c.param_names:
        dflt = getattr(c, pn).default
        v = 1.0 if dflt is None else float(dflt)
        if pn == 'amplitude':
            v *= 2.0 ** rng.randint(-3, 3)
        elif pn.startswith('x_'):
            v = lat(rng, 1000, 8000, 2)
        params[pn] = q(v)
    return {'kind': 'opaque', 'klass': klass, 'params': params, 'xs': [], 'ys': []}


def fill_opaque(case):
    """the samples of an opaque model at the requested wavelengths are data for the model"""
    d = case['model']
    if d['kind'] != 'opaque':
        return True
    sp = build(d, case['cls'])
    r = guarded(lambda: sp(np.array([fl(v) for v in case['x']])).value)
    if 'ok' in r:
        d['xs'], d['ys'] = list(case['x']), qs(r['ok'])
        return True
    return bool(case.get('bad_wave'))


def make_case(rng, kind, K, refine_p, klass=None):
    cls = 'source' if kind in SOURCE_ONLY else 'bandpass' if (kind in BANDPASS_ONLY or klass in BANDPASS_ONLY_CLASSES) \
        else rng.choice(['source', 'bandpass'])
    conf = rng.choice(['trapezoid', 'analytical'])
    r = rng.random()
    itype = 'analytical' if r < 0.55 else None if r < 0.75 else 'trapezoid' if r < 0.87 else \
        rng.choice(['simpson', 'Analytical', 'TRAPEZOID', '', 'analytic', 'trapz', 'romberg'])
    path, err = expected_path({'itype': itype, 'conf': conf, 'model': {'kind': kind}})
    analytic = path == 'analytical'
    lattice = (not analytic) or kind in FALLBACK or kind == 'ricker' or rng.random() < 0.3
    d = gen_opaque(rng, klass) if kind == 'opaque' else gen_model(rng, kind, cls, lattice)
    if klass is not None:
        d['klass'] = klass
    case = {'op': 'integrate', 'cls': cls, 'model': d, 'itype': itype, 'conf': conf, '_const': K}
    finish_desc(case)
    # keyword options of the call: everything integrate() accepts (flux_unit in every spelling, keywords it
    # forwards to __call__ / convert_flux); about half of the cases stay keyword-free (native units)
    if rng.random() < (0.7 if kind in FALLBACK else 0.45):
        if cls == 'source':
            case['fu'] = rng.choice(['flam', 'flam', 'flam_unit', 'FLAM', 'photlam', 'PHOTLAM', 'photlam_unit', 'fnu', 'jy_unit',
                                     'count', 'angstrom_unit', 'foo', 'none_explicit', 'absent'])
            case['xkw'] = rng.choice([None, None, None, 'area', 'bogus'])
        else:
            case['fu'] = rng.choice(['absent', 'absent', 'absent', 'flam', 'flam_unit', 'foo', 'none_explicit'])
            case['xkw'] = rng.choice([None, 'area', 'area', 'bogus'])
    if rng.random() < 0.5:
        add_history(rng, case, lattice)
    if analytic or err:
        if kind in FALLBACK:
            case['x'] = qs(small_grid(rng, d))
        elif kind in ('blackbody', 'blackbodynorm'):
            lo, hi, geom = profile_range(rng, d)
            case['x'] = qs(x_array(rng, lo, hi))
            if analytic and rng.random() < refine_p:
                case['grid'] = {'lo': q(lo), 'hi': q(hi), 'geom': geom}
        else:
            # explicit limits placed deliberately relative to the feature (wings, close / wide straddles,
            # on the centre, on an edge or root, a thousand widths out), in both orders
            fam = rng.choice(FAMILIES)
            a, b, geom = gen_limits(rng, d, family=fam)
            case['family'] = fam
            case['x'] = qs(x_array(rng, a, b))
            if kind in ('lorentz', 'const', 'powerlaw'):
                if analytic and fam != 'far_out' and rng.random() < refine_p:
                    case['grid'] = {'lo': q(a), 'hi': q(b), 'geom': geom}
            elif kind == 'ricker':
                full = a < fl(d['x0']) - fl(d['sigma']) and b > fl(d['x0']) + fl(d['sigma'])
                if analytic and full and b - a <= 100 * fl(d['sigma']) and rng.random() < 2 * refine_p:
                    case['grid'] = {'lo': q(a), 'hi': q(b), 'geom': False}
            elif analytic and rng.random() < refine_p:
                # whole-profile models ignore the requested limits; the reference grid covers the profile
                lo, hi, geom = profile_range(rng, d)
                case['grid'] = {'lo': q(lo), 'hi': q(hi), 'geom': geom}
    else:
        case['x'] = qs(small_grid(rng, d))
        if kind in FALLBACK and (itype == 'analytical' or (itype is None and conf == 'analytical')):
            case['twin'] = True
    if fu_class(case) != 'absent':
        case.pop('grid', None)
    if rng.random() < 0.01:
        xs = [fl(v) for v in case['x']]
        case['x'] = qs(rng.choice([[xs[0], xs[0]], [xs[-1], xs[0] / 2, xs[-1] * 2], [-xs[0], xs[-1]], [0.0] + xs]))
        case['bad_wave'] = True
        case.pop('grid', None)
        case.pop('twin', None)
    if not fill_opaque(case):
        return None
    return case


def make_eval_case(rng, kind, K, klass=None):
    cls = 'source' if kind in SOURCE_ONLY else 'bandpass' if (kind in BANDPASS_ONLY or klass in BANDPASS_ONLY_CLASSES) \
        else rng.choice(['source', 'bandpass'])
    d = gen_model(rng, kind, cls, kind in ('box', 'trapezoid', 'ricker') or kind in FALLBACK)
    if klass is not None:
        d['klass'] = klass
    if kind == 'powerlaw' and d['unit'] not in ('photlam', 'flam') and rng.random() < 0.5:
        d['unit'] = rng.choice(['photlam', 'flam'])
    case = {'op': 'eval', 'cls': cls, 'model': d, '_const': K}
    finish_desc(case)
    if rng.random() < 0.35:
        add_history(rng, case, True)
        if case.get('hist'):
            case['hist']['pre_call'] = None
    case['x'] = qs(small_grid(rng, d))
    return case


# ------------------------------------------------------------------ comparison
def value_atol(case):
    d = case['model']
    k = d['kind']
    xs = [fl(v) for v in case['x']]
    if case['op'] == 'eval':
        if k == 'trapezoid':
            return 1e-9 * fl(d['amp'])
        if k == 'sum':
            return 1e-9 * (fl(d['a']['amp']) + fl(d['b']['amp']))
        if k == 'ricker':
            return 1e-12 * fl(d['amp'])
        if k == 'redshift':
            return 1e-9 * fl(d['m']['amp']) if d['m']['kind'] == 'trapezoid' else 0.0
        return 0.0
    try:
        a, b = min(xs), max(xs)
        if k == 'lorentz':
            return 16 * EPS * math.pi * fl(d['amp']) * fl(d['fwhm'])
        if k == 'ricker':
            return 32 * EPS * fl(d['amp']) * fl(d['sigma'])
        if k == 'const' and d['unit'] not in ('photlam', 'flam'):
            scale = float(JY_SCALE[d['unit']] * JY) if d['unit'] in JY_SCALE else 1.0
            return 16 * EPS * fl(d['amp']) * scale * float(C) / a
        if k == 'powerlaw' and a > 0:
            x0 = fl(d['x0'])
            if d['unit'] in ('photlam', 'flam'):
                f, ref = 1 - fl(d['alpha']), x0
            else:
                scale = float(JY_SCALE[d['unit']] * JY) if d['unit'] in JY_SCALE else 1.0
                f, ref = -1 - fl(d['alpha']), scale * float(C) / x0
            if f != 0:
                return 16 * EPS * (abs((b / x0) ** f) + abs((a / x0) ** f)) * fl(d['amp']) * ref / abs(f)
            return 1e-12 * fl(d['amp']) * ref * math.log(b / a)
    except (ValueError, ZeroDivisionError, OverflowError):
        pass
    return 0.0


def compare(case, o, m):
    o2 = {k: v for k, v in o.items() if k not in ('extra', 'msg')}
    return same(o2, m, rtol=1e-9, atol=value_atol(case))


def tags(c, o):
    if c['op'] == 'eval':
        return ['eval:' + c['model']['kind']]
    t = ['kind:' + c['model']['kind'], 'cls:' + c['cls'], 'conf:' + c['conf'], 'itype:' + str(c['itype'] if c['itype'] in (None, 'analytical', 'trapezoid') else 'unknown'),
         'outcome:' + (o.get('err') or o['ok']['path'])]
    if 'unit' in c['model']:
        t.append('ampunit:' + c['model']['unit'])
    if c.get('grid'):
        t.append('refined')
    if c.get('hist'):
        t.append('history:assign%s' % ('+integrate-before' if c['hist'].get('pre_call') else ''))
    if c.get('family'):
        t.append('limits:%s:%s' % (c['model']['kind'], c['family']))
    t.append('class:' + c['model'].get('klass', c['model']['kind']))
    t.append('flux_unit:' + c.get('fu', 'absent'))
    t.append('extra_kw:' + str(c.get('xkw')))
    return t


def nontrivial(c, o):
    return not c.get('bad_wave')


def strip(rep):
    rep.samples = [{k: v for k, v in s.items() if k != '_const'} if isinstance(s, dict) else s for s in rep.samples]


RULE = ('every model class of the running package (Model subclasses in synphot.models.__all__ and the keys of '
        'BaseSpectrum._model_param_dict, 19 at present; classes without a closed form in the Lean model run as the generic kind '
        '"opaque" whose samples are data) plus compound sum, redshifted source and scaled spectrum; which kinds have an analytic form '
        'is read from the Lean model (10: box, constant, Gaussian, Gaussian-flux, Lorentzian, Ricker/MexicanHat, power law, trapezoid, '
        'black body, normalised black body) x source/bandpass x amplitude '
        'unit (PHOTLAM, FLAM, PHOTNU, FNU, Jy, mJy, STmag, ABmag where the model takes one) x conf.default_integrator in '
        '{trapezoid, analytical} x integration_type in {analytical, None, trapezoid, 7 unknown names} x keyword options of the call (45% of the cases, 70% for the models without integrate(): flux_unit in {absent, None, photlam/PHOTLAM/units.PHOTLAM, flam/FLAM/units.FLAM, fnu, Jy, count, Angstrom, an unparsable name} x {no other keyword, area=, an unknown keyword}; the explicit-trapezoid twin of a fallback gets the same keywords); half of the cases with parameters are histories: the object is built with other values, optionally integrated once, then one or more parameters are re-assigned (sp.model.<p> = v, sp.model.<p>.value = v, sp.z = z) to the values the model receives; amplitudes 0 or '
        'log-uniform over 28 decades (sources) / 7 decades (bandpasses); centres log-uniform 200..1e5 A, widths 3e-5..0.4 of the '
        'centre; power-law index: the singular one exactly (1 per wavelength, -1 per frequency; 20%), singular +- 2^-k for k = 2..20 (20%), integers and reals in [-4, 6]; temperatures '
        '30..3e5 K; explicit limits of every peaked / ranged model (Lorentz, Gaussians, Ricker, box, trapezoid, constant, power law) drawn from '
        'families placed relative to the feature: both in the left wing, both in the right wing, straddling the centre closely '
        '(1/64..1/2 of the width each side, symmetric and asymmetric), straddling widely, one limit exactly on the centre, one exactly on '
        'an edge / root / half-width, a thousand widths out; arrays ascending or '
        'descending with interior points. Trapezoid-path and evaluate cases use dyadic parameters and grid points (incl. exactly on '
        'edges/knots) so that every comparison is exact. Refinement oracle on a share of the analytic cases: 3126, 12501, 50001, 200001 points, '
        'uniform (geometric for constant, power law, black body). Non-trivial: every case whose wavelengths are valid.')


def check_constants(rep):
    """hypothesis of Synphot.C12.blackbody_integral, measured on the running package: the shipped
    sigma_sb (W m-2 K-4; x 1000 in CGS) equals 2 pi^5 k^4 / (15 h^3 c^2) of the shipped h, c, k_B"""
    from astropy import constants as const
    h, c, k = const.h.cgs.value, const.c.cgs.value, const.k_B.cgs.value
    want = 2 * math.pi ** 5 * k ** 4 / (15 * h ** 3 * c ** 2)
    got = const.sigma_sb.value * 1000
    case = {'op': 'constants', 'sigma_sb_cgs': got, 'from_h_c_k': want}
    rep.count(case, tags=['constants'])
    same_consts = (abs(h - float(H)) <= 1e-15 * h and abs(k - float(KB)) <= 1e-15 * k
                   and abs(c * 1e8 - float(C)) <= 1e-15 * float(C))
    if not (abs(got - want) <= 1e-9 * want and same_consts):
        rep.oracle_fail('constants:sigma_sb', 'sigma_sb*1000 = %r but 2 pi^5 k^4/(15 h^3 c^2) = %r (h=%r c=%r k=%r)' % (
            got, want, h, c, k), case, None)


def targets(rep=None):
    """(class name | None, kind) for every model class of the running package plus the structural kinds;
    records what was found (and what has no case) in the evidence"""
    names, unresolved = discover_classes()
    tg = [(n, CLASS_KIND.get(n, 'opaque')) for n in names] + [(None, k) for k in STRUCTURAL]
    if rep is not None:
        rep.extra['model_classes'] = {n: {'kind': k, 'analytic_form_expected': k in ANALYTIC} for n, k in tg if n}
        for n in unresolved:
            rep.notes.append('model class %s is named by the package but cannot be resolved: no case' % n)
        for n in CLASS_KIND:
            if n not in names:
                rep.notes.append('model class %s known to the harness is no longer offered by the package' % n)
    return tg


def run(rep):
    thorough = rep.tier == 'thorough'
    rng = rep.rng('c12')
    K = consts()
    load_table()
    per_kind = 2600 if thorough else 100
    per_fallback = 1100 if thorough else 50
    per_eval = 400 if thorough else 20
    refine_p = 0.3 if thorough else 0.4
    cases = []
    for c in core.load_corpus('C12'):
        c.setdefault('_const', K)
        cases.append(c)
    nocase = []
    for klass, kind in targets(rep):
        n = per_kind * (3 if kind == 'lorentz' else 2 if kind in ('powerlaw', 'const') else 1) if kind in ANALYTIC else per_fallback
        made = 0
        for _ in range(n):
            try:
                c = make_case(rng, kind, K, refine_p if kind in ANALYTIC else 0.0, klass)
            except Exception as e:          # a class the generic builder cannot construct
                c = None
                err = '%s: %s' % (type(e).__name__, str(e)[:120])
            if c is not None:
                cases.append(c)
                made += 1
        if made == 0:
            nocase.append(klass or kind)
            rep.notes.append('NO CASE for model class %s (kind %s): %s' % (klass, kind, locals().get('err', 'samples not finite')))
        if kind != 'opaque':
            for _ in range(per_eval):
                cases.append(make_eval_case(rng, kind, K, klass))
    rep.extra['model_classes_without_case'] = nocase
    rep.rule = RULE
    check_constants(rep)
    core.run_cases(rep, cases, impl_call, model_case, oracle, tags_fn=tags, nontrivial_fn=nontrivial, compare_fn=compare)
    rep.extra['refinement_cases'] = rep.dist.get('refined', 0)
    for n, info in rep.extra.get('model_classes', {}).items():
        info['cases'] = rep.dist.get('class:' + n, 0)
    for k in [k for k in rep.dist if k.startswith('class:')]:
        del rep.dist[k]
    strip(rep)


def search(rep, mismatches):
    sub = core.Report(rep.pid, 'thorough', rep.seed + 1)
    rng = sub.rng('c12-search')
    K = consts()
    load_table()
    hit = {(m[2].get('model', {}).get('klass'), m[2].get('model', {}).get('kind')) for m in mismatches}
    cases = []
    for klass, kind in targets():
        n = 400 if ((klass, kind) in hit or (None, kind) in hit) else 40
        for _ in range(n):
            try:
                c = make_case(rng, kind, K, 0.5 if kind in ANALYTIC else 0.0, klass)
            except Exception:
                c = None
            if c is None:
                continue
            if kind in ANALYTIC and not c.get('bad_wave') and c['itype'] not in (None, 'analytical', 'trapezoid'):
                c['itype'] = 'analytical'
            cases.append(c)
    impl = core.pmap(impl_call, cases)
    for c, o in zip(cases, impl):
        oracle(sub, c, o)
    rep.notes.append('directed search after mismatch: %d cases around %s, %d oracle failures' % (
        len(cases), sorted(str(h) for h in hit), len(sub.oracle_failures)))
    return sub.oracle_failures


def replay(rep, payload):
    load_table()
    c = payload['case']
    c['_const'] = consts()
    core.run_cases(rep, [c], impl_call, model_case, oracle, compare_fn=compare)
    strip(rep)
