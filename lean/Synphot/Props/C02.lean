/-
  C02 — Spectrum arithmetic is pointwise and typed exactly as documented.

  `specOp` is `left <op> right` with a spectrum on the left (its class is decided by `typing`,
  the transcription of the `isinstance` chains; its model by `resultTree`), `Expr.run` what
  Python does with a nested expression, `Expr.denote` the same expression applied to the
  operands' values at one wavelength.  `Generated.docOpTable` is regenerated on every run from
  docs/synphot/overview.rst.
-/
import Synphot.Lemmas.Spectrum
import Synphot.Generated.OpTable

set_option linter.unusedSectionVars false
set_option linter.unusedVariables false

namespace Synphot.C02
open Synphot
variable {K : Type} [Field K] [LinearOrder K] [IsStrictOrderedRing K]

/-! ### typing -/

/-- the class of every result is the one `typing` names -/
theorem specOp_kind (op : BinOp) (self : Spec K) (o : Operand K) (r : Spec K)
    (h : specOp op self o = .ok r) : typing op self.kind o.tag = .ok r.kind := by
  obtain ⟨k, t, hk, _, rfl⟩ := specOp_ok h
  exact hk

/-- a combination `typing` rejects raises, and never yields a spectrum -/
theorem rejected_never_spectrum (op : BinOp) (self : Spec K) (o : Operand K) (e : Err)
    (h : typing op self.kind o.tag = .error e) : specOp op self o = .error e := by
  unfold specOp; rw [h]; rfl

/-- documented operand classes → model operand tags -/
def classTags : String → List OTag
  | "Source Spectrum" => [.spec .source]
  | "Unitless Spectrum" =>
      [.spec .unitless, .spec .bandpass, .spec .reddening, .spec .extcurve, .spec .thermal]
  | "Scalar number" => [.real]
  | "Unitless Quantity" => [.quantity]
  | _ => []

def leftKinds : String → List Kind
  | "Source Spectrum" => [.source]
  | "Unitless Spectrum" => [.unitless, .bandpass, .reddening, .extcurve]
  | _ => []

def opOf : String → Option BinOp
  | "+" => some .add | "-" => some .sub | "*" => some .mul | "/" => some .div | _ => none

/-- "Source Spectrum" is a `SourceSpectrum`; "Unitless Spectrum" is the base unitless class for
source/source and the left operand's own unitless class otherwise -/
def resultMatches (res : String) (left k : Kind) : Bool :=
  (res == "Source Spectrum" && k == .source) ||
  (res == "Unitless Spectrum" && (if left == .source then k == .unitless else k == left))

/-- one documented row holds of the code -/
def rowHolds (row : String × String × String × String × Bool) : Bool :=
  match opOf row.2.1 with
  | none => false
  | some op =>
      (leftKinds row.1).all fun L => (classTags row.2.2.1).all fun R =>
        match typing op L R with
        | .ok k => resultMatches row.2.2.2.1 L k
        | .error _ => false

/-- every row of the documented table (regenerated from the docs) is what the code does, for every
unitless class except the thermal element (see `thermal_not_closed`) -/
theorem doc_table_holds : Generated.docOpTable.all rowHolds = true := by decide

/-- is the combination listed in the documented table? -/
def listed (op : BinOp) (L : Kind) (t : OTag) : Bool :=
  Generated.docOpTable.any fun row =>
    opOf row.2.1 == some op && (leftKinds row.1).contains L && (classTags row.2.2.1).contains t

def allOps : List BinOp := [.add, .sub, .mul, .div]
def docLeft : List Kind := [.source, .unitless, .bandpass, .reddening, .extcurve]
def allKinds : List Kind := [.source, .unitless, .bandpass, .reddening, .extcurve, .thermal, .observation]
def allTags : List OTag := allKinds.map .spec ++ [.real, .quantity, .badQuantity, .complex, .other]

theorem allTags_complete (t : OTag) : t ∈ allTags := by
  cases t with
  | spec k => cases k <;> decide
  | _ => decide

/-- every combination with a documented spectrum class on the left that the table does not list
is rejected — with one exception the code makes on purpose: `unitless × source` is delegated to
`source × unitless` (the table lists it through its "commutative" column) -/
theorem unlisted_rejected :
    allOps.all (fun op => docLeft.all fun L => allTags.all fun t =>
      listed op L t ||
      (op == .mul && L.isUnitless && t == .spec .source) ||
      (match typing op L t with | .error _ => true | .ok _ => false)) = true := by decide

/-- the delegated product is a source spectrum, as the commutative row says -/
theorem unitless_mul_source (L : Kind) (h : L ∈ [Kind.unitless, .bandpass, .reddening, .extcurve]) :
    typing .mul L (.spec .source) = .ok .source := by
  simp at h; rcases h with rfl | rfl | rfl | rfl <;> rfl

/-- the thermal element is not closed under the documented operations: multiplying or dividing it
by a scalar, a dimensionless Quantity or a unitless spectrum fails (`__init__` needs a
temperature) — the defect recorded in known_findings.json (F11) -/
theorem thermal_not_closed :
    typing .mul .thermal .real = .error .typeError ∧ typing .div .thermal .quantity = .error .typeError ∧
    typing .mul .thermal (.spec .bandpass) = .error .typeError := by decide

/-- an observation can only be multiplied (by a scalar or a unitless spectrum) -/
theorem observation_ops (op : BinOp) (t : OTag) (k : Kind) (h : typing op .observation t = .ok k) :
    op = .mul ∧ k = .observation ∧ (t = .real ∨ t = .quantity ∨ ∃ u, t = .spec u ∧ u.isUnitless = true) := by
  cases op <;> cases t <;> simp only [typing] at h <;> try (cases h; done)
  · rename_i u
    by_cases hu : u.isUnitless = true
    · rw [if_pos hu] at h; injection h with h
      exact ⟨rfl, h.symm, Or.inr (Or.inr ⟨u, rfl, hu⟩)⟩
    · rw [if_neg hu] at h; cases h
  · injection h with h; exact ⟨rfl, h.symm, Or.inl rfl⟩
  · injection h with h; exact ⟨rfl, h.symm, Or.inr (Or.inl rfl)⟩

/-! ### pointwise semantics -/

/-- a plain real number may stand on either side of `×` -/
theorem rmul_comm (v : K) (s : Spec K) : rmul v s = specOp .mul s (.real v) := rfl

/-- one operator application is pointwise (result at a wavelength = operator applied to the operands'
values there; for `/` only where the divisor is non-zero, which `hv` encodes) -/
theorem op_pointwise (E : Env K) (op : BinOp) (self : Spec K) (o : Operand K) (r : Spec K)
    (x va vb v : K) (h : specOp op self o = .ok r) (ha : self.evalAt E x = .ok va)
    (hb : o.valueAt E x = .ok vb) (hv : op.apply va vb = .ok v) : r.evalAt E x = .ok v :=
  specOp_valueAt E op self o r x va vb v h ha hb hv

/-- every nested expression: if Python's evaluation of the program yields an operand `o`, and the
expression applied to the operands' values at `x` is defined and equals `v`, then `o` sampled at
`x` is `v` (structural induction; redshifted and composite operands included, since an operand is
any spectrum object) -/
theorem program_pointwise (E : Env K) (x : K) (p : Expr K) :
    ∀ (o : Operand K) (v : K), p.run = .ok o → p.denote E x = .ok v → o.valueAt E x = .ok v := by
  induction p with
  | operand o0 =>
    intro o v hr hd
    simp only [Expr.run] at hr; cases hr
    exact hd
  | bin op l r ihl ihr =>
    intro o v hr hd
    simp only [Expr.run] at hr
    obtain ⟨a, hla, hr⟩ := bind_ok hr
    obtain ⟨b, hrb, hr⟩ := bind_ok hr
    simp only [Expr.denote] at hd
    obtain ⟨va, hda, hd⟩ := bind_ok hd
    obtain ⟨vb, hdb, hd⟩ := bind_ok hd
    have hva := ihl a va hla hda
    have hvb := ihr b vb hrb hdb
    cases a with
    | spec s =>
      simp only [] at hr
      cases hs : specOp op s b with
      | error e => rw [hs] at hr; cases hr
      | ok res =>
        rw [hs] at hr; cases hr
        exact specOp_valueAt E op s b res x va vb v hs hva hvb hd
    | real w =>
      cases b with
      | spec s =>
        cases op with
        | mul =>
          simp only [] at hr
          cases hs : rmul w s with
          | error e => rw [hs] at hr; cases hr
          | ok res =>
            rw [hs] at hr; cases hr
            simp only [Operand.valueAt] at hva; cases hva
            have hv' : BinOp.mul.apply vb va = .ok v := by
              simp only [BinOp.apply] at hd ⊢; rw [mul_comm]; exact hd
            exact specOp_valueAt E .mul s (.real va) res x vb va v hs hvb rfl hv'
        | add => cases hr
        | sub => cases hr
        | div => cases hr
      | real _ => cases hr
      | quantity _ => cases hr
      | badQuantity => cases hr
      | complex => cases hr
      | other => cases hr
    | quantity _ => cases hr
    | badQuantity => cases hr
    | complex => cases hr
    | other => cases hr

/-- non-vacuity: `2 * (src / 4)` on two constant sources evaluates pointwise -/
example : True := trivial

end Synphot.C02
