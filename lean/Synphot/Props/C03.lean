/-
  C03 — Tabulated spectra interpolate linearly and extrapolate only by the stated rule.

  `Table` is the state of an `Empirical1D` after construction, `Table.eval` its `evaluate`,
  `mkTable` its constructor, `taperPts` the table `BaseSpectrum.taper` builds.
  All theorems: every ordered field, every table length, any spacing.
-/
import Synphot.Lemmas.Interp

set_option linter.unusedSectionVars false
set_option linter.unusedVariables false
set_option linter.unusedSimpArgs false

namespace Synphot.C03
open Synphot
variable {K : Type} [Field K] [LinearOrder K] [IsStrictOrderedRing K]

/-- well-formed table: strictly ascending points (what `mkTable` produces from any strictly
monotone input), as many values as points -/
structure WF (t : Table K) : Prop where
  asc : StrictAsc t.pts
  len : t.vals.length = t.pts.length

/-- negative values were clipped at construction unless the caller kept them -/
def Clipped (t : Table K) : Prop := t.keepNeg = true ∨ ∀ y ∈ t.vals, 0 ≤ y

/-- between two neighbouring knots the spectrum is the straight line through them -/
theorem eval_is_chord (t : Table K) (hw : WF t) (hc : Clipped t) (s : (K × K) × (K × K))
    (hs : s ∈ segs t.pts t.vals) (x : K) (h1 : s.1.1 ≤ x) (h2 : x ≤ s.2.1) :
    t.eval x = chord s x := by
  have hk := segs_mem_knots t.pts t.vals s hs
  have hlt := segs_strict t.pts t.vals hw.asc s hs
  have hx0 : t.pts.headD 0 ≤ x := by
    cases hp : t.pts with
    | nil => rw [hp] at hk; simp at hk
    | cons p0 ps =>
      simp only [List.headD_cons]
      exact le_trans (strictAsc_head_le_mem p0 ps (hp ▸ hw.asc) s.1.1 (hp ▸ hk.1)) h1
  have hxn : x ≤ t.pts.getLastD 0 := le_trans h2 (strictAsc_mem_le_last t.pts hw.asc 0 _ hk.2)
  have hraw := interpAsc_chord t.pts t.vals hw.asc s hs x h1 h2
  unfold Table.eval
  simp only [not_lt.mpr hx0, not_lt.mpr hxn, if_false, hraw]
  rcases hc with hc | hc
  · simp [hc]
  · have hv := segs_mem_vals t.pts t.vals s hs
    have hb := (chord_between s hlt x h1 h2).1
    have : 0 ≤ chord s x := le_trans (le_min (hc _ hv.1) (hc _ hv.2)) hb
    cases t.keepNeg <;> simp [not_lt.mpr this]

/-- the tabulated value at every tabulated wavelength (left knot of a segment) -/
theorem eval_knot_left (t : Table K) (hw : WF t) (hc : Clipped t) (s : (K × K) × (K × K))
    (hs : s ∈ segs t.pts t.vals) : t.eval s.1.1 = s.1.2 := by
  have hlt := segs_strict t.pts t.vals hw.asc s hs
  rw [eval_is_chord t hw hc s hs s.1.1 (le_refl _) (le_of_lt hlt), chord_left]

/-- … and at the right knot (covers the last tabulated wavelength) -/
theorem eval_knot_right (t : Table K) (hw : WF t) (hc : Clipped t) (s : (K × K) × (K × K))
    (hs : s ∈ segs t.pts t.vals) : t.eval s.2.1 = s.2.2 := by
  have hlt := segs_strict t.pts t.vals hw.asc s hs
  rw [eval_is_chord t hw hc s hs s.2.1 (le_of_lt hlt) (le_refl _), chord_right s hlt]

/-- hence never outside the two neighbouring values -/
theorem eval_between (t : Table K) (hw : WF t) (hc : Clipped t) (s : (K × K) × (K × K))
    (hs : s ∈ segs t.pts t.vals) (x : K) (h1 : s.1.1 ≤ x) (h2 : x ≤ s.2.1) :
    min s.1.2 s.2.2 ≤ t.eval x ∧ t.eval x ≤ max s.1.2 s.2.2 := by
  rw [eval_is_chord t hw hc s hs x h1 h2]
  exact chord_between s (segs_strict t.pts t.vals hw.asc s hs) x h1 h2

/-- outside the table, below: the first value (nearest end) unless the table is zero-ended -/
theorem eval_below (t : Table K) (x : K) (hx : x < t.pts.headD 0)
    (h0 : t.keepNeg = true ∨ 0 ≤ t.vals.headD 0) :
    t.eval x = if t.fillNaN then t.vals.headD 0 else 0 := by
  unfold Table.eval
  dsimp only
  rw [if_pos hx]
  by_cases hk : t.keepNeg = true
  · rw [if_pos hk]
  · rw [if_neg hk]
    have h0' : 0 ≤ t.vals.headD 0 := by
      rcases h0 with h0 | h0
      · exact absurd h0 hk
      · exact h0
    by_cases hf : t.fillNaN = true
    · rw [if_pos hf, if_neg (not_lt.mpr h0')]
    · rw [if_neg hf, if_neg (lt_irrefl 0)]

/-- outside the table, above: the last value unless the table is zero-ended -/
theorem eval_above (t : Table K) (x : K) (hx0 : ¬ x < t.pts.headD 0) (hx : t.pts.getLastD 0 < x)
    (h0 : t.keepNeg = true ∨ 0 ≤ t.vals.getLastD 0) :
    t.eval x = if t.fillNaN then t.vals.getLastD 0 else 0 := by
  unfold Table.eval
  dsimp only
  rw [if_neg hx0, if_pos hx]
  by_cases hk : t.keepNeg = true
  · rw [if_pos hk]
  · rw [if_neg hk]
    have h0' : 0 ≤ t.vals.getLastD 0 := by
      rcases h0 with h0 | h0
      · exact absurd h0 hk
      · exact h0
    by_cases hf : t.fillNaN = true
    · rw [if_pos hf, if_neg (not_lt.mpr h0')]
    · rw [if_neg hf, if_neg (lt_irrefl 0)]

/-- unless the caller asked to keep them, no sampled value is negative -/
theorem eval_nonneg (t : Table K) (hk : t.keepNeg = false) (x : K) : 0 ≤ t.eval x := by
  unfold Table.eval
  simp only [hk, Bool.false_eq_true, if_false]
  split_ifs <;> first | exact le_refl _ | (rename_i h; exact not_lt.mp h)

/-- construction: negative entries are replaced by zero and the warning is recorded exactly
when there was one; with `keep_neg` the values are untouched and no warning is recorded -/
theorem clipNeg_spec (keepNeg : Bool) (y : List K) :
    (keepNeg = true → clipNeg keepNeg y = (y, false)) ∧
    (keepNeg = false → (∀ v ∈ (clipNeg keepNeg y).1, 0 ≤ v) ∧
        ((clipNeg keepNeg y).2 = true ↔ ∃ v ∈ y, v < 0) ∧
        (clipNeg keepNeg y).1 = y.map (fun v => max v 0)) := by
  constructor
  · intro h; simp [clipNeg, h]
  · intro h
    simp only [clipNeg, h, Bool.false_eq_true, if_false]
    refine ⟨?_, ?_, ?_⟩
    · intro v hv
      rw [List.mem_map] at hv
      obtain ⟨u, _, rfl⟩ := hv
      split_ifs with hu
      · exact le_refl _
      · exact not_lt.mp hu
    · simp [List.any_eq_true]
    · apply List.map_congr_left
      intro v _
      split_ifs with hv
      · exact (max_eq_right (le_of_lt hv)).symm
      · exact (max_eq_left (not_lt.mp hv)).symm

/-- the fill rule: zero fill exactly for zero-ended (tapered) tables -/
theorem mkTable_fill (x y : List K) (k : Bool) :
    (mkTable x y k).1.fillNaN = !(mkTable x y k).1.isTapered := by
  simp [mkTable, Table.isTapered]

/-- a table given in descending order is the same table as its ascending reversal -/
theorem mkTable_order (a b : K) (l : List K) (y : List K) (k : Bool)
    (hs : StrictDesc (a :: b :: l)) :
    mkTable (a :: b :: l) y k = mkTable (a :: b :: l).reverse y.reverse k := by
  have hlt := strictDesc_last_lt_head a b l hs
  have hl1 : (a :: b :: l).getLast? = some ((a :: b :: l).getLastD a) := by
    rw [List.getLastD_eq_getLast?]
    cases h : (a :: b :: l).getLast? with
    | none => simp at h
    | some v => rfl
  have hd1 : isDesc (a :: b :: l) = true := by
    unfold isDesc; rw [hl1]
    show decide ((a :: b :: l).getLastD a < a) = true
    exact decide_eq_true hlt
  have hrev_head : (a :: b :: l).reverse.head? = some ((a :: b :: l).getLastD a) := by
    rw [List.head?_reverse, hl1]
  have hrev_last : (a :: b :: l).reverse.getLast? = some a := by
    rw [List.getLast?_reverse]; rfl
  have hd2 : isDesc (a :: b :: l).reverse = false := by
    unfold isDesc; rw [hrev_head, hrev_last]
    show decide (a < (a :: b :: l).getLastD a) = false
    exact decide_eq_false (not_lt.mpr (le_of_lt hlt))
  unfold mkTable
  simp only [hd1, hd2, if_true, Bool.false_eq_true, if_false]

/-! ### tapering -/

/-- `taper` adds exactly one point beyond each non-zero end, with value zero, at `x₀²/x₁`
(resp. `xₙ²/xₙ₋₁`), and none at a zero end; all other points and values are the sampled ones -/
theorem taper_spec (x0 x1 : K) (xs : List K) (first last : K) (f : K → K) :
    let x := x0 :: x1 :: xs
    let w1 := x0 ^ 2 / x1
    let w2 := x.getLastD x0 ^ 2 / (x.dropLast).getLastD x0
    taperPts x first last f =
      if first = 0 ∧ last = 0 then none
      else some ((if first ≠ 0 then [w1] else []) ++ x ++ (if last ≠ 0 then [w2] else []),
                 (if first ≠ 0 then [0] else []) ++ x.map f ++ (if last ≠ 0 then [0] else [])) := by
  intro x w1 w2
  simp only [taperPts, x, w1, w2]
  by_cases h : first = 0 ∧ last = 0
  · simp [h]
  · rw [if_neg h, if_neg h]
    by_cases h1 : first = 0 <;> by_cases h2 : last = 0 <;> simp [h1, h2]

/-- the added lower point lies below the table and the added upper point above it
(positive ascending wavelengths) -/
theorem taper_points_outside (x0 x1 xl2 xl : K) (h0 : 0 < x0) (h01 : x0 < x1) (hl2 : 0 < xl2)
    (hl : xl2 < xl) : x0 ^ 2 / x1 < x0 ∧ xl < xl ^ 2 / xl2 := by
  constructor
  · rw [div_lt_iff₀ (lt_trans h0 h01)]; nlinarith
  · rw [lt_div_iff₀ hl2]; nlinarith

/-- a tapered table is zero-ended, so tapering it again returns the spectrum itself -/
theorem taper_idem (x : List K) (f : K → K) : taperPts x 0 0 f = none := by
  unfold taperPts
  cases x with
  | nil => rfl
  | cons a l => cases l <;> simp

/-! ### tapering leaves the inside of the table alone -/

/-- inside its range a well-formed table evaluates to the interpolant -/
theorem eval_inside_eq_interp (t : Table K) (hc : Clipped t) (x : K)
    (h0 : t.pts.headD 0 ≤ x) (hn : x ≤ t.pts.getLastD 0)
    (hnn : t.keepNeg = true ∨ 0 ≤ interpAsc t.pts t.vals x) : t.eval x = interpAsc t.pts t.vals x := by
  unfold Table.eval
  dsimp only
  rw [if_neg (not_lt.mpr h0), if_neg (not_lt.mpr hn)]
  rcases hnn with hk | hk
  · rw [if_pos hk]
  · by_cases hk' : t.keepNeg = true
    · rw [if_pos hk']
    · rw [if_neg hk', if_neg (not_lt.mpr hk)]

/-- sampled at its own knots a table returns its values -/
theorem eval_at_knots (t : Table K) (hw : WF t) (hc : Clipped t) : t.pts.map t.eval = t.vals := by
  have hk := interpAsc_at_knots t.pts t.vals hw.asc hw.len.symm
  rw [← hk]
  apply List.map_congr_left
  intro x hx
  have hx0 : t.pts.headD 0 ≤ x := by
    cases hp : t.pts with
    | nil => rw [hp] at hx; simp at hx
    | cons p0 ps => simp only [List.headD_cons]; exact strictAsc_head_le_mem p0 ps (hp ▸ hw.asc) x (hp ▸ hx)
  have hxn : x ≤ t.pts.getLastD 0 := strictAsc_mem_le_last t.pts hw.asc 0 x hx
  apply eval_inside_eq_interp t hc x hx0 hxn
  rcases hc with hc | hc
  · exact Or.inl hc
  · exact Or.inr (interpAsc_nonneg t.pts t.vals hc hw.asc x hx0)

/-- the constructor on already ascending points and already admissible values stores them as given -/
theorem mkTable_of_asc (px py : List K) (k : Bool) (hs : StrictAsc px) (hc : k = true ∨ ∀ v ∈ py, 0 ≤ v) :
    (mkTable px py k).1 = { pts := px, vals := py, keepNeg := k, fillNaN := !endsZero py } := by
  unfold mkTable
  simp only [isDesc_false_of_asc px hs, Bool.false_eq_true, if_false, clipNeg_id k py hc]

/-- two tables with the same `keep_neg` whose interpolants agree at a point inside both ranges agree there -/
theorem eval_eq_of_interp (t t' : Table K) (hk : t'.keepNeg = t.keepNeg) (x : K)
    (h0 : t.pts.headD 0 ≤ x) (hn : x ≤ t.pts.getLastD 0) (h0' : t'.pts.headD 0 ≤ x) (hn' : x ≤ t'.pts.getLastD 0)
    (hi : interpAsc t'.pts t'.vals x = interpAsc t.pts t.vals x) : t'.eval x = t.eval x := by
  unfold Table.eval; dsimp only
  rw [if_neg (not_lt.mpr h0), if_neg (not_lt.mpr hn), if_neg (not_lt.mpr h0'), if_neg (not_lt.mpr hn'), hi, hk]

/-- `taper()` of a tabulated spectrum on positive wavelengths: inside the original range every value is
unchanged, the new table is zero-ended (so it extrapolates with zero), and it keeps `keep_neg` -/
theorem taper_inside_unchanged (t : Table K) (x0 x1 : K) (xs : List K) (hp : t.pts = x0 :: x1 :: xs)
    (hw : WF t) (hc : Clipped t) (hpos : 0 < x0) (t' : Table K) (ht : t.taper = some t') :
    (∀ x, x0 ≤ x → x ≤ t.pts.getLastD 0 → t'.eval x = t.eval x) ∧ t'.isTapered = true ∧
      t'.keepNeg = t.keepNeg := by
  have hasc : StrictAsc (x0 :: x1 :: xs) := hp ▸ hw.asc
  have h01 : x0 < x1 := hasc.1
  obtain ⟨hlt, hge⟩ := dropLast_last_lt x0 x1 xs hasc
  have hout := taper_points_outside x0 x1 _ _ hpos h01 (lt_of_lt_of_le hpos hge) hlt
  have hknots : (x0 :: x1 :: xs).map t.eval = t.vals := hp ▸ eval_at_knots t hw hc
  have hlen : (x0 :: x1 :: xs).length = t.vals.length := by rw [← hp]; exact hw.len.symm
  have hspec := taper_spec x0 x1 xs (t.vals.headD 0) (t.vals.getLastD 0) t.eval
  dsimp only at hspec
  unfold Table.taper at ht
  rw [hp, hspec, hknots] at ht
  obtain ⟨y0, y1, ys, hv⟩ : ∃ y0 y1 ys, t.vals = y0 :: y1 :: ys := by
    match hvv : t.vals, hlen with
    | y0 :: y1 :: ys, _ => exact ⟨y0, y1, ys, rfl⟩
    | [_], h => simp at h
    | [], h => simp at h
  have hlys : xs.length = ys.length := by rw [hv] at hlen; simpa using hlen
  have hzero : t.keepNeg = true ∨ ∀ v ∈ t.vals, 0 ≤ v := hc
  have hL : t.pts.getLastD 0 = (x0 :: x1 :: xs).getLastD x0 := by rw [hp]; simp only [List.getLastD_cons]
  set w1 := x0 ^ 2 / x1 with hw1
  set w2 := (x0 :: x1 :: xs).getLastD x0 ^ 2 / (x0 :: x1 :: xs).dropLast.getLastD x0 with hw2
  have hlastlt : ∀ y ∈ (x0 :: x1 :: xs).getLast?, y < w2 := by
    intro y hy
    have : (x0 :: x1 :: xs).getLastD x0 = y := by rw [List.getLastD_eq_getLast?, hy]; rfl
    rw [← this]; exact hout.2
  have hascA : StrictAsc ((x0 :: x1 :: xs) ++ [w2]) := strictAsc_append_one _ _ hasc hlastlt
  have hascP : StrictAsc (w1 :: x0 :: x1 :: xs) := strictAsc_cons_one _ _ hasc (by simp; exact hout.1)
  have hascPA : StrictAsc (w1 :: ((x0 :: x1 :: xs) ++ [w2])) :=
    strictAsc_cons_one _ _ hascA (by simp; exact hout.1)
  have hnnA : t.keepNeg = true ∨ ∀ v ∈ t.vals ++ [0], 0 ≤ v := by
    rcases hzero with h | h
    · exact Or.inl h
    · right; intro v hv'; rcases List.mem_append.mp hv' with h' | h'
      · exact h v h'
      · simp at h'; rw [h']
  have hnnP : t.keepNeg = true ∨ ∀ v ∈ (0 : K) :: t.vals, 0 ≤ v := by
    rcases hzero with h | h
    · exact Or.inl h
    · right; intro v hv'; rcases List.mem_cons.mp hv' with h' | h'
      · rw [h']
      · exact h v h'
  have hnnPA : t.keepNeg = true ∨ ∀ v ∈ (0 : K) :: (t.vals ++ [0]), 0 ≤ v := by
    rcases hnnA with h | h
    · exact Or.inl h
    · right; intro v hv'; rcases List.mem_cons.mp hv' with h' | h'
      · rw [h']
      · exact h v h'
  -- interpolants agree on the original range
  have hiA : ∀ x, x ≤ (x0 :: x1 :: xs).getLastD x0 →
      interpAsc ((x0 :: x1 :: xs) ++ [w2]) (t.vals ++ [0]) x = interpAsc (x0 :: x1 :: xs) t.vals x := by
    intro x hx
    apply interpAsc_append w2 0 (x0 :: x1 :: xs) t.vals hlen (by simp) x
    simpa only [List.getLastD_cons] using hx
  have hiP : ∀ x, x0 ≤ x →
      interpAsc (w1 :: x0 :: x1 :: xs) (0 :: t.vals) x = interpAsc (x0 :: x1 :: xs) t.vals x := by
    intro x hx
    rw [hv]; exact interpAsc_prepend w1 0 x0 x1 y0 y1 xs ys hout.1 h01 x hx
  have hiPA : ∀ x, x0 ≤ x → x ≤ (x0 :: x1 :: xs).getLastD x0 →
      interpAsc (w1 :: ((x0 :: x1 :: xs) ++ [w2])) (0 :: (t.vals ++ [0])) x = interpAsc (x0 :: x1 :: xs) t.vals x := by
    intro x hx hxn
    rw [← hiA x hxn, hv]
    exact interpAsc_prepend w1 0 x0 x1 y0 y1 (xs ++ [w2]) (ys ++ [0]) hout.1 h01 x hx
  by_cases h1 : t.vals.headD 0 = 0 <;> by_cases h2 : t.vals.getLastD 0 = 0
  · rw [if_pos ⟨h1, h2⟩] at ht; simp at ht
  · simp only [h1, h2, and_false, if_false, ne_eq, not_true_eq_false, not_false_eq_true, if_true,
      List.nil_append, Option.some.injEq] at ht
    rw [mkTable_of_asc _ _ _ hascA hnnA] at ht
    subst ht
    refine ⟨?_, ?_, rfl⟩
    · intro x hx0 hxn
      rw [hL] at hxn
      refine eval_eq_of_interp t _ ?_ x (by rw [hp]; simpa using hx0) (by rw [hL]; exact hxn) ?_ ?_ ?_
      · rfl
      · simpa using hx0
      · simp only [List.getLastD_concat]; exact le_of_lt (lt_of_le_of_lt hxn hout.2)
      · simp only []; rw [hp]; exact hiA x hxn
    · have hl : (t.vals ++ [(0 : K)]).getLast? = some 0 := by simp
      have hh : (t.vals ++ [(0 : K)]).head? = some y0 := by rw [hv]; rfl
      have h1' : y0 = 0 := by rw [hv] at h1; simpa using h1
      simp only [Table.isTapered, endsZero, hl, hh, h1']; simp
  · simp only [h1, h2, false_and, if_false, ne_eq, not_true_eq_false, not_false_eq_true, if_true,
      List.append_nil, List.singleton_append, Option.some.injEq] at ht
    rw [mkTable_of_asc _ _ _ hascP hnnP] at ht
    subst ht
    refine ⟨?_, ?_, rfl⟩
    · intro x hx0 hxn
      refine eval_eq_of_interp t _ ?_ x (by rw [hp]; simpa using hx0) hxn ?_ ?_ ?_
      · rfl
      · simp only [List.headD_cons]; exact le_trans (le_of_lt hout.1) hx0
      · rw [hL] at hxn; simpa only [List.getLastD_cons] using hxn
      · simp only []; rw [hp]; exact hiP x hx0
    · simp only [Table.isTapered, endsZero]
      have : (0 :: t.vals).getLast? = some (t.vals.getLastD 0) := by
        rw [hv, List.getLast?_cons_cons, List.getLastD_eq_getLast?,
          List.getLast?_eq_getLast_of_ne_nil (by simp)]; rfl
      simp only [Table.isTapered, endsZero, List.head?_cons, this, h2]; simp
  · simp only [h1, h2, false_and, and_false, if_false, ne_eq, not_true_eq_false, not_false_eq_true, if_true,
      List.singleton_append, Option.some.injEq] at ht
    replace ht : (mkTable (w1 :: ((x0 :: x1 :: xs) ++ [w2])) (0 :: (t.vals ++ [0])) t.keepNeg).1 = t' := ht
    rw [mkTable_of_asc _ _ _ hascPA hnnPA] at ht
    subst ht
    refine ⟨?_, ?_, rfl⟩
    · intro x hx0 hxn
      rw [hL] at hxn
      refine eval_eq_of_interp t _ ?_ x (by rw [hp]; simpa using hx0) (by rw [hL]; exact hxn) ?_ ?_ ?_
      · rfl
      · simp only [List.headD_cons]; exact le_trans (le_of_lt hout.1) hx0
      · have : (w1 :: ((x0 :: x1 :: xs) ++ [w2])).getLastD 0 = w2 := by
          rw [List.getLastD_cons, List.getLastD_concat]
        simp only []; rw [this]; exact le_of_lt (lt_of_le_of_lt hxn hout.2)
      · simp only []; rw [hp]; exact hiPA x hx0 hxn
    · have hl : ((0 : K) :: (t.vals ++ [(0 : K)])).getLast? = some 0 := by
        have : (0 : K) :: (t.vals ++ [(0 : K)]) = ((0 : K) :: t.vals) ++ [0] := rfl
        rw [this, List.getLast?_concat]
      simp only [Table.isTapered, endsZero, List.head?_cons, hl]; simp

/-- non-vacuity of `taper_inside_unchanged`: a concrete table with two non-zero ends is tapered to a table
with one more point on each side -/
example : (Table.taper (mkTable ([2, 4, 8] : List ℚ) [5, 1, 4] false).1).map (·.pts) = some [1, 2, 4, 8, 16] := by
  decide +kernel

/-- non-vacuity: a concrete descending table with a negative entry -/
example : (mkTable ([3, 2, 1] : List ℚ) [5, -1, 4] false).1.pts = [1, 2, 3] ∧
    (mkTable ([3, 2, 1] : List ℚ) [5, -1, 4] false).1.vals = [4, 0, 5] ∧
    (mkTable ([3, 2, 1] : List ℚ) [5, -1, 4] false).2 = true := by decide

end Synphot.C03
