import Mathlib.Tactic.Ring
import Mathlib.Tactic.FieldSimp
import Mathlib.Tactic.Linarith
import Mathlib.Tactic.Positivity
import Synphot.Core.Interp
import Synphot.Lemmas.Wave

set_option linter.unusedSectionVars false
set_option linter.unusedSimpArgs false
set_option linter.unusedVariables false

namespace Synphot
variable {K : Type} [Field K] [LinearOrder K] [IsStrictOrderedRing K]

/-- consecutive knot pairs `((xᵢ, yᵢ), (xᵢ₊₁, yᵢ₊₁))` of a table -/
def segs : List K → List K → List ((K × K) × (K × K))
  | x0 :: x1 :: xs, y0 :: y1 :: ys => ((x0, y0), (x1, y1)) :: segs (x1 :: xs) (y1 :: ys)
  | _, _ => []

/-- the straight line through two knots -/
def chord (s : (K × K) × (K × K)) (x : K) : K :=
  let t := (x - s.1.1) / (s.2.1 - s.1.1)
  s.1.2 * (1 - t) + s.2.2 * t

theorem segs_left_ge (x1 : K) (xs ys : List K) (y1 : K) (hs : StrictAsc (x1 :: xs))
    (s : (K × K) × (K × K)) (h : s ∈ segs (x1 :: xs) (y1 :: ys)) : x1 ≤ s.1.1 := by
  induction xs generalizing x1 y1 ys with
  | nil => simp [segs] at h
  | cons x2 xs ih =>
    cases ys with
    | nil => simp [segs] at h
    | cons y2 ys =>
      obtain ⟨h12, hs'⟩ := hs
      simp only [segs, List.mem_cons] at h
      rcases h with rfl | h
      · exact le_refl _
      · exact le_trans (le_of_lt h12) (ih x2 ys y2 hs' h)

/-- at the first knot the interpolant returns the first value -/
theorem interpAsc_head (x0 x1 y0 y1 : K) (xs ys : List K) (h : x0 < x1) :
    interpAsc (x0 :: x1 :: xs) (y0 :: y1 :: ys) x0 = y0 := by
  simp only [interpAsc, if_pos (le_of_lt h)]
  simp

/-- on every interval the interpolant is the chord through the two neighbouring knots
(at a shared knot both neighbouring chords give the same value) -/
theorem interpAsc_chord (xs ys : List K) (hs : StrictAsc xs)
    (s : (K × K) × (K × K)) (hmem : s ∈ segs xs ys) (x : K) (h1 : s.1.1 ≤ x) (h2 : x ≤ s.2.1) :
    interpAsc xs ys x = chord s x := by
  induction xs generalizing ys with
  | nil => simp [segs] at hmem
  | cons x0 xs ih =>
    cases xs with
    | nil => cases ys <;> simp [segs] at hmem
    | cons x1 xs =>
      cases ys with
      | nil => simp [segs] at hmem
      | cons y0 ys =>
        cases ys with
        | nil => simp [segs] at hmem
        | cons y1 ys =>
          obtain ⟨h01, hs'⟩ := hs
          simp only [segs, List.mem_cons] at hmem
          rcases hmem with rfl | hmem
          · simp only [interpAsc, if_pos h2, chord]
          · have hge := segs_left_ge x1 xs ys y1 hs' s hmem
            by_cases hx : x ≤ x1
            · -- x = x1 = left knot of s
              have hxe : x = x1 := le_antisymm hx (le_trans hge h1)
              have hse : s.1.1 = x1 := le_antisymm (hxe ▸ h1) hge
              have iht := ih (y1 :: ys) hs' hmem
              simp only [interpAsc, if_pos hx]
              rw [← iht]
              -- value of the tail at its first knot
              cases xs with
              | nil => simp [segs] at hmem
              | cons x2 xs =>
                cases ys with
                | nil => simp [segs] at hmem
                | cons y2 ys =>
                  subst hxe
                  rw [interpAsc_head x x2 y1 y2 xs ys hs'.1]
                  have : x - x0 ≠ 0 := ne_of_gt (sub_pos.mpr h01)
                  field_simp
                  ring
            · simp only [interpAsc, if_neg hx]
              exact ih (y1 :: ys) hs' hmem

/-- the chord at its left knot / right knot -/
theorem chord_left (s : (K × K) × (K × K)) : chord s s.1.1 = s.1.2 := by
  simp [chord]

theorem chord_right (s : (K × K) × (K × K)) (h : s.1.1 < s.2.1) : chord s s.2.1 = s.2.2 := by
  have : s.2.1 - s.1.1 ≠ 0 := ne_of_gt (sub_pos.mpr h)
  simp [chord, div_self this]

/-- a chord stays between the two knot values -/
theorem chord_between (s : (K × K) × (K × K)) (h : s.1.1 < s.2.1) (x : K) (h1 : s.1.1 ≤ x)
    (h2 : x ≤ s.2.1) : min s.1.2 s.2.2 ≤ chord s x ∧ chord s x ≤ max s.1.2 s.2.2 := by
  have hd : 0 < s.2.1 - s.1.1 := sub_pos.mpr h
  have ht0 : 0 ≤ (x - s.1.1) / (s.2.1 - s.1.1) := div_nonneg (sub_nonneg.mpr h1) (le_of_lt hd)
  have ht1 : (x - s.1.1) / (s.2.1 - s.1.1) ≤ 1 := by
    rw [div_le_one hd]; linarith
  simp only [chord]
  set t := (x - s.1.1) / (s.2.1 - s.1.1) with ht
  have hm1 := min_le_left s.1.2 s.2.2
  have hm2 := min_le_right s.1.2 s.2.2
  have hM1 := le_max_left s.1.2 s.2.2
  have hM2 := le_max_right s.1.2 s.2.2
  constructor
  · have a1 : min s.1.2 s.2.2 * (1 - t) ≤ s.1.2 * (1 - t) :=
      mul_le_mul_of_nonneg_right hm1 (by linarith)
    have a2 : min s.1.2 s.2.2 * t ≤ s.2.2 * t := mul_le_mul_of_nonneg_right hm2 ht0
    nlinarith
  · have a1 : s.1.2 * (1 - t) ≤ max s.1.2 s.2.2 * (1 - t) :=
      mul_le_mul_of_nonneg_right hM1 (by linarith)
    have a2 : s.2.2 * t ≤ max s.1.2 s.2.2 * t := mul_le_mul_of_nonneg_right hM2 ht0
    nlinarith

theorem segs_strict (xs ys : List K) (hs : StrictAsc xs) (s : (K × K) × (K × K))
    (h : s ∈ segs xs ys) : s.1.1 < s.2.1 := by
  induction xs generalizing ys with
  | nil => simp [segs] at h
  | cons x0 xs ih =>
    cases xs with
    | nil => cases ys <;> simp [segs] at h
    | cons x1 xs =>
      cases ys with
      | nil => simp [segs] at h
      | cons y0 ys =>
        cases ys with
        | nil => simp [segs] at h
        | cons y1 ys =>
          obtain ⟨h01, hs'⟩ := hs
          simp only [segs, List.mem_cons] at h
          rcases h with rfl | h
          · exact h01
          · exact ih (y1 :: ys) hs' h

/-- interpolation of non-negative values is non-negative -/
theorem interpAsc_nonneg (xs ys : List K) (hy : ∀ y ∈ ys, 0 ≤ y) (hs : StrictAsc xs) (x : K)
    (hx0 : xs.headD 0 ≤ x) : 0 ≤ interpAsc xs ys x := by
  induction xs generalizing ys with
  | nil => cases ys with
    | nil => simp [interpAsc]
    | cons y0 ys => simp only [interpAsc]; exact hy y0 (by simp)
  | cons x0 xs ih =>
    cases ys with
    | nil => simp [interpAsc]
    | cons y0 ys =>
      cases xs with
      | nil => simp only [interpAsc]; exact hy y0 (by simp)
      | cons x1 xs =>
        cases ys with
        | nil => simp only [interpAsc]; exact hy y0 (by simp)
        | cons y1 ys =>
          obtain ⟨h01, hs'⟩ := hs
          simp only [List.headD_cons] at hx0
          by_cases hx : x ≤ x1
          · simp only [interpAsc, if_pos hx]
            have hd : 0 < x1 - x0 := sub_pos.mpr h01
            have ht0 : 0 ≤ (x - x0) / (x1 - x0) := div_nonneg (sub_nonneg.mpr hx0) (le_of_lt hd)
            have ht1 : (x - x0) / (x1 - x0) ≤ 1 := by rw [div_le_one hd]; linarith
            have h0 := hy y0 (by simp); have h1 := hy y1 (by simp)
            have := mul_nonneg h0 (sub_nonneg.mpr ht1)
            have := mul_nonneg h1 ht0
            linarith
          · simp only [interpAsc, if_neg hx]
            exact ih (y1 :: ys) (fun y hy' => hy y (List.mem_cons_of_mem _ hy')) hs'
              (by simp only [List.headD_cons]; exact le_of_lt (not_le.mp hx))

end Synphot

namespace Synphot
variable {K : Type} [Field K] [LinearOrder K] [IsStrictOrderedRing K]

theorem strictAsc_head_le_mem (x0 : K) (xs : List K) (hs : StrictAsc (x0 :: xs)) :
    ∀ x ∈ (x0 :: xs), x0 ≤ x := by
  have hp : (x0 :: xs).Pairwise (· < ·) := by
    rw [← List.sortedLT_iff_pairwise, List.sortedLT_iff_isChain, ← strictAsc_iff_chain]; exact hs
  intro x hx
  rcases List.mem_cons.mp hx with rfl | hx
  · exact le_refl _
  · exact le_of_lt (List.rel_of_pairwise_cons hp hx)

theorem strictAsc_mem_le_last (xs : List K) (hs : StrictAsc xs) (d : K) :
    ∀ x ∈ xs, x ≤ xs.getLastD d := by
  induction xs with
  | nil => intro x hx; simp at hx
  | cons x0 xs ih =>
    cases xs with
    | nil => intro x hx; simp at hx; simp [hx]
    | cons x1 xs =>
      obtain ⟨h01, hs'⟩ := hs
      intro x hx
      have hl : (x0 :: x1 :: xs).getLastD d = (x1 :: xs).getLastD d := by simp [List.getLastD]
      rw [hl]
      rcases List.mem_cons.mp hx with rfl | hx
      · exact le_trans (le_of_lt h01) (ih hs' x1 (by simp))
      · exact ih hs' x hx

theorem segs_mem_knots (xs ys : List K) (s : (K × K) × (K × K)) (h : s ∈ segs xs ys) :
    s.1.1 ∈ xs ∧ s.2.1 ∈ xs := by
  induction xs generalizing ys with
  | nil => simp [segs] at h
  | cons x0 xs ih =>
    cases xs with
    | nil => cases ys <;> simp [segs] at h
    | cons x1 xs =>
      cases ys with
      | nil => simp [segs] at h
      | cons y0 ys =>
        cases ys with
        | nil => simp [segs] at h
        | cons y1 ys =>
          simp only [segs, List.mem_cons] at h
          rcases h with rfl | h
          · simp
          · obtain ⟨a, b⟩ := ih (y1 :: ys) h
            exact ⟨List.mem_cons_of_mem _ a, List.mem_cons_of_mem _ b⟩

theorem segs_mem_vals (xs ys : List K) (s : (K × K) × (K × K)) (h : s ∈ segs xs ys) :
    s.1.2 ∈ ys ∧ s.2.2 ∈ ys := by
  induction xs generalizing ys with
  | nil => simp [segs] at h
  | cons x0 xs ih =>
    cases xs with
    | nil => cases ys <;> simp [segs] at h
    | cons x1 xs =>
      cases ys with
      | nil => simp [segs] at h
      | cons y0 ys =>
        cases ys with
        | nil => simp [segs] at h
        | cons y1 ys =>
          simp only [segs, List.mem_cons] at h
          rcases h with rfl | h
          · simp
          · obtain ⟨a, b⟩ := ih (y1 :: ys) h
            exact ⟨List.mem_cons_of_mem _ a, List.mem_cons_of_mem _ b⟩

/-- a strictly descending list with at least two entries has last < first -/
theorem strictDesc_last_lt_head (a b : K) (l : List K) (hs : StrictDesc (a :: b :: l)) :
    (a :: b :: l).getLastD a < a := by
  have hr : StrictAsc (a :: b :: l).reverse := (strictAsc_reverse _).mpr hs
  have hp : (a :: b :: l).Pairwise (fun x y => y < x) := by
    have := (strictDesc_iff_chain (a :: b :: l)).mp hs
    rw [List.isChain_iff_pairwise] at this; exact this
  have hmem : (a :: b :: l).getLastD a ∈ (b :: l) := by
    have : (a :: b :: l).getLastD a = (b :: l).getLast (by simp) := by
      simp [List.getLastD, List.getLast?_cons_cons, List.getLast?_eq_getLast_of_ne_nil]
    rw [this]; exact List.getLast_mem _
  exact List.rel_of_pairwise_cons hp hmem

end Synphot

namespace Synphot
variable {K : Type} [Field K] [LinearOrder K] [IsStrictOrderedRing K]

/-- appending a knot beyond the last one does not change the interpolant on the original range -/
theorem interpAsc_append (w2 y2 : K) :
    ∀ (xs ys : List K), xs.length = ys.length → 2 ≤ xs.length → ∀ x, x ≤ xs.getLastD 0 →
      interpAsc (xs ++ [w2]) (ys ++ [y2]) x = interpAsc xs ys x := by
  intro xs
  induction xs with
  | nil => intro ys _ h2; simp at h2
  | cons x0 xs ih =>
    intro ys hl h2 x hx
    cases ys with
    | nil => simp at hl
    | cons y0 ys =>
      cases xs with
      | nil => simp at h2
      | cons x1 xs =>
        cases ys with
        | nil => simp at hl
        | cons y1 ys =>
          simp only [List.cons_append, interpAsc]
          by_cases hc : x ≤ x1
          · simp [hc]
          · simp only [hc, if_false]
            cases xs with
            | nil =>
              -- x ≤ last = x1 contradicts hc
              simp [List.getLastD] at hx
              exact absurd hx hc
            | cons x2 xs =>
              have := ih (y1 :: ys) (by simpa using hl) (by simp) x (by simpa [List.getLastD] using hx)
              simpa using this

/-- prepending a knot below the first one does not change the interpolant on the original range
(at the first knot both chords give the first value) -/
theorem interpAsc_prepend (w1 y1' x0 x1 y0 y1 : K) (xs ys : List K) (hw : w1 < x0) (h01 : x0 < x1)
    (x : K) (hx : x0 ≤ x) :
    interpAsc (w1 :: x0 :: x1 :: xs) (y1' :: y0 :: y1 :: ys) x = interpAsc (x0 :: x1 :: xs) (y0 :: y1 :: ys) x := by
  by_cases hc : x ≤ x0
  · have hxe : x = x0 := le_antisymm hc hx
    subst hxe
    rw [interpAsc_head x x1 y0 y1 xs ys h01]
    simp only [interpAsc, if_pos (le_refl x)]
    have : x - w1 ≠ 0 := ne_of_gt (sub_pos.mpr hw)
    field_simp
    ring
  · simp only [interpAsc, if_neg hc]

/-- past the first interval the interpolant is the interpolant of the tail table -/
theorem interpAsc_tail (x0 x1 y0 y1 : K) (xs ys : List K) (h01 : x0 < x1) (hs : StrictAsc (x1 :: xs))
    (hl : xs.length = ys.length) (x : K) (hx : x1 ≤ x) :
    interpAsc (x0 :: x1 :: xs) (y0 :: y1 :: ys) x = interpAsc (x1 :: xs) (y1 :: ys) x := by
  by_cases hc : x ≤ x1
  · have hxe : x = x1 := le_antisymm hc hx
    subst hxe
    simp only [interpAsc, if_pos (le_refl x)]
    have hne : x - x0 ≠ 0 := ne_of_gt (sub_pos.mpr h01)
    have hv : interpAsc (x :: xs) (y1 :: ys) x = y1 := by
      cases xs with
      | nil => cases ys <;> simp [interpAsc]
      | cons x2 xs =>
        cases ys with
        | nil => simp at hl
        | cons y2 ys => exact interpAsc_head x x2 y1 y2 xs ys hs.1
    rw [hv]; field_simp; ring
  · simp only [interpAsc, if_neg hc]

/-- at its own knots the interpolant returns the tabulated values -/
theorem interpAsc_at_knots :
    ∀ (xs ys : List K), StrictAsc xs → xs.length = ys.length → xs.map (interpAsc xs ys) = ys := by
  intro xs
  induction xs with
  | nil => intro ys _ hl; cases ys <;> simp_all
  | cons x0 xs ih =>
    intro ys hs hl
    cases ys with
    | nil => simp at hl
    | cons y0 ys =>
      cases xs with
      | nil => cases ys <;> simp_all [interpAsc]
      | cons x1 xs =>
        cases ys with
        | nil => simp at hl
        | cons y1 ys =>
          obtain ⟨h01, hs'⟩ := hs
          have hl' : xs.length = ys.length := by simpa using hl
          have ihx := ih (y1 :: ys) hs' (by simpa using hl)
          rw [List.map_cons, interpAsc_head x0 x1 y0 y1 xs ys h01]
          congr 1
          have hm : (x1 :: xs).map (interpAsc (x0 :: x1 :: xs) (y0 :: y1 :: ys)) =
              (x1 :: xs).map (interpAsc (x1 :: xs) (y1 :: ys)) := by
            apply List.map_congr_left
            intro x hx
            exact interpAsc_tail x0 x1 y0 y1 xs ys h01 hs' hl' x (strictAsc_head_le_mem x1 xs hs' x hx)
          rw [hm, ihx]

theorem isDesc_false_of_asc (l : List K) (hs : StrictAsc l) : isDesc l = false := by
  unfold isDesc
  cases hl : l with
  | nil => rfl
  | cons a t =>
    have hmem : (a :: t).getLast (List.cons_ne_nil _ _) ∈ (a :: t) := List.getLast_mem _
    have hle := strictAsc_head_le_mem a t (hl ▸ hs) _ hmem
    have hlast : (a :: t).getLast? = some ((a :: t).getLast (List.cons_ne_nil _ _)) :=
      List.getLast?_eq_getLast_of_ne_nil _
    simp only [List.head?_cons, hlast]
    exact decide_eq_false (not_lt.mpr hle)

theorem clipNeg_id (k : Bool) (y : List K) (h : k = true ∨ ∀ v ∈ y, 0 ≤ v) : (clipNeg k y).1 = y := by
  unfold clipNeg
  by_cases hk : k = true
  · simp [hk]
  · simp only [hk, Bool.false_eq_true, if_false]
    rcases h with h | h
    · exact absurd h hk
    · conv_rhs => rw [← List.map_id y]
      apply List.map_congr_left
      intro v hv
      simp [not_lt.mpr (h v hv)]

theorem strictAsc_append_one (l : List K) (w : K) (hs : StrictAsc l) (h : ∀ x ∈ l.getLast?, x < w) :
    StrictAsc (l ++ [w]) := by
  rw [strictAsc_iff_chain] at *
  rw [List.isChain_append]
  refine ⟨hs, by simp, ?_⟩
  intro x hx y hy
  simp at hy; subst hy; exact h x hx

theorem strictAsc_cons_one (l : List K) (w : K) (hs : StrictAsc l) (h : ∀ x ∈ l.head?, w < x) :
    StrictAsc (w :: l) := by
  rw [strictAsc_iff_chain] at *
  rw [List.isChain_cons]
  exact ⟨h, hs⟩

theorem dropLast_last_lt (a b : K) (l : List K) (hs : StrictAsc (a :: b :: l)) :
    ((a :: b :: l).dropLast).getLastD a < (a :: b :: l).getLastD a ∧
      a ≤ ((a :: b :: l).dropLast).getLastD a := by
  have hne : (a :: b :: l) ≠ [] := by simp
  have hd := List.dropLast_append_getLast hne
  have hch := (strictAsc_iff_chain (a :: b :: l)).mp hs
  rw [← hd, List.isChain_append] at hch
  obtain ⟨_, _, h3⟩ := hch
  have hdl : (a :: b :: l).dropLast = a :: (b :: l).dropLast := by simp [List.dropLast]
  have hne2 : (a :: b :: l).dropLast ≠ [] := by rw [hdl]; simp
  have hl1 : ((a :: b :: l).dropLast).getLastD a = ((a :: b :: l).dropLast).getLast hne2 := by
    rw [List.getLastD_eq_getLast?, List.getLast?_eq_getLast_of_ne_nil hne2]; rfl
  have hl2 : (a :: b :: l).getLastD a = (a :: b :: l).getLast hne := by
    rw [List.getLastD_eq_getLast?, List.getLast?_eq_getLast_of_ne_nil hne]; rfl
  constructor
  · rw [hl1, hl2]
    apply h3
    · rw [List.getLast?_eq_getLast_of_ne_nil hne2]; rfl
    · simp
  · rw [hl1]
    have hmem : ((a :: b :: l).dropLast).getLast hne2 ∈ (a :: b :: l) :=
      List.dropLast_subset _ (List.getLast_mem hne2)
    exact strictAsc_head_le_mem a (b :: l) hs _ hmem

end Synphot
