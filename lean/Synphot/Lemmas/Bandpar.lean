/-
  Synphot.Lemmas.Bandpar — trapezoid sums of integrands over a sample list (`Bandpar.integ`):
  linearity, order reversal, monotonicity / weighted-mean bounds on ascending grids,
  strict positivity; consequences of `Transc.Lawful` used by C11.
-/
import Mathlib.Tactic.Ring
import Mathlib.Tactic.FieldSimp
import Mathlib.Tactic.Linarith
import Mathlib.Tactic.Positivity
import Synphot.Lemmas.Trapz
import Synphot.Core.Bandpar

set_option linter.unusedSectionVars false
set_option linter.unusedSimpArgs false
set_option linter.unusedVariables false

namespace Synphot.Bandpar
variable {K : Type} [Field K] [LinearOrder K] [IsStrictOrderedRing K]

/-! ### `integ`: structure -/

@[simp] theorem integ_nil (g : K × K → K) : integ g [] = 0 := rfl
@[simp] theorem integ_single (g : K × K → K) (p : K × K) : integ g [p] = 0 := rfl

/-- the segment form -/
theorem integ_cons_cons (g : K × K → K) (p q : K × K) (t : List (K × K)) :
    integ g (p :: q :: t) = (q.1 - p.1) * (g p + g q) / 2 + integ g (q :: t) := rfl

theorem integ_snd (l : List (K × K)) : integ (fun p => p.2) l = trapz l := by
  unfold integ
  have : (l.map fun p : K × K => (p.1, p.2)) = l := by simp
  rw [this]

theorem integ_congr (g h : K × K → K) (l : List (K × K)) (hgh : ∀ p ∈ l, g p = h p) :
    integ g l = integ h l := by
  unfold integ
  congr 1
  apply List.map_congr_left
  intro p hp
  rw [hgh p hp]

/-- reversing the sampling order flips the sign of every trapezoid sum -/
theorem integ_reverse (g : K × K → K) (l : List (K × K)) : integ g l.reverse = - integ g l := by
  unfold integ
  rw [List.map_reverse, trapz_reverse]

theorem integ_lin3 (a b c : K) (f g h : K × K → K) (l : List (K × K)) :
    integ (fun p => a * f p + b * g p + c * h p) l = a * integ f l + b * integ g l + c * integ h l := by
  induction l with
  | nil => simp
  | cons p l ih =>
    cases l with
    | nil => simp
    | cons q l =>
      simp only [integ_cons_cons] at ih ⊢
      rw [ih]; ring

theorem integ_smul (k : K) (g : K × K → K) (l : List (K × K)) :
    integ (fun p => k * g p) l = k * integ g l := by
  induction l with
  | nil => simp
  | cons p l ih =>
    cases l with
    | nil => simp
    | cons q l =>
      simp only [integ_cons_cons] at ih ⊢
      rw [ih]; ring

theorem integ_scaleY (k : K) (g : K × K → K) (l : List (K × K)) :
    integ g (scaleY k l) = integ (fun p => g (p.1, k * p.2)) l := by
  unfold integ scaleY
  rw [List.map_map]
  rfl

/-! ### ascending grids -/

/-- strictly ascending abscissae -/
def StrictAscX : List (K × K) → Prop
  | p :: q :: t => p.1 < q.1 ∧ StrictAscX (q :: t)
  | _ => True

theorem StrictAscX.ascX : ∀ (l : List (K × K)), StrictAscX l → AscX l
  | [], _ => trivial
  | [_], _ => trivial
  | p :: q :: t, h => ⟨le_of_lt h.1, StrictAscX.ascX (q :: t) h.2⟩

theorem integ_mono (f g : K × K → K) (l : List (K × K)) (hx : AscX l)
    (hfg : ∀ p ∈ l, f p ≤ g p) : integ f l ≤ integ g l := by
  induction l with
  | nil => simp
  | cons a l ih =>
    cases l with
    | nil => simp
    | cons b l =>
      obtain ⟨hab, hx'⟩ := hx
      have ha := hfg a (by simp)
      have hb := hfg b (by simp)
      have ih' := ih hx' (fun p hp => hfg p (List.mem_cons_of_mem _ hp))
      rw [integ_cons_cons, integ_cons_cons]
      have hd : 0 ≤ b.1 - a.1 := sub_nonneg.mpr hab
      have h1 : (b.1 - a.1) * (f a + f b) ≤ (b.1 - a.1) * (g a + g b) :=
        mul_le_mul_of_nonneg_left (by linarith) hd
      linarith

theorem integ_zero (l : List (K × K)) : integ (fun _ => (0 : K)) l = 0 := by
  have := integ_smul (0 : K) (fun _ => (0 : K)) l
  simpa using this

theorem integ_nonneg (g : K × K → K) (l : List (K × K)) (hx : AscX l)
    (hg : ∀ p ∈ l, 0 ≤ g p) : 0 ≤ integ g l := by
  have := integ_mono (fun _ => (0 : K)) g l hx hg
  rwa [integ_zero] at this

/-- the weighted-mean bound: on an ascending grid, with a non-negative integrand `g` and a weight
`w` between `m` and `M` at every sample, `trapz(w·g)` lies between `m·trapz(g)` and `M·trapz(g)` -/
theorem integ_weighted_bounds (m M : K) (w g : K × K → K) (l : List (K × K)) (hx : AscX l)
    (hg : ∀ p ∈ l, 0 ≤ g p) (hw : ∀ p ∈ l, m ≤ w p ∧ w p ≤ M) :
    m * integ g l ≤ integ (fun p => w p * g p) l ∧ integ (fun p => w p * g p) l ≤ M * integ g l := by
  constructor
  · rw [← integ_smul]
    exact integ_mono _ _ l hx (fun p hp => mul_le_mul_of_nonneg_right (hw p hp).1 (hg p hp))
  · rw [← integ_smul]
    exact integ_mono _ _ l hx (fun p hp => mul_le_mul_of_nonneg_right (hw p hp).2 (hg p hp))

/-- a non-negative integrand that is positive at some sample has a positive trapezoid sum over a
strictly ascending grid of at least two points -/
theorem integ_pos (g : K × K → K) (l : List (K × K)) (hx : StrictAscX l)
    (hg : ∀ p ∈ l, 0 ≤ g p) (hpos : ∃ p ∈ l, 0 < g p) (hlen : 2 ≤ l.length) : 0 < integ g l := by
  induction l with
  | nil => simp at hlen
  | cons a l ih =>
    cases l with
    | nil => simp at hlen
    | cons b l =>
      obtain ⟨hab, hx'⟩ := hx
      have ha := hg a (by simp)
      have hb := hg b (by simp)
      have hd : 0 < b.1 - a.1 := sub_pos.mpr hab
      have hrest : 0 ≤ integ g (b :: l) :=
        integ_nonneg g (b :: l) (StrictAscX.ascX _ hx') (fun p hp => hg p (List.mem_cons_of_mem _ hp))
      rw [integ_cons_cons]
      obtain ⟨p, hp, hpp⟩ := hpos
      rcases List.mem_cons.mp hp with rfl | hp'
      · have : 0 < (b.1 - p.1) * (g p + g b) := mul_pos hd (by linarith)
        linarith
      · rcases List.mem_cons.mp hp' with rfl | hp''
        · have : 0 < (p.1 - a.1) * (g a + g p) := mul_pos hd (by linarith)
          linarith
        · have hl : 2 ≤ (b :: l).length := by
            cases l with
            | nil => simp at hp''
            | cons c l => simp
          have ih' := ih hx' (fun q hq => hg q (List.mem_cons_of_mem _ hq)) ⟨p, hp', hpp⟩ hl
          have : 0 ≤ (b.1 - a.1) * (g a + g b) := mul_nonneg hd.le (by linarith)
          linarith

/-! ### consequences of the transcendental laws -/

section Laws
variable {T : Transc K}

theorem exp_mono (hT : T.Lawful) {x y : K} (h : x ≤ y) : T.exp x ≤ T.exp y := by
  rcases lt_or_eq_of_le h with h | h
  · exact le_of_lt (hT.exp_strictMono x y h)
  · rw [h]

theorem exp_injective (hT : T.Lawful) {x y : K} (h : T.exp x = T.exp y) : x = y := by
  rcases lt_trichotomy x y with hlt | heq | hgt
  · exact absurd h (ne_of_lt (hT.exp_strictMono x y hlt))
  · exact heq
  · exact absurd h.symm (ne_of_lt (hT.exp_strictMono y x hgt))

theorem ln_one (hT : T.Lawful) : T.ln 1 = 0 := by
  apply exp_injective hT
  rw [hT.exp_ln 1 one_pos, hT.exp_zero]

theorem ln_lt_ln (hT : T.Lawful) {a b : K} (ha : 0 < a) (hab : a < b) : T.ln a < T.ln b := by
  by_contra hc
  have h1 := exp_mono hT (not_lt.mp hc)
  rw [hT.exp_ln a ha, hT.exp_ln b (lt_trans ha hab)] at h1
  exact absurd hab (not_lt.mpr h1)

theorem ln_le_ln (hT : T.Lawful) {a b : K} (ha : 0 < a) (hab : a ≤ b) : T.ln a ≤ T.ln b := by
  rcases lt_or_eq_of_le hab with h | h
  · exact le_of_lt (ln_lt_ln hT ha h)
  · rw [h]

theorem ln_pos (hT : T.Lawful) {a : K} (ha : 1 < a) : 0 < T.ln a := by
  have := ln_lt_ln hT one_pos ha
  rwa [ln_one hT] at this

/-- `sqrt(x·x) = x` for `x ≥ 0` -/
theorem sqrt_mul_self_eq (hT : T.Lawful) {x : K} (hx : 0 ≤ x) : T.sqrt (x * x) = x := by
  have h1 := hT.sqrt_mul_self (x * x) (mul_nonneg hx hx)
  have h2 := hT.sqrt_nonneg (x * x)
  exact (mul_self_inj_of_nonneg h2 hx).mp h1

theorem sqrt_zero (hT : T.Lawful) : T.sqrt (0 : K) = 0 := by
  have := sqrt_mul_self_eq hT (le_refl (0 : K))
  simpa using this

end Laws

/-! ### the maximum -/

theorem foldl_max_ge_init (t : List (K × K)) (m : K) : m ≤ t.foldl (fun m q => max m q.2) m := by
  induction t generalizing m with
  | nil => simp
  | cons a t ih => exact le_trans (le_max_left m a.2) (ih (max m a.2))

theorem foldl_max_ge_mem (t : List (K × K)) (m : K) (p : K × K) (hp : p ∈ t) :
    p.2 ≤ t.foldl (fun m q => max m q.2) m := by
  induction t generalizing m with
  | nil => simp at hp
  | cons a t ih =>
    rcases List.mem_cons.mp hp with rfl | h
    · exact le_trans (le_max_right m p.2) (foldl_max_ge_init t (max m p.2))
    · exact ih (max m a.2) h

theorem foldl_max_attained (t : List (K × K)) (m : K) :
    t.foldl (fun m q => max m q.2) m = m ∨ ∃ p ∈ t, p.2 = t.foldl (fun m q => max m q.2) m := by
  induction t generalizing m with
  | nil => left; rfl
  | cons a t ih =>
    rcases ih (max m a.2) with h | ⟨p, hp, hpp⟩
    · rcases max_choice m a.2 with hm | hm
      · left; simp only [List.foldl_cons]; rw [h, hm]
      · right; exact ⟨a, by simp, by simp only [List.foldl_cons]; rw [h, hm]⟩
    · right; exact ⟨p, List.mem_cons_of_mem _ hp, by simpa using hpp⟩

/-- `tpeak` is an upper bound of the samples … -/
theorem le_tpeak (l : List (K × K)) (p : K × K) (hp : p ∈ l) : p.2 ≤ tpeak l := by
  cases l with
  | nil => simp at hp
  | cons a t =>
    rcases List.mem_cons.mp hp with rfl | h
    · exact foldl_max_ge_init t p.2
    · exact foldl_max_ge_mem t a.2 p h

/-- … and is attained -/
theorem tpeak_attained (l : List (K × K)) (hl : l ≠ []) : ∃ p ∈ l, p.2 = tpeak l := by
  cases l with
  | nil => exact absurd rfl hl
  | cons a t =>
    rcases foldl_max_attained t a.2 with h | ⟨p, hp, hpp⟩
    · exact ⟨a, by simp, h.symm⟩
    · exact ⟨p, List.mem_cons_of_mem _ hp, hpp⟩

/-- the maximum is characterised by these two facts -/
theorem tpeak_unique (l : List (K × K)) (v : K) (hub : ∀ p ∈ l, p.2 ≤ v) (hat : ∃ p ∈ l, p.2 = v) :
    tpeak l = v := by
  obtain ⟨p, hp, hpv⟩ := hat
  have hl : l ≠ [] := by rintro rfl; simp at hp
  obtain ⟨q, hq, hqv⟩ := tpeak_attained l hl
  apply le_antisymm
  · rw [← hqv]; exact hub q hq
  · rw [← hpv]; exact le_tpeak l p hp

end Synphot.Bandpar
