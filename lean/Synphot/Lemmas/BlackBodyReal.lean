/-
  Synphot.Lemmas.BlackBodyReal — real analysis for C16: the derivative of Planck's energy density
  `B_λ(T)` (the generic `planckFlam` instantiated at ℝ with the real exponential) with respect to
  the wavelength, Wien's transcendental equation `(x − 5)eˣ + 5 = 0` (existence and uniqueness of the
  positive root) and the global maximum of `B_λ(T)`.
-/
import Mathlib.Analysis.SpecialFunctions.ExpDeriv
import Mathlib.Analysis.Calculus.Deriv.Inv
import Mathlib.Analysis.Calculus.Deriv.Pow
import Mathlib.Analysis.Calculus.Deriv.Mul
import Mathlib.Analysis.Calculus.Deriv.MeanValue
import Mathlib.Topology.Order.IntermediateValue
import Mathlib.Analysis.SpecialFunctions.Exp
import Synphot.Lemmas.BlackBody
import Synphot.Lemmas.TranscReal

set_option linter.unusedVariables false

namespace Synphot.BlackBody
open Synphot Set

/-- `d/dλ [2hc²/λ⁵ / (eˣ − 1)] = 2hc² λ⁴ [(x − 5) eˣ + 5] / (λ⁵ (eˣ − 1))²`, `x = hc/(λkT)` -/
theorem planckFlam_hasDerivAt (C : BBConst ℝ) (hC : C.Pos) {lam temp : ℝ} (hl : 0 < lam) (ht : 0 < temp) :
    HasDerivAt (fun l => planckFlam C Transc.real l temp)
      (2 * C.h * C.c ^ 2 * 10 ^ 16 * lam ^ 4 *
          ((boltzArg C lam temp - 5) * Real.exp (boltzArg C lam temp) + 5) /
        (lam ^ 5 * (Real.exp (boltzArg C lam temp) - 1)) ^ 2) lam := by
  have hh := hC.h; have hc := hC.c; have hk := hC.kB
  set a : ℝ := C.h * C.c / (C.kB * temp) with ha
  have hfun : (fun l => planckFlam C Transc.real l temp) =
      fun l => (2 * C.h * C.c ^ 2 * 10 ^ 16) * (l ^ 5 * (Real.exp (a * l⁻¹) - 1))⁻¹ := by
    funext l
    unfold planckFlam boltzArg
    rw [show C.h * C.c / (l * C.kB * temp) = a * l⁻¹ by rw [ha]; ring]
    rw [div_eq_mul_inv]; rfl
  have hx : boltzArg C lam temp = a * lam⁻¹ := by unfold boltzArg; rw [ha]; ring
  have hE : 0 < Real.exp (a * lam⁻¹) - 1 := by
    have := expBoltz_sub_one_pos hC Transc.real_lawful hl ht
    rwa [hx] at this
  have hg0 : lam ^ 5 * (Real.exp (a * lam⁻¹) - 1) ≠ 0 := by positivity
  have d1 : HasDerivAt (fun l : ℝ => a * l⁻¹) (a * -(lam ^ 2)⁻¹) lam :=
    (hasDerivAt_inv hl.ne').const_mul a
  have d2 := (d1.exp).sub_const 1
  have d3 := (hasDerivAt_pow 5 lam).mul d2
  have d4 := (d3.inv hg0).const_mul (2 * C.h * C.c ^ 2 * 10 ^ 16)
  rw [hfun, hx]
  have d5 : HasDerivAt (fun l => (2 * C.h * C.c ^ 2 * 10 ^ 16) * (l ^ 5 * (Real.exp (a * l⁻¹) - 1))⁻¹)
      (2 * C.h * C.c ^ 2 * 10 ^ 16 *
        (-(((5 : ℕ) : ℝ) * lam ^ (5 - 1) * (Real.exp (a * lam⁻¹) - 1) +
            lam ^ 5 * (Real.exp (a * lam⁻¹) * (a * -(lam ^ 2)⁻¹))) /
          (lam ^ 5 * (Real.exp (a * lam⁻¹) - 1)) ^ 2)) lam := d4
  refine d5.congr_deriv ?_
  have hl0 : lam ≠ 0 := hl.ne'
  have hE0 : Real.exp (a * lam⁻¹) - 1 ≠ 0 := hE.ne'
  field_simp
  ring

/-! ### Wien's equation and the peak -/

/-- Wien's transcendental function `(x − 5)eˣ + 5` -/
noncomputable def wienW (x : ℝ) : ℝ := (x - 5) * Real.exp x + 5

theorem wienW_hasDerivAt (x : ℝ) : HasDerivAt wienW ((x - 4) * Real.exp x) x := by
  have h := (((hasDerivAt_id x).sub_const 5).mul (Real.hasDerivAt_exp x)).add_const 5
  refine h.congr_deriv ?_
  simp; ring

theorem wienW_continuous : Continuous wienW := by
  unfold wienW; fun_prop

theorem wienW_zero : wienW 0 = 0 := by simp [wienW]

theorem wienW_neg_of_le_four {x : ℝ} (h0 : 0 < x) (h4 : x ≤ 4) : wienW x < 0 := by
  have hanti : StrictAntiOn wienW (Icc 0 4) := by
    apply strictAntiOn_of_deriv_neg (convex_Icc 0 4) wienW_continuous.continuousOn
    intro y hy
    rw [interior_Icc] at hy
    rw [(wienW_hasDerivAt y).deriv]
    exact mul_neg_of_neg_of_pos (by linarith [hy.2]) (Real.exp_pos y)
  have := hanti (left_mem_Icc.mpr (by norm_num)) ⟨h0.le, h4⟩ h0
  rwa [wienW_zero] at this

theorem wienW_strictMonoOn : StrictMonoOn wienW (Ici 4) := by
  apply strictMonoOn_of_deriv_pos (convex_Ici 4) wienW_continuous.continuousOn
  intro y hy
  rw [interior_Ici] at hy
  rw [(wienW_hasDerivAt y).deriv]
  exact mul_pos (by linarith [mem_Ioi.mp hy]) (Real.exp_pos y)

/-- the positive root of Wien's equation exists, lies in (4, 5), and separates the signs -/
theorem wien_root : ∃ x0 : ℝ, 4 < x0 ∧ x0 < 5 ∧ wienW x0 = 0 ∧
    (∀ x, 0 < x → x < x0 → wienW x < 0) ∧ (∀ x, x0 < x → 0 < wienW x) := by
  have h4 : wienW 4 < 0 := wienW_neg_of_le_four (by norm_num) le_rfl
  have h5 : 0 < wienW 5 := by simp [wienW]
  obtain ⟨x0, ⟨hx4, hx5⟩, hx0⟩ :=
    intermediate_value_Ioo (by norm_num : (4:ℝ) ≤ 5) wienW_continuous.continuousOn ⟨h4, h5⟩
  refine ⟨x0, hx4, hx5, hx0, ?_, ?_⟩
  · intro x hx hlt
    by_cases hx4' : x ≤ 4
    · exact wienW_neg_of_le_four hx hx4'
    · have := wienW_strictMonoOn (mem_Ici.mpr (le_of_not_ge hx4')) (mem_Ici.mpr hx4.le) hlt
      rwa [hx0] at this
  · intro x hlt
    have := wienW_strictMonoOn (mem_Ici.mpr hx4.le) (mem_Ici.mpr (hx4.le.trans hlt.le)) hlt
    rwa [hx0] at this

/-- sign of the derivative of `B_λ(T)` = sign of Wien's function at `x = hc/(λkT)` -/
theorem planckFlam_deriv_eq (C : BBConst ℝ) (hC : C.Pos) {lam temp : ℝ} (hl : 0 < lam) (ht : 0 < temp) :
    ∃ P : ℝ, 0 < P ∧ deriv (fun l => planckFlam C Transc.real l temp) lam = P * wienW (boltzArg C lam temp) := by
  have hh := hC.h; have hc := hC.c
  have hE := expBoltz_sub_one_pos hC Transc.real_lawful hl ht
  rw [Transc.real_exp] at hE
  refine ⟨2 * C.h * C.c ^ 2 * 10 ^ 16 * lam ^ 4 / (lam ^ 5 * (Real.exp (boltzArg C lam temp) - 1)) ^ 2,
    by positivity, ?_⟩
  rw [(planckFlam_hasDerivAt C hC hl ht).deriv]
  unfold wienW
  ring

/-- a positive root of Wien's equation separates the signs (hence is unique) -/
theorem wienW_sign {x0 : ℝ} (h0 : 0 < x0) (hr : wienW x0 = 0) :
    (∀ x, 0 < x → x < x0 → wienW x < 0) ∧ (∀ x, x0 < x → 0 < wienW x) := by
  obtain ⟨x1, _, _, hr1, hneg, hpos⟩ := wien_root
  have : x0 = x1 := by
    rcases lt_trichotomy x0 x1 with h | h | h
    · have := hneg x0 h0 h; rw [hr] at this; exact absurd this (lt_irrefl 0)
    · exact h
    · have := hpos x0 h; rw [hr] at this; exact absurd this (lt_irrefl 0)
  subst this
  exact ⟨hneg, hpos⟩

theorem wienW_root_unique {x y : ℝ} (hx : 0 < x) (hrx : wienW x = 0) (hy : 0 < y) (hry : wienW y = 0) :
    x = y := by
  obtain ⟨hneg, hpos⟩ := wienW_sign hx hrx
  rcases lt_trichotomy y x with h | h | h
  · have := hneg y hy h; rw [hry] at this; exact absurd this (lt_irrefl 0)
  · exact h.symm
  · have := hpos y h; rw [hry] at this; exact absurd this (lt_irrefl 0)

/-- if `x₀ > 0` solves `(x − 5)eˣ + 5 = 0` then `B_λ(T)` has its unique global maximum over `λ > 0` at
`λ* = hc/(x₀ k T)` -/
theorem planckFlam_peak_of_root (C : BBConst ℝ) (hC : C.Pos) {temp x0 : ℝ} (ht : 0 < temp)
    (hx0pos : 0 < x0) (hr : wienW x0 = 0) :
    0 < C.h * C.c / (x0 * C.kB * temp) ∧
      ∀ l, 0 < l → l ≠ C.h * C.c / (x0 * C.kB * temp) →
        planckFlam C Transc.real l temp < planckFlam C Transc.real (C.h * C.c / (x0 * C.kB * temp)) temp := by
  obtain ⟨hneg, hpos⟩ := wienW_sign hx0pos hr
  have hh := hC.h; have hc := hC.c; have hk := hC.kB
  set ls : ℝ := C.h * C.c / (x0 * C.kB * temp) with hls
  have hlspos : 0 < ls := by rw [hls]; positivity
  refine ⟨hlspos, ?_⟩
  have hb : ∀ l, 0 < l → boltzArg C l temp = x0 * ls / l := by
    intro l hl; unfold boltzArg; rw [hls]; field_simp
  have hbpos : ∀ l, 0 < l → 0 < boltzArg C l temp := fun l hl => boltzArg_pos hC hl ht
  have hcont : ∀ l, 0 < l → ContinuousAt (fun l => planckFlam C Transc.real l temp) l :=
    fun l hl => (planckFlam_hasDerivAt C hC hl ht).continuousAt
  have hmono : StrictMonoOn (fun l => planckFlam C Transc.real l temp) (Ioc 0 ls) := by
    apply strictMonoOn_of_deriv_pos (convex_Ioc 0 ls)
      (fun l hl => (hcont l hl.1).continuousWithinAt)
    intro l hl
    rw [interior_Ioc] at hl
    obtain ⟨P, hP, hd⟩ := planckFlam_deriv_eq C hC hl.1 ht
    rw [hd]
    apply mul_pos hP
    apply hpos
    rw [hb l hl.1, lt_div_iff₀ hl.1]
    exact mul_lt_mul_of_pos_left hl.2 hx0pos
  have hanti : StrictAntiOn (fun l => planckFlam C Transc.real l temp) (Ici ls) := by
    apply strictAntiOn_of_deriv_neg (convex_Ici ls)
      (fun l hl => (hcont l (lt_of_lt_of_le hlspos hl)).continuousWithinAt)
    intro l hl
    rw [interior_Ici] at hl
    have hl0 : 0 < l := lt_trans hlspos hl
    obtain ⟨P, hP, hd⟩ := planckFlam_deriv_eq C hC hl0 ht
    rw [hd]
    apply mul_neg_of_pos_of_neg hP
    apply hneg _ (hbpos l hl0)
    rw [hb l hl0, div_lt_iff₀ hl0]
    exact mul_lt_mul_of_pos_left hl hx0pos
  intro l hl hne
  rcases lt_or_gt_of_ne hne with h | h
  · exact hmono ⟨hl, h.le⟩ ⟨hlspos, le_rfl⟩ h
  · exact hanti (mem_Ici.mpr le_rfl) (mem_Ici.mpr h.le) h

/-- Wien's displacement law: the energy density `B_λ(T)` has a unique global maximum over `λ > 0`, at
`λ* = hc/(x₀ k T)` where `x₀ ∈ (4, 5)` is the positive root of `(x − 5)eˣ + 5 = 0` -/
theorem planckFlam_peak (C : BBConst ℝ) (hC : C.Pos) {temp : ℝ} (ht : 0 < temp) :
    ∃ x0 : ℝ, 4 < x0 ∧ x0 < 5 ∧ (x0 - 5) * Real.exp x0 + 5 = 0 ∧
      0 < C.h * C.c / (x0 * C.kB * temp) ∧
      ∀ l, 0 < l → l ≠ C.h * C.c / (x0 * C.kB * temp) →
        planckFlam C Transc.real l temp < planckFlam C Transc.real (C.h * C.c / (x0 * C.kB * temp)) temp := by
  obtain ⟨x0, hx4, hx5, hx0, _, _⟩ := wien_root
  obtain ⟨h1, h2⟩ := planckFlam_peak_of_root C hC ht (by linarith) hx0
  exact ⟨x0, hx4, hx5, hx0, h1, h2⟩

end Synphot.BlackBody
