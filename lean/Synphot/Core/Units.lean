/-
  Synphot.Core.Units — `units.convert_flux`, `_convert_flux`,
  `spectral_density_count`, `spectral_density_vega` (synphot/units.py:61-252).

  All wavelengths are in Angstrom here (the conversion of other wavelength units is
  `Core/WaveUnit.lean`).  `h` is Planck's constant in erg s and `c` the speed of light
  in Angstrom/s, as `synphot.units.H`, `synphot.units.C` provide them.
-/
import Synphot.Core.Binning
import Synphot.Core.Transc

namespace Synphot
variable {K : Type} [Field K] [LinearOrder K] [IsStrictOrderedRing K]

/-- supported flux units; `jy s` is a prefixed Jansky with `s` = its value in Jy (`mJy` ↦ 1/1000) -/
inductive FluxUnit (K : Type)
  | photlam | photnu | flam | fnu | jy (scale : K) | stmag | abmag | count | obmag | vegamag
  deriving DecidableEq, Repr

/-- physical constants and zero points the conversion uses -/
structure PhysConst (K : Type) where
  h : K          -- erg s
  c : K          -- Angstrom / s
  stZero : K     -- flux of STmag = 0 in FLAM  (10^(-21.1/2.5))
  abZero : K     -- flux of ABmag = 0 in FNU   (10^(-48.6/2.5))
  jyFnu : K      -- 1 Jy in FNU (1e-23)

def FluxUnit.isMag : FluxUnit K → Bool
  | .stmag | .abmag | .obmag | .vegamag => true
  | _ => false

def FluxUnit.needsArea : FluxUnit K → Bool
  | .count | .obmag => true
  | _ => false

def FluxUnit.needsVega : FluxUnit K → Bool
  | .vegamag => true
  | _ => false

/-- per-sample context of a conversion: wavelength, bin width × area (if an area was given and
the bin widths could be formed), Vega's PHOTLAM flux at this wavelength (if a Vega spectrum was given) -/
structure Samp (K : Type) where
  lam : K
  countFactor : Option K
  vega : Option K

/-- magnitude of a linear value: `-2.5 log10 x`; `log10` of a non-positive number is NaN or -inf in NumPy -/
def toMag (T : Transc K) (x : K) : Except Err K :=
  if x ≤ 0 then .error .nan else .ok (-(5/2) * T.log10 x)

def ofMag (T : Transc K) (m : K) : K := T.pow10 (-(2/5) * m)

/-- one sample, any supported unit → PHOTLAM -/
def toPhotlam (P : PhysConst K) (T : Transc K) (s : Samp K) (u : FluxUnit K) (f : K) : Except Err K :=
  match u with
  | .photlam => .ok f
  | .photnu => .ok (f * P.c / s.lam ^ 2)
  | .flam => .ok (f * s.lam / (P.h * P.c))
  | .fnu => .ok (f * P.c / s.lam ^ 2 * s.lam / (P.h * P.c))
  | .jy k => .ok (f * k * P.jyFnu * P.c / s.lam ^ 2 * s.lam / (P.h * P.c))
  | .stmag => .ok (ofMag T f * P.stZero * s.lam / (P.h * P.c))
  | .abmag => .ok (ofMag T f * P.abZero * P.c / s.lam ^ 2 * s.lam / (P.h * P.c))
  | .count => match s.countFactor with
      | none => .error .synphotError
      | some w => .ok (f / w)
  | .obmag => match s.countFactor with
      | none => .error .synphotError
      | some w => .ok (ofMag T f / w)
  | .vegamag => match s.vega with
      | none => .error .synphotError
      | some v => .ok (ofMag T f * v)

/-- one sample, PHOTLAM → any supported unit -/
def ofPhotlam (P : PhysConst K) (T : Transc K) (s : Samp K) (u : FluxUnit K) (p : K) : Except Err K :=
  match u with
  | .photlam => .ok p
  | .photnu => .ok (p * s.lam ^ 2 / P.c)
  | .flam => .ok (p * (P.h * P.c) / s.lam)
  | .fnu => .ok (p * (P.h * P.c) / s.lam * s.lam ^ 2 / P.c)
  | .jy k => .ok (p * (P.h * P.c) / s.lam * s.lam ^ 2 / P.c / (k * P.jyFnu))
  | .stmag => toMag T (p * (P.h * P.c) / s.lam / P.stZero)
  | .abmag => toMag T (p * (P.h * P.c) / s.lam * s.lam ^ 2 / P.c / P.abZero)
  | .count => match s.countFactor with
      | none => .error .synphotError
      | some w => .ok (p * w)
  | .obmag => match s.countFactor with
      | none => .error .synphotError
      | some w => toMag T (p * w)
  | .vegamag => match s.vega with
      | none => .error .synphotError
      | some v => toMag T (p / v)

/-- `convert_flux` at one sample: identical unit names return the input untouched (no check at
all), everything else goes through PHOTLAM (astropy's direct equivalency path computes the same
real number; only its rounding differs). -/
def convertOne (P : PhysConst K) (T : Transc K) (s : Samp K) (uin uout : FluxUnit K) (f : K) :
    Except Err K :=
  if uin = uout then .ok f
  else do
    let p ← toPhotlam P T s uin f
    ofPhotlam P T s uout p

/-- `spectral_density_count` factors: bin widths of the wavelengths (as bin centres) × area -/
def countFactors (w : List K) (area : K) : Except Err (List K) := do
  let e ← calcBinEdges w
  let bw ← binWidths e
  pure (bw.map (· * area))

/-- per-sample contexts: wavelength `i` with the `i`-th count factor and Vega flux (if supplied) -/
def mkSamples : List K → Option (List K) → Option (List K) → List (Samp K)
  | [], _, _ => []
  | l :: ws, cf, vg =>
      { lam := l, countFactor := cf.bind List.head?, vega := vg.bind List.head? } ::
        mkSamples ws (cf.map List.tail) (vg.map List.tail)

/-- element-wise conversion; the first failing element fails the call -/
def convertAll (P : PhysConst K) (T : Transc K) (uin uout : FluxUnit K) :
    List (Samp K) → List K → Except Err (List K)
  | s :: ss, x :: xs => do
      let y ← convertOne P T s uin uout x
      let ys ← convertAll P T uin uout ss xs
      pure (y :: ys)
  | _, _ => pure []

/-- the count factors `convert_flux` has at hand: only when a count-like unit is involved
and the caller supplied an area -/
def countFactorsFor (w : List K) (uin uout : FluxUnit K) (area : Option K) :
    Except Err (Option (List K)) :=
  if uin.needsArea || uout.needsArea then
    match area with
    | some a => (countFactors w a).map some
    | none => pure none
  else pure none

/-- `convert_flux` on arrays.  `area`/`vega` are `none` when the caller did not supply them;
`vega` is Vega's PHOTLAM flux at the same wavelengths. -/
def convertFlux (P : PhysConst K) (T : Transc K) (w f : List K) (uin uout : FluxUnit K)
    (area : Option K) (vega : Option (List K)) : Except Err (List K) :=
  if uin = uout then .ok f
  else do
    let cf ← countFactorsFor w uin uout area
    convertAll P T uin uout (mkSamples w cf vega) f

end Synphot
