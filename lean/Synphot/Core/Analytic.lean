/-
  Synphot.Core.Analytic — the analytic models of synphot/models.py: closed form of each
  model's `evaluate` (astropy semantics, DESIGN Appendix A) and each `integrate` method
  exactly as coded (models.py:131-135, 179-180, 240-245, 301-312, 495-500, 583-585,
  616-626, 657-686, 743-767, 789-795), and `BaseSpectrum.integrate`
  (spectrum.py:416-538): integrator selection through `conf.default_integrator`, silent
  fallback to trapezoid when the model has no `integrate`, rejection of an unknown
  integration type, and the unit-finishing code.

  All wavelengths are in Angstrom (what `_validate_wavelengths` hands to the model).
  `evaluate` functions are plain closed forms whose stated preconditions (`0 < σ`, `0 < γ`,
  `0 < slope`, `0 < x₀`) are hypotheses of the theorems; every `integrate` guards its own
  divisions and returns `Err.nan` where NumPy would produce a non-finite number.
-/
import Synphot.Core.Transc
import Synphot.Core.Trapz
import Synphot.Core.Interp
import Synphot.Core.Wave
import Synphot.Core.Units

namespace Synphot
variable {K : Type} [Field K] [LinearOrder K] [IsStrictOrderedRing K]

/-! ## Python's `min(x)` / `max(x)` over the wavelength array -/

def minL : List K → K
  | [] => 0
  | [a] => a
  | a :: b :: t => min a (minL (b :: t))

def maxL : List K → K
  | [] => 0
  | [a] => a
  | a :: b :: t => max a (maxL (b :: t))

/-! ## `evaluate` (closed forms) -/

/-- `Box1D.evaluate`: `amplitude` iff `x₀ − w/2 ≤ x ≤ x₀ + w/2` (both ends inclusive) -/
def boxEval (amp x0 w x : K) : K :=
  if x0 - w / 2 ≤ x ∧ x ≤ x0 + w / 2 then amp else 0

/-- `Trapezoid1D.evaluate`: knots `x₂,₃ = x₀ ∓ w/2`, `x₁ = x₂ − a/s`, `x₄ = x₃ + a/s`;
`s(x−x₁)` on `[x₁,x₂)`, `a` on `[x₂,x₃)`, `s(x₄−x)` on `[x₃,x₄)`, else 0 (requires `s ≠ 0`) -/
def trapezoidEval (amp x0 w s x : K) : K :=
  let x2 := x0 - w / 2
  let x3 := x0 + w / 2
  let x1 := x2 - amp / s
  let x4 := x3 + amp / s
  if x1 ≤ x ∧ x < x2 then s * (x - x1)
  else if x2 ≤ x ∧ x < x3 then amp
  else if x3 ≤ x ∧ x < x4 then s * (x4 - x)
  else 0

/-- `Gaussian1D.evaluate`: `a·exp(−0.5 (x−m)²/σ²)` (requires `σ ≠ 0`) -/
def gaussEval (T : Transc K) (amp mean stddev x : K) : K :=
  amp * T.exp (-(1 / 2) * (x - mean) ^ 2 / stddev ^ 2)

/-- `Lorentz1D.evaluate`: `a·(fwhm/2)²/((x−x₀)² + (fwhm/2)²)` (requires `fwhm ≠ 0`) -/
def lorentzEval (amp x0 fwhm x : K) : K :=
  amp * (fwhm / 2) ^ 2 / ((x - x0) ^ 2 + (fwhm / 2) ^ 2)

/-- `RickerWavelet1D.evaluate`: `a·(1 − 2u)·exp(−u)`, `u = (x−x₀)²/(2σ²)` (requires `σ ≠ 0`) -/
def rickerEval (T : Transc K) (amp x0 sigma x : K) : K :=
  let u := (x - x0) ^ 2 / (2 * sigma ^ 2)
  amp * (1 - 2 * u) * T.exp (-u)

/-- `ConstFlux1D` in its own flux unit -/
def constEval (amp : K) (_x : K) : K := amp

/-- `PowerLaw1D.evaluate` in the amplitude's own flux unit: `a·(x/x₀)^(−α)` (requires `x₀ ≠ 0`) -/
def powerLawEval (T : Transc K) (amp x0 alpha x : K) : K :=
  amp * T.rpow (x / x0) (-alpha)

/-! ## units -/

/-- flux unit of the amplitude of `ConstFlux1D` / `PowerLawFlux1D` (`_flux_unit`);
`jy s` is a prefixed Jansky worth `s` Jy -/
inductive AmpUnit (K : Type)
  | photlam | flam | photnu | fnu | jy (scale : K)
  deriving DecidableEq, Repr

/-- `not any('wav' in t for t in unit.physical_type)`: a per-frequency density -/
def AmpUnit.perHz : AmpUnit K → Bool
  | .photlam | .flam => false
  | _ => true

def AmpUnit.toFluxUnit : AmpUnit K → FluxUnit K
  | .photlam => .photlam | .flam => .flam | .photnu => .photnu | .fnu => .fnu | .jy s => .jy s

/-- unit of what a model's `integrate` returns -/
inductive MUnit (K : Type)
  | length                      -- Angstrom (dimensionless amplitude parameter × Angstrom)
  | fluxLen (u : AmpUnit K)     -- flux unit × Angstrom
  | fluxHz (u : AmpUnit K)      -- flux unit × Hz
  | power                       -- W m⁻² (Stefan–Boltzmann; per steradian for BlackBody1D)
  deriving DecidableEq, Repr

/-- unit of the finished result of `BaseSpectrum.integrate` -/
inductive ResUnit
  | length    -- Angstrom (unitless spectra)
  | photon    -- ph s⁻¹ cm⁻²
  | energy    -- erg s⁻¹ cm⁻²
  | raw       -- a unitless spectrum whose model returned something else than a length
  deriving DecidableEq, Repr

def ResUnit.name : ResUnit → String
  | .length => "length" | .photon => "photon" | .energy => "energy" | .raw => "raw"

/-- constants: those of the flux conversion, Boltzmann's constant (erg/K), the Stefan–Boltzmann
constant (W m⁻² K⁻⁴, `const.sigma_sb.value`) and `BlackBodyNorm1D._omega` -/
structure AConst (K : Type) where
  phys : PhysConst K
  kB : K
  sigmaSB : K
  omega : K

/-! ## `integrate` as coded -/

/-- `Box1D.integrate`: `amplitude * width`, whatever the wavelengths -/
def boxIntegrate (amp w : K) : K := amp * w

/-- `Gaussian1D.integrate`: `amplitude * stddev * sqrt(2π)`, whatever the wavelengths -/
def gaussIntegrate (T : Transc K) (amp stddev : K) : K := amp * stddev * T.sqrt (2 * T.pi)

/-- `Trapezoid1D.integrate`: `amplitude * (width + amplitude / slope)` -/
def trapezoidIntegrate (amp w s : K) : Except Err K :=
  if s = 0 then .error .nan else .ok (amp * (w + amp / s))

/-- `ConstFlux1D.integrate`: `(max(x) − min(x)) * amp` with `x` in Angstrom for a per-wavelength
amplitude, in Hz (`ν = c/λ` through `u.spectral()`) for a per-frequency one -/
def constIntegrate (c : K) (amp : K) (u : AmpUnit K) (x : List K) : Except Err (K × MUnit K) :=
  if x = [] then .error .valueError
  else if u.perHz then
    if x.any (fun w => decide (w = 0)) then .error .nan
    else
      let nu := x.map (fun w => c / w)
      .ok ((maxL nu - minL nu) * amp, .fluxHz u)
  else .ok ((maxL x - minL x) * amp, .fluxLen u)

/-- `Lorentz1D.integrate`: `γ = fwhm·0.5`, `a·γ·(atan((max−x₀)/γ) − atan((min−x₀)/γ))` -/
def lorentzIntegrate (T : Transc K) (amp x0 fwhm : K) (x : List K) : Except Err K :=
  if x = [] then .error .valueError
  else
    let g := fwhm * (1 / 2)
    if g = 0 then .error .nan
    else
      let a1 := T.atan ((minL x - x0) / g)
      let a2 := T.atan ((maxL x - x0) / g)
      .ok (amp * g * (a2 - a1))

/-- `_int_subregion` of `RickerWavelet1D.integrate` -/
def rickerSub (T : Transc K) (x0 sig2 xx1 xx2 : K) : K :=
  let d1 := xx1 - x0
  let d2 := xx2 - x0
  let a1 := d1 * T.exp (-(1 / 2) * d1 * d1 / sig2)
  let a2 := d2 * T.exp (-(1 / 2) * d2 * d2 / sig2)
  |a2 - a1|

/-- `RickerWavelet1D.integrate`: unsigned area split at the two roots `x₀ ∓ σ`; a range that
does not strictly contain both roots is refused -/
def rickerIntegrate (T : Transc K) (amp x0 sigma : K) (x : List K) : Except Err K :=
  if x = [] then .error .valueError
  else
    let rl := x0 - sigma
    let rr := x0 + sigma
    let xmin := minL x
    let xmax := maxL x
    if xmin ≥ rl ∨ xmax ≤ rr then .error .notImplemented
    else
      let sig2 := sigma * sigma
      if sig2 = 0 then .error .nan
      else .ok (amp * (rickerSub T x0 sig2 xmin rl + rickerSub T x0 sig2 rl rr
                        + rickerSub T x0 sig2 rr xmax))

/-- the general branch of `PowerLawFlux1D.integrate` over a variable `t` with reference point `t0`
and exponent `e` (`amp (t/t0)^e`): `fac = 1 + e`; `fac = 0` is the logarithm
`amp·t0·ln(max/min)`, otherwise `amp·(max^fac − min^fac)/(t0^e·fac)` -/
def powerLawBranch (T : Transc K) (amp t0 e lo hi : K) : Except Err K :=
  let fac := 1 + e
  if fac = 0 then
    if lo = 0 then .error .nan
    else if hi / lo ≤ 0 then .error .nan
    else .ok (amp * t0 * T.ln (hi / lo))
  else
    let denom := T.rpow t0 e * fac
    if denom = 0 then .error .nan
    else .ok (amp * (T.rpow hi fac - T.rpow lo fac) / denom)

/-- `PowerLawFlux1D.integrate` (after the fixes 8100520, 483eba1): a per-wavelength amplitude is
integrated over Angstrom (`amp (λ/x₀)^(−α)`, `fac = 1 − α`, logarithm at `α = 1`); a per-frequency
amplitude over Hz with `ν = c/λ`, `ν₀ = c/x₀` (`amp (ν/ν₀)^α`, `fac = 1 + α`, logarithm at `α = −1`) -/
def powerLawIntegrate (c : K) (T : Transc K) (amp x0 alpha : K) (u : AmpUnit K) (x : List K) :
    Except Err (K × MUnit K) :=
  if x = [] then .error .valueError
  else if u.perHz then
    if x0 = 0 then .error .nan
    else if x.any (fun w => decide (w = 0)) then .error .nan
    else
      let nu := x.map (fun w => c / w)
      (powerLawBranch T amp (c / x0) alpha (minL nu) (maxL nu)).map (·, .fluxHz u)
  else
    (powerLawBranch T amp x0 (-alpha) (minL x) (maxL x)).map (·, .fluxLen u)

/-- `BlackBody1D.integrate`: `σ_SB T⁴ / π` (per steradian) -/
def bbIntegrate (C : AConst K) (T : Transc K) (temp : K) : K := C.sigmaSB * temp ^ 4 / T.pi

/-- `BlackBody1D.evaluate`: Planck photon radiance in PHOTLAM per steradian,
`2c·10¹⁶/λ⁴ / expm1(hc/(λ k T))` with `λ` in Angstrom, `c` in Angstrom/s -/
def bbEval (C : AConst K) (T : Transc K) (temp x : K) : K :=
  2 * C.phys.c * 10 ^ 16 / x ^ 4 / T.expm1 (C.phys.h * C.phys.c / (x * C.kB * temp))

/-! ## the models -/

inductive AModel (K : Type)
  | box (amp x0 width : K)
  | constFlux (amp : K) (u : AmpUnit K)
  | gauss (amp mean stddev : K)
  | gaussFlux (amp mean stddev : K)
  | lorentz (amp x0 fwhm : K)
  | ricker (amp x0 sigma : K)
  | powerLaw (amp x0 alpha : K) (u : AmpUnit K)
  | trapezoid (amp x0 width slope : K)
  | blackbody (temp : K)
  | blackbodyNorm (temp : K)
  | empirical (t : Table K)          -- `Empirical1D`: no `integrate`
  | const1D (amp : K)                -- astropy's `Const1D`: no `integrate`
  | sum (a b : AModel K)             -- a compound model: no `integrate`
  | gaussAbsorption (amp mean stddev : K) -- `GaussianAbsorption1D` (`1 − Gaussian`): no `integrate`
  | scaled (k : K) (m : AModel K)    -- `model | Scale(k)` (a spectrum times a number): no `integrate`
  | opaque (tab : List (K × K))      -- any other model class: no `integrate` expected; its samples are data
  | redshift (zp1 : K) (m : AModel K) -- a source with `z ≠ 0` (`RedshiftScaleFactor(z).inverse | model`, `zp1 = 1 + z`): no `integrate`

/-- `hasattr(self.model, 'integrate')` -/
def AModel.hasIntegrate : AModel K → Bool
  | .empirical _ | .const1D _ | .sum _ _ | .redshift _ _ | .gaussAbsorption _ _ _ | .scaled _ _
  | .opaque _ => false
  | _ => true

/-- `self.model.integrate(x)`: value and unit -/
def AModel.integrate (C : AConst K) (T : Transc K) (m : AModel K) (x : List K) :
    Except Err (K × MUnit K) :=
  match m with
  | .box amp _ w => .ok (boxIntegrate amp w, .length)
  | .constFlux amp u => constIntegrate C.phys.c amp u x
  | .gauss amp _ s => .ok (gaussIntegrate T amp s, .length)
  | .gaussFlux amp _ s => .ok (gaussIntegrate T amp s, .fluxLen .photlam)
  | .lorentz amp x0 fwhm => (lorentzIntegrate T amp x0 fwhm x).map (·, .length)
  | .ricker amp x0 s => (rickerIntegrate T amp x0 s x).map (·, .length)
  | .powerLaw amp x0 al u => powerLawIntegrate C.phys.c T amp x0 al u x
  | .trapezoid amp _ w s => (trapezoidIntegrate amp w s).map (·, .length)
  | .blackbody t => .ok (bbIntegrate C T t, .power)
  | .blackbodyNorm t => .ok (bbIntegrate C T t * C.omega, .power)
  | .empirical _ | .const1D _ | .sum _ _ | .redshift _ _ | .gaussAbsorption _ _ _ | .scaled _ _
  | .opaque _ => .error .typeError   -- no such attribute (never reached)

/-- the model sampled in the spectrum's internal unit (PHOTLAM for a source, nothing for a
unitless spectrum): what `self(x)` returns at one wavelength -/
def AModel.evalInternal (C : AConst K) (T : Transc K) : AModel K → K → Except Err K
  | .box amp x0 w, x => .ok (boxEval amp x0 w x)
  | .constFlux amp u, x =>
      toPhotlam C.phys T { lam := x, countFactor := none, vega := none } u.toFluxUnit amp
  | .gauss amp m s, x => .ok (gaussEval T amp m s x)
  | .gaussFlux amp m s, x => .ok (gaussEval T amp m s x)
  | .lorentz amp x0 f, x => .ok (lorentzEval amp x0 f x)
  | .ricker amp x0 s, x => .ok (rickerEval T amp x0 s x)
  | .powerLaw amp x0 al u, x =>
      toPhotlam C.phys T { lam := x, countFactor := none, vega := none } u.toFluxUnit
        (powerLawEval T amp x0 al x)
  | .trapezoid amp x0 w s, x => .ok (trapezoidEval amp x0 w s x)
  | .blackbody t, x => .ok (bbEval C T t x)
  | .blackbodyNorm t, x => .ok (bbEval C T t x * C.omega)
  | .empirical t, x => .ok (t.eval x)
  | .const1D amp, _ => .ok amp
  | .sum a b, x => do
      let u ← a.evalInternal C T x
      let v ← b.evalInternal C T x
      pure (u + v)
  | .redshift zp1 m, x => if zp1 = 0 then .error .nan else m.evalInternal C T (x / zp1)
  | .gaussAbsorption amp m s, x => .ok (1 - gaussEval T amp m s x)
  | .scaled k m, x => do
      let y ← m.evalInternal C T x
      pure (k * y)
  | .opaque tab, x =>
      match tab.find? (fun p => decide (p.1 = x)) with
      | some p => .ok p.2
      | none => .error .lookupError

/-- `_model_fconv_wav[modelname]`: the wavelength parameter at which an analytic result is
converted to the caller's `flux_unit` (only these model classes are converted) -/
def AModel.fconvWav : AModel K → Option K
  | .box _ x0 _ => some x0
  | .gauss _ m _ => some m
  | .gaussFlux _ m _ => some m
  | .lorentz _ x0 _ => some x0
  | .ricker _ x0 _ => some x0
  | .trapezoid _ x0 _ _ => some x0
  | _ => none

/-! ## `BaseSpectrum.integrate` -/

/-- what the caller / the configuration may name as integration type -/
inductive IntType
  | trapezoid | analytical | other
  deriving DecidableEq, Repr

/-- the integrator that actually runs -/
inductive Path
  | trapezoid | analytical
  deriving DecidableEq, Repr

def Path.name : Path → String
  | .trapezoid => "trapezoid" | .analytical => "analytical"

/-- integrator selection: `None` → `conf.default_integrator`; analytical without an
`integrate` method → trapezoid; anything but the two names → `NotImplementedError` -/
def choosePath (requested : Option IntType) (confDefault : IntType) (hasIntegrate : Bool) :
    Except Err Path :=
  let t := match requested with
    | none => confDefault
    | some t => t
  let t := if t = .analytical ∧ hasIntegrate = false then IntType.trapezoid else t
  match t with
  | .trapezoid => .ok .trapezoid
  | .analytical => .ok .analytical
  | .other => .error .notImplemented

/-- unit finishing for a spectrum with a flux unit (internal unit PHOTLAM): a length is
multiplied by PHOTLAM; then a unit whose string contains `ph`, `PHOTLAM` or `PHOTNU` is converted to
ph s⁻¹ cm⁻², anything else to erg s⁻¹ cm⁻² — which astropy refuses (`UnitConversionError`)
for a per-frequency density × Angstrom or a per-wavelength density × Hz (no model produces one). -/
def finishSource (C : AConst K) : K × MUnit K → Except Err (K × ResUnit)
  | (v, .length) => .ok (v, .photon)
  | (v, .fluxLen .photlam) => .ok (v, .photon)
  | (v, .fluxLen .flam) => .ok (v, .energy)
  | (_, .fluxLen _) => .error .unitError
  | (v, .fluxHz .photnu) => .ok (v, .photon)
  | (v, .fluxHz .fnu) => .ok (v, .energy)
  | (v, .fluxHz (.jy k)) => .ok (v * k * C.phys.jyFnu, .energy)
  | (_, .fluxHz _) => .error .unitError
  | (v, .power) => .ok (v * 1000, .energy)

/-- a unitless spectrum returns the model's result as it is -/
def finishUnitless : K × MUnit K → K × ResUnit
  | (v, .length) => (v, .length)
  | (v, _) => (v, .raw)

/-- unit carried by a non-finite result of `integrate` (a NaN Quantity still has its unit, and the
unit-finishing code runs on it) -/
def AModel.nanUnit : AModel K → MUnit K
  | .powerLaw _ _ _ u => if u.perHz then .fluxHz u else .fluxLen u
  | .constFlux _ u => if u.perHz then .fluxHz u else .fluxLen u
  | .gaussFlux _ _ _ => .fluxLen .photlam
  | .blackbody _ | .blackbodyNorm _ => .power
  | _ => .length

/-- the caller's `flux_unit=` keyword: absent (or `None`), PHOTLAM, FLAM (by name or as a unit),
a valid unit that is not a per-wavelength flux density (`SynphotError`), a string astropy
cannot parse (`ValueError`) -/
inductive FluxOpt
  | absent | photlam | flam | notWav | unparsable
  deriving DecidableEq, Repr

/-- the `flux_unit` check at the top of `integrate`: refused for a unitless spectrum, otherwise
`_validate_flux_unit(flux_unit, wav_only=True)` -/
def fluxCheck (unitless : Bool) : FluxOpt → Except Err Unit
  | .absent => .ok ()
  | .photlam => if unitless then .error .synphotError else .ok ()
  | .flam => if unitless then .error .synphotError else .ok ()
  | .notWav => .error .synphotError
  | .unparsable => if unitless then .error .synphotError else .error .valueError

/-- `self(x, **kwargs)` at one wavelength for a source: the PHOTLAM sample converted to the
requested unit (`convert_flux`) -/
def sampleIn (C : AConst K) (fu : FluxOpt) (w y : K) : K :=
  match fu with
  | .flam => y * (C.phys.h * C.phys.c) / w
  | _ => y

/-- element-wise `|self(x, **kwargs)|` -/
def absSamplesIn (C : AConst K) (T : Transc K) (fu : FluxOpt) (m : AModel K) :
    List K → Except Err (List K)
  | [] => .ok []
  | w :: ws => do
      let y ← m.evalInternal C T w
      let ys ← absSamplesIn C T fu m ws
      pure (|sampleIn C fu w y| :: ys)

/-- `result * self._internal_flux_unit` when the analytic result is a length -/
def toSourceUnit : K × MUnit K → K × MUnit K
  | (v, .length) => (v, .fluxLen .photlam)
  | r => r

/-- the `flux_unit` conversion of an analytic result: only for sources, only for the model
classes of `_model_fconv_wav`, at that model's reference wavelength (`convert_flux` of
`PHOTLAM × Å` to `flux_unit × Å`: unchanged for PHOTLAM, `× hc/λ` for FLAM) -/
def convAnalytic (C : AConst K) (fu : FluxOpt) (m : AModel K) (r : K × MUnit K) :
    Except Err (K × MUnit K) :=
  let r' := toSourceUnit r
  if fu = .flam ∧ r'.2 = .fluxLen .photlam then
    match m.fconvWav with
    | some wav =>
        if wav = 0 then .error .nan else .ok (r'.1 * (C.phys.h * C.phys.c) / wav, .fluxLen .flam)
    | none => .ok r'
  else .ok r'

/-- what `BaseSpectrum.integrate` does with the outcome of `self.model.integrate(x)`: exceptions
propagate; a number is converted to the caller's `flux_unit` where the code does that and
unit-finished (sources) or returned as it is (unitless spectra); a NaN is unit-finished too, so
an inconvertible unit raises before the NaN is returned -/
def finishAnalytic (C : AConst K) (unitless : Bool) (fu : FluxOpt) (m : AModel K) :
    Except Err (K × MUnit K) → Except Err (K × ResUnit × Path)
  | .ok r =>
      if unitless then
        let f := finishUnitless r
        pure (f.1, f.2, .analytical)
      else do
        let r' ← convAnalytic C fu m r
        let f ← finishSource C r'
        pure (f.1, f.2, .analytical)
  | .error .nan =>
      if unitless then .error .nan
      else do
        let _ ← finishSource C (0, m.nanUnit)
        .error .nan
  | .error e => .error e

/-- `BaseSpectrum.integrate(wavelengths=x, integration_type=requested, **kwargs)` at redshift 0
(a redshifted source is the model `.redshift`); `unitless`: a bandpass-like spectrum; `fu`: the
`flux_unit` keyword; `extraKw`: some other keyword is present in `kwargs` (`area=…`, an explicit
`flux_unit=None`, …) — ignored everywhere except that a unitless spectrum cannot be sampled
with keywords (`TypeError` from `__call__`).  Returns value, unit, integrator used. -/
def specIntegrate (C : AConst K) (T : Transc K) (unitless : Bool) (fu : FluxOpt) (extraKw : Bool)
    (m : AModel K) (x : List K) (requested : Option IntType) (confDefault : IntType) :
    Except Err (K × ResUnit × Path) := do
  fluxCheck unitless fu
  validateWavelengths x
  let p ← choosePath requested confDefault m.hasIntegrate
  match p with
  | .trapezoid =>
      if unitless && extraKw then .error .typeError
      else do
        let y ← absSamplesIn C T fu m x
        pure (|trapzXY x y|,
              if unitless then .length else if fu = .flam then .energy else .photon, .trapezoid)
  | .analytical => finishAnalytic C unitless fu m (m.integrate C T x)

end Synphot
