import Mathlib.Tactic.Ring
import Mathlib.Tactic.FieldSimp
import Synphot.Core.Spectrum

set_option linter.unusedSectionVars false
set_option linter.unusedSimpArgs false
set_option linter.unusedVariables false

namespace Synphot
variable {K : Type} [Field K] [LinearOrder K] [IsStrictOrderedRing K]

theorem bind_ok {ε α β : Type} {x : Except ε α} {f : α → Except ε β} {b : β}
    (h : (x >>= f) = .ok b) : ∃ a, x = .ok a ∧ f a = .ok b := by
  cases x with
  | error e => cases h
  | ok a => exact ⟨a, rfl, h⟩

theorem specOp_ok {op : BinOp} {self : Spec K} {o : Operand K} {r : Spec K}
    (h : specOp op self o = .ok r) :
    ∃ k t, typing op self.kind o.tag = .ok k ∧ resultTree op self o = .ok t ∧ r = Spec.ofTree k t := by
  unfold specOp at h
  obtain ⟨k, hk, h⟩ := bind_ok h
  obtain ⟨t, ht, h⟩ := bind_ok h
  exact ⟨k, t, hk, ht, by cases h; rfl⟩

/-- a fresh result object has `z = 0`: its model is its tree -/
theorem ofTree_model (k : Kind) (t : Tree K) : (Spec.ofTree k t).model = .ok t := by
  cases k <;> simp [Spec.ofTree, Spec.model, ZState.model, ZState.init]

theorem ofTree_evalAt (E : Env K) (k : Kind) (t : Tree K) (x : K) :
    (Spec.ofTree k t).evalAt E x = t.eval E x := by
  simp [Spec.evalAt, ofTree_model, bind, Except.bind]

theorem evalAt_ok {E : Env K} {s : Spec K} {x v : K} (h : s.evalAt E x = .ok v) :
    ∃ m, s.model = .ok m ∧ m.eval E x = .ok v := by
  unfold Spec.evalAt at h
  exact bind_ok h

end Synphot

namespace Synphot
variable {K : Type} [Field K] [LinearOrder K] [IsStrictOrderedRing K]

theorem eval_bin_ok {E : Env K} {op : BinOp} {l r : Tree K} {x v : K}
    (h : (Tree.bin op l r).eval E x = .ok v) :
    ∃ a b, l.eval E x = .ok a ∧ r.eval E x = .ok b ∧ op.apply a b = .ok v := by
  simp only [Tree.eval] at h
  obtain ⟨a, ha, h⟩ := bind_ok h
  obtain ⟨b, hb, h⟩ := bind_ok h
  exact ⟨a, b, ha, hb, h⟩

theorem eval_bin_of {E : Env K} {op : BinOp} {l r : Tree K} {x a b : K}
    (ha : l.eval E x = .ok a) (hb : r.eval E x = .ok b) :
    (Tree.bin op l r).eval E x = op.apply a b := by
  simp [Tree.eval, ha, hb, bind, Except.bind]

theorem eval_scale_of {E : Env K} {m : Tree K} {k x a : K} (ha : m.eval E x = .ok a) :
    (Tree.scale m k).eval E x = .ok (a * k) := by
  simp [Tree.eval, ha, bind, Except.bind, pure, Except.pure]

theorem apply_mul (a b : K) : BinOp.mul.apply a b = .ok (a * b) := rfl

theorem apply_ok_mul {a b v : K} (h : BinOp.mul.apply a b = .ok v) : v = a * b := by
  simp [BinOp.apply] at h; exact h.symm

/-- non-source spectra (and sources at z = 0) expose their tree as model -/
theorem model_of_not_source (s : Spec K) (h : s.kind ≠ .source) : s.model = .ok s.tree := by
  unfold Spec.model; cases hk : s.kind <;> simp_all

end Synphot

namespace Synphot
variable {K : Type} [Field K] [LinearOrder K] [IsStrictOrderedRing K]

theorem typing_obs_mul {op : BinOp} {t : OTag} {k : Kind} (h : typing op .observation t = .ok k) :
    op = .mul := by
  cases op <;> cases t <;> simp [typing] at h ⊢

theorem typing_swap_mul {op : BinOp} {L : Kind} {k : Kind} (hL : L.isUnitless = true)
    (h : typing op L (.spec .source) = .ok k) : op = .mul := by
  cases op <;> cases L <;> simp [typing, Kind.isUnitless] at h hL ⊢

theorem typing_scalar_op {op : BinOp} {L : Kind} {k : Kind} {t : OTag} (ht : t = .real ∨ t = .quantity)
    (h : typing op L t = .ok k) : op = .mul ∨ op = .div := by
  rcases ht with rfl | rfl <;> cases op <;> cases L <;> simp [typing] at h ⊢

/-- the operators are pointwise: the result sampled at a wavelength is the operator applied to the
operands' values there -/
theorem specOp_valueAt (E : Env K) (op : BinOp) (self : Spec K) (o : Operand K) (r : Spec K)
    (x va vb v : K) (h : specOp op self o = .ok r) (ha : self.evalAt E x = .ok va)
    (hb : o.valueAt E x = .ok vb) (hv : op.apply va vb = .ok v) : r.evalAt E x = .ok v := by
  obtain ⟨k, t, hk, ht, rfl⟩ := specOp_ok h
  rw [ofTree_evalAt]
  obtain ⟨ma, hma, hea⟩ := evalAt_ok ha
  unfold resultTree at ht
  split at ht
  · -- observation with a product model
    rename_i hkind htree
    have hop := typing_obs_mul (hkind ▸ hk); subst hop
    have hm : self.model = .ok self.tree := model_of_not_source self (by rw [hkind]; decide)
    rw [hm] at hma; cases hma
    rw [htree] at hea
    obtain ⟨vs, vbd, hs, hbd, hmul⟩ := eval_bin_ok hea
    have hva := apply_ok_mul hmul
    have hv' := apply_ok_mul hv
    cases o with
    | real w =>
      simp only [Operand.valueAt] at hb; cases hb
      simp only at ht; cases ht
      rw [eval_bin_of (eval_scale_of hs) hbd, apply_mul, hv', hva]; congr 1; ring
    | quantity w =>
      simp only [Operand.valueAt] at hb; cases hb
      simp only at ht; cases ht
      rw [eval_bin_of (eval_scale_of hs) hbd, apply_mul, hv', hva]; congr 1; ring
    | spec s =>
      simp only [Operand.valueAt] at hb
      obtain ⟨mb, hmb, heb⟩ := evalAt_ok hb
      simp only [hmb, bind, Except.bind, pure, Except.pure] at ht; cases ht
      rw [eval_bin_of (eval_bin_of hs heb) hbd]
      simp only [apply_mul, bind, Except.bind]
      rw [hv', hva]; congr 1; ring
    | badQuantity => cases ht
    | complex => cases ht
    | other => cases ht
  · cases ht
  · -- every other kind on the left
    rename_i hno1 hno2
    cases o with
    | real w =>
      simp only [Operand.valueAt] at hb; cases hb
      rcases typing_scalar_op (Or.inl rfl) hk with rfl | rfl
      · simp only [hma, bind, Except.bind, pure, Except.pure] at ht; cases ht
        rw [eval_scale_of hea]; rw [apply_ok_mul hv]
      · simp only [hma, bind, Except.bind, pure, Except.pure] at ht
        split_ifs at ht with hw
        cases ht
        rw [eval_scale_of hea]
        simp only [BinOp.apply, hw, if_false] at hv; cases hv
        congr 1; field_simp
    | quantity w =>
      simp only [Operand.valueAt] at hb; cases hb
      rcases typing_scalar_op (Or.inr rfl) hk with rfl | rfl
      · simp only [hma, bind, Except.bind, pure, Except.pure] at ht; cases ht
        rw [eval_scale_of hea]; rw [apply_ok_mul hv]
      · simp only [hma, bind, Except.bind, pure, Except.pure] at ht
        split_ifs at ht with hw
        cases ht
        rw [eval_scale_of hea]
        simp only [BinOp.apply, hw, if_false] at hv; cases hv
        congr 1; field_simp
    | spec s =>
      simp only [Operand.valueAt] at hb
      obtain ⟨mb, hmb, heb⟩ := evalAt_ok hb
      by_cases hsw : self.kind.isUnitless = true ∧ s.kind = .source
      · have hop : op = .mul := typing_swap_mul hsw.1 (by simpa [Operand.tag, hsw.2] using hk)
        subst hop
        simp only [hsw, and_self, if_true, hma, hmb, bind, Except.bind, pure, Except.pure] at ht; cases ht
        rw [eval_bin_of heb hea, apply_mul, apply_ok_mul hv, mul_comm]
      · simp only [hsw, if_false, hma, hmb, bind, Except.bind, pure, Except.pure] at ht; cases ht
        rw [eval_bin_of hea heb, hv]
    | badQuantity => cases ht
    | complex => cases ht
    | other => cases ht

end Synphot
