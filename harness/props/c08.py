"""C08  Count rate equals area x sum of binned photons and behaves linearly."""
import math
from fractions import Fraction as F

from ..core import NP as np

from .. import core, objects as O
from ..core import q, qs, guarded, same, unq
from . import c07

PAR = {'thr': q(O.THR), 'atol0': q(1e-8), 'ovthr': q(0.01), 'atol': q(1e-8), 'rtol': q(1e-5)}


def build_obs(case, scale=None):
    from synphot import Observation
    src = O.build_prim(case['src'])
    if scale is not None:
        src = src * scale
    band = O.build_prim(case['band'])
    kw = {'force': case.get('force') or 'none'}
    if case.get('prior_binset') is not None:
        # an observation binned on a related grid (same number of bins, same end centres, other interior centres) was
        # built and counted earlier in the process: nothing of it may carry over
        try:
            early = Observation(O.build_prim(case['src']), O.build_prim(case['band']),
                                binset=np.array([O.fl(x) for x in case['prior_binset']]), force='extrap')
            early.countrate(1.0)
            early.countrate(1.0, binned=False)
        except Exception:   # noqa
            pass
    if case.get('binset') is not None:
        kw['binset'] = np.array([O.fl(x) for x in case['binset']])
    return Observation(src, band, **kw)


def cr_kwargs(qu):
    import astropy.units as u
    kw = {'binned': qu['binned'], 'force': qu['force']}
    if qu.get('waverange') is not None:
        w = [O.fl(x) for x in qu['waverange']]
        wu = qu.get('wr_unit', 'AA_number')
        if wu == 'AA_number':
            kw['waverange'] = w
        else:
            fac = {'nm': 0.1, 'micron': 1e-4}[wu]
            kw['waverange'] = np.array(w) * fac * u.Unit(wu)
    if qu.get('wl') is not None:
        kw['wavelengths'] = np.array([O.fl(x) for x in qu['wl']])
    return kw


def area_arg(qu):
    import astropy.units as u
    if qu.get('area') is None:
        return None
    a = O.fl(qu['area'])
    return a * 1e-4 * u.m ** 2 if qu.get('area_m2') else a


def impl_call(case):
    def f():
        obs = build_obs(case)
        outs = []
        for qu in case['queries']:
            outs.append(guarded(lambda: obs.countrate(area_arg(qu), **cr_kwargs(qu)).value))
        extra = {}
        qu = case['queries'][0]
        # oracle data
        bf = obs.binflux.value
        ed = obs.bin_edges.value
        extra['binned_sum'] = float(np.sum(bf * np.abs(np.diff(ed))))
        extra['binset'] = obs.binset.value
        extra['edges'] = ed
        extra['binflux'] = bf
        if obs.waveset is not None:
            w = obs.waveset.value
            y = obs(w).value
            e = np.empty(len(w) + 1)
            e[1:-1] = (w[1:] + w[:-1]) / 2
            e[0] = 2 * w[0] - e[1]
            e[-1] = 2 * w[-1] - e[-2]
            extra['unbinned_sum'] = float(np.sum(y * np.abs(np.diff(e))))
            extra['native_w'] = w
            extra['native_counts'] = y * np.abs(np.diff(e))
        extra['effstim_count'] = guarded(lambda: obs.effstim('count', area=area_arg(qu)).value)
        extra['effstim_obmag'] = guarded(lambda: obs.effstim('obmag', area=area_arg(qu)).value)
        extra['unbinned'] = guarded(lambda: obs.countrate(area_arg(qu), binned=False).value)
        if case.get('k') is not None:
            k = O.fl(case['k'])
            extra['scaled'] = guarded(lambda: build_obs(case, scale=k).countrate(area_arg(qu)).value)
            extra['mul_obs'] = guarded(lambda: (obs * k).countrate(area_arg(qu)).value)
        return {'warned': 'PartialOverlap' in obs.warnings, 'queries': outs, '_x': extra}
    return guarded(f)


def model_case(case):
    c = {'op': 'obs', 'const': case['const'], 'src': case['src'], 'band': case['band'], 'binset': case.get('binset'),
         'force': case.get('force') or 'none'}
    c.update(PAR)
    c['queries'] = [{'q': 'countrate', 'area': qu.get('area'), 'binned': qu['binned'], 'wl': qu.get('wl'),
                     'waverange': qu.get('waverange'), 'force': qu['force']} for qu in case['queries']]
    return c


def compare(case, o, m):
    o2 = {k: v for k, v in o.items() if not k.startswith('_')}
    if 'ok' in o2:
        o2 = {'ok': {k: v for k, v in o2['ok'].items() if not k.startswith('_')}}
    return same(o2, m, rtol=1e-9, atol=0.0)


# ------------------------------------------------------------------ oracle
def oracle(rep, case, out):
    if 'err' in out:
        if out['err'] not in ('PartialOverlap', 'DisjointError', 'UndefinedBinset', 'ZeroWavelength') and not (
                out['err'] == 'ValueError' and c07.c07_zero_band(case)):
            rep.oracle_fail('obs:%s' % out['err'], 'observation construction raised %s' % out['err'], case, out)
        return
    o = out['ok']
    x = o['_x']
    c, e, bf = np.array(x['binset']), np.array(x['edges']), np.array(x['binflux'])
    w = np.abs(np.diff(e))
    for qu, r in zip(case['queries'], o['queries']):
        area = O.fl(qu['area']) if qu.get('area') is not None else None
        sig = 'countrate:%s' % ('binned' if qu['binned'] else 'unbinned')
        if area is None:
            if r.get('err') != 'SynphotError':
                rep.oracle_fail(sig + ':no_area:%s' % r.get('err', 'returned'), 'count rate without an area', case, r)
            continue
        if qu.get('_rev_of') is not None:
            r0 = o['queries'][qu['_rev_of']]
            if ('err' in r) != ('err' in r0) or r.get('err') != r0.get('err') or \
                    ('ok' in r and abs(r['ok'] - r0['ok']) > 1e-12 * abs(r0['ok'])):
                rep.oracle_fail(sig + ':order_of_sampling_wavelengths', 'descending wavelengths give %s, ascending %s' % (r, r0), case, r)
        if qu.get('wl') is not None:
            continue        # explicit sampling wavelengths: model comparison (and the order oracle above)
        total_ref = area * (x['binned_sum'] if qu['binned'] else x.get('unbinned_sum'))
        if total_ref is None:
            continue
        if qu.get('waverange') is None:
            if total_ref <= 0 or not math.isfinite(total_ref):
                if r.get('err') != 'SynphotError':
                    rep.oracle_fail(sig + ':nonpositive_total:%s' % r.get('err', 'returned'),
                                    'a non-positive total must be reported as an error', case, r)
                continue
            if 'err' in r:
                rep.oracle_fail(sig + ':full:%s' % r['err'], 'full-range count rate raised %s' % r['err'], case, r)
            elif abs(r['ok'] - total_ref) > 1e-9 * abs(total_ref):
                rep.oracle_fail(sig + ':not_area_times_sum', 'countrate=%r, area x sum(flux x width)=%r' % (r['ok'], total_ref), case, r)
            continue
        if not qu['binned']:
            # restricted to a range (native samples): exactly the samples inside the range, each with the count it has
            # in the whole observation (its own bin width on the native set)
            if x.get('native_w') is None:
                continue
            nw, nc = np.array(x['native_w']), np.array(x['native_counts'])
            w1, w2 = sorted(O.fl(v) for v in qu['waverange'])
            lo, hi = nw.min(), nw.max()
            if w2 < lo or hi < w1:
                if r.get('err') != 'DisjointError':
                    rep.oracle_fail(sig + ':range_disjoint:%s' % r.get('err', 'returned'), 'disjoint range must raise DisjointError', case, r)
                continue
            if not (w1 >= lo and w2 <= hi) and not qu['force']:
                if r.get('err') != 'PartialOverlap':
                    rep.oracle_fail(sig + ':range_partial:%s' % r.get('err', 'returned'), 'a range sticking out must raise PartialOverlap', case, r)
                continue
            inside = (nw >= w1) & (nw <= w2)
            want = area * float(np.sum(nc[inside]))
            if 'err' in r:
                if r['err'] == 'SynphotError' and (want <= 0 or not bool(np.all(nc >= 0))):
                    continue
                rep.oracle_fail(sig + ':range:%s' % r['err'], 'range inside the native samples raised %s' % r['err'], case, r)
            elif abs(r['ok'] - want) > 1e-9 * max(abs(want), area * float(np.sum(np.abs(nc[inside])))):
                rep.oracle_fail(sig + ':range_not_the_samples_inside', 'range count %r, area x sum over the native samples inside the range %r'
                                % (r['ok'], want), case, r)
            elif bool(np.all(nc >= 0)) and r['ok'] > area * x['unbinned_sum'] * (1 + 1e-9):
                rep.oracle_fail(sig + ':range_exceeds_total', 'restricted count rate exceeds the unrestricted one', case, r)
            continue
        # restricted to a range (binned): a contiguous run of whole bins covering the range
        w1, w2 = sorted(O.fl(v) for v in qu['waverange'])
        lo, hi = c.min(), c.max()
        disjoint = w2 < lo or hi < w1
        inside = w1 >= lo and w2 <= hi
        if disjoint:
            if r.get('err') != 'DisjointError':
                rep.oracle_fail(sig + ':range_disjoint:%s' % r.get('err', 'returned'), 'disjoint range must raise DisjointError', case, r)
            continue
        if not inside and not qu['force']:
            if r.get('err') != 'PartialOverlap':
                rep.oracle_fail(sig + ':range_partial:%s' % r.get('err', 'returned'), 'a range sticking out must raise PartialOverlap', case, r)
            continue
        w1c, w2c = max(w1, lo), min(w2, hi)
        # bins whose interior meets (w1c, w2c) must be included; bins at positive distance must not
        must = [(e[i] < w2c and e[i + 1] > w1c) for i in range(len(c))]
        may = [(e[i] <= w2c and e[i + 1] >= w1c) for i in range(len(c))]
        lo_sum = area * float(np.sum(bf[must] * w[must]))
        hi_sum = area * float(np.sum(bf[may] * w[may]))
        if 'err' in r:
            if r['err'] == 'SynphotError' and (lo_sum <= 0 or not bool(np.all(bf >= 0))):
                continue        # a non-positive sum over the selected bins is reported as an error
            rep.oracle_fail(sig + ':range:%s' % r['err'], 'range inside the bins raised %s' % r['err'], case, r)
            continue
        nonneg = bool(np.all(bf >= 0))
        if nonneg:
            tol = 1e-9 * max(abs(hi_sum), abs(lo_sum))
            if not (lo_sum - tol <= r['ok'] <= hi_sum + tol):
                rep.oracle_fail(sig + ':range_not_whole_bins', 'range count %r not between the sums over overlapping (%r) and touching (%r) bins'
                                % (r['ok'], lo_sum, hi_sum), case, r)
            if r['ok'] > area * x['binned_sum'] * (1 + 1e-9):
                rep.oracle_fail(sig + ':range_exceeds_total', 'restricted count rate exceeds the unrestricted one', case, r)
            if w1 <= lo and w2 >= hi and abs(r['ok'] - area * x['binned_sum']) > 1e-9 * area * x['binned_sum']:
                rep.oracle_fail(sig + ':full_range_differs', 'the full range does not reproduce the total', case, r)
    # effstim in counts, OBMAG, linearity
    q0 = case['queries'][0]
    if q0.get('area') is not None:
        ub = x['unbinned']
        ec = x['effstim_count']
        if 'ok' in ub and ('err' in ec or abs(ec['ok'] - ub['ok']) > 1e-12 * abs(ub['ok'])):
            rep.oracle_fail('effstim_count:differs', 'effstim(count)=%s, countrate(binned=False)=%s' % (ec, ub), case, ec)
        eo = x['effstim_obmag']
        if 'ok' in ub and ub['ok'] > 0 and ('err' in eo or abs(eo['ok'] + 2.5 * math.log10(ub['ok'])) > 1e-9):
            rep.oracle_fail('effstim_obmag:differs', 'OBMAG=%s, -2.5 log10(countrate)=%r' % (eo, -2.5 * math.log10(ub['ok'])), case, eo)
        r0 = o['queries'][0]
        if 'ok' in r0 and q0.get('waverange') is None and q0.get('wl') is None and q0['binned'] and case.get('k') is not None:
            k = O.fl(case['k'])
            for name in ('scaled', 'mul_obs'):
                s = x.get(name)
                if s is None:
                    continue
                if k > 0 and ('err' in s or abs(s['ok'] - k * r0['ok']) > 1e-9 * abs(k * r0['ok'])):
                    rep.oracle_fail('linearity:%s' % name, 'source x %r: countrate %s vs %r' % (k, s, k * r0['ok']), case, s)


# ------------------------------------------------------------------ generators
def gen_case(rng, K, nmax):
    src, band = c07.gen_pair(rng)
    binset, unit, kind = c07.gen_binset(rng, nmax)
    if unit != 'AA_number':
        binset, unit = None, 'AA_number'
    c = {'op': 'obs', 'const': K, 'src': src, 'band': band, 'force': rng.choice(['extrap', 'extrap', 'taper']),
         'binset': None if binset is None else qs(sorted(binset)), '_kind': kind, 'queries': []}
    if c['binset'] is not None and len(c['binset']) >= 3 and rng.random() < 0.4:
        bs = [unq(x) for x in c['binset']]
        lo, hi, n = bs[0], bs[-1], len(bs)
        even = [lo + (hi - lo) * F(i, n - 1) for i in range(n)]
        if even == bs:      # the measured grid is even: the earlier one is graded
            inner = sorted({lo + (hi - lo) * F(i * i, (n - 1) ** 2) for i in range(1, n - 1)})
            even = [lo] + inner + [hi]
        if len(even) == n and all(even[i] < even[i + 1] for i in range(n - 1)):
            c['prior_binset'] = qs(even)
    area = q(10 ** rng.uniform(0, 6))
    if rng.random() < 0.5:
        c['k'] = q(rng.choice([F(1, 2), F(3), F(1, 1024), F(4096)]))
    base = {'area': area, 'area_m2': rng.random() < 0.3, 'binned': True, 'force': False}
    c['queries'].append(dict(base))
    c['queries'].append(dict(base, binned=False))
    if rng.random() < 0.1:
        c['queries'].append(dict(base, area=None))
    return c


def add_ranges(c, rng):
    """second pass: wavelength sub-ranges placed relative to the observation's own bins"""
    try:
        obs = build_obs(c)
    except Exception:
        return c
    cen = [F(x) for x in obs.binset.value.tolist()]
    edg = [F(x) for x in obs.bin_edges.value.tolist()]
    if len(cen) < 2:
        return c
    base = c['queries'][0]
    cand = sorted(set(cen[:6] + cen[-6:] + edg[:6] + edg[-6:] + [cen[0] - 1, cen[-1] + 1, cen[0] / 2, cen[-1] * 2,
                                                                  (cen[0] + cen[1]) / 2 + F(1, 8), cen[len(cen) // 2]]))
    cand = [x for x in cand if x > 0]
    for _ in range(rng.randint(2, 5)):
        a, b = rng.choice(cand), rng.choice(cand)
        if a == b:
            continue
        wr = [a, b] if rng.random() < 0.8 else [b, a]
        qu = dict(base, waverange=qs(wr), force=rng.random() < 0.4)
        if rng.random() < 0.2:
            qu['wr_unit'] = rng.choice(['nm', 'micron'])
            if qu['wr_unit'] != 'AA_number':
                continue        # unit round-off at bin edges would decide the slice: not a property matter
        if rng.random() < 0.15:
            qu['binned'] = False
        c['queries'].append(qu)
        if qu['binned'] and len(cen) >= 3 and rng.random() < 0.35:
            # the same range on explicit sampling wavelengths (a run of bin centres), in ascending and in descending order
            i0 = rng.randrange(len(cen) - 2)
            i1 = rng.randrange(i0 + 2, len(cen))
            run_ = cen[i0:i1 + 1]
            lo, hi = sorted(rng.sample(run_, 2))
            wr2 = [lo, hi] if rng.random() < 0.7 else [hi, lo]
            qa = dict(base, waverange=qs(wr2), force=rng.random() < 0.5, wl=qs(run_))
            c['queries'].append(qa)
            c['queries'].append(dict(qa, wl=qs(run_[::-1]), _rev_of=len(c['queries']) - 1))
    return c


def run(rep):
    thorough = rep.tier == 'thorough'
    rng = rep.rng('c08')
    K = O.consts()
    cases = core.load_corpus('C08')
    for c in cases:
        c['const'] = K
    fresh = [gen_case(rng, K, 200 if thorough else 24) for _ in range(20000 if thorough else 1200)]
    fresh = [add_ranges(c, rng) for c in fresh]
    cases += fresh
    rep.rule = ('observations (C07 generator: table / constant / box / trapezoid sources x table / box bandpasses, default / uniform / '
                'random / fine / coarse / partly-outside / descending binsets) x areas over 6 decades (numbers in cm^2, Quantities in m^2) x '
                'binned and unbinned x explicit sampling wavelengths (runs of bin centres, both orders) x sub-ranges placed on bin centres, bin edges, between them, reversed, partly and wholly outside x '
                'force; scalar multiples of the source (2^-10 .. 2^12). Non-trivial: an observation was constructed and at least one count rate returned.')

    def tags(c, o):
        t = ['outcome:' + (o.get('err') or 'ok'), 'binset:' + c.get('_kind', '?')]
        if 'ok' in o:
            for r in o['ok']['queries']:
                t.append('cr:' + (r.get('err') or 'ok'))
        return t

    def nontrivial(c, o):
        return 'ok' in o and any('ok' in r for r in o['ok']['queries'])
    core.run_cases(rep, cases, impl_call, model_case, oracle, tags_fn=tags, nontrivial_fn=nontrivial, compare_fn=compare)
    rep.samples = [s if not isinstance(s, dict) else {k: v for k, v in s.items() if k != 'const'} for s in rep.samples]


def search(rep, mismatches):
    sub = core.Report(rep.pid, 'thorough', rep.seed + 1)
    rng = sub.rng('c08-search')
    K = O.consts()
    cases = [add_ranges(gen_case(rng, K, 20), rng) for _ in range(3000)]
    impl = core.pmap(impl_call, cases)
    for c, o in zip(cases, impl):
        oracle(sub, c, o)
    rep.notes.append('directed search after mismatch: %d cases, %d oracle failures' % (len(cases), len(sub.oracle_failures)))
    return sub.oracle_failures


def replay(rep, payload):
    c = payload['case']
    c['const'] = O.consts()
    core.run_cases(rep, [c], impl_call, model_case, oracle, compare_fn=compare)
