/-
  What each modelled call writes (`Core/Heap.lean`), classified against the documented write-sets.
-/
import Synphot.Lemmas.Heap

set_option linter.unusedSectionVars false
set_option linter.unusedVariables false
set_option linter.unusedSimpArgs false

namespace Synphot.HeapModel
open Synphot
variable {K : Type} [Field K] [LinearOrder K] [IsStrictOrderedRing K]

theorem writeSet_cons (e : Effect K) (es : List (Effect K)) :
    writeSet (e :: es) = (match e.loc with | some l => [l] | none => []) ++ writeSet es := by
  simp only [writeSet, List.filterMap_cons]
  cases e.loc <;> rfl

theorem writeSet_evalEffects (fx : Fixes) (t : HTree K) :
    writeSet (evalEffects fx t) = if t.hasBadBB && !fx.errstate then [.npErr] else [] := by
  unfold evalEffects
  split <;> simp [writeSet_cons, writeSet_nil, Effect.loc]

theorem writeSet_forceEffects (h : Heap K) (o : Nat) (A : Obj K) (hA : h.objs[o]? = some A) :
    writeSet (forceEffects A) = forceLocs h o := by
  unfold forceEffects forceLocs
  rw [hA]
  cases A.tree.rootTab? <;> simp [writeSet_cons, writeSet_nil, Effect.loc]

theorem taperCore_writeSet (h : Heap K) (A : Obj K) (d : TaperData K) (n m : Nat)
    (es : List (Effect K)) (ob : Obj K) (he : taperCore h A d n m = some (es, ob)) :
    writeSet es = [] := by
  unfold taperCore at he
  simp only at he
  split at he
  · cases he
  · simp only [Option.some.injEq, Prod.mk.injEq] at he
    obtain ⟨rfl, _⟩ := he
    simp [writeSet_cons, writeSet_nil, Effect.loc]

theorem cellData_aliased (c : ArrCell K) (conv : List K) (h : c.container.aliased = true) :
    cellData c conv = c.data := by
  unfold cellData
  cases hc : c.container <;> simp [hc, Container.aliased] at h ⊢

theorem objHasBadBB_of (h : Heap K) (o : Nat) (A : Obj K) (m : HTree K) (hA : h.objs[o]? = some A)
    (hm : A.model = .ok m) : objHasBadBB h o = m.hasBadBB := by
  simp [objHasBadBB, hA, hm]

/-- the only store `Empirical1D` construction makes into an existing cell -/
theorem newEmpirical_writes (fx : Fixes) (h : Heap K) (kind : Kind) (x y : Nat) (xc yc : List K)
    (keep : Bool) (md : Option Nat) :
    ∀ l ∈ writeSet (newEmpirical fx h kind x y xc yc keep md).1,
      l ∈ hidden fx h (.newEmpirical kind x y xc yc keep md) := by
  intro l hl
  unfold newEmpirical at hl
  split at hl
  · rename_i cx cy hx hy
    simp only at hl
    split at hl
    · simp [writeSet_nil] at hl
    · split at hl
      · -- IndexError before the store: only the allocation of a private copy of x
        split at hl <;> simp [writeSet_cons, writeSet_nil, Effect.loc] at hl
      · have key : ∀ l ∈ writeSet
            (if cy.container.aliased = true then
              if (!keep && (cellData cy yc).any fun v => decide (v < 0)) = true then
                if fx.copyBeforeClip = true then
                  [Effect.allocArr ⟨(clipNeg false (cellData cy yc)).1, .ndarray, false⟩]
                else [Effect.writeArr y (clipNeg false (cellData cy yc)).1]
              else []
            else [Effect.allocArr ⟨if (!keep && (cellData cy yc).any fun v => decide (v < 0)) = true
                then (clipNeg false (cellData cy yc)).1 else cellData cy yc, .ndarray, false⟩] : List (Effect K)),
            l ∈ hidden fx h (.newEmpirical kind x y xc yc keep md) := by
          intro l hl
          by_cases ha : cy.container.aliased = true
          · rw [if_pos ha] at hl
            by_cases hc : (!keep && (cellData cy yc).any fun v => decide (v < 0)) = true
            · rw [if_pos hc] at hl
              by_cases hf : fx.copyBeforeClip = true
              · rw [if_pos hf] at hl; simp [writeSet_cons, writeSet_nil, Effect.loc] at hl
              · rw [if_neg hf] at hl
                simp only [writeSet_cons, writeSet_nil, Effect.loc, List.append_nil,
                  List.mem_singleton] at hl
                subst hl
                rw [cellData_aliased cy yc ha] at hc
                simp only [Bool.and_eq_true, Bool.not_eq_true'] at hc
                simp only [Bool.not_eq_true] at hf
                simp [hidden, hy, hf, hc.1, hc.2, ha]
            · rw [if_neg hc] at hl; simp [writeSet_nil] at hl
          · rw [if_neg ha] at hl; simp [writeSet_cons, writeSet_nil, Effect.loc] at hl
        split at hl
        · -- one-point table: ValueError after the store
          rw [writeSet_append] at hl
          rcases List.mem_append.mp hl with h1 | h1
          · split at h1 <;> simp [writeSet_cons, writeSet_nil, Effect.loc] at h1
          · exact key l h1
        · simp only [writeSet_append, List.mem_append] at hl
          rcases hl with (h1 | h1) | h1
          · split at h1 <;> simp [writeSet_cons, writeSet_nil, Effect.loc] at h1
          · exact key l h1
          · simp [writeSet_cons, writeSet_nil, Effect.loc] at h1
  · simp [writeSet_nil] at hl

end Synphot.HeapModel
