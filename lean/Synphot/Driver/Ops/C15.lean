/-
  Driver ops of C15 (model parameters with units), K = ℚ, transcendental functions via `transcQ`.
  The two dictionaries are the regenerated ones (`Generated/ParamTable.lean`).
-/
import Synphot.Driver.Objects
import Synphot.Driver.Ops.C16
import Synphot.Core.Params
import Synphot.Generated.ParamTable

open Lean Synphot Synphot.Params

namespace Synphot.Driver

def parseQUnit (j : Json) : M (Option (QUnit Rat)) := do
  match j with
  | .null => pure none
  | o => do
      let k ← fStr o "k"
      match k with
      | "length" => pure (some (.length (← fRat o "s")))
      | "freq" => pure (some (.freq (← fRat o "s")))
      | "wavenumber" => pure (some (.wavenumber (← fRat o "s")))
      | "energy" => pure (some (.energy (← fRat o "s")))
      | "dimensionless" => pure (some (.dimensionless (← fRat o "s")))
      | "temperature" => pure (some (.temperature (← fRat o "s")))
      | "irradiance" => pure (some (.irradiance (← fRat o "s")))
      | "flux" => do
          let u ← getField o "f" >>= parseFluxUnitQ
          pure (some (.flux u))
      | "other" => pure (some .other)
      | s => .error s!"unknown unit class {s}"

def parseArgs (l : List Json) : M (Args Rat) :=
  l.mapM fun p => do
    match p with
    | .arr #[n, a] => do
        let name ← asStr n
        let vals ← fRats a "v"
        let unit ← match a.getObjVal? "u" with
          | .ok u => parseQUnit u
          | .error _ => pure none
        pure (name, { vals := vals, unit := unit })
    | _ => .error "expected [name, {v, u}]"

def fluxUnitName : FluxUnit Rat → String
  | .photlam => "photlam" | .photnu => "photnu" | .flam => "flam" | .fnu => "fnu"
  | .jy k => "jy:" ++ ratStr k | .stmag => "stmag" | .abmag => "abmag" | .count => "count"
  | .obmag => "obmag" | .vegamag => "vegamag"

def jArgs (a : Args Rat) : Json :=
  Json.arr (a.map fun p => Json.arr #[Json.str p.1,
    Json.mkObj [("v", jRats p.2.vals), ("kept_unit", Json.bool p.2.unit.isSome)]]).toArray

/-- the parameters of the constructed model object, by the names the Python class uses -/
def builtParams : Built Rat → List (String × List Rat) × String
  | .leaf (.table t) => ([("points", t.pts), ("lookup_table", t.vals)], "")
  | .leaf (.extinction t) => ([("points", t.pts), ("lookup_table", t.vals)], "")
  | .leaf (.box a x w _) => ([("amplitude", [a]), ("x_0", [x]), ("width", [w])], "")
  | .leaf (.trapezoid a x w s _) => ([("amplitude", [a]), ("x_0", [x]), ("width", [w]), ("slope", [s])], "")
  | .leaf (.const1 a) => ([("amplitude", [a])], "")
  | .leaf (.constFlux a u) => ([("amplitude", [a])], fluxUnitName u)
  | .leaf (.powerLaw a x al u) => ([("amplitude", [a]), ("x_0", [x]), ("alpha", [al])], fluxUnitName u)
  | .leaf (.gaussian a m s _) => ([("amplitude", [a]), ("mean", [m]), ("stddev", [s])], "")
  | .leaf (.lorentz a x f _) => ([("amplitude", [a]), ("x_0", [x]), ("fwhm", [f])], "")
  | .leaf (.ricker a x s _) => ([("amplitude", [a]), ("x_0", [x]), ("sigma", [s])], "")
  | .const1Q a _ => ([("amplitude", [a])], "quantity")
  | .gaussAbs a m s => ([("amplitude", [a]), ("mean", [m]), ("stddev", [s])], "")
  | .powerLaw1 a x al => ([("amplitude", [a]), ("x_0", [x]), ("alpha", [al])], "")
  | .brokenPowerLaw a x a1 a2 => ([("amplitude", [a]), ("x_break", [x]), ("alpha_1", [a1]), ("alpha_2", [a2])], "")
  | .expCutoff a x al xc => ([("amplitude", [a]), ("x_0", [x]), ("alpha", [al]), ("x_cutoff", [xc])], "")
  | .logParabola a x al b => ([("amplitude", [a]), ("x_0", [x]), ("alpha", [al]), ("beta", [b])], "")
  | .blackBody _ t => ([("temperature", [t])], "")

def jBuilt (b : Built Rat) : Json :=
  let (ps, u) := builtParams b
  Json.mkObj [("params", Json.mkObj (ps.map fun p => (p.1, jRats p.2))), ("unit", Json.str u)]

def dispatchC15M (op : String) (j : Json) : M Json := do
  match op with
  | "c15_build" => do
      let E ← envOf j
      let C ← getField j "bbconst" >>= parseConstC16
      let cls ← match (← fStr j "cls") with
        | "source" => pure SpecClass.source
        | "unitless" => pure SpecClass.unitless
        | s => .error s!"unknown class {s}"
      let r : Request Rat := {
        cls := cls, z := ← fRat j "z", isModelClass := ← fBool j "is_model", model := ← fStr j "model",
        nModels := ← fInt j "n_models", args := ← fArr j "args" >>= parseArgs }
      let keepNeg ← fBool j "keep_neg"
      let conserve := match fOpt j "ztype" with
        | some (.str "conserve_flux") => true
        | _ => false
      let xs ← fRats j "xs"
      let pa := processArgs E.P E.T Generated.modelParamTable Generated.modelFconvWav r
      let b := construct E.P E.T Generated.modelParamTable Generated.modelFconvWav keepNeg r
      let samples : Except Err (List Rat) := do
        let bb ← b
        xs.mapM (sampleAtType E C conserve r.z bb)
      pure (Json.mkObj [("args", outcome jArgs pa), ("built", outcome jBuilt b),
                        ("samples", outcome jRats samples)])
  | "c15_tables" =>
      -- the dictionaries the model runs with (for the exhaustive table check of the harness)
      pure (Json.mkObj [
        ("param", Json.mkObj (Generated.modelParamTable.map fun m =>
          (m.1, Json.mkObj (m.2.map fun p => (p.1, Json.str p.2))))),
        ("fconv", Json.mkObj (Generated.modelFconvWav.map fun p => (p.1, Json.str p.2)))])
  | _ => .error s!"unknown op {op}"

/-- ops of C15; `none`: not one of ours -/
def dispatchC15 (op : String) (j : Json) : Option (M Json) :=
  if op ∈ ["c15_build", "c15_tables"] then some (dispatchC15M op j) else none

end Synphot.Driver
