#!/usr/bin/env python3
"""Regenerates /verif/MANIFEST.json from tools/manifest_table.json (one entry per claimed property)."""
import json, os
V = os.path.dirname(os.path.dirname(os.path.abspath(__file__)))
table = {}
for fn in sorted(os.listdir(os.path.join(V, 'tools', 'manifest'))):
    if fn.endswith('.json'):
        table[fn[:-5]] = json.load(open(os.path.join(V, 'tools', 'manifest', fn)))
props = [json.loads(l)['id'] for l in open(os.path.join(V, 'properties.jsonl'))]
checks, na = [], []
for pid in props:
    t = table.get(pid)
    if not t or t.get('not_applicable'):
        na.append({'property_id': pid, 'reason': (t or {}).get('not_applicable', 'check not built yet (work in progress); nothing is claimed for this property')})
        continue
    checks.append({
        'property_id': pid,
        'quick_cmd': './check %s --tier quick' % pid,
        'thorough_cmd': './check %s --tier thorough' % pid,
        'evidence_file': 'evidence/%s.json' % pid,
        'replay_cmd_template': './check %s --replay {path}' % pid,
        'engine': 'lean4-proof+correspondence',
        'level_claimed': {'category': 'proof', 'text': t['text'], 'design_ref': t.get('design_ref', 'DESIGN.md §8 ' + pid)},
        'level_note': t['note'],
        'technique': t.get('technique', 'Lean 4 theorems about a hand-written executable model (generic ordered field), tied to /repo by a differential correspondence check at K = Q on every run'),
    })
m = {
    'version': 1,
    'setup_cmd': './setup.sh',
    'hooks': {'guard': 'SYNPHOT_VERIF', 'enable': 'export SYNPHOT_VERIF=1 (set by ./check; no source hook is currently needed: the harness imports synphot from /repo in-process and rebuilds the C extension from /repo/synphot/src into a scratch directory)',
              'baseline_off_cmd': 'cd /repo && env -u SYNPHOT_VERIF /venv/bin/python -m pytest -ra -q -p no:cacheprovider --timeout=900 --continue-on-collection-errors',
              'source_commits': [], 'add_only': True},
    'engines': [{'name': 'lean4-proof+correspondence', 'path': 'check',
                 'serves_properties': [c['property_id'] for c in checks],
                 'kind_free_text': 'Lean 4 + Mathlib theorems (lean/Synphot/Props) about an executable model (lean/Synphot/Core), model driven at K = Q through a JSON line protocol (lean/Driver.lean) and compared with the implementation imported from /repo (harness/), plus literal tables regenerated from the source (tools/extract_tables.py)'}],
    'checks': checks,
    'not_applicable': na,
    'notes': 'See DESIGN.md. Genuine defects found and repaired are listed in known_findings.json (status fixed) with their fix: commits in /repo.',
}
json.dump(m, open(os.path.join(V, 'MANIFEST.json'), 'w'), indent=1)
print('checks:', [c['property_id'] for c in checks], 'n/a:', len(na))
