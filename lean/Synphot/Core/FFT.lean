/-
  Synphot.Core.FFT — `synphot/filter_parameterization/filter_fft.py` (all of it):
  `_simplified_wavelength`, `filter_to_fft`, `filter_from_fft`,
  `analytical_model_from_fft`, `filters_to_fft_table`.

  * `np.arange(λ₀, (n+1)Δ + λ₀, Δ)` has `ceil(((n+1)Δ + λ₀ − λ₀)/Δ)` points *computed in
    binary64*: `n+1` in exact arithmetic, `n+1` or `n+2` in the code (DESIGN §1.2a).  The number
    of points the code produced is therefore an **input** `N` of every function here; the points
    themselves are `λ₀ + k·Δ`, as `np.arange` computes them.
  * `np.fft.fft(x)[:m]` / `np.fft.ifft(c, n=N).real` are written out as the finite sums of
    `cos`/`sin` they stand for (`np.fft` itself is library: modelled, not verified); `sin`, `cos`,
    `π` come from `T : Transc K`.
  * NumPy's `0/0` in `(v − min v)·p / ptp(v)` is `Err.nan` at the point where it appears.
  * `np.interp` on a non-increasing `xp` (descending `wavelengths`) is unspecified by NumPy; the
    model applies the same formula but is only compared with the code on ascending input.
-/
import Synphot.Core.Basic
import Synphot.Core.Transc
import Synphot.Core.Interp

namespace Synphot
namespace FFT
variable {K : Type} [Field K] [LinearOrder K] [IsStrictOrderedRing K]

/-- the identities of `sin`/`cos` the theorems about the trigonometric sums may assume -/
structure TrigLawful (T : Transc K) : Prop where
  sin_add : ∀ x y, T.sin (x + y) = T.sin x * T.cos y + T.cos x * T.sin y
  cos_add : ∀ x y, T.cos (x + y) = T.cos x * T.cos y - T.sin x * T.sin y
  sin_zero : T.sin 0 = 0
  cos_zero : T.cos 0 = 1
  sin_half_pi : T.sin (T.pi / 2) = 1
  cos_half_pi : T.cos (T.pi / 2) = 0

/-! ### small array helpers -/

/-- `Σ_{i<n} f i` -/
def rangeSum (n : Nat) (f : Nat → K) : K := ((List.range n).map f).sum

/-- `arr.min()`; NumPy raises `ValueError` on a zero-size array -/
def listMin : List K → Except Err K
  | [] => .error .valueError
  | a :: t => .ok (t.foldl min a)

/-- `arr.max()` -/
def listMax : List K → Except Err K
  | [] => .error .valueError
  | a :: t => .ok (t.foldl max a)

/-- `np.diff` -/
def diffs : List K → List K
  | a :: b :: t => (b - a) :: diffs (b :: t)
  | _ => []

/-- `np.nanmedian` of finite values: middle of the sorted copy (mean of the two middle ones for
an even count); NaN for an empty array -/
def median (l : List K) : Except Err K :=
  let s := l.mergeSort (fun a b => decide (a ≤ b))
  let m := s.length
  if m = 0 then .error .nan
  else if m % 2 = 1 then .ok (s.getD (m / 2) 0)
  else .ok ((s.getD (m / 2 - 1) 0 + s.getD (m / 2) 0) / 2)

/-- `np.interp(x, xp, fp)` for ascending `xp`: end values outside, linear inside -/
def npInterp (xp fp : List K) (x : K) : K :=
  if x < xp.headD 0 then fp.headD 0
  else if xp.getLastD 0 < x then fp.getLastD 0
  else interpAsc xp fp x

/-! ### `_simplified_wavelength` -/

/-- the `N` points `λ₀ + k·Δ` of `np.arange(λ₀, (n+1)Δ + λ₀, Δ)` (`N`: the count NumPy produced) -/
def simplifiedWavelength (N : Nat) (lam0 delta : K) : List K :=
  (List.range N).map fun (k : Nat) => lam0 + (k : K) * delta

/-- the exact value of the rounding-dependent count: `ceil(((n+1)Δ + λ₀ − λ₀)/Δ) = n+1` -/
def simplifiedCountExact (n : Nat) : Nat := n + 1

/-! ### the discrete Fourier sums -/

/-- the angle `2π r / N` -/
def angle (T : Transc K) (N r : Nat) : K := 2 * T.pi * (r : K) / (N : K)

/-- `np.fft.fft(x)[k] = Σ_j x_j e^{−2πi jk/N}` as (real part, imaginary part) -/
def dftCoeff (T : Transc K) (x : List K) (k : Nat) : K × K :=
  (rangeSum x.length (fun j => x.getD j 0 * T.cos (angle T x.length (j * k))),
   -rangeSum x.length (fun j => x.getD j 0 * T.sin (angle T x.length (j * k))))

/-- `np.fft.fft(x)[:nTerms]` -/
def fftTrunc (T : Transc K) (x : List K) (nTerms : Nat) : List (K × K) :=
  ((List.range x.length).take nTerms).map (dftCoeff T x)

/-- `np.fft.ifft(params, n=N).real`: the parameters are cropped / zero-padded to `N`,
`Re (1/N) Σ_k c_k e^{2πi jk/N}` for `j < N` -/
def invDftRe (T : Transc K) (N : Nat) (params : List (K × K)) : List K :=
  let p := params.take N
  (List.range N).map fun j =>
    rangeSum p.length (fun k =>
      (p.getD k (0, 0)).1 * T.cos (angle T N (j * k)) -
      (p.getD k (0, 0)).2 * T.sin (angle T N (j * k))) / (N : K)

/-- `(v − v.min()) * p / np.ptp(v)`; `ptp = 0` makes every entry `0·p/0 = NaN` -/
def rescale (v : List K) (p : K) : Except Err (List K) := do
  let lo ← listMin v
  let hi ← listMax v
  if hi - lo = 0 then .error .nan
  else pure (v.map fun x => (x - lo) * p / (hi - lo))

/-! ### `filter_to_fft` -/

/-- what `filter_to_fft` returns -/
structure Params (K : Type) where
  n : Nat
  lam0 : K
  delta : K
  trMax : K
  fft : List (K × K)

/-- `filter_to_fft(bp, wavelengths, n_terms)`; `bp` is the bandpass as a function of wavelength
(Å), `wl` the validated wavelengths in Å, `N` the length of the simplified grid NumPy produced -/
def filterToFft (T : Transc K) (bp : K → K) (wl : List K) (N nTerms : Nat) : Except Err (Params K) := do
  let tr := wl.map bp
  let lam0 ← listMin wl                                  -- `wl.min()`: ValueError when empty
  let delta ← median ((diffs wl).filter (fun d => d ≠ 0))  -- NaN step: `arange` cannot proceed
  let trMax ← listMax tr
  if N = 0 then .error .valueError                       -- `np.fft.fft` of no points
  else
    let ti := (simplifiedWavelength N lam0 delta).map (npInterp wl tr)
    pure { n := wl.length, lam0 := lam0, delta := delta, trMax := trMax, fft := fftTrunc T ti nTerms }

/-! ### `filter_from_fft` -/

/-- `filter_from_fft(n_lambda, lambda_0, delta_lambda, tr_max, fft_parameters)`: points and
lookup table handed to `SpectralElement(Empirical1D, …)`; `N` is the simplified grid's length -/
def filterFromFft (T : Transc K) (N : Nat) (lam0 delta trMax : K) (params : List (K × K)) :
    Except Err (List K × List K) := do
  if delta = 0 then .error .zeroDivision                  -- `np.arange(…, step=0)`
  else if N = 0 then .error .valueError                   -- `np.fft.ifft(…, n=0)`
  else
    let vals ← rescale (invDftRe T N params) trMax
    pure (simplifiedWavelength N lam0 delta, vals)

/-- the reconstructed bandpass as a function of wavelength (the `Empirical1D` built from the table) -/
def reconstructed (tab : List K × List K) : K → K := (mkTable tab.1 tab.2 false).1.eval

/-! ### `analytical_model_from_fft` -/

/-- astropy's `Sine1D.evaluate`: `A sin(2π (f x + φ))` -/
def sine1D (T : Transc K) (amp freq phase x : K) : K := amp * T.sin (2 * T.pi * (freq * x + phase))

/-- the compound model `m`: `Σ_i Sine1D(Re c_i / N, i/N, phase 0.25) − Σ_i Sine1D(Im c_i / N, i/N)`
over **all** given parameters (no cropping to `N`, unlike `ifft`) -/
def analyticM (T : Transc K) (N : Nat) (params : List (K × K)) (t : K) : K :=
  rangeSum params.length (fun i => sine1D T ((params.getD i (0, 0)).1 / (N : K)) ((i : K) / (N : K)) (1 / 4) t) -
  rangeSum params.length (fun i => sine1D T ((params.getD i (0, 0)).2 / (N : K)) ((i : K) / (N : K)) 0 t)

/-- `analytical_model_from_fft(…)(xs)`: `mo = m((x − w.min())/(w[1] − w[0]))`, then the same rescaling -/
def analyticEval (T : Transc K) (N : Nat) (lam0 delta trMax : K) (params : List (K × K)) (xs : List K) :
    Except Err (List K) := do
  if delta = 0 then .error .zeroDivision
  else
    let w := simplifiedWavelength N lam0 delta
    let w0 ← listMin w
    let w1 ← pyIndex w 1
    let wz ← pyIndex w 0
    if params.isEmpty then .error .typeError              -- `np.sum([]) − np.sum([])` is a float, not a model
    else
      let mo := xs.map fun x => analyticM T N params ((x - w0) / (w1 - wz))
      rescale mo trMax

/-! ### `filters_to_fft_table` -/

/-- one entry of `filters_mapping` (+ the simplified grid's length for that filter) -/
structure FilterIn (K : Type) where
  name : String
  bp : K → K
  wl : List K
  N : Nat

/-- the loop of `filters_to_fft_table`: one `filter_to_fft` per entry, in the mapping's order; the first
failure propagates -/
def tableRows (T : Transc K) (nTerms : Nat) : List (FilterIn K) → Except Err (List (String × Params K))
  | [] => .ok []
  | f :: fs => do
      let r ← filterToFft T f.bp f.wl f.N nTerms
      let rest ← tableRows T nTerms fs
      pure ((f.name, r) :: rest)

/-- `filters_to_fft_table(filters_mapping, n_terms)`: one row `(key, n_lambda, lambda_0, delta_lambda,
tr_max, fft_0 … )` per filter; `Table(rows=…, names=…)` raises `ValueError` unless every row has
exactly `5 + n_terms` entries -/
def filtersToFftTable (T : Transc K) (fs : List (FilterIn K)) (nTerms : Nat) :
    Except Err (List (String × Params K)) := do
  let rows ← tableRows T nTerms fs
  if rows.any (fun r => r.2.fft.length ≠ nTerms) then .error .valueError
  else pure rows

end FFT
end Synphot
