/-
  C06 — An observation is source × bandpass, admitted only with adequate overlap.
-/
import Synphot.Core.Observation
import Synphot.Lemmas.Spectrum
import Synphot.Lemmas.C06x
import Synphot.Props.C03

set_option linter.unusedSectionVars false
set_option linter.unusedVariables false

namespace Synphot.C06
open Synphot Synphot.C06x
variable {K : Type} [Field K] [LinearOrder K] [IsStrictOrderedRing K]

/-! ### the end-point classifier -/

/-- 'none' exactly when the two ranges are disjoint (strict `<`: a shared end point overlaps) -/
theorem status_none_iff (a1 a2 b1 b2 : K) (ha : a1 ≤ a2) (hb : b1 ≤ b2) :
    overlapStatus a1 a2 b1 b2 = .none ↔ (a2 < b1 ∨ b2 < a1) := by
  unfold overlapStatus
  constructor
  · intro h
    split_ifs at h with h1 h2
    exact h2
  · intro h
    have h1 : ¬ (a1 ≥ b1 ∧ a2 ≤ b2) := by
      rintro ⟨h1, h2⟩
      rcases h with h | h
      · exact absurd (lt_of_le_of_lt (le_trans h1 ha) h) (lt_irrefl _)
      · exact absurd (lt_of_le_of_lt h2 (lt_of_lt_of_le h ha)) (lt_irrefl _)
    rw [if_neg h1, if_pos h]

/-- 'full' exactly when the first range is contained in the second (`≤`: equal ends count) -/
theorem status_full_iff (a1 a2 b1 b2 : K) :
    overlapStatus a1 a2 b1 b2 = .full ↔ (b1 ≤ a1 ∧ a2 ≤ b2) := by
  unfold overlapStatus
  constructor
  · intro h
    split_ifs at h with h1
    exact h1
  · intro h; rw [if_pos h]

/-- 'partial' in every other case -/
theorem status_partial_iff (a1 a2 b1 b2 : K) :
    overlapStatus a1 a2 b1 b2 = .part ↔ (¬ (b1 ≤ a1 ∧ a2 ≤ b2) ∧ ¬ (a2 < b1 ∨ b2 < a1)) := by
  unfold overlapStatus
  constructor
  · intro h
    split_ifs at h with h1 h2
    exact ⟨h1, h2⟩
  · rintro ⟨h1, h2⟩
    rw [if_neg h1, if_neg h2]

/-! ### grading -/

/-- 'none' exactly when the end-point status is 'none' -/
theorem grade_none_iff (st : Overlap) (z : Bool) (e t thr : K) :
    gradeVerdict st z e t thr = .none ↔ st = .none := by
  cases st <;> simp [gradeVerdict] <;> split_ifs <;> simp

/-- 'full' when contained; otherwise only through the zero-at-both-ends shortcut -/
theorem grade_full_iff (st : Overlap) (z : Bool) (e t thr : K) :
    gradeVerdict st z e t thr = .full ↔ (st = .full ∨ (st = .part ∧ z = true)) := by
  cases st <;> cases z <;> simp [gradeVerdict] <;> split_ifs <;> simp

/-- the remaining cases are graded by the excluded fraction against the threshold -/
theorem grade_partial (z : Bool) (e t thr : K) (hz : z = false) :
    (gradeVerdict .part z e t thr = .partialMost ↔ e / t < thr) ∧
    (gradeVerdict .part z e t thr = .partialNotMost ↔ ¬ e / t < thr) := by
  subst hz
  simp only [gradeVerdict, Bool.false_eq_true, if_false]
  constructor <;> split_ifs <;> simp_all

/-! ### admission -/

/-- what `Observation.__init__` does with a verdict and a `force` value -/
theorem admit_table (E : Env K) (P : OverlapPar K) (src band : Spec K) (force : Force) (v : Verdict)
    (hv : checkOverlap E P band src Option.none = .ok v) :
    (v = .none → obsAdmit E P src band force = .error .disjointError) ∧
    (v = .full → obsAdmit E P src band force = .ok (src, false)) ∧
    ((v = .partialMost ∨ v = .partialNotMost) →
      (force = .none → obsAdmit E P src band force = .error .partialOverlap) ∧
      (force = .invalid → obsAdmit E P src band force = .error .synphotError) ∧
      (force = .extrap → obsAdmit E P src band force = .ok ((src.forceExtrap).1, true)) ∧
      (force = .taper → ∀ r, src.taper E P.mergeThr Option.none = .ok r →
          obsAdmit E P src band force = .ok (r.getD src, true))) := by
  refine ⟨?_, ?_, ?_⟩
  · intro h; subst h; simp [obsAdmit, hv, bind, Except.bind]
  · intro h; subst h; simp [obsAdmit, hv, bind, Except.bind, pure, Except.pure]
  · intro h
    refine ⟨?_, ?_, ?_, ?_⟩
    · intro hf; subst hf; rcases h with rfl | rfl <;> simp [obsAdmit, hv, bind, Except.bind]
    · intro hf; subst hf; rcases h with rfl | rfl <;> simp [obsAdmit, hv, bind, Except.bind]
    · intro hf; subst hf; rcases h with rfl | rfl <;> simp [obsAdmit, hv, bind, Except.bind, pure, Except.pure]
    · intro hf r hr; subst hf
      rcases h with rfl | rfl <;> cases r <;>
        simp [obsAdmit, hv, hr, bind, Except.bind, pure, Except.pure]

/-- a disjoint pair is refused whatever `force` says -/
theorem disjoint_always_refused (E : Env K) (P : OverlapPar K) (src band : Spec K) (force : Force)
    (hv : checkOverlap E P band src Option.none = .ok .none) :
    obsAdmit E P src band force = .error .disjointError :=
  (admit_table E P src band force .none hv).1 rfl

/-- the values `force` accepts: 'none', 'taper', anything starting with 'extrap', in any case -/
theorem force_strings :
    Force.ofString "none" = .none ∧ Force.ofString "TAPER" = .taper ∧
    Force.ofString "extrap" = .extrap ∧ Force.ofString "Extrapolate" = .extrap ∧
    Force.ofString "bogus" = .invalid := by decide +kernel

/-! ### evaluation -/

/-- an observation evaluates at every wavelength to source′(λ) × bandpass(λ), where source′ is the
admitted (possibly tapered or extrapolating) source -/
theorem obs_eval (E : Env K) (P : OverlapPar K) (src band : Spec K) (binset : Option (List K))
    (force : Force) (useC : Bool) (o : Obs K) (h : mkObs E P src band binset force useC = .ok o)
    (x vs vb : K) (hs : o.src.evalAt E x = .ok vs) (hb : o.band.evalAt E x = .ok vb) :
    o.model.eval E x = .ok (vs * vb) := by
  unfold mkObs at h
  simp only [bind, Except.bind, pure, Except.pure] at h
  split_ifs at h with h1 h2
  all_goals try (cases h; done)
  cases ha : obsAdmit E P src band force with
  | error e => simp [ha] at h
  | ok sw =>
    obtain ⟨s, w⟩ := sw
    simp only [ha] at h
    cases hsm : s.model with
    | error e => simp [hsm] at h
    | ok sm =>
      cases hbm : band.model with
      | error e => simp [hsm, hbm] at h
      | ok bm =>
        simp only [hsm, hbm] at h
        -- whatever the binset and the bins are, the stored source, band and model are these
        have key : ∀ o', (o' : Obs K) = o → o'.src = s → o'.band = band → o'.model = .bin .mul sm bm →
            o.model.eval E x = .ok (vs * vb) := by
          intro o' ho hs' hb' hm
          subst ho
          rw [hs'] at hs; rw [hb'] at hb
          obtain ⟨m1, hm1, he1⟩ := evalAt_ok hs
          obtain ⟨m2, hm2, he2⟩ := evalAt_ok hb
          rw [hsm] at hm1; cases hm1
          rw [hbm] at hm2; cases hm2
          rw [hm, eval_bin_of he1 he2]; rfl
        revert h
        cases binset with
        | none =>
          simp only []
          cases hd : defaultBinset P.mergeThr sm bm with
          | error e => intro h; simp at h
          | ok bs =>
            simp only []
            cases hb2 : initBins E P.mergeThr (Tree.bin BinOp.mul sm bm) bs useC with
            | error e => intro h; simp at h
            | ok bins => intro h; simp at h; exact key _ h rfl rfl rfl
        | some b =>
          simp only []
          cases hvw : validateWavelengths b with
          | error e => intro h; simp at h
          | ok u =>
            simp only []
            cases hb2 : initBins E P.mergeThr (Tree.bin BinOp.mul sm bm) b useC with
            | error e => intro h; simp at h
            | ok bins => intro h; simp at h; exact key _ h rfl rfl rfl

/-- forced extrapolation: a tabulated source is held at its end value outside its own range -/
theorem extrap_holds_end_value (t : Table K) (x : K) (hx : x < t.forceExtrap.pts.headD 0)
    (h0 : t.keepNeg = true ∨ 0 ≤ t.vals.headD 0) : t.forceExtrap.eval x = t.vals.headD 0 := by
  have := C03.eval_below t.forceExtrap x hx (by simpa [Table.forceExtrap] using h0)
  simpa [Table.forceExtrap] using this

/-! ### grading: threshold -/

/-- raising the threshold changes nothing except that a 'partial_notmost' may become 'partial_most' -/
theorem grade_threshold_mono (st : Overlap) (z : Bool) (e t thr thr' : K) (h : thr ≤ thr') :
    gradeVerdict st z e t thr' = gradeVerdict st z e t thr ∨
      (gradeVerdict st z e t thr = .partialNotMost ∧ gradeVerdict st z e t thr' = .partialMost) := by
  cases st <;> cases z <;> simp only [gradeVerdict, Bool.false_eq_true, if_false, if_true, true_or]
  by_cases h1 : e / t < thr
  · left; rw [if_pos h1, if_pos (lt_of_lt_of_le h1 h)]
  · by_cases h2 : e / t < thr'
    · right; rw [if_neg h1, if_pos h2]; exact ⟨rfl, rfl⟩
    · left; rw [if_neg h1, if_neg h2]

/-- 'full' and 'none' do not depend on the threshold -/
theorem grade_threshold_irrelevant (st : Overlap) (z : Bool) (e t thr thr' : K) :
    (gradeVerdict st z e t thr = .full ↔ gradeVerdict st z e t thr' = .full) ∧
    (gradeVerdict st z e t thr = .none ↔ gradeVerdict st z e t thr' = .none) := by
  rw [grade_full_iff, grade_full_iff, grade_none_iff, grade_none_iff]
  exact ⟨Iff.rfl, Iff.rfl⟩

/-- the boundary: an excluded fraction equal to the threshold is 'partial_notmost' (the code uses `<`) -/
theorem grade_boundary (e t thr : K) (h : e / t = thr) : gradeVerdict .part false e t thr = .partialNotMost := by
  simp only [gradeVerdict, Bool.false_eq_true, if_false, h, lt_irrefl]

/-! ### `force` strings -/

/-- which strings are which value: decided on the lower-cased string only -/
theorem force_values (s : String) :
    (Force.ofString s = .none ↔ s.toLower = "none") ∧
    (Force.ofString s = .taper ↔ s.toLower = "taper") ∧
    (Force.ofString s = .extrap ↔ s.toLower.startsWith "extrap" = true) ∧
    (Force.ofString s = .invalid ↔
      (s.toLower ≠ "none" ∧ s.toLower ≠ "taper" ∧ s.toLower.startsWith "extrap" = false)) := by
  unfold Force.ofString
  dsimp only
  by_cases h1 : s.toLower = "none"
  · have : ("none" : String).startsWith "extrap" = false := by decide
    simp [h1, this]
  · by_cases h2 : s.toLower = "taper"
    · have : ("taper" : String).startsWith "extrap" = false := by decide
      simp [h2, this]
    · by_cases h3 : s.toLower.startsWith "extrap" = true
      · simp [h1, h2, h3]
      · simp [h1, h2, h3]

/-- every string outside the accepted set is the invalid value, and conversely -/
theorem force_invalid_iff (s : String) : Force.ofString s = .invalid ↔
    (s.toLower ≠ "none" ∧ s.toLower ≠ "taper" ∧ s.toLower.startsWith "extrap" = false) :=
  (force_values s).2.2.2

/-- case is ignored: two strings with the same lower-casing are the same value -/
theorem force_case_insensitive (s s' : String) (h : s.toLower = s'.toLower) :
    Force.ofString s = Force.ofString s' := by
  unfold Force.ofString; rw [h]

/-! ### the classifier as a whole: `check_overlap(other)` in terms of the end-point status and the grading -/

/-- other spectrum without a sampling set (unbounded): 'full'; otherwise a bandpass without one:
'partial_notmost' — neither is sampled -/
theorem classifier_unbounded (E : Env K) (P : OverlapPar K) (band src : Spec K) (bm om : Tree K)
    (hbm : band.model = .ok bm) (hom : src.model = .ok om) :
    (om.waveset P.mergeThr = .ok none → checkOverlap E P band src none = .ok .full) ∧
    (∀ b, om.waveset P.mergeThr = .ok (some b) → bm.waveset P.mergeThr = .ok none →
      checkOverlap E P band src none = .ok .partialNotMost) := by
  constructor
  · intro ho
    simp only [checkOverlap, hbm, hom, ho, ok_bind'', Option.isNone_none, if_true]; rfl
  · intro b ho hb
    simp only [checkOverlap, hbm, hom, ho, hb, ok_bind'', Option.isNone_none, Option.isNone_some, if_true,
      Bool.false_eq_true, if_false]; rfl

/-- in the sampled case the answer IS the grading of the end-point status of
(range of the bandpass's positive-throughput samples, range of the other spectrum), with the
zero-at-both-ends shortcut and the excluded / total throughput exactly as `gradeVerdict` takes them -/
theorem classifier_sampled (E : Env K) (P : OverlapPar K) (band src : Spec K) (bm om : Tree K) (x1 y1 b : List K)
    (a1 a2 b1 b2 : K) (S : Sampled E P band src bm om x1 y1 b a1 a2 b1 b2) (v : Verdict)
    (hv : checkOverlap E P band src none = .ok v) :
    ∃ (z : Bool) (e tot : K), v = gradeVerdict (overlapStatus a1 a2 b1 b2) z e tot P.threshold ∧
      (overlapStatus a1 a2 b1 b2 = .part →
        ∃ ends, sampleTree E om (endPair x1) = .ok ends ∧
          (z = true ↔ (shortcutKind om = true ∧ allNearZero P.allcloseAtol ends = true)) ∧
          (z = false → integrateTrapz E bm x1 = .ok tot ∧ 0 < tot ∧ ∃ e1 e2,
            (if a1 < b1 then integrateTrapz E bm [a1, b1] else .ok 0) = .ok e1 ∧
            (if a2 > b2 then integrateTrapz E bm [b2, a2] else .ok 0) = .ok e2 ∧ e = e1 + e2)) := by
  have h := (co_sampled_iff E P band src bm om x1 y1 b S.hbm S.hom S.ho S.hb S.hy a1 a2 b1 b2 S.h1 S.h2 S.h3 S.h4 v).mp hv
  rcases h with ⟨hst, rfl⟩ | ⟨hst, rfl⟩ | ⟨hst, ends, he, h⟩
  · exact ⟨false, 0, 1, by rw [hst]; rfl, by intro h'; rw [hst] at h'; cases h'⟩
  · exact ⟨false, 0, 1, by rw [hst]; rfl, by intro h'; rw [hst] at h'; cases h'⟩
  · rcases h with ⟨hk, hz, rfl⟩ | ⟨hc, tot, e1, e2, ht, hpos, he1, he2, rfl⟩
    · refine ⟨true, 0, 1, by rw [hst]; rfl, fun _ => ⟨ends, he, ?_, ?_⟩⟩
      · exact ⟨fun _ => ⟨hk, hz⟩, fun _ => rfl⟩
      · intro h'; cases h'
    · refine ⟨false, e1 + e2, tot, by rw [hst], fun _ => ⟨ends, he, ?_, ?_⟩⟩
      · exact ⟨fun h' => (by cases h'), fun h' => absurd h' hc⟩
      · intro _; exact ⟨ht, hpos, e1, e2, he1, he2, rfl⟩

/-- 'none' exactly when the bandpass's positive-throughput sample range is disjoint from the other
spectrum's range -/
theorem classifier_none_iff (E : Env K) (P : OverlapPar K) (band src : Spec K) (bm om : Tree K) (x1 y1 b : List K)
    (a1 a2 b1 b2 : K) (S : Sampled E P band src bm om x1 y1 b a1 a2 b1 b2) (v : Verdict)
    (hv : checkOverlap E P band src none = .ok v) : v = .none ↔ (a2 < b1 ∨ b2 < a1) := by
  obtain ⟨z, e, tot, rfl, _⟩ := classifier_sampled E P band src bm om x1 y1 b a1 a2 b1 b2 S v hv
  rw [grade_none_iff, status_none_iff a1 a2 b1 b2 S.le_a S.le_b]

/-- 'full' whenever the range is contained, and otherwise only for a partial end-point status when the other
spectrum is a zero-ended table or a non-compound analytic model that is (within `allclose`) zero at the two
ends of the bandpass's sampling set -/
theorem classifier_full_iff (E : Env K) (P : OverlapPar K) (band src : Spec K) (bm om : Tree K) (x1 y1 b : List K)
    (a1 a2 b1 b2 : K) (S : Sampled E P band src bm om x1 y1 b a1 a2 b1 b2) (v : Verdict)
    (hv : checkOverlap E P band src none = .ok v) :
    v = .full ↔ ((b1 ≤ a1 ∧ a2 ≤ b2) ∨
      (¬ (b1 ≤ a1 ∧ a2 ≤ b2) ∧ ¬ (a2 < b1 ∨ b2 < a1) ∧ shortcutKind om = true ∧
        ∃ ends, sampleTree E om (endPair x1) = .ok ends ∧ allNearZero P.allcloseAtol ends = true)) := by
  obtain ⟨z, e, tot, rfl, hp⟩ := classifier_sampled E P band src bm om x1 y1 b a1 a2 b1 b2 S v hv
  rw [grade_full_iff, status_full_iff, status_partial_iff]
  constructor
  · rintro (h | ⟨h, hz⟩)
    · exact Or.inl h
    · obtain ⟨ends, he, hzz, _⟩ := hp ((status_partial_iff a1 a2 b1 b2).mpr h)
      obtain ⟨hk, ha⟩ := hzz.mp hz
      exact Or.inr ⟨h.1, h.2, hk, ends, he, ha⟩
  · rintro (h | ⟨h1, h2, hk, ends, he, ha⟩)
    · exact Or.inl h
    · obtain ⟨ends', he', hzz, _⟩ := hp ((status_partial_iff a1 a2 b1 b2).mpr ⟨h1, h2⟩)
      rw [he] at he'; cases he'
      exact Or.inr ⟨⟨h1, h2⟩, hzz.mpr ⟨hk, ha⟩⟩

/-- the remaining cases are graded by (excluded throughput) / (total throughput) against the threshold,
strictly: 'partial_most' iff the fraction is below it -/
theorem classifier_partial_grade (E : Env K) (P : OverlapPar K) (band src : Spec K) (bm om : Tree K)
    (x1 y1 b : List K) (a1 a2 b1 b2 : K) (S : Sampled E P band src bm om x1 y1 b a1 a2 b1 b2) (v : Verdict)
    (hv : checkOverlap E P band src none = .ok v) (hne : v ≠ .full) (hnn : v ≠ .none) :
    ∃ tot e1 e2, integrateTrapz E bm x1 = .ok tot ∧ 0 < tot ∧
      (if a1 < b1 then integrateTrapz E bm [a1, b1] else .ok 0) = .ok e1 ∧
      (if a2 > b2 then integrateTrapz E bm [b2, a2] else .ok 0) = .ok e2 ∧
      (v = .partialMost ↔ (e1 + e2) / tot < P.threshold) ∧
      (v = .partialNotMost ↔ ¬ (e1 + e2) / tot < P.threshold) := by
  obtain ⟨z, e, tot, rfl, hp⟩ := classifier_sampled E P band src bm om x1 y1 b a1 a2 b1 b2 S v hv
  have hst : overlapStatus a1 a2 b1 b2 = .part := by
    cases h : overlapStatus a1 a2 b1 b2 with
    | full => rw [h] at hne; exact absurd rfl hne
    | none => rw [h] at hnn; exact absurd rfl hnn
    | part => rfl
  have hz : z = false := by
    cases z with
    | false => rfl
    | true => rw [hst] at hne; exact absurd rfl hne
  obtain ⟨ends, _, _, h3⟩ := hp hst
  obtain ⟨ht, hpos, e1, e2, he1, he2, rfl⟩ := h3 hz
  rw [hst]
  exact ⟨tot, e1, e2, ht, hpos, he1, he2, grade_partial z (e1 + e2) tot P.threshold hz⟩

/-! ### without force: the three-way outcome -/

/-- without `force` the constructor's admission is decided by the verdict alone: 'full' admits the operand
untouched and records no warning, either 'partial_*' raises `PartialOverlap`, 'none' raises `DisjointError`;
an exception inside `check_overlap` is passed on -/
theorem unforced_outcome (E : Env K) (P : OverlapPar K) (src band : Spec K) :
    obsAdmit E P src band .none =
      match checkOverlap E P band src Option.none with
      | .ok .full => .ok (src, false)
      | .ok .partialMost => .error .partialOverlap
      | .ok .partialNotMost => .error .partialOverlap
      | .ok .none => .error .disjointError
      | .error e => .error e := by
  unfold obsAdmit
  cases checkOverlap E P band src Option.none with
  | error e => rfl
  | ok v => cases v <;> rfl

/-- the same for the constructor itself: with the right operand classes a partial pair raises
`PartialOverlap` and a disjoint pair `DisjointError`, whatever the binset -/
theorem unforced_refusals (E : Env K) (P : OverlapPar K) (src band : Spec K) (binset : Option (List K))
    (useC : Bool) (hs : src.kind = .source) (hb : band.kind = .bandpass) (v : Verdict)
    (hv : checkOverlap E P band src Option.none = .ok v) :
    ((v = .partialMost ∨ v = .partialNotMost) →
      mkObs E P src band binset .none useC = .error .partialOverlap) ∧
    (v = .none → mkObs E P src band binset .none useC = .error .disjointError) := by
  have h := unforced_outcome E P src band
  rw [hv] at h
  refine ⟨?_, ?_⟩
  · rintro (rfl | rfl) <;> exact mkObs_refused E P src band binset .none useC hs hb _ h
  · rintro rfl; exact mkObs_refused E P src band binset .none useC hs hb _ h

/-- an observation constructed without `force` had verdict 'full'; it stores the operands untouched and no
warning -/
theorem unforced_observation (E : Env K) (P : OverlapPar K) (src band : Spec K) (binset : Option (List K))
    (useC : Bool) (o : Obs K) (h : mkObs E P src band binset .none useC = .ok o) :
    checkOverlap E P band src Option.none = .ok .full ∧ o.src = src ∧ o.band = band ∧ o.warned = false := by
  obtain ⟨_, _, ha, hb, _⟩ := mkObs_ok h
  rw [unforced_outcome] at ha
  cases hc : checkOverlap E P band src Option.none with
  | error e => rw [hc] at ha; cases ha
  | ok v =>
    rw [hc] at ha
    cases v <;> first | cases ha | skip
    simp only [Except.ok.injEq, Prod.mk.injEq] at ha
    exact ⟨rfl, ha.1.symm, hb, ha.2.symm⟩

/-- in terms of ranges: an admission without `force` means that the source has no sampling set of its own
(unbounded), or every sampled bandpass wavelength with positive throughput lies inside the range `[lo, hi]`
of the source's sampling set, or the source is a zero-ended table / a non-compound analytic model that is
(within `allclose`) zero at the first and the last wavelength of the bandpass's sampling set.
("Non-zero throughput" is `y1 > 0` in the code: a negative sample does not count.) -/
theorem unforced_admitted_range (E : Env K) (P : OverlapPar K) (src band s : Spec K) (w : Bool)
    (h : obsAdmit E P src band .none = .ok (s, w)) :
    s = src ∧ w = false ∧ ∃ bm om, band.model = .ok bm ∧ src.model = .ok om ∧
      (om.waveset P.mergeThr = .ok Option.none ∨
       ∃ x1 b lo hi, bm.waveset P.mergeThr = .ok (some x1) ∧ om.waveset P.mergeThr = .ok (some b) ∧
         lo ∈ b ∧ hi ∈ b ∧ (∀ u ∈ b, lo ≤ u ∧ u ≤ hi) ∧
         ((∀ x ∈ x1, ∀ y, bm.eval E x = .ok y → 0 < y → lo ≤ x ∧ x ≤ hi) ∨
          (shortcutKind om = true ∧ ∃ f l vf vl, x1.head? = some f ∧ x1.getLast? = some l ∧
            om.eval E f = .ok vf ∧ om.eval E l = .ok vl ∧ |vf| ≤ P.allcloseAtol ∧ |vl| ≤ P.allcloseAtol))) := by
  rw [unforced_outcome] at h
  cases hc : checkOverlap E P band src Option.none with
  | error e => rw [hc] at h; cases h
  | ok v =>
    rw [hc] at h
    cases v <;> cases h
    refine ⟨rfl, rfl, ?_⟩
    obtain ⟨bm, om, hbm, hom, hcase⟩ := sampled_of_answer E P band src .full hc
    refine ⟨bm, om, hbm, hom, ?_⟩
    rcases hcase with ⟨ho, _⟩ | ⟨b, _, _, hv⟩ | ⟨x1, y1, b, a1, a2, b1, b2, S⟩
    · exact Or.inl ho
    · cases hv
    · right
      obtain ⟨hb1, hb1'⟩ := listMin_spec b b1 S.h3
      obtain ⟨hb2, hb2'⟩ := listMax_spec b b2 S.h4
      refine ⟨x1, b, b1, b2, S.hb, S.ho, hb1, hb2, fun u hu => ⟨hb1' u hu, hb2' u hu⟩, ?_⟩
      rcases (classifier_full_iff E P band src bm om x1 y1 b a1 a2 b1 b2 S .full hc).mp rfl with
        hin | ⟨_, _, hk, ends, he, hz⟩
      · left
        intro x hx y hy hpos
        have hm := support_complete E bm x1 y1 S.hy x hx y hy hpos
        exact ⟨le_trans hin.1 ((listMin_spec _ a1 S.h1).2 x hm), le_trans ((listMax_spec _ a2 S.h2).2 x hm) hin.2⟩
      · right
        exact ⟨hk, ends_near_zero E om x1 ends P.allcloseAtol S.x1_ne_nil he hz⟩

/-! ### with force -/

/-- an unknown `force` value is rejected (`SynphotError`) — on a partially overlapping pair; the value is
not looked at otherwise (`admit_table`: 'full' admits, 'none' raises `DisjointError`) -/
theorem invalid_force_rejected (E : Env K) (P : OverlapPar K) (src band : Spec K) (binset : Option (List K))
    (useC : Bool) (str : String) (hs : src.kind = .source) (hb : band.kind = .bandpass)
    (hstr : str.toLower ≠ "none" ∧ str.toLower ≠ "taper" ∧ str.toLower.startsWith "extrap" = false)
    (v : Verdict) (hv : checkOverlap E P band src Option.none = .ok v)
    (hp : v = .partialMost ∨ v = .partialNotMost) :
    mkObs E P src band binset (Force.ofString str) useC = .error .synphotError := by
  rw [(force_invalid_iff str).mpr hstr]
  exact mkObs_refused E P src band binset .invalid useC hs hb _
    (((admit_table E P src band .invalid v hv).2.2 hp).2.1 rfl)

/-- forced TAPER on a partially overlapping pair whose source is a table (unredshifted, positive ascending
wavelengths): the admission succeeds with a warning; the source it returns is unchanged inside the table's
range `[x₀, xₙ]` and zero beyond the end points of the tapered table — the added points `x₀²/x₁`,
`xₙ²/xₙ₋₁` where the end value was non-zero, the table's own end where it already was zero -/
theorem forced_taper_z0 (E : Env K) (P : OverlapPar K) (src band : Spec K) (t : Table K) (x0 x1 : K) (xs : List K)
    (ht : src.tree = .leaf (.table t)) (hz : src.zs.z = 0) (hp : t.pts = x0 :: x1 :: xs)
    (hw : C03.WF t) (hc : C03.Clipped t) (hpos : 0 < x0)
    (v : Verdict) (hv : checkOverlap E P band src Option.none = .ok v)
    (hpart : v = .partialMost ∨ v = .partialNotMost) :
    ∃ s, obsAdmit E P src band .taper = .ok (s, true) ∧
      (∀ x, x0 ≤ x → x ≤ t.pts.getLastD 0 → s.evalAt E x = .ok (t.eval x)) ∧
      (∀ x, x < (if t.vals.headD 0 = 0 then x0 else x0 ^ 2 / x1) → s.evalAt E x = .ok 0) ∧
      (∀ x, (if t.vals.getLastD 0 = 0 then t.pts.getLastD 0 else highEnd t) < x → s.evalAt E x = .ok 0) := by
  have hval : validateWavelengths t.pts = .ok () := by
    rw [hp]; exact validate_of_asc x0 (x1 :: xs) (hp ▸ hw.asc) hpos
  have htap := spec_taper_table E P.mergeThr src t x0 x1 xs ht hz hp hval
  have hadm := (((admit_table E P src band .taper v hv).2.2 hpart).2.2.2 rfl) _ htap
  have hsrc : ∀ x, src.evalAt E x = .ok (t.eval x) := by
    intro x
    simp only [Spec.evalAt, model_z0 src hz, ht, ok_bind'', Tree.eval, Leaf.eval]
  have hlo : lowEnd t = x0 ^ 2 / x1 := by simp only [lowEnd, hp, List.headD_cons, List.tail_cons]
  cases htt : t.taper with
  | none =>
    -- both end values are zero: the source itself
    rw [htt] at hadm
    have hends : t.vals.headD 0 = 0 ∧ t.vals.getLastD 0 = 0 := by
      rw [taper_explicit t x0 x1 xs hp hw hc hpos] at htt
      by_contra hn
      rw [if_neg hn] at htt; cases htt
    refine ⟨src, hadm, fun x _ _ => hsrc x, ?_, ?_⟩
    · intro x hx
      rw [if_pos hends.1] at hx
      rw [hsrc x, eval_outside_zero t (Or.inr hends) x (Or.inl (by rw [hp]; exact hx))]
    · intro x hx
      rw [if_pos hends.2] at hx
      rw [hsrc x, eval_outside_zero t (Or.inr hends) x (Or.inr hx)]
  | some t' =>
    rw [htt] at hadm
    obtain ⟨hin, _, _⟩ := C03.taper_inside_unchanged t x0 x1 xs hp hw hc hpos t' htt
    obtain ⟨hfill, _, hh, hl⟩ := taper_some_props t x0 x1 xs hp hw hc hpos t' htt
    have hs' : ∀ x, (Spec.ofTree src.kind (.leaf (.table t'))).evalAt E x = .ok (t'.eval x) := by
      intro x; rw [ofTree_evalAt]; rfl
    refine ⟨Spec.ofTree src.kind (.leaf (.table t')), hadm, ?_, ?_, ?_⟩
    · intro x h0 hn; rw [hs' x, hin x h0 hn]
    · intro x hx
      rw [← hlo, ← hh] at hx
      rw [hs' x, eval_outside_zero t' (Or.inl hfill) x (Or.inl hx)]
    · intro x hx
      rw [← hl] at hx
      rw [hs' x, eval_outside_zero t' (Or.inl hfill) x (Or.inr hx)]

/-- … and between an added end point and the table's own end the tapered source is the straight line from
zero to the end value (`chord`: the line through two knots) -/
theorem forced_taper_ramps_z0 (E : Env K) (P : OverlapPar K) (src band : Spec K) (t : Table K) (x0 x1 : K)
    (xs : List K) (ht : src.tree = .leaf (.table t)) (hz : src.zs.z = 0) (hp : t.pts = x0 :: x1 :: xs)
    (hw : C03.WF t) (hc : C03.Clipped t) (hpos : 0 < x0)
    (v : Verdict) (hv : checkOverlap E P band src Option.none = .ok v)
    (hpart : v = .partialMost ∨ v = .partialNotMost) :
    ∃ s, obsAdmit E P src band .taper = .ok (s, true) ∧
      (t.vals.headD 0 ≠ 0 → ∀ x, x0 ^ 2 / x1 ≤ x → x ≤ x0 →
        s.evalAt E x = .ok (chord ((x0 ^ 2 / x1, 0), (x0, t.vals.headD 0)) x)) ∧
      (t.vals.getLastD 0 ≠ 0 → ∀ x, t.pts.getLastD 0 ≤ x → x ≤ highEnd t →
        s.evalAt E x = .ok (chord ((t.pts.getLastD 0, t.vals.getLastD 0), (highEnd t, 0)) x)) := by
  have hval : validateWavelengths t.pts = .ok () := by
    rw [hp]; exact validate_of_asc x0 (x1 :: xs) (hp ▸ hw.asc) hpos
  have htap := spec_taper_table E P.mergeThr src t x0 x1 xs ht hz hp hval
  have hadm := (((admit_table E P src band .taper v hv).2.2 hpart).2.2.2 rfl) _ htap
  have hlo : lowEnd t = x0 ^ 2 / x1 := by simp only [lowEnd, hp, List.headD_cons, List.tail_cons]
  cases htt : t.taper with
  | none =>
    rw [htt] at hadm
    have hends : t.vals.headD 0 = 0 ∧ t.vals.getLastD 0 = 0 := by
      rw [taper_explicit t x0 x1 xs hp hw hc hpos] at htt
      by_contra hn
      rw [if_neg hn] at htt; cases htt
    exact ⟨src, hadm, fun h => absurd hends.1 h, fun h => absurd hends.2 h⟩
  | some t' =>
    rw [htt] at hadm
    obtain ⟨hr1, hr2⟩ := taper_ramps t x0 x1 xs hp hw hc hpos t' htt
    have hs' : ∀ x, (Spec.ofTree src.kind (.leaf (.table t'))).evalAt E x = .ok (t'.eval x) := by
      intro x; rw [ofTree_evalAt]; rfl
    refine ⟨Spec.ofTree src.kind (.leaf (.table t')), hadm, ?_, ?_⟩
    · intro h1 x hx1 hx2
      rw [hs' x, ← hlo, hr1 h1 x (by rw [hlo]; exact hx1) hx2]
    · intro h2 x hx1 hx2
      rw [hs' x, hr2 h2 x hx1 hx2]

/-- forced TAPER on a partially overlapping pair whose source is a table, in ANY redshift state with
`1 + z > 0` (otherwise its wavelengths are not valid) and a positive flux factor.  Let `T` be the table as
observed (`obsTable`: points × (1 + z), values × flux factor; `T = t` at z = 0, `obsTable_of_z0`); the source
samples to `T` everywhere.  The admission succeeds with a warning and the source it returns is unchanged inside
`T`'s range, zero beyond the end points of the tapered table (the added points `lowEnd T = (1+z)·x₀²/x₁`,
`highEnd T = (1+z)·xₙ²/xₙ₋₁` where the end value was non-zero, `T`'s own end where it was zero), and the
straight line from zero to the end value in between -/
theorem forced_taper (E : Env K) (P : OverlapPar K) (src band : Spec K) (t : Table K) (x0 x1 : K) (xs : List K)
    (ht : src.tree = .leaf (.table t)) (hp : t.pts = x0 :: x1 :: xs)
    (hw : C03.WF t) (hc : C03.Clipped t) (hpos : 0 < x0) (hz : 0 < restScale src) (hk : 0 < fluxFactor src)
    (v : Verdict) (hv : checkOverlap E P band src Option.none = .ok v)
    (hpart : v = .partialMost ∨ v = .partialNotMost) :
    ∃ s, obsAdmit E P src band .taper = .ok (s, true) ∧
      (∀ x, src.evalAt E x = .ok ((obsTable src t).eval x)) ∧
      (∀ x, (obsTable src t).pts.headD 0 ≤ x → x ≤ (obsTable src t).pts.getLastD 0 →
        s.evalAt E x = src.evalAt E x) ∧
      (∀ x, x < (if (obsTable src t).vals.headD 0 = 0 then (obsTable src t).pts.headD 0
          else lowEnd (obsTable src t)) → s.evalAt E x = .ok 0) ∧
      (∀ x, (if (obsTable src t).vals.getLastD 0 = 0 then (obsTable src t).pts.getLastD 0
          else highEnd (obsTable src t)) < x → s.evalAt E x = .ok 0) ∧
      ((obsTable src t).vals.headD 0 ≠ 0 → ∀ x, lowEnd (obsTable src t) ≤ x → x ≤ (obsTable src t).pts.headD 0 →
        s.evalAt E x = .ok (chord ((lowEnd (obsTable src t), 0),
          ((obsTable src t).pts.headD 0, (obsTable src t).vals.headD 0)) x)) ∧
      ((obsTable src t).vals.getLastD 0 ≠ 0 → ∀ x, (obsTable src t).pts.getLastD 0 ≤ x →
        x ≤ highEnd (obsTable src t) →
        s.evalAt E x = .ok (chord (((obsTable src t).pts.getLastD 0, (obsTable src t).vals.getLastD 0),
          (highEnd (obsTable src t), 0)) x)) := by
  obtain ⟨_, om, _, hom, _⟩ := co_cases E P band src v hv
  have hT : (obsTable src t).pts = x0 * restScale src :: x1 * restScale src :: xs.map (· * restScale src) := by
    rw [obsTable_pts, hp]; rfl
  have hwT := scaleTable_wf t (restScale src) (fluxFactor src) hz hw
  have hcT := scaleTable_clipped t (restScale src) (fluxFactor src) (le_of_lt hk) hc
  have hposT : 0 < x0 * restScale src := mul_pos hpos hz
  have hsrc : ∀ x, src.evalAt E x = .ok ((obsTable src t).eval x) :=
    obsTable_evalAt E src t ht om hom hz (le_of_lt hk)
  have htap := spec_taper_obs E P.mergeThr src t x0 x1 xs ht om hom hp hw hpos hz hk
  have hadm := (((admit_table E P src band .taper v hv).2.2 hpart).2.2.2 rfl) _ htap
  have hhead : (obsTable src t).pts.headD 0 = x0 * restScale src := by rw [hT]; rfl
  cases htt : (obsTable src t).taper with
  | none =>
    rw [htt] at hadm
    have hends : (obsTable src t).vals.headD 0 = 0 ∧ (obsTable src t).vals.getLastD 0 = 0 := by
      rw [taper_explicit _ _ _ _ hT hwT hcT hposT] at htt
      by_contra hn
      rw [if_neg hn] at htt; cases htt
    refine ⟨src, hadm, hsrc, fun x _ _ => rfl, ?_, ?_, fun h => absurd hends.1 h, fun h => absurd hends.2 h⟩
    · intro x hx
      rw [if_pos hends.1] at hx
      rw [hsrc x, eval_outside_zero _ (Or.inr hends) x (Or.inl hx)]
    · intro x hx
      rw [if_pos hends.2] at hx
      rw [hsrc x, eval_outside_zero _ (Or.inr hends) x (Or.inr hx)]
  | some t' =>
    rw [htt] at hadm
    obtain ⟨hin, _, _⟩ := C03.taper_inside_unchanged _ _ _ _ hT hwT hcT hposT t' htt
    obtain ⟨hfill, _, hh, hl⟩ := taper_some_props _ _ _ _ hT hwT hcT hposT t' htt
    obtain ⟨hr1, hr2⟩ := taper_ramps _ _ _ _ hT hwT hcT hposT t' htt
    have hs' : ∀ x, (Spec.ofTree src.kind (.leaf (.table t'))).evalAt E x = .ok (t'.eval x) := by
      intro x; rw [ofTree_evalAt]; rfl
    refine ⟨Spec.ofTree src.kind (.leaf (.table t')), hadm, hsrc, ?_, ?_, ?_, ?_, ?_⟩
    · intro x h0 hn; rw [hs' x, hsrc x, hin x (by rw [← hhead]; exact h0) hn]
    · intro x hx
      rw [hhead, ← hh] at hx
      rw [hs' x, eval_outside_zero t' (Or.inl hfill) x (Or.inl hx)]
    · intro x hx
      rw [← hl] at hx
      rw [hs' x, eval_outside_zero t' (Or.inl hfill) x (Or.inr hx)]
    · intro h1 x hx1 hx2
      rw [hs' x, hhead, hr1 h1 x hx1 (by rw [← hhead]; exact hx2)]
    · intro h2 x hx1 hx2
      rw [hs' x, hr2 h2 x hx1 hx2]

/-- forced EXTRAP on a partially overlapping pair whose source is a table, in ANY redshift state: the
admission succeeds with a warning; the source it returns is the same object with the table's fill rule
switched to "nearest end".  With `u` the rest-frame wavelength of `x` (`x/(1+z)`, `x` itself at z = 0) and `k`
the flux factor (1 unless `conserve_flux`): unchanged where `u` is inside the table's range, held at the
first value where `u` is below it and at the last value where `u` is above it -/
theorem forced_extrap (E : Env K) (P : OverlapPar K) (src band : Spec K) (t : Table K)
    (ht : src.tree = .leaf (.table t)) (hw : C03.WF t) (hc : C03.Clipped t)
    (v : Verdict) (hv : checkOverlap E P band src Option.none = .ok v)
    (hpart : v = .partialMost ∨ v = .partialNotMost) :
    ∃ s, obsAdmit E P src band .extrap = .ok (s, true) ∧
      s = { src with tree := .leaf (.table t.forceExtrap) } ∧
      ∀ x, src.evalAt E x = .ok (t.eval (restWave src x) * fluxFactor src) ∧
        (t.pts.headD 0 ≤ restWave src x → restWave src x ≤ t.pts.getLastD 0 → s.evalAt E x = src.evalAt E x) ∧
        (restWave src x < t.pts.headD 0 → s.evalAt E x = .ok (t.vals.headD 0 * fluxFactor src)) ∧
        (t.pts.getLastD 0 < restWave src x → s.evalAt E x = .ok (t.vals.getLastD 0 * fluxFactor src)) := by
  have hadm := ((admit_table E P src band .extrap v hv).2.2 hpart).2.2.1 rfl
  have hfe : (src.forceExtrap).1 = { src with tree := .leaf (.table t.forceExtrap) } := by
    simp only [Spec.forceExtrap, ht]
  rw [hfe] at hadm
  obtain ⟨_, om, _, hom, _⟩ := co_cases E P band src v hv
  obtain ⟨m', hm'⟩ := model_ok_swap src (.leaf (.table t.forceExtrap)) om hom
  have hsrc : ∀ x, src.evalAt E x = .ok (t.eval (restWave src x) * fluxFactor src) :=
    table_evalAt E src t ht om hom
  have hs : ∀ x, ({ src with tree := .leaf (.table t.forceExtrap) } : Spec K).evalAt E x =
      .ok (t.forceExtrap.eval (restWave src x) * fluxFactor src) := fun x =>
    table_evalAt E _ t.forceExtrap rfl m' hm' x
  refine ⟨_, hadm, rfl, fun x => ⟨hsrc x, ?_, ?_, ?_⟩⟩
  · intro h0 hn; rw [hs x, hsrc x, forceExtrap_inside t _ h0 hn]
  · intro hx
    rw [hs x, extrap_holds_end_value t _ hx (clipped_head t hc)]
  · intro hx
    have hle := head_le_last t.pts hw.asc
    have := C03.eval_above t.forceExtrap _ (not_lt.mpr (le_of_lt (lt_of_le_of_lt hle hx))) hx
      (by simpa [Table.forceExtrap] using clipped_last t hc)
    rw [hs x, this]; simp [Table.forceExtrap]

/-- forced EXTRAP when the source's own model is not a table (analytic or compound): nothing to switch — the
operand is used as it is, evaluated outside its sampling set, and the warning is recorded all the same -/
theorem forced_extrap_not_table (E : Env K) (P : OverlapPar K) (src band : Spec K)
    (hnt : src.tree.rootTable? = Option.none)
    (v : Verdict) (hv : checkOverlap E P band src Option.none = .ok v)
    (hpart : v = .partialMost ∨ v = .partialNotMost) :
    obsAdmit E P src band .extrap = .ok (src, true) := by
  have hadm := ((admit_table E P src band .extrap v hv).2.2 hpart).2.2.1 rfl
  have : (src.forceExtrap).1 = src := by
    unfold Spec.forceExtrap
    cases htr : src.tree with
    | leaf l => cases l <;> first | rfl | (rw [htr] at hnt; simp [Tree.rootTable?] at hnt)
    | bin _ _ _ => rfl
    | scale _ _ => rfl
    | redshift _ _ => rfl
  rw [this] at hadm; exact hadm

/-! ### the constructed observation -/

/-- a constructed observation stores the source as admitted (original / tapered / extrapolating), the
bandpass, and the admission's warning flag; both operands had the right class -/
theorem obs_fields (E : Env K) (P : OverlapPar K) (src band : Spec K) (binset : Option (List K))
    (force : Force) (useC : Bool) (o : Obs K) (h : mkObs E P src band binset force useC = .ok o) :
    src.kind = .source ∧ band.kind = .bandpass ∧ obsAdmit E P src band force = .ok (o.src, o.warned) ∧
      o.band = band := by
  obtain ⟨h1, h2, h3, h4, _⟩ := mkObs_ok h
  exact ⟨h1, h2, h3, h4⟩

/-- at EVERY wavelength, sampling the observation is: sample the admitted source, sample the bandpass,
multiply — including which of the two fails first when one does (`obs_eval` is the successful case) -/
theorem obs_eval_eq (E : Env K) (P : OverlapPar K) (src band : Spec K) (binset : Option (List K))
    (force : Force) (useC : Bool) (o : Obs K) (h : mkObs E P src band binset force useC = .ok o) (x : K) :
    o.model.eval E x = (do let a ← o.src.evalAt E x; let b ← o.band.evalAt E x; pure (a * b)) := by
  obtain ⟨_, _, _, hb, sm, bm, hsm, hbm, hm⟩ := mkObs_ok h
  exact obs_model_eval E o band sm bm hb hsm hbm hm x

/-- the warning is recorded exactly for a partially overlapping pair, and a fully overlapping pair is
stored untouched whatever `force` says -/
theorem warning_iff_partial (E : Env K) (P : OverlapPar K) (src band : Spec K) (binset : Option (List K))
    (force : Force) (useC : Bool) (o : Obs K) (h : mkObs E P src band binset force useC = .ok o)
    (v : Verdict) (hv : checkOverlap E P band src Option.none = .ok v) :
    (o.warned = true ↔ (v = .partialMost ∨ v = .partialNotMost)) ∧ (v = .full → o.src = src) ∧ v ≠ .none := by
  obtain ⟨_, _, ha, _⟩ := obs_fields E P src band binset force useC o h
  have hT := admit_table E P src band force v hv
  have key : ∀ (hp : v = .partialMost ∨ v = .partialNotMost), o.warned = true := by
    intro hp
    obtain ⟨h1, h2, h3, h4⟩ := hT.2.2 hp
    cases force with
    | none => rw [h1 rfl] at ha; cases ha
    | invalid => rw [h2 rfl] at ha; cases ha
    | extrap =>
      rw [h3 rfl] at ha
      simp only [Except.ok.injEq, Prod.mk.injEq] at ha
      exact ha.2.symm
    | taper =>
      cases htp : src.taper E P.mergeThr Option.none with
      | error e =>
        have : obsAdmit E P src band .taper = .error e := by
          rcases hp with rfl | rfl <;> simp [obsAdmit, hv, htp, bind, Except.bind]
        rw [this] at ha; cases ha
      | ok r =>
        rw [h4 rfl r htp] at ha
        simp only [Except.ok.injEq, Prod.mk.injEq] at ha
        exact ha.2.symm
  cases v with
  | none => rw [hT.1 rfl] at ha; cases ha
  | full =>
    rw [hT.2.1 rfl] at ha
    simp only [Except.ok.injEq, Prod.mk.injEq] at ha
    refine ⟨⟨fun hw => ?_, fun hp => ?_⟩, fun _ => ha.1.symm, by simp⟩
    · rw [← ha.2] at hw; cases hw
    · rcases hp with hp | hp <;> cases hp
  | partialMost => exact ⟨⟨fun _ => Or.inl rfl, fun hp => key hp⟩, fun hf => (by cases hf), (by simp)⟩
  | partialNotMost => exact ⟨⟨fun _ => Or.inr rfl, fun hp => key hp⟩, fun hf => (by cases hf), (by simp)⟩

/-- without `force`: the observation samples to source(L) × bandpass(L) with the ORIGINAL source, at every L -/
theorem obs_eval_unforced (E : Env K) (P : OverlapPar K) (src band : Spec K) (binset : Option (List K))
    (useC : Bool) (o : Obs K) (h : mkObs E P src band binset .none useC = .ok o) (x : K) :
    o.model.eval E x = (do let a ← src.evalAt E x; let b ← band.evalAt E x; pure (a * b)) := by
  obtain ⟨_, hs, hb, _⟩ := unforced_observation E P src band binset useC o h
  rw [obs_eval_eq E P src band binset .none useC o h x, hs, hb]

/-- forced TAPER, the observation: warning recorded; at every L where the bandpass samples to `vb`, the
observation is table(L) × vb inside the table's range and 0 beyond the tapered table's end points -/
theorem obs_eval_taper_z0 (E : Env K) (P : OverlapPar K) (src band : Spec K) (binset : Option (List K))
    (useC : Bool) (o : Obs K) (h : mkObs E P src band binset .taper useC = .ok o)
    (t : Table K) (x0 x1 : K) (xs : List K)
    (ht : src.tree = .leaf (.table t)) (hz : src.zs.z = 0) (hp : t.pts = x0 :: x1 :: xs)
    (hw : C03.WF t) (hc : C03.Clipped t) (hpos : 0 < x0)
    (v : Verdict) (hv : checkOverlap E P band src Option.none = .ok v)
    (hpart : v = .partialMost ∨ v = .partialNotMost) :
    o.warned = true ∧ ∀ x vb, band.evalAt E x = .ok vb →
      ((x0 ≤ x → x ≤ t.pts.getLastD 0 → o.model.eval E x = .ok (t.eval x * vb)) ∧
       (x < (if t.vals.headD 0 = 0 then x0 else x0 ^ 2 / x1) → o.model.eval E x = .ok 0) ∧
       ((if t.vals.getLastD 0 = 0 then t.pts.getLastD 0 else highEnd t) < x → o.model.eval E x = .ok 0)) := by
  obtain ⟨_, _, ha, hb⟩ := obs_fields E P src band binset .taper useC o h
  obtain ⟨s, hs, hin, hlo, hhi⟩ := forced_taper_z0 E P src band t x0 x1 xs ht hz hp hw hc hpos v hv hpart
  rw [hs] at ha
  simp only [Except.ok.injEq, Prod.mk.injEq] at ha
  refine ⟨ha.2.symm, ?_⟩
  intro x vb hvb
  have he := obs_eval_eq E P src band binset .taper useC o h x
  rw [← ha.1, hb, hvb] at he
  refine ⟨fun h0 hn => ?_, fun hx => ?_, fun hx => ?_⟩
  · rw [he, hin x h0 hn]; rfl
  · rw [he, hlo x hx]; show Except.ok (0 * vb) = _; rw [zero_mul]
  · rw [he, hhi x hx]; show Except.ok (0 * vb) = _; rw [zero_mul]

/-- forced TAPER, the observation, for a tabulated source in any redshift state (`T` the table as observed):
warning recorded; at every L where the bandpass samples to `vb`, the observation is T(L) × vb inside `T`'s
range and 0 beyond the tapered table's end points -/
theorem obs_eval_taper (E : Env K) (P : OverlapPar K) (src band : Spec K) (binset : Option (List K))
    (useC : Bool) (o : Obs K) (h : mkObs E P src band binset .taper useC = .ok o)
    (t : Table K) (x0 x1 : K) (xs : List K)
    (ht : src.tree = .leaf (.table t)) (hp : t.pts = x0 :: x1 :: xs)
    (hw : C03.WF t) (hc : C03.Clipped t) (hpos : 0 < x0) (hz : 0 < restScale src) (hk : 0 < fluxFactor src)
    (v : Verdict) (hv : checkOverlap E P band src Option.none = .ok v)
    (hpart : v = .partialMost ∨ v = .partialNotMost) :
    o.warned = true ∧ ∀ x vb, band.evalAt E x = .ok vb →
      (((obsTable src t).pts.headD 0 ≤ x → x ≤ (obsTable src t).pts.getLastD 0 →
          o.model.eval E x = .ok ((obsTable src t).eval x * vb)) ∧
       (x < (if (obsTable src t).vals.headD 0 = 0 then (obsTable src t).pts.headD 0
          else lowEnd (obsTable src t)) → o.model.eval E x = .ok 0) ∧
       ((if (obsTable src t).vals.getLastD 0 = 0 then (obsTable src t).pts.getLastD 0
          else highEnd (obsTable src t)) < x → o.model.eval E x = .ok 0)) := by
  obtain ⟨_, _, ha, hb⟩ := obs_fields E P src band binset .taper useC o h
  obtain ⟨s, hs, hsrc, hin, hlo, hhi, _⟩ := forced_taper E P src band t x0 x1 xs ht hp hw hc hpos hz hk v hv hpart
  rw [hs] at ha
  simp only [Except.ok.injEq, Prod.mk.injEq] at ha
  refine ⟨ha.2.symm, ?_⟩
  intro x vb hvb
  have he := obs_eval_eq E P src band binset .taper useC o h x
  rw [← ha.1, hb, hvb] at he
  refine ⟨fun h0 hn => ?_, fun hx => ?_, fun hx => ?_⟩
  · rw [he, hin x h0 hn, hsrc x]; rfl
  · rw [he, hlo x hx]; show Except.ok (0 * vb) = _; rw [zero_mul]
  · rw [he, hhi x hx]; show Except.ok (0 * vb) = _; rw [zero_mul]

/-- forced EXTRAP, the observation (any redshift state of the source): warning recorded; at every L where the
bandpass samples to `vb`, with `u` the rest-frame wavelength of L and `k` the flux factor, the observation is
table(u)·k × vb where `u` is inside the table's range, (first value)·k × vb below it, (last value)·k × vb above -/
theorem obs_eval_extrap (E : Env K) (P : OverlapPar K) (src band : Spec K) (binset : Option (List K))
    (useC : Bool) (o : Obs K) (h : mkObs E P src band binset .extrap useC = .ok o)
    (t : Table K) (ht : src.tree = .leaf (.table t)) (hw : C03.WF t) (hc : C03.Clipped t)
    (v : Verdict) (hv : checkOverlap E P band src Option.none = .ok v)
    (hpart : v = .partialMost ∨ v = .partialNotMost) :
    o.warned = true ∧ ∀ x vb, band.evalAt E x = .ok vb →
      ((t.pts.headD 0 ≤ restWave src x → restWave src x ≤ t.pts.getLastD 0 →
          o.model.eval E x = .ok (t.eval (restWave src x) * fluxFactor src * vb)) ∧
       (restWave src x < t.pts.headD 0 → o.model.eval E x = .ok (t.vals.headD 0 * fluxFactor src * vb)) ∧
       (t.pts.getLastD 0 < restWave src x → o.model.eval E x = .ok (t.vals.getLastD 0 * fluxFactor src * vb))) := by
  obtain ⟨_, _, ha, hb⟩ := obs_fields E P src band binset .extrap useC o h
  obtain ⟨s, hs, _, hx⟩ := forced_extrap E P src band t ht hw hc v hv hpart
  rw [hs] at ha
  simp only [Except.ok.injEq, Prod.mk.injEq] at ha
  refine ⟨ha.2.symm, ?_⟩
  intro x vb hvb
  obtain ⟨hsrc, hin, hlo, hhi⟩ := hx x
  have he := obs_eval_eq E P src band binset .extrap useC o h x
  rw [← ha.1, hb, hvb] at he
  refine ⟨fun h0 hn => ?_, fun hx => ?_, fun hx => ?_⟩
  · rw [he, hin h0 hn, hsrc]; rfl
  · rw [he, hlo hx]; rfl
  · rw [he, hhi hx]; rfl

/-! ### non-vacuity: concrete rational tables (`Lemmas/C06x.lean`, namespace `W`)

Bandpass tabulated at 2, 4, 6, 8 Å with throughput 1; sources tabulated on [3, 5] with non-zero ends (`W.src`,
partial), on [3, 5] with zero ends (`W.srcZ`, the shortcut), on [1, 9] (`W.srcW`, contained), on [10, 11]
(`W.srcF`, disjoint), and a flat analytic source (`W.srcFlat`, no sampling set). -/

section NonVacuity
open W

/-- thresholds 1% and 10% around an excluded fraction of 2% -/
example : gradeVerdict .part false (1 : ℚ) 50 (1 / 100) = .partialNotMost ∧
    gradeVerdict .part false (1 : ℚ) 50 (1 / 10) = .partialMost := by decide +kernel
example := grade_threshold_mono .part false (1 : ℚ) 50 (1 / 100) (1 / 10) (by norm_num)
example := grade_threshold_irrelevant .part true (1 : ℚ) 50 (1 / 100) (1 / 10)
/-- exactly 1% excluded -/
example : gradeVerdict .part false (1 : ℚ) 100 (1 / 100) = .partialNotMost :=
  grade_boundary 1 100 (1 / 100) (by norm_num)

example : Force.ofString "Bogus" = .invalid ∧ Force.ofString "ExTrApOlAtE" = .extrap ∧
    Force.ofString "Taper" = .taper := by decide +kernel
example : Force.ofString "tapered" = .invalid :=
  (force_invalid_iff "tapered").mpr (by decide +kernel)
example : Force.ofString "TAPER" = Force.ofString "taper" := force_case_insensitive _ _ (by decide +kernel)
example := (force_values "EXTRAP").2.2.1

/-- the flat source has no sampling set: 'full' -/
example : checkOverlap E0 P0 band srcFlat Option.none = .ok .full :=
  (classifier_unbounded E0 P0 band srcFlat _ _ band_model (ofTree_model _ _)).1 (by decide +kernel)

/-- the partially overlapping pair: status of ([2, 8], [3, 5]) is 'partial'; no shortcut; graded -/
example := classifier_sampled E0 P0 band src _ _ _ _ _ 2 8 3 5 (W.sampled srcT rfl) _ verdict_src
example : ¬ ((8 : ℚ) < 3 ∨ (5 : ℚ) < 2) := by norm_num
example := (classifier_none_iff E0 P0 band src _ _ _ _ _ 2 8 3 5 (W.sampled srcT rfl) _ verdict_src)
example := classifier_partial_grade E0 P0 band src _ _ _ _ _ 2 8 3 5 (W.sampled srcT rfl) _ verdict_src
  (by decide) (by decide)
/-- the zero-ended source on the same range: 'full' through the shortcut only -/
example : shortcutKind (Tree.leaf (Leaf.table zeroT)) = true ∧ ¬ ((3 : ℚ) ≤ 2 ∧ (8 : ℚ) ≤ 5) :=
  ⟨by decide +kernel, by norm_num⟩
example := (classifier_full_iff E0 P0 band srcZ _ _ _ _ _ 2 8 3 5 (W.sampled zeroT rfl) _ verdict_srcZ).mp rfl

/-- without force: refused with `PartialOverlap` / `DisjointError`, admitted untouched for the other three -/
example : obsAdmit E0 P0 src band .none = .error .partialOverlap := by
  rw [unforced_outcome, verdict_src]
example : obsAdmit E0 P0 srcF band .none = .error .disjointError := by
  rw [unforced_outcome, verdict_srcF]
example : obsAdmit E0 P0 srcW band .none = .ok (srcW, false) := by
  rw [unforced_outcome, verdict_srcW]
example : mkObs E0 P0 src band (some [4, 6]) .none true = .error .partialOverlap :=
  (unforced_refusals E0 P0 src band _ true rfl rfl _ verdict_src).1 (Or.inr rfl)
example : mkObs E0 P0 srcF band Option.none .none false = .error .disjointError :=
  (unforced_refusals E0 P0 srcF band _ false rfl rfl _ verdict_srcF).2 rfl
example : ∃ o, mkObs E0 P0 srcZ band (some [4, 6]) .none true = .ok o ∧ o.src = srcZ ∧ o.warned = false := by
  obtain ⟨o, h⟩ := obs_unforced
  obtain ⟨_, h1, _, h2⟩ := unforced_observation E0 P0 srcZ band _ true o h
  exact ⟨o, h, h1, h2⟩
example := unforced_admitted_range E0 P0 srcW band srcW false (by rw [unforced_outcome, verdict_srcW])
example := unforced_admitted_range E0 P0 srcZ band srcZ false admit_srcZ

/-- an unknown force value on the partially overlapping pair -/
example : mkObs E0 P0 src band (some [4, 6]) (Force.ofString "Bogus") true = .error .synphotError :=
  invalid_force_rejected E0 P0 src band _ true "Bogus" rfl rfl (by decide +kernel) _ verdict_src (Or.inr rfl)

/-- forced taper of the table on [3, 5] with end values 2, 2: zero below 9/4 and above 25/4 -/
example := forced_taper_z0 E0 P0 src band srcT 3 4 [5] rfl rfl rfl wf_srcT clipped_srcT (by norm_num) _ verdict_src
  (Or.inr rfl)
example : (3 : ℚ) ^ 2 / 4 = 9 / 4 ∧ highEnd srcT = 25 / 4 ∧ srcT.vals.headD 0 ≠ 0 ∧ srcT.vals.getLastD 0 ≠ 0 := by
  decide +kernel
example := forced_taper_ramps_z0 E0 P0 src band srcT 3 4 [5] rfl rfl rfl wf_srcT clipped_srcT (by norm_num) _
  verdict_src (Or.inr rfl)
/-- the same table at redshift 1 with `conserve_flux` (observed on [6, 10] at half the flux): tapered to zero
beyond 9/2 and 25/2 -/
example := forced_taper E0 P0 srcR band srcT 3 4 [5] rfl rfl wf_srcT clipped_srcT (by norm_num)
  (by decide +kernel) (by decide +kernel) _ verdict_srcR (Or.inr rfl)
example : (obsTable srcR srcT).pts = [6, 8, 10] ∧ (obsTable srcR srcT).vals = [1, 3 / 2, 1] ∧
    lowEnd (obsTable srcR srcT) = 9 / 2 ∧ highEnd (obsTable srcR srcT) = 25 / 2 := by decide +kernel
example : obsTable src srcT = srcT := obsTable_of_z0 src srcT rfl
/-- forced extrapolation of the same table: held at 2 below 3 and above 5 -/
example := forced_extrap E0 P0 src band srcT rfl wf_srcT clipped_srcT _ verdict_src (Or.inr rfl)
/-- … and of the same table at redshift 1 with `conserve_flux`: rest-frame wavelength L/2, flux factor 1/2 -/
example := forced_extrap E0 P0 srcR band srcT rfl wf_srcT clipped_srcT _ verdict_srcR (Or.inr rfl)
example : restWave srcR 4 = 2 ∧ fluxFactor srcR = 1 / 2 ∧ restWave srcR 4 < srcT.pts.headD 0 := by decide +kernel

/-- the three constructed observations -/
example : ∃ o, mkObs E0 P0 src band (some [4, 6]) .taper true = .ok o ∧ o.warned = true ∧
    o.model.eval E0 4 = .ok (3 * 1) ∧ o.model.eval E0 2 = .ok 0 ∧ o.model.eval E0 8 = .ok 0 := by
  obtain ⟨o, h⟩ := obs_taper
  obtain ⟨hw, he⟩ := obs_eval_taper_z0 E0 P0 src band _ true o h srcT 3 4 [5] rfl rfl rfl wf_srcT clipped_srcT
    (by norm_num) _ verdict_src (Or.inr rfl)
  have hb : ∀ x, band.evalAt E0 x = .ok (bandT.eval x) := fun x => rfl
  refine ⟨o, h, hw, ?_, ?_, ?_⟩
  · have := (he 4 _ (hb 4)).1 (by norm_num) (by decide +kernel)
    rw [this]; exact congrArg _ (by decide +kernel)
  · exact (he 2 _ (hb 2)).2.1 (by decide +kernel)
  · exact (he 8 _ (hb 8)).2.2 (by decide +kernel)

example : ∃ o, mkObs E0 P0 src band (some [4, 6]) .taper true = .ok o ∧ o.warned = true ∧
    o.model.eval E0 2 = .ok 0 := by
  obtain ⟨o, h⟩ := obs_taper
  obtain ⟨hw, he⟩ := obs_eval_taper E0 P0 src band _ true o h srcT 3 4 [5] rfl rfl wf_srcT clipped_srcT
    (by norm_num) (by decide +kernel) (by decide +kernel) _ verdict_src (Or.inr rfl)
  have hb : ∀ x, band.evalAt E0 x = .ok (bandT.eval x) := fun x => rfl
  exact ⟨o, h, hw, (he 2 _ (hb 2)).2.1 (by decide +kernel)⟩

example : ∃ o, mkObs E0 P0 src band (some [4, 6]) .extrap true = .ok o ∧ o.warned = true ∧
    o.model.eval E0 2 = .ok (2 * 1) ∧ o.model.eval E0 8 = .ok (2 * 1) := by
  obtain ⟨o, h⟩ := obs_extrap
  obtain ⟨hw, he⟩ := obs_eval_extrap E0 P0 src band _ true o h srcT rfl wf_srcT clipped_srcT _ verdict_src
    (Or.inr rfl)
  have hb : ∀ x, band.evalAt E0 x = .ok (bandT.eval x) := fun x => rfl
  refine ⟨o, h, hw, ?_, ?_⟩
  · have := (he 2 _ (hb 2)).2.1 (by decide +kernel)
    rw [this]; exact congrArg _ (by decide +kernel)
  · have := (he 8 _ (hb 8)).2.2 (by decide +kernel)
    rw [this]; exact congrArg _ (by decide +kernel)

example : ∃ o, mkObs E0 P0 srcZ band (some [4, 6]) .none true = .ok o ∧
    ∀ x, o.model.eval E0 x = (do let a ← srcZ.evalAt E0 x; let b ← band.evalAt E0 x; pure (a * b)) := by
  obtain ⟨o, h⟩ := obs_unforced
  exact ⟨o, h, obs_eval_unforced E0 P0 srcZ band _ true o h⟩

example : ∃ o, mkObs E0 P0 src band (some [4, 6]) .taper true = .ok o ∧ o.band = band ∧
    ∀ x, o.model.eval E0 x = (do let a ← o.src.evalAt E0 x; let b ← o.band.evalAt E0 x; pure (a * b)) := by
  obtain ⟨o, h⟩ := obs_taper
  exact ⟨o, h, (obs_fields E0 P0 src band _ .taper true o h).2.2.2, obs_eval_eq E0 P0 src band _ .taper true o h⟩

example : ∃ o, mkObs E0 P0 src band (some [4, 6]) .extrap true = .ok o ∧ o.warned = true := by
  obtain ⟨o, h⟩ := obs_extrap
  exact ⟨o, h, (warning_iff_partial E0 P0 src band _ .extrap true o h _ verdict_src).1.mpr (Or.inr rfl)⟩

example : forced_extrap_not_table E0 P0 srcFlat band rfl = forced_extrap_not_table E0 P0 srcFlat band rfl := rfl

end NonVacuity

end Synphot.C06
