import Mathlib.Tactic.Ring
import Mathlib.Tactic.FieldSimp
import Mathlib.Tactic.Linarith
import Synphot.Core.Binning

set_option linter.unusedSectionVars false
set_option linter.unusedSimpArgs false

namespace Synphot
variable {K : Type} [Field K] [LinearOrder K] [IsStrictOrderedRing K]

theorem centersLoop_mids (a x : K) (t : List K) :
    centersLoop a (mids (a :: t) ++ [x]) = t := by
  induction t generalizing a with
  | nil => simp [mids, centersLoop]
  | cons b t ih =>
    have hne : mids (b :: t) ++ [x] ≠ [] := by simp
    obtain ⟨y, ys, hy⟩ := List.exists_cons_of_ne_nil hne
    simp only [mids, List.cons_append]
    rw [hy]
    simp only [centersLoop]
    have : 2 * ((b + a) * (1 / 2)) - a = b := by ring
    rw [this, ← hy, ih]

theorem binCenters_binEdges (c e : List K) (h : binEdges c = .ok e) : binCenters e = .ok c := by
  rcases c with _ | ⟨a, _ | ⟨b, t⟩⟩
  · simp [binEdges, mids] at h
  · simp [binEdges, mids] at h
  · simp only [binEdges, mids] at h
    injection h with h
    subst h
    simp only [binCenters, List.cons_append]
    have h0 : (2 * a - (b + a) * (1 / 2) + (b + a) * (1 / 2)) / 2 = a := by
      field_simp; ring
    rw [h0]
    have := centersLoop_mids a (2 * (a :: b :: t).getLastD a - ((b + a) * (1 / 2) :: mids (b :: t)).getLastD ((b + a) * (1 / 2))) (b :: t)
    simp only [mids, List.cons_append] at this
    rw [this]

end Synphot
