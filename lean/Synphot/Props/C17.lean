/-
  C17 — Extinction curves are 10^(-0.4 R E) and compose additively in E(B-V); the Madau curve.

  Statements are about `extinctionCurve` (`ReddeningLaw.extinction_curve`), `applyCurve`
  (`source * curve`) and `etauMadau` (`etau_madau`) of `Core/Reddening.lean`, for every ordered
  field `K` (hence ℝ) and every lawful family of transcendental functions
  (`Lemmas/TranscReal.lean`: the real ones are lawful).
-/
import Synphot.Lemmas.Reddening
import Synphot.Lemmas.TranscReal

set_option linter.unusedSectionVars false
set_option linter.unusedVariables false
set_option linter.unusedSimpArgs false

namespace Synphot.C17
open Synphot
variable {K : Type} [Field K] [LinearOrder K] [IsStrictOrderedRing K]
variable {T : Transc K} {law : Table K}

/-! ## the extinction curve -/

/-- the grid an `extinction_curve` call samples on -/
def gridOf (law : Table K) : WaveSel K → List K
  | .none => law.pts
  | .scalar w => [w]
  | .arr x => x

theorem mkCurve_ok {x y : List K} {c : Table K} (h : mkCurve x y = .ok c) :
    c = (mkTable x y false).1 ∧ 2 ≤ x.length := by
  unfold mkCurve at h
  match x, h with
  | a :: b :: l, h =>
    simp only at h
    injection h with h
    exact ⟨h.symm, by simp⟩

theorem mkCurve_of_len {x : List K} (y : List K) (h2 : 2 ≤ x.length) :
    mkCurve x y = .ok (mkTable x y false).1 := by
  match x, h2 with
  | a :: b :: l, _ => rfl

/-- a call that returns a curve went through every check: E(B−V) is a real number or a `mag`
Quantity, the grid is a valid wavelength array of at least two points, and the curve is the
`Empirical1D` table of the samples `10^(-0.4 R(λ) E)` on that grid. -/
theorem ext_inv {ebv : EbvArg K} {wave : WaveSel K} {c : Table K}
    (h : extinctionCurve T law ebv wave = .ok c) :
    ∃ e, ebvValue ebv = .ok e ∧ (∀ w, wave ≠ .scalar w) ∧
      validateWavelengths (gridOf law wave) = .ok () ∧ 2 ≤ (gridOf law wave).length ∧
      c = (mkTable (gridOf law wave) ((gridOf law wave).map (extValue T law e)) false).1 := by
  unfold extinctionCurve at h
  cases he : ebvValue ebv with
  | error err => rw [he] at h; cases h
  | ok e =>
    rw [he] at h
    refine ⟨e, rfl, ?_⟩
    cases wave with
    | none =>
      simp only [bind, Except.bind] at h
      cases hv : validateWavelengths law.pts with
      | error err => rw [hv] at h; cases h
      | ok u =>
        rw [hv] at h
        obtain ⟨hc, h2⟩ := mkCurve_ok h
        exact ⟨(by intro w hw; cases hw), (by cases u; exact hv), h2, hc⟩
    | scalar w =>
      simp only [bind, Except.bind] at h
      cases hv : validateWavelengths [w] with
      | error err => rw [hv] at h; cases h
      | ok u => rw [hv] at h; cases h
    | arr x =>
      simp only [bind, Except.bind] at h
      cases hv : validateWavelengths x with
      | error err => rw [hv] at h; cases h
      | ok u =>
        rw [hv] at h
        obtain ⟨hc, h2⟩ := mkCurve_ok h
        exact ⟨(by intro w hw; cases hw), (by cases u; exact hv), h2, hc⟩

/-- conversely every valid request returns that curve -/
theorem ext_ok (ebv : EbvArg K) (e : K) (he : ebvValue ebv = .ok e) (x : List K)
    (hv : validateWavelengths x = .ok ()) (h2 : 2 ≤ x.length) :
    extinctionCurve T law ebv (.arr x) = .ok (mkTable x (x.map (extValue T law e)) false).1 := by
  unfold extinctionCurve
  rw [he]
  simp only [bind, Except.bind, hv]
  exact mkCurve_of_len _ h2

/-- **ext_def.** The curve generated for colour excess `E` equals `10^(-0.4 R(λ) E)` at every sampled
wavelength; its table holds exactly these samples on the (ascending) grid. -/
theorem ext_def (hT : T.Lawful) {ebv : EbvArg K} {wave : WaveSel K} {c : Table K}
    (h : extinctionCurve T law ebv wave = .ok c) :
    ∃ e, ebvValue ebv = .ok e ∧
      c.pts = ascOrder (gridOf law wave) ∧
      c.vals = c.pts.map (fun w => T.pow10 (-(2/5) * law.eval w * e)) ∧
      ∀ w ∈ gridOf law wave, c.eval w = T.pow10 (-(2/5) * law.eval w * e) := by
  obtain ⟨e, he, _, hv, _, hc⟩ := ext_inv h
  have hpos : ∀ w ∈ gridOf law wave, 0 ≤ extValue T law e w := fun w _ => le_of_lt (hT.pow10_pos _)
  obtain ⟨hp, hvals, _⟩ := mkTable_map (extValue T law e) (gridOf law wave) hpos
  refine ⟨e, he, ?_, ?_, ?_⟩
  · rw [hc]; exact hp
  · rw [hc, hvals, hp]; rfl
  · intro w hw
    rw [hc]
    exact mkTable_map_eval _ _ ((validate_ok_iff _).mp hv).2 hpos w hw

/-- the value at one wavelength, by definition -/
theorem extValue_def (e w : K) : extValue T law e w = T.pow10 (-(2/5) * law.eval w * e) := rfl

/-- a `mag` Quantity and the bare number give the same curve -/
theorem ext_mag_quantity_same (v : K) (wave : WaveSel K) :
    extinctionCurve T law (.magQuantity v) wave = extinctionCurve T law (.real v) wave := rfl

/-- **ext_zero.** `E = 0` gives the unit curve. -/
theorem extValue_zero (hT : T.Lawful) (w : K) : extValue T law 0 w = 1 := by
  unfold extValue; rw [mul_zero]; exact hT.pow10_zero

theorem ext_zero (hT : T.Lawful) {ebv : EbvArg K} {wave : WaveSel K} {c : Table K}
    (h : extinctionCurve T law ebv wave = .ok c) (h0 : ebvValue ebv = .ok 0) :
    ∀ w ∈ gridOf law wave, c.eval w = 1 := by
  obtain ⟨e, he, _, _, hev⟩ := ext_def hT h
  rw [h0] at he; injection he with he; subst he
  intro w hw
  rw [hev w hw, mul_zero]; exact hT.pow10_zero

/-- **ext_add.** The product of the curves for `a` and `b` is the curve for `a + b`. -/
theorem extValue_add (hT : T.Lawful) (a b w : K) :
    extValue T law a w * extValue T law b w = extValue T law (a + b) w := by
  unfold extValue
  rw [← hT.pow10_add]; congr 1; ring

theorem ext_add (hT : T.Lawful) {ea eb eab : EbvArg K} {wave : WaveSel K} {ca cb cab : Table K} {a b : K}
    (ha : ebvValue ea = .ok a) (hb : ebvValue eb = .ok b) (hab : ebvValue eab = .ok (a + b))
    (h1 : extinctionCurve T law ea wave = .ok ca) (h2 : extinctionCurve T law eb wave = .ok cb)
    (h3 : extinctionCurve T law eab wave = .ok cab) :
    ∀ w ∈ gridOf law wave, ca.eval w * cb.eval w = cab.eval w := by
  obtain ⟨a', ha', _, _, hva⟩ := ext_def hT h1
  obtain ⟨b', hb', _, _, hvb⟩ := ext_def hT h2
  obtain ⟨s', hs', _, _, hvs⟩ := ext_def hT h3
  rw [ha] at ha'; injection ha' with ha'; subst ha'
  rw [hb] at hb'; injection hb' with hb'; subst hb'
  rw [hab] at hs'; injection hs' with hs'; subst hs'
  intro w hw
  rw [hva w hw, hvb w hw, hvs w hw]
  exact extValue_add hT a b w

/-- **ext_neg_undoes.** The curve for `−E` exactly undoes the curve for `E`. -/
theorem extValue_neg (hT : T.Lawful) (e w : K) :
    extValue T law e w * extValue T law (-e) w = 1 := by
  rw [extValue_add hT, add_neg_cancel]; exact extValue_zero hT w

theorem ext_neg_undoes (hT : T.Lawful) {ep en : EbvArg K} {wave : WaveSel K} {cp cn : Table K} {e : K}
    (hp : ebvValue ep = .ok e) (hn : ebvValue en = .ok (-e))
    (h1 : extinctionCurve T law ep wave = .ok cp) (h2 : extinctionCurve T law en wave = .ok cn) :
    ∀ w ∈ gridOf law wave, cp.eval w * cn.eval w = 1 := by
  obtain ⟨a', ha', _, _, hva⟩ := ext_def hT h1
  obtain ⟨b', hb', _, _, hvb⟩ := ext_def hT h2
  rw [hp] at ha'; injection ha' with ha'; subst ha'
  rw [hn] at hb'; injection hb' with hb'; subst hb'
  intro w hw
  rw [hva w hw, hvb w hw]
  exact extValue_neg hT e w

/-- the curve is strictly positive at every sampled wavelength -/
theorem ext_pos (hT : T.Lawful) {ebv : EbvArg K} {wave : WaveSel K} {c : Table K}
    (h : extinctionCurve T law ebv wave = .ok c) : ∀ w ∈ gridOf law wave, 0 < c.eval w := by
  obtain ⟨e, _, _, _, hev⟩ := ext_def hT h
  intro w hw; rw [hev w hw]; exact hT.pow10_pos _

/-! ### rejections -/

/-- an E(B−V) that is neither a real number nor a `mag` Quantity raises `SynphotError`, whatever
the wavelengths -/
theorem ext_rejects_ebv (wave : WaveSel K) :
    extinctionCurve T law .otherQuantity wave = .error .synphotError ∧
    extinctionCurve T law .notReal wave = .error .synphotError := ⟨rfl, rfl⟩

/-- an invalid wavelength array is rejected with the class `validate_wavelengths` raises -/
theorem ext_rejects_grid (ebv : EbvArg K) (e : K) (he : ebvValue ebv = .ok e) (x : List K) (err : Err)
    (hv : validateWavelengths x = .error err) :
    extinctionCurve T law ebv (.arr x) = .error err := by
  unfold extinctionCurve
  rw [he]
  simp only [bind, Except.bind, hv]

/-- the only errors: `SynphotError` (E), the three wavelength classes, and the `IndexError` /
`ValueError` of `Empirical1D.__init__` on grids of fewer than two points -/
theorem ext_error_classes {ebv : EbvArg K} {wave : WaveSel K} {err : Err}
    (h : extinctionCurve T law ebv wave = .error err) :
    err = .synphotError ∨ err = .zeroWavelength ∨ err = .unsortedWavelength ∨
      err = .duplicateWavelength ∨ err = .indexError ∨ err = .valueError := by
  have hval : ∀ (x : List K) (e' : Err), validateWavelengths x = .error e' →
      e' = .zeroWavelength ∨ e' = .unsortedWavelength ∨ e' = .duplicateWavelength := by
    intro x e' hx
    unfold validateWavelengths at hx
    split_ifs at hx <;> (injection hx with hx; subst hx; simp)
  have hmk : ∀ (x y : List K) (e' : Err), mkCurve x y = .error e' → e' = .indexError ∨ e' = .valueError := by
    intro x y e' hx
    unfold mkCurve at hx
    match x, hx with
    | [], hx => injection hx with hx; exact Or.inl hx.symm
    | [_], hx => injection hx with hx; exact Or.inr hx.symm
  unfold extinctionCurve at h
  cases he : ebvValue ebv with
  | error e' =>
    rw [he] at h
    simp only [bind, Except.bind] at h
    injection h with h; subst h
    cases ebv <;> simp [ebvValue] at he <;> simp [he]
  | ok e =>
    rw [he] at h
    cases wave with
    | none =>
      simp only [bind, Except.bind] at h
      cases hv : validateWavelengths law.pts with
      | error e' =>
        rw [hv] at h; injection h with h; subst h
        rcases hval _ _ hv with h | h | h <;> simp [h]
      | ok u =>
        rw [hv] at h
        rcases hmk _ _ _ h with h | h <;> simp [h]
    | scalar w =>
      simp only [bind, Except.bind] at h
      cases hv : validateWavelengths [w] with
      | error e' =>
        rw [hv] at h; injection h with h; subst h
        rcases hval _ _ hv with h | h | h <;> simp [h]
      | ok u =>
        rw [hv] at h; injection h with h; subst h; simp
    | arr x =>
      simp only [bind, Except.bind] at h
      cases hv : validateWavelengths x with
      | error e' =>
        rw [hv] at h; injection h with h; subst h
        rcases hval _ _ hv with h | h | h <;> simp [h]
      | ok u =>
        rw [hv] at h
        rcases hmk _ _ _ h with h | h <;> simp [h]

/-! ## applying a curve to a source -/

/-- **apply_pointwise.** `source * curve` multiplies pointwise, at every wavelength. -/
theorem apply_pointwise (thr : K) (src : Sampled K) (c : Table K) (w : K) :
    (applyCurve thr src c).eval w = src.eval w * c.eval w := rfl

/-- **apply_keeps_waveset.** The sampling set of the product is the sampling set of the source
(`ExtinctionModel1D` contributes none), including "undefined stays undefined". -/
theorem apply_keeps_waveset (thr : K) (src : Sampled K) (c : Table K) :
    (applyCurve thr src c).sampleset = src.sampleset := by
  unfold applyCurve extinctionSampleset
  cases src.sampleset <;> rfl

/-- also for a redshifted source: the curve multiplies the *redshifted* source pointwise (it is evaluated
at the observed wavelength, not at `w / (1+z)`), and the product's sampling set is the source's
redshifted one, i.e. the rest set times `1 + z` -/
theorem apply_redshifted (thr : K) (s src : Sampled K) (z : K) (conserve : Bool) (c : Table K)
    (hz : z ≠ 0) (h : s.redshift z conserve = .ok src) :
    (∀ w, (applyCurve thr src c).eval w =
      (if conserve then s.eval (w / (1 + z)) * (1 / (1 + z)) else s.eval (w / (1 + z))) * c.eval w) ∧
    (applyCurve thr src c).sampleset = s.sampleset.map (fun l => l.map (fun x => (1 + z) * x)) := by
  unfold Sampled.redshift at h
  rw [if_neg hz] at h
  by_cases h1 : 1 + z = 0
  · rw [if_pos h1] at h; cases h
  · rw [if_neg h1] at h
    injection h with h
    subst h
    exact ⟨fun w => rfl, apply_keeps_waveset thr _ c⟩

/-- reddening by `E` followed by de-reddening by `−E` returns the source at every sampled wavelength -/
theorem apply_neg_undoes (hT : T.Lawful) (thr : K) (src : Sampled K)
    {ep en : EbvArg K} {wave : WaveSel K} {cp cn : Table K} {e : K}
    (hp : ebvValue ep = .ok e) (hn : ebvValue en = .ok (-e))
    (h1 : extinctionCurve T law ep wave = .ok cp) (h2 : extinctionCurve T law en wave = .ok cn) :
    ∀ w ∈ gridOf law wave, (applyCurve thr (applyCurve thr src cp) cn).eval w = src.eval w := by
  intro w hw
  simp only [apply_pointwise]
  rw [mul_assoc, ext_neg_undoes hT hp hn h1 h2 w hw, mul_one]

/-! ## the Madau curve -/

/-- invalid redshifts and too-short wavelength arrays are rejected with `SynphotError` -/
theorem madau_rejects_z (wave : MadauWave K) : etauMadau T wave .notReal = .error .synphotError := rfl

theorem madau_rejects_scalar (z : K) : etauMadau T .scalar (.real z) = .error .synphotError := rfl

theorem madau_rejects_short (z : K) (w : List K) (h : w.length ≤ 1) :
    etauMadau T (.arr w) (.real z) = .error .synphotError := by
  simp [etauMadau, h]

/-- a valid request returns the table of `madauThru` on the given wavelengths -/
theorem madau_ok (z : K) (w : List K) (h2 : 2 ≤ w.length) (hz : 0 < 1 + z) (hw : ∀ x ∈ w, 0 < x) :
    etauMadau T (.arr w) (.real z) = .ok (mkTable w (w.map (madauThru T (1 + z))) false).1 := by
  have h1 : ¬ w.length ≤ 1 := by omega
  have hany : w.any (fun x => decide (x ≤ 0)) = false := by
    rw [List.any_eq_false]; intro x hx; simpa using hw x hx
  simp [etauMadau, h1, ne_of_gt hz, not_lt.mpr (le_of_lt hz), hany]

/-- what a returned curve is: a real redshift `> −1`, at least two positive wavelengths -/
theorem madau_inv {wave : MadauWave K} {z : ZArg K} {c : Table K} (h : etauMadau T wave z = .ok c) :
    ∃ z' w, z = .real z' ∧ wave = .arr w ∧ 2 ≤ w.length ∧ 0 < 1 + z' ∧ (∀ x ∈ w, 0 < x) ∧
      c = (mkTable w (w.map (madauThru T (1 + z'))) false).1 := by
  unfold etauMadau at h
  cases z with
  | notReal => cases h
  | real z' =>
    cases wave with
    | scalar => cases h
    | zeroDim => cases h
    | badUnit n => simp only at h; split_ifs at h
    | arr w =>
      simp only at h
      split_ifs at h with h1 h2 h3 h4
      injection h with h
      refine ⟨z', w, rfl, rfl, by omega, ?_, ?_, h.symm⟩
      · exact lt_of_le_of_ne (not_lt.mp h3) (Ne.symm h2)
      · intro x hx
        by_contra hc
        apply h4
        rw [List.any_eq_true]
        exact ⟨x, hx, by simpa using not_lt.mp hc⟩

theorem madauThru_nonneg (hT : T.Lawful) (xe w : K) : 0 ≤ madauThru T xe w := by
  unfold madauThru
  simp only
  split_ifs
  · exact le_refl _
  · exact le_of_lt (hT.exp_pos _)

/-- on a valid (strictly monotone) grid the curve returns `madauThru` at every sampled wavelength -/
theorem madau_def (hT : T.Lawful) {z : K} {w : List K} {c : Table K}
    (h : etauMadau T (.arr w) (.real z) = .ok c) (hm : StrictAsc w ∨ StrictDesc w) :
    c.pts = ascOrder w ∧ ∀ x ∈ w, c.eval x = madauThru T (1 + z) x := by
  obtain ⟨z', w', hz, hw, _, _, _, hc⟩ := madau_inv h
  injection hz with hz; injection hw with hw; subst hz; subst hw
  have hpos : ∀ x ∈ w, 0 ≤ madauThru T (1 + z) x := fun x _ => madauThru_nonneg hT _ _
  refine ⟨?_, ?_⟩
  · rw [hc]; exact (mkTable_map _ _ hpos).1
  · intro x hx; rw [hc]; exact mkTable_map_eval _ _ hm hpos x hx

/-- the optical depth the code exponentiates is the published one, clamped at 0 -/
theorem madauTau_def (xe w : K) : madauTau T xe w = max (publishedTau T xe w) 0 := rfl

theorem madauTau_nonneg (xe w : K) : 0 ≤ madauTau T xe w := le_max_right _ _

/-- **= exp(−max(τ_published, 0)) (or 0 beyond τ = 700).** -/
theorem madau_eq_exp (xe w : K) :
    madauThru T xe w =
      if max (publishedTau T xe w) 0 > 700 then 0 else T.exp (-(max (publishedTau T xe w) 0)) := rfl

/-- **= exp(−τ) wherever the published τ ≥ 0.** -/
theorem madau_eq_exp_published (xe w : K) (h : 0 ≤ publishedTau T xe w) :
    madauThru T xe w =
      if publishedTau T xe w > 700 then 0 else T.exp (-(publishedTau T xe w)) := by
  rw [madau_eq_exp, max_eq_left h]

/-- where the published τ is negative the curve is exactly 1 -/
theorem madau_clamped (hT : T.Lawful) (xe w : K) (h : publishedTau T xe w ≤ 0) :
    madauThru T xe w = 1 := by
  rw [madau_eq_exp, max_eq_right h]
  have : ¬ (0 : K) > 700 := by norm_num
  rw [if_neg this, neg_zero]
  exact hT.exp_zero

/-- the series part written out -/
theorem lymanTau_def (xe w : K) :
    lymanTau T xe w =
      (if w ≤ 1216 * xe then (36/10000) * T.rpow (w / 1216) (173/50) else 0) +
      (if w ≤ 1026 * xe then (17/10000) * T.rpow (w / 1026) (173/50) else 0) +
      (if w ≤ 973 * xe then (12/10000) * T.rpow (w / 973) (173/50) else 0) +
      (if w ≤ 950 * xe then (93/100000) * T.rpow (w / 950) (173/50) else 0) := by
  unfold lymanTau lymanSeries
  simp only [List.foldl]
  split_ifs <;> ring

/-- published τ between the Lyman limit and Lyman-α: the line series only -/
theorem madau_tau_forest (xe w : K) (h : 912 * xe < w) : publishedTau T xe w = lymanTau T xe w := by
  unfold publishedTau lymanLimit
  rw [if_neg (not_le.mpr h)]

/-- τ blueward of the Lyman limit `912 (1+z)`: all four lines plus the published continuum term
`0.25 xc³ (xe^.46 − xc^.46) + 9.4 xc^1.5 (xe^.18 − xc^.18) − 0.7 xc³ (xc^−1.32 − xe^−1.32)
 − 0.023 (xe^1.68 − xc^1.68)`, `xc = λ/912` -/
theorem madau_tau_continuum (xe w : K) (hxe : 0 ≤ xe) (h : w ≤ 912 * xe) :
    publishedTau T xe w =
      (36/10000) * T.rpow (w / 1216) (173/50) + (17/10000) * T.rpow (w / 1026) (173/50) +
      (12/10000) * T.rpow (w / 973) (173/50) + (93/100000) * T.rpow (w / 950) (173/50) +
      ((1/4) * (w / 912) ^ 3 * (T.rpow xe (23/50) - T.rpow (w / 912) (23/50)) +
       (47/5) * T.rpow (w / 912) (3/2) * (T.rpow xe (9/50) - T.rpow (w / 912) (9/50)) -
       (7/10) * (w / 912) ^ 3 * (T.rpow (w / 912) (-(33/25)) - T.rpow xe (-(33/25))) -
       (23/1000) * (T.rpow xe (42/25) - T.rpow (w / 912) (42/25))) := by
  unfold publishedTau lymanLimit
  rw [if_pos h, lymanTau_def]
  have h1 : w ≤ 1216 * xe := le_trans h (by nlinarith)
  have h2 : w ≤ 1026 * xe := le_trans h (by nlinarith)
  have h3 : w ≤ 973 * xe := le_trans h (by nlinarith)
  have h4 : w ≤ 950 * xe := le_trans h (by nlinarith)
  rw [if_pos h1, if_pos h2, if_pos h3, if_pos h4]
  rfl

/-- **= 1 redward of Lyman-α × (1+z).** -/
theorem madau_redward (hT : T.Lawful) (xe w : K) (hxe : 0 ≤ xe) (h : 1216 * xe < w) :
    madauThru T xe w = 1 := by
  have h0 : publishedTau T xe w = 0 := by
    rw [madau_tau_forest xe w (lt_of_le_of_lt (by nlinarith) h), lymanTau_def]
    rw [if_neg (not_le.mpr h), if_neg (not_le.mpr (lt_of_le_of_lt (by nlinarith) h)),
      if_neg (not_le.mpr (lt_of_le_of_lt (by nlinarith) h)),
      if_neg (not_le.mpr (lt_of_le_of_lt (by nlinarith) h))]
    simp
  exact madau_clamped hT xe w (le_of_eq h0)

/-- the same for the curve object returned by `etau_madau` -/
theorem madau_curve_redward (hT : T.Lawful) {z : K} {w : List K} {c : Table K}
    (h : etauMadau T (.arr w) (.real z) = .ok c) (hm : StrictAsc w ∨ StrictDesc w) :
    ∀ x ∈ w, 1216 * (1 + z) < x → c.eval x = 1 := by
  obtain ⟨_, _, hz, hw, _, hzpos, _, _⟩ := madau_inv h
  injection hz with hz; subst hz
  intro x hx hlt
  rw [(madau_def hT h hm).2 x hx]
  exact madau_redward hT _ _ (le_of_lt hzpos) hlt

/-- `exp(−τ) ≤ 1 ↔ 0 ≤ τ` -/
theorem exp_neg_le_one_iff (hT : T.Lawful) (t : K) : T.exp (-t) ≤ 1 ↔ 0 ≤ t := by
  constructor
  · intro h
    by_contra hc
    have hlt : (0 : K) < -t := by linarith [not_le.mp hc]
    have := hT.exp_strictMono 0 (-t) hlt
    rw [hT.exp_zero] at this
    exact absurd h (not_le.mpr this)
  · intro h
    rcases h.eq_or_lt with h0 | hpos
    · rw [← h0, neg_zero, hT.exp_zero]
    · have := hT.exp_strictMono (-t) 0 (by linarith)
      rw [hT.exp_zero] at this
      exact le_of_lt this

/-- **madau_in_unit.** The Madau curve lies in [0, 1] at every wavelength and every redshift
(no hypothesis at all: the clamp makes the exponent non-positive). -/
theorem madau_in_unit (hT : T.Lawful) (xe w : K) :
    0 ≤ madauThru T xe w ∧ madauThru T xe w ≤ 1 := by
  refine ⟨madauThru_nonneg hT xe w, ?_⟩
  rw [madau_eq_exp]
  split_ifs with h
  · exact zero_le_one
  · exact (exp_neg_le_one_iff hT _).mpr (le_max_right _ _)

/-- the same for the curve object returned by `etau_madau`, at every sampled wavelength -/
theorem madau_curve_in_unit (hT : T.Lawful) {z : K} {w : List K} {c : Table K}
    (h : etauMadau T (.arr w) (.real z) = .ok c) (hm : StrictAsc w ∨ StrictDesc w) :
    ∀ x ∈ w, 0 ≤ c.eval x ∧ c.eval x ≤ 1 := by
  intro x hx
  rw [(madau_def hT h hm).2 x hx]
  exact madau_in_unit hT _ _

/-- strictly positive exactly up to τ = 700 (beyond it the code returns exactly 0) -/
theorem madau_pos_iff (hT : T.Lawful) (xe w : K) :
    0 < madauThru T xe w ↔ publishedTau T xe w ≤ 700 := by
  rw [madau_eq_exp]
  split_ifs with h
  · constructor
    · intro hh; exact absurd hh (lt_irrefl _)
    · intro hh; exact absurd (lt_of_lt_of_le h (max_le hh (by norm_num))) (lt_irrefl _)
  · exact ⟨fun _ => le_trans (le_max_left _ _) (not_lt.mp h), fun _ => hT.exp_pos _⟩

theorem lymanTau_nonneg (hT : T.Lawful) (xe w : K) (hw : 0 ≤ w) : 0 ≤ lymanTau T xe w := by
  rw [lymanTau_def]
  have r : ∀ (el : K), 0 < el → 0 ≤ T.rpow (w / el) (173/50) :=
    fun el hel => hT.rpow_nonneg _ _ (div_nonneg hw (le_of_lt hel))
  have r1 := r 1216 (by norm_num)
  have r2 := r 1026 (by norm_num)
  have r3 := r 973 (by norm_num)
  have r4 := r 950 (by norm_num)
  split_ifs <;> positivity

/-- redward of the Lyman limit the published τ is already non-negative: the clamp is inactive and the
curve is exp(−τ) of the line series -/
theorem madau_forest_unclamped (hT : T.Lawful) (xe w : K) (hw : 0 ≤ w) (h : 912 * xe < w) :
    madauTau T xe w = lymanTau T xe w := by
  rw [madauTau_def, madau_tau_forest xe w h]
  exact max_eq_left (lymanTau_nonneg hT xe w hw)

/-- why the clamp exists: the *published* optical depth is negative at λ = 0.912 Å, z = 0 (before commit
7986b50 the curve exceeded 1 there: finding F6) -/
theorem published_tau_negative_witness (hT : T.Lawful) : publishedTau T 1 (912/1000) < 0 := by
  rw [madau_tau_continuum 1 (912/1000) zero_le_one (by norm_num)]
  simp only [hT.rpow_one_left]
  have hx : ((912/1000 : K) / 912) = 1/1000 := by norm_num
  rw [hx]
  have b : ∀ (x y : K), 0 ≤ x → x ≤ 1 → 1 ≤ y → T.rpow x y ≤ x := hT.rpow_le_self
  have n : ∀ (x y : K), 0 ≤ x → 0 ≤ T.rpow x y := hT.rpow_nonneg
  have l1 := b ((912/1000 : K) / 1216) (173/50) (by norm_num) (by norm_num) (by norm_num)
  have l2 := b ((912/1000 : K) / 1026) (173/50) (by norm_num) (by norm_num) (by norm_num)
  have l3 := b ((912/1000 : K) / 973) (173/50) (by norm_num) (by norm_num) (by norm_num)
  have l4 := b ((912/1000 : K) / 950) (173/50) (by norm_num) (by norm_num) (by norm_num)
  have p1 := n (1/1000 : K) (23/50) (by norm_num)
  have p2 := n (1/1000 : K) (3/2) (by norm_num)
  have p2' := b (1/1000 : K) (3/2) (by norm_num) (by norm_num) (by norm_num)
  have p3 := n (1/1000 : K) (9/50) (by norm_num)
  have p4 := n (1/1000 : K) (-(33/25)) (by norm_num)
  have p5 := b (1/1000 : K) (42/25) (by norm_num) (by norm_num) (by norm_num)
  have p23 := mul_nonneg p2 p3
  generalize T.rpow ((912/1000 : K) / 1216) (173/50) = a1 at *
  generalize T.rpow ((912/1000 : K) / 1026) (173/50) = a2 at *
  generalize T.rpow ((912/1000 : K) / 973) (173/50) = a3 at *
  generalize T.rpow ((912/1000 : K) / 950) (173/50) = a4 at *
  generalize T.rpow (1/1000 : K) (23/50) = r1 at *
  generalize T.rpow (1/1000 : K) (3/2) = r2 at *
  generalize T.rpow (1/1000 : K) (9/50) = r3 at *
  generalize T.rpow (1/1000 : K) (-(33/25)) = r4 at *
  generalize T.rpow (1/1000 : K) (42/25) = r5 at *
  norm_num at l1 l2 l3 l4 ⊢
  nlinarith [l1, l2, l3, l4, p1, p2, p2', p3, p4, p5, p23]

/-- … and the repaired code returns exactly 1 there -/
theorem madau_clamp_witness (hT : T.Lawful) : madauThru T 1 (912/1000) = 1 :=
  madau_clamped hT _ _ (le_of_lt (published_tau_negative_witness hT))

/-- the same through the public entry point: `etau_madau([0.912, 2000], 0)` returns a curve whose value
at 0.912 Å is 1 (it was above 1 before the clamp) -/
theorem madau_curve_clamp_witness (hT : T.Lawful) :
    ∃ c, etauMadau T (.arr [912/1000, 2000]) (.real 0) = .ok c ∧ c.eval (912/1000) = 1 := by
  have hok := madau_ok (T := T) (0 : K) [912/1000, 2000] (by simp) (by norm_num)
    (by intro x hx; simp at hx; rcases hx with rfl | rfl <;> norm_num)
  refine ⟨_, hok, ?_⟩
  have hm : StrictAsc ([912/1000, 2000] : List K) ∨ StrictDesc ([912/1000, 2000] : List K) :=
    Or.inl ⟨by norm_num, trivial⟩
  rw [(madau_def hT hok hm).2 (912/1000) (by simp)]
  have : (1 + 0 : K) = 1 := by norm_num
  rw [this]
  exact madau_clamp_witness hT

/-! ## non-vacuity -/

/-- the hypotheses are satisfiable: the real functions are lawful, so every theorem above applies
to `Transc.real`; in particular the witness is a statement about real numbers -/
example : publishedTau Transc.real 1 (912/1000) < 0 := published_tau_negative_witness Transc.real_lawful

example : ∀ (law : Table ℝ) (a b w : ℝ),
    extValue Transc.real law a w * extValue Transc.real law b w = extValue Transc.real law (a + b) w :=
  fun _ a b w => extValue_add Transc.real_lawful a b w

/-- a concrete request succeeds (the hypotheses of `ext_def` can be met) -/
example : ∃ c, extinctionCurve T (mkTable [1000, 2000] [3, 1] false).1 (.real (1/2))
    (.arr [1500, 1800]) = .ok c :=
  ⟨_, ext_ok (.real (1/2)) (1/2) rfl [1500, 1800]
    ((validate_ok_iff _).mpr ⟨by intro x hx; simp at hx; rcases hx with rfl | rfl <;> norm_num,
      Or.inl ⟨by norm_num, trivial⟩⟩) (by simp)⟩

end Synphot.C17
