/-
  C07 — Binning conserves flux; compiled and pure-Python bin integrators agree.

  `calcbinfluxC` is the C loop of src/synphot_utils.c, `calcbinfluxPy` the NumPy fallback,
  `initBins` is `Observation._init_bins`, `sampleBinned` is `sample_binned`.  Bin-edge geometry
  (midpoints, symmetric outer bins) is `Synphot.C18.edges_spec`.
-/
import Synphot.Lemmas.BinFlux
import Synphot.Props.C18

set_option linter.unusedSectionVars false
set_option linter.unusedVariables false
set_option linter.unusedSimpArgs false

namespace Synphot.C07
open Synphot
variable {K : Type} [Field K] [LinearOrder K] [IsStrictOrderedRing K]

/-! ### the two integrators -/

/-- whenever the compiled loop returns arrays, the Python fallback returns the same arrays -/
theorem c_ok_then_py_same (ibeg iend : List Nat) (avflux deltaw : List K) (r : List K × List K)
    (h : calcbinfluxC ibeg iend avflux deltaw = .ok r) :
    calcbinfluxPy ibeg iend avflux deltaw = .ok r := by
  rw [calcbinfluxC_eq] at h
  rw [calcbinfluxPy_eq]
  cases hm : (ibeg.zip iend).mapM (binOne .zeroDivision avflux deltaw) with
  | error e => rw [hm] at h; cases h
  | ok rs =>
    rw [hm] at h
    rw [mapM_ok_congr _ _ _ rs (fun a b => binOne_ok_indep .zeroDivision .nan avflux deltaw a b) hm]
    exact h

/-- … and conversely: on every consistent index set over non-zero-width segments the two
implementations return identical arrays (they differ only in how they fail on a zero-width bin:
`ZeroDivisionError` vs NaN) -/
theorem py_ok_then_c_same (ibeg iend : List Nat) (avflux deltaw : List K) (r : List K × List K)
    (h : calcbinfluxPy ibeg iend avflux deltaw = .ok r) :
    calcbinfluxC ibeg iend avflux deltaw = .ok r := by
  rw [calcbinfluxPy_eq] at h
  rw [calcbinfluxC_eq]
  cases hm : (ibeg.zip iend).mapM (binOne .nan avflux deltaw) with
  | error e => rw [hm] at h; cases h
  | ok rs =>
    rw [hm] at h
    rw [mapM_ok_congr _ _ _ rs (fun a b => binOne_ok_indep .nan .zeroDivision avflux deltaw a b) hm]
    exact h

theorem impls_agree (ibeg iend : List Nat) (avflux deltaw : List K) (r : List K × List K) :
    calcbinfluxC ibeg iend avflux deltaw = .ok r ↔ calcbinfluxPy ibeg iend avflux deltaw = .ok r :=
  ⟨c_ok_then_py_same _ _ _ _ r, py_ok_then_c_same _ _ _ _ r⟩

/-! ### one bin -/

/-- binned flux × integrated width of a bin is the bin's `Σ avflux·Δλ` (flux conservation, per bin) -/
theorem bin_flux_times_width (e : Err) (avflux deltaw : List K) (p : Nat × Nat) (b w : K)
    (h : binOne e avflux deltaw p = .ok (b, w)) :
    b * w = segFlux avflux deltaw p.1 p.2 ∧ w = segWidth deltaw p.1 p.2 := by
  unfold binOne at h
  split_ifs at h with hz
  injection h with h
  injection h with h1 h2
  subst h1; subst h2
  exact ⟨div_mul_cancel₀ _ hz, rfl⟩

/-- the averaged flux of a grid segment lies between its two end values -/
theorem avflux_between (a b : K) : min a b ≤ (b + a) * (1 / 2) ∧ (b + a) * (1 / 2) ≤ max a b := by
  constructor
  · have := min_le_left a b; have := min_le_right a b; linarith
  · have := le_max_left a b; have := le_max_right a b; linarith

/-- each binned flux is the width-weighted mean of the unbinned flux over its bin, hence lies
between the smallest and largest unbinned value there -/
theorem binflux_between_min_max (e : Err) (avflux deltaw : List K) (p : Nat × Nat) (b w m M : K)
    (h : binOne e avflux deltaw p = .ok (b, w)) (hlen : avflux.length = deltaw.length)
    (hd : ∀ d ∈ (deltaw.drop p.1).take (p.2 - p.1), 0 ≤ d)
    (ha : ∀ a ∈ (avflux.drop p.1).take (p.2 - p.1), m ≤ a ∧ a ≤ M) : m ≤ b ∧ b ≤ M := by
  have hb := bin_flux_times_width e avflux deltaw p b w h
  unfold binOne at h
  split_ifs at h with hz
  have hw0 : 0 ≤ segWidth deltaw p.1 p.2 := List.sum_nonneg hd
  have hwpos : 0 < segWidth deltaw p.1 p.2 := lt_of_le_of_ne hw0 (Ne.symm hz)
  have hl : ((avflux.drop p.1).take (p.2 - p.1)).length = ((deltaw.drop p.1).take (p.2 - p.1)).length := by
    simp [List.length_take, List.length_drop, hlen]
  have hwm := weighted_mean_bounds m M _ _ ha hd
  rw [hl, List.take_length] at hwm
  have hbw : b * segWidth deltaw p.1 p.2 = segFlux avflux deltaw p.1 p.2 := by rw [← hb.2]; exact hb.1
  constructor
  · have : m * segWidth deltaw p.1 p.2 ≤ b * segWidth deltaw p.1 p.2 := by rw [hbw]; exact hwm.1
    exact le_of_mul_le_mul_right this hwpos
  · have : b * segWidth deltaw p.1 p.2 ≤ M * segWidth deltaw p.1 p.2 := by rw [hbw]; exact hwm.2
    exact le_of_mul_le_mul_right this hwpos

/-! ### all bins: conservation -/

/-- `Σ_i binflux_i · width_i = Σ_i Σ_{j ∈ bin i} avflux_j Δλ_j` for whatever the integrator returns -/
theorem binned_sum (e : Err) (avflux deltaw : List K) :
    ∀ (ps : List (Nat × Nat)) (rs : List (K × K)), ps.mapM (binOne e avflux deltaw) = .ok rs →
      (rs.map fun r => r.1 * r.2).sum = (ps.map fun p => segFlux avflux deltaw p.1 p.2).sum := by
  intro ps
  induction ps with
  | nil =>
    intro rs h
    simp only [List.mapM_nil, pure, Except.pure] at h
    injection h with h; subst h; simp
  | cons p ps ih =>
    intro rs h
    simp only [List.mapM_cons, bind, Except.bind] at h
    cases hp : binOne e avflux deltaw p with
    | error e' => rw [hp] at h; cases h
    | ok r =>
      rw [hp] at h
      cases hps : ps.mapM (binOne e avflux deltaw) with
      | error e' => rw [hps] at h; cases h
      | ok rs' =>
        rw [hps] at h
        simp only [pure, Except.pure] at h
        injection h with h; subst h
        obtain ⟨b, w⟩ := r
        have := (bin_flux_times_width e avflux deltaw p b w hp).1
        simp only [List.map_cons, List.sum_cons, ih rs' hps, this]

/-- the sum over a grid of `avflux·Δλ` is the trapezoid integral of the unbinned samples on that grid:
with `binned_sum` and contiguous bins this is "Σ binflux × width = ∫ observation on the merged grid" -/
theorem total_is_trapz (x y : List K) (h : x.length = y.length) :
    segFlux (pairSums y) (pairDiffs x) 0 (pairDiffs x).length = trapzXY x y := by
  rw [trapz_eq_sum_av_dw x y h]
  unfold segFlux
  simp only [List.drop_zero, Nat.sub_zero, List.take_length]
  congr 1
  have hl : (pairSums y).length = (pairDiffs x).length := by
    have : ∀ (x y : List K), x.length = y.length → (pairSums y).length = (pairDiffs x).length := by
      intro x
      induction x with
      | nil => intro y hy; cases y <;> simp_all [pairSums, pairDiffs]
      | cons a x ih =>
        intro y hy
        cases y with
        | nil => simp at hy
        | cons b y =>
          cases x with
          | nil => cases y <;> simp_all [pairSums, pairDiffs]
          | cons a' x =>
            cases y with
            | nil => simp at hy
            | cons b' y =>
              simp only [pairSums, pairDiffs, List.length_cons]
              have := ih (b' :: y) (by simpa using hy)
              omega
    exact this x y h
  rw [← hl, List.take_length]

/-- adjacent index ranges add up: contiguous bins tile the range from the first to the last edge -/
theorem segFlux_additive (av dw : List K) (hlen : av.length = dw.length) (f m l : Nat) (hfm : f ≤ m)
    (hml : m ≤ l) : segFlux av dw f m + segFlux av dw m l = segFlux av dw f l := by
  unfold segFlux
  have h1 : ∀ (s : List K), (s.drop f).take (l - f) = (s.drop f).take (m - f) ++ (s.drop m).take (l - m) := by
    intro s
    have : l - f = (m - f) + (l - m) := by omega
    rw [this, List.take_add]
    congr 1
    rw [List.drop_drop]
    congr 2; omega
  rw [h1 av, h1 dw]
  have hl : ((av.drop f).take (m - f)).length = ((dw.drop f).take (m - f)).length := by
    simp [List.length_take, List.length_drop, hlen]
  rw [List.zip_append hl, List.map_append, List.sum_append]

/-- hence for contiguous bins `[i₀,i₁), [i₁,i₂), …` the binned sum is the sum over `[i₀, iₙ)` -/
theorem contiguous_bins_tile (av dw : List K) (hlen : av.length = dw.length) :
    ∀ (idx : List Nat) (i0 : Nat), List.IsChain (· ≤ ·) (i0 :: idx) →
      (((i0 :: idx).zip idx).map fun p => segFlux av dw p.1 p.2).sum =
        segFlux av dw i0 ((i0 :: idx).getLast (List.cons_ne_nil _ _)) := by
  intro idx
  induction idx with
  | nil => intro i0 _; simp [segFlux]
  | cons i1 idx ih =>
    intro i0 hc
    rw [List.isChain_cons_cons] at hc
    have := ih i1 hc.2
    simp only [List.zip_cons_cons, List.map_cons, List.sum_cons]
    rw [this]
    have hlast : (i0 :: i1 :: idx).getLast (List.cons_ne_nil _ _) = (i1 :: idx).getLast (List.cons_ne_nil _ _) := by
      simp [List.getLast_cons]
    rw [hlast]
    have hle : i1 ≤ (i1 :: idx).getLast (List.cons_ne_nil _ _) := by
      have hp : (i1 :: idx).Pairwise (· ≤ ·) := by
        rw [← List.isChain_iff_pairwise]; exact hc.2
      rcases List.mem_cons.mp (List.getLast_mem (List.cons_ne_nil i1 idx)) with h | h
      · rw [h]
      · exact List.rel_of_pairwise_cons hp h
    exact segFlux_additive av dw hlen i0 i1 _ hc.1 hle

/-! ### binned sampling -/

theorem pyIndex_nat_ok {α : Type} (l : List α) (i : Nat) (h : i < l.length) :
    pyIndex l (i : Int) = .ok (l[i]'h) := by
  unfold pyIndex
  have h1 : ¬ ((i : Int) < 0) := by omega
  have h3 : ¬ ((l.length : Int) ≤ (i : Int)) := by omega
  simp only [h1, if_false, Int.toNat_natCast, false_or, h3]
  rw [List.getElem?_eq_getElem h]

/-- the index `sample_binned` looks at is always a valid bin index -/
theorem clipped_index_valid (binset : List K) (hne : binset ≠ []) (v : K) :
    min (searchLeft binset v) (binset.length - 1) < binset.length := by
  have : 0 < binset.length := List.length_pos_iff.mpr hne
  omega

/-- binned sampling never fails with an index error: any wavelength — below, between or above the
bin centres — is either matched to a bin or refused -/
theorem sample_binned_no_index_error (atol rtol : K) (b : Bins K) (hne : b.binset ≠ [])
    (hlen : b.binflux.length = b.binset.length) (x : List K) :
    sampleBinned atol rtol b x ≠ .error .indexError := by
  unfold sampleBinned
  cases hv : validateWavelengths x with
  | error e =>
    simp only [bind, Except.bind]
    intro h; injection h with h; subst h
    unfold validateWavelengths at hv
    split_ifs at hv <;> cases hv
  | ok u =>
    simp only [bind, Except.bind]
    have hidx : ∀ (l : List K) (hl : l.length = b.binset.length) (vs : List K),
        ∃ r, (vs.map (binIndex b.binset)).mapM (pyIndex l) = .ok r := by
      intro l hl vs
      induction vs with
      | nil => exact ⟨[], rfl⟩
      | cons v vs ih =>
        obtain ⟨r, hr⟩ := ih
        have hi := clipped_index_valid b.binset hne v
        refine ⟨l[min (searchLeft b.binset v) (b.binset.length - 1)]'(by rw [hl]; exact hi) :: r, ?_⟩
        simp only [List.map_cons, List.mapM_cons, bind, Except.bind, binIndex]
        rw [pyIndex_nat_ok l _ (by rw [hl]; exact hi)]
        rw [hr]; rfl
    obtain ⟨r1, hr1⟩ := hidx b.binset rfl x
    obtain ⟨r2, hr2⟩ := hidx b.binflux hlen x
    rw [hr1]
    show (if (!(r1.zip x).all fun x => allcloseOne atol rtol x.1 x.2) = true then _ else _) ≠ _
    split_ifs
    · intro h; cases h
    · rw [hr2]; intro h; cases h

/-- a wavelength farther from the bin centre it is compared with than the `allclose` tolerance is
refused with `InterpolationNotAllowed` -/
theorem sample_binned_refuses (atol rtol : K) (b : Bins K) (v : K) (hv : 0 < v)
    (c : K) (hc : pyIndex b.binset (binIndex b.binset v) = .ok c)
    (hfar : ¬ |c - v| ≤ atol + rtol * |v|) :
    sampleBinned atol rtol b [v] = .error .interpolationNotAllowed := by
  unfold sampleBinned
  have hval : validateWavelengths [v] = .ok () := by
    rw [validate_ok_iff]; exact ⟨by simpa using hv, Or.inl trivial⟩
  simp only [hval, bind, Except.bind, List.map_cons, List.map_nil, List.mapM_cons, List.mapM_nil, hc,
    pure, Except.pure, List.zip_cons_cons, List.zip_nil_right, List.all_cons, List.all_nil, Bool.and_true,
    allcloseOne]
  simp [hfar]

/-- a wavelength within the tolerance of its bin centre returns that bin's flux -/
theorem sample_binned_centre (atol rtol : K) (b : Bins K) (v : K) (hv : 0 < v)
    (c f : K) (hc : pyIndex b.binset (binIndex b.binset v) = .ok c)
    (hf : pyIndex b.binflux (binIndex b.binset v) = .ok f)
    (hnear : |c - v| ≤ atol + rtol * |v|) :
    sampleBinned atol rtol b [v] = .ok [f] := by
  unfold sampleBinned
  have hval : validateWavelengths [v] = .ok () := by
    rw [validate_ok_iff]; exact ⟨by simpa using hv, Or.inl trivial⟩
  simp only [hval, bind, Except.bind, List.map_cons, List.map_nil, List.mapM_cons, List.mapM_nil, hc, hf,
    pure, Except.pure, List.zip_cons_cons, List.zip_nil_right, List.all_cons, List.all_nil, Bool.and_true,
    allcloseOne]
  simp [hnear]

end Synphot.C07
