/-
  C10 — Normalisation reaches the requested value and preserves spectral shape.

  `normalizeFactor` (Core/ObsPhot.lean) transcribes `BaseSourceSpectrum.normalize`: it returns the
  scalar `k` the spectrum is multiplied by, the operand after the call (switched to extrapolation on
  the partial-overlap path only) and whether a warning was recorded.
-/
import Synphot.Props.C09

set_option linter.unusedSectionVars false
set_option linter.unusedVariables false
set_option linter.unusedSimpArgs false

namespace Synphot.C10
open Synphot
variable {K : Type} [Field K] [LinearOrder K] [IsStrictOrderedRing K]

/-- the normalised spectrum is the original multiplied by one scalar at every wavelength -/
theorem normalized_is_scalar_multiple (E : Env K) (m : Tree K) (k x v : K) (h : m.eval E x = .ok v) :
    (Tree.scale m k).eval E x = .ok (v * k) := eval_scale_of h

/-- linear targets: `k = target · (std / total)` is positive for a positive target and positive band integrals -/
theorem factor_pos (target std total : K) (ht : 0 < target) (hs : 0 < std) (htot : 0 < total) :
    0 < target * (std / total) := mul_pos ht (div_pos hs htot)

/-- magnitude targets: the factor `10^(−0.4·(target + 2.5 log₁₀(total/std)))` is positive -/
theorem factor_mag_pos (T : Transc K) (hT : T.Lawful) (x : K) : 0 < T.pow10 x := hT.pow10_pos x

/-- **post-condition, FLAM**: with `k = target · std/total`, `total = ∫ F P` on the observation's grid and
`std = ∫ (λ/hc) P` on the bandpass's grid (a spectrum flat at 1 FLAM, in PHOTLAM), the FLAM effective
stimulus `|∫ λ F_λ' P| / |∫ λ P|` of the scaled spectrum is the target.  `obs` holds `(λ, F·P)` in
PHOTLAM, `band` holds `(λ, P)`. -/
theorem normalize_hits_target_flam (obs band : List (K × K)) (hc target : K) (hhc : 0 < hc)
    (ht : 0 < target) (hpos : ∀ p ∈ obs, p.1 ≠ 0)
    (htot : 0 < trapz obs) (hden : 0 < trapz (C09.timesLam band)) :
    let std := trapz (band.map fun p => (p.1, p.1 / hc * p.2))
    let k := target * (std / trapz obs)
    C09.effstimFlam (obs.map fun p => (p.1, k * p.2 * hc / p.1)) band = target := by
  intro std k
  have hstd : std = trapz (C09.timesLam band) / hc := by
    simp only [std, C09.timesLam]
    have : (band.map fun p => (p.1, p.1 / hc * p.2)) =
        (band.map fun p => (p.1, p.1 * p.2)).map fun p => (p.1, (1 / hc) * p.2) := by
      simp only [List.map_map]; apply List.map_congr_left; intro p _; simp only [Function.comp]; congr 1; ring
    rw [this, trapz_smul]; ring
  unfold C09.effstimFlam
  have h1 : C09.timesLam (obs.map fun p => (p.1, k * p.2 * hc / p.1)) = obs.map fun p => (p.1, (k * hc) * p.2) := by
    simp only [C09.timesLam, List.map_map]; apply List.map_congr_left; intro p hp
    simp only [Function.comp]; have := hpos p hp; congr 1; field_simp
  rw [h1, trapz_smul]
  have hk : 0 < k := mul_pos ht (div_pos (by rw [hstd]; exact div_pos hden hhc) htot)
  rw [abs_of_pos (mul_pos (mul_pos hk hhc) htot), abs_of_pos hden]
  simp only [k, hstd]
  have h1 := ne_of_gt htot; have h2 := ne_of_gt hden; have h3 := ne_of_gt hhc
  field_simp

/-- the same spectrum observed in FNU (converted at the pivot) reaches an FNU target:
`std = ∫ (c/(λ hc)) P` for a spectrum flat at 1 FNU -/
theorem normalize_hits_target_fnu (obs band : List (K × K)) (hc c target : K) (hhc : 0 < hc) (hcc : 0 < c)
    (ht : 0 < target) (hpos : ∀ p ∈ obs, p.1 ≠ 0) (hposb : ∀ p ∈ band, p.1 ≠ 0)
    (htot : 0 < trapz obs) (hB : 0 < trapz (C09.timesLam band)) (hA : 0 < trapz (C09.overLam band)) :
    let std := trapz (band.map fun p => (p.1, c / (p.1 * hc) * p.2))
    let k := target * (std / trapz obs)
    C09.effstimFlam (obs.map fun p => (p.1, k * p.2 * hc / p.1)) band *
      |trapz (C09.timesLam band) / trapz (C09.overLam band)| / c = target := by
  intro std k
  have hstd : std = c / hc * trapz (C09.overLam band) := by
    simp only [std, C09.overLam]
    have : (band.map fun p => (p.1, c / (p.1 * hc) * p.2)) =
        (band.map fun p => (p.1, p.2 / p.1)).map fun p => (p.1, (c / hc) * p.2) := by
      simp only [List.map_map]; apply List.map_congr_left; intro p hp; simp only [Function.comp]
      have := hposb p hp; have := ne_of_gt hhc; congr 1; field_simp
    rw [this, trapz_smul]
  unfold C09.effstimFlam
  have h1 : C09.timesLam (obs.map fun p => (p.1, k * p.2 * hc / p.1)) = obs.map fun p => (p.1, (k * hc) * p.2) := by
    simp only [C09.timesLam, List.map_map]; apply List.map_congr_left; intro p hp
    simp only [Function.comp]; have := hpos p hp; congr 1; field_simp
  rw [h1, trapz_smul]
  have hstdpos : 0 < std := by rw [hstd]; exact mul_pos (div_pos hcc hhc) hA
  have hk : 0 < k := mul_pos ht (div_pos hstdpos htot)
  rw [abs_of_pos (mul_pos (mul_pos hk hhc) htot), abs_of_pos hB, abs_of_pos (div_pos hB hA)]
  simp only [k, hstd]
  have h1 := ne_of_gt htot; have h2 := ne_of_gt hB; have h3 := ne_of_gt hhc; have h4 := ne_of_gt hA
  have h5 := ne_of_gt hcc
  field_simp

/-! ### errors and the operand -/

/-- on full overlap the operand is untouched and no warning is recorded -/
theorem full_overlap_leaves_operand (E : Env K) (P : OverlapPar K) (self band : Spec K) (target : K)
    (u : FluxUnit K) (wl : Option (List K)) (force : Bool) (area : Option K) (vega : Option (Tree K))
    (hb : band.kind = .bandpass) (hv : checkOverlap E P band self wl = .ok .full)
    (k : K) (s' : Spec K) (w : Bool)
    (h : normalizeFactor E P self band target u wl force area vega = .ok (k, s', w)) :
    s' = self ∧ w = false := by
  unfold normalizeFactor at h
  simp only [hb, ne_eq, not_true_eq_false, if_false, hv, bind, Except.bind, pure, Except.pure] at h
  -- every remaining step either fails or returns the stored pair (self, false)
  repeat' first
    | (cases h; done)
    | (split at h)
  all_goals first
    | (cases h; done)
    | (injection h with h; injection h with _ h; injection h with h1 h2; exact ⟨h1.symm, h2.symm⟩)

/-- a disjoint band raises DisjointError, an insufficiently overlapping one PartialOverlap unless forced -/
theorem overlap_errors (E : Env K) (P : OverlapPar K) (self band : Spec K) (target : K)
    (u : FluxUnit K) (wl : Option (List K)) (force : Bool) (area : Option K) (vega : Option (Tree K))
    (hb : band.kind = .bandpass) :
    (checkOverlap E P band self wl = .ok .none →
      normalizeFactor E P self band target u wl force area vega = .error .disjointError) ∧
    (checkOverlap E P band self wl = .ok .partialNotMost → force = false →
      normalizeFactor E P self band target u wl force area vega = .error .partialOverlap) := by
  constructor
  · intro hv
    simp [normalizeFactor, hb, hv, bind, Except.bind]
  · intro hv hf
    simp [normalizeFactor, hb, hv, hf, bind, Except.bind]

/-- something that is not a bandpass is refused -/
theorem band_must_be_bandpass (E : Env K) (P : OverlapPar K) (self band : Spec K) (target : K)
    (u : FluxUnit K) (wl : Option (List K)) (force : Bool) (area : Option K) (vega : Option (Tree K))
    (hb : band.kind ≠ .bandpass) :
    normalizeFactor E P self band target u wl force area vega = .error .synphotError := by
  simp [normalizeFactor, hb, bind, Except.bind]

end Synphot.C10
