/-
  Synphot.Core.Transc — transcendental functions enter the model only through this
  record.  Theorems take a `Transc K` with the laws they need (`Transc.Lawful`);
  `Lemmas/TranscReal.lean` shows the laws are satisfied by the real functions.
  The driver uses a Float-backed, *not lawful*, instance at ℚ for comparison only.
-/
import Synphot.Core.Basic

namespace Synphot

structure Transc (K : Type) where
  log10 : K → K
  pow10 : K → K
  ln : K → K
  exp : K → K
  expm1 : K → K
  sqrt : K → K
  atan : K → K
  rpow : K → K → K
  pi : K
  sin : K → K
  cos : K → K

variable {K : Type} [Field K] [LinearOrder K] [IsStrictOrderedRing K]

/-- the laws theorems may assume about the transcendental functions -/
structure Transc.Lawful (T : Transc K) : Prop where
  pow10_log10 : ∀ x, 0 < x → T.pow10 (T.log10 x) = x
  log10_pow10 : ∀ x, T.log10 (T.pow10 x) = x
  pow10_pos : ∀ x, 0 < T.pow10 x
  pow10_add : ∀ x y, T.pow10 (x + y) = T.pow10 x * T.pow10 y
  pow10_zero : T.pow10 0 = 1
  pow10_strictMono : ∀ x y, x < y → T.pow10 x < T.pow10 y
  log10_mul : ∀ x y, 0 < x → 0 < y → T.log10 (x * y) = T.log10 x + T.log10 y
  log10_one : T.log10 1 = 0
  exp_ln : ∀ x, 0 < x → T.exp (T.ln x) = x
  exp_pos : ∀ x, 0 < T.exp x
  exp_strictMono : ∀ x y, x < y → T.exp x < T.exp y
  exp_zero : T.exp 0 = 1
  expm1_eq : ∀ x, T.expm1 x = T.exp x - 1
  sqrt_mul_self : ∀ x, 0 ≤ x → T.sqrt x * T.sqrt x = x
  sqrt_nonneg : ∀ x, 0 ≤ T.sqrt x
  sqrt_mono : ∀ x y, 0 ≤ x → x ≤ y → T.sqrt x ≤ T.sqrt y
  pi_pos : 0 < T.pi
  -- real powers (added for C17; all hold of `Real.rpow`)
  rpow_nonneg : ∀ x y, 0 ≤ x → 0 ≤ T.rpow x y
  rpow_one_left : ∀ y, T.rpow 1 y = 1
  rpow_le_self : ∀ x y, 0 ≤ x → x ≤ 1 → 1 ≤ y → T.rpow x y ≤ x

end Synphot
