#!/venv/bin/python
"""Run pytest or a script against a synphot source tree other than the editable install.

usage: /venv/bin/python /tmp/seedtools/intree.py <tree> pytest [pytest args...]
       /venv/bin/python /tmp/seedtools/intree.py <tree> run <script.py> [args...]
"""
import os, runpy, sys
tree = os.path.realpath(sys.argv[1])
sys.meta_path[:] = [f for f in sys.meta_path if 'editable' not in type(f).__name__.lower()
                    and 'editable' not in getattr(f, '__module__', '') and 'editable' not in getattr(f, '__name__', '').lower()]
sys.path.insert(0, tree)
os.chdir(tree)
import synphot
assert os.path.realpath(synphot.__file__).startswith(tree), synphot.__file__
mode = sys.argv[2]
if mode == 'pytest':
    import pytest
    sys.exit(pytest.main(['-q', '-p', 'no:cacheprovider'] + sys.argv[3:]))
elif mode == 'run':
    script = os.path.abspath(sys.argv[3]) if os.path.isabs(sys.argv[3]) else os.path.join(os.environ.get('OLDPWD', tree), sys.argv[3])
    sys.argv = sys.argv[3:]
    runpy.run_path(script, run_name='__main__')
