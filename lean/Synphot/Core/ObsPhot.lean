/-
  Synphot.Core.ObsPhot — `Observation.countrate`, `effstim`, `effective_wavelength`
  (observation.py:362-623), `BaseSpectrum.pivot` (spectrum.py:596-622) and
  `BaseSourceSpectrum.normalize` (spectrum.py:952-1112).
-/
import Synphot.Core.Observation

namespace Synphot
variable {K : Type} [Field K] [LinearOrder K] [IsStrictOrderedRing K]

/-- sample wavelengths of a call: the caller's (validated) or the object's waveset -/
def wavelengthsOr (thr : K) (m : Tree K) (wl : Option (List K)) : Except Err (List K) :=
  match wl with
  | some w => do validateWavelengths w; pure w
  | none => wavesetOrErr thr m

/-- `BaseSpectrum.pivot`: `sqrt |∫yx / ∫y/x|`, 0 when the denominator vanishes -/
def pivot (E : Env K) (thr : K) (m : Tree K) (wl : Option (List K)) : Except Err K := do
  let x ← wavelengthsOr thr m wl
  let y ← sampleTree E m x
  let num := trapzXY x ((x.zip y).map fun (a, b) => b * a)
  let den := trapzXY x ((x.zip y).map fun (a, b) => b / a)
  if den = 0 then pure 0 else pure (E.T.sqrt |num / den|)

/-- `overlap_status(w, x)` on arrays -/
def overlapArrays (a b : List K) : Except Err Overlap :=
  match listMin a, listMax a, listMin b, listMax b with
  | some a1, some a2, some b1, some b2 => .ok (overlapStatus a1 a2 b1 b2)
  | _, _, _, _ => .error .valueError

/-- `Observation.countrate(area, binned, wavelengths, waverange, force)`; `atol`, `rtol` are
`np.allclose`'s defaults used by `sample_binned` -/
def countrate (E : Env K) (thr atol rtol : K) (o : Obs K) (area : Option K) (binned : Bool)
    (wl : Option (List K)) (waverange : Option (K × K)) (force : Bool) : Except Err K := do
  let x ← if binned then (match wl with
      | some w => do validateWavelengths w; pure w
      | none => pure o.bins.binset)
    else wavelengthsOr thr o.model wl
  let yp ← if binned then sampleBinned atol rtol o.bins x else sampleTree E o.model x
  let y ← convertFlux E.P E.T x yp .photlam .count area none
  let influx ← match waverange with
    | none => pure y
    | some (wa, wb) => do
        let stat ← overlapArrays [wa, wb] x
        let w1 := min wa wb
        let w2 := max wa wb
        let (w1, w2) ← match stat with
          | .none => throw .disjointError
          | .part =>
              if force then
                match listMin x, listMax x with
                | some xm, some xM => pure (max w1 xm, min w2 xM)
                | _, _ => throw .valueError
              else throw .partialOverlap
          | .full => pure (w1, w2)
        if binned then do
          let (edges, y) ← match wl with
            | none => pure (o.bins.edges, y)
            | some _ => do
                let e ← binEdges x
                -- the lookup needs ascending edges (052fdd8)
                pure (if isDesc e then (e.reverse, y.reverse) else (e, y))
          let i1 : Int := (searchLeft edges w1 : Int) - 1
          let i2 : Int := searchLeft edges w2
          pure (pySlice y i1 i2)
        else pure (((x.zip y).filter fun p => decide (p.1 ≥ w1 ∧ p.1 ≤ w2)).map Prod.snd)
  let val := influx.sum          -- math.fsum: the exact sum, correctly rounded
  validateTotalflux val
  pure val

/-- `Observation.effective_wavelength(binned, wavelengths, mode)`; `erg = true` is 'efflerg' (FLAM) -/
def effectiveWavelength (E : Env K) (thr atol rtol : K) (o : Obs K) (binned : Bool)
    (wl : Option (List K)) (erg : Bool) : Except Err K := do
  let u : FluxUnit K := if erg then .flam else .photlam
  let x ← if binned then (match wl with
      | some w => do validateWavelengths w; pure w
      | none => pure o.bins.binset)
    else wavelengthsOr thr o.model wl
  let yp ← if binned then sampleBinned atol rtol o.bins x else sampleTree E o.model x
  let y ← convertFlux E.P E.T x yp .photlam u none none
  let num := trapzXY x ((x.zip y).map fun (a, b) => b * a ^ 2)
  let den := trapzXY x ((x.zip y).map fun (a, b) => b * a)
  if den = 0 then pure 0 else pure |num / den|

/-- the flux-unit classes `effstim` distinguishes -/
def effstim (E : Env K) (thr atol rtol : K) (o : Obs K) (u : FluxUnit K) (wl : Option (List K))
    (area : Option K) (vegaModel : Option (Tree K)) : Except Err K := do
  match u with
  | .count => countrate E thr atol rtol o area false wl none false
  | .obmag => do
      let v ← countrate E thr atol rtol o area false wl none false
      toMag E.T v
  | .vegamag => do
      match vegaModel with
      | none => throw .synphotError
      | some vm => do
          let bm ← o.band.model
          let x ← wavelengthsOr thr o.model wl
          let num ← integrateTrapz E o.model x
          let vb := Tree.bin .mul vm bm
          let xv ← wavelengthsOr thr vb wl      -- the caller's wavelengths when given (fix 673f123)
          let den ← integrateTrapz E vb xv
          validateTotalflux num
          validateTotalflux den
          pure ((5/2) * (E.T.log10 den - E.T.log10 num))
  | _ => do
      let bm ← o.band.model
      let xb ← wavelengthsOr thr bm wl
      let yb ← sampleTree E bm xb
      let inw ← wavelengthsOr thr o.model wl
      let inp ← sampleTree E o.model inw
      let inf ← convertFlux E.P E.T inw inp .photlam .flam none none
      let num := |trapzXY inw ((inw.zip inf).map fun (a, b) => a * b)|
      let den := |trapzXY xb ((xb.zip yb).map fun (a, b) => a * b)|
      validateTotalflux num
      validateTotalflux den
      let val := num / den
      match u with
      | .flam => pure val
      | .stmag => toMag E.T (val / E.P.stZero)
      | u' => do
          let wp ← pivot E thr bm wl            -- pivot on the wavelengths the integrals used (fix 673f123)
          convertOne E.P E.T (plainSamp wp) .flam u' val

/-- `normalize(renorm_val, band, wavelengths, force, area, vegaspec)`: the scalar factor applied to
the spectrum and whether the operand was switched to extrapolation; `band` must be given
(`NotImplementedError` otherwise for density units) -/
def normalizeFactor (E : Env K) (P : OverlapPar K) (self band : Spec K) (target : K) (u : FluxUnit K)
    (wl : Option (List K)) (force : Bool) (area : Option K) (vegaModel : Option (Tree K)) :
    Except Err (K × Spec K × Bool) := do
  if band.kind ≠ .bandpass then throw .synphotError
  let stat ← checkOverlap E P band self wl
  let (self', warned) ← match stat with
    | .none => throw .disjointError
    | .full => pure (self, false)
    | .partialMost => pure ((self.forceExtrap).1, true)
    | .partialNotMost => if force then pure ((self.forceExtrap).1, true) else throw .partialOverlap
  let sm ← self'.model
  let bm ← band.model
  let sp := Tree.bin .mul sm bm
  let w ← wavelengthsOr P.mergeThr sp wl
  let (total, std) ← match u with
    | .count | .obmag => do
        let yp ← sampleTree E sp w
        let y ← convertFlux E.P E.T w yp .photlam .count area none
        pure (y.sum, (1 : K))
    | _ => do
        let total ← integrateTrapz E sp w
        let stdTree : Tree K ← match u with
          | .vegamag => match vegaModel with
              | some vm => pure vm
              | none => throw .synphotError
          | .stmag => pure (.leaf (.constFlux E.P.stZero .flam))     -- 0 STmag
          | .abmag => pure (.leaf (.constFlux E.P.abZero .fnu))      -- 0 ABmag
          | u' => pure (.leaf (.constFlux 1 u'))
        let up := Tree.bin .mul stdTree bm
        let wu ← wavelengthsOr P.mergeThr up wl
        let std ← integrateTrapz E up wu
        pure (total, std)
  validateTotalflux total
  let k ← if u.isMag then do
      if total / std ≤ 0 then throw .nan
      pure (E.T.pow10 (-(2/5) * (target + (5/2) * E.T.log10 (total / std))))
    else pure (target * (std / total))
  pure (k, self', warned)

end Synphot
