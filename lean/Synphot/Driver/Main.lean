import Synphot.Driver.Json
import Synphot.Core.Binning
import Synphot.Core.PixRange

open Lean Synphot

namespace Synphot.Driver

def dispatch (op : String) (j : Json) : M Json := do
  match op with
  | "bin_edges" => do
      let c ← fRats j "c"
      pure (outcome jRats (binEdges c))
  | "bin_widths" => do
      let e ← fRats j "e"
      pure (outcome jRats (binWidths e))
  | "bin_centers" => do
      let e ← fRats j "e"
      pure (outcome jRats (binCenters e))
  | "wave_range" => do
      let bins ← fRats j "bins"
      let cen ← fRat j "cen"
      let isInt ← fBool j "npix_is_int"
      let npix ← fInt j "npix"
      let mode ← fStr j "mode"
      let r : Except Err (Rat × Rat) := waveRangeTop bins cen isInt npix mode
      pure (outcome (fun (p : Rat × Rat) => Json.arr #[jRat p.1, jRat p.2]) r)
  | "pixel_range" => do
      let bins ← fRats j "bins"
      let w0 ← fRat j "w0"
      let w1 ← fRat j "w1"
      let mode ← fStr j "mode"
      pure (outcome jRat (pixelRangeTop bins w0 w1 mode))
  | _ => .error s!"unknown op {op}"

def handleLine (line : String) : String :=
  match Json.parse line with
  | .error e => (Json.mkObj [("proto_error", Json.str e)]).compress
  | .ok j =>
    match (fStr j "op" >>= fun op => dispatch op j) with
    | .ok r => r.compress
    | .error e => (Json.mkObj [("proto_error", Json.str e)]).compress

partial def loop (hin hout : IO.FS.Stream) : IO Unit := do
  let line ← hin.getLine
  if line.isEmpty then return ()
  let t := line.trimAscii.toString
  if t.isEmpty then loop hin hout else
  hout.putStrLn (handleLine t)
  loop hin hout

def main : IO Unit := do
  let hin ← IO.getStdin
  let hout ← IO.getStdout
  loop hin hout
  hout.flush

end Synphot.Driver
