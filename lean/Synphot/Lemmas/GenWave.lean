import Mathlib.Tactic.Ring
import Mathlib.Tactic.FieldSimp
import Mathlib.Tactic.Linarith
import Mathlib.Tactic.Positivity
import Synphot.Core.GenWave
import Synphot.Lemmas.Trapz
import Synphot.Lemmas.Wave

set_option linter.unusedSectionVars false
set_option linter.unusedSimpArgs false
set_option linter.unusedVariables false

namespace Synphot
variable {K : Type} [Field K] [LinearOrder K] [IsStrictOrderedRing K]

theorem affineGrid_length (a d : K) (n : Nat) : (affineGrid a d n).length = n := by
  simp [affineGrid]

theorem mem_affineGrid {a d x : K} {n : Nat} (h : x ∈ affineGrid a d n) :
    ∃ i : Nat, i < n ∧ x = a + (i : K) * d := by
  unfold affineGrid at h
  rw [List.mem_map] at h
  obtain ⟨i, hi, hx⟩ := h
  exact ⟨i, List.mem_range.mp hi, hx.symm⟩

/-- translation invariance of the trapezoid sum -/
theorem trapz_shift_x (c : K) (l : List (K × K)) :
    trapz (l.map fun p => (p.1 + c, p.2)) = trapz l := by
  induction l with
  | nil => simp
  | cons p l ih =>
    cases l with
    | nil => simp
    | cons q l =>
      simp only [List.map_cons, trapz_cons_cons] at ih ⊢
      rw [ih]; ring

/-- **affine invariance**: sampling the profile `a·f((x − m)/s)` on the grid `m + s·u` gives
`a·s` times the trapezoid sum of `f` on the canonical grid `u` — the quadrature error of a default
sampling set does not depend on centre, width or amplitude -/
theorem trapz_affine (f : K → K) (a m s : K) (hs : s ≠ 0) (grid : List K) :
    trapz ((grid.map fun u => m + s * u).map fun x => (x, a * f ((x - m) / s))) =
      a * s * trapz (grid.map fun u => (u, f u)) := by
  have h1 : ((grid.map fun u => m + s * u).map fun x => (x, a * f ((x - m) / s))) =
      ((grid.map fun u => (u, f u)).map fun p => (s * p.1, a * p.2)).map fun p => (p.1 + m, p.2) := by
    simp only [List.map_map]
    apply List.map_congr_left
    intro u _
    simp only [Function.comp]
    have : (m + s * u - m) / s = u := by
      have : m + s * u - m = s * u := by ring
      rw [this]; field_simp
    rw [this]; congr 1; ring
  rw [h1, trapz_shift_x, trapz_scale_xy]; ring

end Synphot
