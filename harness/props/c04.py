"""C04  Sampling wavelengths: unit- and order-equivariant, invalid sets always rejected."""
import itertools
import math
from fractions import Fraction as F

from ..core import NP as np

from .. import core, objects as O
from ..core import q, qs, guarded, same, unq

ALPHABET = [-1.0, 0.0, 1.0, 2.0, 3.0]
SCALE = 1000.0          # lattice symbols are multiplied by this (wavelengths 1000, 2000, 3000 Angstrom)
WAVE_ERRS = ('ZeroWavelength', 'UnsortedWavelength', 'DuplicateWavelength')
# entry points that sample the binned observation: their wavelengths must hit bin centres exactly
BINNED_ENTRIES = ('observation.sample_binned', 'observation.countrate(binned)', 'observation.countrate(binned, waverange)',
                  'observation.effective_wavelength(binned)')
UNITS = ['AA_number', 'AA', 'nm', 'micron', 'm', 'cm', 'km', 'Hz', 'THz', '1/micron', '1/cm']
C = float(O.C)


def fixtures():
    from synphot import SourceSpectrum, SpectralElement, Observation
    from synphot.models import Empirical1D
    src = SourceSpectrum(Empirical1D, points=[500., 1500., 2500., 3500., 5000.], lookup_table=[1., 3., 2., 4., 1.])
    bp = SpectralElement(Empirical1D, points=[800., 1200., 2200., 3200., 4000.], lookup_table=[0., 0.5, 1., 0.25, 0.])
    obs = Observation(src, bp, binset=np.array([1000., 1500., 2000., 2500., 3000.]))
    return src, bp, obs


def entry_points():
    """name -> callable(wavelengths) for every public operation that accepts sampling wavelengths"""
    import astropy.units as u
    from synphot import units, binning, Observation
    src, bp, obs = fixtures()
    area = 100.0
    from synphot import SourceSpectrum, SpectralElement
    from synphot.models import ConstFlux1D, PowerLawFlux1D, Box1D
    flat = SourceSpectrum(ConstFlux1D, amplitude=1e-15 * units.FLAM)
    plaw = SourceSpectrum(PowerLawFlux1D, amplitude=2.0, x_0=2000, alpha=2)
    boxbp = SpectralElement(Box1D, amplitude=0.5, x_0=2500, width=800)
    from synphot.models import Empirical1D
    halfsrc = SourceSpectrum(Empirical1D, points=[500., 1500., 2500., 3500., 5000.], lookup_table=[0., 3., 2., 4., 1.])
    # every model class that brings its own analytic integral takes the given wavelengths as limits
    from synphot.models import Gaussian1D, GaussianFlux1D, Lorentz1D, RickerWavelet1D, Trapezoid1D, GaussianAbsorption1D  # noqa
    anal = {
        'gaussian_bandpass': SpectralElement(Gaussian1D, amplitude=0.8, mean=2500, stddev=150),
        'gaussflux_source': SourceSpectrum(GaussianFlux1D, amplitude=3.0, mean=2400, stddev=120),
        'lorentz_bandpass': SpectralElement(Lorentz1D, amplitude=0.6, x_0=2600, fwhm=300),
        'lorentz_source': SourceSpectrum(Lorentz1D, amplitude=2.0, x_0=2300, fwhm=180),
        'ricker_source': SourceSpectrum(RickerWavelet1D, amplitude=1.5, x_0=2500, sigma=40),
        'trapezoid_bandpass': SpectralElement(Trapezoid1D, amplitude=0.7, x_0=2500, width=600, slope=0.002),
    }
    ep = {}
    for name, sp in anal.items():
        ep[name + '.integrate(analytical)'] = (lambda w, sp=sp: sp.integrate(wavelengths=w, integration_type='analytical').value)
    ep['lorentz_bandpass.equivwidth(analytical)'] = lambda w: anal['lorentz_bandpass'].equivwidth(wavelengths=w, integration_type='analytical').value
    # tables covering only the middle of the wavelength sets: the samples beyond their ends are held at the end values
    narrow_src = SourceSpectrum(Empirical1D, points=[1800., 2200., 2600., 3100.], lookup_table=[1.5, 3., 2., 0.5])
    narrow_bp = SpectralElement(Empirical1D, points=[1700., 2100., 2900., 3300.], lookup_table=[0.25, 0.75, 1., 0.5])
    ep['narrow_source.__call__'] = lambda w: narrow_src(w).value
    ep['narrow_source.__call__(flux_unit)'] = lambda w: narrow_src(w, flux_unit='fnu').value
    ep['narrow_source.integrate'] = lambda w: narrow_src.integrate(wavelengths=w, integration_type='trapezoid').value
    ep['narrow_bandpass.__call__'] = lambda w: narrow_bp(w).value
    ep['narrow_bandpass.avgwave'] = lambda w: narrow_bp.avgwave(wavelengths=w).value
    ep.update({
        'source.__call__': lambda w: src(w).value,
        'source.__call__(flux_unit)': lambda w: src(w, flux_unit='flam').value,
        'source.integrate': lambda w: src.integrate(wavelengths=w, integration_type='trapezoid').value,
        'flat_source.integrate(analytical)': lambda w: flat.integrate(wavelengths=w, integration_type='analytical').value,
        'powerlaw_source.integrate(analytical)': lambda w: plaw.integrate(wavelengths=w, integration_type='analytical').value,
        'box_bandpass.integrate(analytical)': lambda w: boxbp.integrate(wavelengths=w, integration_type='analytical').value,
        'source.avgwave': lambda w: src.avgwave(wavelengths=w).value,
        'source.barlam': lambda w: src.barlam(wavelengths=w).value,
        'source.pivot': lambda w: src.pivot(wavelengths=w).value,
        'source.taper': lambda w: src.taper(wavelengths=w)(np.array([700., 1700., 2700.])).value,
        'half_tapered_source.taper': lambda w: halfsrc.taper(wavelengths=w)(np.array([300., 700., 1700., 2700., 5500., 9000.])).value,
        'bandpass.__call__': lambda w: bp(w).value,
        'bandpass.integrate': lambda w: bp.integrate(wavelengths=w, integration_type='trapezoid').value,
        'bandpass.avgwave': lambda w: bp.avgwave(wavelengths=w).value,
        'bandpass.barlam': lambda w: bp.barlam(wavelengths=w).value,
        'bandpass.pivot': lambda w: bp.pivot(wavelengths=w).value,
        'bandpass.taper': lambda w: bp.taper(wavelengths=w)(np.array([900., 1700., 2700.])).value,
        'bandpass.check_overlap': lambda w: bp.check_overlap(src, wavelengths=w),
        'bandpass.unit_response': lambda w: bp.unit_response(area, wavelengths=w).value,
        'bandpass.rmswidth': lambda w: bp.rmswidth(wavelengths=w).value,
        'bandpass.photbw': lambda w: bp.photbw(wavelengths=w).value,
        'bandpass.fwhm': lambda w: bp.fwhm(wavelengths=w).value,
        'bandpass.tlambda': lambda w: bp.tlambda(wavelengths=w).value,
        'bandpass.tpeak': lambda w: bp.tpeak(wavelengths=w).value,
        'bandpass.wpeak': lambda w: bp.wpeak(wavelengths=w).to(u.AA, u.spectral()).value,
        'bandpass.equivwidth': lambda w: bp.equivwidth(wavelengths=w).value,
        'bandpass.rectwidth': lambda w: bp.rectwidth(wavelengths=w).value,
        'bandpass.efficiency': lambda w: bp.efficiency(wavelengths=w).value,
        'bandpass.emflx': lambda w: bp.emflx(area, wavelengths=w).value,
        'Observation(binset)': lambda w: Observation(src, bp, binset=w, force='extrap').binflux.value,
        'observation.__call__': lambda w: obs(w).value,
        'observation.sample_binned': lambda w: obs.sample_binned(wavelengths=w).value,
        'observation.effstim': lambda w: obs.effstim('flam', wavelengths=w).value,
        'observation.countrate(binned)': lambda w: obs.countrate(area, wavelengths=w).value,
        'observation.countrate(binned, waverange)': lambda w: obs.countrate(area, wavelengths=w, waverange=[1500.25, 2500.25], force=True).value,
        'observation.countrate(unbinned, waverange)': lambda w: obs.countrate(area, binned=False, wavelengths=w, waverange=[1500.25, 2500.25], force=True).value,
        'observation.countrate(unbinned)': lambda w: obs.countrate(area, binned=False, wavelengths=w).value,
        'observation.effective_wavelength(binned)': lambda w: obs.effective_wavelength(wavelengths=w).value,
        'observation.effective_wavelength(unbinned)': lambda w: obs.effective_wavelength(binned=False, wavelengths=w).value,
        'source.normalize': lambda w: src.normalize(1e-15 * units.FLAM, band=bp, wavelengths=w)(np.array([1700., 2700.])).value,
        'units.convert_flux': lambda w: units.convert_flux(w, np.ones(np.size(w)) * units.PHOTLAM, units.FLAM).value,
        'units.convert_flux(count)': lambda w: units.convert_flux(w, np.ones(np.size(w)) * units.PHOTLAM, u.count, area=area).value,
        # a geometric helper working in the unit of the centres (midpoints are not unit-invariant across
        # reciprocal units): compared in Angstrom for length units only
        'binning.calculate_bin_edges': lambda w: binning.calculate_bin_edges(w).to(u.AA).value
        if (not hasattr(w, 'unit') or w.unit.physical_type == 'length') else binning.calculate_bin_edges(w).value,
    })
    return ep


_EP = None


def ep():
    global _EP
    if _EP is None:
        _EP = entry_points()
    return _EP


def to_unit(vals_aa, unit):
    import astropy.units as u
    a = np.asarray(vals_aa, dtype=float)
    if unit == 'AA_number':
        return a
    if unit == 'AA':
        return a * u.AA
    if unit in ('nm', 'micron', 'm', 'cm', 'km'):
        return (a * u.AA).to(u.Unit(unit))
    if unit == 'Hz':
        return (C / a) * u.Hz
    if unit == 'THz':
        return (C / a / 1e12) * u.THz
    if unit == '1/micron':
        return (1e4 / a) * u.micron ** -1
    if unit == '1/cm':
        return (1e8 / a) * u.cm ** -1
    raise KeyError(unit)


def impl_call(case):
    op = case['op']
    if op == 'reject':
        w = np.array([O.fl(x) for x in case['w']])
        if case.get('dtype'):
            w = w.astype(case['dtype'])     # the same numbers held in another array type
        if case.get('scalar'):
            w = float(w[0])
        if case.get('unit'):
            w = to_unit(w, case['unit']) if np.all(np.asarray(w) != 0) else w
        return guarded(lambda: ep()[case['entry']](w))
    if op == 'bad_unit':
        import astropy.units as u
        w = np.array([1000., 2000., 3000.]) * u.Unit(case['unit'])
        return guarded(lambda: ep()[case['entry']](w))
    if op == 'equivariance':
        base = np.array([O.fl(x) for x in case['w']])
        res = {}
        for unit in case['units']:
            for order in ('asc', 'desc'):
                aa = base if order == 'asc' else base[::-1]
                w = to_unit(aa, unit)
                r = guarded(lambda: ep()[case['entry']](w))
                if 'ok' in r and isinstance(r['ok'], list) and order == 'desc' and len(r['ok']) == len(base) \
                        and case['entry'] not in ('source.taper', 'bandpass.taper', 'half_tapered_source.taper', 'source.normalize', 'Observation(binset)',
                                                  'binning.calculate_bin_edges'):
                    r['ok'] = r['ok'][::-1]          # values come back in the caller's order
                elif 'ok' in r and order == 'desc' and case['entry'] == 'binning.calculate_bin_edges':
                    r['ok'] = r['ok'][::-1]
                res['%s/%s' % (unit, order)] = r
        return {'ok': res}
    raise KeyError(op)


def model_case(case):
    if case['op'] == 'reject':
        return {'op': 'validate', 'w': case['w']}
    return None


def compare(case, o, m):
    # model: the verdict of validate_wavelengths on the array; every entry point must report exactly that verdict
    if 'err' in m:
        if len(case['w']) < 2 and case['entry'] in ('binning.calculate_bin_edges', 'units.convert_flux(count)'):
            return None if 'err' in o else 'entry point %s returned a value for %s' % (case['entry'], case['w'])
        if case['entry'].startswith('units.convert_flux'):
            return None     # known finding F10: not validated there; reported through the oracle
        if o.get('err') != m['err']:
            return 'entry point %s: %s, validation says %s' % (case['entry'], o.get('err') or 'returned a value', m['err'])
        return None
    if o.get('err') in WAVE_ERRS and not (len(case['w']) == 1 and case['entry'] in ('bandpass.tlambda', 'bandpass.emflx')):
        return 'entry point %s rejects a valid array with %s' % (case['entry'], o['err'])
    return None


def expected_error(vals):
    if any(v <= 0 for v in vals):
        return 'ZeroWavelength'
    asc = all(vals[i] <= vals[i + 1] for i in range(len(vals) - 1))
    desc = all(vals[i] >= vals[i + 1] for i in range(len(vals) - 1))
    if not asc and not desc:
        return 'UnsortedWavelength'
    if any(vals[i] == vals[i + 1] for i in range(len(vals) - 1)):
        return 'DuplicateWavelength'
    return None


def oracle(rep, case, out):
    op = case['op']
    if op == 'reject':
        vals = [O.fl(x) for x in case['w']]
        want = expected_error(vals)
        short = len(vals) < 2 and case['entry'] in ('binning.calculate_bin_edges', 'units.convert_flux(count)')
        if want is not None and short:
            if 'ok' in out:
                rep.oracle_fail('reject:%s:%s:returned' % (case['entry'], want), 'invalid wavelengths %s returned a value' % vals, case, out)
        elif want is not None:
            if out.get('err') != want:
                rep.oracle_fail('reject:%s:%s:%s' % (case['entry'], want, out.get('err') or 'returned'),
                                'invalid wavelengths %s: expected %s, got %s' % (vals, want, out.get('err') or 'a value'), case, out)
        elif out.get('err') in WAVE_ERRS and not (len(vals) == 1 and case['entry'] in ('bandpass.tlambda', 'bandpass.emflx')):
            # (a single sample has no average wavelength: tlambda / emflx then sample the bandpass at 0)
            rep.oracle_fail('reject:%s:valid_rejected:%s' % (case['entry'], out['err']), 'valid wavelengths %s rejected' % vals, case, out)
        return
    if op == 'bad_unit':
        if out.get('err') not in ('UnitError', 'SynphotError'):
            rep.oracle_fail('bad_unit:%s:%s:%s' % (case['entry'], case['unit'], out.get('err') or 'returned'),
                            'a wavelength Quantity in %s must be rejected with a unit error' % case['unit'], case, out)
        return
    res = out['ok']
    ref = res.get('AA_number/asc')
    if case['entry'] == 'bandpass.wpeak':
        # "the" peak wavelength is defined only when the peak is attained at one sample: with an exact tie the first
        # sample in the order given is returned, so the answer follows the order by design (C11: wpeak_reverse_of_unique)
        _, bp, _ = fixtures()
        y = bp(np.array([O.fl(x) for x in case['w']])).value
        if np.sum(y == y.max()) > 1:
            return
    for key, r in res.items():
        if ('err' in r) != ('err' in ref) or ('err' in r and r['err'] != ref['err']):
            rep.oracle_fail('equivariance:%s:%s:outcome' % (case['entry'], key.split('/')[0] + '/' + key.split('/')[1]),
                            '%s gives %s, Angstrom ascending gives %s' % (key, r.get('err') or 'a value', ref.get('err') or 'a value'), case, r)
            return
        if 'ok' in r:
            d = same(r['ok'], jsonable(ref['ok']), rtol=1e-9, atol=1e-12 * scale_of(ref['ok'])) if not isinstance(r['ok'], str) else (
                None if r['ok'] == ref['ok'] else 'differs')
            if d:
                rep.oracle_fail('equivariance:%s:%s:value' % (case['entry'], key), '%s differs from Angstrom ascending: %s' % (key, d), case, r)
                return


def jsonable(v):
    """reference values as exact rationals so that `same` can compare floats against them"""
    if isinstance(v, list):
        return [jsonable(x) for x in v]
    if isinstance(v, float):
        return q(v)
    return v


def scale_of(v):
    if isinstance(v, list):
        return max([scale_of(x) for x in v] + [0.0])
    if isinstance(v, (int, float)):
        return abs(v)
    return 0.0


# ------------------------------------------------------------------ generators
def reject_cases():
    out = []
    arrays = []
    for n in (1, 2, 3, 4):
        for t in itertools.product(ALPHABET, repeat=n):
            arrays.append([x * SCALE for x in t])
    for entry in entry_points_names():
        for a in arrays:
            out.append({'op': 'reject', 'entry': entry, 'w': qs(a)})
            # the same numbers in other array types (all entries are whole numbers, so unsigned types hold the
            # non-negative ones exactly)
            if len(a) >= 2:
                for dt in (('uint16', 'uint32', 'uint64') if all(x >= 0 for x in a) else ()) + ('int32', 'int64', 'float32'):
                    out.append({'op': 'reject', 'entry': entry, 'w': qs(a), 'dtype': dt})
            # the same numbers as a Quantity (the spelling of the unit must not open a way around validation)
            if len(a) <= 3 and all(x != 0 for x in a):
                for unit in ('AA', 'nm'):
                    if unit == 'nm' and entry in BINNED_ENTRIES:
                        continue        # bin centres must be hit exactly
                    out.append({'op': 'reject', 'entry': entry, 'w': qs(a), 'unit': unit})
    return out


def entry_points_names():
    return list(ep().keys())


def gen_equivariance(rng, count):
    names = entry_points_names()
    out = []
    for _ in range(count):
        n = rng.randint(3, 8)
        w = sorted({float(O.dy(rng, 900, 3900, 0)) for _ in range(n)})
        fine = rng.random() < 0.25
        if fine:
            # finely sampled: neighbours 2^-4 .. 2^-10 Angstrom apart (still > 1e6 ulp apart in every unit)
            w0, dw = float(O.dy(rng, 900, 3900, 0)), 2.0 ** -rng.randint(4, 10)
            w = [w0 + i * dw for i in range(n)]
        if len(w) < 3:
            continue
        entry = rng.choice(names)
        if fine and 'analytical' in entry and not entry.startswith(('flat_', 'powerlaw_', 'box_')):
            # a closed form evaluated as a difference of two nearly equal terms (arctan, erf) over a span of a few
            # thousandths of an Angstrom amplifies the one-ulp difference between unit spellings beyond the tolerance:
            # conditioning, not equivariance
            continue
        if entry in BINNED_ENTRIES:
            w = sorted(rng.sample([1000., 1500., 2000., 2500., 3000.], rng.randint(3 if 'waverange' in entry else 2, 5)))
        units = ['AA_number'] + rng.sample(UNITS[1:7] if entry == 'binning.calculate_bin_edges' else UNITS[1:], 3)
        if fine and rng.random() < 0.7:
            units[1] = rng.choice(['m', 'km', 'cm'])       # large length units make fine spacings numerically tiny
        if entry in BINNED_ENTRIES:
            # binned samples exist only exactly at the bin centres: keep the units whose round trip to Angstrom is exact
            import astropy.units as u
            units = [x for x in units if x == 'AA_number' or
                     np.array_equal(to_unit(w, x).to(u.AA, u.spectral()).value, np.asarray(w))]
        out.append({'op': 'equivariance', 'entry': entry, 'w': qs(w), 'units': units})
    return out


def run(rep):
    thorough = rep.tier == 'thorough'
    rng = rep.rng('c04')
    cases = core.load_corpus('C04')
    rej = reject_cases()
    cases += rej
    for entry in entry_points_names():
        for unit in ('kg', 's', 'K', 'Jy'):
            cases.append({'op': 'bad_unit', 'entry': entry, 'unit': unit})
    # the rejection half also in other units and as scalars, sampled
    for _ in range(4000 if thorough else 600):
        c = dict(rng.choice(rej))
        if rng.random() < 0.7:
            c['unit'] = rng.choice(UNITS[1:])
        else:
            c['w'] = c['w'][:1]
            c['scalar'] = True
        cases.append(c)
    cases += gen_equivariance(rng, 20000 if thorough else 1500)
    rep.extra['entry_points'] = len(entry_points_names())
    rep.extra['rejection_arrays'] = len(rej) // len(entry_points_names())
    rep.exhaustive = False
    rep.rule = ('rejection half, exhaustive: all arrays of length 1..4 over {-1000, 0, 1000, 2000, 3000} x every public entry point with a '
                'sampling-wavelength argument (%d of them), plus the same arrays in other wavelength units / as scalars (sampled) and '
                'the same arrays held as uint16/32/64, int32/64 and float32 arrays; the same arrays (up to 3 entries) as Quantities in Angstrom and nm; Quantities in units that are no wavelength; equivariance half: each entry point on random valid grids in Angstrom numbers '
                'and three of {AA, nm, micron, m, cm, km, Hz, THz, 1/micron, 1/cm} x ascending/descending, compared pairwise; a quarter of the grids finely sampled (2^-4 .. 2^-10 Angstrom spacing). '
                'Non-trivial: the array is invalid (must be rejected) or the operation returned a value in every unit and order.' % len(entry_points_names()))

    def tags(c, o):
        return [c['op'], 'outcome:' + (o.get('err') or 'ok')]

    def nontrivial(c, o):
        if c['op'] == 'reject':
            return expected_error([O.fl(x) for x in c['w']]) is not None
        return 'ok' in o
    core.run_cases(rep, cases, impl_call, model_case, oracle, tags_fn=tags, nontrivial_fn=nontrivial, compare_fn=compare)


def search(rep, mismatches):
    sub = core.Report(rep.pid, 'thorough', rep.seed + 1)
    cases = reject_cases()
    impl = core.pmap(impl_call, cases)
    for c, o in zip(cases, impl):
        oracle(sub, c, o)
    return sub.oracle_failures


def replay(rep, payload):
    core.run_cases(rep, [payload['case']], impl_call, model_case, oracle, compare_fn=compare)
