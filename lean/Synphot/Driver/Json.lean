/-
  JSON line protocol helpers for the correspondence driver (K = ℚ).
  Rationals travel as strings "n/d" (or "n"); everything else is plain JSON.
-/
import Lean.Data.Json
import Mathlib.Algebra.Order.Field.Rat
import Mathlib.Data.Rat.Floor
import Synphot.Core.Basic

open Lean

namespace Synphot.Driver

def parseInt? (s : String) : Option Int := s.toInt?

def parseRat? (s : String) : Option Rat :=
  match s.splitOn "/" with
  | [n] => (parseInt? n).map fun i => (i : Rat)
  | [n, d] => do
      let n ← parseInt? n
      let d ← d.toNat?
      if d = 0 then none else some (mkRat n d)
  | _ => none

def ratStr (q : Rat) : String :=
  if q.den = 1 then toString q.num else s!"{q.num}/{q.den}"

/-- results are compared at rtol ≥ 1e-12: a rational whose denominator has grown beyond 512 bits is
reported rounded to 192 significant bits (relative error < 2⁻¹⁹⁰), which keeps lines short -/
def compactRat (q : Rat) : Rat :=
  if q.den.log2 ≤ 512 then q else
  let n := q.num.natAbs
  let shift : Int := 192 - (n.log2 : Int) + (q.den.log2 : Int)
  let m : Nat := if shift ≥ 0 then (n <<< shift.toNat) / q.den else n / (q.den <<< (-shift).toNat)
  let v : Rat := if shift ≥ 0 then mkRat m (2 ^ shift.toNat) else ((m * 2 ^ (-shift).toNat : Nat) : Rat)
  if q.num < 0 then -v else v

def jRat (q : Rat) : Json := Json.str (ratStr (compactRat q))
def jRats (l : List Rat) : Json := Json.arr (l.map jRat).toArray

abbrev M := Except String

def getField (j : Json) (k : String) : M Json :=
  match j.getObjVal? k with
  | .ok v => .ok v
  | .error _ => .error s!"missing field {k}"

def asRat (j : Json) : M Rat :=
  match j with
  | .str s => match parseRat? s with
      | some q => .ok q
      | none => .error s!"bad rational {s}"
  | .num n => .ok (mkRat n.mantissa (10 ^ n.exponent))
  | _ => .error "expected rational"

def asRats (j : Json) : M (List Rat) :=
  match j with
  | .arr a => a.toList.mapM asRat
  | _ => .error "expected array of rationals"

def asInt (j : Json) : M Int :=
  match j.getInt? with
  | .ok i => .ok i
  | .error _ => .error "expected int"

def asNat (j : Json) : M Nat := do
  let i ← asInt j
  if i < 0 then .error "expected nat" else .ok i.toNat

def asStr (j : Json) : M String :=
  match j with
  | .str s => .ok s
  | _ => .error "expected string"

def asBool (j : Json) : M Bool :=
  match j with
  | .bool b => .ok b
  | _ => .error "expected bool"

def asArr (j : Json) : M (List Json) :=
  match j with
  | .arr a => .ok a.toList
  | _ => .error "expected array"

def fRat (j : Json) (k : String) : M Rat := getField j k >>= asRat
def fRats (j : Json) (k : String) : M (List Rat) := getField j k >>= asRats
def fInt (j : Json) (k : String) : M Int := getField j k >>= asInt
def fNat (j : Json) (k : String) : M Nat := getField j k >>= asNat
def fStr (j : Json) (k : String) : M String := getField j k >>= asStr
def fBool (j : Json) (k : String) : M Bool := getField j k >>= asBool
def fArr (j : Json) (k : String) : M (List Json) := getField j k >>= asArr
def fOpt (j : Json) (k : String) : Option Json :=
  match j.getObjVal? k with
  | .ok .null => none
  | .ok v => some v
  | .error _ => none

/-- canonical outcome of a raising operation -/
def outcome {α : Type} (f : α → Json) : Except Synphot.Err α → Json
  | .ok a => Json.mkObj [("ok", f a)]
  | .error e => Json.mkObj [("err", Json.str e.name)]

end Synphot.Driver
