import Synphot.Driver.Objects
import Synphot.Core.Trapz

open Lean Synphot

namespace Synphot.Driver

/-- one step of a redshift history on a `SourceSpectrum` built from one leaf -/
def stepC05 (E : Env Rat) (thr : Rat) (base : Tree Rat) (zs : ZState Rat) (j : Json) :
    M (ZState Rat × Json) := do
  let kind ← fStr j "do"
  match kind with
  | "set_z" => do
      let z ← fRat j "z"
      pure (zs.setZ z, Json.mkObj [("ok", Json.null)])
  | "set_z_bad" => pure (zs, Json.mkObj [("err", Json.str Err.synphotError.name)])
  | "set_ztype" => do
      let t ← fStr j "t"
      match t with
      | "wavelength_only" => pure (zs.setZType .wavelengthOnly, Json.mkObj [("ok", Json.null)])
      | "conserve_flux" => pure (zs.setZType .conserveFlux, Json.mkObj [("ok", Json.null)])
      | _ => pure (zs, Json.mkObj [("err", Json.str Err.synphotError.name)])
  | "sample" => do
      let xs ← fRats j "xs"
      let r : Except Err (List Rat) := do
        let m ← zs.model base
        xs.mapM (m.eval E)
      pure (zs, outcome jRats r)
  | "waveset" => do
      let r : Except Err (Option (List Rat)) := do
        let m ← zs.model base
        m.waveset thr
      pure (zs, match r with
        | .error e => Json.mkObj [("err", Json.str e.name)]
        | .ok none => Json.mkObj [("ok", Json.null)]
        | .ok (some w) => Json.mkObj [("ok", jRats w)])
  | "integrate" => do
      -- trapezoid integration over the optimal sampling set: |trapz(|y|, x)|
      let r : Except Err Rat := do
        let m ← zs.model base
        match ← m.waveset thr with
        | none => .error .synphotError
        | some w => do
            let y ← w.mapM (m.eval E)
            pure |trapzXY w (y.map fun v => |v|)|
      pure (zs, outcome jRat r)
  | s => .error s!"unknown history step {s}"

def dispatchC05M (op : String) (j : Json) : M Json := do
  match op with
  | "z_history" => do
      let E ← envOf j
      let thr ← fRat j "thr"
      -- the operand: one primitive spectrum, or the source an expression program yields (a composite)
      let pj ← getField j "prim"
      let prim ← match fOpt pj "prim" with
        | some _ => parsePrim pj
        | none => do
            match (← evalExpr pj) with
            | .ok (.spec s) => pure s
            | _ => throw "z_history operand is not a spectrum"
      let steps ← fArr j "steps"
      let mut zs := prim.zs
      let mut outs : Array Json := #[]
      for s in steps do
        let (zs', o) ← stepC05 E thr prim.tree zs s
        zs := zs'
        outs := outs.push o
      pure (Json.mkObj [("ok", Json.arr outs)])
  | _ => .error s!"unknown op {op}"

def dispatchC05 (op : String) (j : Json) : Option (M Json) :=
  if op ∈ ["z_history"] then some (dispatchC05M op j) else none

end Synphot.Driver
