/-
  Synphot.Lemmas.C02x — helper lemmas for the deepened C02 theorems: the converse of
  `specOp_valueAt`, the shape of a program (`shape`, `Shape.type`) and `run_type`, the exception
  for operands that are never accepted (`rejectErr`), what `resultTree` depends on, and concrete
  objects for the non-vacuity examples.
-/
import Mathlib.Tactic.Ring
import Mathlib.Tactic.FieldSimp
import Mathlib.Tactic.NormNum
import Mathlib.Algebra.Order.Field.Rat
import Synphot.Lemmas.Spectrum

set_option linter.unusedSectionVars false
set_option linter.unusedSimpArgs false
set_option linter.unusedVariables false

namespace Synphot.C02x
open Synphot
variable {K : Type} [Field K] [LinearOrder K] [IsStrictOrderedRing K]

/-! ### evaluation, inverted -/

theorem eval_scale_ok {E : Env K} {m : Tree K} {k x v : K} (h : (Tree.scale m k).eval E x = .ok v) :
    ∃ a, m.eval E x = .ok a ∧ v = a * k := by
  simp only [Tree.eval] at h
  obtain ⟨a, ha, h⟩ := bind_ok h
  exact ⟨a, ha, by injection h with h; exact h.symm⟩

theorem evalAt_of {E : Env K} {s : Spec K} {m : Tree K} {x v : K} (hm : s.model = .ok m)
    (h : m.eval E x = .ok v) : s.evalAt E x = .ok v := by
  simp only [Spec.evalAt, hm, bind, Except.bind, h]

/-- converse of `specOp_valueAt`: where the result of an operator evaluates, both operands evaluate
and the result's value is the operator applied to theirs -/
theorem specOp_valueAt_conv (E : Env K) (op : BinOp) (self : Spec K) (o : Operand K) (r : Spec K)
    (x v : K) (h : specOp op self o = .ok r) (hr : r.evalAt E x = .ok v) :
    ∃ va vb, self.evalAt E x = .ok va ∧ o.valueAt E x = .ok vb ∧ op.apply va vb = .ok v := by
  obtain ⟨k, t, hk, ht, rfl⟩ := specOp_ok h
  rw [ofTree_evalAt] at hr
  unfold resultTree at ht
  split at ht
  · -- observation with a product model
    rename_i hkind htree
    have hop := typing_obs_mul (hkind ▸ hk); subst hop
    have hm : self.model = .ok self.tree := model_of_not_source self (by rw [hkind]; decide)
    cases o with
    | real w =>
      simp only at ht; cases ht
      obtain ⟨a, b, ha, hb, hab⟩ := eval_bin_ok hr
      obtain ⟨a0, ha0, rfl⟩ := eval_scale_ok ha
      refine ⟨a0 * b, w, evalAt_of hm (by rw [htree, eval_bin_of ha0 hb]; rfl), rfl, ?_⟩
      rw [apply_ok_mul hab, apply_mul]; congr 1; ring
    | quantity w =>
      simp only at ht; cases ht
      obtain ⟨a, b, ha, hb, hab⟩ := eval_bin_ok hr
      obtain ⟨a0, ha0, rfl⟩ := eval_scale_ok ha
      refine ⟨a0 * b, w, evalAt_of hm (by rw [htree, eval_bin_of ha0 hb]; rfl), rfl, ?_⟩
      rw [apply_ok_mul hab, apply_mul]; congr 1; ring
    | spec s =>
      simp only at ht
      obtain ⟨mb, hmb, ht⟩ := bind_ok ht
      cases ht
      obtain ⟨a, b, ha, hb, hab⟩ := eval_bin_ok hr
      obtain ⟨a1, b1, ha1, hb1, hab1⟩ := eval_bin_ok ha
      refine ⟨a1 * b, b1, evalAt_of hm (by rw [htree, eval_bin_of ha1 hb]; rfl),
        evalAt_of hmb hb1, ?_⟩
      rw [apply_ok_mul hab, apply_ok_mul hab1, apply_mul]; congr 1; ring
    | badQuantity => cases ht
    | complex => cases ht
    | other => cases ht
  · cases ht
  · rename_i hno1 hno2
    cases o with
    | real w =>
      rcases typing_scalar_op (Or.inl rfl) hk with rfl | rfl
      · simp only at ht
        obtain ⟨ma, hma, ht⟩ := bind_ok ht
        cases ht
        obtain ⟨a0, ha0, rfl⟩ := eval_scale_ok hr
        exact ⟨a0, w, evalAt_of hma ha0, rfl, rfl⟩
      · simp only at ht
        obtain ⟨ma, hma, ht⟩ := bind_ok ht
        split_ifs at ht with hw
        cases ht
        obtain ⟨a0, ha0, rfl⟩ := eval_scale_ok hr
        refine ⟨a0, w, evalAt_of hma ha0, rfl, ?_⟩
        simp only [BinOp.apply, hw, if_false]; congr 1; field_simp
    | quantity w =>
      rcases typing_scalar_op (Or.inr rfl) hk with rfl | rfl
      · simp only at ht
        obtain ⟨ma, hma, ht⟩ := bind_ok ht
        cases ht
        obtain ⟨a0, ha0, rfl⟩ := eval_scale_ok hr
        exact ⟨a0, w, evalAt_of hma ha0, rfl, rfl⟩
      · simp only at ht
        obtain ⟨ma, hma, ht⟩ := bind_ok ht
        split_ifs at ht with hw
        cases ht
        obtain ⟨a0, ha0, rfl⟩ := eval_scale_ok hr
        refine ⟨a0, w, evalAt_of hma ha0, rfl, ?_⟩
        simp only [BinOp.apply, hw, if_false]; congr 1; field_simp
    | spec s =>
      simp only at ht
      by_cases hsw : self.kind.isUnitless = true ∧ s.kind = .source
      · have hop : op = .mul := typing_swap_mul hsw.1 (by simpa [Operand.tag, hsw.2] using hk)
        subst hop
        simp only [hsw, and_self, if_true] at ht
        obtain ⟨mb, hmb, ht⟩ := bind_ok ht
        obtain ⟨ma, hma, ht⟩ := bind_ok ht
        cases ht
        obtain ⟨b, a, hb, ha, hab⟩ := eval_bin_ok hr
        refine ⟨a, b, evalAt_of hma ha, evalAt_of hmb hb, ?_⟩
        rw [apply_ok_mul hab, apply_mul, mul_comm]
      · simp only [hsw, if_false] at ht
        obtain ⟨ma, hma, ht⟩ := bind_ok ht
        obtain ⟨mb, hmb, ht⟩ := bind_ok ht
        cases ht
        obtain ⟨a, b, ha, hb, hab⟩ := eval_bin_ok hr
        exact ⟨a, b, evalAt_of hma ha, evalAt_of hmb hb, hab⟩
    | badQuantity => cases ht
    | complex => cases ht
    | other => cases ht

/-! ### the shape of a program: its operators and the classes of its leaves -/

/-- an expression with the values forgotten -/
inductive Shape
  | leaf (t : OTag)
  | bin (op : BinOp) (l r : Shape)
  deriving DecidableEq, Repr

def shape : Expr K → Shape
  | .operand o => .leaf o.tag
  | .bin op l r => .bin op (shape l) (shape r)

/-- the class of the result, computed from the classes of the leaves alone (`typing` at every node;
a plain real number on the left of `×` defers to the spectrum on the right) -/
def Shape.type : Shape → Except Err OTag
  | .leaf t => .ok t
  | .bin op l r => do
      let a ← l.type
      let b ← r.type
      match a, b with
      | .spec k, t => (typing op k t).map .spec
      | .real, .spec k =>
          match op with
          | .mul => (typing .mul k .real).map .spec
          | _ => .error .typeError
      | _, _ => .error .typeError

theorem specOp_tag {op : BinOp} {s : Spec K} {o : Operand K} {r : Spec K} (h : specOp op s o = .ok r) :
    typing op s.kind o.tag = .ok r.kind := by
  obtain ⟨k, t, hk, _, rfl⟩ := specOp_ok h
  exact hk

/-- the class of a program's result is the type of its shape -/
theorem run_type (p : Expr K) : ∀ o, p.run = .ok o → (shape p).type = .ok o.tag := by
  induction p with
  | operand o0 => intro o h; simp only [Expr.run] at h; cases h; rfl
  | bin op l r ihl ihr =>
    intro o h
    simp only [Expr.run] at h
    obtain ⟨a, hla, h⟩ := bind_ok h
    obtain ⟨b, hrb, h⟩ := bind_ok h
    simp only [shape, Shape.type, ihl a hla, ihr b hrb, bind, Except.bind]
    cases a with
    | spec s =>
      cases hs : specOp op s b with
      | error e => simp only [hs] at h; cases h
      | ok res =>
        simp only [hs] at h; cases h
        show Except.map OTag.spec (typing op s.kind b.tag) = .ok (Operand.spec res).tag
        rw [specOp_tag hs]; rfl
    | real w =>
      cases b with
      | spec s =>
        cases op with
        | mul =>
          cases hs : rmul w s with
          | error e => simp only [hs] at h; cases h
          | ok res =>
            simp only [hs] at h; cases h
            have := specOp_tag (show specOp .mul s (.real w) = .ok res from hs)
            show Except.map OTag.spec (typing .mul s.kind .real) = .ok (Operand.spec res).tag
            rw [show typing .mul s.kind .real = .ok res.kind from this]; rfl
        | add => cases h
        | sub => cases h
        | div => cases h
      | real _ => cases h
      | quantity _ => cases h
      | badQuantity => cases h
      | complex => cases h
      | other => cases h
    | quantity _ => cases h
    | badQuantity => cases h
    | complex => cases h
    | other => cases h

/-! ### operands that are never accepted -/

/-- the exception a spectrum of kind `k` raises for an operand that is no spectrum and no real scalar -/
def rejectErr (op : BinOp) (k : Kind) : Err :=
  match k, op with
  | .source, _ => .incompatibleSources
  | .observation, .mul => .incompatibleSources
  | .observation, _ => .notImplemented
  | _, .add => .notImplemented
  | _, .sub => .notImplemented
  | _, _ => .incompatibleSources

theorem typing_invalid (op : BinOp) (k : Kind) (t : OTag)
    (ht : t = .complex ∨ t = .badQuantity ∨ t = .other) :
    typing op k t = .error (rejectErr op k) := by
  rcases ht with rfl | rfl | rfl <;> cases op <;> cases k <;> rfl

/-! ### frame: what the result depends on -/

theorem resultTree_congr_left (op : BinOp) (s s' : Spec K) (o : Operand K) (hk : s.kind = s'.kind)
    (hm : s.model = s'.model) : resultTree op s o = resultTree op s' o := by
  by_cases hobs : s.kind = .observation
  · have h1 := model_of_not_source s (by rw [hobs]; decide)
    have h2 := model_of_not_source s' (by rw [← hk, hobs]; decide)
    rw [h1, h2] at hm
    injection hm with hm
    unfold resultTree
    rw [← hk, hm, hobs]
    split <;> first | rfl | simp_all
  · have hobs' : s'.kind ≠ .observation := by rw [← hk]; exact hobs
    have gen : ∀ u : Spec K, u.kind ≠ .observation → resultTree op u o =
        (match o with
        | .real v | .quantity v =>
            match op with
            | .mul => do let a ← u.model; pure (.scale a v)
            | .div => do
                let a ← u.model
                if v = 0 then .error .zeroDivision else pure (.scale a (1 / v))
            | _ => .error .incompatibleSources
        | .spec s => do
            if u.kind.isUnitless ∧ s.kind = .source then do
              let b ← s.model
              let a ← u.model
              pure (.bin op b a)
            else do
              let a ← u.model
              let b ← s.model
              pure (.bin op a b)
        | _ => .error .incompatibleSources) := by
      intro u hu
      unfold resultTree
      split
      · rename_i h _; exact absurd h hu
      · rename_i h _; exact absurd h hu
      · rfl
    rw [gen s hobs, gen s' hobs', hk, hm]

theorem resultTree_congr_right (op : BinOp) (self s s' : Spec K) (hk : s.kind = s'.kind)
    (hm : s.model = s'.model) : resultTree op self (.spec s) = resultTree op self (.spec s') := by
  unfold resultTree
  split
  · simp only [hm]
  · rfl
  · simp only [hm, hk]


/-! ### concrete objects for the non-vacuity examples -/

/-- any functions will do: the examples use none of them -/
def exT : Transc ℚ :=
  { log10 := id, pow10 := id, ln := id, exp := id, expm1 := id, sqrt := id, atan := id,
    rpow := fun x _ => x, pi := 3, sin := id, cos := id }
def exE : Env ℚ := { P := { h := 1, c := 1, stZero := 1, abZero := 1, jyFnu := 1 }, T := exT }

/-- two flat sources (6 and 4), a flat bandpass (1/2), a reddening curve (1/4), and the observation of
the first source through the bandpass -/
def srcA : Spec ℚ := Spec.ofTree .source (.leaf (.const1 6))
def srcB : Spec ℚ := Spec.ofTree .source (.leaf (.const1 4))
def band : Spec ℚ := Spec.ofTree .bandpass (.leaf (.const1 (1/2)))
def redd : Spec ℚ := Spec.ofTree .reddening (.leaf (.const1 (1/4)))
def obsA : Spec ℚ := Spec.ofTree .observation (.bin .mul (.leaf (.const1 6)) (.leaf (.const1 (1/2))))

/-- a source that is a box (1 on [2, 4]) redshifted by z = 1: it is 1 on [4, 8] -/
def boxZ : Spec ℚ :=
  { kind := .source, tree := .leaf (.box 1 3 2 none), zs := ZState.init 1 .wavelengthOnly }

theorem ofTree_ok_model (k : Kind) (t : Tree ℚ) : (Spec.ofTree k t).model = .ok t := ofTree_model k t

theorem srcA_val (x : ℚ) : srcA.evalAt exE x = .ok 6 := by rw [srcA, ofTree_evalAt]; rfl
theorem srcB_val (x : ℚ) : srcB.evalAt exE x = .ok 4 := by rw [srcB, ofTree_evalAt]; rfl
theorem band_val (x : ℚ) : band.evalAt exE x = .ok (1/2) := by rw [band, ofTree_evalAt]; rfl
theorem redd_val (x : ℚ) : redd.evalAt exE x = .ok (1/4) := by rw [redd, ofTree_evalAt]; rfl
theorem obsA_val (x : ℚ) : obsA.evalAt exE x = .ok (6 * (1/2)) := by rw [obsA, ofTree_evalAt]; rfl

/-- results of single operators on these objects (the model computes them) -/
theorem ex_src_mul_band : specOp .mul srcA (.spec band) =
    .ok (Spec.ofTree .source (.bin .mul (.leaf (.const1 6)) (.leaf (.const1 (1/2))))) := by
  simp [specOp, typing, resultTree, srcA, band, Spec.ofTree, Operand.tag, Kind.isUnitless, Spec.model,
    ZState.model, ZState.init, bind, Except.bind, pure, Except.pure]

theorem ex_band_mul_redd : specOp .mul band (.spec redd) =
    .ok (Spec.ofTree .bandpass (.bin .mul (.leaf (.const1 (1/2))) (.leaf (.const1 (1/4))))) := by
  simp [specOp, typing, resultTree, redd, band, Spec.ofTree, Operand.tag, Kind.isUnitless, Spec.model,
    ZState.model, ZState.init, bind, Except.bind, pure, Except.pure]

theorem ex_redd_mul_band : specOp .mul redd (.spec band) =
    .ok (Spec.ofTree .reddening (.bin .mul (.leaf (.const1 (1/4))) (.leaf (.const1 (1/2))))) := by
  simp [specOp, typing, resultTree, redd, band, Spec.ofTree, Operand.tag, Kind.isUnitless, Spec.model,
    ZState.model, ZState.init, bind, Except.bind, pure, Except.pure]

theorem ex_src_add_src : specOp .add srcA (.spec srcB) =
    .ok (Spec.ofTree .source (.bin .add (.leaf (.const1 6)) (.leaf (.const1 4)))) := by
  simp [specOp, typing, resultTree, srcA, srcB, Spec.ofTree, Operand.tag, Kind.isUnitless, Spec.model,
    ZState.model, ZState.init, bind, Except.bind, pure, Except.pure]

theorem ex_rmul : rmul 3 srcA = .ok (Spec.ofTree .source (.scale (.leaf (.const1 6)) 3)) := by
  simp [rmul, specOp, typing, resultTree, srcA, Spec.ofTree, Operand.tag, Spec.model,
    ZState.model, ZState.init, bind, Except.bind, pure, Except.pure]

theorem ex_obs_mul : specOp .mul obsA (.real 3) =
    .ok (Spec.ofTree .observation (.bin .mul (.scale (.leaf (.const1 6)) 3) (.leaf (.const1 (1/2))))) := by
  simp [specOp, typing, resultTree, obsA, Spec.ofTree, Operand.tag, bind, Except.bind, pure, Except.pure]


theorem ex_srcB_add_srcA : specOp .add srcB (.spec srcA) =
    .ok (Spec.ofTree .source (.bin .add (.leaf (.const1 4)) (.leaf (.const1 6)))) := by
  simp [specOp, typing, resultTree, srcA, srcB, Spec.ofTree, Operand.tag, Kind.isUnitless, Spec.model,
    ZState.model, ZState.init, bind, Except.bind, pure, Except.pure]

/-- `2 * (obs * band)`: a reflected scalar around an observation times a bandpass -/
def exProg : Expr ℚ :=
  .bin .mul (.operand (.real 2)) (.bin .mul (.operand (.spec obsA)) (.operand (.spec band)))

theorem exProg_run : exProg.run = .ok (.spec (Spec.ofTree .observation
    (.bin .mul (.scale (.bin .mul (.leaf (.const1 6)) (.leaf (.const1 (1/2)))) 2) (.leaf (.const1 (1/2)))))) := by
  simp [exProg, Expr.run, rmul, specOp, typing, resultTree, srcA, srcB, obsA, band, redd, Spec.ofTree, Operand.tag, Kind.isUnitless, Spec.model,
    ZState.model, ZState.init, bind, Except.bind, pure, Except.pure, Except.map]

/-- `(srcA + srcB) * band` and `srcA * band + srcB * band` -/
def exDistL : Expr ℚ :=
  .bin .mul (.bin .add (.operand (.spec srcA)) (.operand (.spec srcB))) (.operand (.spec band))
def exDistR : Expr ℚ :=
  .bin .add (.bin .mul (.operand (.spec srcA)) (.operand (.spec band)))
    (.bin .mul (.operand (.spec srcB)) (.operand (.spec band)))

theorem exDistL_run : exDistL.run = .ok (.spec (Spec.ofTree .source
    (.bin .mul (.bin .add (.leaf (.const1 6)) (.leaf (.const1 4))) (.leaf (.const1 (1/2)))))) := by
  simp [exDistL, Expr.run, rmul, specOp, typing, resultTree, srcA, srcB, obsA, band, redd, Spec.ofTree, Operand.tag, Kind.isUnitless, Spec.model,
    ZState.model, ZState.init, bind, Except.bind, pure, Except.pure, Except.map]

theorem exDistR_run : exDistR.run = .ok (.spec (Spec.ofTree .source
    (.bin .add (.bin .mul (.leaf (.const1 6)) (.leaf (.const1 (1/2))))
      (.bin .mul (.leaf (.const1 4)) (.leaf (.const1 (1/2))))))) := by
  simp [exDistR, Expr.run, rmul, specOp, typing, resultTree, srcA, srcB, obsA, band, redd, Spec.ofTree, Operand.tag, Kind.isUnitless, Spec.model,
    ZState.model, ZState.init, bind, Except.bind, pure, Except.pure, Except.map]

/-- `(srcA * 3) * band` and `srcA * (3 * band)` -/
def exAssL : Expr ℚ :=
  .bin .mul (.bin .mul (.operand (.spec srcA)) (.operand (.real 3))) (.operand (.spec band))
def exAssR : Expr ℚ :=
  .bin .mul (.operand (.spec srcA)) (.bin .mul (.operand (.real 3)) (.operand (.spec band)))

theorem exAssL_run : exAssL.run = .ok (.spec (Spec.ofTree .source
    (.bin .mul (.scale (.leaf (.const1 6)) 3) (.leaf (.const1 (1/2)))))) := by
  simp [exAssL, Expr.run, rmul, specOp, typing, resultTree, srcA, srcB, obsA, band, redd, Spec.ofTree, Operand.tag, Kind.isUnitless, Spec.model,
    ZState.model, ZState.init, bind, Except.bind, pure, Except.pure, Except.map]

theorem exAssR_run : exAssR.run = .ok (.spec (Spec.ofTree .source
    (.bin .mul (.leaf (.const1 6)) (.scale (.leaf (.const1 (1/2))) 3)))) := by
  simp [exAssR, Expr.run, rmul, specOp, typing, resultTree, srcA, srcB, obsA, band, redd, Spec.ofTree, Operand.tag, Kind.isUnitless, Spec.model,
    ZState.model, ZState.init, bind, Except.bind, pure, Except.pure, Except.map]

/-- the redshifted box and the same spectrum held as an already redshifted model at z = 0 -/
def boxZ' : Spec ℚ := Spec.ofTree .source (.redshift 1 (.leaf (.box 1 3 2 none)))

theorem boxZ_model : boxZ.model = boxZ'.model := by
  simp [boxZ, boxZ', Spec.ofTree, Spec.model, ZState.model, ZState.init]

theorem boxZ_val : boxZ.evalAt exE 6 = .ok 1 := by
  simp [boxZ, Spec.evalAt, Spec.model, ZState.model, ZState.init, bind, Except.bind, Tree.eval, Leaf.eval]
  norm_num

/-- after `sp.z = 0` the same object is 0 at wavelength 6 -/
theorem boxZ_setZ_val : ({ boxZ with zs := boxZ.zs.setZ 0 } : Spec ℚ).evalAt exE 6 = .ok 0 := by
  simp [boxZ, Spec.evalAt, Spec.model, ZState.model, ZState.init, ZState.setZ, bind, Except.bind,
    Tree.eval, Leaf.eval]
  norm_num

theorem ex_boxZ_mul : specOp .mul boxZ (.real 2) =
    .ok (Spec.ofTree .source (.scale (.redshift 1 (.leaf (.box 1 3 2 none))) 2)) := by
  simp [specOp, typing, resultTree, boxZ, Spec.ofTree, Operand.tag, Spec.model, ZState.model, ZState.init,
    bind, Except.bind, pure, Except.pure]

end Synphot.C02x
