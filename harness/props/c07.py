"""C07  Binning conserves flux; compiled and pure-Python bin integrators agree."""
import math
from fractions import Fraction as F

from ..core import NP as np

from .. import core, objects as O, cext
from ..core import q, qs, guarded, same, unq

PAR = {'thr': q(O.THR), 'atol0': q(1e-8), 'ovthr': q(0.01), 'atol': q(1e-8), 'rtol': q(1e-5)}


# ------------------------------------------------------------------ implementation
def integrators():
    from synphot import binning
    out = {'py': binning._slow_calcbinflux, 'O0': cext.build('-O0'), 'O2': cext.build('-O2')}
    try:
        from synphot import synphot_utils
        out['intree'] = synphot_utils.calcbinflux
    except ImportError:
        pass
    return out


def run_integrators(n, ib, ie, av, dw):
    res = {}
    for name, fn in integrators().items():
        def f(fn=fn):
            b, w = fn(n, np.asarray(ib, dtype=np.int64), np.asarray(ie, dtype=np.int64),
                      np.asarray(av, dtype=np.float64), np.asarray(dw, dtype=np.float64))
            return {'binflux': np.array(b, dtype=float)[:len(ib)], 'intwave': np.array(w, dtype=float)[:len(ib)]}
        with np.errstate(all='ignore'):
            res[name] = guarded(f)
    return res


def impl_call(case):
    op = case['op']
    if op == 'calcbinflux':
        r = run_integrators(len(case['ibeg']), case['ibeg'], case['iend'], [O.fl(x) for x in case['avflux']],
                            [O.fl(x) for x in case['deltaw']])
        return {'ok': r}
    if op in ('bin_edges', 'bin_widths'):      # the edge helper itself, on centres in either order (C18's machinery)
        from . import c18
        return c18.impl_call(case)
    return obs_call(case)


def obs_call(case):
    import astropy.units as u
    from synphot import Observation, binning, observation
    calls = []
    real = binning.calcbinflux

    def spy(n, ib, ie, av, dw):
        calls.append((int(n), np.array(ib).tolist(), np.array(ie).tolist(), np.array(av, dtype=float).tolist(),
                      np.array(dw, dtype=float).tolist()))
        return cext.build('-O2')(n, ib, ie, av, dw)       # the extension built from the current C source

    def f():
        src = O.build_prim(case['src'])
        band = O.build_prim(case['band'])
        kw = {'force': case.get('force') or 'none'}
        bs = None
        if case.get('binset_in') is not None:
            vals = np.array([O.fl(x) for x in case['binset_in']])
            bs = vals if case['binset_unit'] == 'AA_number' else vals * u.Unit(case['binset_unit'])
            kw['binset'] = bs
        binning.calcbinflux = spy
        try:
            obs = Observation(src, band, **kw)
        finally:
            binning.calcbinflux = real
        outs = []
        for qu in case['queries']:
            if qu['q'] == 'bins':
                outs.append({'ok': {'binset': obs.binset.value, 'edges': obs.bin_edges.value, 'binflux': obs.binflux.value}})
            elif qu['q'] == 'sample_binned':
                xs = np.array([O.fl(x) for x in qu['xs']])
                outs.append(guarded(lambda: obs.sample_binned(xs).value))
            elif qu['q'] == 'sample':
                xs = np.array([O.fl(x) for x in qu['xs']])
                outs.append(guarded(lambda: obs(xs).value))
        # oracle data: unbinned samples on the merged grid the statement names
        edges = obs.bin_edges.value
        # "the merged grid of native sampling points, bin centres and bin edges": the package's own merge rule
        # (union, then the smaller of two points closer than 1e-12 is dropped - verified under C13)
        from synphot.utils import merge_wavelengths
        grid = merge_wavelengths(edges, obs.binset.value)
        if obs.waveset is not None:
            grid = merge_wavelengths(grid, obs.waveset.value)
        grid = grid[grid > 0]
        return {'warned': 'PartialOverlap' in obs.warnings, 'queries': outs,
                '_grid': grid, '_grid_flux': obs(grid).value, '_binset_aa': obs.binset.value}
    out = guarded(f)
    if calls:
        n, ib, ie, av, dw = calls[0]
        out['_calc'] = {'args': [n, ib, ie, av, dw], 'res': run_integrators(n, ib, ie, av, dw)}
    return out


def model_case(case):
    if case['op'] in ('calcbinflux', 'bin_edges', 'bin_widths'):
        return case
    c = {k: v for k, v in case.items() if not k.startswith('_') and k not in ('binset_in', 'binset_unit')}
    c.update({k: v for k, v in PAR.items() if k not in c})
    c['force'] = case.get('force') or 'none'
    c['binset'] = case.get('_binset_model')
    return c


def compare(case, o, m):
    if case['op'] in ('bin_edges', 'bin_widths'):
        return same(o, m, rtol=1e-9)
    if case['op'] == 'calcbinflux':
        r = o['ok']
        # the model's C loop against every compiled build, its NumPy form against the fallback
        for name in r:
            want = m['py'] if name == 'py' else m['c']
            got = r[name]
            if 'err' in want and want['err'] == 'NaN' and 'err' in got and got['err'] == 'NaN':
                continue
            d = same(got, want, rtol=1e-12, atol=1e-13 * max([abs(O.fl(x)) for x in case['avflux']] + [0.0]))
            if d:
                return '%s: %s' % (name, d)
        return None
    o2 = {k: v for k, v in o.items() if not k.startswith('_')}
    if 'ok' in o2:
        o2 = {'ok': {k: v for k, v in o2['ok'].items() if not k.startswith('_')}}
        scale = max([abs(v) for v in o['ok']['_grid_flux']] + [0.0])
    else:
        scale = 0.0
    return same(o2, m, rtol=1e-9, atol=1e-12 * scale)


# ------------------------------------------------------------------ oracle
def c07_zero_band(case):
    """an all-zero bandpass has no non-zero sample range to compare"""
    lf = case['band']['leaf']
    return lf['leaf'] == 'empirical' and all(unq(v) <= 0 for v in lf['vals'])


def oracle(rep, case, out):
    if case['op'] in ('bin_edges', 'bin_widths'):
        from . import c18
        c18.oracle_helpers(rep, case, out)
        return
    if case['op'] == 'calcbinflux':
        r = out['ok']
        consistent = all(b <= e for b, e in zip(case['ibeg'], case['iend']))
        widths = [sum(O.fl(x) for x in case['deltaw'][b:e]) for b, e in zip(case['ibeg'], case['iend'])]
        if consistent and all(w > 0 for w in widths):
            ref = r['py']
            for name, got in r.items():
                if 'err' in got or 'err' in ref:
                    rep.oracle_fail('integrators:%s:%s' % (name, got.get('err', 'ok')), 'integrator failed on positive-width segments', case, got)
                    return
                for k in ('binflux', 'intwave'):
                    if not np.allclose(got['ok'][k], ref['ok'][k], rtol=1e-13, atol=0):
                        rep.oracle_fail('integrators:%s_differs_from_fallback:%s' % (name, k),
                                        '%s vs Python fallback' % name, case, {'got': got, 'ref': ref})
                        return
        return
    if 'err' in out:
        zero_band = c07_zero_band(case)
        if out['err'] not in ('PartialOverlap', 'DisjointError', 'UndefinedBinset', 'ZeroWavelength') and not (
                out['err'] == 'ValueError' and zero_band):
            rep.oracle_fail('obs:%s' % out['err'], 'observation construction raised %s: %s' % (out['err'], out.get('msg', '')[:80]), case, out)
        return
    o = out['ok']
    bins = next((x['ok'] for x, qu in zip(o['queries'], case['queries']) if qu['q'] == 'bins'), None)
    if bins is None:
        return
    c, e, bf = np.array(bins['binset']), np.array(bins['edges']), np.array(bins['binflux'])
    # edges are the neighbouring midpoints, outer bins symmetric
    if len(e) != len(c) + 1 or not np.allclose(e[1:-1], (c[1:] + c[:-1]) / 2, rtol=1e-13) or \
            not math.isclose(c[0] - e[0], e[1] - c[0], rel_tol=1e-9) or not math.isclose(e[-1] - c[-1], c[-1] - e[-2], rel_tol=1e-9):
        rep.oracle_fail('bins:edges_not_midpoints', 'bin edges are not midpoints / symmetric ends', case, bins)
    grid, gf = np.array(o['_grid']), np.array(o['_grid_flux'])
    scale = max(np.abs(gf).max(), 1e-300)
    total = 0.0
    for i in range(len(c)):
        sel = (grid >= e[i] - 1e-9) & (grid <= e[i + 1] + 1e-9)
        if sel.sum() >= 2 and e[i] > 0:
            lo, hi = gf[sel].min(), gf[sel].max()
            if not (lo - 1e-9 * scale <= bf[i] <= hi + 1e-9 * scale):
                rep.oracle_fail('bins:binflux_outside_min_max', 'bin %d: %r not within [%r, %r]' % (i, bf[i], lo, hi), case, bins)
                break
    if e[0] > 0:
        # from the first to the last edge (an edge that was merged away is represented by its close neighbour)
        i0, i1 = np.searchsorted(grid, e[0]), np.searchsorted(grid, e[-1])
        sel = slice(i0, i1 + 1)
        from scipy.integrate import trapezoid
        integral = trapezoid(gf[sel], x=grid[sel])
        summed = float(np.sum(bf * np.abs(np.diff(e))))
        if abs(summed - integral) > 1e-9 * max(abs(integral), scale * (e[-1] - e[0])):
            rep.oracle_fail('bins:not_conserved', 'sum(binflux*width)=%r, integral on the merged grid=%r' % (summed, integral), case, bins)
    ca = out.get('_calc')
    if ca:
        ref = ca['res']['py']
        for name, got in ca['res'].items():
            if ('err' in got) != ('err' in ref) or ('ok' in got and not (
                    np.allclose(got['ok']['binflux'], ref['ok']['binflux'], rtol=1e-13, atol=0, equal_nan=True))):
                rep.oracle_fail('integrators:constructor_call:%s_differs' % name, 'on the constructor\'s own call', case, ca['res'])
                break
        if 'ok' in ca['res'].get('O2', {}) and not np.allclose(ca['res']['O2']['ok']['binflux'], bf, rtol=1e-13, atol=0):
            rep.oracle_fail('bins:binflux_not_integrator_output', 'binflux differs from the integrator output', case, bins)
    # binned sampling
    for res, qu in zip(o['queries'], case['queries']):
        if qu['q'] != 'sample_binned':
            continue
        xs = np.array([O.fl(x) for x in qu['xs']])
        d = np.abs(xs[:, None] - c[None, :])
        tol = 1e-8 + 1e-5 * np.abs(xs)[:, None]
        exact = np.array([np.any(c == x) for x in xs])
        far = np.array([np.all(d[k] > 2 * tol[k]) for k in range(len(xs))])
        if far.any():
            if res.get('err') != 'InterpolationNotAllowed':
                where = 'above' if xs[far].max() > c.max() else 'below' if xs[far].min() < c.min() else 'between'
                rep.oracle_fail('sample_binned:off_centre_%s:%s' % (where, res.get('err', 'returned')),
                                'a wavelength that is no bin centre was not refused with InterpolationNotAllowed', case, res)
        elif exact.all():
            if 'err' in res:
                rep.oracle_fail('sample_binned:centres:%s' % res['err'], 'exact bin centres refused', case, res)
            else:
                want = [bf[list(c).index(x)] for x in xs]
                if not np.array_equal(np.array(res['ok']), np.array(want)):
                    rep.oracle_fail('sample_binned:wrong_values', 'values are not the binned fluxes at those centres', case, res)


# ------------------------------------------------------------------ generators
def gen_pair(rng):
    """source x bandpass that construct (full overlap or forced)"""
    r = rng.random()
    if r < 0.4:
        src = {'prim': 'source', 'leaf': O.gen_table_leaf(rng, lo=800, hi=9500, nmax=10, keep_neg=rng.random() < 0.2)}
    elif r < 0.6:
        src = {'prim': 'source', 'leaf': {'leaf': 'constflux', 'amp': q(O.dy(rng, 0.25, 8, 3)), 'unit_name': rng.choice(['photlam', 'flam'])}}
    elif r < 0.8:
        w = O.dy(rng, 500, 4000, 1)
        src = {'prim': 'source', 'leaf': {'leaf': 'box', 'amp': q(O.dy(rng, 0.25, 8, 3)), 'x0': q(O.dy(rng, 3000, 7000, 1)),
                                          'width': q(w), 'step': q(w / rng.choice([4, 8, 16]))}}
    else:
        src = {'prim': 'source', 'leaf': {'leaf': 'trapezoid', 'amp': q(O.dy(rng, 1, 8, 2)), 'x0': q(O.dy(rng, 3000, 7000, 1)),
                                          'width': q(O.dy(rng, 500, 2500, 1)), 'slope': q(F(1, rng.choice([64, 128, 256])))}}
    if rng.random() < 0.3:
        # brightness over many decades (exact powers of two): faint and very bright sources
        k = F(2) ** rng.choice([-120, -80, -60, -40, -20, 30, 60])
        lf = src['leaf']
        if lf['leaf'] == 'empirical':
            lf['vals'] = qs([unq(v) * k for v in lf['vals']])
        else:
            lf['amp'] = q(unq(lf['amp']) * k)
            if 'slope' in lf:       # a trapezoid keeps its shape: the ramps are amplitude / slope wide
                lf['slope'] = q(unq(lf['slope']) * k)
        if 'ss' in lf:
            del lf['ss']
    if rng.random() < 0.5:
        band = {'prim': 'bandpass', 'leaf': O.gen_table_leaf(rng, lo=2000, hi=8000, nmax=8, nonneg=True, keep_neg=True)}
    else:
        w = O.dy(rng, 200, 3000, 1)
        band = {'prim': 'bandpass', 'leaf': {'leaf': 'box', 'amp': q(O.dy(rng, 0.125, 1, 3)), 'x0': q(O.dy(rng, 3500, 6500, 1)),
                                            'width': q(w), 'step': q(w / rng.choice([4, 8, 16]))}}
    return O.fill_ss(src), O.fill_ss(band)


def gen_binset(rng, nmax):
    kind = rng.choice(['default', 'uniform', 'random', 'fine', 'coarse', 'outside', 'desc', 'nm', 'Hz', 'balanced', 'narrow'])
    if kind == 'default':
        return None, 'AA_number', kind
    n = rng.randint(2, nmax)
    lo = O.dy(rng, 1500, 6000, 2)
    if kind in ('uniform', 'desc', 'nm', 'Hz', 'outside'):
        step = O.dy(rng, 1, 400, 3)
        b = [lo + i * step for i in range(n)]
        if kind == 'outside':
            b = [x + 5000 for x in b] if rng.random() < 0.5 else [x / 4 for x in b]
    elif kind == 'fine':
        step = F(1, 8)
        b = [lo + i * step for i in range(n)]
    elif kind == 'balanced':
        # uneven spacings whose first spacing and end points are those of an even grid (s, s-d, s+d, s, ...)
        n = max(n, 4)
        s0 = O.dy(rng, 4, 200, 2)
        gaps = [s0] * (n - 1)
        for _ in range(rng.randint(1, 3)):
            i, j = rng.sample(range(1, n - 1), 2) if n > 3 else (1, 2)
            d = s0 * F(rng.randint(1, 7), 8)
            gaps[i] += d
            gaps[j] -= d
        gaps = [g if g > 0 else s0 for g in gaps]
        b = [lo]
        for g in gaps:
            b.append(b[-1] + g)
    elif kind == 'narrow':
        # bins 2^-6 .. 2^-10 Angstrom wide, unevenly: the whole set spans less than 1e-5 of the wavelength
        w = F(2) ** -rng.randint(6, 10)
        b = [lo]
        for _ in range(n - 1):
            b.append(b[-1] + w * rng.randint(1, 4))
    elif kind == 'coarse':
        b = [lo + i * 1500 for i in range(min(n, 5))]
    else:
        b = sorted({O.dy(rng, 1500, 9000, 3) for _ in range(n)})
        if len(b) < 2:
            b = [lo, lo + 10]
    if kind == 'desc':
        b = b[::-1]
    if kind == 'nm':
        return [x / 10 for x in b], 'nm', kind
    if kind == 'Hz':
        return [float(O.C) / float(x) for x in b][::-1], 'Hz', kind
    return b, 'AA_number', kind


def probe_binned(rng, binset_aa):
    c = sorted(binset_aa)
    r = rng.random()
    if r < 0.2 and len(c) >= 3:
        # a run whose end points are bin centres and whose length is the number of bins spanned, with interior
        # members moved off their centres (each wavelength must be judged on its own)
        i0 = rng.randrange(len(c) - 2)
        i1 = rng.randrange(i0 + 2, len(c))
        xs = list(c[i0:i1 + 1])
        for j in rng.sample(range(1, len(xs) - 1), rng.randint(1, len(xs) - 2)):
            k = i0 + j
            gap = min(c[k] - c[k - 1], c[k + 1] - c[k])
            xs[j] = c[k] + gap * rng.choice([0.25, -0.25, 0.125, -0.3])       # order preserved
        return xs
    if r < 0.35:
        k = rng.sample(range(len(c)), min(len(c), rng.randint(1, 4)))
        xs = sorted(c[i] for i in k)
        if rng.random() < 0.3:
            xs = xs[::-1]
        return xs
    if r < 0.5:
        return [c[-1] + (c[-1] - c[-2]) * rng.choice([1, 3, 0.5])]          # above the last centre
    if r < 0.65:
        return [c[0] - (c[1] - c[0]) * rng.choice([0.5, 0.25])] if c[0] - (c[1] - c[0]) * 0.5 > 0 else [c[0] / 2]
    if r < 0.85:
        i = rng.randrange(len(c) - 1)
        return [c[i] + (c[i + 1] - c[i]) * rng.choice([0.5, 0.25, 0.1])]      # between two centres
    i = rng.randrange(len(c))
    return sorted({c[i], c[i - 1]} | {c[0] + (c[1] - c[0]) * 0.5})           # a mixture


def gen_obs_case(rng, K, nmax):
    src, band = gen_pair(rng)
    binset, unit, kind = gen_binset(rng, nmax)
    if binset is not None and unit == 'AA_number' and len(binset) >= 3 and rng.random() < 0.2:
        # a native sampling point one or two float steps above (or below) a bin edge: closer than the 1e-12 merging
        # threshold, so one of the two is dropped from the integration grid and the bin must still get its segments
        for leaf in (src['leaf'], band['leaf']):
            if leaf['leaf'] == 'empirical' and len(leaf['pts']) >= 2:
                cs = sorted(float(x) for x in binset)
                i = rng.randrange(len(cs) - 1)
                edge = (cs[i] + cs[i + 1]) / 2
                p = edge
                for _ in range(rng.randint(1, 2)):
                    p = float(np.nextafter(p, np.inf if rng.random() < 0.7 else -np.inf))
                pts = [unq(x) for x in leaf['pts']]
                if F(p) not in pts and min(pts) < F(p) < max(pts) and pts == sorted(pts):
                    j = max(k for k in range(len(pts)) if pts[k] < F(p))
                    vals = [unq(v) for v in leaf['vals']]
                    pts.insert(j + 1, F(p))
                    vals.insert(j + 1, (vals[j] + vals[j + 1]) / 2 + O.dy(rng, 0, 1, 3) * max(abs(vals[j]), abs(vals[j + 1])))
                    leaf['pts'], leaf['vals'] = qs(pts), qs(vals)
                    kind = kind + '+native_point_at_edge'
                break
    c = {'op': 'obs', 'const': K, 'src': src, 'band': band, 'force': rng.choice(['extrap', 'extrap', 'taper', 'none']),
         'binset_in': None if binset is None else qs(binset), 'binset_unit': unit, '_kind': kind,
         'queries': [{'q': 'bins'}]}
    return c


def finish_case(c, rng):
    """second pass: the binset in Angstrom as the constructor's validation produced it goes to the model
    (unit conversion itself is C04's subject), and binned-sampling queries are placed relative to it"""
    import astropy.units as u
    if c['binset_in'] is not None:
        vals = np.array([O.fl(x) for x in c['binset_in']])
        if c['binset_unit'] != 'AA_number':
            vals = (vals * u.Unit(c['binset_unit'])).to(u.AA, u.spectral()).value
        c['_binset_model'] = qs(vals.tolist())
        aa = vals.tolist()
    else:
        c['_binset_model'] = None
        try:
            bw = O.build_prim(c['band']).waveset
            sw = O.build_prim(c['src']).waveset
            w = bw if bw is not None else sw
        except Exception:   # noqa  (a sampling set with non-positive wavelengths: the constructor will refuse too)
            w = None
        aa = None if w is None else w.value.tolist()
    if aa is not None and len(aa) >= 2:
        for _ in range(2):
            c['queries'].append({'q': 'sample_binned', 'xs': qs(probe_binned(rng, aa))})
    return c


def gen_calc(rng, nmax):
    n = rng.randint(1, nmax)
    m = rng.randint(n, 3 * n + 2)
    dw = [float(O.dy(rng, 0.125, 8, 3)) for _ in range(m)]
    scale = 10 ** rng.choice([0, 0, -20, 15])
    av = [float(O.dy(rng, -4, 8, 3)) * scale for _ in range(m)]
    cuts = sorted(rng.sample(range(m + 1), min(n + 1, m + 1)))
    ib, ie = cuts[:-1], cuts[1:]
    if rng.random() < 0.2 and len(ib) > 1:      # overlapping / nested bins are still "consistent"
        ib[1] = ib[0]
    if rng.random() < 0.05:
        ie[0] = ib[0]                            # an empty bin: the two implementations are allowed to differ
    return {'op': 'calcbinflux', 'ibeg': ib, 'iend': ie, 'avflux': qs(av), 'deltaw': qs(dw)}


def run(rep):
    thorough = rep.tier == 'thorough'
    rng = rep.rng('c07')
    K = O.consts()
    cases = core.load_corpus('C07')
    for c in cases:
        c['const'] = K
    fresh = [gen_obs_case(rng, K, 500 if thorough else 40) for _ in range(25000 if thorough else 1200)]
    fresh = [finish_case(c, rng) for c in fresh]
    cases += fresh
    cases += [gen_calc(rng, 60 if thorough else 12) for _ in range(40000 if thorough else 1500)]
    from . import c18
    cases += [c for c in c18.gen_helpers(rng, 4000 if thorough else 400, 12) if c['op'] != 'bin_centers']
    rep.rule = ('observations (table / constant / box / trapezoid sources x table / box bandpasses) with default, uniform, random, '
                'finer-than-native, coarser, partly-outside, descending, nm and Hz binsets of 2..N centres; every calcbinflux call of the '
                'constructor is intercepted and replayed on the in-tree extension, the extension rebuilt from the C source with -O0 and '
                '-O2, and the Python fallback; random consistent index sets in addition; binned sampling on exact centres, between, '
                'below and above them. Non-trivial: an observation was constructed / the index set has positive-width segments.')

    def tags(c, o):
        t = [c['op'], 'outcome:' + (o.get('err') or 'ok')]
        if c['op'] == 'obs':
            t.append('binset:' + c.get('_kind', '?'))
        return t

    def nontrivial(c, o):
        return 'ok' in o
    core.run_cases(rep, cases, impl_call, model_case, oracle, tags_fn=tags, nontrivial_fn=nontrivial, compare_fn=compare)
    rep.samples = [s if not isinstance(s, dict) else {k: v for k, v in s.items() if k not in ('const',)} for s in rep.samples]
    rep.extra['integrator_builds'] = sorted(integrators())


def search(rep, mismatches):
    sub = core.Report(rep.pid, 'thorough', rep.seed + 1)
    rng = sub.rng('c07-search')
    K = O.consts()
    cases = [finish_case(gen_obs_case(rng, K, 30), rng) for _ in range(2500)] + [gen_calc(rng, 12) for _ in range(4000)]
    impl = core.pmap(impl_call, cases)
    for c, o in zip(cases, impl):
        oracle(sub, c, o)
    rep.notes.append('directed search after mismatch: %d cases, %d oracle failures' % (len(cases), len(sub.oracle_failures)))
    return sub.oracle_failures


def replay(rep, payload):
    c = payload['case']
    c['const'] = O.consts()
    core.run_cases(rep, [c], impl_call, model_case, oracle, compare_fn=compare)
