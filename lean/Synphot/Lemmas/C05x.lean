/-
  Helper lemmas for C05 (redshift): the flux factor of a redshift type, evaluation of the tree the
  `model` property builds (errors included), sampling a whole grid (`List.mapM`) through a redshift /
  a scale, the trapezoid sum on two parallel arrays under scaling, and the two ways a program puts a
  redshift on top of an existing source (`wrapZ`: `SourceSpectrum(sp.model, z=…, z_type=…)`;
  `assignZ`: `sp.z_type = …; sp.z = …`).
-/
import Mathlib.Tactic.Ring
import Mathlib.Tactic.FieldSimp
import Mathlib.Tactic.Linarith
import Synphot.Lemmas.Spectrum
import Synphot.Lemmas.Trapz

set_option linter.unusedSectionVars false
set_option linter.unusedVariables false
set_option linter.unusedSimpArgs false

namespace Synphot.C05x
open Synphot
variable {K : Type} [Field K] [LinearOrder K] [IsStrictOrderedRing K]

/-- what the redshift type does to the flux: nothing, or division by `1+z` -/
def fluxFactor : ZType → K → K
  | .wavelengthOnly, _ => 1
  | .conserveFlux, z => 1 / (1 + z)

theorem fluxFactor_zero (t : ZType) : fluxFactor t (0 : K) = 1 := by
  cases t <;> simp [fluxFactor]

/-- the tree `model` returns for a freshly constructed state -/
def modelTree (z : K) (t : ZType) (m : Tree K) : Tree K :=
  if z = 0 then m
  else match t with
    | .wavelengthOnly => .redshift z m
    | .conserveFlux => .scale (.redshift z m) (1 / (1 + z))

theorem model_init (z : K) (t : ZType) (m : Tree K) :
    (ZState.init z t).model m = .ok (modelTree z t m) := by
  unfold ZState.model ZState.init modelTree
  by_cases hz : z = 0
  · simp [hz]
  · cases t <;> simp [hz]

theorem map_mul_one (r : Except Err K) : r.map (· * (1 : K)) = r := by
  cases r <;> simp [Except.map]

theorem map_map_mul (r : Except Err K) (a b : K) :
    (r.map (· * a)).map (· * b) = r.map (· * (a * b)) := by
  cases r <;> simp [Except.map, mul_assoc]

theorem map_congr_factor (r : Except Err K) (a b : K) (h : a = b) : r.map (· * a) = r.map (· * b) := by
  rw [h]

/-- evaluation of the model tree, errors included -/
theorem eval_modelTree (E : Env K) (z : K) (t : ZType) (m : Tree K) (x : K) :
    (modelTree z t m).eval E x = (m.eval E (x / (1 + z))).map (· * fluxFactor t z) := by
  unfold modelTree
  by_cases hz : z = 0
  · subst hz
    simp only [if_true, add_zero, div_one, fluxFactor_zero, map_mul_one]
  · cases t
    · simp only [hz, if_false, Tree.eval, fluxFactor, map_mul_one]
    · simp only [hz, if_false, Tree.eval, fluxFactor]
      cases m.eval E (x / (1 + z)) <;> simp [bind, Except.bind, Except.map, pure, Except.pure]

theorem sampleset_modelTree (thr z : K) (t : ZType) (m : Tree K) :
    (modelTree z t m).sampleset thr = (m.sampleset thr).map (fun w => w.map (· * (1 + z))) := by
  unfold modelTree
  by_cases hz : z = 0
  · subst hz
    simp only [if_true, add_zero, mul_one]
    cases m.sampleset thr <;> simp
  · cases t <;> simp [hz, Tree.sampleset]

/-! ### sampling a grid -/

theorem mapM_nil' (f : K → Except Err K) : ([] : List K).mapM f = .ok [] := rfl

theorem mapM_cons' (f : K → Except Err K) (a : K) (l : List K) :
    (a :: l).mapM f = (do let b ← f a; let bs ← l.mapM f; pure (b :: bs)) := by
  rw [List.mapM_cons]

theorem mapM_ok_cons {f : K → Except Err K} {a : K} {l ys : List K}
    (h : (a :: l).mapM f = .ok ys) : ∃ b bs, f a = .ok b ∧ l.mapM f = .ok bs ∧ ys = b :: bs := by
  rw [mapM_cons'] at h
  obtain ⟨b, hb, h⟩ := bind_ok h
  obtain ⟨bs, hbs, h⟩ := bind_ok h
  cases h
  exact ⟨b, bs, hb, hbs, rfl⟩

theorem mapM_length {f : K → Except Err K} {l ys : List K} (h : l.mapM f = .ok ys) :
    ys.length = l.length := by
  induction l generalizing ys with
  | nil => rw [mapM_nil'] at h; cases h; rfl
  | cons a l ih =>
    obtain ⟨b, bs, _, hbs, rfl⟩ := mapM_ok_cons h
    simp [ih hbs]

/-- sampling `g` on `l.map φ` when `g (φ x)` is `f x` up to a factor -/
theorem mapM_transport {f g : K → Except Err K} (φ : K → K) (c : K)
    (hfg : ∀ x, g (φ x) = (f x).map (· * c)) {l ys : List K} (h : l.mapM f = .ok ys) :
    (l.map φ).mapM g = .ok (ys.map (· * c)) := by
  induction l generalizing ys with
  | nil => rw [mapM_nil'] at h; cases h; rfl
  | cons a l ih =>
    obtain ⟨b, bs, hb, hbs, rfl⟩ := mapM_ok_cons h
    rw [List.map_cons, mapM_cons', hfg a, hb, ih hbs]
    rfl

theorem zip_map_mul (a b : K) (x y : List K) :
    (x.map (· * a)).zip (y.map (· * b)) = (x.zip y).map (fun p => (a * p.1, b * p.2)) := by
  induction x generalizing y with
  | nil => simp
  | cons u x ih =>
    cases y with
    | nil => simp
    | cons v y =>
      simp only [List.map_cons, List.zip_cons_cons, ih]
      rw [mul_comm u a, mul_comm v b]

/-- the trapezoid sum on two parallel arrays: abscissae × a, ordinates × b -/
theorem trapzXY_scale (a b : K) (x y : List K) :
    trapzXY (x.map (· * a)) (y.map (· * b)) = a * b * trapzXY x y := by
  unfold trapzXY
  rw [zip_map_mul, trapz_scale_xy]

/-! ### a redshift on top of an existing source -/

/-- `SourceSpectrum(sp.model, z=z, z_type=t)`: a new source whose model is the (already redshifted)
model of `sp`, carrying its own redshift on top (the driver's `wrapz` node) -/
def wrapZ (s : Spec K) (z : K) (t : ZType) : Except Err (Spec K) := do
  let m ← s.model
  pure { kind := .source, tree := m, zs := ZState.init z t }

/-- `sp.z_type = t; sp.z = z` on an existing source object (the driver's `setz` node) -/
def assignZ (s : Spec K) (z : K) (t : ZType) : Spec K :=
  { s with zs := (s.zs.setZType t).setZ z }

/-- assigning both attributes, in either order, from *any* state gives the freshly constructed state -/
theorem setZType_setZ (s : ZState K) (z : K) (t : ZType) : (s.setZType t).setZ z = ZState.init z t := by
  cases t <;> rfl

theorem setZ_setZType (s : ZState K) (z : K) (t : ZType) : (s.setZ z).setZType t = ZState.init z t := by
  cases t <;> rfl

end Synphot.C05x
