/-
  Driver ops around observations (C06–C10): overlap verdicts, construction with a list of
  queries, raw bin integrators, normalisation.
-/
import Synphot.Driver.Objects
import Synphot.Core.ObsPhot

open Lean Synphot

namespace Synphot.Driver

def optRatsO (j : Json) (k : String) : M (Option (List Rat)) :=
  match fOpt j k with
  | none => pure none
  | some v => (asRats v).map some

def optRatO (j : Json) (k : String) : M (Option Rat) :=
  match fOpt j k with
  | none => pure none
  | some v => (asRat v).map some

def overlapPar (j : Json) : M (OverlapPar Rat) := do
  pure { mergeThr := ← fRat j "thr", allcloseAtol := ← fRat j "atol0", threshold := ← fRat j "ovthr" }

def errJ (e : Err) : Json := Json.mkObj [("err", Json.str e.name)]

/-- one query against a constructed observation -/
def obsQuery (E : Env Rat) (P : OverlapPar Rat) (atol rtol : Rat) (o : Obs Rat) (q : Json) : M Json := do
  let kind ← fStr q "q"
  match kind with
  | "sample" => do
      let xs ← fRats q "xs"
      let r : Except Err (List Rat) := do
        validateWavelengths xs
        sampleTree E o.model xs
      pure (outcome jRats r)
  | "src_sample" => do
      -- the (possibly tapered / extrapolating) source the observation holds
      let xs ← fRats q "xs"
      let r : Except Err (List Rat) := do
        let m ← o.src.model
        sampleTree E m xs
      pure (outcome jRats r)
  | "bins" => pure (Json.mkObj [("ok", Json.mkObj [("binset", jRats o.bins.binset),
        ("edges", jRats o.bins.edges), ("binflux", jRats o.bins.binflux)])])
  | "sample_binned" => do
      let xs ← fRats q "xs"
      pure (outcome jRats (sampleBinned atol rtol o.bins xs))
  | "countrate" => do
      let area ← optRatO q "area"
      let binned ← fBool q "binned"
      let wl ← optRatsO q "wl"
      let wr ← optRatsO q "waverange"
      let force ← fBool q "force"
      let wr' : Option (Rat × Rat) := match wr with
        | some [a, b] => some (a, b)
        | _ => none
      pure (outcome jRat (countrate E P.mergeThr atol rtol o area binned wl wr' force))
  | "effstim" => do
      let u ← getField q "unit" >>= parseFluxUnitQ
      let wl ← optRatsO q "wl"
      let area ← optRatO q "area"
      let vega ← match fOpt q "vega" with
        | none => pure none
        | some v => do
            let s ← parsePrim v
            match s.model with
            | .ok m => pure (some m)
            | .error _ => throw "vega model unusable"
      pure (outcome jRat (effstim E P.mergeThr atol rtol o u wl area vega))
  | "efflam" => do
      let binned ← fBool q "binned"
      let wl ← optRatsO q "wl"
      let erg ← fBool q "erg"
      pure (outcome jRat (effectiveWavelength E P.mergeThr atol rtol o binned wl erg))
  | s => .error s!"unknown query {s}"

def dispatchObsM (op : String) (j : Json) : M Json := do
  match op with
  | "overlap_status" => do
      let a ← fRats j "a"
      let b ← fRats j "b"
      pure (match overlapArrays a b with
        | .ok .full => Json.mkObj [("ok", Json.str "full")]
        | .ok .part => Json.mkObj [("ok", Json.str "partial")]
        | .ok .none => Json.mkObj [("ok", Json.str "none")]
        | .error e => errJ e)
  | "check_overlap" => do
      let E ← envOf j
      let P ← overlapPar j
      let band ← getField j "band" >>= parsePrim
      let other ← getField j "other" >>= parsePrim
      let wl ← optRatsO j "wl"
      pure (outcome (fun (v : Verdict) => Json.str v.name) (checkOverlap E P band other wl))
  | "obs" => do
      let E ← envOf j
      let P ← overlapPar j
      let atol ← fRat j "atol"
      let rtol ← fRat j "rtol"
      let src ← getField j "src" >>= parsePrim
      let band ← getField j "band" >>= parsePrim
      let binset ← optRatsO j "binset"
      let force := match fOpt j "force" with
        | some (.str s) => Force.ofString s
        | _ => Force.none
      let useC := match fOpt j "use_c" with
        | some (.bool b) => b
        | _ => true
      match mkObs E P src band binset force useC with
      | .error e => pure (errJ e)
      | .ok o => do
          let qs ← fArr j "queries"
          let outs ← qs.mapM (obsQuery E P atol rtol o)
          pure (Json.mkObj [("ok", Json.mkObj [("warned", Json.bool o.warned),
                  ("queries", Json.arr outs.toArray)])])
  | "calcbinflux" => do
      let ib ← fArr j "ibeg" >>= fun l => l.mapM asNat
      let ie ← fArr j "iend" >>= fun l => l.mapM asNat
      let av ← fRats j "avflux"
      let dw ← fRats j "deltaw"
      let f (r : Except Err (List Rat × List Rat)) : Json := match r with
        | .ok (a, b) => Json.mkObj [("ok", Json.mkObj [("binflux", jRats a), ("intwave", jRats b)])]
        | .error e => errJ e
      pure (Json.mkObj [("c", f (calcbinfluxC ib ie av dw)), ("py", f (calcbinfluxPy ib ie av dw))])
  | "normalize" => do
      let E ← envOf j
      let P ← overlapPar j
      let self ← getField j "src" >>= parsePrim
      let band ← getField j "band" >>= parsePrim
      let target ← fRat j "target"
      let u ← getField j "unit" >>= parseFluxUnitQ
      let wl ← optRatsO j "wl"
      let force ← fBool j "force"
      let area ← optRatO j "area"
      let vega ← match fOpt j "vega" with
        | none => pure none
        | some v => do
            let s ← parsePrim v
            match s.model with
            | .ok m => pure (some m)
            | .error _ => throw "vega model unusable"
      let xs ← fRats j "xs"
      match normalizeFactor E P self band target u wl force area vega with
      | .error e => pure (errJ e)
      | .ok (k, self', warned) =>
          let r : Except Err (List Rat) := do
            let m ← self'.model
            sampleTree E (.scale m k) xs
          pure (Json.mkObj [("ok", Json.mkObj [("factor", jRat k), ("warned", Json.bool warned),
                  ("vals", match r with | .ok v => jRats v | .error e => errJ e)])])
  | _ => .error s!"unknown op {op}"

def dispatchObs (op : String) (j : Json) : Option (M Json) :=
  if op ∈ ["overlap_status", "check_overlap", "obs", "calcbinflux", "normalize"] then
    some (dispatchObsM op j) else none

end Synphot.Driver
