/-
  Synphot.Core.Binning — model of `synphot/binning.py`:
  `calculate_bin_edges`, `calculate_bin_widths`, `calculate_bin_centers`.
  (`wave_range`/`pixel_range` are in `Core/PixRange.lean`, the bin integrators in
  `Core/BinFlux.lean`.)
-/
import Synphot.Core.Basic
import Synphot.Core.Wave

namespace Synphot
variable {K : Type} [Field K] [LinearOrder K] [IsStrictOrderedRing K]

/-- `(c[1:] + c[:-1]) * 0.5` -/
def mids : List K → List K
  | a :: b :: t => (b + a) * (1/2) :: mids (b :: t)
  | _ => []

/-- `edges[1:-1] = mids; edges[0] = 2 c[0] - edges[1]; edges[-1] = 2 c[-1] - edges[-2]`.
For exactly the sizes the code accepts (`size ≥ 2`), `edges[1]` and `edges[-2]` are the
first and last midpoint. -/
def binEdges (c : List K) : Except Err (List K) :=
  match c, mids c with
  | c0 :: _, m0 :: mt =>
      let m := m0 :: mt
      .ok ((2 * c0 - m0) :: m ++ [2 * c.getLastD c0 - m.getLastD m0])
  | _, _ => .error .synphotError   -- size < 2

/-- the public `calculate_bin_edges(centers)`: at least two centres, which must be valid wavelengths
(positive, strictly monotone, no duplicates), then the midpoint geometry `binEdges` -/
def calcBinEdges (c : List K) : Except Err (List K) :=
  if c.length < 2 then .error .synphotError
  else do
    validateWavelengths c
    binEdges c

/-- `np.abs(edges[1:] - edges[:-1])` -/
def absDiffs : List K → List K
  | a :: b :: t => |b - a| :: absDiffs (b :: t)
  | _ => []

def binWidths (e : List K) : Except Err (List K) :=
  if e.length < 2 then .error .synphotError else .ok (absDiffs e)

/-- the loop `centers[i] = 2 edges[i] - centers[i-1]` (edges already advanced to index i) -/
def centersLoop (prev : K) : List K → List K
  | [] => []
  | [_] => []            -- the last edge is never the left edge of a bin
  | e :: t => let c := 2 * e - prev; c :: centersLoop c t

/-- `centers[0] = mean(edges[:2])`, then the loop over `i = 1 .. size-1` using `edges[i]`. -/
def binCenters (e : List K) : Except Err (List K) :=
  match e with
  | e0 :: e1 :: t => let c0 := (e0 + e1) / 2; .ok (c0 :: centersLoop c0 (e1 :: t))
  | _ => .error .synphotError

end Synphot
