/-
  C13 — Sampling sets are valid and a composite samples every component.
-/
import Synphot.Lemmas.Merge
import Synphot.Lemmas.GenWave
import Synphot.Core.Tree
import Synphot.Lemmas.C13x
import Synphot.Lemmas.TranscReal
import Mathlib.Data.Rat.Floor

set_option linter.unusedSectionVars false
set_option linter.unusedVariables false
set_option linter.unusedSimpArgs false

namespace Synphot.C13
open Synphot
variable {K : Type} [Field K] [LinearOrder K] [IsStrictOrderedRing K]

/-! ### merging two wavelength sets -/

/-- the merged set is strictly increasing -/
theorem merge_sorted (thr : K) (a b m : List K) (h : mergeWavelengths thr (some a) (some b) = some m) :
    StrictAsc m := by
  simp only [mergeWavelengths, Option.some.injEq] at h; subst h
  exact filterClose_strictAsc thr _ (union1d_strictAsc a b)

/-- neighbours in the merged set are farther apart than the threshold -/
theorem merge_gaps (thr : K) (a b m : List K) (h : mergeWavelengths thr (some a) (some b) = some m) :
    Gaps thr m := by
  simp only [mergeWavelengths, Option.some.injEq] at h; subst h
  exact filterClose_gaps thr _ (union1d_strictAsc a b)

/-- every point of the merged set is a point of one of the inputs -/
theorem merge_subset (thr : K) (a b m : List K) (h : mergeWavelengths thr (some a) (some b) = some m)
    (x : K) (hx : x ∈ m) : x ∈ a ∨ x ∈ b := by
  simp only [mergeWavelengths, Option.some.injEq] at h; subst h
  exact (mem_union1d a b x).mp ((filterClose_sublist thr _).subset hx)

/-- every input point is kept, except the smaller of two points closer than the threshold -/
theorem merge_keeps (thr : K) (a b m : List K) (h : mergeWavelengths thr (some a) (some b) = some m)
    (x : K) (hx : x ∈ a ∨ x ∈ b) :
    x ∈ m ∨ ∃ y, (y ∈ a ∨ y ∈ b) ∧ x < y ∧ y - x ≤ thr := by
  simp only [mergeWavelengths, Option.some.injEq] at h; subst h
  by_cases hm : x ∈ filterClose thr (union1d a b)
  · exact Or.inl hm
  · obtain ⟨y, hy, h1, h2⟩ := filterClose_dropped thr _ (union1d_strictAsc a b) x
      ((mem_union1d a b x).mpr hx) hm
    exact Or.inr ⟨y, (mem_union1d a b y).mp hy, h1, h2⟩

/-- the result does not depend on the order of the arguments -/
theorem merge_comm (thr : K) (a b : Option (List K)) :
    mergeWavelengths thr a b = mergeWavelengths thr b a := by
  cases a <;> cases b <;> simp [mergeWavelengths, union1d_comm]

/-- merging a merged set with itself changes nothing -/
theorem merge_idem (thr : K) (a b m : List K) (h : mergeWavelengths thr (some a) (some b) = some m) :
    mergeWavelengths thr (some m) (some m) = some m := by
  have hs := merge_sorted thr a b m h
  have hg := merge_gaps thr a b m h
  simp only [mergeWavelengths, Option.some.injEq]
  rw [union1d_self m hs, filterClose_of_gaps thr m hg]

/-- an undefined set merges to the other argument -/
theorem merge_none (thr : K) (a : Option (List K)) :
    mergeWavelengths thr a none = a ∧ mergeWavelengths thr none a = a := by
  cases a <;> simp [mergeWavelengths]

/-! ### sampling sets of composites -/

/-- unchanged by scalar multiplication -/
theorem sampleset_scale (thr k : K) (m : Tree K) : (Tree.scale m k).sampleset thr = m.sampleset thr := rfl

/-- multiplied by `1+z` under redshift -/
theorem sampleset_redshift (thr z : K) (m : Tree K) :
    (Tree.redshift z m).sampleset thr = (m.sampleset thr).map (fun w => w.map (· * (1 + z))) := rfl

/-- an extinction curve hides its sampling set from composites, by design -/
theorem sampleset_extinction (thr : K) (t : Table K) : (Tree.leaf (.extinction t)).sampleset thr = none := rfl

/-- a composite keeps every sampling point of both components (up to the merge rule); when one
component has no sampling set, the other's is taken as it is -/
theorem sampleset_bin_keeps (thr : K) (op : BinOp) (l r : Tree K) (wl wr m : List K)
    (hl : l.sampleset thr = some wl) (hr : r.sampleset thr = some wr)
    (hm : (Tree.bin op l r).sampleset thr = some m) (x : K) (hx : x ∈ wl ∨ x ∈ wr) :
    x ∈ m ∨ ∃ y, (y ∈ wl ∨ y ∈ wr) ∧ x < y ∧ y - x ≤ thr := by
  simp only [Tree.sampleset, hl, hr] at hm
  exact merge_keeps thr wl wr m hm x hx

theorem sampleset_bin_one_sided (thr : K) (op : BinOp) (l r : Tree K) (h : r.sampleset thr = none) :
    (Tree.bin op l r).sampleset thr = l.sampleset thr := by
  simp only [Tree.sampleset, h]; exact (merge_none thr _).1

/-- `waveset` is either undefined, an error, or a strictly monotone array of positive wavelengths -/
theorem waveset_valid (thr : K) (m : Tree K) (w : List K) (h : m.waveset thr = .ok (some w)) :
    (∀ x ∈ w, 0 < x) ∧ (StrictAsc w ∨ StrictDesc w) := by
  unfold Tree.waveset at h
  cases hs : m.sampleset thr with
  | none => rw [hs] at h; cases h
  | some w' =>
    rw [hs] at h
    cases hv : validateWavelengths w' with
    | error e => simp [hv, bind, Except.bind] at h
    | ok u =>
      simp [hv, bind, Except.bind, pure, Except.pure] at h; subst h
      cases u
      exact (validate_ok_iff w').mp hv

/-- a sampling set containing a non-positive wavelength is refused, not returned -/
theorem waveset_refuses_nonpositive (thr : K) (m : Tree K) (w : List K)
    (hs : m.sampleset thr = some w) (x : K) (hx : x ∈ w) (h0 : x ≤ 0) :
    m.waveset thr = .error .zeroWavelength := by
  unfold Tree.waveset
  rw [hs]
  have := (validate_zero_iff w).mpr ⟨x, hx, h0⟩
  simp [this, bind, Except.bind]

/-! ### generated grids -/

/-- linear grid with a count: exactly `num` points, all in `[min, max)`, uniformly spaced -/
theorem linspace_spec (a b : K) (num : Nat) (hab : a < b) :
    (linspaceOpen a b num).length = num ∧
    (∀ x ∈ linspaceOpen a b num, a ≤ x ∧ x < b) ∧
    (linspaceOpen a b num = affineGrid a ((b - a) / num) num) := by
  refine ⟨affineGrid_length _ _ _, ?_, rfl⟩
  intro x hx
  obtain ⟨i, hi, rfl⟩ := mem_affineGrid hx
  have hn : (0 : K) < num := by
    have : 0 < num := Nat.lt_of_le_of_lt (Nat.zero_le i) hi
    exact_mod_cast this
  have hd : 0 < b - a := sub_pos.mpr hab
  have hi' : (i : K) < num := by exact_mod_cast hi
  have hi0 : (0 : K) ≤ i := by exact_mod_cast Nat.zero_le i
  constructor
  · have : 0 ≤ (i : K) * ((b - a) / num) := mul_nonneg hi0 (le_of_lt (div_pos hd hn))
    linarith
  · have h1 : (i : K) * ((b - a) / num) < (num : K) * ((b - a) / num) :=
      mul_lt_mul_of_pos_right hi' (div_pos hd hn)
    have h2 : (num : K) * ((b - a) / num) = b - a := by field_simp
    linarith

/-- linear grid with a step: points `min + i·δ`, all in `[min, max)` -/
theorem arange_spec [FloorRing K] (a b d : K) (hd : 0 < d) :
    ∀ x ∈ arange a b d, (∃ i : Nat, x = a + (i : K) * d) ∧ a ≤ x ∧ x < b := by
  intro x hx
  obtain ⟨i, hi, rfl⟩ := mem_affineGrid hx
  refine ⟨⟨i, rfl⟩, ?_, ?_⟩
  · have : 0 ≤ (i : K) * d := mul_nonneg (by exact_mod_cast Nat.zero_le i) (le_of_lt hd)
    linarith
  · have h1 : (i : K) < (b - a) / d := Nat.lt_ceil.mp hi
    have h2 : (i : K) * d < b - a := by
      have := mul_lt_mul_of_pos_right h1 hd
      rwa [div_mul_cancel₀ _ (ne_of_gt hd)] at this
    linarith

/-- log-spaced grids are the images under `10^·` of a uniform grid in `[log₁₀ min, log₁₀ max)` -/
theorem log_grid_spec [FloorRing K] (T : Transc K) (minw maxw : K) (num : Nat)
    (h : T.log10 minw < T.log10 maxw) :
    ∀ x ∈ generateWavelengths T minw maxw num none true,
      ∃ u, x = T.pow10 u ∧ T.log10 minw ≤ u ∧ u < T.log10 maxw := by
  intro x hx
  simp only [generateWavelengths, if_true, List.mem_map] at hx
  obtain ⟨u, hu, rfl⟩ := hx
  exact ⟨u, rfl, ((linspace_spec _ _ num h).2.1 u hu)⟩

/-! ### the default sampling sets resolve their profiles independently of centre, width, amplitude -/

/-- trapezoid integration of `a·f((x−m)/s)` over the grid `m + s·u` is `a·s·T₀` with `T₀` the
trapezoid sum of the canonical profile `f` over the canonical grid `u` — whatever `m`, `s ≠ 0`, `a`.
(Gaussian: `f u = exp(−u²/2)`, `u = −5 + i/10`; Ricker, Lorentz, box likewise.)  Hence the
*relative* quadrature error of a default sampling set is one number per profile shape; its value
(2e-6 for a Gaussian, …) is measured by the correspondence check, not proved. -/
theorem default_sampling_affine_invariant (f : K → K) (a m s : K) (hs : s ≠ 0) (grid : List K) :
    trapz ((grid.map fun u => m + s * u).map fun x => (x, a * f ((x - m) / s))) =
      a * s * trapz (grid.map fun u => (u, f u)) :=
  trapz_affine f a m s hs grid

/-- the Gaussian's default grid `arange(m − 5σ, m + 5σ, 0.1σ)` is the canonical grid mapped by
`u ↦ m + σu` (exactly 100 points in exact arithmetic) -/
theorem gaussianGrid_affine [FloorRing K] (m s : K) (hs : 0 < s) :
    gaussianGrid m s = (gaussianGrid (0 : K) 1).map fun u => m + s * u := by
  have hc1 : (m + 5 * s - (m - 5 * s)) / (s / 10) = 100 := by field_simp; ring
  have hc2 : ((0 : K) + 5 * 1 - (0 - 5 * 1)) / (1 / 10) = 100 := by norm_num
  have h100 : Nat.ceil (100 : K) = 100 := by
    have : (100 : K) = ((100 : Nat) : K) := by norm_num
    rw [this, Nat.ceil_natCast]
  simp only [gaussianGrid, arange, hc1, hc2, h100, affineGrid, List.map_map]
  apply List.map_congr_left
  intro i _
  simp only [Function.comp]
  ring

/-- non-vacuity: three near-coincident points, the two smaller ones are dropped -/
example : filterClose (1 / 10 : ℚ) [1, 2, 3, 61 / 20, 31 / 10, 5] = [1, 2, 31 / 10, 5] := by
  decide +kernel

open Synphot.C13x

/-! ## second round: the remaining claims of the property text -/

/-! ### merging, continued -/

/-- `merge(m, m) = m` for every set that is already valid for the merge: strictly increasing with all
neighbours farther apart than the threshold (not only for results of a merge, `merge_idem`) -/
theorem merge_self (thr : K) (m : List K) (hs : StrictAsc m) (hg : Gaps thr m) :
    mergeWavelengths thr (some m) (some m) = some m := by
  simp only [mergeWavelengths, Option.some.injEq]
  rw [union1d_self m hs, filterClose_of_gaps thr m hg]

/-- argument order and merging twice together: merging the two orders of the same pair gives the pair's
merge again -/
theorem merge_order_and_twice (thr : K) (a b m : List K)
    (h : mergeWavelengths thr (some a) (some b) = some m) :
    mergeWavelengths thr (mergeWavelengths thr (some a) (some b))
      (mergeWavelengths thr (some b) (some a)) = some m := by
  rw [merge_comm thr (some b) (some a), h]
  exact merge_idem thr a b m h

/-- without near-coincidences the merge is the exact sorted union: every input point is kept -/
theorem merge_exact_of_separated (thr : K) (a b m : List K)
    (h : mergeWavelengths thr (some a) (some b) = some m) (hg : Gaps thr (union1d a b)) (x : K) :
    x ∈ m ↔ (x ∈ a ∨ x ∈ b) := by
  simp only [mergeWavelengths, Option.some.injEq] at h; subst h
  rw [filterClose_of_gaps thr _ hg, mem_union1d]

/-- the largest input point is always kept: the merged set ends where the union ends -/
theorem merge_keeps_largest (thr : K) (a b m : List K)
    (h : mergeWavelengths thr (some a) (some b) = some m) :
    m.getLast? = (union1d a b).getLast? := by
  simp only [mergeWavelengths, Option.some.injEq] at h; subst h
  by_cases hu : union1d a b = []
  · rw [hu]; rfl
  · rw [List.getLast?_eq_some_getLast (filterClose_ne_nil thr _ hu),
      List.getLast?_eq_some_getLast hu, filterClose_getLast thr _ hu]

/-- **coverage, exact form.**  Every input point has a point of the merged set at or above it, reached
through `k` consecutive gaps of the union that are all `≤ thr`; `k = 0` when the point itself is kept.
(The property text's "keeps every input point except the smaller of two closer than the threshold"
is this with `k ≤ 1`; runs of more than two near-coincident points collapse onto their largest
member, so `k·thr` is the sharp distance — see the example after `merge_covers_within_thr`.) -/
theorem merge_covers (thr : K) (a b m : List K)
    (h : mergeWavelengths thr (some a) (some b) = some m) (x : K) (hx : x ∈ a ∨ x ∈ b) :
    ∃ y ∈ m, ∃ k : Nat, x ≤ y ∧ y - x ≤ thr * (k : K) ∧ k < a.length + b.length := by
  simp only [mergeWavelengths, Option.some.injEq] at h; subst h
  obtain ⟨y, hy, k, h1, h2, h3⟩ := filterClose_covers thr (union1d a b) (union1d_strictAsc a b) x
    ((mem_union1d a b x).mpr hx)
  exact ⟨y, hy, k, h1, h2, lt_of_lt_of_le h3 (union1d_length_le a b)⟩

/-- **coverage within one threshold**: when no input point has close neighbours on *both* sides, every
input point is kept or has a *kept* point within the threshold above it -/
theorem merge_covers_within_thr (thr : K) (h0 : 0 ≤ thr) (a b m : List K)
    (h : mergeWavelengths thr (some a) (some b) = some m)
    (hiso : ∀ p, (p ∈ a ∨ p ∈ b) → ∀ q, (q ∈ a ∨ q ∈ b) → ∀ r, (r ∈ a ∨ r ∈ b) →
      p < q → q < r → ¬ (q - p ≤ thr ∧ r - q ≤ thr))
    (x : K) (hx : x ∈ a ∨ x ∈ b) : ∃ y ∈ m, x ≤ y ∧ y - x ≤ thr := by
  simp only [mergeWavelengths, Option.some.injEq] at h; subst h
  refine filterClose_covers_isolated thr h0 _ (union1d_strictAsc a b) ?_ x
    ((mem_union1d a b x).mpr hx)
  intro p hp q hq r hr
  exact hiso p ((mem_union1d a b p).mp hp) q ((mem_union1d a b q).mp hq) r ((mem_union1d a b r).mp hr)

/-- the hypothesis of `merge_covers_within_thr` holds for any two sets whose own neighbours are more
than twice the threshold apart (every physical sampling set: `2e-12 Å`) -/
theorem merge_covers_of_wide_gaps (thr : K) (h0 : 0 ≤ thr) (a b m : List K)
    (h : mergeWavelengths thr (some a) (some b) = some m)
    (ha : StrictAsc a) (hb : StrictAsc b) (hga : Gaps (2 * thr) a) (hgb : Gaps (2 * thr) b)
    (x : K) (hx : x ∈ a ∨ x ∈ b) : ∃ y ∈ m, x ≤ y ∧ y - x ≤ thr := by
  refine merge_covers_within_thr thr h0 a b m h ?_ x hx
  intro p hp q hq r hr
  exact isolated_of_gaps thr a b ha hb hga hgb p ((mem_union1d a b p).mpr hp) q
    ((mem_union1d a b q).mpr hq) r ((mem_union1d a b r).mpr hr)

/-! ### composites: arbitrary expression trees -/

/-- a composite's sampling set consists of sampling points of its components only (each multiplied by
the `1+z` of the redshifts enclosing it); extinction curves contribute none -/
theorem composite_no_invented_points (thr : K) (m : Tree K) (w : List K)
    (h : m.sampleset thr = some w) (x : K) (hx : x ∈ w) : x ∈ leafPoints m :=
  sampleset_subset_leafPoints thr m w h x hx

/-- **a composite samples every component**, exact form: in a tree whose merges meet no two points
within the threshold of each other, every sampling point of every component that has a sampling set
is a point of the composite's set — for every expression tree, by induction on the tree -/
theorem composite_contains_components (thr : K) (m : Tree K) (hsep : Separated thr m) (x : K)
    (hx : x ∈ leafPoints m) : ∃ w, m.sampleset thr = some w ∧ x ∈ w :=
  separated_contains thr m hsep x hx

-- NOT PROVABLE ON CURRENT CODE (false for runs of near-coincident points and for nested merges):
--   theorem composite_covers_components (thr) (h0 : 0 ≤ thr) (m) (hz : ZPos m) (x) (hx : x ∈ leafPoints m) :
--       ∃ w, m.sampleset thr = some w ∧ ∃ y ∈ w, x ≤ y ∧ y - x ≤ thr
--   A point dropped at one merge in favour of a neighbour `≤ thr` above it can lose that neighbour at
--   the next merge (or, within one merge, to the next member of a run of close points), and an enclosing
--   redshift stretches the distance by `1+z`.  What holds for every tree is the bound `slack thr m`
--   (one threshold per point handled by each merge on the way to the root, times the enclosing `1+z`):
/-- **a composite samples every component**, general form: for every expression tree (redshifts with
`1+z > 0`) every sampling point of every component has a point of the composite's set at or above it,
at most `slack thr m` away; the set is defined as soon as one component has one -/
theorem composite_covers_components_partial (thr : K) (h0 : 0 ≤ thr) (m : Tree K) (hz : ZPos m)
    (x : K) (hx : x ∈ leafPoints m) :
    ∃ w, m.sampleset thr = some w ∧ ∃ y ∈ w, x ≤ y ∧ y - x ≤ slack thr m :=
  covers thr h0 m hz x hx

/-- extinction curves are excepted, as the code does: neither side of a composite sees their points -/
theorem composite_ignores_extinction (thr : K) (op : BinOp) (m : Tree K) (t : Table K) :
    (Tree.bin op m (.leaf (.extinction t))).sampleset thr = m.sampleset thr ∧
    (Tree.bin op (.leaf (.extinction t)) m).sampleset thr = m.sampleset thr ∧
    leafPoints (Tree.leaf (.extinction t) : Tree K) = [] := by
  refine ⟨?_, ?_, rfl⟩
  · simp only [Tree.sampleset, Leaf.sampleset]; exact (merge_none thr _).1
  · simp only [Tree.sampleset, Leaf.sampleset]; exact (merge_none thr _).2

/-- a composite of two components with sampling sets is always sorted with neighbours farther apart
than the threshold: `waveset` returns it, or refuses it for a non-positive wavelength — never for
order or duplicates -/
theorem waveset_composite (thr : K) (op : BinOp) (l r : Tree K) (wl wr : List K)
    (hl : l.sampleset thr = some wl) (hr : r.sampleset thr = some wr) :
    (Tree.bin op l r).waveset thr = .error .zeroWavelength ∨
    ∃ w, (Tree.bin op l r).waveset thr = .ok (some w) ∧ StrictAsc w ∧ Gaps thr w ∧ ∀ x ∈ w, 0 < x := by
  have hs : (Tree.bin op l r).sampleset thr = some (filterClose thr (union1d wl wr)) := by
    simp [Tree.sampleset, hl, hr, mergeWavelengths]
  have hasc := filterClose_strictAsc thr _ (union1d_strictAsc wl wr)
  have hgap := filterClose_gaps thr _ (union1d_strictAsc wl wr)
  by_cases hp : ∀ x ∈ filterClose thr (union1d wl wr), 0 < x
  · right
    refine ⟨_, ?_, hasc, hgap, hp⟩
    unfold Tree.waveset
    rw [hs]
    have := (validate_ok_iff _).mpr ⟨hp, Or.inl hasc⟩
    simp [this, bind, Except.bind, pure, Except.pure]
  · left
    push Not at hp
    obtain ⟨x, hx, hx0⟩ := hp
    exact waveset_refuses_nonpositive thr _ _ hs x hx hx0

/-- scalar multiplication does not change `waveset` (validation included) -/
theorem waveset_scale (thr k : K) (m : Tree K) : (Tree.scale m k).waveset thr = m.waveset thr := rfl

/-- under a redshift with `1+z > 0` `waveset` — errors included — is the rest-frame `waveset` with every
wavelength multiplied by `1+z` -/
theorem waveset_redshift (thr z : K) (hz : 0 < 1 + z) (m : Tree K) :
    (Tree.redshift z m).waveset thr =
      (m.waveset thr).map (fun o => o.map (fun w => w.map (· * (1 + z)))) := by
  unfold Tree.waveset
  simp only [Tree.sampleset]
  cases hs : m.sampleset thr with
  | none => rfl
  | some w =>
    simp only [Option.map_some, validate_map_mul (1 + z) hz w]
    cases validateWavelengths w <;> rfl

/-- multiplying or dividing a spectrum object of any class by a number leaves its sampling set alone -/
theorem waveset_scalar_op (thr : K) (op : BinOp) (self r : Spec K) (v : K) (a : Tree K)
    (h : specOp op self (.real v) = .ok r) (ha : self.model = .ok a) :
    ∃ b, r.model = .ok b ∧ b.waveset thr = a.waveset thr := by
  obtain ⟨k, t, _, ht, rfl⟩ := specOp_ok h
  refine ⟨t, ofTree_model k t, ?_⟩
  unfold Tree.waveset
  rw [resultTree_scalar_sampleset thr op self v t a ht ha]

/-! ### `waveset`: refusal instead of an invalid set -/

/-- `waveset` returns a set exactly when the sampling set is positive and strictly monotone -/
theorem waveset_ok_iff (thr : K) (m : Tree K) (w : List K) :
    m.waveset thr = .ok (some w) ↔
      (m.sampleset thr = some w ∧ (∀ x ∈ w, 0 < x) ∧ (StrictAsc w ∨ StrictDesc w)) := by
  unfold Tree.waveset
  cases hs : m.sampleset thr with
  | none => simp
  | some w' =>
    dsimp only
    cases hv : validateWavelengths w' with
    | error e =>
      simp only [bind, Except.bind, Option.some.injEq]
      constructor
      · intro h; cases h
      · rintro ⟨rfl, hp⟩
        rw [(validate_ok_iff w').mpr hp] at hv; cases hv
    | ok u =>
      cases u
      simp only [bind, Except.bind, pure, Except.pure, Except.ok.injEq, Option.some.injEq]
      constructor
      · rintro rfl; exact ⟨rfl, (validate_ok_iff w').mp hv⟩
      · rintro ⟨rfl, _⟩; rfl

/-- the outcomes of `waveset`: undefined exactly when no component has a sampling set, otherwise the
set itself or one of the three refusals — nothing else, in particular never a different set -/
theorem waveset_outcomes (thr : K) (m : Tree K) :
    (m.waveset thr = .ok none ∧ m.sampleset thr = none) ∨
    (∃ w, m.sampleset thr = some w ∧
      (m.waveset thr = .ok (some w) ∨ m.waveset thr = .error .zeroWavelength ∨
       m.waveset thr = .error .unsortedWavelength ∨ m.waveset thr = .error .duplicateWavelength)) := by
  unfold Tree.waveset
  cases hs : m.sampleset thr with
  | none => left; exact ⟨rfl, rfl⟩
  | some w =>
    right
    refine ⟨w, rfl, ?_⟩
    simp only [validateWavelengths]
    split_ifs <;> simp [bind, Except.bind, pure, Except.pure]

/-! ### generated grids, continued -/

/-- `generate_wavelengths(min, max, num, log=False)`: exactly `num` points `min + i·(max−min)/num`, all
in `[min, max)` — strictly below `max` —, uniformly spaced and strictly increasing -/
theorem gen_linear_num [FloorRing K] (T : Transc K) (lo hi : K) (num : Nat) (h : lo < hi) :
    let g := generateWavelengths T lo hi num none false
    g.length = num ∧ (∀ x ∈ g, lo ≤ x ∧ x < hi) ∧
    (∀ i, i < num → g[i]? = some (lo + (i : K) * ((hi - lo) / num))) ∧
    UniformStep ((hi - lo) / num) g ∧ StrictAsc g := by
  simp only [generateWavelengths, Bool.false_eq_true, if_false]
  refine ⟨(linspace_spec lo hi num h).1, (linspace_spec lo hi num h).2.1, ?_, ?_, ?_⟩
  · intro i hi'; exact affineGrid_getElem? _ _ _ _ hi'
  · exact affineGrid_uniform _ _ _
  · by_cases hn : num = 0
    · subst hn; simp [linspaceOpen, affineGrid_zero, StrictAsc]
    · exact affineGrid_strictAsc _ _ (div_pos (sub_pos.mpr h)
        (by exact_mod_cast Nat.pos_of_ne_zero hn)) _

/-- `generate_wavelengths(min, max, delta=d, log=False)`: the points `min + i·d` that are below `max` —
all of them (`count` is the least `n` with `min + n·d ≥ max`), so the step is `d` and no point reaches
`max` -/
theorem gen_linear_delta [FloorRing K] (T : Transc K) (lo hi d : K) (num : Nat) (hd : 0 < d) :
    let g := generateWavelengths T lo hi num (some d) false
    (∀ x ∈ g, lo ≤ x ∧ x < hi) ∧
    (∀ i, i < g.length → g[i]? = some (lo + (i : K) * d)) ∧
    UniformStep d g ∧ StrictAsc g ∧
    hi ≤ lo + (g.length : K) * d ∧ (∀ n : Nat, hi ≤ lo + (n : K) * d → g.length ≤ n) := by
  simp only [generateWavelengths, Bool.false_eq_true, if_false]
  refine ⟨fun x hx => (arange_spec lo hi d hd x hx).2, ?_, affineGrid_uniform _ _ _,
    affineGrid_strictAsc _ _ hd _, ?_, ?_⟩
  · intro i hi'
    unfold arange at hi' ⊢
    rw [affineGrid_length] at hi'
    exact affineGrid_getElem? _ _ _ _ hi'
  · unfold arange; rw [affineGrid_length]
    have := Nat.le_ceil ((hi - lo) / d)
    rw [div_le_iff₀ hd] at this
    linarith
  · intro n hn
    unfold arange; rw [affineGrid_length]
    apply Nat.ceil_le.mpr
    rw [div_le_iff₀ hd]; linarith

/-- exact multiple: when `max − min = k·d` the grid has exactly `k` points and its last point is
`max − d` (the end point itself is excluded) -/
theorem arange_exact_multiple [FloorRing K] (a b d : K) (k : Nat) (hd : 0 < d)
    (h : b - a = ((k + 1 : Nat) : K) * d) :
    (arange a b d).length = k + 1 ∧ (arange a b d).getLast? = some (b - d) := by
  have hl := arange_length_of_multiple a b d (k + 1) hd h
  refine ⟨hl, ?_⟩
  unfold arange at hl ⊢
  rw [affineGrid_length] at hl
  rw [hl, affineGrid_getLast?]
  congr 1
  push_cast at h
  linarith

/-- a linear grid starting at a positive wavelength is a valid wavelength set -/
theorem gen_linear_valid [FloorRing K] (T : Transc K) (lo hi : K) (num : Nat) (delta : Option K)
    (h0 : 0 < lo) (h : lo < hi) (hd : ∀ d, delta = some d → 0 < d) :
    validateWavelengths (generateWavelengths T lo hi num delta false) = .ok () := by
  rw [validate_ok_iff]
  cases delta with
  | none =>
    obtain ⟨_, hr, _, _, hs⟩ := gen_linear_num T lo hi num h
    exact ⟨fun x hx => lt_of_lt_of_le h0 (hr x hx).1, Or.inl hs⟩
  | some d =>
    obtain ⟨hr, _, _, hs, _⟩ := gen_linear_delta T lo hi d num (hd d rfl)
    exact ⟨fun x hx => lt_of_lt_of_le h0 (hr x hx).1, Or.inl hs⟩

/-- monotone `10^x` puts the image of `[log₁₀ min, log₁₀ max)` into `[min, max)` -/
theorem pow10_range (T : Transc K) (hT : T.Lawful) (minw maxw u : K)
    (h0 : 0 < minw) (h1 : 0 < maxw) (hu : T.log10 minw ≤ u ∧ u < T.log10 maxw) :
    minw ≤ T.pow10 u ∧ T.pow10 u < maxw := by
  have hmono : StrictMono T.pow10 := fun a b hab => hT.pow10_strictMono a b hab
  constructor
  · rw [← hT.pow10_log10 minw h0]; exact hmono.monotone hu.1
  · rw [← hT.pow10_log10 maxw h1]; exact hmono hu.2

/-- `generate_wavelengths(min, max, num, log=True)`: `num` points, all in `[min, max)`, strictly
increasing, neighbours in the constant ratio `10^((log max − log min)/num)` (uniform in log space) -/
theorem gen_log_num [FloorRing K] (T : Transc K) (hT : T.Lawful)
    (minw maxw : K) (num : Nat) (h0 : 0 < minw) (h : minw < maxw) :
    let g := generateWavelengths T minw maxw num none true
    g.length = num ∧ (∀ x ∈ g, minw ≤ x ∧ x < maxw) ∧
    UniformRatio (T.pow10 ((T.log10 maxw - T.log10 minw) / num)) g ∧ StrictAsc g := by
  have hmono : StrictMono T.pow10 := fun a b hab => hT.pow10_strictMono a b hab
  have h1 : 0 < maxw := lt_trans h0 h
  have hlog : T.log10 minw < T.log10 maxw := by
    by_contra hc
    have := hmono.monotone (not_lt.mp hc)
    rw [hT.pow10_log10 _ h0, hT.pow10_log10 _ h1] at this
    exact absurd h (not_lt.mpr this)
  simp only [generateWavelengths, if_true]
  refine ⟨by rw [List.length_map]; exact (linspace_spec _ _ num hlog).1, ?_, ?_, ?_⟩
  · intro x hx
    rw [List.mem_map] at hx
    obtain ⟨u, hu, rfl⟩ := hx
    exact pow10_range T hT minw maxw u h0 h1 ((linspace_spec _ _ num hlog).2.1 u hu)
  · exact uniformRatio_map_pow10 T hT _ _ (affineGrid_uniform _ _ _)
  · by_cases hn : num = 0
    · subst hn; simp [linspaceOpen, affineGrid_zero, StrictAsc]
    · have := affineGrid_strictAsc (T.log10 minw) ((T.log10 maxw - T.log10 minw) / num)
        (div_pos (sub_pos.mpr hlog) (by exact_mod_cast Nat.pos_of_ne_zero hn)) num
      rw [strictAsc_iff_chain] at this ⊢
      exact List.isChain_map_of_isChain T.pow10 (fun a b hab => hmono hab) this

/-- `generate_wavelengths(min, max, delta=d, log=True)`: the points `10^(log min + i·d)` below `max`,
all in `[min, max)`, strictly increasing, neighbours in the constant ratio `10^d` -/
theorem gen_log_delta [FloorRing K] (T : Transc K) (hT : T.Lawful)
    (minw maxw d : K) (num : Nat) (h0 : 0 < minw) (h1 : 0 < maxw) (hd : 0 < d) :
    let g := generateWavelengths T minw maxw num (some d) true
    (∀ x ∈ g, minw ≤ x ∧ x < maxw) ∧
    (∀ i, i < g.length → g[i]? = some (T.pow10 (T.log10 minw + (i : K) * d))) ∧
    UniformRatio (T.pow10 d) g ∧ StrictAsc g := by
  have hmono : StrictMono T.pow10 := fun a b hab => hT.pow10_strictMono a b hab
  simp only [generateWavelengths, if_true]
  refine ⟨?_, ?_, ?_, ?_⟩
  · intro x hx
    rw [List.mem_map] at hx
    obtain ⟨u, hu, rfl⟩ := hx
    exact pow10_range T hT minw maxw u h0 h1 (arange_spec _ _ d hd u hu).2
  · intro i hi'
    rw [List.length_map] at hi'
    unfold arange at hi' ⊢
    rw [affineGrid_length] at hi'
    rw [List.getElem?_map, affineGrid_getElem? _ _ _ _ hi']; rfl
  · exact uniformRatio_map_pow10 T hT _ _ (affineGrid_uniform _ _ _)
  · have := affineGrid_strictAsc (T.log10 minw) d hd (Nat.ceil ((T.log10 maxw - T.log10 minw) / d))
    unfold arange
    rw [strictAsc_iff_chain] at this ⊢
    exact List.isChain_map_of_isChain T.pow10 (fun a b hab => hmono hab) this

/-- the hypotheses of the two log-grid theorems are met by the real functions -/
theorem real_pow10_strictMono : StrictMono Transc.real.pow10 := by
  intro x y hxy
  simp only [Transc.real_pow10]
  exact Real.rpow_lt_rpow_of_exponent_lt (by norm_num) hxy

/-! ### non-vacuity of the second round (concrete rational data) -/

/-- the union used by the examples below, computed by hand -/
private theorem ex_union : union1d ([4, 5, 6] : List ℚ) [9 / 2, 5, 11 / 2] = [4, 9 / 2, 5, 11 / 2, 6] := by
  apply union1d_eq_of
  · simp only [StrictAsc]; norm_num
  · intro x; simp only [List.mem_cons, List.not_mem_nil, or_false]; tauto

private def exTree : Tree ℚ :=
  .bin .add (.leaf (.box 1 5 2 (some [4, 5, 6]))) (.scale (.leaf (.gaussian 1 5 1 (some [9 / 2, 5, 11 / 2]))) 3)

private theorem ex_merge :
    mergeWavelengths (1 / 10 : ℚ) (some [4, 5, 6]) (some [9 / 2, 5, 11 / 2]) = some [4, 9 / 2, 5, 11 / 2, 6] := by
  simp only [mergeWavelengths, ex_union]
  decide +kernel

private theorem exTree_sampleset : exTree.sampleset (1 / 10) = some [4, 9 / 2, 5, 11 / 2, 6] := by
  simp only [exTree, Tree.sampleset, Leaf.sampleset]
  exact ex_merge

private theorem ex_gaps : Gaps (1 / 10 : ℚ) (union1d [4, 5, 6] [9 / 2, 5, 11 / 2]) := by
  rw [ex_union]; simp only [Gaps]; norm_num

private theorem exTree_separated : Separated (1 / 10) exTree := by
  refine ⟨trivial, trivial, ?_⟩
  intro wl wr hl hr
  simp only [Tree.sampleset, Leaf.sampleset, Option.some.injEq] at hl hr
  subst hl; subst hr
  exact ex_gaps

private theorem exTree_leafPoints : leafPoints exTree = [4, 5, 6, 9 / 2, 5, 11 / 2] := rfl

private def exT : Transc ℚ := ⟨id, id, id, id, id, id, id, fun x _ => x, 0, id, id⟩

private def exTable : Table ℚ := { pts := [1, 2], vals := [0, 0], keepNeg := false, fillNaN := false }

example : mergeWavelengths (1 / 10 : ℚ) (some [1, 2]) (some [1, 2]) = some [1, 2] :=
  merge_self _ _ (by simp only [StrictAsc]; norm_num) (by simp only [Gaps]; norm_num)

example : mergeWavelengths (1 / 10 : ℚ)
    (mergeWavelengths (1 / 10) (some [4, 5, 6]) (some [9 / 2, 5, 11 / 2]))
    (mergeWavelengths (1 / 10) (some [9 / 2, 5, 11 / 2]) (some [4, 5, 6])) = some [4, 9 / 2, 5, 11 / 2, 6] :=
  merge_order_and_twice _ _ _ _ ex_merge

example : (11 / 2 : ℚ) ∈ [4, 9 / 2, 5, 11 / 2, 6] ↔ ((11 / 2 : ℚ) ∈ [4, 5, 6] ∨ (11 / 2 : ℚ) ∈ [9 / 2, 5, 11 / 2]) :=
  merge_exact_of_separated _ _ _ _ ex_merge ex_gaps _

example : ([4, 9 / 2, 5, 11 / 2, 6] : List ℚ).getLast? = (union1d [4, 5, 6] [9 / 2, 5, 11 / 2]).getLast? :=
  merge_keeps_largest _ _ _ _ ex_merge

example : ∃ y ∈ ([4, 9 / 2, 5, 11 / 2, 6] : List ℚ), ∃ k : Nat, 4 ≤ y ∧ y - 4 ≤ 1 / 10 * (k : ℚ) ∧ k < 3 + 3 :=
  merge_covers _ _ _ _ ex_merge 4 (Or.inl (by simp))

/-- a run of four near-coincident points (each input's own neighbours are farther apart than the
threshold 1): only the largest survives, `0` ends up `9/5` — three gaps — below the nearest kept point.
This is why `merge_covers` counts gaps and why "within the threshold" needs `merge_covers_within_thr`'s
hypothesis. -/
example : mergeWavelengths (1 : ℚ) (some [0, 6 / 5]) (some [3 / 5, 9 / 5]) = some [9 / 5] := by
  have hu : union1d ([0, 6 / 5] : List ℚ) [3 / 5, 9 / 5] = [0, 3 / 5, 6 / 5, 9 / 5] := by
    apply union1d_eq_of
    · simp only [StrictAsc]; norm_num
    · intro x; simp only [List.mem_cons, List.not_mem_nil, or_false]; tauto
  simp only [mergeWavelengths, hu]
  decide +kernel

private theorem ex_merge2 : mergeWavelengths (1 / 10 : ℚ) (some [1]) (some [21 / 20]) = some [21 / 20] := by
  have hu : union1d ([1] : List ℚ) [21 / 20] = [1, 21 / 20] := by
    apply union1d_eq_of
    · simp only [StrictAsc]; norm_num
    · intro x; simp only [List.mem_cons, List.not_mem_nil, or_false]
  simp only [mergeWavelengths, hu]
  decide +kernel

example : ∃ y ∈ ([21 / 20] : List ℚ), 1 ≤ y ∧ y - 1 ≤ 1 / 10 := by
  refine merge_covers_within_thr (1 / 10) (by norm_num) [1] [21 / 20] _ ex_merge2 ?_ 1 (Or.inl (by simp))
  intro p hp q hq r hr hpq hqr
  simp only [List.mem_cons, List.not_mem_nil, or_false] at hp hq hr
  rcases hp with rfl | rfl <;> rcases hq with rfl | rfl <;> rcases hr with rfl | rfl <;>
    (intro _; linarith)

example : ∃ y ∈ ([4, 9 / 2, 5, 11 / 2, 6] : List ℚ), 5 ≤ y ∧ y - 5 ≤ 1 / 10 :=
  merge_covers_of_wide_gaps (1 / 10) (by norm_num) _ _ _ ex_merge
    (by simp only [StrictAsc]; norm_num) (by simp only [StrictAsc]; norm_num)
    (by simp only [Gaps]; norm_num) (by simp only [Gaps]; norm_num) 5 (Or.inl (by simp))

example : (9 / 2 : ℚ) ∈ leafPoints exTree :=
  composite_no_invented_points (1 / 10) exTree _ exTree_sampleset _ (by simp)

example : ∃ w, exTree.sampleset (1 / 10) = some w ∧ (11 / 2 : ℚ) ∈ w :=
  composite_contains_components (1 / 10) exTree exTree_separated _ (by rw [exTree_leafPoints]; simp)

/-- a redshifted composite: the component point `4` is seen at `8` -/
example : ∃ w, (Tree.redshift 1 exTree).sampleset (1 / 10) = some w ∧
    ∃ y ∈ w, (8 : ℚ) ≤ y ∧ y - 8 ≤ slack (1 / 10) (Tree.redshift 1 exTree) :=
  composite_covers_components_partial (1 / 10) (by norm_num) _
    (by simp only [ZPos, exTree]; norm_num) 8
    (by simp only [leafPoints, exTree_leafPoints, List.mem_map]; exact ⟨4, by simp, by norm_num⟩)

example : (Tree.bin .mul exTree (.leaf (.extinction exTable))).sampleset (1 / 10) = exTree.sampleset (1 / 10) :=
  (composite_ignores_extinction _ _ _ _).1

example : exTree.waveset (1 / 10) = .error .zeroWavelength ∨
    ∃ w, exTree.waveset (1 / 10) = .ok (some w) ∧ StrictAsc w ∧ Gaps (1 / 10) w ∧ ∀ x ∈ w, 0 < x :=
  waveset_composite (1 / 10) .add _ _ [4, 5, 6] [9 / 2, 5, 11 / 2] rfl rfl

example : exTree.waveset (1 / 10) = .ok (some [4, 9 / 2, 5, 11 / 2, 6]) :=
  (waveset_ok_iff _ _ _).mpr ⟨exTree_sampleset, by intro x hx; simp at hx; rcases hx with rfl | rfl | rfl | rfl | rfl <;> norm_num,
    Or.inl (by simp only [StrictAsc]; norm_num)⟩

/-- the refusal branch of `waveset_composite` / `waveset_outcomes` occurs: a blueshift cannot produce it
(`1+z > 0`), a component reaching zero does -/
example : (Tree.bin .add (.leaf (.box (1 : ℚ) 1 2 (some [0, 1, 2]))) (.leaf (.box 1 1 2 (some [0, 1, 2])))).waveset (1 / 10)
    = .error .zeroWavelength := by
  have hu : union1d ([0, 1, 2] : List ℚ) [0, 1, 2] = [0, 1, 2] :=
    union1d_self _ (by simp only [StrictAsc]; norm_num)
  have hs : (Tree.bin .add (.leaf (.box (1 : ℚ) 1 2 (some [0, 1, 2]))) (.leaf (.box 1 1 2 (some [0, 1, 2])))).sampleset (1 / 10)
      = some [0, 1, 2] := by
    simp only [Tree.sampleset, Leaf.sampleset, mergeWavelengths, hu]
    decide +kernel
  exact waveset_refuses_nonpositive _ _ _ hs 0 (by simp) (le_refl _)

example : (Tree.scale exTree 7).waveset (1 / 10) = exTree.waveset (1 / 10) := waveset_scale _ _ _

example : (Tree.redshift 1 exTree).waveset (1 / 10) =
    (exTree.waveset (1 / 10)).map (fun o => o.map (fun w => w.map (· * (1 + 1)))) :=
  waveset_redshift _ 1 (by norm_num) _

example : ∃ b, (Spec.ofTree .source (.scale exTree 2)).model = .ok b ∧ b.waveset (1 / 10) = exTree.waveset (1 / 10) :=
  waveset_scalar_op (1 / 10) .mul (Spec.ofTree .source exTree) _ 2 exTree
    (by simp [specOp, typing, resultTree, Spec.ofTree, Spec.model, ZState.model, ZState.init, Operand.tag,
          exTree, bind, Except.bind, pure, Except.pure])
    (ofTree_model _ _)

example := waveset_outcomes (1 / 10 : ℚ) exTree

example : generateWavelengths exT 1 2 4 none false = [1, 5 / 4, 3 / 2, 7 / 4] := by decide +kernel
example : (generateWavelengths exT 1 2 4 none false).length = 4 := (gen_linear_num exT 1 2 4 (by norm_num)).1

example : generateWavelengths exT 0 1 4 (some (3 / 10)) false = [0, 3 / 10, 3 / 5, 9 / 10] := by decide +kernel
example : ∀ x ∈ generateWavelengths exT 0 1 4 (some (3 / 10)) false, (0 : ℚ) ≤ x ∧ x < 1 :=
  (gen_linear_delta exT 0 1 (3 / 10) 4 (by norm_num)).1

example : arange (0 : ℚ) 1 (1 / 4) = [0, 1 / 4, 1 / 2, 3 / 4] := by decide +kernel
example : (arange (0 : ℚ) 1 (1 / 4)).length = 3 + 1 ∧ (arange (0 : ℚ) 1 (1 / 4)).getLast? = some (1 - 1 / 4) :=
  arange_exact_multiple 0 1 (1 / 4) 3 (by norm_num) (by norm_num)

example : validateWavelengths (generateWavelengths exT 1 2 4 (some (1 / 4)) false) = .ok () :=
  gen_linear_valid exT 1 2 4 _ (by norm_num) (by norm_num) (by intro d hd; cases hd; norm_num)

private theorem logb_100 : Real.logb 10 100 = 2 := by
  rw [show (100 : ℝ) = (10 : ℝ) ^ (2 : ℝ) by norm_num, Real.logb_rpow (by norm_num) (by norm_num)]

/-- the default-style log grid between 1 and 100 with two points: `[10⁰, 10¹]` -/
example : generateWavelengths Transc.real 1 100 2 none true = [1, 10] := by
  simp [generateWavelengths, linspaceOpen, affineGrid, List.range_succ, logb_100]

example : (generateWavelengths Transc.real 1 100 2 none true).length = 2 :=
  (gen_log_num Transc.real Transc.real_lawful 1 100 2 (by norm_num) (by norm_num)).1

example : ∀ x ∈ generateWavelengths Transc.real 1 100 2 (some (1 / 2)) true, (1 : ℝ) ≤ x ∧ x < 100 :=
  (gen_log_delta Transc.real Transc.real_lawful 1 100 (1 / 2) 2 (by norm_num)
    (by norm_num) (by norm_num)).1

example : (1 : ℝ) ≤ Transc.real.pow10 1 ∧ Transc.real.pow10 1 < 100 :=
  pow10_range Transc.real Transc.real_lawful 1 100 1 (by norm_num) (by norm_num)
    (by simp [logb_100])

end Synphot.C13
