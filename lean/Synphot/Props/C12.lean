/-
  C12 — Analytic integration returns the true integral of the model.

  The `integrate` methods of synphot/models.py are modelled in `Core/Analytic.lean` exactly as
  coded, generically over an ordered field `K` and a record `T` of transcendental functions.
  Here they are instantiated at `K = ℝ`, `T = Transc.real` (Mathlib's `Real.exp`, `Real.arctan`,
  `Real.rpow`, `Real.sqrt`, `Real.pi`; lawful by `Transc.real_lawful`) and shown to return
  *exactly* Mathlib's integral of the modelled `evaluate` closed form: the interval integral
  over `[min x, max x]` for the constant, power-law, Lorentzian and Ricker models (unsigned
  area for the Ricker wavelet), the integral over the whole real line for the box, trapezoid
  and Gaussian models.  The dispatch logic of `BaseSpectrum.integrate` (`specIntegrate`) is
  characterised for every `K` and `T`.

  Stefan–Boltzmann (`blackbody_integral`) is proved modulo the numerical identity
  `σ_SB = 2π⁵k⁴/(15h³c²)` between the shipped constants, which the harness measures.
-/
import Synphot.Lemmas.Analytic
import Synphot.Lemmas.BlackBodyIntegral

set_option linter.unusedSectionVars false
set_option linter.unusedVariables false

namespace Synphot.C12
open Synphot MeasureTheory

/-! ## the coded closed forms are the true integrals (K = ℝ) -/

/-- `ConstFlux1D.integrate`, per-wavelength amplitude: `∫ a dλ` over the requested limits,
in flux unit × Angstrom -/
theorem const_integral (c amp : ℝ) (u : AmpUnit ℝ) (x : List ℝ) (hx : x ≠ [])
    (hu : u.perHz = false) :
    constIntegrate c amp u x = .ok (∫ t in minL x..maxL x, constEval amp t, .fluxLen u) := by
  simp only [constIntegrate, if_neg hx, hu, constEval, intervalIntegral.integral_const, smul_eq_mul]
  simp

/-- `ConstFlux1D.integrate`, per-frequency amplitude: `∫ a dν` over the frequencies `c/λ` of the
requested limits, in flux unit × Hz -/
theorem const_integral_perHz (c amp : ℝ) (u : AmpUnit ℝ) (x : List ℝ) (hx : x ≠ [])
    (hp : ∀ w ∈ x, 0 < w) (hu : u.perHz = true) :
    constIntegrate c amp u x
      = .ok (∫ t in minL (x.map (c / ·))..maxL (x.map (c / ·)), constEval amp t, .fluxHz u) := by
  have h0 : x.any (fun w => decide (w = 0)) = false := by
    rw [List.any_eq_false]
    intro w hw
    simpa using (hp w hw).ne'
  simp only [constIntegrate, if_neg hx, hu, h0, constEval, intervalIntegral.integral_const, smul_eq_mul]
  simp

/-- the frequency limits of a wavelength array: `[c / max λ, c / min λ]` -/
theorem freq_range (c : ℝ) (hc : 0 < c) (x : List ℝ) (hx : x ≠ []) (hp : ∀ w ∈ x, 0 < w) :
    minL (x.map (c / ·)) = c / maxL x ∧ maxL (x.map (c / ·)) = c / minL x := by
  have hne : x.map (c / ·) ≠ [] := by simpa using hx
  constructor
  · apply le_antisymm
    · exact minL_le (List.mem_map.mpr ⟨_, maxL_mem hx, rfl⟩)
    · obtain ⟨w, hw, e⟩ := List.mem_map.mp (minL_mem hne)
      rw [← e]
      exact div_le_div_of_nonneg_left hc.le (hp w hw) (le_maxL hw)
  · apply le_antisymm
    · obtain ⟨w, hw, e⟩ := List.mem_map.mp (maxL_mem hne)
      rw [← e]
      exact div_le_div_of_nonneg_left hc.le (minL_pos hx hp) (minL_le hw)
    · exact le_maxL (List.mem_map.mpr ⟨_, minL_mem hx, rfl⟩)

/-- the general branch of `PowerLawFlux1D.integrate` (reference point `t₀`, exponent `e`,
logarithm when `1 + e = 0`) is the integral of `a (t/t₀)^e` over `[lo, hi]`, for every exponent -/
theorem powerLawBranch_integral (amp t0 e a b : ℝ) (ht0 : 0 < t0) (ha : 0 < a) (hab : a ≤ b) :
    powerLawBranch Transc.real amp t0 e a b = .ok (∫ t in a..b, amp * (t / t0) ^ e) := by
  by_cases h : 1 + e = 0
  · have he : e = -(1 : ℝ) := by linarith
    have h1 : ¬ a = 0 := ha.ne'
    have h2 : ¬ b / a ≤ 0 := not_le.mpr (div_pos (ha.trans_le hab) ha)
    simp only [powerLawBranch, if_pos h, if_neg h1, if_neg h2, Transc.real_ln]
    rw [he, integral_powerLaw_one amp t0 a b ht0 ha hab]
  · have hd : Transc.real.rpow t0 e * (1 + e) ≠ 0 :=
      mul_ne_zero (Real.rpow_pos_of_pos ht0 _).ne' h
    simp only [powerLawBranch, if_neg h]
    rw [if_neg hd]
    simp only [Transc.real_rpow]
    have hal : -e ≠ 1 := fun hh => h (by linarith)
    have := integral_powerLaw amp t0 (-e) a b ht0 ha hab hal
    simp only [neg_neg, sub_neg_eq_add] at this
    rw [this]

/-- `PowerLawFlux1D.integrate`, per-wavelength amplitude, **every** index (the logarithm at
`α = 1` included): `∫ a (λ/x₀)^(−α) dλ` over the requested limits, in flux unit × Angstrom -/
theorem powerLaw_integral (c amp x0 al : ℝ) (u : AmpUnit ℝ) (x : List ℝ) (hx : x ≠ [])
    (hp : ∀ w ∈ x, 0 < w) (hx0 : 0 < x0) (hu : u.perHz = false) :
    powerLawIntegrate c Transc.real amp x0 al u x
      = .ok (∫ t in minL x..maxL x, powerLawEval Transc.real amp x0 al t, .fluxLen u) := by
  simp only [powerLawIntegrate, if_neg hx, hu, powerLawEval, Transc.real_rpow]
  rw [powerLawBranch_integral amp x0 (-al) _ _ hx0 (minL_pos hx hp) (minL_le_maxL hx)]
  rfl

/-- `PowerLawFlux1D.integrate`, per-frequency amplitude, **every** index (the logarithm at
`α = −1` included): `∫ F_ν dν` over the frequencies `c/λ` of the requested limits, where `F_ν` at
frequency `ν` is the model evaluated at the wavelength `c/ν`; in flux unit × Hz -/
theorem powerLaw_integral_perHz (c amp x0 al : ℝ) (u : AmpUnit ℝ) (x : List ℝ) (hx : x ≠ [])
    (hp : ∀ w ∈ x, 0 < w) (hc : 0 < c) (hx0 : 0 < x0) (hu : u.perHz = true) :
    powerLawIntegrate c Transc.real amp x0 al u x
      = .ok (∫ t in minL (x.map (c / ·))..maxL (x.map (c / ·)),
              powerLawEval Transc.real amp x0 al (c / t), .fluxHz u) := by
  have h0 : x.any (fun w => decide (w = 0)) = false := by
    rw [List.any_eq_false]
    intro w hw
    simpa using (hp w hw).ne'
  have hne : x.map (c / ·) ≠ [] := by simpa using hx
  have hpos : ∀ v ∈ x.map (c / ·), 0 < v := by
    intro v hv
    obtain ⟨w, hw, rfl⟩ := List.mem_map.mp hv
    exact div_pos hc (hp w hw)
  have hlo := minL_pos hne hpos
  have hle := minL_le_maxL hne
  have hnu0 : 0 < c / x0 := div_pos hc hx0
  simp only [powerLawIntegrate, if_neg hx, hu, if_true, if_neg hx0.ne', h0, Bool.false_eq_true, if_false]
  rw [powerLawBranch_integral amp (c / x0) al _ _ hnu0 hlo hle]
  have hcongr : Set.EqOn (fun t : ℝ => amp * (t / (c / x0)) ^ al)
      (fun t => powerLawEval Transc.real amp x0 al (c / t))
      (Set.uIcc (minL (x.map (c / ·))) (maxL (x.map (c / ·)))) := by
    intro t ht
    rw [Set.uIcc_of_le hle] at ht
    have ht0 : 0 < t := hlo.trans_le ht.1
    have hy : 0 < t / (c / x0) := div_pos ht0 hnu0
    have e : c / t / x0 = (t / (c / x0))⁻¹ := by
      field_simp
    simp only [powerLawEval, Transc.real_rpow]
    rw [e, Real.inv_rpow hy.le, Real.rpow_neg hy.le, inv_inv]
  rw [intervalIntegral.integral_congr hcongr]
  rfl

/-- `Lorentz1D.integrate`: `∫ a γ²/((λ−x₀)²+γ²) dλ` over the requested limits -/
theorem lorentz_integral (amp x0 fwhm : ℝ) (x : List ℝ) (hx : x ≠ []) (hf : 0 < fwhm) :
    lorentzIntegrate Transc.real amp x0 fwhm x
      = .ok (∫ t in minL x..maxL x, lorentzEval amp x0 fwhm t) := by
  have hg : fwhm * (1 / 2) ≠ 0 := by positivity
  simp only [lorentzIntegrate, if_neg hx, if_neg hg, Transc.real_atan, lorentzEval]
  have e : fwhm / 2 = fwhm * (1 / 2) := by ring
  rw [e, integral_lorentz amp x0 (fwhm * (1 / 2)) _ _ hg]

/-- `Box1D.integrate`: the integral of the box over its whole profile (any limits) -/
theorem box_integral (amp x0 w : ℝ) (hw : 0 ≤ w) :
    boxIntegrate amp w = ∫ t : ℝ, boxEval amp x0 w t := by
  rw [integral_box amp x0 w hw]; rfl

/-- `Trapezoid1D.integrate`: the integral of the trapezoid over its whole profile -/
theorem trapezoid_integral (amp x0 w s : ℝ) (ha : 0 ≤ amp) (hs : 0 < s) (hw : 0 ≤ w) :
    trapezoidIntegrate amp w s = .ok (∫ t : ℝ, trapezoidEval amp x0 w s t) := by
  rw [integral_trapezoid amp x0 w s ha hs hw]
  simp [trapezoidIntegrate, hs.ne']

/-- `Gaussian1D.integrate` (and `GaussianFlux1D.integrate`): the integral of the Gaussian over
the whole real line, `a σ √(2π)` -/
theorem gauss_integral (amp mean stddev : ℝ) (hs : 0 < stddev) :
    gaussIntegrate Transc.real amp stddev = ∫ t : ℝ, gaussEval Transc.real amp mean stddev t := by
  simp only [gaussIntegrate, gaussEval, Transc.real_sqrt, Transc.real_pi, Transc.real_exp]
  rw [integral_gauss amp mean stddev hs]

/-- [stretch, proved] `RickerWavelet1D.integrate`: the *unsigned* area `∫ |y| dλ` over requested
limits that strictly contain both roots `x₀ ∓ σ` -/
theorem ricker_integral (amp x0 sigma : ℝ) (x : List ℝ) (hx : x ≠ []) (hamp : 0 ≤ amp)
    (hs : 0 < sigma) (hlo : minL x < x0 - sigma) (hhi : x0 + sigma < maxL x) :
    rickerIntegrate Transc.real amp x0 sigma x
      = .ok (∫ t in minL x..maxL x, |rickerEval Transc.real amp x0 sigma t|) := by
  have hg : ¬ (minL x ≥ x0 - sigma ∨ maxL x ≤ x0 + sigma) := by
    rw [not_or, not_le, not_le]; exact ⟨hlo, hhi⟩
  have h2 : sigma * sigma ≠ 0 := mul_ne_zero hs.ne' hs.ne'
  simp only [rickerIntegrate, if_neg hx, if_neg hg, if_neg h2, rickerSub_real _ _ _ _ hs.ne',
    rickerEval_real]
  rw [integral_abs_ricker amp x0 sigma _ _ hamp hs hlo.le hhi.le]

/-! ## refusal of partial Ricker ranges (every `K`, every `T`) -/

section generic
variable {K : Type} [Field K] [LinearOrder K] [IsStrictOrderedRing K]
variable (C : AConst K) (T : Transc K)

/-- a range that does not strictly contain both roots raises `NotImplementedError` … -/
theorem ricker_partial_refused (amp x0 sigma : K) (x : List K) (hx : x ≠ [])
    (h : x0 - sigma ≤ minL x ∨ maxL x ≤ x0 + sigma) :
    rickerIntegrate T amp x0 sigma x = .error .notImplemented := by
  have : minL x ≥ x0 - sigma ∨ maxL x ≤ x0 + sigma := h
  simp only [rickerIntegrate, if_neg hx, if_pos this]

/-- … and only such a range does: whenever a number is returned the range contains both roots
(so the number is the full unsigned area of `ricker_integral`, never an approximation) -/
theorem ricker_ok_full_range (amp x0 sigma v : K) (x : List K)
    (h : rickerIntegrate T amp x0 sigma x = .ok v) :
    minL x < x0 - sigma ∧ x0 + sigma < maxL x := by
  by_cases h1 : x = []
  · simp only [rickerIntegrate, if_pos h1] at h
    cases h
  · by_cases h2 : minL x ≥ x0 - sigma ∨ maxL x ≤ x0 + sigma
    · simp only [rickerIntegrate, if_neg h1, if_pos h2] at h
      cases h
    · rw [not_or, not_le, not_le] at h2
      exact h2

/-! ## dispatch of `BaseSpectrum.integrate` (every keyword combination) -/

/-- `integration_type=None` means `conf.default_integrator` -/
theorem default_integrator (ul : Bool) (fu : FluxOpt) (kw : Bool) (m : AModel K) (x : List K)
    (conf : IntType) :
    specIntegrate C T ul fu kw m x none conf = specIntegrate C T ul fu kw m x (some conf) conf := rfl

/-- the integrator that runs: trapezoid iff trapezoid was named, or analytical was named and the
model has no `integrate`; analytical iff it was named and the model has one; anything else is
`NotImplementedError` -/
theorem choosePath_spec (t : IntType) (conf : IntType) (has : Bool) :
    choosePath (some t) conf has =
      match t, has with
      | .trapezoid, _ => .ok .trapezoid
      | .analytical, true => .ok .analytical
      | .analytical, false => .ok .trapezoid
      | .other, _ => .error .notImplemented := by
  cases t <;> cases has <;> rfl

/-- a model without an analytic form silently falls back to trapezoid integration: the call
is *the same computation* as an explicit trapezoid request **with the same keywords** (`flux_unit`
and any other keyword are carried along, errors included) -/
theorem fallback_to_trapezoid (ul : Bool) (fu : FluxOpt) (kw : Bool) (m : AModel K) (x : List K)
    (conf : IntType) (h : m.hasIntegrate = false) :
    specIntegrate C T ul fu kw m x (some .analytical) conf
      = specIntegrate C T ul fu kw m x (some .trapezoid) conf := by
  simp only [specIntegrate, choosePath, h]
  rfl

/-- a `flux_unit` is refused before anything else: always for a unitless spectrum, and for a
source when it is not a per-wavelength flux density (`SynphotError`) or not a unit at all -/
theorem flux_unit_rejected (ul : Bool) (fu : FluxOpt) (kw : Bool) (m : AModel K) (x : List K)
    (req : Option IntType) (conf : IntType) (e : Err) (h : fluxCheck ul fu = .error e) :
    specIntegrate C T ul fu kw m x req conf = .error e := by
  simp only [specIntegrate, h]
  rfl

/-- which requests pass the `flux_unit` check -/
theorem fluxCheck_ok_iff (ul : Bool) (fu : FluxOpt) :
    fluxCheck ul fu = .ok () ↔ fu = .absent ∨ (ul = false ∧ (fu = .photlam ∨ fu = .flam)) := by
  cases ul <;> cases fu <;> simp [fluxCheck]

/-- an unknown integration type is rejected (once `flux_unit` and the wavelengths are valid),
whatever other keywords are passed -/
theorem unknown_type_rejected (ul : Bool) (fu : FluxOpt) (kw : Bool) (m : AModel K) (x : List K)
    (conf : IntType) (hf : fluxCheck ul fu = .ok ()) (hv : validateWavelengths x = .ok ()) :
    specIntegrate C T ul fu kw m x (some .other) conf = .error .notImplemented := by
  simp only [specIntegrate, hf, hv, choosePath]
  rfl

/-- the trapezoid integrator: `|trapezoid(|y|, x)|` on the samples *in the requested flux unit*
(erg s⁻¹ cm⁻² for FLAM, ph s⁻¹ cm⁻² otherwise, Angstrom for a unitless spectrum), never the
analytic form -/
theorem trapezoid_path (ul : Bool) (fu : FluxOpt) (kw : Bool) (m : AModel K) (x y : List K)
    (conf : IntType) (hf : fluxCheck ul fu = .ok ()) (hv : validateWavelengths x = .ok ())
    (hk : (ul && kw) = false) (hy : absSamplesIn C T fu m x = .ok y) :
    specIntegrate C T ul fu kw m x (some .trapezoid) conf
      = .ok (|trapzXY x y|,
             if ul then .length else if fu = .flam then .energy else .photon, .trapezoid) := by
  simp only [specIntegrate, hf, hv, choosePath, hy, hk]
  rfl

/-- a unitless spectrum cannot be sampled with keywords: the trapezoid integrator raises
`TypeError` (the analytical one never samples and ignores them) -/
theorem unitless_keywords_typeError (fu : FluxOpt) (m : AModel K) (x : List K) (conf : IntType)
    (hf : fluxCheck true fu = .ok ()) (hv : validateWavelengths x = .ok ()) :
    specIntegrate C T true fu true m x (some .trapezoid) conf = .error .typeError := by
  simp only [specIntegrate, hf, hv, choosePath]
  rfl

/-- the analytical integrator of a model that has one: the model's `integrate`, then the
`flux_unit` conversion the code performs and unit finishing (`finishAnalytic`); other keywords
are ignored -/
theorem analytical_path (ul : Bool) (fu : FluxOpt) (kw : Bool) (m : AModel K) (x : List K)
    (conf : IntType) (hf : fluxCheck ul fu = .ok ()) (hv : validateWavelengths x = .ok ())
    (hm : m.hasIntegrate = true) :
    specIntegrate C T ul fu kw m x (some .analytical) conf
      = finishAnalytic C ul fu m (m.integrate C T x) := by
  simp only [specIntegrate, hf, hv, choosePath, hm]
  rfl

/-- Ricker partial range at the level of the spectrum: refused for sources and bandpasses -/
theorem ricker_partial_refused_spec (ul : Bool) (fu : FluxOpt) (kw : Bool) (amp x0 sigma : K)
    (x : List K) (conf : IntType) (hf : fluxCheck ul fu = .ok ())
    (hv : validateWavelengths x = .ok ()) (hx : x ≠ [])
    (h : x0 - sigma ≤ minL x ∨ maxL x ≤ x0 + sigma) :
    specIntegrate C T ul fu kw (.ricker amp x0 sigma) x (some .analytical) conf
      = .error .notImplemented := by
  rw [analytical_path C T ul fu kw _ x conf hf hv rfl]
  simp only [AModel.integrate, ricker_partial_refused T amp x0 sigma x hx h]
  rfl

/-- `flux_unit='flam'` on the analytic result of a length model of `_model_fconv_wav` (box,
Gaussian, Lorentzian, Ricker, trapezoid): the PHOTLAM result `× hc/λ_ref` in erg s⁻¹ cm⁻²;
`flux_unit='photlam'` changes nothing -/
theorem analytic_flux_unit (kw : Bool) (m : AModel K) (x : List K) (conf : IntType) (v wav : K)
    (hv : validateWavelengths x = .ok ()) (hm : m.hasIntegrate = true)
    (hw : m.fconvWav = some wav) (hw0 : wav ≠ 0) (hi : m.integrate C T x = .ok (v, .length)) :
    specIntegrate C T false .flam kw m x (some .analytical) conf
        = .ok (v * (C.phys.h * C.phys.c) / wav, .energy, .analytical) ∧
    specIntegrate C T false .photlam kw m x (some .analytical) conf
        = .ok (v, .photon, .analytical) := by
  constructor
  · rw [analytical_path C T false .flam kw m x conf rfl hv hm, hi]
    simp [finishAnalytic, convAnalytic, toSourceUnit, hw, hw0, finishSource]
    rfl
  · rw [analytical_path C T false .photlam kw m x conf rfl hv hm, hi]
    simp [finishAnalytic, convAnalytic, toSourceUnit, finishSource]
    rfl

/-! ## documented units of the analytic result (no `flux_unit`: native units) -/

/-- a model whose `integrate` returns a length (box, Gaussian, Lorentzian, Ricker, trapezoid):
Angstrom for a unitless spectrum, ph s⁻¹ cm⁻² (PHOTLAM × Angstrom) for a source; same number -/
theorem units_length_model (ul : Bool) (m : AModel K) (x : List K) (conf : IntType) (v : K)
    (hv : validateWavelengths x = .ok ()) (hm : m.hasIntegrate = true)
    (hi : m.integrate C T x = .ok (v, .length)) :
    specIntegrate C T ul .absent false m x (some .analytical) conf
      = .ok (v, if ul then .length else .photon, .analytical) := by
  rw [analytical_path C T ul .absent false m x conf (by cases ul <;> rfl) hv hm, hi]
  cases ul <;> rfl

/-- constant / power-law / Gaussian-flux source in a per-wavelength unit: ph s⁻¹ cm⁻² for
PHOTLAM, erg s⁻¹ cm⁻² for FLAM; same number -/
theorem units_fluxLen (m : AModel K) (x : List K) (conf : IntType) (v : K) (u : AmpUnit K)
    (hv : validateWavelengths x = .ok ()) (hm : m.hasIntegrate = true)
    (hu : u = .photlam ∨ u = .flam) (hi : m.integrate C T x = .ok (v, .fluxLen u)) :
    specIntegrate C T false .absent false m x (some .analytical) conf
      = .ok (v, if u = .photlam then .photon else .energy, .analytical) := by
  rw [analytical_path C T false .absent false m x conf rfl hv hm, hi]
  rcases hu with rfl | rfl <;> rfl

/-- a source whose `integrate` returns flux unit × Hz (constant / power law with a per-frequency
amplitude): ph s⁻¹ cm⁻² for PHOTNU, erg s⁻¹ cm⁻² for FNU and (prefixed) Jansky (`1 Jy = jyFnu` FNU) -/
theorem units_fluxHz (m : AModel K) (x : List K) (conf : IntType) (v : K)
    (hv : validateWavelengths x = .ok ()) (hm : m.hasIntegrate = true) :
    (m.integrate C T x = .ok (v, .fluxHz .photnu) →
      specIntegrate C T false .absent false m x (some .analytical) conf = .ok (v, .photon, .analytical)) ∧
    (m.integrate C T x = .ok (v, .fluxHz .fnu) →
      specIntegrate C T false .absent false m x (some .analytical) conf = .ok (v, .energy, .analytical)) ∧
    (∀ k, m.integrate C T x = .ok (v, .fluxHz (.jy k)) →
      specIntegrate C T false .absent false m x (some .analytical) conf
        = .ok (v * k * C.phys.jyFnu, .energy, .analytical)) := by
  refine ⟨?_, ?_, ?_⟩
  · intro hi; rw [analytical_path C T false .absent false m x conf rfl hv hm, hi]; rfl
  · intro hi; rw [analytical_path C T false .absent false m x conf rfl hv hm, hi]; rfl
  · intro k hi; rw [analytical_path C T false .absent false m x conf rfl hv hm, hi]; rfl

/-- black body: `σ T⁴/π` W m⁻² (× Ω for the normalised one) reported in erg s⁻¹ cm⁻² -/
theorem units_blackbody (x : List K) (conf : IntType) (temp : K)
    (hv : validateWavelengths x = .ok ()) :
    specIntegrate C T false .absent false (.blackbody temp) x (some .analytical) conf
        = .ok (bbIntegrate C T temp * 1000, .energy, .analytical) ∧
    specIntegrate C T false .absent false (.blackbodyNorm temp) x (some .analytical) conf
        = .ok (bbIntegrate C T temp * C.omega * 1000, .energy, .analytical) := by
  constructor <;> (rw [analytical_path C T false .absent false _ x conf rfl hv rfl]; rfl)

end generic

/-! ## per-frequency sources integrate to a value in the documented unit (repaired F3; K = ℝ) -/

/-- a constant source with a per-frequency amplitude (PHOTNU, FNU, Jy): `∫ a dν` over the
frequencies of the requested limits, in ph s⁻¹ cm⁻² (PHOTNU) or erg s⁻¹ cm⁻² (FNU; Jy × `jyFnu`) -/
theorem const_perHz_spec (C : AConst ℝ) (amp : ℝ) (u : AmpUnit ℝ) (x : List ℝ) (conf : IntType)
    (hv : validateWavelengths x = .ok ()) (hx : x ≠ []) (hu : u.perHz = true) :
    specIntegrate C Transc.real false .absent false (.constFlux amp u) x (some .analytical) conf
      = .ok (match u with
              | .jy k => (∫ t in minL (x.map (C.phys.c / ·))..maxL (x.map (C.phys.c / ·)),
                            constEval amp t) * k * C.phys.jyFnu
              | _ => ∫ t in minL (x.map (C.phys.c / ·))..maxL (x.map (C.phys.c / ·)), constEval amp t,
             match u with
              | .photnu => ResUnit.photon
              | _ => ResUnit.energy,
             Path.analytical) := by
  rw [analytical_path C Transc.real false .absent false _ x conf rfl hv rfl]
  simp only [AModel.integrate]
  rw [const_integral_perHz C.phys.c amp u x hx (validate_pos hv) hu]
  cases u <;> first | rfl | (simp [AmpUnit.perHz] at hu)

/-- a power-law source with a per-frequency amplitude, every index: `∫ F_ν dν` over the
frequencies of the requested limits, in the documented unit -/
theorem powerLaw_perHz_spec (C : AConst ℝ) (hc : 0 < C.phys.c) (amp x0 al : ℝ) (u : AmpUnit ℝ)
    (x : List ℝ) (conf : IntType) (hv : validateWavelengths x = .ok ()) (hx : x ≠ [])
    (hx0 : 0 < x0) (hu : u.perHz = true) :
    specIntegrate C Transc.real false .absent false (.powerLaw amp x0 al u) x (some .analytical) conf
      = .ok (match u with
              | .jy k => (∫ t in minL (x.map (C.phys.c / ·))..maxL (x.map (C.phys.c / ·)),
                            powerLawEval Transc.real amp x0 al (C.phys.c / t)) * k * C.phys.jyFnu
              | _ => ∫ t in minL (x.map (C.phys.c / ·))..maxL (x.map (C.phys.c / ·)),
                            powerLawEval Transc.real amp x0 al (C.phys.c / t),
             match u with
              | .photnu => ResUnit.photon
              | _ => ResUnit.energy,
             Path.analytical) := by
  rw [analytical_path C Transc.real false .absent false _ x conf rfl hv rfl]
  simp only [AModel.integrate]
  rw [powerLaw_integral_perHz C.phys.c amp x0 al u x hx (validate_pos hv) hc hx0 hu]
  cases u <;> first | rfl | (simp [AmpUnit.perHz] at hu)

/-- a power-law source with a per-wavelength amplitude, every index (`α = 1` included):
ph s⁻¹ cm⁻² (PHOTLAM) or erg s⁻¹ cm⁻² (FLAM) -/
theorem powerLaw_spec (C : AConst ℝ) (amp x0 al : ℝ) (u : AmpUnit ℝ) (x : List ℝ) (conf : IntType)
    (hv : validateWavelengths x = .ok ()) (hx : x ≠ []) (hx0 : 0 < x0) (hu : u.perHz = false) :
    specIntegrate C Transc.real false .absent false (.powerLaw amp x0 al u) x (some .analytical) conf
      = .ok (∫ t in minL x..maxL x, powerLawEval Transc.real amp x0 al t,
             match u with
              | .photlam => ResUnit.photon
              | _ => ResUnit.energy,
             Path.analytical) := by
  rw [analytical_path C Transc.real false .absent false _ x conf rfl hv rfl]
  simp only [AModel.integrate]
  rw [powerLaw_integral C.phys.c amp x0 al u x hx (validate_pos hv) hx0 hu]
  cases u <;> first | rfl | (simp [AmpUnit.perHz] at hu)

/-! ## non-vacuity -/

example : choosePath none .analytical false = .ok .trapezoid := rfl
example : choosePath (some .other) .trapezoid true = .error .notImplemented := rfl
example : choosePath none .analytical true = .ok .analytical := rfl
example : validateWavelengths ([4950, 5200] : List ℚ) = .ok () := by decide
example (T : Transc ℚ) : rickerIntegrate T 1 5000 100 [4950, 5200] = .error .notImplemented := by
  simp [rickerIntegrate, minL, maxL]
  norm_num
example : trapezoidIntegrate (2 : ℚ) 20 (1 / 2) = .ok 48 := by
  simp [trapezoidIntegrate]; norm_num
example : boxIntegrate (2 : ℚ) 100 = 200 := by norm_num [boxIntegrate]

/-! ## Stefan–Boltzmann (stretch, proved modulo the numerical identity between the constants) -/

/-- `BlackBody1D.integrate` (after unit finishing, erg s⁻¹ cm⁻²): `σ_SB T⁴/π` *is* the integral over all
wavelengths of the energy density `hc/λ ×` (Planck photon radiance `bbEval`), provided the constant
`sigma_sb` (W m⁻² K⁻⁴, hence `× 1000` in CGS) satisfies its defining identity
`σ = 2π⁵k⁴/(15h³c²)` with `c` in cm/s.  The Bose integral `∫₀^∞ u³/(eᵘ−1) du = π⁴/15` is
`Synphot.BlackBody.integral_planck_shape` (Lemmas/BlackBodyIntegral.lean, shared with C16).
`hσ` is a statement about decimal CODATA constants that holds to 1e-10 only; the harness checks
it on the constants of the running package in every run (oracle `constants:sigma_sb`). -/
theorem blackbody_integral (C : AConst ℝ) (hh : 0 < C.phys.h) (hc : 0 < C.phys.c) (hk : 0 < C.kB)
    {temp : ℝ} (ht : 0 < temp)
    (hσ : C.sigmaSB * 1000
      = 2 * Real.pi ^ 5 * C.kB ^ 4 / (15 * C.phys.h ^ 3 * (C.phys.c / 10 ^ 8) ^ 2)) :
    bbIntegrate C Transc.real temp * 1000
      = ∫ l in Set.Ioi (0:ℝ), bbEval C Transc.real temp l * (C.phys.h * C.phys.c / l) := by
  have ha : 0 < C.phys.h * C.phys.c / (C.kB * temp) := by positivity
  have e : ∀ l ∈ Set.Ioi (0:ℝ), bbEval C Transc.real temp l * (C.phys.h * C.phys.c / l)
      = (2 * C.phys.h * C.phys.c ^ 2 * 10 ^ 16)
          / (l ^ 5 * (Real.exp (C.phys.h * C.phys.c / (C.kB * temp) / l) - 1)) := by
    intro l hl
    have hl0 : (0:ℝ) < l := hl
    simp only [bbEval, Transc.real_expm1]
    rw [show C.phys.h * C.phys.c / (l * C.kB * temp) = C.phys.h * C.phys.c / (C.kB * temp) / l by
      field_simp]
    have hE : Real.exp (C.phys.h * C.phys.c / (C.kB * temp) / l) - 1 ≠ 0 := by
      have : 1 < Real.exp (C.phys.h * C.phys.c / (C.kB * temp) / l) := by
        rw [Real.one_lt_exp_iff]; positivity
      linarith
    field_simp
  rw [setIntegral_congr_fun measurableSet_Ioi e, BlackBody.integral_planck_shape _ _ ha]
  have hpi := Real.pi_pos
  have hs : bbIntegrate C Transc.real temp * 1000 = C.sigmaSB * 1000 * temp ^ 4 / Real.pi := by
    simp only [bbIntegrate, Transc.real_pi]; ring
  rw [hs, hσ]
  field_simp

/-
  NOT PROVED: the hypothesis `hσ` of `blackbody_integral` for the decimal constants astropy ships
  (`sigma_sb = 5.670374419e-8` is the 10-digit rounding of `2π⁵k⁴/(15h³c²)`; the identity holds to
  about 1e-10, not exactly, so it is not a theorem).  It is measured on the running package in every
  run, and `BlackBody1D.integrate` / `BlackBodyNorm1D.integrate` are in addition compared with the
  trapezoid integral of the sampled Planck curve (1e-6).
-/

end Synphot.C12
