/-
  C09 — Effective stimulus and effective wavelength follow their defining integrals.

  `effstim` / `effectiveWavelength` (Core/ObsPhot.lean) are transcriptions of the two methods; the
  theorems below are about the sums they form.  `xs` are sampling wavelengths, `P` the bandpass
  samples; a flat source makes the observation's FLAM samples `v·P`, `v·c/λ²·P`, ….
-/
import Synphot.Lemmas.ObsPhot
import Synphot.Lemmas.Trapz
import Synphot.Lemmas.Units

set_option linter.unusedSectionVars false
set_option linter.unusedVariables false
set_option linter.unusedSimpArgs false

namespace Synphot.C09
open Synphot
variable {K : Type} [Field K] [LinearOrder K] [IsStrictOrderedRing K]

/-- samples `(λ, λ·f(λ))` of a list of `(λ, f)` pairs -/
def timesLam (l : List (K × K)) : List (K × K) := l.map fun p => (p.1, p.1 * p.2)
/-- samples `(λ, f(λ)/λ)` -/
def overLam (l : List (K × K)) : List (K × K) := l.map fun p => (p.1, p.2 / p.1)

/-- the FLAM effective stimulus: `|∫ λ F_λ P| / |∫ λ P|` on the sampling grid (what the code forms) -/
def effstimFlam (obsFlam band : List (K × K)) : K := |trapz (timesLam obsFlam)| / |trapz (timesLam band)|

/-- the effective stimulus in FLAM is exactly that quotient, and an error if either integral is not positive -/
theorem effstim_flam_def (E : Env K) (thr atol rtol : K) (o : Obs K) (bm : Tree K) (xb yb inw inp inf : List K)
    (hbm : o.band.model = .ok bm) (hxb : wavesetOrErr thr bm = .ok xb) (hyb : sampleTree E bm xb = .ok yb)
    (hinw : wavesetOrErr thr o.model = .ok inw) (hinp : sampleTree E o.model inw = .ok inp)
    (hinf : convertFlux E.P E.T inw inp .photlam .flam none none = .ok inf) :
    effstim E thr atol rtol o .flam none none none =
      (let num := |trapzXY inw ((inw.zip inf).map fun (a, b) => a * b)|
       let den := |trapzXY xb ((xb.zip yb).map fun (a, b) => a * b)|
       if num ≤ 0 then .error .synphotError else if den ≤ 0 then .error .synphotError else .ok (num / den)) := by
  simp only [effstim, hbm, wavelengthsOr, hxb, hyb, hinw, hinp, hinf, bind, Except.bind, validateTotalflux,
    pure, Except.pure]
  split_ifs <;> rfl

/-- in every other density unit it is that FLAM value converted at the bandpass pivot wavelength -/
theorem effstim_converted_at_pivot (E : Env K) (thr atol rtol : K) (o : Obs K) (u : FluxUnit K) (v wp : K)
    (bm : Tree K) (hbm : o.band.model = .ok bm)
    (hu : u = .fnu ∨ u = .photlam ∨ u = .photnu ∨ u = .abmag ∨ ∃ k, u = .jy k)
    (hv : effstim E thr atol rtol o .flam none none none = .ok v) (hp : pivot E thr bm none = .ok wp) :
    effstim E thr atol rtol o u none none none = convertOne E.P E.T (plainSamp wp) .flam u v := by
  have key : ∀ (u' : FluxUnit K), (u' = .fnu ∨ u' = .photlam ∨ u' = .photnu ∨ u' = .abmag ∨ ∃ k, u' = .jy k) →
      effstim E thr atol rtol o u' none none none =
        (effstim E thr atol rtol o .flam none none none >>= fun val =>
          pivot E thr bm none >>= fun wp' => convertOne E.P E.T (plainSamp wp') .flam u' val) := by
    intro u' hu'
    rcases hu' with rfl | rfl | rfl | rfl | ⟨k, rfl⟩ <;>
    · simp only [effstim, hbm, bind, Except.bind, pure, Except.pure]
      cases wavelengthsOr thr bm none <;> simp only []
      rename_i xb
      cases sampleTree E bm xb <;> simp only []
      cases wavelengthsOr thr o.model none <;> simp only []
      rename_i inw
      cases sampleTree E o.model inw <;> simp only []
      rename_i inp
      cases convertFlux E.P E.T inw inp FluxUnit.photlam FluxUnit.flam none none <;> simp only []
      rename_i inf
      cases validateTotalflux |trapzXY inw (List.map (fun x => x.1 * x.2) (inw.zip inf))| <;> simp only []
      cases validateTotalflux |trapzXY xb (List.map (fun x => x.1 * x.2) (xb.zip _))| <;> simp only []
  rw [key u hu, hv, hp]; rfl

/-! ### flat spectra -/

/-- a spectrum flat at `v > 0` in FLAM has effective stimulus `v` in FLAM through any bandpass
(on a common sampling grid with `∫λP ≠ 0`) -/
theorem effstim_flat_flam (band : List (K × K)) (v : K) (hv : 0 < v) (hden : trapz (timesLam band) ≠ 0) :
    effstimFlam (band.map fun p => (p.1, v * p.2)) band = v := by
  unfold effstimFlam timesLam
  have : (band.map fun p => (p.1, v * p.2)).map (fun p => (p.1, p.1 * p.2)) =
      (band.map fun p => (p.1, p.1 * p.2)).map fun p => (p.1, v * p.2) := by
    simp only [List.map_map]; apply List.map_congr_left; intro p _; simp only [Function.comp]; congr 1; ring
  rw [this, trapz_smul, abs_mul, abs_of_pos hv]
  have : |trapz (band.map fun p => (p.1, p.1 * p.2))| ≠ 0 := abs_ne_zero.mpr hden
  field_simp

/-- a spectrum flat at `v > 0` in FNU: its FLAM samples are `v·c/λ²·P`; converting the FLAM effective
stimulus at the pivot `λ_p² = |∫λP / ∫P/λ|` back to FNU (`F_ν = F_λ λ_p²/c`) gives `v` again -/
theorem effstim_flat_fnu (band : List (K × K)) (v c : K) (hv : 0 < v) (hc : 0 < c)
    (hpos : ∀ p ∈ band, p.1 ≠ 0)
    (hA : trapz (overLam band) ≠ 0) (hB : trapz (timesLam band) ≠ 0) :
    effstimFlam (band.map fun p => (p.1, v * c / p.1 ^ 2 * p.2)) band *
      |trapz (timesLam band) / trapz (overLam band)| / c = v := by
  unfold effstimFlam timesLam overLam
  have h1 : (band.map fun p => (p.1, v * c / p.1 ^ 2 * p.2)).map (fun p => (p.1, p.1 * p.2)) =
      (band.map fun p => (p.1, p.2 / p.1)).map fun p => (p.1, (v * c) * p.2) := by
    simp only [List.map_map]; apply List.map_congr_left; intro p hp; simp only [Function.comp]
    have := hpos p hp
    congr 1; field_simp
  rw [h1, trapz_smul, abs_mul, abs_of_pos (mul_pos hv hc), abs_div]
  have hA' : |trapz (band.map fun p => (p.1, p.2 / p.1))| ≠ 0 := abs_ne_zero.mpr hA
  have hB' : |trapz (band.map fun p => (p.1, p.1 * p.2))| ≠ 0 := abs_ne_zero.mpr hB
  have hcne := ne_of_gt hc
  field_simp

/-! ### scaling and magnitudes -/

/-- multiplying the source by `k > 0` multiplies the linear effective stimulus by `k` -/
theorem effstim_scale (obsFlam band : List (K × K)) (k : K) (hk : 0 < k) :
    effstimFlam (obsFlam.map fun p => (p.1, k * p.2)) band = k * effstimFlam obsFlam band := by
  unfold effstimFlam timesLam
  have : (obsFlam.map fun p => (p.1, k * p.2)).map (fun p => (p.1, p.1 * p.2)) =
      (obsFlam.map fun p => (p.1, p.1 * p.2)).map fun p => (p.1, k * p.2) := by
    simp only [List.map_map]; apply List.map_congr_left; intro p _; simp only [Function.comp]; congr 1; ring
  rw [this, trapz_smul, abs_mul, abs_of_pos hk]; ring

/-- … and shifts magnitudes by `−2.5 log₁₀ k` -/
theorem mag_scale (T : Transc K) (hT : T.Lawful) (x k m : K) (hx : 0 < x) (hk : 0 < k)
    (h : toMag T x = .ok m) : toMag T (k * x) = .ok (m - (5/2) * T.log10 k) := by
  obtain ⟨_, rfl⟩ := toMag_ok h
  unfold toMag
  rw [if_neg (not_le.mpr (mul_pos hk hx)), hT.log10_mul k x hk hx]
  congr 1; ring

/-- a magnitude result is `−2.5 log₁₀` of the linear result minus the zero point
(zero point written as `10^(−0.4·zp)`: 21.10 for STmag, 48.60 for ABmag) -/
theorem mag_is_log_of_linear (T : Transc K) (hT : T.Lawful) (x zp : K) (hx : 0 < x) :
    toMag T (x / T.pow10 (-(2/5) * zp)) = .ok (-(5/2) * T.log10 x - zp) := by
  have hz := hT.pow10_pos (-(2/5) * zp)
  unfold toMag
  rw [if_neg (not_le.mpr (div_pos hx hz))]
  have h1 : T.pow10 (-(2/5) * zp) * T.pow10 ((2/5) * zp) = 1 := by
    rw [← hT.pow10_add]; simp [hT.pow10_zero]
  have : x / T.pow10 (-(2/5) * zp) = x * T.pow10 ((2/5) * zp) := by
    rw [div_eq_iff (ne_of_gt hz), mul_assoc, mul_comm (T.pow10 (2 / 5 * zp)), h1, mul_one]
  rw [this, hT.log10_mul x _ hx (hT.pow10_pos _), hT.log10_pow10]; congr 1; ring

/-! ### effective wavelength -/

/-- `∫F P λ² / ∫F P λ` lies inside the sampled wavelength range for non-negative flux
(triples `(λ, F·P·λ, λ)`: weights `λ` between the first and last wavelength) -/
theorem efflam_in_range (l : List (K × K)) (lo hi : K) (hx : AscX l)
    (hrange : ∀ p ∈ l, lo ≤ p.1 ∧ p.1 ≤ hi) (hlo : 0 ≤ lo) (hy : ∀ p ∈ l, 0 ≤ p.2)
    (hden : 0 < trapz (timesLam l)) :
    lo ≤ trapz (l.map fun p => (p.1, p.2 * p.1 ^ 2)) / trapz (timesLam l) ∧
    trapz (l.map fun p => (p.1, p.2 * p.1 ^ 2)) / trapz (timesLam l) ≤ hi := by
  have hm1 : ((l.map fun p => (p.1, p.1 * p.2, p.1)).map fun p => (p.1, p.2.1)) = timesLam l := by
    simp only [timesLam, List.map_map]; apply List.map_congr_left; intro p _; rfl
  have hm2 : ((l.map fun p => (p.1, p.1 * p.2, p.1)).map fun p => (p.1, p.2.2 * p.2.1)) =
      l.map fun p => (p.1, p.2 * p.1 ^ 2) := by
    simp only [List.map_map]; apply List.map_congr_left; intro p _
    simp only [Function.comp]; congr 1; ring
  have hasc : AscX (timesLam l) := by
    clear hden hrange hy hm1 hm2
    unfold timesLam
    induction l with
    | nil => trivial
    | cons a l ih =>
      cases l with
      | nil => trivial
      | cons b l => exact ⟨hx.1, ih hx.2⟩
  have hb := trapz_weighted_bounds lo hi (l.map fun p => (p.1, p.1 * p.2, p.1))
    (by rw [hm1]; exact hasc)
    (by
      intro p hp
      simp only [List.mem_map] at hp
      obtain ⟨p', hp', rfl⟩ := hp
      exact mul_nonneg (le_trans hlo (hrange p' hp').1) (hy p' hp'))
    (by
      intro p hp
      simp only [List.mem_map] at hp
      obtain ⟨p', hp', rfl⟩ := hp
      exact hrange p' hp')
  rw [hm1, hm2] at hb
  constructor
  · rw [le_div_iff₀ hden]; exact hb.1
  · rw [div_le_iff₀ hden]; exact hb.2

end Synphot.C09
