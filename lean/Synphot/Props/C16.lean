/-
  C16 — Blackbody and thermal spectra obey Planck, Wien and Stefan–Boltzmann.

  Statements are about the model of `Core/BlackBody.lean` (`bbEvaluate` = `BlackBody1D.evaluate`,
  `bbNormEvaluate` = `BlackBodyNorm1D.evaluate`, `bbSample` = `SourceSpectrum(...)(wavelengths)`,
  `thermalSourceAt` = `thermal_source()` at a wavelength, `fromFileKeys` = the header handling of
  `ThermalSpectralElement.from_file`), for every ordered field `K` (hence ℝ), every lawful family
  of transcendental functions (`Lemmas/TranscReal.lean`: the real ones are lawful) and all positive
  values of the physical constants.
-/
import Synphot.Lemmas.BlackBody
import Synphot.Lemmas.BlackBodyReal
import Synphot.Lemmas.BlackBodyIntegral

set_option linter.unusedSectionVars false
set_option linter.unusedVariables false

namespace Synphot.C16
open Synphot Synphot.BlackBody
variable {K : Type} [Field K] [LinearOrder K] [IsStrictOrderedRing K]
variable {C : BBConst K} {T : Transc K}

/-! ### Planck's law -/

/-- A black body of temperature `T > 0` sampled at `λ > 0` is Planck's `B_λ(T)` expressed as a photon
flux density per steradian: `2c/λ⁴ / (exp(hc/λkT) − 1)` (`planckPhotlam`). -/
theorem planck_photlam (hC : C.Pos) (hT : T.Lawful) {lam temp : K} (hl : 0 < lam) (ht : 0 < temp) :
    bbEvaluate C T lam temp = .ok (2 * C.c * 10 ^ 16 /
      (lam ^ 4 * (T.exp (C.h * C.c / (lam * C.kB * temp)) - 1))) :=
  bbEvaluate_eq hC hT hl ht

/-- in energy units it is `B_λ(T) = 2hc²/λ⁵ / (exp(hc/λkT) − 1)` -/
theorem planck_flam (hC : C.Pos) (hT : T.Lawful) {lam temp : K} (hl : 0 < lam) (ht : 0 < temp) :
    (bbEvaluate C T lam temp).map (photlamToFlam C lam) = .ok (2 * C.h * C.c ^ 2 * 10 ^ 16 /
      (lam ^ 5 * (T.exp (C.h * C.c / (lam * C.kB * temp)) - 1))) := by
  rw [bbEvaluate_eq hC hT hl ht]
  show Except.ok _ = Except.ok _
  rw [planckFlam_eq hC hT hl ht]; rfl

/-- the value is positive -/
theorem planck_pos (hC : C.Pos) (hT : T.Lawful) {lam temp : K} (hl : 0 < lam) (ht : 0 < temp) :
    ∃ v, bbEvaluate C T lam temp = .ok v ∧ 0 < v :=
  ⟨_, bbEvaluate_eq hC hT hl ht, planckPhotlam_pos hC hT hl ht⟩

/-- at every wavelength the value is strictly increasing in the temperature -/
theorem planck_mono_T (hC : C.Pos) (hT : T.Lawful) {lam t1 t2 v1 v2 : K} (hl : 0 < lam)
    (h1 : 0 < t1) (h12 : t1 < t2) (e1 : bbEvaluate C T lam t1 = .ok v1)
    (e2 : bbEvaluate C T lam t2 = .ok v2) : v1 < v2 := by
  rw [bbEvaluate_eq hC hT hl h1] at e1
  rw [bbEvaluate_eq hC hT hl (lt_trans h1 h12)] at e2
  injection e1 with e1; injection e2 with e2
  rw [← e1, ← e2]
  exact planckPhotlam_strictMono_T hC hT hl h1 h12

/-- a negative temperature is rejected, temperature zero gives the number 0 -/
theorem planck_bad_T (lam temp : K) :
    (temp < 0 → bbEvaluate C T lam temp = .error .valueError) ∧
    (temp = 0 → bbEvaluate C T lam temp = .ok 0) := by
  constructor
  · intro h; simp [bbEvaluate, blackbodyNu, h, bind, Except.bind]
  · intro h; subst h; simp [bbEvaluate, blackbodyNu, fnuToPhotlam, bind, Except.bind, pure, Except.pure]

/-! ### the normalised black body -/

/-- `BlackBodyNorm1D` = `BlackBody1D` × Ω with Ω = π (R☉ / 1 kpc)², whatever the outcome -/
theorem bbnorm_eq (lam temp : K) :
    bbNormEvaluate C T lam temp =
      (bbEvaluate C T lam temp).map (· * (T.pi * (C.rSun / C.kpc) ^ 2)) := by
  unfold bbNormEvaluate bbOmega
  cases bbEvaluate C T lam temp <;> rfl

theorem bbnorm_planck (hC : C.Pos) (hT : T.Lawful) {lam temp : K} (hl : 0 < lam) (ht : 0 < temp) :
    bbNormEvaluate C T lam temp =
      .ok (planckPhotlam C T lam temp * (T.pi * (C.rSun / C.kpc) ^ 2)) := by
  rw [bbnorm_eq, bbEvaluate_eq hC hT hl ht]; rfl

/-- positive and strictly increasing in `T` as well -/
theorem bbnorm_pos_mono (hC : C.Pos) (hT : T.Lawful) {lam t1 t2 : K} (hl : 0 < lam)
    (h1 : 0 < t1) (h12 : t1 < t2) :
    ∃ v1 v2, bbNormEvaluate C T lam t1 = .ok v1 ∧ bbNormEvaluate C T lam t2 = .ok v2 ∧
      0 < v1 ∧ v1 < v2 := by
  have ho : 0 < T.pi * (C.rSun / C.kpc) ^ 2 := bbOmega_pos hC hT
  refine ⟨_, _, bbnorm_planck hC hT hl h1, bbnorm_planck hC hT hl (lt_trans h1 h12), ?_, ?_⟩
  · exact mul_pos (planckPhotlam_pos hC hT hl h1) ho
  · exact mul_lt_mul_of_pos_right (planckPhotlam_strictMono_T hC hT hl h1 h12) ho

/-- sampling a source spectrum: on every array `validate_wavelengths` accepts, the result is the
closed form at every wavelength (× Ω for the normalised kind) -/
theorem sample_planck (hC : C.Pos) (hT : T.Lawful) {temp : K} (ht : 0 < temp) (w : List K)
    (hv : validateWavelengths w = .ok ()) :
    bbSample C T .plain temp w = .ok (w.map (fun l => planckPhotlam C T l temp)) ∧
    bbSample C T .norm temp w =
      .ok (w.map (fun l => planckPhotlam C T l temp * (T.pi * (C.rSun / C.kpc) ^ 2))) := by
  have hpos := ((validate_ok_iff w).mp hv).1
  unfold bbSample
  rw [hv]
  constructor
  · exact mapM_ok_of_forall w (fun l hl => bbEvaluate_eq hC hT (hpos l hl) ht)
  · exact mapM_ok_of_forall w (fun l hl => bbnorm_planck hC hT (hpos l hl) ht)

/-- arrays `validate_wavelengths` rejects are rejected with its error -/
theorem sample_invalid (k : BBKind) (temp : K) (w : List K) (e : Err)
    (hv : validateWavelengths w = .error e) : bbSample C T k temp w = .error e := by
  unfold bbSample; rw [hv]; rfl

/-! ### Wien and Stefan–Boltzmann: what the code computes -/

/-- `lambda_max` is `b_wien / T` (converted from metre to Angstrom) -/
theorem lambda_max_def {temp : K} (ht : temp ≠ 0) :
    lambdaMax C temp = .ok (C.bWien / temp * 10 ^ 10) := by
  simp [lambdaMax, ht]

/-- the analytic integral is `σT⁴/π` per steradian, times Ω for the normalised kind -/
theorem integrate_def (temp : K) :
    bbIntegrate C T .plain temp = C.sigmaSB * temp ^ 4 / T.pi ∧
    bbIntegrate C T .norm temp = bbIntegrate C T .plain temp * (T.pi * (C.rSun / C.kpc) ^ 2) :=
  ⟨rfl, rfl⟩

/-! ### Wien's displacement law (K = ℝ, the real exponential) -/

/-- the energy density `B_λ(T)` is differentiable in `λ` at every `λ > 0`, with the stated derivative -/
theorem planck_flam_deriv (C : BBConst ℝ) (hC : C.Pos) {lam temp : ℝ} (hl : 0 < lam) (ht : 0 < temp) :
    HasDerivAt (fun l => planckFlam C Transc.real l temp)
      (2 * C.h * C.c ^ 2 * 10 ^ 16 * lam ^ 4 *
          ((boltzArg C lam temp - 5) * Real.exp (boltzArg C lam temp) + 5) /
        (lam ^ 5 * (Real.exp (boltzArg C lam temp) - 1)) ^ 2) lam :=
  planckFlam_hasDerivAt C hC hl ht

/-- Wien stationarity: `λ` is a stationary point of `B_λ(T)` iff `x = hc/(λkT)` solves `(x − 5)eˣ + 5 = 0` -/
theorem wien_stationary (C : BBConst ℝ) (hC : C.Pos) {lam temp : ℝ} (hl : 0 < lam) (ht : 0 < temp) :
    deriv (fun l => planckFlam C Transc.real l temp) lam = 0 ↔
      (boltzArg C lam temp - 5) * Real.exp (boltzArg C lam temp) + 5 = 0 := by
  rw [(planckFlam_hasDerivAt C hC hl ht).deriv]
  have hh := hC.h; have hc := hC.c
  have hE := expBoltz_sub_one_pos hC Transc.real_lawful hl ht
  rw [Transc.real_exp] at hE
  have hA : 2 * C.h * C.c ^ 2 * 10 ^ 16 * lam ^ 4 ≠ 0 := by positivity
  have hD : (lam ^ 5 * (Real.exp (boltzArg C lam temp) - 1)) ^ 2 ≠ 0 := by positivity
  rw [div_eq_zero_iff, mul_eq_zero]
  constructor
  · rintro ((h | h) | h)
    · exact absurd h hA
    · exact h
    · exact absurd h hD
  · intro h; exact Or.inl (Or.inr h)

/-- the displacement form: stationarity depends on `λ` and `T` only through `λT`.  In particular the code's
`lambda_max = b_wien/T` (metre → Angstrom) is a stationary point of `B_λ(T)` at **every** temperature iff the
single number `x₀ = hc / (k_B · b_wien)` solves `(x − 5)eˣ + 5 = 0` — a statement about the constants alone,
which the harness checks numerically on the constants of the running package. -/
theorem lambda_max_stationary_iff (C : BBConst ℝ) (hC : C.Pos) {temp lm : ℝ} (ht : 0 < temp)
    (hlm : lambdaMax C temp = .ok lm) :
    deriv (fun l => planckFlam C Transc.real l temp) lm = 0 ↔
      (C.h * C.c / (C.kB * (C.bWien * 10 ^ 10)) - 5) *
        Real.exp (C.h * C.c / (C.kB * (C.bWien * 10 ^ 10))) + 5 = 0 := by
  have hb := hC.bWien; have hk := hC.kB
  rw [lambda_max_def (ne_of_gt ht)] at hlm
  injection hlm with hlm
  have hl : 0 < lm := by rw [← hlm]; positivity
  have hx : boltzArg C lm temp = C.h * C.c / (C.kB * (C.bWien * 10 ^ 10)) := by
    rw [← hlm]; unfold boltzArg; field_simp
  rw [wien_stationary C hC hl ht, hx]

/-- Wien's displacement law: at every temperature the energy density `B_λ(T)` has a unique global maximum
over `λ > 0`, at `λ* = hc/(x₀ k T)`, `x₀ ∈ (4, 5)` the positive root of `(x − 5)eˣ + 5 = 0`; so `λ*·T` is
the same for all temperatures -/
theorem wien_peak (C : BBConst ℝ) (hC : C.Pos) {temp : ℝ} (ht : 0 < temp) :
    ∃ x0 : ℝ, 4 < x0 ∧ x0 < 5 ∧ (x0 - 5) * Real.exp x0 + 5 = 0 ∧
      0 < C.h * C.c / (x0 * C.kB * temp) ∧
      ∀ l, 0 < l → l ≠ C.h * C.c / (x0 * C.kB * temp) →
        planckFlam C Transc.real l temp < planckFlam C Transc.real (C.h * C.c / (x0 * C.kB * temp)) temp :=
  planckFlam_peak C hC ht

/-- the positive root of Wien's equation is unique -/
theorem wien_root_unique {x y : ℝ} (hx : 0 < x) (hrx : (x - 5) * Real.exp x + 5 = 0) (hy : 0 < y)
    (hry : (y - 5) * Real.exp y + 5 = 0) : x = y :=
  wienW_root_unique hx hrx hy hry

/-- the code's `lambda_max` is the unique global maximiser of the energy density at every temperature,
provided the constants satisfy the single numerical identity `(x − 5)eˣ + 5 = 0` at `x = hc/(k_B b_wien)`
(checked on the running package's constants by the harness, op `constants`) -/
theorem lambda_max_is_peak (C : BBConst ℝ) (hC : C.Pos) {temp lm : ℝ} (ht : 0 < temp)
    (hlm : lambdaMax C temp = .ok lm)
    (hroot : (C.h * C.c / (C.kB * (C.bWien * 10 ^ 10)) - 5) *
      Real.exp (C.h * C.c / (C.kB * (C.bWien * 10 ^ 10))) + 5 = 0) :
    ∀ l, 0 < l → l ≠ lm → planckFlam C Transc.real l temp < planckFlam C Transc.real lm temp := by
  have hh := hC.h; have hc := hC.c; have hb := hC.bWien; have hk := hC.kB
  have hx0 : 0 < C.h * C.c / (C.kB * (C.bWien * 10 ^ 10)) := by positivity
  rw [lambda_max_def (ne_of_gt ht)] at hlm
  injection hlm with hlm
  have hlm' : C.h * C.c / (C.h * C.c / (C.kB * (C.bWien * 10 ^ 10)) * C.kB * temp) = lm := by
    rw [← hlm]; field_simp
  have := (planckFlam_peak_of_root C hC ht hx0 hroot).2
  rwa [hlm'] at this

/-! ### Stefan–Boltzmann (K = ℝ) -/

/-- the integral of the energy density `B_λ(T)` over all wavelengths is `σT⁴/π` with
`σ = 2π⁵k⁴/(15h³c²)` (`c` in cm/s, i.e. `C.c/10⁸`) -/
theorem stefan_boltzmann (C : BBConst ℝ) (hC : C.Pos) {temp : ℝ} (ht : 0 < temp) :
    ∫ l in Set.Ioi (0:ℝ), planckFlam C Transc.real l temp =
      (2 * Real.pi ^ 5 * C.kB ^ 4 / (15 * C.h ^ 3 * (C.c / 10 ^ 8) ^ 2)) * temp ^ 4 / Real.pi := by
  have hh := hC.h; have hc := hC.c; have hk := hC.kB
  have ha : 0 < C.h * C.c / (C.kB * temp) := by positivity
  have e : ∀ l ∈ Set.Ioi (0:ℝ), planckFlam C Transc.real l temp =
      (2 * C.h * C.c ^ 2 * 10 ^ 16) / (l ^ 5 * (Real.exp (C.h * C.c / (C.kB * temp) / l) - 1)) := by
    intro l hl
    have hl0 : (0:ℝ) < l := hl
    unfold planckFlam boltzArg
    rw [show C.h * C.c / (l * C.kB * temp) = C.h * C.c / (C.kB * temp) / l by field_simp]
    rfl
  rw [MeasureTheory.setIntegral_congr_fun measurableSet_Ioi e, integral_planck_shape _ _ ha]
  have hpi := Real.pi_pos
  field_simp

/-- the code's analytic integral `σ_SB T⁴/π` *is* the integral of the energy density over all wavelengths,
provided the constant `sigma_sb` satisfies its defining identity `σ = 2π⁵k⁴/(15h³c²)` (checked on the
running package's constants by the harness, op `constants`); likewise × Ω for the normalised kind -/
theorem integrate_is_stefan_boltzmann (C : BBConst ℝ) (hC : C.Pos) {temp : ℝ} (ht : 0 < temp)
    (hσ : C.sigmaSB = 2 * Real.pi ^ 5 * C.kB ^ 4 / (15 * C.h ^ 3 * (C.c / 10 ^ 8) ^ 2)) :
    bbIntegrate C Transc.real .plain temp = ∫ l in Set.Ioi (0:ℝ), planckFlam C Transc.real l temp ∧
    bbIntegrate C Transc.real .norm temp =
      (∫ l in Set.Ioi (0:ℝ), planckFlam C Transc.real l temp) * bbOmega C Transc.real := by
  rw [stefan_boltzmann C hC ht, ← hσ]
  exact ⟨rfl, rfl⟩

/-
  NOT PROVED (numerical facts about decimal CODATA constants, which hold only approximately; checked on the
  constants of the running package by the harness, op `constants`, to 1e-9 in every run):
    * hypothesis `hroot` of `lambda_max_is_peak`:  (x − 5)eˣ + 5 = 0 at x = hc/(k_B b_wien);
    * hypothesis `hσ` of `integrate_is_stefan_boltzmann`:  sigma_sb = 2π⁵k⁴/(15h³c²).
  The oracle additionally checks the argmax of the sampled energy density (1e-3) and a trapezoid integral
  of the sampled energy density against `integrate()` (1e-3) on the implementation.
-/

/-! ### thermal source -/

/-- the thermal source of a thermal spectral element is, at every wavelength, the black body at the
element's temperature × steradian per square arcsecond × beam filling factor × emissivity there,
whatever the outcome of the black body -/
theorem thermal_source_pointwise (th : Thermal K) (lam : K) :
    thermalSourceAt C T th lam =
      (bbEvaluate C T lam th.temp).map (fun bb => bb * C.srPerArcsec2 * th.beamFill * th.emis.eval lam) := by
  unfold thermalSourceAt
  cases bbEvaluate C T lam th.temp <;> rfl

theorem thermal_source_planck (hC : C.Pos) (hT : T.Lawful) (th : Thermal K) {lam : K} (hl : 0 < lam)
    (ht : 0 < th.temp) :
    thermalSourceAt C T th lam =
      .ok (planckPhotlam C T lam th.temp * C.srPerArcsec2 * th.beamFill * th.emis.eval lam) := by
  rw [thermal_source_pointwise, bbEvaluate_eq hC hT hl ht]; rfl

theorem thermal_source_sample (hC : C.Pos) (hT : T.Lawful) (th : Thermal K) (ht : 0 < th.temp)
    (w : List K) (hv : validateWavelengths w = .ok ()) :
    thermalSourceSample C T th w = .ok (w.map (fun l =>
      planckPhotlam C T l th.temp * C.srPerArcsec2 * th.beamFill * th.emis.eval l)) := by
  have hpos := ((validate_ok_iff w).mp hv).1
  unfold thermalSourceSample
  rw [hv]
  exact mapM_ok_of_forall w (fun l hl => thermal_source_planck hC hT th (hpos l hl) ht)

/-- a temperature given as a Quantity in a multiple of the Kelvin is that multiple in Kelvin; the
element built from it carries the converted value (`mK`: scale = 1/1000) -/
theorem thermal_temperature (v s f : K) (x y : List K) :
    (mkThermal v s f x y).temp = v * s ∧ (mkThermal v s f x y).beamFill = f := ⟨rfl, rfl⟩

/-! ### quantity-valued inputs: every spelling of the same physical value gives the same element -/

/-- what a spelling means: a bare number is in the target unit, a Quantity in a unit that is `s` × the target
unit is `v·s` (mK: 1/1000; percent: 1/100; arcsec²/arcmin²: 1/3600), an inconvertible unit is refused -/
theorem quantity_value (v s : K) :
    (QIn.number v).value = .ok v ∧ (QIn.quantity v s).value = .ok (v * s) ∧
    (QIn.incompatible v).value = .error .unitError := ⟨rfl, rfl, rfl⟩

/-- the constructor stores the physical values (temperature in Kelvin, beam filling factor as an unscaled
number), whatever the spelling; an inconvertible unit in either argument raises -/
theorem thermal_spelling (tq fq : QIn K) (x y : List K) :
    (∀ th, mkThermalQ tq fq x y = .ok th →
      tq.value = .ok th.temp ∧ fq.value = .ok th.beamFill ∧ th.emis = (mkTable x y false).1) ∧
    (∀ e, tq.value = .error e → mkThermalQ tq fq x y = .error e) ∧
    (∀ t e, tq.value = .ok t → fq.value = .error e → mkThermalQ tq fq x y = .error e) := by
  unfold mkThermalQ
  refine ⟨?_, ?_, ?_⟩
  · intro th h
    cases ht : tq.value with
    | error e => rw [ht] at h; cases h
    | ok t =>
      cases hf : fq.value with
      | error e => rw [ht, hf] at h; cases h
      | ok f =>
        rw [ht, hf] at h
        have h' : mkThermal t 1 f x y = th := by injection h
        subst h'
        exact ⟨by simp [mkThermal, tempKelvin], rfl, rfl⟩
  · intro e h; rw [h]; rfl
  · intro t e ht hf; rw [ht, hf]; rfl

/-- two spellings of the same physical values build the same element -/
theorem spelling_independent (tq tq' fq fq' : QIn K) (x y : List K)
    (ht : tq.value = tq'.value) (hf : fq.value = fq'.value) :
    mkThermalQ tq fq x y = mkThermalQ tq' fq' x y := by
  unfold mkThermalQ; rw [ht, hf]

/-- the setters: an assignment stores the physical value of what was assigned; a refused assignment (the setter
raised) leaves the element as it was -/
theorem assign_spelling (th : Thermal K) (q : QIn K) :
    (∀ t, q.value = .ok t → (th.step (ThStep.ofTemp q)).temp = t ∧
      (th.step (ThStep.ofTemp q)).beamFill = th.beamFill) ∧
    (∀ f, q.value = .ok f → (th.step (ThStep.ofFill q)).beamFill = f ∧
      (th.step (ThStep.ofFill q)).temp = th.temp) ∧
    (∀ e, q.value = .error e → th.step (ThStep.ofTemp q) = th ∧ th.step (ThStep.ofFill q) = th) := by
  refine ⟨?_, ?_, ?_⟩
  · intro t h; simp [ThStep.ofTemp, h, Thermal.step, tempKelvin]
  · intro f h; simp [ThStep.ofFill, h, Thermal.step]
  · intro e h; simp [ThStep.ofTemp, ThStep.ofFill, h, Thermal.step]

/-! ### the element as it is when asked: histories of assignments and queries on one element -/

/-- whatever was assigned to or asked of the element before, a `thermal_source()` query reports the element's
current temperature and beam filling factor and their pointwise product with the emissivity: the result
after a history is the result on the element the history leaves behind, and earlier results are unaffected -/
theorem history_query_current (th : Thermal K) (steps : List (ThStep K)) (w : List K) :
    thermalHistory C T w th (steps ++ [.query]) =
      thermalHistory C T w th steps ++ [thermalQuery C T w (steps.foldl Thermal.step th)] := by
  rw [thermalHistory_append]; rfl

/-- the element a history leaves behind: the last assigned temperature (converted to Kelvin), the last
assigned beam filling factor, the emissivity it was built with; queries change nothing -/
theorem history_state (th : Thermal K) (pre post : List (ThStep K)) :
    ((pre ++ post).foldl Thermal.step th).emis = th.emis ∧
    (∀ v s, (∀ a ∈ post, ThStep.isSetTemp a = false) →
      ((pre ++ .setTemp v s :: post).foldl Thermal.step th).temp = v * s) ∧
    (∀ f, (∀ a ∈ post, ThStep.isSetFill a = false) →
      ((pre ++ .setFill f :: post).foldl Thermal.step th).beamFill = f) ∧
    (th.step .query = th) := by
  refine ⟨foldl_step_emis _ _, ?_, ?_, rfl⟩
  · intro v s h
    rw [List.foldl_append, List.foldl_cons, foldl_step_temp_of_none _ _ h]; rfl
  · intro f h
    rw [List.foldl_append, List.foldl_cons, foldl_step_fill_of_none _ _ h]; rfl

/-- hence after any history the sampled thermal source is the closed form for the *current* attributes -/
theorem history_query_planck (hC : C.Pos) (hT : T.Lawful) (th : Thermal K) (steps : List (ThStep K))
    (w : List K) (hv : validateWavelengths w = .ok ())
    (ht : 0 < (steps.foldl Thermal.step th).temp) :
    thermalQuery C T w (steps.foldl Thermal.step th) =
      ((steps.foldl Thermal.step th).temp, (steps.foldl Thermal.step th).beamFill,
        .ok (w.map (fun l => planckPhotlam C T l (steps.foldl Thermal.step th).temp * C.srPerArcsec2 *
          (steps.foldl Thermal.step th).beamFill * th.emis.eval l))) := by
  unfold thermalQuery
  rw [thermal_source_sample hC hT _ ht w hv, foldl_step_emis]

/-! ### `from_file`: the header keywords -/

/-- the temperature is read from the keyword the caller names; a missing keyword is a `SynphotError` -/
theorem from_file_temperature_key (hdr : Header K) (tk bk : String) :
    (∀ t f, fromFileKeys hdr tk bk = .ok (t, f) → hdr.get tk = some t) ∧
    (hdr.get tk = none → fromFileKeys hdr tk bk = .error .synphotError) := by
  unfold fromFileKeys
  cases h : hdr.get tk with
  | none => simp
  | some t0 => simp

/-- both values come from the header keywords the caller names: the temperature from `temperature_key`
(`SynphotError` when the card is absent), the beam filling factor from `beamfill_key` (1 when the card is
absent).  (Not provable before /repo 76ba370, when the code read the literal 'BEAMFILL': DESIGN §7 F5.) -/
theorem from_file_keys (hdr : Header K) (tk bk : String) :
    (hdr.get tk = none → fromFileKeys hdr tk bk = .error .synphotError) ∧
    (∀ t, hdr.get tk = some t → fromFileKeys hdr tk bk = .ok (t, (hdr.get bk).getD 1)) := by
  unfold fromFileKeys
  constructor
  · intro h; rw [h]
  · intro t h; rw [h]

/-- the lookup is by upper-cased keyword, so any letter case of the caller's names reads the same cards -/
theorem from_file_keys_case (hdr : Header K) (tk tk' bk bk' : String)
    (ht : upperKey tk = upperKey tk') (hb : upperKey bk = upperKey bk') :
    fromFileKeys hdr tk bk = fromFileKeys hdr tk' bk' := by
  unfold fromFileKeys Header.get; rw [ht, hb]

/-- regression witness of F5: with cards `BEAMFILL = a` and `FILLX = b`, `beamfill_key = 'FILLX'` yields `b`
(the old code yielded `a`); a header without `FILLX` yields 1 whatever `BEAMFILL` holds; and the default
keyword still reads `BEAMFILL` -/
theorem from_file_keys_named (t a b : K) :
    fromFileKeys [("DEFT", t), ("BEAMFILL", a), ("FILLX", b)] "DEFT" "FILLX" = .ok (t, b) ∧
    fromFileKeys [("DEFT", t), ("BEAMFILL", a)] "DEFT" "FILLX" = .ok (t, 1) ∧
    fromFileKeys [("DEFT", t), ("BEAMFILL", a), ("FILLX", b)] "DEFT" "BEAMFILL" = .ok (t, a) := by
  have g1 : ∀ (h : Header K) (v : K), Header.get (("DEFT", v) :: h) "DEFT" = some v :=
    fun h v => Header.get_cons_eq _ _ _ _ (by decide)
  have g2 : ∀ (h : Header K) (v : K), Header.get (("DEFT", v) :: h) "BEAMFILL" = Header.get h "BEAMFILL" :=
    fun h v => Header.get_cons_ne _ _ _ _ (by decide)
  have g3 : ∀ (h : Header K) (v : K), Header.get (("DEFT", v) :: h) "FILLX" = Header.get h "FILLX" :=
    fun h v => Header.get_cons_ne _ _ _ _ (by decide)
  have g4 : ∀ (h : Header K) (v : K), Header.get (("BEAMFILL", v) :: h) "BEAMFILL" = some v :=
    fun h v => Header.get_cons_eq _ _ _ _ (by decide)
  have g5 : ∀ (h : Header K) (v : K), Header.get (("BEAMFILL", v) :: h) "FILLX" = Header.get h "FILLX" :=
    fun h v => Header.get_cons_ne _ _ _ _ (by decide)
  have g6 : ∀ (h : Header K) (v : K), Header.get (("FILLX", v) :: h) "FILLX" = some v :=
    fun h v => Header.get_cons_eq _ _ _ _ (by decide)
  refine ⟨?_, ?_, ?_⟩ <;>
    simp only [fromFileKeys, g1, g2, g3, g4, g5, g6, Header.get_nil, Option.getD]

/-- `from_file` carries exactly the values of `fromFileKeys` into the element; a name that is not a
FITS name is rejected -/
theorem from_file_element (hdr : Header K) (tk bk : String) (x y : List K) :
    thermalFromFile false hdr tk bk x y = .error .synphotError ∧
    (∀ t f, fromFileKeys hdr tk bk = .ok (t, f) →
      ∃ th, thermalFromFile true hdr tk bk x y = .ok th ∧ th.temp = t ∧ th.beamFill = f) ∧
    (∀ e, fromFileKeys hdr tk bk = .error e → thermalFromFile true hdr tk bk x y = .error e) := by
  refine ⟨rfl, ?_, ?_⟩
  · intro t f h
    refine ⟨mkThermal t 1 f x y, ?_, by simp [mkThermal, tempKelvin], rfl⟩
    simp [thermalFromFile, h, bind, Except.bind, pure, Except.pure]
  · intro e h
    simp [thermalFromFile, h, bind, Except.bind]

/-! ### non-vacuity -/

example : (⟨1, 1, 1, 1, 1, 1, 1, 1⟩ : BBConst ℚ).Pos := by
  constructor <;> norm_num

example : validateWavelengths ([1000, 2000, 5000] : List ℚ) = .ok () := by decide

/-- the hypothesis `hσ` of `integrate_is_stefan_boltzmann` is satisfiable by positive constants -/
example : ∃ C : BBConst ℝ, C.Pos ∧
    C.sigmaSB = 2 * Real.pi ^ 5 * C.kB ^ 4 / (15 * C.h ^ 3 * (C.c / 10 ^ 8) ^ 2) := by
  refine ⟨⟨1, 1, 1, 1, 2 * Real.pi ^ 5 * 1 ^ 4 / (15 * 1 ^ 3 * (1 / 10 ^ 8) ^ 2), 1, 1, 1⟩, ?_, rfl⟩
  have := Real.pi_pos
  constructor <;> first | (norm_num; done) | (simp only []; positivity)

/-- the hypothesis `hroot` of `lambda_max_is_peak` is satisfiable by positive constants -/
example : ∃ C : BBConst ℝ, C.Pos ∧
    (C.h * C.c / (C.kB * (C.bWien * 10 ^ 10)) - 5) *
      Real.exp (C.h * C.c / (C.kB * (C.bWien * 10 ^ 10))) + 5 = 0 := by
  obtain ⟨x0, h4, _, hr, _, _⟩ := wien_root
  have hx : (0:ℝ) < x0 := by linarith
  refine ⟨⟨1, 1, 1, 1 / (x0 * 10 ^ 10), 1, 1, 1, 1⟩, ?_, ?_⟩
  · constructor <;> first | (norm_num; done) | (simp only []; positivity)
  · have e : (1:ℝ) * 1 / (1 * (1 / (x0 * 10 ^ 10) * 10 ^ 10)) = x0 := by field_simp
    show ((1:ℝ) * 1 / (1 * (1 / (x0 * 10 ^ 10) * 10 ^ 10)) - 5) *
      Real.exp ((1:ℝ) * 1 / (1 * (1 / (x0 * 10 ^ 10) * 10 ^ 10))) + 5 = 0
    rw [e]; exact hr

/-- the hypotheses `C.Pos`, `T.Lawful` are satisfiable together: the real functions and any positive constants -/
example : ∃ (C : BBConst ℝ) (T : Transc ℝ), C.Pos ∧ T.Lawful :=
  ⟨⟨1, 1, 1, 1, 1, 1, 1, 1⟩, Transc.real, by constructor <;> norm_num, Transc.real_lawful⟩

example : upperKey "BeamFill" = upperKey "BEAMFILL" := by decide

example : fromFileKeys (K := ℚ) [("DEFT", 300), ("BEAMFILL", 2)] "deft" "BeamFill" = .ok (300, 2) := by
  decide

end Synphot.C16
