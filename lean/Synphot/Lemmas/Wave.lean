import Mathlib.Tactic.Linarith
import Mathlib.Data.List.Chain
import Synphot.Core.Wave

set_option linter.unusedSectionVars false
set_option linter.unusedSimpArgs false

namespace Synphot
variable {K : Type} [Field K] [LinearOrder K] [IsStrictOrderedRing K]

/-- strictly ascending (own recursive form, convenient for induction) -/
def StrictAsc : List K → Prop
  | a :: b :: t => a < b ∧ StrictAsc (b :: t)
  | _ => True

def StrictDesc : List K → Prop
  | a :: b :: t => b < a ∧ StrictDesc (b :: t)
  | _ => True

theorem strictAsc_iff (l : List K) : StrictAsc l ↔ (WeakAsc l = true ∧ HasAdjEq l = false) := by
  induction l with
  | nil => simp [StrictAsc, WeakAsc, HasAdjEq]
  | cons a l ih =>
    cases l with
    | nil => simp [StrictAsc, WeakAsc, HasAdjEq]
    | cons b l =>
      simp only [StrictAsc, WeakAsc, HasAdjEq, ih, Bool.and_eq_true, decide_eq_true_eq,
        Bool.or_eq_false_iff, decide_eq_false_iff_not]
      constructor
      · rintro ⟨h, h1, h2⟩; exact ⟨⟨le_of_lt h, h1⟩, ne_of_lt h, h2⟩
      · rintro ⟨⟨h, h1⟩, hne, h2⟩; exact ⟨lt_of_le_of_ne h hne, h1, h2⟩

theorem strictDesc_iff (l : List K) : StrictDesc l ↔ (WeakDesc l = true ∧ HasAdjEq l = false) := by
  induction l with
  | nil => simp [StrictDesc, WeakDesc, HasAdjEq]
  | cons a l ih =>
    cases l with
    | nil => simp [StrictDesc, WeakDesc, HasAdjEq]
    | cons b l =>
      simp only [StrictDesc, WeakDesc, HasAdjEq, ih, Bool.and_eq_true, decide_eq_true_eq,
        Bool.or_eq_false_iff, decide_eq_false_iff_not]
      constructor
      · rintro ⟨h, h1, h2⟩; exact ⟨⟨le_of_lt h, h1⟩, (ne_of_lt h).symm, h2⟩
      · rintro ⟨⟨h, h1⟩, hne, h2⟩; exact ⟨lt_of_le_of_ne h (Ne.symm hne), h1, h2⟩

/-- `validate_wavelengths` accepts exactly the positive, strictly monotone arrays -/
theorem validate_ok_iff (w : List K) :
    validateWavelengths w = .ok () ↔ ((∀ x ∈ w, 0 < x) ∧ (StrictAsc w ∨ StrictDesc w)) := by
  unfold validateWavelengths
  rw [strictAsc_iff, strictDesc_iff]
  by_cases h0 : w.any (fun x => decide (x ≤ 0)) = true
  · simp only [h0, if_true]
    constructor
    · intro h; cases h
    · rintro ⟨hp, _⟩
      rw [List.any_eq_true] at h0
      obtain ⟨x, hx, hx0⟩ := h0
      have := hp x hx
      simp at hx0
      exact absurd this (not_lt.mpr hx0)
  · have hpos : ∀ x ∈ w, 0 < x := by
      intro x hx
      by_contra hc
      apply h0
      rw [List.any_eq_true]
      exact ⟨x, hx, by simpa using not_lt.mp hc⟩
    simp only [h0, Bool.false_eq_true, if_false]
    cases ha : WeakAsc w <;> cases hd : WeakDesc w <;> cases he : HasAdjEq w <;> first | (simp; done) | (simp; exact hpos)

/-- which error: zero/negative wins, then non-monotone, then duplicate -/
theorem validate_zero_iff (w : List K) :
    validateWavelengths w = .error .zeroWavelength ↔ ∃ x ∈ w, x ≤ 0 := by
  unfold validateWavelengths
  by_cases h0 : w.any (fun x => decide (x ≤ 0)) = true
  · simp only [h0, if_true, true_iff]
    rw [List.any_eq_true] at h0
    obtain ⟨x, hx, hx0⟩ := h0
    exact ⟨x, hx, by simpa using hx0⟩
  · simp only [h0, Bool.false_eq_true, if_false]
    have : ¬ ∃ x ∈ w, x ≤ 0 := by
      rintro ⟨x, hx, hx0⟩
      apply h0
      rw [List.any_eq_true]
      exact ⟨x, hx, by simpa using hx0⟩
    simp only [this, iff_false]
    split_ifs <;> simp

theorem validate_unsorted_iff (w : List K) :
    validateWavelengths w = .error .unsortedWavelength ↔
      ((∀ x ∈ w, 0 < x) ∧ WeakAsc w = false ∧ WeakDesc w = false) := by
  unfold validateWavelengths
  by_cases h0 : w.any (fun x => decide (x ≤ 0)) = true
  · simp only [h0, if_true]
    constructor
    · intro h; cases h
    · rintro ⟨hp, _⟩
      rw [List.any_eq_true] at h0
      obtain ⟨x, hx, hx0⟩ := h0
      exact absurd (hp x hx) (not_lt.mpr (by simpa using hx0))
  · have hpos : ∀ x ∈ w, 0 < x := by
      intro x hx
      by_contra hc
      apply h0
      rw [List.any_eq_true]
      exact ⟨x, hx, by simpa using not_lt.mp hc⟩
    simp only [h0, Bool.false_eq_true, if_false]
    cases ha : WeakAsc w <;> cases hd : WeakDesc w <;> cases he : HasAdjEq w <;> first | (simp; done) | (simp; exact hpos)

theorem validate_duplicate_iff (w : List K) :
    validateWavelengths w = .error .duplicateWavelength ↔
      ((∀ x ∈ w, 0 < x) ∧ (WeakAsc w = true ∨ WeakDesc w = true) ∧ HasAdjEq w = true) := by
  unfold validateWavelengths
  by_cases h0 : w.any (fun x => decide (x ≤ 0)) = true
  · simp only [h0, if_true]
    constructor
    · intro h; cases h
    · rintro ⟨hp, _⟩
      rw [List.any_eq_true] at h0
      obtain ⟨x, hx, hx0⟩ := h0
      exact absurd (hp x hx) (not_lt.mpr (by simpa using hx0))
  · have hpos : ∀ x ∈ w, 0 < x := by
      intro x hx
      by_contra hc
      apply h0
      rw [List.any_eq_true]
      exact ⟨x, hx, by simpa using not_lt.mp hc⟩
    simp only [h0, Bool.false_eq_true, if_false]
    cases ha : WeakAsc w <;> cases hd : WeakDesc w <;> cases he : HasAdjEq w <;> first | (simp; done) | (simp; exact hpos)

/-! bridges to `List.IsChain`, from which reversal lemmas are inherited -/

theorem weakAsc_iff_chain (l : List K) : WeakAsc l = true ↔ l.IsChain (· ≤ ·) := by
  induction l with
  | nil => simp [WeakAsc]
  | cons a l ih =>
    cases l with
    | nil => simp [WeakAsc]
    | cons b l => simp only [WeakAsc, Bool.and_eq_true, decide_eq_true_eq, ih, List.isChain_cons_cons]

theorem weakDesc_iff_chain (l : List K) : WeakDesc l = true ↔ l.IsChain (fun a b => b ≤ a) := by
  induction l with
  | nil => simp [WeakDesc]
  | cons a l ih =>
    cases l with
    | nil => simp [WeakDesc]
    | cons b l => simp only [WeakDesc, Bool.and_eq_true, decide_eq_true_eq, ih, List.isChain_cons_cons]

theorem hasAdjEq_false_iff_chain (l : List K) : HasAdjEq l = false ↔ l.IsChain (· ≠ ·) := by
  induction l with
  | nil => simp [HasAdjEq]
  | cons a l ih =>
    cases l with
    | nil => simp [HasAdjEq]
    | cons b l =>
      simp only [HasAdjEq, Bool.or_eq_false_iff, decide_eq_false_iff_not, ih, List.isChain_cons_cons]

theorem strictAsc_iff_chain (l : List K) : StrictAsc l ↔ l.IsChain (· < ·) := by
  induction l with
  | nil => simp [StrictAsc]
  | cons a l ih =>
    cases l with
    | nil => simp [StrictAsc]
    | cons b l => simp only [StrictAsc, ih, List.isChain_cons_cons]

theorem strictDesc_iff_chain (l : List K) : StrictDesc l ↔ l.IsChain (fun a b => b < a) := by
  induction l with
  | nil => simp [StrictDesc]
  | cons a l ih =>
    cases l with
    | nil => simp [StrictDesc]
    | cons b l => simp only [StrictDesc, ih, List.isChain_cons_cons]

theorem strictAsc_reverse (l : List K) : StrictAsc l.reverse ↔ StrictDesc l := by
  rw [strictAsc_iff_chain, strictDesc_iff_chain, List.isChain_reverse]

theorem strictDesc_reverse (l : List K) : StrictDesc l.reverse ↔ StrictAsc l := by
  rw [strictAsc_iff_chain, strictDesc_iff_chain, List.isChain_reverse]

theorem weakAsc_reverse (l : List K) : WeakAsc l.reverse = WeakDesc l := by
  rw [Bool.eq_iff_iff, weakAsc_iff_chain, weakDesc_iff_chain, List.isChain_reverse]

theorem weakDesc_reverse (l : List K) : WeakDesc l.reverse = WeakAsc l := by
  rw [Bool.eq_iff_iff, weakAsc_iff_chain, weakDesc_iff_chain, List.isChain_reverse]

theorem hasAdjEq_reverse (l : List K) : HasAdjEq l.reverse = HasAdjEq l := by
  have : (HasAdjEq l.reverse = false) ↔ (HasAdjEq l = false) := by
    rw [hasAdjEq_false_iff_chain, hasAdjEq_false_iff_chain, List.isChain_reverse]
    constructor <;> intro h <;> exact h.imp (fun _ _ hab => Ne.symm hab)
  cases h1 : HasAdjEq l.reverse <;> cases h2 : HasAdjEq l <;> simp_all

/-- the verdict (and the error class) does not depend on the direction of the array -/
theorem validate_reverse (w : List K) : validateWavelengths w.reverse = validateWavelengths w := by
  unfold validateWavelengths
  rw [weakAsc_reverse, weakDesc_reverse, hasAdjEq_reverse, List.any_reverse]
  cases WeakAsc w <;> cases WeakDesc w <;> rfl

end Synphot
