/-
  Synphot.Core.BlackBody — black-body and thermal spectra:
  `blackbody.blackbody_nu` (synphot/blackbody.py:163-231), `models.BlackBody1D.evaluate /
  lambda_max / integrate`, `models.BlackBodyNorm1D` (synphot/models.py:26-180),
  `thermal.ThermalSpectralElement.thermal_source / from_file` (synphot/thermal.py:73-148),
  `units.SR_PER_ARCSEC2` (synphot/units.py:23).

  Wavelengths are in Angstrom, temperatures in Kelvin.  All physical constants are data:
  the harness reads them from the running package (astropy.constants / synphot.units) and
  sends them with every case, so a change of a constant in the source is a change of the
  *implementation's* input, not of the model.

  The Python code evaluates Planck's law in SI (`const.h`, `const.c`, `const.k_B`) and converts
  the result to FNU (erg s⁻¹ cm⁻² Hz⁻¹) with astropy; the model evaluates the same expression in
  CGS (`h` in erg s, `c` in Angstrom/s, hence `c/10⁸` in cm/s, `k_B` in erg/K): the same real
  number, the unit conversion being the literal power of ten.

  Everything lives in the namespace `Synphot.BlackBody` (other model files define their own
  `bbEval`, `Header`, …).
-/
import Synphot.Core.Interp
import Synphot.Core.Wave
import Synphot.Core.Transc

namespace Synphot.BlackBody
variable {K : Type} [Field K] [LinearOrder K] [IsStrictOrderedRing K]

/-- the constants the black-body / thermal code reads from astropy and `synphot.units` -/
structure BBConst (K : Type) where
  h : K              -- `const.h`       Planck constant, erg s
  c : K              -- `const.c`       speed of light, Angstrom / s
  kB : K             -- `const.k_B`     Boltzmann constant, erg / K
  bWien : K          -- `const.b_wien.value`, m K
  sigmaSB : K        -- `const.sigma_sb`, erg s⁻¹ cm⁻² K⁻⁴
  rSun : K           -- `const.R_sun`, m
  kpc : K            -- `const.kpc`, m
  srPerArcsec2 : K   -- `units.SR_PER_ARCSEC2`, steradian per square arcsecond

/-- `u.Quantity(temperature, u.K)` / `_process_generic_param(pval, u.K)` for a temperature given as
`value × unit`, the unit being a multiple `scale` of the Kelvin (K ↦ 1, mK ↦ 1/1000); a plain number
is taken to be in Kelvin (`scale = 1`). -/
def tempKelvin (value scale : K) : K := value * scale

/-- a quantity-valued argument as the caller spells it: a bare number (taken to be in the target unit
already), a `Quantity` whose unit is `scale` × the target unit (K ↦ 1, mK ↦ 1/1000; for a beam filling
factor: unscaled ↦ 1, percent ↦ 1/100, cm/m ↦ 1/100, arcsec²/arcmin² ↦ 1/3600, …), or a `Quantity` in a unit
that cannot be converted to the target unit (metre, °C without equivalencies, …) -/
inductive QIn (K : Type)
  | number (v : K)
  | quantity (v scale : K)
  | incompatible (v : K)
  deriving Repr

/-- `units.validate_quantity(what, unit).value` / `_process_generic_param(pval, unit)`: the physical value in
the target unit; `Quantity.to` raises `UnitConversionError` for an incompatible unit -/
def QIn.value : QIn K → Except Err K
  | .number v => .ok v
  | .quantity v s => .ok (tempKelvin v s)
  | .incompatible _ => .error .unitError

/-- `blackbody_nu(λ Å, T)` at one wavelength: `B_ν(T)` in FNU per steradian.

* `np.any(temp < 0)` raises `ValueError`;
* `T = 0`: `hν/(k·0) = inf`, `expm1(inf) = inf`, and the finite numerator divided by `inf` is the
  number `0.0` (NumPy errors are silenced by `BlackBody1D.evaluate`);
* a zero `expm1` would make NumPy return `inf`/`nan` (`Err.nan`). -/
def blackbodyNu (C : BBConst K) (T : Transc K) (lam temp : K) : Except Err K :=
  if temp < 0 then .error .valueError
  else if temp = 0 then .ok 0
  else
    let freq := C.c / lam                       -- Hz  (`u.spectral()`)
    let logBoltz := C.h * freq / (C.kB * temp)
    let boltzm1 := T.expm1 logBoltz
    if boltzm1 = 0 then .error .nan
    else .ok (2 * C.h * freq ^ 3 / ((C.c / 10 ^ 8) ^ 2 * boltzm1))

/-- FNU → PHOTLAM at wavelength `lam` (`u.spectral_density`: `F_λ = F_ν c/λ²`, photons = `F_λ λ/(hc)`) -/
def fnuToPhotlam (C : BBConst K) (lam f : K) : K := f * C.c / lam ^ 2 * lam / (C.h * C.c)

/-- PHOTLAM → FLAM (used to express the curve as a power density: Wien, Stefan–Boltzmann) -/
def photlamToFlam (C : BBConst K) (lam p : K) : K := p * (C.h * C.c) / lam

/-- `BlackBody1D.evaluate(x, temperature)` at one wavelength: PHOTLAM per steradian -/
def bbEvaluate (C : BBConst K) (T : Transc K) (lam temp : K) : Except Err K := do
  let fnu ← blackbodyNu C T lam temp
  pure (fnuToPhotlam C lam fnu)

/-- `BlackBodyNorm1D._omega = np.pi * (R_sun / kpc) ** 2` (steradian) -/
def bbOmega (C : BBConst K) (T : Transc K) : K := T.pi * (C.rSun / C.kpc) ^ 2

/-- `BlackBodyNorm1D.evaluate`: PHOTLAM -/
def bbNormEvaluate (C : BBConst K) (T : Transc K) (lam temp : K) : Except Err K := do
  let bb ← bbEvaluate C T lam temp
  pure (bb * bbOmega C T)

/-- which of the two model classes a source spectrum was built from -/
inductive BBKind | plain | norm
  deriving DecidableEq, Repr

def bbEval (C : BBConst K) (T : Transc K) : BBKind → K → K → Except Err K
  | .plain => bbEvaluate C T
  | .norm => bbNormEvaluate C T

/-- `SourceSpectrum(BlackBody1D | BlackBodyNorm1D, temperature=T)(wavelengths)`:
`validate_wavelengths`, then the model at every wavelength (first failure fails the call) -/
def bbSample (C : BBConst K) (T : Transc K) (k : BBKind) (temp : K) (w : List K) :
    Except Err (List K) := do
  validateWavelengths w
  w.mapM (fun l => bbEval C T k l temp)

/-- `BlackBody1D.lambda_max`: `((b_wien / T) * u.m).to_value(u.AA)`; `T = 0` gives `inf` -/
def lambdaMax (C : BBConst K) (temp : K) : Except Err K :=
  if temp = 0 then .error .nan else .ok (C.bWien / temp * 10 ^ 10)

/-- `BlackBody1D.integrate` / `BlackBodyNorm1D.integrate`: `σ T⁴ / π` per steradian (× Ω),
in erg s⁻¹ cm⁻² -/
def bbIntegrate (C : BBConst K) (T : Transc K) (k : BBKind) (temp : K) : K :=
  match k with
  | .plain => C.sigmaSB * temp ^ 4 / T.pi
  | .norm => C.sigmaSB * temp ^ 4 / T.pi * bbOmega C T

/-! ### thermal spectral element -/

/-- state of a `ThermalSpectralElement` built on an `Empirical1D`: temperature in Kelvin
(`validate_quantity(what, u.K)`), beam filling factor, emissivity table -/
structure Thermal (K : Type) where
  temp : K
  beamFill : K
  emis : Table K

/-- `ThermalSpectralElement(Empirical1D, temperature, beam_fill_factor, points=x, lookup_table=y)`:
the table is built with the constructor's defaults (`keep_neg=False`) -/
def mkThermal (tempValue tempScale beamFill : K) (x y : List K) : Thermal K :=
  { temp := tempKelvin tempValue tempScale, beamFill := beamFill, emis := (mkTable x y false).1 }

/-- the constructor with its arguments as spelt by the caller: temperature (→ K) and beam filling factor
(→ unscaled dimensionless number) both go through `validate_quantity`; an incompatible unit raises -/
def mkThermalQ (tq fq : QIn K) (x y : List K) : Except Err (Thermal K) := do
  let t ← tq.value
  let f ← fq.value
  pure (mkThermal t 1 f x y)

/-- `thermal_source()` evaluated at one wavelength:
`SourceSpectrum(BlackBody1D, T) * SR_PER_ARCSEC2 * beam_fill_factor * self` -/
def thermalSourceAt (C : BBConst K) (T : Transc K) (th : Thermal K) (lam : K) : Except Err K := do
  let bb ← bbEvaluate C T lam th.temp
  pure (bb * C.srPerArcsec2 * th.beamFill * th.emis.eval lam)

/-- `thermal_source()(wavelengths)` -/
def thermalSourceSample (C : BBConst K) (T : Transc K) (th : Thermal K) (w : List K) :
    Except Err (List K) := do
  validateWavelengths w
  w.mapM (thermalSourceAt C T th)

/-! ### histories on one element: attribute assignments interleaved with `thermal_source()` queries -/

/-- one thing a caller does to a `ThermalSpectralElement` -/
inductive ThStep (K : Type)
  | setTemp (value scale : K)     -- `th.temperature = value * unit` (`validate_quantity(what, u.K)`)
  | setFill (f : K)               -- `th.beam_fill_factor = f`
  | query                         -- `th.thermal_source()`; leaves the element as it is
  | refused                       -- an assignment whose setter raised: the attribute keeps its value
  deriving Repr

/-- `th.temperature = what` -/
def ThStep.ofTemp (q : QIn K) : ThStep K :=
  match q.value with
  | .ok t => .setTemp t 1
  | .error _ => .refused

/-- `th.beam_fill_factor = what` -/
def ThStep.ofFill (q : QIn K) : ThStep K :=
  match q.value with
  | .ok f => .setFill f
  | .error _ => .refused

/-- the element after one step (thermal.py:48-70: plain attribute setters; `thermal_source` builds a new
spectrum from the attributes and stores nothing) -/
def Thermal.step (th : Thermal K) : ThStep K → Thermal K
  | .setTemp v s => { th with temp := tempKelvin v s }
  | .setFill f => { th with beamFill := f }
  | .query => th
  | .refused => th

/-- what one query reports: `sp.meta['temperature']`, `sp.meta['beam_fill_factor']`, `sp(wavelengths)` -/
def thermalQuery (C : BBConst K) (T : Transc K) (w : List K) (th : Thermal K) :
    K × K × Except Err (List K) :=
  (th.temp, th.beamFill, thermalSourceSample C T th w)

/-- the results of all queries of a history, in order -/
def thermalHistory (C : BBConst K) (T : Transc K) (w : List K) :
    Thermal K → List (ThStep K) → List (K × K × Except Err (List K))
  | _, [] => []
  | th, .query :: r => thermalQuery C T w th :: thermalHistory C T w th r
  | th, .setTemp v s :: r => thermalHistory C T w (th.step (.setTemp v s)) r
  | th, .setFill f :: r => thermalHistory C T w (th.step (.setFill f)) r
  | th, .refused :: r => thermalHistory C T w th r

/-! ### `ThermalSpectralElement.from_file`: which header keywords are read -/

/-- the numeric cards of a FITS table-extension header: keyword (upper case, as FITS stores it) ↦ value -/
abbrev Header (K : Type) := List (String × K)

/-- astropy normalises the keyword of a header lookup to upper case (characters, so that the
kernel can evaluate it on literals) -/
def upperKey (s : String) : List Char := s.toList.map Char.toUpper

/-- `tab_hdr.get(key)`: astropy's header lookup is case-insensitive (the key is upper-cased) -/
def Header.get (hdr : Header K) (key : String) : Option K :=
  (hdr.find? (fun p => p.1.toList == upperKey key)).map (·.2)

/-- the keyword part of `from_file(filename, temperature_key, beamfill_key)` (thermal.py:132-139, as
repaired by 76ba370): temperature from `temperature_key` (missing → `SynphotError`); beam filling
factor from `beamfill_key`, 1 when that card is absent. -/
def fromFileKeys (hdr : Header K) (temperatureKey beamfillKey : String) : Except Err (K × K) :=
  match hdr.get temperatureKey with
  | none => .error .synphotError
  | some t => .ok (t, (hdr.get beamfillKey).getD 1)

/-- `from_file`: not a FITS name → `SynphotError`; keywords; then the emissivity table read from the
file's `WAVELENGTH` / `EMISSIVITY` columns (`x`, `y`: the stored columns, file I/O itself is C14's subject) -/
def thermalFromFile (isFits : Bool) (hdr : Header K) (temperatureKey beamfillKey : String)
    (x y : List K) : Except Err (Thermal K) :=
  if !isFits then .error .synphotError
  else do
    let (t, f) ← fromFileKeys hdr temperatureKey beamfillKey
    pure (mkThermal t 1 f x y)

end Synphot.BlackBody
