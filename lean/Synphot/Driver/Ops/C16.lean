/-
  Driver ops of C16 (black body / thermal), K = ℚ, transcendental functions via `transcQ`.
-/
import Synphot.Driver.Json
import Synphot.Core.BlackBody
import Synphot.Driver.FloatTransc

open Lean Synphot Synphot.BlackBody

namespace Synphot.Driver

def parseConstC16 (j : Json) : M (BBConst Rat) := do
  pure { h := ← fRat j "h", c := ← fRat j "c", kB := ← fRat j "kB", bWien := ← fRat j "b_wien",
         sigmaSB := ← fRat j "sigma_sb", rSun := ← fRat j "r_sun", kpc := ← fRat j "kpc",
         srPerArcsec2 := ← fRat j "sr_per_arcsec2" }

def parseKindC16 (s : String) : M BBKind :=
  match s with
  | "plain" => pure .plain
  | "norm" => pure .norm
  | _ => .error s!"unknown black-body kind {s}"

def parseHeaderC16 (j : Json) : M (Header Rat) := do
  let cards ← asArr j
  cards.mapM fun c => do
    match c with
    | .arr #[k, v] => pure ((← asStr k), (← asRat v))
    | _ => .error "expected [keyword, value]"

/-- a quantity-valued argument: {"num": v} | {"q": v, "scale": s} | {"bad": v} -/
def parseQInC16 (j : Json) : M (QIn Rat) :=
  match fOpt j "num", fOpt j "q", fOpt j "bad" with
  | some v, _, _ => do pure (.number (← asRat v))
  | _, some v, _ => do pure (.quantity (← asRat v) (← fRat j "scale"))
  | _, _, some v => do pure (.incompatible (← asRat v))
  | _, _, _ => .error "expected {num} | {q, scale} | {bad}"

def fQInC16 (j : Json) (k : String) : M (QIn Rat) := getField j k >>= parseQInC16

def parseStepC16 (j : Json) : M (ThStep Rat) := do
  match ← fStr j "act" with
  | "set_T" => pure (ThStep.ofTemp (← fQInC16 j "tq"))
  | "set_fill" => pure (ThStep.ofFill (← fQInC16 j "fq"))
  | "query" => pure .query
  | a => .error s!"unknown step {a}"

/-- optional "steps": the history run on the element after the first (fresh) query -/
def parseStepsC16 (j : Json) : M (List (ThStep Rat)) :=
  match fOpt j "steps" with
  | none => pure []
  | some v => do (← asArr v).mapM parseStepC16

/-- outcome of every assignment of a history, in order: "ok" or the error class -/
def jAssignC16 (steps : List (ThStep Rat)) : Json :=
  Json.arr (steps.filterMap fun
    | .query => none
    | .refused => some (Json.str Err.unitError.name)
    | _ => some (Json.str "ok")).toArray

def jHistoryC16 (h : List (Rat × Rat × Except Err (List Rat))) : Json :=
  Json.arr (h.map fun (t, f, s) => Json.mkObj [
    ("temp", jRat t), ("fill", jRat f), ("sample", outcome jRats s)]).toArray

def dispatchC16M (op : String) (j : Json) : M Json := do
  match op with
  | "bb" => do
      -- SourceSpectrum(BlackBody1D|BlackBodyNorm1D, temperature=tval*unit): samples, lambda_max, integrate
      let C ← getField j "const" >>= parseConstC16
      let k ← fStr j "kind" >>= parseKindC16
      let tq ← fQInC16 j "tq"
      let w ← fRats j "w"
      pure (outcome (fun (t : Rat) => Json.mkObj [
        ("sample", outcome jRats (bbSample C transcQ k t w)),
        ("lambda_max", outcome jRat (lambdaMax C t)),
        ("integrate", jRat (bbIntegrate C transcQ k t))]) tq.value)
  | "thermal" => do
      -- ThermalSpectralElement(Empirical1D, T, beam_fill_factor, points, lookup_table).thermal_source()(w)
      let C ← getField j "const" >>= parseConstC16
      let r := mkThermalQ (← fQInC16 j "tq") (← fQInC16 j "fq") (← fRats j "pts") (← fRats j "vals")
      let w ← fRats j "w"
      let steps ← parseStepsC16 j
      pure (outcome (fun (th : Thermal Rat) => Json.mkObj [
        ("temp", jRat th.temp), ("fill", jRat th.beamFill),
        ("emis", jRats (w.map th.emis.eval)),
        ("sample", outcome jRats (thermalSourceSample C transcQ th w)),
        ("assign", jAssignC16 steps),
        ("history", jHistoryC16 (thermalHistory C transcQ w th steps))]) r)
  | "thermal_file" => do
      -- ThermalSpectralElement.from_file(name, temperature_key, beamfill_key) and its thermal source
      let C ← getField j "const" >>= parseConstC16
      let hdr ← getField j "hdr" >>= parseHeaderC16
      let r := thermalFromFile (← fBool j "is_fits") hdr (← fStr j "tkey") (← fStr j "bkey")
        (← fRats j "pts") (← fRats j "vals")
      let w ← fRats j "w"
      let steps ← parseStepsC16 j
      pure (outcome (fun (th : Thermal Rat) => Json.mkObj [
        ("temp", jRat th.temp), ("fill", jRat th.beamFill),
        ("sample", outcome jRats (thermalSourceSample C transcQ th w)),
        ("assign", jAssignC16 steps),
        ("history", jHistoryC16 (thermalHistory C transcQ w th steps))]) r)
  | _ => .error s!"unknown op {op}"

/-- ops of C16; `none`: not one of ours -/
def dispatchC16 (op : String) (j : Json) : Option (M Json) :=
  if op ∈ ["bb", "thermal", "thermal_file"] then some (dispatchC16M op j) else none

end Synphot.Driver
